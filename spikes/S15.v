(* C10 sketch: explicit heap, aliasing, frame statement, cache invariant by induction over histories *)
From Coq Require Import ZArith List Bool Lia.
Import ListNotations.
Open Scope Z_scope.
Definition id := nat.
Definition arrv := list Z.                      (* array contents, flattened; shape irrelevant for the frame *)
Definition heap := id -> option arrv.
Definition upd (h : heap) (i : id) (v : arrv) : heap := fun j => if Nat.eqb j i then Some v else h j.
(* what an API call does to the heap: allocates fresh ids >= next, writes a set of ids *)
Record effect := { writes : list id; heap_after : heap; next_after : nat }.
Record state := { hp : heap; next : nat; cache : list ((Z*Z*Z*Z) * id) }.
(* --- two constructors of Plane: as in the code (binarise in place) and as repaired (copy first) --- *)
Definition binarise (v : arrv) : arrv := map (fun x => if x =? 0 then 0 else 1) v.
Definition plane_init_inplace (s : state) (mask : id) : effect :=
  match hp s mask with
  | Some v => {| writes := [mask]; heap_after := upd (hp s) mask (binarise v); next_after := next s |}
  | None => {| writes := []; heap_after := hp s; next_after := next s |} end.
Definition plane_init_copy (s : state) (mask : id) : effect :=
  match hp s mask with
  | Some v => {| writes := [next s]; heap_after := upd (hp s) (next s) (binarise v); next_after := S (next s) |}
  | None => {| writes := []; heap_after := hp s; next_after := next s |} end.
(* frame: every id that existed before and is not in the documented in-place set keeps its contents *)
Definition allocated (s : state) (i : id) := (i < next s)%nat.
Definition frame_ok (s : state) (e : effect) (allowed : list id) :=
  forall i, allocated s i -> ~ In i allowed -> heap_after e i = hp s i.
Definition wf (s : state) := forall i, hp s i <> None -> allocated s i.
Theorem plane_init_copy_frame s m : wf s -> frame_ok s (plane_init_copy s m) [].
Proof. intros W i Hi _. unfold plane_init_copy. destruct (hp s m); cbn; [|reflexivity].
  unfold upd. destruct (Nat.eqb_spec i (next s)); [unfold allocated in Hi; lia|reflexivity]. Qed.
Theorem plane_init_inplace_refuted :
  exists s m, wf s /\ ~ frame_ok s (plane_init_inplace s m) [].
Proof.
  exists {| hp := fun j => if Nat.eqb j 0 then Some [0; 5; 2] else None; next := 1; cache := [] |}, 0%nat.
  split. - intros i H. cbn in *. destruct (Nat.eqb_spec i 0); [subst; unfold allocated; cbn; lia|congruence].
  - intros F. specialize (F 0%nat ltac:(unfold allocated; cbn; lia) ltac:(cbn; tauto)). cbn in F. discriminate. Qed.
(* --- cache invariant over histories --- *)
Definition coords (k : Z*Z*Z*Z) : arrv := let '(m,n,M,N) := k in
  map (fun i => Z.of_nat i - m / 2) (seq 0 (Z.to_nat m)) ++ map (fun i => Z.of_nat i - n / 2) (seq 0 (Z.to_nat n)) ++
  map (fun i => Z.of_nat i - M / 2) (seq 0 (Z.to_nat M)) ++ map (fun i => Z.of_nat i - N / 2) (seq 0 (Z.to_nat N)).
Definition cache_valid (s : state) := forall k i, In (k, i) (cache s) -> hp s i = Some (coords k) /\ allocated s i.
Definition key_eqb (a b : Z*Z*Z*Z) := let '(a1,a2,a3,a4) := a in let '(b1,b2,b3,b4) := b in
  (a1 =? b1) && (a2 =? b2) && (a3 =? b3) && (a4 =? b4).
Fixpoint lookup (k : Z*Z*Z*Z) (c : list ((Z*Z*Z*Z) * id)) : option id :=
  match c with [] => None | (k', i) :: r => if key_eqb k k' then Some i else lookup k r end.
(* dft2 call: reads (or fills) the cache entry, writes only a fresh output array *)
Definition dft2_call (s : state) (k : Z*Z*Z*Z) (result : arrv -> arrv) : state * arrv :=
  match lookup k (cache s) with
  | Some i => match hp s i with
              | Some c => ({| hp := upd (hp s) (next s) (result c); next := S (next s); cache := cache s |}, result c)
              | None => (s, []) end
  | None => let c := coords k in
            ({| hp := upd (upd (hp s) (next s) c) (S (next s)) (result c); next := S (S (next s)); cache := (k, next s) :: cache s |}, result c)
  end.
Lemma lookup_in k c i : lookup k c = Some i -> exists k', In (k', i) c /\ key_eqb k k' = true.
Proof. induction c as [|[k' j] r IH]; cbn; [discriminate|]. destruct (key_eqb k k') eqn:E.
  - intros [= <-]. eauto. - intros H. destruct (IH H) as [k'' [? ?]]. eauto. Qed.
Lemma key_eqb_eq a b : key_eqb a b = true -> a = b.
Proof. destruct a as [[[a1 a2] a3] a4], b as [[[b1 b2] b3] b4]; cbn. intros H.
  repeat (apply andb_true_iff in H; destruct H as [H ?]). repeat f_equal; lia. Qed.
Theorem dft2_call_pure s k result : cache_valid s ->
  snd (dft2_call s k result) = result (coords k) /\ cache_valid (fst (dft2_call s k result)).
Proof.
  intros V. unfold dft2_call. destruct (lookup k (cache s)) as [i|] eqn:L.
  - destruct (lookup_in _ _ _ L) as [k' [Hin Hk]]. apply key_eqb_eq in Hk. subst k'.
    destruct (V _ _ Hin) as [Hh Ha]. rewrite Hh. cbn. split; [reflexivity|].
    intros k2 i2 H2. destruct (V _ _ H2) as [Hh2 Ha2]. cbn. unfold upd, allocated in *. cbn.
    destruct (Nat.eqb_spec i2 (next s)); [lia|]. split; [assumption|lia].
  - cbn. split; [reflexivity|]. intros k2 i2 [H2|H2]; cbn; unfold upd, allocated in *; cbn.
    + injection H2 as <- <-. destruct (Nat.eqb_spec (next s) (S (next s))); [lia|]. rewrite Nat.eqb_refl. split; [reflexivity|lia].
    + destruct (V _ _ H2) as [Hh2 Ha2]. unfold allocated in Ha2.
      destruct (Nat.eqb_spec i2 (S (next s))); [lia|]. destruct (Nat.eqb_spec i2 (next s)); [lia|]. split; [assumption|lia].
Qed.
(* any history of calls returns, at every step, a function of that call's arguments only *)
Fixpoint run (s : state) (calls : list ((Z*Z*Z*Z) * (arrv -> arrv))) : list arrv :=
  match calls with [] => [] | (k, r) :: rest => let '(s', out) := dft2_call s k r in out :: run s' rest end.
Theorem history_independent calls : forall s, cache_valid s -> run s calls = map (fun kr => snd kr (coords (fst kr))) calls.
Proof. induction calls as [|[k r] rest IH]; intros s V; cbn; [reflexivity|].
  destruct (dft2_call s k r) as [s' out] eqn:E. pose proof (dft2_call_pure s k r V) as [Ho Hv]. rewrite E in Ho, Hv. cbn in Ho, Hv.
  rewrite Ho, (IH s' Hv). reflexivity. Qed.
Print Assumptions history_independent.
