From Coq Require Import ZArith Bool Lia ZifyBool.
Open Scope Z_scope.
Ltac Zify.zify_post_hook ::= Z.to_euclidean_division_equations.
(* extent.py *)
Definition array_extent (sr sc shr shc : Z) := (- (sr / 2) + shr, - (sr / 2) + shr + sr - 1, - (sc / 2) + shc, - (sc / 2) + shc + sc - 1).
Definition array_center (e : Z*Z*Z*Z) := let '(rmin, rmax, cmin, cmax) := e in (rmin + (rmax - rmin + 1) / 2, cmin + (cmax - cmin + 1) / 2).
Definition intersection_extent (a b : Z*Z*Z*Z) := let '(a1,a2,a3,a4) := a in let '(b1,b2,b3,b4) := b in (Z.max a1 b1, Z.min a2 b2, Z.max a3 b3, Z.min a4 b4).
Definition intersection_shape a b := let '(r1,r2,c1,c2) := intersection_extent a b in (r2 - r1 + 1, c2 - c1 + 1).
Definition intersection_shift a b := let '(r1,r2,c1,c2) := intersection_extent a b in (r1 + (r2 - r1 + 1)/2, c1 + (c2 - c1 + 1)/2).
Definition intersect (a b : Z*Z*Z*Z) := let '(a1,a2,a3,a4) := a in let '(b1,b2,b3,b4) := b in (a1 <=? b2) && (a2 >=? b1) && (a3 <=? b4) && (a4 >=? b3).
(* propagate_dft index skeleton: out extent o, prop shape P, integer part of shift fx; returns for output-field sample a (row): the integer part of the DFT coordinate a - I/2 - prop_shift, and the field's rmin *)
Theorem prop_row_coordinate (o : Z*Z*Z*Z) (Pr Pc fr fc a b : Z) :
  0 < Pr -> 0 < Pc ->
  let pe := array_extent Pr Pc fr fc in
  intersect o pe = true ->
  let '(Ir, Ic) := intersection_shape o pe in
  let '(isr, isc) := intersection_shift o pe in
  let ie := array_extent Ir Ic isr isc in
  let '(pcr, pcc) := array_center pe in
  let '(icr, icc) := array_center ie in
  let psr := pcr - icr in let psc := pcc - icc in
  let '(r1, r2, c1, c2) := intersection_extent o pe in
  (* the output Field has shape (Ir,Ic), offset (isr,isc): its rmin is r1, and sample a sits at plane coordinate a + r1 *)
  ie = (r1, r2, c1, c2) /\
  (a - Ir / 2 - psr = (a + r1) - fr) /\ (b - Ic / 2 - psc = (b + c1) - fc).
Proof.
  intros HPr HPc. destruct o as [[[o1 o2] o3] o4].
  unfold array_extent, intersect, intersection_shape, intersection_shift, intersection_extent, array_center; cbn.
  intros Hi.
  set (r1 := Z.max o1 (- (Pr / 2) + fr)). set (r2 := Z.min o2 (- (Pr / 2) + fr + Pr - 1)).
  set (c1 := Z.max o3 (- (Pc / 2) + fc)). set (c2 := Z.min o4 (- (Pc / 2) + fc + Pc - 1)).
  clearbody r1 r2 c1 c2.
  split; [|split].
  - repeat f_equal; lia.
  - lia.
  - lia.
Qed.
Print Assumptions prop_row_coordinate.
