From Coq Require Import ZArith List Bool Lia ZifyBool Permutation.
Import ListNotations.
Open Scope Z_scope.
(* abstract: fields with an extent; groups = (list of fields, extent) *)
Section R.
Variable F : Type.
Definition ext := (Z * Z * Z * Z)%type.
Variable fext : F -> ext.
Definition intersect (a b : ext) : bool :=
  let '(a1,a2,a3,a4) := a in let '(b1,b2,b3,b4) := b in (a1 <=? b2) && (a2 >=? b1) && (a3 <=? b4) && (a4 >=? b3).
Variable boundary : list F -> ext.   (* field.boundary, as is *)
Definition group := (list F * ext)%type.
(* first n > m (by position) in [tl] whose extent intersects e; returns index within tl *)
Fixpoint find_n (e : ext) (tl : list group) : option nat :=
  match tl with [] => None | g :: r => if intersect e (snd g) then Some O else option_map S (find_n e r) end.
(* first pair (m,n), m<n, in lexicographic order = itertools.combinations(range(len),2) *)
Fixpoint find_pair (l : list group) : option (nat * nat) :=
  match l with [] => None
  | g :: r => match find_n (snd g) r with
              | Some k => Some (O, S k)
              | None => option_map (fun '(m, n) => (S m, S n)) (find_pair r) end end.
Fixpoint remove_nth {A} (n : nat) (l : list A) : list A :=
  match n, l with _, [] => [] | O, _ :: r => r | S k, x :: r => x :: remove_nth k r end.
Fixpoint update_nth {A} (n : nat) (f : A -> A) (l : list A) : list A :=
  match n, l with _, [] => [] | O, x :: r => f x :: r | S k, x :: r => x :: update_nth k f r end.
Definition merge_step (l : list group) (m n : nat) : list group :=
  let gn := nth n l ([], (0,0,0,0)) in
  let l' := update_nth m (fun gm => let fs := fst gm ++ fst gn in (fs, boundary fs)) l in
  remove_nth n l'.
Fixpoint disjoint (fuel : nat) (l : list group) : list group :=
  match fuel with O => l | S k => match find_pair l with None => l | Some (m, n) => disjoint k (merge_step l m n) end end.
Definition reduce_groups (fs : list F) : list group := let l := map (fun f => ([f], fext f)) fs in disjoint (length l) l.

(* --- facts --- *)
Lemma find_n_none e tl : find_n e tl = None -> forall g, In g tl -> intersect e (snd g) = false.
Proof. induction tl as [|g r IH]; cbn; intros H x Hx; [contradiction|].
  destruct (intersect e (snd g)) eqn:E; [discriminate|]. destruct (find_n e r); [discriminate|].
  destruct Hx as [<-|Hx]; [assumption|now apply IH]. Qed.
Inductive pairwise_disj : list group -> Prop :=
| pd_nil : pairwise_disj []
| pd_cons g r : (forall x, In x r -> intersect (snd g) (snd x) = false) -> pairwise_disj r -> pairwise_disj (g :: r).
Lemma find_pair_none l : find_pair l = None -> pairwise_disj l.
Proof. induction l as [|g r IH]; cbn; intros H; [constructor|].
  destruct (find_n (snd g) r) eqn:E; [discriminate|]. destruct (find_pair r) as [[m n]|]; [discriminate|].
  constructor; [now apply find_n_none | now apply IH]. Qed.
Lemma find_n_lt e tl k : find_n e tl = Some k -> (k < length tl)%nat.
Proof. revert k; induction tl as [|g r IH]; cbn; intros k H; [discriminate|].
  destruct (intersect e (snd g)); [injection H as <-; lia|]. destruct (find_n e r) eqn:E; [|discriminate].
  injection H as <-. specialize (IH _ eq_refl). lia. Qed.
Lemma find_pair_lt l m n : find_pair l = Some (m, n) -> (m < n < length l)%nat.
Proof. revert m n; induction l as [|g r IH]; cbn; intros m n H; [discriminate|].
  destruct (find_n (snd g) r) eqn:E. - injection H as <- <-. apply find_n_lt in E. lia.
  - destruct (find_pair r) as [[m' n']|] eqn:E2; [|discriminate]. injection H as <- <-. specialize (IH _ _ eq_refl). lia. Qed.
Lemma remove_nth_length {A} n (l : list A) : (n < length l)%nat -> length (remove_nth n l) = pred (length l).
Proof. revert l; induction n as [|n IH]; intros [|x r]; cbn; intros H; try lia. rewrite IH by lia. destruct r; cbn in *; lia. Qed.
Lemma update_nth_length {A} n f (l : list A) : length (update_nth n f l) = length l.
Proof. revert l; induction n as [|n IH]; intros [|x r]; cbn; auto. Qed.
Lemma merge_step_length l m n : (m < n < length l)%nat -> length (merge_step l m n) = pred (length l).
Proof. intros H. unfold merge_step. rewrite remove_nth_length; rewrite update_nth_length; lia. Qed.
(* termination: with fuel = length, the result is pairwise disjoint *)
Theorem disjoint_pairwise fuel l : (length l <= fuel)%nat -> pairwise_disj (disjoint fuel l).
Proof. revert l; induction fuel as [|k IH]; intros l H.
  - destruct l; [constructor|cbn in H; lia].
  - cbn. destruct (find_pair l) as [[m n]|] eqn:E; [|now apply find_pair_none].
    apply IH. pose proof (find_pair_lt _ _ _ E). rewrite merge_step_length by assumption. lia. Qed.
(* fields are preserved as a multiset *)
Definition all_fields (l : list group) : list F := flat_map fst l.
Lemma remove_nth_perm (r : list group) n d : (n < length r)%nat ->
  Permutation (fst (nth n r d) ++ all_fields (remove_nth n r)) (all_fields r).
Proof.
  revert n; induction r as [|x r IH]; intros n H; [cbn in H; lia|].
  destruct n as [|n]; cbn [nth remove_nth all_fields flat_map]; [reflexivity|].
  etransitivity; [apply Permutation_app_swap_app|]. apply Permutation_app_head. apply IH. cbn in H; lia.
Qed.
Lemma merge_step_perm l m n : (m < n < length l)%nat -> Permutation (all_fields (merge_step l m n)) (all_fields l).
Proof.
  revert m n; induction l as [|g r IH]; intros m n H; [cbn in H; lia|].
  destruct n as [|n]; [lia|]. destruct m as [|m]; unfold merge_step.
  - cbn [nth update_nth remove_nth all_fields flat_map fst]. rewrite <- app_assoc. apply Permutation_app_head.
    apply remove_nth_perm. cbn in H; lia.
  - cbn [nth update_nth remove_nth all_fields flat_map]. apply Permutation_app_head.
    apply (IH m n). cbn in H. lia.
Qed.
Theorem disjoint_perm fuel l : Permutation (all_fields (disjoint fuel l)) (all_fields l).
Proof. revert l; induction fuel as [|k IH]; intros l; cbn; [reflexivity|].
  destruct (find_pair l) as [[m n]|] eqn:E; [|reflexivity].
  etransitivity; [apply IH|]. apply merge_step_perm. now apply find_pair_lt. Qed.
End R.
Print Assumptions disjoint_pairwise. Print Assumptions disjoint_perm.
