From Coq Require Import ZArith List Bool Lia ZifyBool Ring.
Import ListNotations.
Open Scope Z_scope.
Ltac Zify.zify_post_hook ::= Z.to_euclidean_division_equations.

Section Gen.
Variable K : Type.
Variables (k0 k1 : K) (kadd kmul ksub : K -> K -> K) (kopp : K -> K).
Hypothesis Kring : ring_theory k0 k1 kadd kmul ksub kopp eq.
Add Ring Kr : Kring.
Notation "x * y" := (kmul x y) : K_scope.
Notation "x + y" := (kadd x y) : K_scope.
Delimit Scope K_scope with K.

Record arr := { nr : Z; nc : Z; get : Z -> Z -> K }.
Record field := { fdata : arr; offr : Z; offc : Z }.

Definition ext (f : field) : Z*Z*Z*Z :=
  let rmin := - (nr (fdata f) / 2) + offr f in
  let cmin := - (nc (fdata f) / 2) + offc f in
  (rmin, rmin + nr (fdata f) - 1, cmin, cmin + nc (fdata f) - 1).

Definition inb (lo hi x : Z) : bool := (lo <=? x) && (x <=? hi).

Definition embed (f : field) (r c : Z) : K :=
  let '(rmin, rmax, cmin, cmax) := ext f in
  if inb rmin rmax r && inb cmin cmax c then get (fdata f) (r - rmin) (c - cmin) else k0.

Definition intersect (a b : Z*Z*Z*Z) : bool :=
  let '(armin, armax, acmin, acmax) := a in
  let '(brmin, brmax, bcmin, bcmax) := b in
  (armin <=? brmax) && (armax >=? brmin) && (acmin <=? bcmax) && (acmax >=? bcmin).

Definition mul_array (a b : field) : option field :=
  let ea := ext a in let eb := ext b in
  if intersect ea eb then
    let '(armin, armax, acmin, acmax) := ea in
    let '(brmin, brmax, bcmin, bcmax) := eb in
    let rmin := Z.max armin brmin in let rmax := Z.min armax brmax in
    let cmin := Z.max acmin bcmin in let cmax := Z.min acmax bcmax in
    let n_r := rmax - rmin + 1 in let n_c := cmax - cmin + 1 in
    Some {| fdata := {| nr := n_r; nc := n_c;
              get := fun i j => (get (fdata a) (i + (rmin - armin)) (j + (cmin - acmin)) *
                                 get (fdata b) (i + (rmin - brmin)) (j + (cmin - bcmin)))%K |};
            offr := rmin + n_r / 2; offc := cmin + n_c / 2 |}
  else None.

Lemma mul0l x : (k0 * x)%K = k0. Proof. ring. Qed.
Lemma mul0r x : (x * k0)%K = k0. Proof. ring. Qed.

Theorem mul_array_embed a b r c :
  0 < nr (fdata a) -> 0 < nc (fdata a) -> 0 < nr (fdata b) -> 0 < nc (fdata b) ->
  match mul_array a b with
  | Some p => embed p r c = (embed a r c * embed b r c)%K
  | None => (embed a r c * embed b r c)%K = k0
  end.
Proof.
  intros Ha1 Ha2 Hb1 Hb2.
  unfold mul_array, embed, ext, intersect, inb; cbn [fdata nr nc get offr offc].
  destruct a as [[anr anc ag] aor aoc], b as [[bnr bnc bg] bor boc]; cbn [fdata nr nc get offr offc] in *.
  match goal with |- context[if ?b then Some _ else None] => destruct b eqn:Hi end.
  - cbn [fdata nr nc get offr offc].
    repeat match goal with |- context[if ?b then _ else _] => destruct b eqn:? end;
      rewrite ?mul0l, ?mul0r; try reflexivity; try lia.
    f_equal; f_equal; lia.
  - repeat match goal with |- context[if ?b then _ else _] => destruct b eqn:? end;
      rewrite ?mul0l, ?mul0r; try reflexivity; try lia.
Qed.
End Gen.
Print Assumptions mul_array_embed.
