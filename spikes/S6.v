From Coq Require Import ZArith List Lia Ring.
Section G.
Variable K : Type.
Variables (k0 k1 : K) (kadd kmul ksub : K -> K -> K) (kopp : K -> K).
Hypothesis Kring : ring_theory k0 k1 kadd kmul ksub kopp eq.
Add Ring Kr : Kring.
Declare Scope K_scope. Delimit Scope K_scope with K.
Notation "x * y" := (kmul x y) : K_scope. Notation "x + y" := (kadd x y) : K_scope.
Fixpoint sumn (n : nat) (f : nat -> K) : K := match n with O => k0 | S k => (sumn k f + f k)%K end.
Lemma sumn_ext n f g : (forall i, (i < n)%nat -> f i = g i) -> sumn n f = sumn n g.
Proof. induction n as [|n IH]; intros H; cbn; [reflexivity|]. rewrite IH, H by (intros; try apply H; lia). reflexivity. Qed.
Lemma sumn_add n f g : sumn n (fun i => (f i + g i)%K) = (sumn n f + sumn n g)%K.
Proof. induction n as [|n IH]; cbn; [ring|]. rewrite IH. ring. Qed.
Lemma sumn_scale_l n c f : sumn n (fun i => (c * f i)%K) = (c * sumn n f)%K.
Proof. induction n as [|n IH]; cbn; [ring|]. rewrite IH. ring. Qed.
Lemma sumn_scale_r n c f : sumn n (fun i => (f i * c)%K) = (sumn n f * c)%K.
Proof. induction n as [|n IH]; cbn; [ring|]. rewrite IH. ring. Qed.
Lemma sumn_zero n : sumn n (fun _ => k0) = k0.
Proof. induction n as [|n IH]; cbn; [reflexivity|]. rewrite IH. ring. Qed.
Lemma sumn_exchange m n (f : nat -> nat -> K) :
  sumn m (fun i => sumn n (fun j => f i j)) = sumn n (fun j => sumn m (fun i => f i j)).
Proof. induction m as [|m IH]; cbn. - now rewrite sumn_zero. - rewrite IH, <- sumn_add. reflexivity. Qed.
(* triple product: F[u,v] = sum_y (sum_x E1 u x * f x y) * E2 y v *)
Variable S : Type. Variable e : S -> K. Variable sadd : S -> S -> S.
Hypothesis e_add : forall a b, e (sadd a b) = (e a * e b)%K.
Theorem triple_is_double (m n : nat) (f : nat -> nat -> K) (pr : nat -> S) (pc : nat -> S) :
  sumn n (fun y => (sumn m (fun x => e (pr x) * f x y) * e (pc y))%K)
  = sumn m (fun x => sumn n (fun y => (f x y * e (sadd (pr x) (pc y)))%K)).
Proof.
  rewrite sumn_exchange. apply sumn_ext; intros y _.
  rewrite <- sumn_scale_r. apply sumn_ext; intros x _. rewrite e_add. ring.
Qed.
End G.
Print Assumptions triple_is_double.
