From Coq Require Import ZArith QArith Qcanon List.
Import ListNotations.
Open Scope Z_scope.
(* complex over Qc *)
Definition C := (Qc * Qc)%type.
Definition cadd (a b : C) : C := (fst a + fst b, snd a + snd b)%Qc.
Definition cmul (a b : C) : C := (fst a * fst b - snd a * snd b, fst a * snd b + snd a * fst b)%Qc.
Definition c0 : C := (0%Qc, 0%Qc).
Fixpoint sumn (n : nat) (f : nat -> C) : C := match n with O => c0 | S k => cadd (sumn k f) (f k) end.
Definition nthC (l : list C) (i : nat) := nth i l c0.
(* table: L-th roots; phase index k mod L *)
Definition dft (L : Z) (tab : list C) (m n M N : nat) (ar ac : Z) (f : list C) : list C :=
  flat_map (fun u => map (fun v =>
     sumn m (fun x => sumn n (fun y =>
        let k := (ar * (Z.of_nat x - Z.of_nat m / 2) * (Z.of_nat u - Z.of_nat M / 2)
                 + ac * (Z.of_nat y - Z.of_nat n / 2) * (Z.of_nat v - Z.of_nat N / 2)) mod L in
        cmul (nthC f (x * n + y)) (nthC tab (Z.to_nat k))))) (seq 0 N)) (seq 0 M).
Definition mkc (a b c d : Z) : C := (Q2Qc (a # Z.to_pos b), Q2Qc (c # Z.to_pos d)).
Fixpoint decode (l : list Z) : list C := match l with a::b::c::d::r => mkc a b c d :: decode r | _ => [] end.
Definition encode (l : list C) : list Z := flat_map (fun z => [Qnum (this (fst z)); Zpos (Qden (this (fst z))); Qnum (this (snd z)); Zpos (Qden (this (snd z)))]) l.
Definition run (inp : list Z) : list Z :=
  match inp with
  | L :: m :: n :: M :: N :: ar :: ac :: rest =>
     let tab := decode (firstn (4 * Z.to_nat L) rest) in
     let f := decode (skipn (4 * Z.to_nat L) rest) in
     encode (dft L tab (Z.to_nat m) (Z.to_nat n) (Z.to_nat M) (Z.to_nat N) ar ac f)
  | _ => []
  end.
Require Import ExtrOcamlBasic.
Extraction "model.ml" run.
