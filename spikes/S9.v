From Coq Require Import ZArith Bool Lia ZifyBool Ring.
Open Scope Z_scope.
Ltac Zify.zify_post_hook ::= Z.to_euclidean_division_equations.
(* 1-D reconciliation of insert (after fix: early return when empty) *)
Record clip := { o_lo : Z; o_hi : Z; f_lo : Z; f_hi : Z }.
Definition reconcile (R h ul : Z) : clip :=
  let f_lo := 0 in let f_hi := h in let o_lo := ul in let o_hi := ul + h in
  let '(f_lo, o_lo) := if o_lo <? 0 then (- o_lo, 0) else (f_lo, o_lo) in
  let '(f_hi, o_hi) := if o_hi >? R then (f_hi - (o_hi - R), R) else (f_hi, o_hi) in
  {| o_lo := o_lo; o_hi := o_hi; f_lo := f_lo; f_hi := f_hi |}.
Definition nonempty (c : clip) := o_lo c <? o_hi c.
(* characterisation: output index i is written iff 0<=i<R and 0 <= i-ul < h; source index is i - ul *)
Lemma reconcile_spec R h ul i : 0 < R -> 0 < h ->
  let c := reconcile R h ul in
  ((nonempty c && (o_lo c <=? i) && (i <? o_hi c)) = ((0 <=? i) && (i <? R) && (0 <=? i - ul) && (i - ul <? h))) /\
  (nonempty c = true -> 0 <= o_lo c /\ o_hi c <= R /\ 0 <= f_lo c /\ f_hi c <= h /\ o_hi c - o_lo c = f_hi c - f_lo c
                        /\ (o_lo c <= i < o_hi c -> i - o_lo c + f_lo c = i - ul)).
Proof.
  intros HR Hh. unfold reconcile, nonempty.
  destruct (ul <? 0) eqn:E1; destruct (ul + h >? R) eqn:E2; cbn; split; lia.
Qed.
Section G.
Variable K : Type.
Variables (k0 k1 : K) (kadd kmul ksub : K -> K -> K) (kopp : K -> K).
Hypothesis Kring : ring_theory k0 k1 kadd kmul ksub kopp eq.
Add Ring Kr : Kring.
Record arr := { nr : Z; nc : Z; get : Z -> Z -> K }.
Definition embed (d : arr) (offr offc r c : Z) : K :=
  let i := r - (- (nr d / 2) + offr) in let j := c - (- (nc d / 2) + offc) in
  if (0 <=? i) && (i <? nr d) && (0 <=? j) && (j <? nc d) then get d i j else k0.
Definition insert (d : arr) (offr offc : Z) (out : arr) (w : K) : arr :=
  let cr := reconcile (nr out) (nr d) (nr out / 2 - nr d / 2 + offr) in
  let cc := reconcile (nc out) (nc d) (nc out / 2 - nc d / 2 + offc) in
  if nonempty cr && nonempty cc then
    {| nr := nr out; nc := nc out;
       get := fun i j => if (o_lo cr <=? i) && (i <? o_hi cr) && (o_lo cc <=? j) && (j <? o_hi cc)
                         then kadd (get out i j) (kmul (get d (i - o_lo cr + f_lo cr) (j - o_lo cc + f_lo cc)) w)
                         else get out i j |}
  else out.
Theorem insert_spec d offr offc out w i j :
  0 < nr d -> 0 < nc d -> 0 < nr out -> 0 < nc out -> 0 <= i < nr out -> 0 <= j < nc out ->
  get (insert d offr offc out w) i j = kadd (get out i j) (kmul (embed d offr offc (i - nr out / 2) (j - nc out / 2)) w).
Proof.
  intros Hd1 Hd2 Ho1 Ho2 Hi Hj. unfold insert, embed.
  set (ulr := nr out / 2 - nr d / 2 + offr). set (ulc := nc out / 2 - nc d / 2 + offc).
  destruct (reconcile_spec (nr out) (nr d) ulr i Ho1 Hd1) as [Ar Br].
  destruct (reconcile_spec (nc out) (nc d) ulc j Ho2 Hd2) as [Ac Bc].
  set (cr := reconcile (nr out) (nr d) ulr) in *. set (cc := reconcile (nc out) (nc d) ulc) in *.
  replace (i - nr out / 2 - (- (nr d / 2) + offr)) with (i - ulr) by (subst ulr; ring).
  replace (j - nc out / 2 - (- (nc d / 2) + offc)) with (j - ulc) by (subst ulc; ring).
  clearbody cr cc ulr ulc.
  destruct (nonempty cr) eqn:Nr; destruct (nonempty cc) eqn:Nc; cbn [andb] in *;
    try specialize (Br eq_refl); try specialize (Bc eq_refl); cbn [get];
    repeat match goal with |- context[if ?b then _ else _] => destruct b eqn:? end;
    try (exfalso; lia); try ring.
  replace (i - o_lo cr + f_lo cr) with (i - ulr) by lia. replace (j - o_lo cc + f_lo cc) with (j - ulc) by lia. reflexivity.
Qed.
End G.
Print Assumptions insert_spec.
