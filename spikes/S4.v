From Coq Require Import Reals Lra Lia ZArith.
From Coquelicot Require Import Complex.
Open Scope R_scope.

Definition cis (t : R) : C := (cos t, sin t).
Lemma cis_add a b : cis (a + b) = Cmult (cis a) (cis b).
Proof. unfold cis, Cmult; cbn. rewrite cos_plus, sin_plus. f_equal; ring. Qed.
Lemma cis_0 : cis 0 = RtoC 1. Proof. unfold cis; now rewrite cos_0, sin_0. Qed.

Lemma cos_period_Z x (k : Z) : cos (x + 2 * IZR k * PI) = cos x.
Proof. destruct (Z_le_gt_dec 0 k) as [H|H].
  - rewrite <- (Z2Nat.id k H), <- INR_IZR_INZ. apply cos_period.
  - rewrite <- (cos_period (x + 2 * IZR k * PI) (Z.to_nat (- k))). f_equal.
    rewrite INR_IZR_INZ, Z2Nat.id by lia. rewrite opp_IZR. ring. Qed.
Lemma sin_period_Z x (k : Z) : sin (x + 2 * IZR k * PI) = sin x.
Proof. destruct (Z_le_gt_dec 0 k) as [H|H].
  - rewrite <- (Z2Nat.id k H), <- INR_IZR_INZ. apply sin_period.
  - rewrite <- (sin_period (x + 2 * IZR k * PI) (Z.to_nat (- k))). f_equal.
    rewrite INR_IZR_INZ, Z2Nat.id by lia. rewrite opp_IZR. ring. Qed.
Lemma cis_2PI_Z (k : Z) : cis (2 * PI * IZR k) = RtoC 1.
Proof.
  unfold cis. replace (2 * PI * IZR k) with (0 + 2 * IZR k * PI) by ring.
  rewrite cos_period_Z, sin_period_Z, cos_0, sin_0. reflexivity.
Qed.
Fixpoint csum (n : nat) (f : nat -> C) : C := match n with O => RtoC 0 | S k => Cplus (csum k f) (f k) end.
Fixpoint cpow (z : C) (n : nat) : C := match n with O => RtoC 1 | S k => Cmult z (cpow z k) end.
Lemma csum_ext n f g : (forall x, f x = g x) -> csum n f = csum n g.
Proof. intros H; induction n as [|m IH]; cbn; [reflexivity|]. now rewrite IH, H. Qed.
Lemma cis_pow t n : cpow (cis t) n = cis (INR n * t).
Proof. induction n as [|n IH]. - cbn. now rewrite Rmult_0_l, cis_0.
  - cbn [cpow]. rewrite IH, <- cis_add. f_equal. rewrite S_INR. ring. Qed.
Lemma geom (z : C) n : Cmult (Cminus z (RtoC 1)) (csum n (cpow z)) = Cminus (cpow z n) (RtoC 1).
Proof. induction n as [|n IH]; cbn [csum cpow]. - ring.
  - rewrite Cmult_plus_distr_l, IH. ring. Qed.
(* cis t = 1 -> t = 2 pi k *)
Lemma cis_eq_1 t : cis t = RtoC 1 -> exists k : Z, t = 2 * PI * IZR k.
Proof.
  unfold cis, RtoC. intros H. injection H as Hc Hs.
  destruct (sin_eq_0_0 _ Hs) as [k Hk]. subst t.
  (* cos (k PI) = 1 -> k even *)
  destruct (Z.Even_or_Odd k) as [[j Hj]|[j Hj]].
  - exists j. subst k. rewrite mult_IZR. simpl. ring.
  - exfalso. subst k. rewrite plus_IZR, mult_IZR in Hc. simpl in Hc.
    replace ((2 * IZR j + 1) * PI) with (PI + 2 * IZR j * PI) in Hc by ring.
    rewrite cos_period_Z, cos_PI in Hc. lra.
Qed.
Theorem roots_orth (n : nat) (k : Z) : (0 < n)%nat -> (k mod Z.of_nat n <> 0)%Z ->
  csum n (fun x => cis (2 * PI * IZR k * INR x / INR n)) = RtoC 0.
Proof.
  intros Hn Hk. set (z := cis (2 * PI * IZR k / INR n)).
  assert (Hf : forall x, cis (2 * PI * IZR k * INR x / INR n) = cpow z x).
  { intro x. unfold z. rewrite cis_pow. f_equal. field. apply not_0_INR. lia. }
  assert (E : csum n (fun x => cis (2 * PI * IZR k * INR x / INR n)) = csum n (cpow z)).
  { apply csum_ext. exact Hf. }
  rewrite E. clear E Hf.
  assert (Hzn : cpow z n = RtoC 1).
  { unfold z. rewrite cis_pow. replace (INR n * (2 * PI * IZR k / INR n)) with (2 * PI * IZR k).
    apply cis_2PI_Z. field. apply not_0_INR. lia. }
  assert (Hz1 : z <> RtoC 1).
  { intro H. apply cis_eq_1 in H. destruct H as [j Hj].
    apply Hk. assert (IZR k = IZR j * INR n).
    { assert (PI <> 0) by (apply PI_neq0). assert (INR n <> 0) by (apply not_0_INR; lia).
      apply (Rmult_eq_reg_l (2*PI)); [|lra]. 
      replace (2 * PI * (IZR j * INR n)) with ((2 * PI * IZR j) * INR n) by ring. rewrite <- Hj. field. assumption. }
    rewrite INR_IZR_INZ, <- mult_IZR in H. apply eq_IZR in H. subst k. apply Z.mod_mul. lia. }
  pose proof (geom z n) as G. rewrite Hzn in G.
  replace (Cminus (RtoC 1) (RtoC 1)) with (RtoC 0) in G by ring.
  destruct (Ceq_dec (csum n (cpow z)) (RtoC 0)) as [|Hne]; [assumption|].
  exfalso. apply (Cmult_neq_0 (Cminus z (RtoC 1)) (csum n (cpow z))); try assumption.
  apply Cminus_eq_contra. assumption.
Qed.

