open Model
(* decimal string <-> Coq z via OCaml arbitrary precision done by hand on strings: use Zarith? not assumed; do simple base conversion through extracted Z ops *)
let rec pos_of_int (n:int) : positive = if n = 1 then XH else if n land 1 = 0 then XO (pos_of_int (n lsr 1)) else XI (pos_of_int (n lsr 1))
let z_of_int (n:int) : z = if n = 0 then Z0 else if n > 0 then Zpos (pos_of_int n) else Zneg (pos_of_int (-n))
let ten = z_of_int 10
let z_of_string (s:string) : z =
  let neg = String.length s > 0 && s.[0] = '-' in
  let acc = ref Z0 in
  String.iteri (fun i ch -> if not (i = 0 && neg) then acc := Z.add (Z.mul !acc ten) (z_of_int (Char.code ch - 48))) s;
  if neg then Z.opp !acc else !acc
let rec string_of_pos_bin p = match p with XH -> "1" | XO q -> string_of_pos_bin q ^ "0" | XI q -> string_of_pos_bin q ^ "1"
(* output in hex-ish binary string prefixed by sign: python int(s,2) parses *)
let string_of_z z = match z with Z0 -> "0" | Zpos p -> string_of_pos_bin p | Zneg p -> "-" ^ string_of_pos_bin p
let () =
  try while true do
    let line = input_line stdin in
    let toks = List.filter (fun s -> s <> "") (String.split_on_char ' ' line) in
    let inp = List.map z_of_string toks in
    let out = run inp in
    print_endline (String.concat " " (List.map string_of_z out))
  done with End_of_file -> ()
