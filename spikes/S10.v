From Coq Require Import Reals Lra Lia.
Open Scope R_scope.
Fixpoint rsum (n : nat) (f : nat -> R) : R := match n with O => 0 | S k => rsum k f + f k end.
Lemma rsum_ext n f g : (forall i, (i < n)%nat -> f i = g i) -> rsum n f = rsum n g.
Proof. induction n as [|n IH]; intros H; cbn; [reflexivity|]. rewrite IH, H by (intros; try apply H; lia). reflexivity. Qed.
Lemma rsum_add n f g : rsum n (fun i => f i + g i) = rsum n f + rsum n g.
Proof. induction n as [|n IH]; cbn; [ring|]. rewrite IH. ring. Qed.
Lemma rsum_sub n f g : rsum n (fun i => f i - g i) = rsum n f - rsum n g.
Proof. induction n as [|n IH]; cbn; [ring|]. rewrite IH. ring. Qed.
Lemma rsum_scale n c f : rsum n (fun i => c * f i) = c * rsum n f.
Proof. induction n as [|n IH]; cbn; [ring|]. rewrite IH. ring. Qed.
Lemma rsum_zero n : rsum n (fun _ => 0) = 0.
Proof. induction n as [|n IH]; cbn; [reflexivity|]. rewrite IH. ring. Qed.
Lemma rsum_exchange m n (f : nat -> nat -> R) :
  rsum m (fun i => rsum n (fun j => f i j)) = rsum n (fun j => rsum m (fun i => f i j)).
Proof. induction m as [|m IH]; cbn. - now rewrite rsum_zero. - rewrite IH, <- rsum_add. reflexivity. Qed.
Lemma rsum_sq_zero n f : rsum n (fun i => f i * f i) = 0 -> forall i, (i < n)%nat -> f i = 0.
Proof.
  induction n as [|n IH]; intros H i Hi; [lia|]. cbn in H.
  assert (0 <= rsum n (fun i => f i * f i)).
  { clear. induction n as [|n IH]; cbn; [lra|]. pose proof (Rle_0_sqr (f n)). unfold Rsqr in *. lra. }
  pose proof (Rle_0_sqr (f n)) as Hn. unfold Rsqr in Hn.
  assert (rsum n (fun i => f i * f i) = 0) by lra. assert (f n * f n = 0) by lra.
  destruct (Nat.eq_dec i n) as [->|]; [apply Rmult_integral in H2; tauto | apply IH; [assumption|lia]].
Qed.
Section LSQ.
Variables (P q : nat) (b : nat -> nat -> R) (* b k p : basis k at point p *).
Definition lin (c : nat -> R) (p : nat) := rsum q (fun k => c k * b k p).
Definition NE (c : nat -> R) (y : nat -> R) := forall j, (j < q)%nat -> rsum P (fun p => b j p * (y p - lin c p)) = 0.
Definition indep := forall d : nat -> R, (forall p, (p < P)%nat -> lin d p = 0) -> forall k, (k < q)%nat -> d k = 0.
Theorem lsq_unique c c' y : indep -> NE c y -> NE c' y -> forall k, (k < q)%nat -> c k = c' k.
Proof.
  intros Hi H1 H2. set (d := fun k => c k - c' k).
  assert (Hlin : forall p, lin d p = lin c p - lin c' p).
  { intro p. unfold lin, d. rewrite <- rsum_sub. apply rsum_ext; intros; ring. }
  assert (Hd : forall j, (j < q)%nat -> rsum P (fun p => b j p * lin d p) = 0).
  { intros j Hj. specialize (H1 j Hj). specialize (H2 j Hj).
    rewrite (rsum_ext P _ (fun p => b j p * (y p - lin c' p) - b j p * (y p - lin c p))).
    rewrite rsum_sub. lra. intros p _. rewrite Hlin. ring. }
  assert (Hsq : rsum P (fun p => lin d p * lin d p) = 0).
  { rewrite (rsum_ext P _ (fun p => rsum q (fun j => d j * (b j p * lin d p)))).
    - rewrite rsum_exchange. rewrite (rsum_ext q _ (fun _ => 0)). apply rsum_zero.
      intros j Hj. rewrite rsum_scale, Hd by assumption. ring.
    - intros p _. unfold lin at 1. rewrite <- (Rmult_comm (lin d p)), <- rsum_scale. apply rsum_ext; intros; ring. }
  intros k Hk. assert (d k = 0). { apply Hi; [|assumption]. apply (rsum_sq_zero P (lin d)). exact Hsq. }
  unfold d in H. lra.
Qed.
(* fit of a composed signal returns the coefficients *)
Corollary fit_compose c c0 : indep -> NE c (lin c0) -> forall k, (k < q)%nat -> c k = c0 k.
Proof. intros Hi H. apply (lsq_unique c c0 (lin c0) Hi H). intros j Hj.
  rewrite (rsum_ext P _ (fun _ => 0)). apply rsum_zero. intros p _. ring. Qed.
End LSQ.
Print Assumptions fit_compose.
