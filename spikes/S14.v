From Coq Require Import Arith List Lia Ring PeanoNat.
Section G.
Variable K : Type.
Variables (k0 k1 : K) (kadd kmul ksub : K -> K -> K) (kopp : K -> K).
Hypothesis Kring : ring_theory k0 k1 kadd kmul ksub kopp eq.
Add Ring Kr : Kring.
Fixpoint sumn (n : nat) (f : nat -> K) : K := match n with O => k0 | S k => kadd (sumn k f) (f k) end.
Lemma sumn_ext n f g : (forall i, i < n -> f i = g i) -> sumn n f = sumn n g.
Proof. induction n as [|n IH]; intros H; cbn; [reflexivity|]. rewrite IH, H by (intros; try apply H; lia). reflexivity. Qed.
(* peel the first term *)
Lemma sumn_head n f : sumn (S n) f = kadd (f 0) (sumn n (fun i => f (S i))).
Proof. induction n as [|n IH]. - cbn; ring. - cbn [sumn] in *. rewrite IH. ring. Qed.
(* rotate by one *)
Lemma sumn_rot1 n g : 0 < n -> sumn n (fun i => g ((i + 1) mod n)) = sumn n g.
Proof.
  intros Hn. destruct n as [|n]; [lia|].
  rewrite (sumn_head n g). cbn [sumn].
  rewrite (sumn_ext n (fun i => g ((i + 1) mod S n)) (fun i => g (S i))).
  - replace ((n + 1) mod S n) with 0. ring.
    replace (n + 1) with (S n) by lia. now rewrite Nat.mod_same by lia.
  - intros i Hi. f_equal. rewrite Nat.mod_small by lia. lia.
Qed.
Theorem sumn_cyclic n s g : 0 < n -> sumn n (fun i => g ((i + s) mod n)) = sumn n g.
Proof.
  intros Hn. induction s as [|s IH].
  - apply sumn_ext; intros i Hi. f_equal. rewrite Nat.add_0_r. now apply Nat.mod_small.
  - rewrite <- IH. rewrite <- (sumn_rot1 n (fun j => g ((j + s) mod n))) by assumption.
    apply sumn_ext; intros i Hi. f_equal.
    rewrite Nat.add_mod_idemp_l by lia. f_equal. lia.
Qed.
End G.
Print Assumptions sumn_cyclic.
