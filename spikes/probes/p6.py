import numpy as np, lentil
wl=5e-7; z=3.0
def fields(dx,du,os_,tx,ty,shape=(16,16),m=8,n=8, amp=None):
    amp=np.ones((m,n)) if amp is None else amp
    r,c=lentil.helper.mesh((m,n))
    opd=tx*r*dx[0]+ty*(-c)*dx[1]
    pA=lentil.Pupil(amplitude=amp,opd=opd,pixelscale=dx,focal_length=z)
    wA=lentil.propagate_dft(lentil.Wavefront(wl)*pA,pixelscale=du,shape=shape,oversample=os_)
    pB=lentil.Pupil(amplitude=amp,pixelscale=dx,focal_length=z)
    wB=lentil.propagate_dft((lentil.Wavefront(wl)*pB)*lentil.Tilt(x=tx,y=ty),pixelscale=du,shape=shape,oversample=os_)
    return wA,wB
def cmp(wA,wB):
    A=wA.field
    ok=True
    for f in wB.data:
        canvas=np.zeros(A.shape,complex); lentil.field.insert(f,canvas)
        sup=np.zeros(A.shape,complex); lentil.field.insert(lentil.field.Field(np.ones(f.shape),offset=f.offset),sup)
        sup=sup.real>0
        ok&=np.allclose(A[sup],canvas[sup],atol=1e-9)
    return ok
for dx,du in [((1e-2,1e-2),(5e-6,5e-6)),((1e-2,1e-2),(5e-6,8e-6)),((1e-2,1.5e-2),(5e-6,5e-6)),((1e-2,1.5e-2),(5e-6,8e-6))]:
    for tx,ty in [(2e-6,0),(0,2e-6),(1.3e-6,-2.1e-6),(3e-7,1e-7)]:
        wA,wB=fields(dx,du,2,tx,ty)
        print('dx',dx,'du',du,'t',(tx,ty),'agree on B window:',cmp(wA,wB), [ (f.shape,tuple(f.offset)) for f in wB.data])
