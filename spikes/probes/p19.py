import numpy as np, lentil, warnings, itertools
from lentil.radiometry import Spectrum
warnings.simplefilter('ignore')
np.random.seed(11)
def interp(s,x,fill=0):
    x=np.asarray(x,float); out=np.full(x.shape,float(fill))
    inside=(x>=s.wave[0])&(x<=s.wave[-1]); out[inside]=np.interp(x[inside],s.wave,s.value); return out
bad=0
for t in range(300):
    def rnd():
        n=np.random.randint(2,7); w=np.cumsum(np.random.choice([32,64,128],size=n))+np.random.choice([256,300,512]); v=np.random.randint(-4,9,size=n).astype(float); return Spectrum(w.astype(float),v)
    a,b=rnd(),rnd()
    for op,name in [(np.add,'add'),(np.multiply,'multiply'),(np.subtract,'subtract')]:
        for samp in ['min','left','right',16.0]:
            fill=np.random.choice([0,1.5])
            r=getattr(a,name)(b,sampling=samp,fill_value=fill)
            lo=min(a.wave[0],b.wave[0]); hi=max(a.wave[-1],b.wave[-1])
            dw={'min':min(np.diff(a.wave).min(),np.diff(b.wave).min()),'left':np.diff(a.wave).min(),'right':np.diff(b.wave).min(),16.0:16.0}[samp]
            num=int(np.ceil((hi-lo)/dw)); grid=np.linspace(lo,hi,num+1)
            exp=op(interp(a,grid,fill),interp(b,grid,fill))
            ok=np.array_equal(r.wave,grid) and np.allclose(r.value,exp,atol=1e-12)
            if not ok: 
                bad+=1
                if bad<4: print('MISMATCH',name,samp,fill,a.wave,b.wave,r.value,exp)
    # commutativity
    if not (np.array_equal((a+b).value,(b+a).value) and np.array_equal((a*b).value,(b*a).value)): print('noncommutative',a.wave,b.wave)
print('C13 mismatches',bad)
# scalar and vector ops
a=Spectrum(np.array([1.,2.,4.]),np.array([1.,2.,3.]))
print((a*2).value,(a+[1,1,1]).value,(2*a).value, (a**2).value, (a/2).value)
try: a*'x'
except Exception as e: print('bad operand',type(e).__name__)
try: print('np scalar', (a*np.float64(2)).value)
except Exception as e: print('np.float64 operand',type(e).__name__,e)
# C15 bins
s=Spectrum(np.arange(1.,21.),3*np.arange(1.,21.)+2)
c=np.array([4.,6.,8.,10.])
for meth in ('trapz','simps'):
  for ends in ('symmetric','inside'):
    b=s.bin(c,interp_method=meth,ends=ends,preserve_power=False)
    # exact integral of linear f over each bin
    edges=np.concatenate([[c[0]-1 if ends=='symmetric' else c[0]],(c[:-1]+c[1:])/2,[c[-1]+1 if ends=='symmetric' else c[-1]]])
    exact=[(1.5*(e2**2-e1**2)+2*(e2-e1)) for e1,e2 in zip(edges[:-1],edges[1:])]
    print(meth,ends,b,'exact',np.allclose(b,exact), 'pp sum',s.bin(c,interp_method=meth,ends=ends).sum(), s.integrate(4,10,meth))
