import numpy as np, lentil
amp=(np.arange(12).reshape(3,4)-5)+1j*(np.arange(12).reshape(3,4)%3)
mask=(np.abs(amp)>0).astype(float)
try:
    p=lentil.Pupil(amplitude=amp,mask=mask,pixelscale=1e-2,focal_length=2.)
    w=lentil.Wavefront(5e-7)*p
    print('complex amplitude ok', np.array_equal(w.field,amp*mask))
    wi=lentil.propagate_dft(w,5e-6,shape=(4,4),oversample=1); print(wi.field.shape)
except Exception as e: print('EXC',type(e).__name__,e)
try:
    p=lentil.Pupil(amplitude=amp,pixelscale=1e-2,focal_length=2.)
except Exception as e: print('no-mask complex EXC',type(e).__name__,e)
