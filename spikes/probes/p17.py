import numpy as np, lentil
for rad in (6,5,5.5,6.3,7):
    m=lentil.hex_segments(1,rad,0,antialias=False,drop=())
    s=m.sum(0); idx=np.argwhere(s>1); n=m.shape[1]
    print('rad',rad,'overlap',len(idx), 'max',s.max(), [tuple(i-n//2) for i in idx][:14])
