import numpy as np, lentil, itertools, traceback
from lentil.field import Field, insert, merge, reduce, boundary, _merge
np.random.seed(4)
def embed(f, canvas_shape=(41,41)):
    # canvas origin at floor(n/2)
    c=np.zeros(canvas_shape,complex); 
    rmin,rmax,cmin,cmax=lentil.extent.array_extent(f.shape,f.offset)
    o=canvas_shape[0]//2
    c[rmin+o:rmax+o+1,cmin+o:cmax+o+1]+=f.data
    return c
# insert: all positions incl. outside
err={}
tot=0
for fs in [(1,1),(2,3),(3,3),(4,2),(5,5)]:
  for os_ in [(1,1),(4,4),(5,4),(3,6)]:
    for dr in range(-8,9):
      for dc in range(-8,9):
        f=Field(np.arange(1,fs[0]*fs[1]+1).reshape(fs)*(1+1j),offset=[dr,dc])
        out=np.zeros(os_,complex)
        tot+=1
        try:
            insert(f,out)
            # reference
            ref=np.zeros(os_,complex)
            ul=(os_[0]//2-fs[0]//2+dr, os_[1]//2-fs[1]//2+dc)
            for i in range(fs[0]):
                for j in range(fs[1]):
                    R,C=ul[0]+i,ul[1]+j
                    if 0<=R<os_[0] and 0<=C<os_[1]: ref[R,C]+=f.data[i,j]
            if not np.array_equal(ref,out): err.setdefault('wrong',[]).append((fs,os_,dr,dc))
        except Exception as e:
            err.setdefault(type(e).__name__,[]).append((fs,os_,dr,dc))
print('insert total',tot,{k:(len(v),v[:3]) for k,v in err.items()})
# scalar field insert into array
try:
    out=np.zeros((4,4),complex); insert(Field(2.0),out); print('scalar insert',out[0])
except Exception as e: print('scalar insert EXC',repr(e))
# boundary with negative-only extents
a=Field(np.ones((2,2)),offset=[-6,-6]); b=Field(np.ones((3,3)),offset=[-5,-6])
print('boundary neg',boundary([a,b]), a.extent,b.extent)
m=merge(a,b); print('merge shape',m.shape,m.offset,m.extent, np.allclose(embed(m),embed(a)+embed(b)))
# reduce with many
bad=0
for t in range(300):
    k=np.random.randint(1,6); fl=[]
    for i in range(k):
        sh=tuple(np.random.randint(1,5,size=2)); off=list(np.random.randint(-7,8,size=2))
        fl.append(Field(np.random.randint(1,5,size=sh)*(1+0j),offset=[int(off[0]),int(off[1])]))
    try:
        red=reduce(fl)
        tot1=sum(embed(f) for f in fl); tot2=sum(embed(f) for f in red)
        ok=np.allclose(tot1,tot2)
        for x,y in itertools.combinations(red,2):
            if lentil.extent.intersect(x.extent,y.extent): ok=False
        if not ok: bad+=1; print('reduce bad',[(f.shape,f.offset) for f in fl])
    except Exception as e:
        bad+=1; print('reduce EXC',repr(e),[(f.shape,f.offset) for f in fl])
    if bad>5: break
print('reduce bad',bad)
