import numpy as np, lentil
from lentil.field import Field, insert, merge, reduce
np.random.seed(1)
def ref_prop(field_full, dx, du, wl, z, os_, shape_out):
    # unitary Fraunhofer sum on full output grid shape_out (already oversampled), origin floor(n/2)
    m,n=field_full.shape; M,N=shape_out
    ar=dx[0]*du[0]/(wl*z*os_); ac=dx[1]*du[1]/(wl*z*os_)
    X=np.arange(m)-m//2; Y=np.arange(n)-n//2; U=np.arange(M)-M//2; V=np.arange(N)-N//2
    E1=np.exp(-2j*np.pi*ar*np.outer(U,X)); E2=np.exp(-2j*np.pi*ac*np.outer(Y,V))
    return E1@field_full@E2*np.sqrt(abs(ar*ac))
# C02: pupil to image, varied shapes/prop_shape
bad=0;tot=0
for trial in range(200):
    m,n=np.random.randint(3,9,size=2)
    amp=np.random.rand(m,n)*(np.random.rand(m,n)>0.3); 
    if amp.sum()==0: continue
    opd=np.random.rand(m,n)*1e-7
    dx=(1e-2,1.3e-2) if trial%2 else (1e-2,1e-2)
    p=lentil.Pupil(amplitude=amp,opd=opd,pixelscale=dx,focal_length=3.0)
    wl=5e-7
    w=lentil.Wavefront(wl)*p
    du=(5e-6,7e-6) if trial%3==0 else 5e-6
    os_=int(np.random.randint(1,4))
    shape=tuple(int(x) for x in np.random.randint(2,9,size=2))
    ps=tuple(int(np.random.randint(1,s+1)) for s in shape) if trial%2 else None
    wi=lentil.propagate_dft(w,pixelscale=du,shape=shape,prop_shape=ps,oversample=os_)
    dub=np.broadcast_to(du,(2,))
    full=amp*np.exp(2j*np.pi*opd/wl)*(amp!=0)
    ref=ref_prop(full,dx,dub,wl,3.0,os_,(shape[0]*os_,shape[1]*os_))
    got=wi.field
    # window: centred prop window
    win=np.zeros_like(ref)
    if ps is None: win[:]=1
    else:
        P=(ps[0]*os_,ps[1]*os_); S=ref.shape
        r0=S[0]//2-P[0]//2; c0=S[1]//2-P[1]//2
        win[r0:r0+P[0],c0:c0+P[1]]=1
    tot+=1
    if not np.allclose(got,ref*win,atol=1e-9):
        bad+=1
        if bad<4: print('C02 mismatch', (m,n),shape,ps,os_, np.abs(got-ref*win).max())
print('C02 pupil->image', bad,'/',tot)
