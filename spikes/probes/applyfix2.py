import subprocess
def patch(path, old, new, msg, count=1):
    s=open(path).read()
    assert s.count(old)==count, (path, msg, s.count(old))
    s=s.replace(old,new); open(path,'w').write(s)
    subprocess.check_call(['git','commit','-qam',msg]); print('ok',msg)
patch('lentil/radiometry.py',"""        if waveunit != self.waveunit:
            self.to(waveunit)

        interp = scipy.interpolate.interp1d(self.wave, self.value, kind=method,
                                            copy=False, bounds_error=False,
                                            fill_value=fill_value)
""","""        # convert a copy so that sampling never changes the units of self
        spectrum = self
        if waveunit != self.waveunit:
            spectrum = self.copy()
            spectrum.to(waveunit)

        interp = scipy.interpolate.interp1d(spectrum.wave, spectrum.value, kind=method,
                                            copy=False, bounds_error=False,
                                            fill_value=fill_value)
""","fix: Spectrum.sample converted the spectrum itself to the requested wavelength unit")
patch('lentil/radiometry.py',"""    # compute a common wavelength array that spans both spectrum and has the
    # desired sampling
    minwave = min(s1.wave.min(), s2.wave.min())""","""    # work in the wavelength unit of the left operand
    waveunit = s1.waveunit
    if s2.waveunit != waveunit:
        s2 = s2.copy()
        s2.to(waveunit)

    # compute a common wavelength array that spans both spectrum and has the
    # desired sampling
    minwave = min(s1.wave.min(), s2.wave.min())""","fix: Spectrum arithmetic assumed nanometres (part 1)")
patch('lentil/radiometry.py',"""    s1_samplevalue = s1.sample(s1_wave, method=method, fill_value=fill_value)
    s2_samplevalue = s2.sample(s2_wave, method=method, fill_value=fill_value)""","""    s1_samplevalue = s1.sample(s1_wave, method=method, fill_value=fill_value,
                               waveunit=waveunit)
    s2_samplevalue = s2.sample(s2_wave, method=method, fill_value=fill_value,
                               waveunit=waveunit)""","fix: Spectrum arithmetic assumed nanometres (part 2)")
