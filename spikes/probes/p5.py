import numpy as np, lentil
from p4 import run
A,B,C,D,pD=run((1e-2,1e-2),(5e-6,5e-6),2,2e-6,0)
print(np.abs(A-B).max(), np.abs(np.abs(A)-np.abs(B)).max(), np.abs(A).max())
print(np.abs(B-C).max(), np.abs(B-D).max())
i=np.unravel_index(np.argmax(np.abs(A)),A.shape); print(i, A[i],B[i])
# try sign variants
for sx in (1,-1):
  for sy in (1,-1):
    A2,B2,_,_,_=run((1e-2,1e-2),(5e-6,5e-6),2,1.3e-6,-2.1e-6)
