import numpy as np, lentil, warnings
warnings.simplefilter('ignore')
np.random.seed(10)
# C17 rescale bookkeeping
def smooth(n0,n1):
    r,c=lentil.helper.mesh((n0,n1)); return np.exp(-(r**2+c**2)/(2*(min(n0,n1)/5)**2))
for (n0,n1) in [(32,32),(33,33),(32,40),(31,36)]:
    amp=smooth(n0,n1)*lentil.circle((n0,n1),min(n0,n1)*0.4,antialias=False); opd=1e-7*smooth(n0,n1)
    p=lentil.Pupil(amplitude=amp,opd=opd,pixelscale=1e-2,focal_length=2.)
    a0=p.amplitude.copy(); 
    for s in [0.5,0.75,1,1.5,2,3,2.3]:
        q=p.rescale(s)
        shp_ok = q.shape==(int(np.ceil(n0*s)),int(np.ceil(n1*s)))
        ps_ok = np.allclose(q.pixelscale,(1e-2/s,1e-2/s),rtol=1e-15)
        binm = set(np.unique(q.mask))<= {0,1}
        pw0=(p.amplitude**2).sum(); pw1=(q.amplitude**2).sum()
        ident = (s!=1) or (np.allclose(q.amplitude,p.amplitude,atol=1e-12) and np.allclose(q.opd,p.opd,atol=1e-20) and np.array_equal(q.mask,p.mask))
        print((n0,n1),'s',s,'shape',shp_ok,'ps',ps_ok,'bin',binm,'power ratio %.5f'%(pw1/pw0),'identity',ident, 'orig untouched',np.array_equal(a0,p.amplitude), q.amplitude.shape==q.mask.shape)
# segmented
m=lentil.hex_segments(1,8,2,antialias=False,drop=())
p=lentil.Pupil(amplitude=m.sum(0),mask=m,pixelscale=1e-2,focal_length=1)
q=p.rescale(1.5); print('seg rescale',q.mask.shape,q.size,len(q._slice), set(np.unique(q.mask)))
try: lentil.Plane(amplitude=np.ones((4,4))).resample(1e-3)
except Exception as e: print('resample no ps',type(e).__name__)
try: lentil.Plane(amplitude=np.ones((4,4)),pixelscale=(1,2)).resample(1e-3)
except Exception as e: print('resample nonuniform',type(e).__name__)
