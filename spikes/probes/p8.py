import numpy as np, lentil
from lentil.field import Field, insert, merge, reduce
try:
    r=reduce([Field(np.ones((1,1))),Field(2*np.ones((1,1)))]); print('1x1 merge',[ (f.shape,f.data) for f in r])
except Exception as e: print('1x1 merge EXC',repr(e))
try:
    r=reduce([Field(1.0),Field(2.0)]); print('0d merge',[ (f.shape,f.data) for f in r])
except Exception as e: print('0d merge EXC',repr(e))
# C07: scalar amplitude with mask and opd arrays
mask=lentil.circle((8,8),3,antialias=False)
opd=np.random.rand(8,8)*1e-7
p=lentil.Pupil(amplitude=1,opd=opd,mask=mask.copy(),pixelscale=1e-2,focal_length=1)
w=lentil.Wavefront(5e-7)*p
print('scalar amp + mask: field nonzero outside mask?', np.any((w.field!=0)&(mask==0)), w.shape, [f.shape for f in w.data])
p=lentil.Pupil(amplitude=1,opd=0,mask=mask.copy(),pixelscale=1e-2,focal_length=1)
w=lentil.Wavefront(5e-7)*p
try:
    print('scalar amp, scalar opd + mask:', w.shape, [f.shape for f in w.data], np.any((w.field!=0)&(mask==0)))
except Exception as e: print('EXC',repr(e))
# amplitude array, mask different
amp=np.random.rand(8,8)+.1
p=lentil.Pupil(amplitude=amp,opd=opd,mask=mask.copy(),pixelscale=1e-2,focal_length=1)
w=lentil.Wavefront(5e-7)*p
print('array amp + mask ok:', np.allclose(w.field, amp*mask*np.exp(2j*np.pi*opd/5e-7)), np.allclose(w.intensity,np.abs(w.field)**2))
# default plane changes nothing
w0=lentil.Wavefront(5e-7)*lentil.Plane(amplitude=amp,opd=opd,pixelscale=1e-2)
w1=w0*lentil.Plane()
print('default plane identity', np.array_equal(w0.field,w1.field), w1.ptype, w1.focal_length)
# pupil after pupil: ptype/pixelscale
try:
    (lentil.Wavefront(5e-7)*p)*lentil.Pupil(amplitude=amp,pixelscale=2e-2,focal_length=1)
except Exception as e: print('inconsistent pixelscale ->',type(e).__name__)
# C08
for wp in ['none','pupil','image']:
    for pl,name in [(lentil.Plane(),'Plane'),(lentil.Pupil(focal_length=1,pixelscale=1),'Pupil'),(lentil.Image(),'Image'),(lentil.Tilt(1e-6,0),'Tilt'),(lentil.DispersiveTilt([1,0],[1,0]),'DTilt'),(lentil.Rotate(30),'Rotate'),(lentil.Flip(),'Flip')]:
        w=lentil.Wavefront(5e-7,ptype=wp)
        try:
            r=pl*w if False else w*pl
            res=str(r.ptype)
        except Exception as e: res=type(e).__name__
        print(wp,'x',name,pl.ptype,'->',res)
