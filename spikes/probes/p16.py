import numpy as np, lentil, itertools
np.random.seed(9)
# C20 shapes: range, binary, translation, half-turn, mirror
def halfturn(a):
    n0,n1=a.shape; c0,c1=n0//2,n1//2
    out=np.full(a.shape,np.nan)
    for i in range(n0):
        for j in range(n1):
            I,J=2*c0-i,2*c1-j
            if 0<=I<n0 and 0<=J<n1: out[i,j]=a[I,J]
    return out
def same_where_defined(a,b,tol=0): 
    m=~np.isnan(b); return np.all(np.abs(a[m]-b[m])<=tol)
issues=[]
for shape in [(16,16),(17,17),(16,19),(15,20)]:
    for aa in (True,False):
        c=lentil.circle(shape,5.3,antialias=aa); h=lentil.hexagon(shape,6.2,antialias=aa); hr=lentil.hexagon(shape,6.2,rotate=True,antialias=aa); r=lentil.rectangle(shape,7,4,antialias=aa); rr=lentil.rectangle(shape,7,4,angle=30,antialias=aa)
        for name,a in [('circle',c),('hex',h),('hexrot',hr),('rect',r),('rect30',rr)]:
            if a.min()<0 or a.max()>1: issues.append((name,shape,aa,'range'))
            if not aa and not set(np.unique(a))<= {0.,1.}: issues.append((name,shape,aa,'binary',np.unique(a)[:5]))
            d=halfturn(a)
            if not same_where_defined(a,d,0): 
                issues.append((name,shape,aa,'halfturn exact', np.nanmax(np.abs(a-np.where(np.isnan(d),a,d)))))
        # translation
        for name,fn in [('circle',lambda s: lentil.circle(shape,5.3,shift=s,antialias=aa)),('hex',lambda s: lentil.hexagon(shape,5.2,shift=s,antialias=aa)),('rect',lambda s: lentil.rectangle(shape,7,4,shift=s,antialias=aa)),('rect30',lambda s: lentil.rectangle(shape,5,3,shift=s,angle=30,antialias=aa))]:
            a0=fn((0,0)); a1=fn((2,-1))
            if not np.array_equal(np.roll(a0,(2,-1),(0,1)),a1): issues.append((name,shape,aa,'translate', np.abs(np.roll(a0,(2,-1),(0,1))-a1).max()))
print('shape issues',len(issues)); [print(' ',i) for i in issues[:20]]
# hex_segments
for rings,rad,gap,rot in [(1,6,0,False),(1,6,1,False),(2,5,0,False),(2,5.5,2,True),(3,4,1,False),(2,7,0,True)]:
    m=lentil.hex_segments(rings,rad,gap,rotate=rot,antialias=False)
    nseg=m.shape[0]; ov=(m.sum(0)>1).sum(); border=m.sum(0)[[0,-1],:].sum()+m.sum(0)[:,[0,-1]].sum()
    areas=m.reshape(nseg,-1).sum(1)
    print('hex',rings,rad,gap,rot,'nseg',nseg,'expect',1+3*rings*(rings+1),'overlap px',ov,'border',border,'areas',areas.min(),areas.max(), m.shape)
m=lentil.hex_segments(2,5,1,drop=(0,3,7),antialias=False); print('drop ->',m.shape[0])
