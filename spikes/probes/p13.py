import numpy as np, lentil, warnings
from lentil.radiometry import Spectrum
import lentil.radiometry as R
np.random.seed(8)
# C15 trapz integrate additivity, linear exactness
w=np.array([1.,2.,4.,7.,8.]); v=3*w+1
s=Spectrum(w,v)
print('trapz linear exact', s.integrate(method='trapz'), (3*(64-1)/2+7))
print('additive', s.integrate(1,4,'trapz')+s.integrate(4,8,'trapz'), s.integrate(1,8,'trapz'))
# bin trapz linear exact w/o preserve
c=np.array([2.,3.,5.,6.])
b=s.bin(c,interp_method='trapz',ends='inside',preserve_power=False); print('bins inside',b, 'sum',b.sum(),'exact',3*(36-4)/2+4)
b=s.bin(c,interp_method='trapz',ends='inside',preserve_power=True); print('bins pp',b.sum(), s.integrate(2,6,'trapz'))
b=s.bin(np.array([2.,3.,4.,5.]),interp_method='simps',ends='symmetric',preserve_power=False); print('simps sym',b)
# crop
s2=Spectrum(w.copy(),v.copy()); s2.crop(2,7); print('crop',s2.wave,s2.value)
s2=Spectrum(w.copy(),v.copy()); 
try: s2.crop(2.5,3.5); print('crop empty',s2.wave,s2.value)
except Exception as e: print('crop to empty EXC',type(e).__name__, s2.wave, s2.value)
s2=Spectrum(w.copy(),np.array([0,1e-6,1.,0.5,0])); s2.trim(); print('trim',s2.wave)
s2=Spectrum(w.copy(),v.copy()); s2.pad([0.5,10]); print('pad',s2.wave,s2.value)
s2=Spectrum(w.copy(),v.copy()); 
try: s2.append(Spectrum(np.array([9.,10.]),np.array([1.,1.]))); print('append',s2.wave)
except Exception as e: print('append diff length EXC',type(e).__name__,e)
s2=Spectrum(w.copy(),v.copy()); 
try: s2.resample(np.array([3.,2.,5.]))
except Exception as e: print('resample bad EXC',type(e).__name__,'state',s2.wave.shape,s2.value.shape)
# C14
for u1 in ['m','um','nm','angstrom']:
    for u2 in ['m','um','nm','angstrom']:
        for u3 in ['m','um','nm','angstrom']:
            a=R.Unit(u1).to(u2)*R.Unit(u2).to(u3); b=R.Unit(u1).to(u3)
            if not np.isclose(a,b,rtol=1e-12): print('unit comp',u1,u2,u3,a,b)
wv=np.linspace(400,900,11)
for t in [3000.,5800.]:
  for vu in ['wlam','photlam','flam']:
    a=R.planck_radiance(wv,t,'nm',vu); b=R.planck_radiance(wv/1e3,t,'um',vu)/1e3; c=R.planck_exitance(wv,t,'nm',vu)
    print(t,vu,'unit indep',np.allclose(a,b),'exit=pi rad',np.allclose(c,np.pi*a))
s=Spectrum(wv,R.planck_radiance(wv,5000.,'nm','photlam'),'nm','photlam'); i0=s.integrate(method='trapz'); s.to('um'); print('to um integral',i0,s.integrate(method='trapz')); s.to('flam'); s.to('wlam'); s.to('photlam'); s.to('nm'); print('round trip',np.allclose(s.value,R.planck_radiance(wv,5000.,'nm','photlam')))
# C19
img=np.random.rand(7,7)
for fn in [lambda x: lentil.jitter(x,0.0), lambda x: lentil.smear(x,0.0,angle=10), lambda x: lentil.detector.pixel(x,0)]:
    print('zero extent identity',np.allclose(fn(img),img))
sh=np.roll(img,(2,3),(0,1))
print('shift commute jitter',np.allclose(np.roll(lentil.jitter(img,1.2),(2,3),(0,1)),lentil.jitter(sh,1.2)), 'smear',np.allclose(np.roll(lentil.smear(img,2.5,angle=33),(2,3),(0,1)),lentil.smear(sh,2.5,angle=33)))
# C18
for meth in ['poisson','gaussian']:
    try: lentil.detector.shot_noise(np.array([[-1.,4.]]),meth,seed=1); print(meth,'negative accepted')
    except Exception as e: print(meth,'negative ->',type(e).__name__)
try: lentil.detector.shot_noise(np.array([[1e19,4.]]),'poisson',seed=1); print('big accepted')
except Exception as e: print('big ->',type(e).__name__,e)
print('dark',lentil.detector.dark_current(2.7,(2,3)))
st=np.random.get_state()[1].copy(); lentil.detector.shot_noise(np.ones((3,3)),seed=3); lentil.detector.read_noise(np.ones((3,3)),2,seed=3); lentil.power_spectrum(np.ones((4,4)),1,1,1,2,seed=1); print('global rng untouched',np.array_equal(st,np.random.get_state()[1]))
