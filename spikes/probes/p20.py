import numpy as np, lentil, warnings
warnings.simplefilter('ignore')
np.random.seed(12)
wl=5e-7; z=3.0
def ref(full,dx,du,os_,S,sr,sc):
    m,n=full.shape; M,N=S
    ar=dx[0]*du[0]/(wl*z*os_); ac=dx[1]*du[1]/(wl*z*os_)
    X=np.arange(m)-m//2; Y=np.arange(n)-n//2; U=np.arange(M)-M//2-sr; V=np.arange(N)-N//2-sc
    return np.exp(-2j*np.pi*ar*np.outer(U,X))@full@np.exp(-2j*np.pi*ac*np.outer(Y,V))*np.sqrt(abs(ar*ac))
bad=0;tot=0;empty=0
for t in range(400):
    m,n=np.random.randint(3,8,size=2)
    amp=np.random.rand(m,n)+.1
    dx=(1e-2,1e-2); du=(5e-6,5e-6)   # square pixels (defect 2 avoided)
    os_=int(np.random.randint(1,4)); shape=tuple(int(x) for x in np.random.randint(2,8,size=2))
    ps=tuple(int(np.random.randint(1,s+1)) for s in shape) if t%2 else None
    S=(shape[0]*os_,shape[1]*os_)
    mask=None
    if t%3==0:
        mask=(np.random.rand(*S)>0.6).astype(float)
        if mask.sum()==0: mask[0,0]=1
    scale=np.random.choice([1e-7,1e-6,5e-6,2e-5])
    tx,ty=np.random.uniform(-1,1,2)*scale
    p=lentil.Pupil(amplitude=amp,pixelscale=dx,focal_length=z)
    w=(lentil.Wavefront(wl)*p)*lentil.Tilt(x=tx,y=ty)
    wi=lentil.propagate_dft(w,du,shape=shape,prop_shape=ps,oversample=os_,mask=mask)
    sr=z*tx*os_/du[0]; sc=-z*ty*os_/du[1]
    R=ref(amp.astype(complex),dx,du,os_,S,sr,sc)
    # window: prop box shifted by fix, intersect with out box or mask bbox
    P=(ps[0]*os_,ps[1]*os_) if ps else S
    fr,fc=np.fix(sr),np.fix(sc)
    win=np.zeros(S)
    u=np.arange(S[0])-S[0]//2; v=np.arange(S[1])-S[1]//2
    inr=(u>=-(P[0]//2)+fr)&(u<=-(P[0]//2)+fr+P[0]-1); inc=(v>=-(P[1]//2)+fc)&(v<=-(P[1]//2)+fc+P[1]-1)
    win=np.outer(inr,inc).astype(float)
    if mask is not None:
        rr=np.where(mask.any(1))[0]; cc=np.where(mask.any(0))[0]; mb=np.zeros(S); mb[rr[0]:rr[-1]+1,cc[0]:cc[-1]+1]=1; win*=mb
    tot+=1
    if win.sum()==0: empty+=1
    try:
        got=wi.field
        if not np.allclose(got,R*win,atol=1e-9):
            bad+=1
            if bad<5: print('MISMATCH',(m,n),shape,ps,os_,mask is not None,(sr,sc),np.abs(got-R*win).max())
    except Exception as e:
        bad+=1; print('EXC',type(e).__name__,e,(m,n),shape,ps,os_,(sr,sc))
print('tilt+mask+prop_shape',bad,'/',tot,'empty windows',empty)
