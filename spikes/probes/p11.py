import numpy as np, lentil, warnings
np.random.seed(6)
# C03 segmented vs monolithic
n=12
m1=np.zeros((n,n));m1[1:6,1:7]=1; m2=np.zeros((n,n)); m2[4:11,5:11]=1; m2*= (1-m1)  # overlapping bboxes, disjoint supports
m3=np.zeros((n,n)); m3[8:11,1:4]=1
segmask=np.array([m1,m2,m3]); glob=segmask.sum(0)
amp=np.random.rand(n,n)+.1; opd=np.random.rand(n,n)*2e-7
pm=lentil.Pupil(amplitude=amp*glob,opd=opd,mask=glob.copy(),pixelscale=1e-2,focal_length=2)
ps=lentil.Pupil(amplitude=amp*glob,opd=opd,mask=segmask.copy(),pixelscale=1e-2,focal_length=2)
wm=lentil.propagate_dft(lentil.Wavefront(5e-7)*pm,5e-6,shape=(9,8),oversample=2)
ws=lentil.propagate_dft(lentil.Wavefront(5e-7)*ps,5e-6,shape=(9,8),oversample=2)
print('C03 field',np.allclose(wm.field,ws.field),'intensity',np.allclose(wm.intensity,ws.intensity), 'int=|f|^2',np.allclose(ws.intensity,np.abs(ws.field)**2), len(ws.data))
# with per-segment tilt fit
psf=ps.fit_tilt(); pmf=pm.fit_tilt()
ws2=lentil.propagate_dft(lentil.Wavefront(5e-7)*psf,5e-6,shape=(9,8),oversample=2)
print('fit_tilt seg: n tilt',len(psf.tilt),'fields',[(f.shape,tuple(f.offset)) for f in ws2.data])
print(' int == |field|^2 ?', np.allclose(ws2.intensity,np.abs(ws2.field)**2), np.abs(ws2.intensity-np.abs(ws2.field)**2).max())
# fit_tilt twice
p=lentil.Pupil(amplitude=np.ones((8,8)),opd=np.outer(np.arange(8),np.ones(8))*1e-7,pixelscale=1e-2,focal_length=2)
p1=p.fit_tilt(); 
p1.opd = p1.opd + np.outer(np.ones(8),np.arange(8))*1e-7
p2=p1.fit_tilt()
print('tilt list',[(t.x,t.y) for t in p2.tilt])
wa=lentil.propagate_dft(lentil.Wavefront(5e-7)*p2,5e-6,shape=(16,16),oversample=2)
pref=lentil.Pupil(amplitude=np.ones((8,8)),opd=np.outer(np.arange(8),np.ones(8))*1e-7+np.outer(np.ones(8),np.arange(8))*1e-7,pixelscale=1e-2,focal_length=2)
wb=lentil.propagate_dft(lentil.Wavefront(5e-7)*pref,5e-6,shape=(16,16),oversample=2)
print('double fit_tilt centroid',lentil.centroid(wa.intensity),'ref',lentil.centroid(wb.intensity))
# C10 mask mutation / adc mutation
mk=np.array([[0.,0.5],[2.,1.]]); mk0=mk.copy(); lentil.Plane(amplitude=np.ones((2,2)),mask=mk); print('mask mutated',not np.array_equal(mk,mk0),mk)
img=np.array([[1.,50.],[200.,3.]]); i0=img.copy(); lentil.detector.adc(img,1,saturation_capacity=100); print('adc mutated',not np.array_equal(img,i0))
# C11 parity of centroid origin
for nn in (10,11):
    mask=lentil.circle((nn,nn),3,shift=(1,-1),antialias=False)
    rho,theta=lentil.zernike_coordinates(mask)
    i=np.unravel_index(np.argmin(rho),rho.shape); cen=lentil.centroid(mask)
    print('n',nn,'centroid',cen,'argmin rho',i,'min rho',rho.min())
