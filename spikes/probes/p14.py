import numpy as np, lentil
from lentil.field import Field, insert
for (fs,os_,dr,dc) in [((2,3),(4,4),-8,-6),((2,3),(4,4),5,0),((2,3),(4,4),0,6),((3,3),(5,4),-6,0),((2,3),(4,4),-3,0)]:
    f=Field(np.ones(fs),offset=[dr,dc]); out=np.zeros(os_,complex)
    try: insert(f,out); print(fs,os_,dr,dc,'ok sum',out.sum())
    except Exception as e: print(fs,os_,dr,dc,type(e).__name__,e)
