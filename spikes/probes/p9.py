import numpy as np, lentil
np.random.seed(5)
z=2.0
def trial(m,n,dx,du,wl,os_,shape=None,scratch=None):
    amp=np.random.rand(m,n)+.1; opd=np.random.rand(m,n)*1e-7
    p=lentil.Pupil(amplitude=amp,opd=opd,pixelscale=dx,focal_length=z)
    w=lentil.Wavefront(wl)*p
    wf=lentil.propagate_fft(w,pixelscale=du,shape=shape,oversample=os_,scratch=scratch)
    w2=lentil.Wavefront(wf.wavelength)*lentil.Pupil(amplitude=amp,opd=opd*wf.wavelength/wl,pixelscale=dx,focal_length=z)
    shp=(wf.shape[0]//os_,wf.shape[1]//os_) if True else None
    wd=lentil.propagate_dft(w2,pixelscale=du,shape=np.array(wf.shape)//os_ if shape is not None else None,oversample=os_)
    return wf,wd
for (m,n,dx,du,wl,os_,shape) in [(6,6,1e-2,5e-6,5e-7,2,(4,4)),(7,7,1e-2,5e-6,5e-7,2,(4,4)),(6,6,1e-2,5e-6,5.3e-7,1,(5,5)),(6,6,1e-2,5e-6,5.13e-7,1,(4,4)),(5,6,1e-2,5e-6,5.13e-7,3,(3,4))]:
    dxb=np.broadcast_to(dx,(2,)); dub=np.broadcast_to(du,(2,))
    fs,pw=lentil.propagate._fft_shape(dxb,dub,z,wl,os_)
    wf,wd=trial(m,n,dx,du,wl,os_,shape)
    print((m,n),'fft_shape',fs,'propwl',pw,wf.shape, wd.shape,'agree', np.allclose(wf.field,wd.field,atol=1e-9), np.abs(wf.field-wd.field).max())
# scratch exact size
dxb=np.array([1e-2,1e-2]);dub=np.array([5e-6,5e-6])
ss=lentil.scratch_shape(5e-7,1e-2,5e-6,z,2); print('scratch_shape',ss)
p=lentil.Pupil(amplitude=np.ones((6,6)),pixelscale=1e-2,focal_length=z); w=lentil.Wavefront(5e-7)*p
for shp in [ss,(ss[0]+1,ss[1]+1),(ss[0]+3,ss[1]+2)]:
    try:
        sc=np.random.rand(*shp)+1j
        a=lentil.propagate_fft(w,5e-6,shape=(4,4),oversample=2,scratch=sc).field
        b=lentil.propagate_fft(w,5e-6,shape=(4,4),oversample=2).field
        print('scratch',shp,'same',np.allclose(a,b), a.shape,b.shape)
    except Exception as e: print('scratch',shp,'EXC',repr(e))
try:
    lentil.propagate_fft(w*lentil.Tilt(1e-6,0),5e-6,shape=(4,4),oversample=2)
except Exception as e: print('tilt refused',type(e).__name__)
try:
    lentil.propagate_fft(lentil.Wavefront(5e-7,tilt=[1e-6,0])*p,5e-6,shape=(4,4),oversample=2); print('wavefront tilt NOT refused')
except Exception as e: print('wf tilt refused',type(e).__name__)
try:
    lentil.propagate_fft(w,5e-6,shape=(400,400),oversample=2)
except Exception as e: print('too large refused',type(e).__name__)
