import numpy as np, lentil, warnings
from lentil.radiometry import Spectrum
np.random.seed(7)
mask=lentil.circle((32,32),14,antialias=False)
# C12
c=np.zeros(6); c[3]=2.0; c[1]=1.0
opd=lentil.zernike_compose(mask,c)
print('fit [2,4]',lentil.zernike_fit(opd,mask,[2,4]), 'fit [4,2]',lentil.zernike_fit(opd,mask,[4,2]))
res=lentil.zernike_remove(opd,mask,[4]); print('remove [4] residual fit of 4:',lentil.zernike_fit(res,mask,[4]),' rms',np.sqrt((res[mask>0]**2).mean()))
res=lentil.zernike_remove(opd,mask,[1,2,3,4]); print('remove 1..4 rms', np.sqrt((res[mask>0]**2).mean()))
rho,theta=lentil.zernike_coordinates(mask)
try: lentil.zernike_remove(opd,mask,[1,2,3,4],rho=rho,theta=theta); print('remove with rho ok')
except Exception as e: print('remove with rho/theta EXC',type(e).__name__,e)
# C13
a=Spectrum(np.array([0.4,0.5,0.6]),np.array([1.,2.,3.]),waveunit='um'); b=Spectrum(np.array([0.45,0.55,0.65]),np.array([2.,2.,2.]),waveunit='um')
p=a*b; print('um product',p.wave,p.value,p.waveunit,'a after',a.wave,a.waveunit)
a=Spectrum(np.array([400.,500,600]),np.array([1.,2.,3.])); b=Spectrum(np.array([450.,550,650]),np.array([2.,2.,2.]))
p=a*b; q=b*a; print('nm product',p.wave,p.value, 'commutes',np.allclose(p.value,q.value))
# C16 bayer
for os_ in (1,2,3,4):
    img=np.ones((1,4*os_,4*os_))
    r,g,b=lentil.detector.collect_charge_bayer(img,[500],1,10,100,'RGGB',oversample=os_,flatten=False)
    tot=r+g+b
    exp=np.kron(np.tile(np.array([[1,10],[10,100]]),(2,2)),np.ones((os_,os_)))
    print('bayer os',os_,'ok',np.array_equal(tot,exp))
# C19 pixel non-square
try: lentil.detector.pixel(np.random.rand(6,8),2); print('pixel nonsquare ok')
except Exception as e: print('pixel nonsquare EXC',type(e).__name__)
print('jitter ns',lentil.jitter(np.random.rand(6,8),1.).shape,'smear ns',lentil.smear(np.random.rand(6,8),2.,angle=30).shape)
# C20 pad
for (n,N) in [(7,40),(8,5),(7,4),(6,9),(5,9),(6,10)]:
    a=np.zeros((n,n)); a[n//2,n//2]=1; b=lentil.pad(a,(N,N)); print('pad',n,'->',N,'origin kept',b[N//2,N//2]==1)
try:
    cube=np.random.rand(2,3,5); out=lentil.pad(cube,(6,8)); print('cube pad ok',out.shape)
except Exception as e: print('cube pad (2,3,5)->(6,8) EXC',type(e).__name__,e)
try:
    cube=np.random.rand(2,5,3); out=lentil.pad(cube,(8,6)); print('cube pad (2,5,3) ok',out.shape, np.allclose(out.sum(),cube.sum()))
except Exception as e: print('cube pad EXC',type(e).__name__,e)
# C18 power_spectrum non-square
try:
    o=lentil.power_spectrum(np.ones((8,12)),1e-2,1e-8,5,3,seed=1); print('ps nonsquare',o.shape,np.sqrt((o**2).mean()))
except Exception as e: print('power_spectrum nonsquare EXC',type(e).__name__,e)
o=lentil.power_spectrum(lentil.circle((16,16),6,antialias=False),1e-2,1e-8,5,3,seed=1); print('ps square rms over mask',np.sqrt((o[o!=0]**2).mean()))
