import numpy as np, lentil
np.random.seed(3)
from p2 import ref_prop
wl=5e-7; z=3.0
def run(dx,du,os_,tx,ty,shape=(16,16),m=8,n=8):
    amp=np.ones((m,n)); 
    r,c=lentil.helper.mesh((m,n))
    # OPD ramp equivalent to Tilt(x=tx,y=ty): from ptt_vector: x-tilt basis r*dx0, y-tilt basis -c*dx1
    opd=tx*r*dx[0]+ty*(-c)*dx[1]
    pA=lentil.Pupil(amplitude=amp,opd=opd,pixelscale=dx,focal_length=z)
    wA=lentil.propagate_dft(lentil.Wavefront(wl)*pA,pixelscale=du,shape=shape,oversample=os_)
    pB=lentil.Pupil(amplitude=amp,pixelscale=dx,focal_length=z)
    wB=lentil.propagate_dft((lentil.Wavefront(wl)*pB)*lentil.Tilt(x=tx,y=ty),pixelscale=du,shape=shape,oversample=os_)
    wC=lentil.propagate_dft(lentil.Wavefront(wl,tilt=[tx,ty])*pB,pixelscale=du,shape=shape,oversample=os_)
    pD=pA.fit_tilt()
    wD=lentil.propagate_dft(lentil.Wavefront(wl)*pD,pixelscale=du,shape=shape,oversample=os_)
    return wA.field,wB.field,wC.field,wD.field,pD
for dx,du in [((1e-2,1e-2),(5e-6,5e-6)),((1e-2,1e-2),(5e-6,8e-6)),((1e-2,1.5e-2),(5e-6,5e-6))]:
    for tx,ty in [(2e-6,0),(0,2e-6),(1.3e-6,-2.1e-6)]:
        A,B,C,D,pD=run(dx,du,2,tx,ty)
        cen=lambda F: np.array(lentil.centroid(np.abs(F)**2))-np.array(F.shape)//2
        print('dx',dx,'du',du,'t',(tx,ty),'A~B',np.allclose(A,B,atol=1e-9),'A~C',np.allclose(A,C,atol=1e-9),'A~D',np.allclose(A,D,atol=1e-9),
              'cenA',np.round(cen(A),3),'cenB',np.round(cen(B),3),'pred', np.round([z*tx/du[0]*2, -z*ty/du[1]*2],3), 'fit',[ (t.x,t.y) for t in pD.tilt])
