import numpy as np, lentil, warnings
from lentil.radiometry import Spectrum
np.random.seed(13)
D=lentil.detector
# adc forms
bad=0
for t in range(300):
    r,c=np.random.randint(1,5,size=2); e=np.random.randint(-5,40,size=(r,c)).astype(float)
    sat=np.random.choice([None,10,25])
    form=t%4; k=np.random.randint(1,4)
    if form==0: g=float(np.random.randint(1,4)); coef=np.zeros((1,r,c))+g
    elif form==1: gg=np.random.randint(0,3,size=k).astype(float); g=gg; coef=np.tile(gg[:,None,None],(1,r,c))
    elif form==2: g=np.random.randint(0,3,size=(r,c)).astype(float); coef=g[None]
    else: g=np.random.randint(0,3,size=(k,r,c)).astype(float); coef=g
    e0=e.copy()
    with warnings.catch_warnings(record=True) as w:
        warnings.simplefilter('always')
        out=D.adc(e.copy(),g,saturation_capacity=sat,warn_saturate=True)
    ec=np.minimum(e0,sat) if sat else e0
    K=coef.shape[0]; poly=sum(coef[d]*ec**(K-d) for d in range(K))
    exp=np.maximum(np.floor(poly),0)
    warned=len(w)>0; shouldwarn=bool(sat) and bool((e0>sat).any())
    if not (np.array_equal(out,exp) and warned==shouldwarn): 
        bad+=1
        if bad<4: print('adc mismatch form',form,g,sat,e0,out,exp,warned,shouldwarn)
print('adc bad',bad)
print('adc dtype',D.adc(np.array([[3.7]]),1,dtype=np.uint16).dtype)
# collect_charge with spectrum in different units
img=np.random.randint(0,5,size=(3,2,2)).astype(float); wave=np.array([500.,600.,700.])
qe=Spectrum(np.array([400.,800.]),np.array([0.25,0.75]))
a=D.collect_charge(img,wave,qe); qv=qe.sample(wave); b=D.collect_charge(img,wave,qv)
qe_um=Spectrum(np.array([0.4,0.8]),np.array([0.25,0.75]),waveunit='um')
c=D.collect_charge(img,wave,qe_um)
print('collect spectrum==vector',np.allclose(a,b),'um spectrum',np.allclose(a,c),'qe_um now',qe_um.waveunit)
c2=D.collect_charge(img,wave/1e3,Spectrum(np.array([400.,800.]),np.array([0.25,0.75])),waveunit='um'); print('wave in um',np.allclose(a,c2))
# C19 physical units equivalence
img=np.random.rand(6,9)
print('jitter units',np.allclose(lentil.jitter(img,2e-6,pixelscale=5e-6,oversample=3),lentil.jitter(img,2e-6/5e-6*3)))
print('smear units',np.allclose(lentil.smear(img,2e-6,angle=20,pixelscale=5e-6,oversample=3),lentil.smear(img,2e-6/5e-6*3,angle=20)))
# jitter transfer function check vs analytic
sig=0.8; F=np.fft.fft2(img); fy=np.fft.fftfreq(6)[:,None]; fx=np.fft.fftfreq(9)[None,:]
conv=np.fft.ifft2(F*np.exp(-2*np.pi**2*sig**2*(fx**2+fy**2)))
print('jitter = gaussian conv', np.allclose(lentil.jitter(img,sig),np.abs(conv)*img.sum()/np.abs(conv).sum()), 'imag max',np.abs(conv.imag).max(), 'min real',conv.real.min())
print('sum kept', np.isclose(lentil.jitter(img,sig).sum(),img.sum()), np.isclose(lentil.smear(img,2.2,angle=40).sum(),img.sum()))
