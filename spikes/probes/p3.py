import numpy as np, lentil
np.random.seed(2)
from p2 import ref_prop
# mask
bad=0;tot=0
for trial in range(200):
    m,n=np.random.randint(3,9,size=2)
    amp=np.random.rand(m,n)+0.1
    dx=(1e-2,1.3e-2)
    p=lentil.Pupil(amplitude=amp,pixelscale=dx,focal_length=3.0)
    wl=5e-7
    w=lentil.Wavefront(wl)*p
    du=(5e-6,7e-6)
    os_=int(np.random.randint(1,4))
    shape=tuple(int(x) for x in np.random.randint(2,9,size=2))
    S=(shape[0]*os_,shape[1]*os_)
    mask=(np.random.rand(*S)>0.7).astype(float)
    if mask.sum()==0: continue
    try:
        wi=lentil.propagate_dft(w,pixelscale=du,shape=shape,oversample=os_,mask=mask)
    except Exception as e:
        print('EXC',S,repr(e)); bad+=1; tot+=1; continue
    ref=ref_prop(amp.astype(complex),dx,du,wl,3.0,os_,S)
    rr=np.where(mask.any(1))[0]; cc=np.where(mask.any(0))[0]
    win=np.zeros(S); win[rr[0]:rr[-1]+1,cc[0]:cc[-1]+1]=1
    tot+=1
    if not np.allclose(wi.field,ref*win,atol=1e-9):
        bad+=1
        if bad<5: print('mask mismatch',(m,n),S,np.abs(wi.field-ref*win).max())
print('C02 mask',bad,'/',tot)
# image -> pupil
w=lentil.Wavefront(5e-7)*lentil.Pupil(amplitude=np.random.rand(6,5)+.1,pixelscale=1e-2,focal_length=3.0)
wi=lentil.propagate_dft(w,pixelscale=5e-6,shape=(7,6),oversample=2)
print(wi.ptype, wi.pixelscale, wi.focal_length, wi.shape)
wp=lentil.propagate_dft(wi,pixelscale=1e-2,shape=(6,5),oversample=1)
print(wp.ptype, wp.pixelscale, wp.shape)
ref=ref_prop(wi.field,wi.pixelscale,(1e-2,1e-2),5e-7,3.0,1,(6,5))
print('image->pupil', np.allclose(wp.field,ref))
