import numpy as np, lentil, lentil.propagate as P, lentil.util as U
np.random.seed(5)
from p9 import trial, z
def pad_fixed(array, shape):
    array=np.asarray(array)
    out=np.zeros(shape,dtype=array.dtype)
    n0,n1=array.shape; N0,N1=shape
    # place so that index n//2 -> N//2
    for (i,j),v in np.ndenumerate(array):
        I=i-n0//2+N0//2; J=j-n1//2+N1//2
        if 0<=I<N0 and 0<=J<N1: out[I,J]=v
    return out
P._fft2=lambda x: np.fft.fftshift(np.fft.fft2(np.fft.ifftshift(x),norm='ortho'))
lentil.pad=pad_fixed
for (m,n,dx,du,wl,os_,shape) in [(6,6,1e-2,5e-6,5e-7,2,(4,4)),(7,7,1e-2,5e-6,5e-7,2,(4,4)),(6,6,1e-2,5e-6,5.3e-7,1,(5,5)),(6,6,1e-2,5e-6,5.13e-7,1,(4,4)),(5,6,1e-2,5e-6,5.13e-7,3,(3,4)),(5,6,(1e-2,1.2e-2),(5e-6,6e-6),5.13e-7,3,(3,4)),(5,6,1e-2,5e-6,5.13e-7,3,None)]:
    try:
        wf,wd=trial(m,n,dx,du,wl,os_,shape)
        print((m,n),wf.shape, wd.shape,'agree', np.allclose(wf.field,wd.field,atol=1e-9), np.abs(wf.field-wd.field).max())
    except Exception as e: print('EXC',repr(e))
