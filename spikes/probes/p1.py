import numpy as np, lentil, warnings
from lentil.fourier import dft2, idft2
np.random.seed(0)
def ref_dft(f, ar, ac, M, N, shift=(0,0), offset=(0,0), unitary=True):
    m,n=f.shape
    X=np.arange(m)-m//2+offset[0]; Y=np.arange(n)-n//2+offset[1]
    U=np.arange(M)-M//2-shift[0]; V=np.arange(N)-N//2-shift[1]
    out=np.zeros((M,N),complex)
    for u in range(M):
        for v in range(N):
            out[u,v]=np.sum(f*np.exp(-2j*np.pi*(ar*np.outer(X,np.ones(n))*U[u]+ac*np.outer(np.ones(m),Y)*V[v])))
    if unitary: out*=np.sqrt(abs(ar*ac))
    return out
f=np.random.rand(5,4)+1j*np.random.rand(5,4)
F=dft2(f,(0.13,0.21),shape=(6,7),shift=(0.3,-1.2),offset=(2,-3))
print('C01 forward general', np.allclose(F,ref_dft(f,0.13,0.21,6,7,(0.3,-1.2),(2,-3))))
# inverse unitary
for (m,n) in [(4,4),(5,4),(5,7)]:
    f=np.random.rand(m,n)+1j*np.random.rand(m,n)
    for un in (False,True):
        F=dft2(f,(1/m,1/n),unitary=un); g=idft2(F,(1/m,1/n),unitary=un)
        print('C01 inverse',(m,n),'unitary',un, np.allclose(g,f), 'ratio', (g/f).ravel()[0], 'E', np.sum(abs(F)**2)/np.sum(abs(f)**2), np.sum(abs(g)**2)/np.sum(abs(F)**2))
