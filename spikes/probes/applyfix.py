import subprocess,sys,re
def patch(path, old, new, msg, count=1):
    s=open(path).read()
    assert s.count(old)==count, (path, msg, s.count(old))
    s=s.replace(old,new); open(path,'w').write(s)
    subprocess.check_call(['git','commit','-qam',msg])
    print('ok',msg)
# 1 idft2 unitary
patch('lentil/fourier.py',"""    np.conj(F, out=F)
    return np.divide(F, N, out=F)""","""    np.conj(F, out=F)
    if unitary:
        # the unitary forward transform is its own adjoint up to conjugation
        return F
    return np.divide(F, N, out=F)""","fix: idft2 must not divide by N when unitary normalisation is requested")
# 2 Field.shift axis
patch('lentil/field.py',"""        out = x/pixelscale[0] * oversample, y/pixelscale[1] * oversample""","""        # pixelscale is given as (row, col): x runs along columns, y along rows
        out = x/pixelscale[1] * oversample, y/pixelscale[0] * oversample""","fix: Field.shift used the row pixel size for x and the column pixel size for y")
# 3 tilt accumulation
patch('lentil/plane.py',"""                               tilt=[self.tilt[n]] if self.tilt else [])""","""                               tilt=self.tilt[n::self.size] if self.tilt else [])""","fix: Plane.multiply dropped tilt recorded by a second fit_tilt")
# 4 insert clipping
patch('lentil/field.py',"""        out_slice = slice(out_rmin, out_rmax), slice(out_cmin, out_cmax)
        field_slice = slice(field_rmin, field_rmax), slice(field_cmin, field_cmax)
""","""        # nothing to do if the field lies entirely outside of out
        if out_rmax <= out_rmin or out_cmax <= out_cmin:
            return out

        out_slice = slice(out_rmin, out_rmax), slice(out_cmin, out_cmax)
        field_slice = slice(field_rmin, field_rmax), slice(field_cmin, field_cmax)
""","fix: field.insert raised ValueError for fields lying outside the output array")
# 7 scalar amplitude with array mask
patch('lentil/plane.py',"""                amp = self.amplitude if self.amplitude.size == 1 else self.amplitude[s] * mask[s]""","""                if self.amplitude.size == 1:
                    amp = self.amplitude if mask.size == 1 else self.amplitude * mask[s]
                else:
                    amp = self.amplitude[s] * mask[s]""","fix: Plane.multiply ignored an array mask when amplitude was a scalar")
# 8 ptype table
patch('lentil/plane.py',"""        lentil.image: lentil.image,
        lentil.tilt: lentil.pupil,
        lentil.transform: lentil.pupil
    }""","""        lentil.image: lentil.image,
        lentil.tilt: lentil.image,
        lentil.transform: lentil.image
    }""","fix: image wavefront times tilt/transform plane must stay an image wavefront")
# 10 scratch >=
patch('lentil/propagate.py',"""        if not all(np.asarray(scratch.shape) > fft_shape):""","""        if not all(np.asarray(scratch.shape) >= fft_shape):""","fix: propagate_fft refused a scratch array of exactly the required shape")
# 11 fft2 order
patch('lentil/propagate.py',"""    return np.fft.ifftshift(np.fft.fft2(np.fft.fftshift(x), norm='ortho'))""","""    return np.fft.fftshift(np.fft.fft2(np.fft.ifftshift(x), norm='ortho'))""","fix: propagate_fft shifted the wrong way round on odd-sized grids")
# 12 pad
s=open('lentil/util.py').read()
s=s.replace("""        rmin0 = (array.shape[0+offset] - shape[0])//2""","""        rmin0 = array.shape[0+offset]//2 - shape[0]//2""")
s=s.replace("""        rmin1 = (shape[0] - array.shape[0+offset])//2""","""        rmin1 = shape[0]//2 - array.shape[0+offset]//2""")
s=s.replace("""        cmin0 = (array.shape[1+offset] - shape[1])//2""","""        cmin0 = array.shape[1+offset]//2 - shape[1]//2""")
s=s.replace("""        cmax0 = array.shape[1]
        cmin1 = (shape[1] - array.shape[1+offset])//2""","""        cmax0 = array.shape[1+offset]
        cmin1 = shape[1]//2 - array.shape[1+offset]//2""")
open('lentil/util.py','w').write(s); subprocess.check_call(['git','commit','-qam','fix: pad must keep the floor(n/2) origin for every parity and read cube axes correctly'])
# 13 mask copy, adc copy
patch('lentil/plane.py',"""        if mask is None:
            mask = np.copy(self._amplitude)
        
        mask[mask != 0] = 1""","""        # always work on a copy so that the caller's array is never modified
        mask = np.copy(self._amplitude) if mask is None else np.array(mask)

        mask[mask != 0] = 1""","fix: Plane binarised the caller's mask array in place")
patch('lentil/detector.py',"""        # Apply the saturation limit
        img[img > saturation_capacity] = saturation_capacity""","""        # Apply the saturation limit (on a copy, the input frame is left alone)
        img = np.minimum(img, saturation_capacity)""","fix: adc clipped the caller's frame in place")
# 14 zernike centre
patch('lentil/zernike.py',"""        center = np.asarray(mask.shape)/2  # center in (r, c)""","""        center = np.asarray(mask.shape)//2  # center in (r, c)""","fix: zernike_coordinates origin was half a sample off the centroid on odd-sized arrays")
# 15 zernike_remove
patch('lentil/zernike.py',"""    coeffs = zernike_fit(opd, mask, modes, rho, theta)
    fit_opd = zernike_compose(mask, coeffs, rho, theta)
""","""    modes = np.atleast_1d(modes)
    coeffs = zernike_fit(opd, mask, modes, rho=rho, theta=theta)
    basis = zernike_basis(mask, modes, rho=rho, theta=theta)
    fit_opd = np.einsum('ijk,i->jk', basis, coeffs)
""","fix: zernike_remove mixed up its arguments and removed modes 1..k instead of the requested ones")
# 17 bayer
s=open('lentil/detector.py').read()
for ch in ('red','green','blue'):
    old=f"    {ch}_mosaic = scipy.ndimage.zoom({ch}_mosaic, oversample, order=0, mode='wrap')"
    new=f"    {ch}_mosaic = np.repeat(np.repeat({ch}_mosaic, oversample, axis=0), oversample, axis=1)"
    assert s.count(old)==1; s=s.replace(old,new)
open('lentil/detector.py','w').write(s); subprocess.check_call(['git','commit','-qam','fix: Bayer mosaic was misaligned for oversample >= 3'])
# 18 power_spectrum + gaussian negative
patch('lentil/wfe.py',"""    yy, xx = np.mgrid[0:m, 0:n]
    yy = (yy - (np.floor(m / 2) + 1)) / m
    xx = (xx - (np.floor(n / 2) + 1)) / n""","""    yy, xx = np.mgrid[0:n, 0:m]
    yy = (yy - (np.floor(n / 2) + 1)) / n
    xx = (xx - (np.floor(m / 2) + 1)) / m""","fix: power_spectrum built its frequency grid transposed and failed on non-square masks")
patch('lentil/detector.py',"""    else:
        # REF: https://stackoverflow.com/a/33701974
        with np.errstate(divide='raise'):""","""    else:
        if np.min(img) < 0:
            raise ValueError('Counts must be positive')
        # REF: https://stackoverflow.com/a/33701974
        with np.errstate(divide='raise'):""","fix: Gaussian shot noise accepted negative counts in arrays")
# 19 pixel
patch('lentil/detector.py',"""    kernel = np.dot(mtf_x[:, np.newaxis], mtf_y[np.newaxis, :])""","""    kernel = np.outer(mtf_y, mtf_x)""","fix: pixel MTF kernel was transposed and failed on non-square images")
