From Coq Require Import ZArith List Bool Lia PrimFloat Uint63.
Import ListNotations.
Open Scope Z_scope.
(* float model of: n = int(ceil((-1 + sqrt(1 + 8*j)) / 2) - 1) *)
Definition f_of_Z (z : Z) : float := PrimFloat.of_uint63 (Uint63.of_Z z).
Definition row_float (j : Z) : float :=
  PrimFloat.div (PrimFloat.add (PrimFloat.opp PrimFloat.one) (PrimFloat.sqrt (f_of_Z (1 + 8*j)))) (f_of_Z 2).
Eval vm_compute in (row_float 10, row_float 11).
Definition n_float (j : Z) : Z :=
  let x := row_float j in
  let guess := (Z.sqrt (1 + 8*j) - 1) / 2 in
  (fix go (fuel : nat) (k : Z) : Z :=
    match fuel with O => k | S f =>
      if PrimFloat.ltb (f_of_Z k) x then go f (k+1) else
      if PrimFloat.leb x (f_of_Z (k-1)) then go f (k-1) else k end) 6%nat guess - 1.
Definition n_spec (j : Z) : Z := (* smallest n with (n+1)(n+2)/2 >= j *)
  let s := Z.sqrt (8*j - 7) in (s - 1) / 2 + (if (s*s =? 8*j-7) then 0 else 0).
Definition n_spec2 (j : Z) : Z := let n := (Z.sqrt (8*j+1) - 1)/2 in if (n*(n+1)/2 =? j) then n-1 else n.
Definition allZ (p : Z -> bool) (lo : Z) (n : positive) : bool := Pos.peano_rect (fun _ => Z -> bool) (fun lo => p lo) (fun _ rec lo => p lo && rec (lo+1)) n lo.
Definition rangeZ (lo : Z) (n : nat) := map (fun i => lo + Z.of_nat i) (seq 0 n).
Time Eval vm_compute in allZ (fun j => n_float j =? n_spec2 j) 1 200000%positive.
Eval vm_compute in map n_spec2 (rangeZ 1 12).
