From Coq Require Import Reals Lra Lia ZArith.
From Coquelicot Require Import Complex.
Require Import S4.
Open Scope R_scope.
(* sums *)
Lemma csum_add n f g : csum n (fun i => Cplus (f i) (g i)) = Cplus (csum n f) (csum n g).
Proof. induction n as [|n IH]; cbn; [ring|]. rewrite IH. ring. Qed.
Lemma csum_scale_r n c f : csum n (fun i => Cmult (f i) c) = Cmult (csum n f) c.
Proof. induction n as [|n IH]; cbn; [ring|]. rewrite IH. ring. Qed.
Lemma csum_scale_l n c f : csum n (fun i => Cmult c (f i)) = Cmult c (csum n f).
Proof. induction n as [|n IH]; cbn; [ring|]. rewrite IH. ring. Qed.
Lemma csum_zero n : csum n (fun _ => RtoC 0) = RtoC 0.
Proof. induction n as [|n IH]; cbn; [reflexivity|]. rewrite IH. ring. Qed.
Lemma csum_ext_lt n f g : (forall i, (i < n)%nat -> f i = g i) -> csum n f = csum n g.
Proof. induction n as [|n IH]; intros H; cbn; [reflexivity|]. rewrite IH, H by (intros; try apply H; lia). reflexivity. Qed.
Lemma csum_exchange m n (f : nat -> nat -> C) :
  csum m (fun i => csum n (fun j => f i j)) = csum n (fun j => csum m (fun i => f i j)).
Proof. induction m as [|m IH]; cbn. - now rewrite csum_zero. - rewrite IH, <- csum_add. reflexivity. Qed.
Lemma csum_delta n y (a : nat -> C) : (y < n)%nat ->
  csum n (fun x => if Nat.eqb x y then a x else RtoC 0) = a y.
Proof.
  induction n as [|n IH]; intros Hy; [lia|]. cbn [csum].
  destruct (Nat.eqb n y) eqn:E.
  - apply Nat.eqb_eq in E. subst y.
    rewrite (csum_ext_lt n _ (fun _ => RtoC 0)). rewrite csum_zero; ring.
    intros i Hi. destruct (Nat.eqb i n) eqn:E2; [apply Nat.eqb_eq in E2; lia|reflexivity].
  - apply Nat.eqb_neq in E. rewrite IH by lia. ring.
Qed.
(* full statement of orthogonality: both cases *)
Lemma roots_sum (n : nat) (k : Z) : (0 < n)%nat ->
  csum n (fun x => cis (2 * PI * IZR k * INR x / INR n)) =
  if (k mod Z.of_nat n =? 0)%Z then RtoC (INR n) else RtoC 0.
Proof.
  intros Hn. destruct (Z.eqb_spec (k mod Z.of_nat n) 0) as [E|E].
  - apply Z.mod_divide in E; [|lia]. destruct E as [q ->].
    rewrite (csum_ext_lt n _ (fun _ => RtoC 1)).
    + clear. induction n as [|n IH]; [reflexivity|]. cbn [csum]. rewrite IH, S_INR. unfold RtoC, Cplus; cbn. f_equal; ring.
    + intros x _. rewrite mult_IZR, <- INR_IZR_INZ.
      replace (2 * PI * (IZR q * INR n) * INR x / INR n) with (2 * PI * IZR (q * Z.of_nat x)).
      apply cis_2PI_Z. rewrite mult_IZR, <- INR_IZR_INZ. field. apply not_0_INR; lia.
  - apply roots_orth; assumption.
Qed.
(* centred 1-D transform pair, kernel in turns: w n t = cis (- 2 PI t / n) *)
Definition ek (n : nat) (k : Z) : C := cis (2 * PI * IZR k / INR n).
Lemma ek_add n a b : ek n (a + b) = Cmult (ek n a) (ek n b).
Proof. unfold ek. rewrite <- cis_add. f_equal. rewrite plus_IZR. unfold Rdiv; ring. Qed.
Definition dft1 (n : nat) (f : nat -> C) (u : nat) : C :=
  csum n (fun x => Cmult (f x) (ek n (- ((Z.of_nat x - Z.of_nat n / 2) * (Z.of_nat u - Z.of_nat n / 2))))).
Definition idft1 (n : nat) (F : nat -> C) (y : nat) : C :=
  Cmult (RtoC (/ INR n)) (csum n (fun u => Cmult (F u) (ek n ((Z.of_nat u - Z.of_nat n / 2) * (Z.of_nat y - Z.of_nat n / 2))))).
Theorem idft1_dft1 n f y : (0 < n)%nat -> (y < n)%nat -> idft1 n (dft1 n f) y = f y.
Proof.
  intros Hn Hy. unfold idft1, dft1.
  set (c := (Z.of_nat n / 2)%Z).
  (* push the outer kernel in, exchange sums *)
  rewrite (csum_ext_lt n _ (fun u => csum n (fun x => Cmult (f x)
        (ek n ((Z.of_nat u - c) * (Z.of_nat y - Z.of_nat x)))))).
  2:{ intros u _. rewrite <- csum_scale_r. apply csum_ext_lt; intros x _.
      rewrite <- Cmult_assoc, <- ek_add. do 2 f_equal. ring. }
  rewrite csum_exchange.
  rewrite (csum_ext_lt n _ (fun x => Cmult (f x) (if Nat.eqb x y then RtoC (INR n) else RtoC 0))).
  2:{ intros x Hx. rewrite csum_scale_l. f_equal.
      (* sum over u of ek n ((u - c) * d) = ek n (-c d) * sum_u cis(2 pi d u / n) *)
      set (d := (Z.of_nat y - Z.of_nat x)%Z).
      rewrite (csum_ext_lt n _ (fun u => Cmult (ek n (- c * d)) (cis (2 * PI * IZR d * INR u / INR n)))).
      2:{ intros u _. replace ((Z.of_nat u - c) * d)%Z with (- c * d + d * Z.of_nat u)%Z by ring.
          rewrite ek_add. f_equal. unfold ek. f_equal. rewrite mult_IZR, <- INR_IZR_INZ. unfold Rdiv; ring. }
      rewrite csum_scale_l, roots_sum by assumption.
      destruct (Nat.eqb_spec x y) as [->|Hne].
      - subst d. rewrite Z.sub_diag, Z.mod_0_l by lia. cbn [Z.eqb].
        rewrite Z.mul_0_r. unfold ek. replace (2 * PI * IZR 0 / INR n) with 0 by (unfold Rdiv; ring). rewrite cis_0. ring.
      - assert ((d mod Z.of_nat n) <> 0)%Z.
        { subst d. intro E. apply Z.mod_divide in E; [|lia]. destruct E as [q Hq].
          assert (q = 0 \/ q <= -1 \/ 1 <= q)%Z as [Hq0|[Hq1|Hq1]] by lia; [subst q; lia| |]; nia. }
        destruct (Z.eqb_spec (d mod Z.of_nat n) 0); [contradiction|]. ring. }
  rewrite (csum_ext_lt n _ (fun x => if Nat.eqb x y then Cmult (f x) (RtoC (INR n)) else RtoC 0)).
  2:{ intros x _. destruct (Nat.eqb x y); ring. }
  rewrite (csum_delta n y (fun x => Cmult (f x) (RtoC (INR n)))) by assumption.
  rewrite RtoC_inv by (apply not_0_INR; lia).
  field. intro H. apply RtoC_inj in H. apply not_0_INR in H; [assumption|lia].
Qed.
Print Assumptions idft1_dft1.
