From Coq Require Import Reals Lra Lia ZArith.
From Coquelicot Require Import Coquelicot.
Require Import S4.
Open Scope R_scope.
(* integral of cos(a t) over a full turn, a a non-zero integer *)
Lemma is_RInt_cos_int (a : Z) : a <> 0%Z -> is_RInt (fun t => cos (IZR a * t)) 0 (2 * PI) 0.
Proof.
  intros Ha. assert (Ha' : IZR a <> 0) by (intro H; apply eq_IZR_R0 in H; contradiction).
  replace 0 with (sin (IZR a * (2 * PI)) / IZR a - sin (IZR a * 0) / IZR a) at 2.
  - apply (is_RInt_derive (fun t => sin (IZR a * t) / IZR a) (fun t => cos (IZR a * t))).
    + intros t _. auto_derive; [trivial|]. field. assumption.
    + intros t _. apply continuous_comp; [|apply continuity_pt_filterlim, continuity_cos].
      apply (continuous_scal_r (IZR a) (fun t : R => t)). apply continuous_id.
  - rewrite Rmult_0_r, sin_0. replace (IZR a * (2 * PI)) with (0 + 2 * IZR a * PI) by ring.
    rewrite sin_period_Z, sin_0. field. assumption.
Qed.
Print Assumptions is_RInt_cos_int.
