From Coq Require Import ZArith Bool Lia ZifyBool.
Open Scope Z_scope.
Ltac Zify.zify_post_hook ::= Z.to_euclidean_division_equations.
Definition tri (n : Z) := n * (n + 1) / 2.
Lemma tri_double n : 2 * tri n = n * (n + 1).
Proof. unfold tri. assert (H : (n * (n + 1)) mod 2 = 0).
  { destruct (Z.Even_or_Odd n) as [[k ->]|[k ->]].
    - replace (2 * k * (2 * k + 1)) with (k * (2 * k + 1) * 2) by ring. apply Z.mod_mul; lia.
    - replace ((2 * k + 1) * (2 * k + 1 + 1)) with ((2 * k + 1) * (k + 1) * 2) by ring. apply Z.mod_mul; lia. }
  pose proof (Z.div_mod (n * (n + 1)) 2 ltac:(lia)). lia. Qed.
Lemma tri_succ n : tri (n + 1) = tri n + n + 1.
Proof. pose proof (tri_double n). pose proof (tri_double (n+1)). nia. Qed.
Definition row (j : Z) : Z := let n := (Z.sqrt (8 * j + 1) - 1) / 2 in if tri n =? j then n - 1 else n.
Lemma row_spec j : 1 <= j -> 0 <= row j /\ tri (row j) < j <= tri (row j + 1).
Proof.
  intros Hj. unfold row. set (s := Z.sqrt (8 * j + 1)).
  assert (Hs : s * s <= 8 * j + 1 < (s + 1) * (s + 1)) by (apply Z.sqrt_spec; lia).
  assert (Hs3 : 3 <= s) by nia.
  set (n := (s - 1) / 2).
  assert (Hn : 2 * n <= s - 1 <= 2 * n + 1) by (subst n; lia).
  pose proof (tri_double n) as T0. pose proof (tri_double (n + 1)) as T1. pose proof (tri_double (n - 1)) as Tm.
  destruct (Z.eqb_spec (tri n) j) as [E|E].
  - replace (n - 1 + 1) with n by ring. split; [nia|]. split; [nia|lia].
  - split; [nia|]. split; nia.
Qed.
Lemma row_unique j n : 0 <= n -> tri n < j <= tri (n + 1) -> 1 <= j -> row j = n.
Proof.
  intros Hn Hb Hj. destruct (row_spec j Hj) as [H0 H1].
  pose proof (tri_double n). pose proof (tri_double (n+1)). pose proof (tri_double (row j)). pose proof (tri_double (row j + 1)).
  assert (~ row j < n) by nia. assert (~ n < row j) by nia. lia.
Qed.
(* azimuthal order *)
Definition am (n p : Z) : Z := if Z.even n then 2 * ((p + 1) / 2) else 2 * (p / 2) + 1.
Definition noll (j : Z) : Z * Z :=
  let n := row j in let p := j - tri n - 1 in
  let a := if n =? 0 then 0 else am n p in
  ((if Z.odd j then - a else a), n).
Theorem noll_wf j : 1 <= j -> let '(m, n) := noll j in
  0 <= n /\ Z.abs m <= n /\ Z.even (n - Z.abs m) = true /\ (0 < m -> Z.even j = true) /\ (m < 0 -> Z.odd j = true).
Proof.
  intros Hj. unfold noll. destruct (row_spec j Hj) as [H0 H1]. rewrite tri_succ in H1.
  set (n := row j) in *. set (p := j - tri n - 1).
  assert (Hp : 0 <= p <= n) by (subst p; lia).
  unfold am. rewrite <- Z.negb_even.
  destruct (Z.eqb_spec n 0) as [E|E]; destruct (Z.even n) eqn:En; destruct (Z.even j) eqn:Ej; cbn [negb];
  rewrite ?Z.abs_opp; repeat split; try lia;
  try (apply Z.even_spec in En || (rewrite <- Z.negb_odd in En; apply negb_false_iff, Z.odd_spec in En); destruct En as [k Hk]);
  try (rewrite Z.abs_eq by lia); try lia.
  all: try (apply Z.even_spec; exists (k - (p+1)/2); lia).
  all: try (apply Z.even_spec; exists (k - p/2); lia).
Qed.
Theorem noll_inj j1 j2 : 1 <= j1 -> 1 <= j2 -> noll j1 = noll j2 -> j1 = j2.
Proof.
  intros H1 H2 E. unfold noll in E. injection E as Em En.
  destruct (row_spec j1 H1) as [A0 A1]. destruct (row_spec j2 H2) as [B0 B1]. rewrite tri_succ in A1, B1.
  rewrite <- En in *. set (n := row j1) in *.
  set (p1 := j1 - tri n - 1) in *. set (p2 := j2 - tri n - 1) in *.
  assert (j1 - j2 = p1 - p2) by (subst p1 p2; lia).
  unfold am in Em. rewrite <- !Z.negb_even in Em.
  destruct (Z.eqb_spec n 0) as [E0|E0].
  - lia.
  - destruct (Z.even n) eqn:En'; destruct (Z.even j1) eqn:Ej1; destruct (Z.even j2) eqn:Ej2; cbn [negb] in Em;
    try (apply Z.even_spec in Ej1; destruct Ej1 as [a1 Ha1]);
    try (apply Z.even_spec in Ej2; destruct Ej2 as [a2 Ha2]);
    try (rewrite <- Z.negb_odd in Ej1; apply negb_false_iff, Z.odd_spec in Ej1; destruct Ej1 as [a1 Ha1]);
    try (rewrite <- Z.negb_odd in Ej2; apply negb_false_iff, Z.odd_spec in Ej2; destruct Ej2 as [a2 Ha2]);
    lia.
Qed.
Print Assumptions noll_inj.
