From Coq Require Import ZArith QArith List Bool Lia.
Import ListNotations.
Open Scope Z_scope.
Fixpoint fact (n : nat) : Z := match n with O => 1 | S k => Z.of_nat (S k) * fact k end.
(* coefficient of rho^(n-2k) in R_n^m, as in the code: (-1)^k (n-k)! / (k! ((n+m)/2-k)! ((n-m)/2-k)!) ; it is an integer *)
Definition coef (n m k : nat) : Z :=
  (if Nat.even k then 1 else -1) * fact (n - k) / (fact k * fact ((n + m) / 2 - k) * fact ((n - m) / 2 - k)).
(* polynomial as list of (power, coeff) *)
Definition radial (n m : nat) : list (nat * Z) := map (fun k => ((n - 2 * k)%nat, coef n m k)) (seq 0 ((n - m) / 2 + 1)).
Definition eval1 (p : list (nat * Z)) : Z := fold_right (fun t acc => snd t + acc) 0 p.
(* integral over [0,1] of p*q*rho d rho = sum c_i d_j / (i + j + 2) *)
Definition inner (p q : list (nat * Z)) : Q :=
  fold_right (fun t acc => fold_right (fun u acc' => Qplus (snd t * snd u # Pos.of_nat (fst t + fst u + 2)) acc') acc q) 0%Q p.
Definition valid (n m : nat) := Nat.leb m n && Nat.even (n - m).
Definition pairs (N : nat) : list (nat * nat) := filter (fun nm => valid (fst nm) (snd nm)) (list_prod (seq 0 (S N)) (seq 0 (S N))).
Definition check_at_one (N : nat) : bool := forallb (fun nm => eval1 (radial (fst nm) (snd nm)) =? 1) (pairs N).
Definition check_orth (N : nat) : bool :=
  forallb (fun nm => forallb (fun n' => negb (valid n' (snd nm)) ||
      Qeq_bool (inner (radial (fst nm) (snd nm)) (radial n' (snd nm)))
               (if Nat.eqb (fst nm) n' then 1 # Pos.of_nat (2 * (fst nm + 1)) else 0)) (seq 0 (S N))) (pairs N).
Time Eval vm_compute in check_at_one 40.
Time Eval vm_compute in check_orth 20.
Time Eval vm_compute in check_orth 30.
