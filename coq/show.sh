#!/bin/sh
# usage: show.sh <file.v> <line>  -- compile the first <line> lines, then print the open goals
f=$1; n=$2
head -n $n $f > /var/tmp/lv_show.v
printf '\nShow.\n' >> /var/tmp/lv_show.v
cd /verif/coq && timeout ${3:-120} coqtop -Q theories LV -batch -l /var/tmp/lv_show.v 2>&1 | tail -${4:-60}
