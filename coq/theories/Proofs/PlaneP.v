(* Plane.multiply acts as a pointwise phasor; wavefront views agree (C07, C03). *)
From LV Require Import Model.Plane Proofs.ArrP Proofs.ExtentP Proofs.FieldP.
From Coq Require Import Permutation.

(* ------------------------------------------------------------------ _mul_pixelscale *)
Lemma Qc_eq_bool_refl (q : Qc) : Qc_eq_bool q q = true.
Proof. unfold Qc_eq_bool. destruct (Qc_eq_dec q q); [reflexivity|congruence]. Qed.
Lemma Qc_eq_bool_false (a b : Qc) : a <> b -> Qc_eq_bool a b = false.
Proof. intros H. unfold Qc_eq_bool. destruct (Qc_eq_dec a b); [contradiction|reflexivity]. Qed.

Theorem mul_pixelscale_table :
  mul_pixelscale None None = Ok None /\
  (forall y, mul_pixelscale None (Some y) = Ok (Some y)) /\
  (forall x, mul_pixelscale (Some x) None = Ok (Some x)) /\
  (forall x, mul_pixelscale (Some x) (Some x) = Ok (Some x)) /\
  (forall x y, fst x <> fst y \/ snd x <> snd y -> mul_pixelscale (Some x) (Some y) = Err ValueError) /\
  (forall x y r, mul_pixelscale (Some x) (Some y) = Ok r -> x = y /\ r = Some x).
Proof.
  repeat split; try reflexivity.
  - intros x. cbn. now rewrite !Qc_eq_bool_refl.
  - intros [x1 x2] [y1 y2] H. cbn in *. destruct H as [H|H].
    + now rewrite (Qc_eq_bool_false _ _ H).
    + rewrite (Qc_eq_bool_false _ _ H). now rewrite Bool.andb_false_r.
  - destruct x as [x1 x2], y as [y1 y2]. cbn in H.
    destruct (Qc_eq_bool x1 y1) eqn:E1; destruct (Qc_eq_bool x2 y2) eqn:E2; cbn in H; try discriminate.
    apply Qc_eq_bool_correct in E1. apply Qc_eq_bool_correct in E2. now subst.
  - destruct x as [x1 x2], y as [y1 y2]. cbn in H.
    destruct (Qc_eq_bool x1 y1 && Qc_eq_bool x2 y2); [now injection H|discriminate].
Qed.

(* ================================================================== wavefront views *)
Section Views.
Variable S : Scalar.
Hypothesis Sring : is_ring S.
Add Ring Sr2 : Sring.

Notation lsum := (lsum S).
Notation fok := (fok S).

Lemma fsized_valid f : fsized f -> fvalid S f.
Proof. unfold fsized, fvalid. destruct (fd f); tauto. Qed.

Lemma norm2_0 : @norm2 S k0 = k0.
Proof. unfold norm2. ring. Qed.

Lemma lsum_zero (l : list S) : (forall x, In x l -> x = k0) -> lsum l = k0.
Proof. unfold FieldP.lsum. induction l as [|x l IH]; intros H; cbn [fold_right]; [reflexivity|].
  rewrite IH by (intros; apply H; now right). rewrite (H x) by now left. ring. Qed.

Lemma lsum_map_ext {A} (e1 e2 : A -> S) (l : list A) : (forall f, e1 f = e2 f) -> lsum (map e1 l) = lsum (map e2 l).
Proof. intros H. induction l as [|x l IH]; cbn [map]; [reflexivity|]. unfold FieldP.lsum in *. cbn [fold_right]. now rewrite IH, H. Qed.

(* folding insert over a list of sized fields adds g(embedding)*w of every field, sample by sample *)
Lemma fold_insert_spec (g : S -> S) (w : S) : g k0 = k0 -> forall (l : list (field S)) (out : arr S),
  (forall f, In f l -> fsized f) -> 0 < nr out -> 0 < nc out ->
  exists o, fold_left (fun acc f => rbind acc (fun o => rbind (insert g f o w) (fun o' => Ok (force o')))) l (Ok out) = Ok o
    /\ nr o = nr out /\ nc o = nc out /\
    forall i j, 0 <= i < nr out -> 0 <= j < nc out ->
      get o i j = (get out i j + lsum (map (fun f => (g (embed f (i - nr out / 2) (j - nc out / 2)) * w)%K) l))%K.
Proof.
  intros Hg l. induction l as [|f l IH]; intros out Hl Hn Hm.
  - exists out. cbn [fold_left map]. repeat split; try reflexivity. intros. unfold FieldP.lsum. cbn. ring.
  - assert (Hf : fsized f) by (apply Hl; now left). unfold fsized in Hf.
    destruct (fd f) as [v|d] eqn:Ed; [contradiction|]. destruct Hf as [Hd1 Hd2].
    destruct (insert_spec S Sring g f d out w Ed Hd1 Hd2 Hn Hm Hg) as (o1 & E1 & N1 & M1 & G1).
    cbn [fold_left rbind]. rewrite E1. cbn [rbind].
    destruct (IH (force o1)) as (o & E & N & M & G).
    + intros; apply Hl; now right.
    + rewrite force_nr. lia.
    + rewrite force_nc. lia.
    + exists o. rewrite force_nr, force_nc in *. split; [exact E|]. split; [lia|]. split; [lia|].
      intros i j Hi Hj. rewrite N1, M1 in G. rewrite G by lia. rewrite force_get by lia. rewrite G1 by lia.
      cbn [map]. unfold FieldP.lsum. cbn [fold_right]. ring.
Qed.

(* fields with pairwise non-intersecting extents never share a sample: any g with g 0 = 0 commutes with the sum *)
Lemma disjoint_pointwise (g : S -> S) r c : g k0 = k0 -> forall l : list (field S),
  (forall f, In f l -> fvalid S f) ->
  ForallOrdPairs (fun a b => intersect (fextent a) (fextent b) = false) l ->
  lsum (map (fun f => g (embed f r c)) l) = g (lsum (map (fun f => embed f r c) l)).
Proof.
  intros Hg l Hv P. induction P as [|x l Hx P IH].
  - unfold FieldP.lsum. cbn. now rewrite Hg.
  - cbn [map]. unfold FieldP.lsum. cbn [fold_right]. fold (lsum (map (fun f => g (embed f r c)) l)).
    fold (lsum (map (fun f => embed f r c) l)).
    destruct (inE (fextent x) r c) eqn:Ein.
    + (* the sample belongs to x: every other field vanishes there *)
      assert (Z0 : forall y, In y l -> embed y r c = k0).
      { intros y Hy. rewrite Forall_forall in Hx. specialize (Hx y Hy).
        apply (embed_outside S y (fextent y)).
        - unfold esub. destruct (fextent y) as [[[a b] c0] d]. lia.
        - destruct (inE (fextent y) r c) eqn:Ey; [|reflexivity]. exfalso.
          assert (intersect (fextent x) (fextent y) = true).
          { apply intersect_iff_common_point; [apply fextent_valid, Hv; now left|apply fextent_valid, Hv; now right|].
            exists r, c. now split. }
          congruence. }
      rewrite (lsum_zero (map (fun f => g (embed f r c)) l)).
      2:{ intros v Hv'. apply in_map_iff in Hv'. destruct Hv' as (y & <- & Hy). now rewrite Z0. }
      rewrite (lsum_zero (map (fun f => embed f r c) l)).
      2:{ intros v Hv'. apply in_map_iff in Hv'. destruct Hv' as (y & <- & Hy). now apply Z0. }
      replace (embed x r c + k0)%K with (embed x r c) by ring. ring.
    + assert (E0 : embed x r c = k0).
      { unfold embed. unfold inE in Ein. destruct (fextent x) as [[[a b] c0] d]. now rewrite Ein. }
      rewrite E0, Hg. rewrite IH by (intros; apply Hv; now right).
      replace (k0 + lsum (map (fun f => embed f r c) l))%K with (lsum (map (fun f => embed f r c) l)) by ring. ring.
Qed.

(* the fields returned by reduce are sized when the inputs are *)
Lemma reduce_sized (fs : list (field S)) : (forall f, In f fs -> fsized f /\ fbounded S f) ->
  forall f, In f (reduce fs) -> fsized f.
Proof.
  intros Hf f Hin. rewrite reduce_is_map in Hin. apply in_map_iff in Hin. destruct Hin as (g & <- & Hg).
  assert (Hok : forall f, In f fs -> fok f) by (intros x Hx; destruct (Hf x Hx); split; [now apply fsized_valid|assumption]).
  pose proof (reduce_groups_inv S fs Hok g Hg) as (G1 & G2 & G3).
  assert (Hall : forall x, In x (fst g) -> In x fs).
  { intros x Hx. apply (Permutation_in x (l := all_fields S (reduce_groups fs))).
    - unfold reduce_groups. etransitivity; [apply disjoint_perm|].
      clear. induction fs as [|y l IH]; cbn; [reflexivity|]. now constructor.
    - unfold all_fields. apply in_flat_map. exists g. now split. }
  unfold gout. destruct (fst g) as [|a [|b l]] eqn:E; [congruence| |].
  - apply Hf, Hall. now left.
  - assert (Ms : merge_scalars (a :: b :: l) = false).
    { cbn [merge_scalars forallb]. destruct (Hf a (Hall a (or_introl eq_refl))) as [Ha _]. unfold fsized in Ha.
      destruct (fd a); [contradiction|reflexivity]. }
    pose proof (merge_valid S (a :: b :: l)) as MV.
    assert (Hne : a :: b :: l <> []) by discriminate.
    specialize (MV Hne (fun x Hx => G3 x Hx)). unfold fvalid in MV. unfold fsized.
    unfold merge in *. destruct (boundary (a :: b :: l)) as [[[b1 b2] b3] b4]. rewrite Ms in *. cbn [fd] in *. exact MV.
Qed.

(* Wavefront.field: every sample is the sum of the fields' embeddings there *)
Theorem render_spec (fs : list (field S)) n m : 0 < n -> 0 < m -> (forall f, In f fs -> fsized f) ->
  exists Fa, render fs n m = Ok Fa /\ nr Fa = n /\ nc Fa = m /\
  forall i j, 0 <= i < n -> 0 <= j < m -> get Fa i j = embed_sum fs (i - n / 2) (j - m / 2).
Proof.
  intros Hn Hm Hf. unfold render.
  destruct (fold_insert_spec (fun x => x) k1 eq_refl fs (azeros n m) Hf Hn Hm) as (o & E & N & M & G).
  exists o. split; [exact E|]. cbn [azeros nr nc] in *. repeat split; try assumption.
  intros i j Hi Hj. rewrite G by assumption. unfold azeros. cbn [get]. rewrite embed_sum_lsum by exact Sring.
  rewrite (lsum_map_ext (fun f => (embed f (i - n / 2) (j - m / 2) * k1)%K) (fun f => embed f (i - n / 2) (j - m / 2)))
    by (intros; ring). ring.
Qed.

(* Wavefront.insert(out, weight): out + weight * |sum of the fields|^2, at every sample of out *)
Theorem accumulate_spec (fs : list (field S)) (out : arr S) (w : S) : 0 < nr out -> 0 < nc out ->
  (forall f, In f fs -> fsized f /\ fbounded S f) ->
  exists o, accumulate fs out w = Ok o /\ nr o = nr out /\ nc o = nc out /\
  forall i j, 0 <= i < nr out -> 0 <= j < nc out ->
    get o i j = (get out i j + norm2 (embed_sum fs (i - nr out / 2) (j - nc out / 2)) * w)%K.
Proof.
  intros Hn Hm Hf. unfold accumulate.
  assert (Hok : forall f, In f fs -> fok f) by (intros x Hx; destruct (Hf x Hx); split; [now apply fsized_valid|assumption]).
  pose proof (reduce_sized fs Hf) as Hs.
  destruct (fold_insert_spec norm2 w norm2_0 (reduce fs) out Hs Hn Hm) as (o & E & N & M & G).
  exists o. split; [exact E|]. repeat split; try assumption.
  intros i j Hi Hj. rewrite G by assumption. f_equal.
  set (r := i - nr out / 2). set (c := j - nc out / 2).
  rewrite <- (reduce_total S Sring fs r c Hok). rewrite embed_sum_lsum by exact Sring.
  rewrite <- (disjoint_pointwise norm2 r c norm2_0 (reduce fs)).
  - rewrite <- map_map with (f := fun f => norm2 (embed f r c)) (g := fun x => (x * w)%K).
    generalize (map (fun f => norm2 (embed f r c)) (reduce fs)). intros l.
    unfold FieldP.lsum. induction l as [|x l IH]; cbn [map fold_right]; [ring|]. rewrite IH. ring.
  - intros f Hin. apply fsized_valid. now apply Hs.
  - now apply reduce_disjoint.
Qed.

(* intensity = |field|^2, sample by sample, for every list of sized fields and every shape *)
Theorem intensity_is_norm2_field (fs : list (field S)) n m : 0 < n -> 0 < m ->
  (forall f, In f fs -> fsized f /\ fbounded S f) ->
  exists Fa Ia, render fs n m = Ok Fa /\ intensity fs n m = Ok Ia /\
    nr Fa = n /\ nc Fa = m /\ nr Ia = n /\ nc Ia = m /\
    forall i j, 0 <= i < n -> 0 <= j < m -> get Ia i j = norm2 (get Fa i j).
Proof.
  intros Hn Hm Hf.
  destruct (render_spec fs n m Hn Hm (fun f H => proj1 (Hf f H))) as (Fa & EF & NF & MF & GF).
  destruct (accumulate_spec fs (azeros n m) k1 Hn Hm Hf) as (Ia & EI & NI & MI & GI).
  exists Fa, Ia. unfold intensity. cbn [azeros nr nc] in *. repeat split; try assumption.
  intros i j Hi Hj. rewrite GI, GF by assumption. unfold azeros. cbn [get]. ring.
Qed.

(* ... and nothing else: a sample of out that no field reaches keeps its value *)
Corollary accumulate_elsewhere (fs : list (field S)) (out : arr S) (w : S) : 0 < nr out -> 0 < nc out ->
  (forall f, In f fs -> fsized f /\ fbounded S f) ->
  exists o, accumulate fs out w = Ok o /\
  forall i j, 0 <= i < nr out -> 0 <= j < nc out ->
    embed_sum fs (i - nr out / 2) (j - nc out / 2) = k0 -> get o i j = get out i j.
Proof.
  intros Hn Hm Hf. destruct (accumulate_spec fs out w Hn Hm Hf) as (o & E & _ & _ & G).
  exists o. split; [exact E|]. intros i j Hi Hj Hz. rewrite G by assumption. rewrite Hz, norm2_0. ring.
Qed.
End Views.

(* ================================================================== bounding slices *)
Lemma zrange_In n x : In x (zrange n) <-> 0 <= x < n.
Proof. unfold zrange. rewrite in_map_iff. split.
  - intros (k & <- & Hk). apply in_seq in Hk. lia.
  - intros H. exists (Z.to_nat x). split; [lia|]. apply in_seq. lia. Qed.

Lemma pl_first_spec p : forall fuel i x, pl_first p i fuel = Some x ->
  i <= x < i + Z.of_nat fuel /\ p x = true /\ forall y, i <= y < i + Z.of_nat fuel -> p y = true -> x <= y.
Proof. induction fuel as [|k IH]; intros i x H; cbn in H; [discriminate|].
  destruct (p i) eqn:E.
  - injection H as <-. repeat split; try lia. assumption.
  - destruct (IH _ _ H) as (A & B & Cc). repeat split; try lia; [assumption|].
    intros y Hy Py. destruct (Z.eq_dec y i) as [->|Hne]; [congruence|]. apply Cc; [lia|assumption]. Qed.
Lemma pl_first_none p : forall fuel i, pl_first p i fuel = None -> forall y, i <= y < i + Z.of_nat fuel -> p y = false.
Proof. induction fuel as [|k IH]; intros i H y Hy; cbn in H; [lia|].
  destruct (p i) eqn:E; [discriminate|]. destruct (Z.eq_dec y i) as [->|Hne]; [assumption|]. apply (IH _ H). lia. Qed.
Lemma pl_last_spec p : forall n x, pl_last p n = Some x ->
  0 <= x < Z.of_nat n /\ p x = true /\ forall y, 0 <= y < Z.of_nat n -> p y = true -> y <= x.
Proof. induction n as [|k IH]; intros x H; cbn in H; [discriminate|].
  destruct (p (Z.of_nat k)) eqn:E.
  - injection H as <-. repeat split; try lia. assumption.
  - destruct (IH _ H) as (A & B & Cc). repeat split; try lia; [assumption|].
    intros y Hy Py. destruct (Z.eq_dec y (Z.of_nat k)) as [->|Hne]; [congruence|]. apply Cc; [lia|assumption]. Qed.

(* the bounding slice of a binary array lies inside the array, is not empty, and contains every set sample *)
Definition slice_ok (m : garr bool) (s : pslice) : Prop :=
  match s with
  | SAll => False
  | SBox r0 r1 c0 c1 => 0 <= r0 < r1 /\ r1 <= pnr m /\ 0 <= c0 < c1 /\ c1 <= pnc m /\
      forall i j, 0 <= i < pnr m -> 0 <= j < pnc m -> pget m i j = true -> r0 <= i < r1 /\ c0 <= j < c1
  end.

Theorem boundary_slice_ok (m : garr bool) s : boundary_slice m = Ok s -> slice_ok m s.
Proof.
  unfold boundary_slice, util_boundary.
  set (rows := fun i => existsb (fun j => pget m i j) (zrange (pnc m))).
  set (cols := fun j => existsb (fun i => pget m i j) (zrange (pnr m))).
  destruct (pl_first rows 0 (Z.to_nat (pnr m))) as [rmin|] eqn:E1; [|discriminate].
  destruct (pl_last rows (Z.to_nat (pnr m))) as [rmax|] eqn:E2; [|discriminate].
  destruct (pl_first cols 0 (Z.to_nat (pnc m))) as [cmin|] eqn:E3; [|discriminate].
  destruct (pl_last cols (Z.to_nat (pnc m))) as [cmax|] eqn:E4; [|discriminate].
  intros H. injection H as <-. unfold slice_ok.
  apply pl_first_spec in E1. apply pl_last_spec in E2. apply pl_first_spec in E3. apply pl_last_spec in E4.
  destruct E1 as (A1 & B1 & C1), E2 as (A2 & B2 & C2), E3 as (A3 & B3 & C3), E4 as (A4 & B4 & C4).
  assert (rmin <= rmax) by (apply C2; [lia|assumption]).
  assert (cmin <= cmax) by (apply C4; [lia|assumption]).
  repeat split; try lia.
  - assert (R : rows i = true). { unfold rows. apply existsb_exists. exists j. split; [apply zrange_In; lia|assumption]. }
    specialize (C1 i). specialize (C2 i). lia.
  - assert (R : rows i = true). { unfold rows. apply existsb_exists. exists j. split; [apply zrange_In; lia|assumption]. }
    specialize (C1 i). specialize (C2 i). lia.
  - assert (R : cols j = true). { unfold cols. apply existsb_exists. exists i. split; [apply zrange_In; lia|assumption]. }
    specialize (C3 j). specialize (C4 j). lia.
  - assert (R : cols j = true). { unfold cols. apply existsb_exists. exists i. split; [apply zrange_In; lia|assumption]. }
    specialize (C3 j). specialize (C4 j). lia.
Qed.

(* an array without a set sample has no bounding slice: the constructor raises IndexError *)
Theorem boundary_slice_empty (m : garr bool) : 0 < pnr m ->
  (forall i j, 0 <= i < pnr m -> 0 <= j < pnc m -> pget m i j = false) -> boundary_slice m = Err IndexError.
Proof.
  intros Hn H. unfold boundary_slice, util_boundary.
  destruct (pl_first _ 0 (Z.to_nat (pnr m))) as [x|] eqn:E; [|reflexivity].
  apply pl_first_spec in E. destruct E as (A & B & _). exfalso.
  apply existsb_exists in B. destruct B as (j & Hj & Pj). apply zrange_In in Hj. rewrite H in Pj by lia. discriminate.
Qed.

(* ================================================================== Plane.multiply *)
Section PlaneSpec.
Variable S : Scalar.
Hypothesis Sring : is_ring S.
Add Ring Sr3 : Sring.

Notation lsum := (lsum S).
Notation fvalid := (fvalid S).

Lemma embed_sum_keep (o : option (field S)) r c : embed_sum (keep o) r c = embed_opt o r c.
Proof. destruct o; unfold embed_sum; cbn; ring. Qed.

Lemma embed_sum_nil r c : embed_sum (@nil (field S)) r c = k0.
Proof. reflexivity. Qed.

Lemma lsum_cons (x : S) l : lsum (x :: l) = (x + lsum l)%K.
Proof. reflexivity. Qed.
Lemma lsum_nil : lsum [] = k0.
Proof. reflexivity. Qed.

Lemma embed_sum_flat_map {A} (h : A -> list (field S)) (l : list A) r c :
  embed_sum (flat_map h l) r c = lsum (map (fun x => embed_sum (h x) r c) l).
Proof. induction l as [|x l IH]; cbn [flat_map map]; [reflexivity|].
  rewrite embed_sum_app by exact Sring. rewrite IH, lsum_cons. reflexivity. Qed.

(* the result of the double loop, sample by sample *)
Lemma mul_fields_sum (phs fs : list (field S)) r c :
  embed_sum (mul_fields phs fs) r c =
  lsum (map (fun f => lsum (map (fun p => embed_opt (fmul f p) r c) phs)) fs).
Proof.
  unfold mul_fields. rewrite embed_sum_flat_map. apply lsum_map_ext. intros f.
  rewrite embed_sum_flat_map. apply lsum_map_ext. intros p. apply embed_sum_keep.
Qed.

Lemma lsum_scale_l (a : S) (l : list S) : lsum (map (fun x => (a * x)%K) l) = (a * lsum l)%K.
Proof. induction l as [|x l IH]; cbn [map]; rewrite ?lsum_cons, ?lsum_nil; [ring|]. rewrite IH. ring. Qed.
Lemma lsum_scale_r (a : S) (l : list S) : lsum (map (fun x => (x * a)%K) l) = (lsum l * a)%K.
Proof. induction l as [|x l IH]; cbn [map]; rewrite ?lsum_cons, ?lsum_nil; [ring|]. rewrite IH. ring. Qed.

(* array phasors: the product with every field is the pointwise product, a 0-d incoming field (the plane
   wave of a fresh Wavefront) counting as an infinite constant *)
Lemma fsized_not0d (p : field S) : fsized p -> fvalid p /\ is0d (fd p) = false.
Proof. unfold fsized, FieldP.fvalid. destruct (fd p); [contradiction|]. intros H. now split. Qed.

Lemma mul_row (f : field S) (phs : list (field S)) r c : fvalid f ->
  (forall p, In p phs -> fsized p) ->
  lsum (map (fun p => embed_opt (fmul f p) r c) phs) =
  (embed_const f r c * lsum (map (fun p => embed p r c) phs))%K.
Proof.
  intros Vf Hp. induction phs as [|p l IH]; cbn [map]; rewrite ?lsum_cons, ?lsum_nil; [ring|].
  rewrite IH by (intros; apply Hp; now right).
  destruct (fsized_not0d p (Hp p (or_introl eq_refl))) as [Vp Np].
  rewrite (fmul_embed S Sring f p r c Vf Vp) by (now rewrite Np, Bool.andb_false_r).
  unfold embed_const at 2. rewrite Np. ring.
Qed.

Theorem mul_fields_pointwise (phs fs : list (field S)) r c :
  (forall f, In f fs -> fvalid f) ->
  (forall p, In p phs -> fsized p) ->
  embed_sum (mul_fields phs fs) r c =
  (lsum (map (fun f => embed_const f r c) fs) * lsum (map (fun p => embed p r c) phs))%K.
Proof.
  intros Hf Hp. rewrite mul_fields_sum.
  induction fs as [|f l IH]; cbn [map]; rewrite ?lsum_cons, ?lsum_nil; [ring|].
  rewrite IH by (intros; apply Hf; now right).
  rewrite mul_row; [ring|apply Hf; now left|exact Hp].
Qed.

(* a box [r0:r1, c0:c1] cut out of an array of shape (sr, sc), carried with helper.slice_offset *)
Lemma box_embed (a : arr S) r0 r1 c0 c1 sr sc tl r c : nr a = r1 - r0 -> nc a = c1 - c0 ->
  embed (mkField (D2 (force a)) (fst (slice_offset (SBox r0 r1 c0 c1) sr sc))
                 (snd (slice_offset (SBox r0 r1 c0 c1) sr sc)) tl) r c
  = if (r0 <=? r + sr / 2) && (r + sr / 2 <? r1) && (c0 <=? c + sc / 2) && (c + sc / 2 <? c1)
    then get a (r + sr / 2 - r0) (c + sc / 2 - c0) else k0.
Proof.
  intros Hn Hm. rewrite embed_force, embed_D2. unfold embedA, inr, slice_offset. cbn [fst snd]. rewrite Hn, Hm.
  set (hr := (r1 - r0) / 2). set (hc := (c1 - c0) / 2). set (x := sr / 2). set (y := sc / 2). clearbody hr hc x y.
  replace (r - (r0 + hr - x) + hr) with (r + x - r0) by ring.
  replace (c - (c0 + hc - y) + hc) with (c + y - c0) by ring.
  destr_ifs; try reflexivity; exfalso; lia.
Qed.


Lemma kofb_false_r (x : S) : (x * kofb false)%K = k0. Proof. unfold kofb. ring. Qed.
Lemma kofb_true_r (x : S) : (x * kofb true)%K = x. Proof. unfold kofb. ring. Qed.

(* the phasor built for one segment of a plane with an array mask *)
Lemma phasor_array_spec (P : plane S) lam k (m : garr bool) s :
  attr_compat P (pnr m) (pnc m) -> slice_ok m s ->
  exists p, phasor P lam (pnr m) (pnc m) k (MK2 m) s = Ok p /\ fsized p /\
    forall r c, embed p r c =
      (amp_at (pl_amp P) (r + pnr m / 2) (c + pnc m / 2)
       * phase lam (opd_at (pl_opd P) (r + pnr m / 2) (c + pnc m / 2))
       * kofb (mask_at m (r + pnr m / 2) (c + pnc m / 2)))%K.
Proof.
  intros [Ca Co] Hs. destruct s as [|r0 r1 c0 c1]; [contradiction|].
  destruct Hs as (H1 & H2 & H3 & H4 & Hin).
  unfold phasor.
  assert (Fin : forall (a : arr S) tl, nr a = r1 - r0 -> nc a = c1 - c0 ->
     (forall i j, r0 <= i < r1 -> c0 <= j < c1 ->
        get a (i - r0) (j - c0) = (amp_at (pl_amp P) i j * phase lam (opd_at (pl_opd P) i j) * kofb (pget m i j))%K) ->
     let p := mkField (D2 (force a)) (fst (slice_offset (SBox r0 r1 c0 c1) (pnr m) (pnc m)))
                      (snd (slice_offset (SBox r0 r1 c0 c1) (pnr m) (pnc m))) tl in
     fsized p /\
     forall r c, embed p r c =
      (amp_at (pl_amp P) (r + pnr m / 2) (c + pnc m / 2)
       * phase lam (opd_at (pl_opd P) (r + pnr m / 2) (c + pnc m / 2))
       * kofb (mask_at m (r + pnr m / 2) (c + pnc m / 2)))%K).
  { intros a tl Hn Hm Hg p. subst p. split.
    - unfold fsized. cbn [fd]. rewrite force_nr, force_nc. lia.
    - intros r c. rewrite box_embed by assumption. set (i := r + pnr m / 2). set (j := c + pnc m / 2).
      unfold mask_at, inr. destr_if.
      + rewrite Hg by lia. replace ((0 <=? i) && (i <? pnr m) && ((0 <=? j) && (j <? pnc m))) with true by lia. reflexivity.
      + destruct ((0 <=? i) && (i <? pnr m) && ((0 <=? j) && (j <? pnc m))) eqn:E; cbn [andb]; [|now rewrite kofb_false_r].
        destruct (pget m i j) eqn:Em; [|now rewrite kofb_false_r].
        exfalso. clearbody i j. clear Hg.
        assert (A1 : 0 <= i < pnr m) by lia. assert (A2 : 0 <= j < pnc m) by lia.
        destruct (Hin i j A1 A2 Em) as [B1 B2]. clear Hin. lia. }
  destruct (pl_amp P) as [v|A] eqn:Ea; destruct (pl_opd P) as [q|o] eqn:Eo; cbn [amp_data opd_data].
  - cbn [rbind dmul]. eexists; split; [reflexivity|]. cbn [dforce nr nc].
    apply Fin; cbn [nr nc get]; try reflexivity. intros i j Hi Hj. cbn [amp_at opd_at].
    replace (i - r0 + r0) with i by ring. replace (j - c0 + c0) with j by ring. ring.
  - destruct Co as [Co1 Co2]. replace ((pnr o =? pnr m) && (pnc o =? pnc m)) with true by lia.
    cbn [rbind dmul nr nc]. rewrite !Z.eqb_refl. cbn [andb]. eexists; split; [reflexivity|]. cbn [dforce nr nc].
    apply Fin; cbn [nr nc get]; try reflexivity. intros i j Hi Hj. cbn [amp_at opd_at].
    replace (i - r0 + r0) with i by ring. replace (j - c0 + c0) with j by ring. ring.
  - destruct Ca as [Ca1 Ca2]. replace ((nr A =? pnr m) && (nc A =? pnc m)) with true by lia.
    cbn [rbind dmul]. eexists; split; [reflexivity|]. cbn [dforce nr nc].
    apply Fin; cbn [nr nc get]; try reflexivity. intros i j Hi Hj. cbn [amp_at opd_at].
    replace (i - r0 + r0) with i by ring. replace (j - c0 + c0) with j by ring. ring.
  - destruct Ca as [Ca1 Ca2]. destruct Co as [Co1 Co2].
    replace ((nr A =? pnr m) && (nc A =? pnc m)) with true by lia.
    replace ((pnr o =? pnr m) && (pnc o =? pnc m)) with true by lia.
    cbn [rbind dmul nr nc]. rewrite !Z.eqb_refl. cbn [andb]. eexists; split; [reflexivity|]. cbn [dforce nr nc].
    apply Fin; cbn [nr nc get]; try reflexivity. intros i j Hi Hj. cbn [amp_at opd_at].
    replace (i - r0 + r0) with i by ring. replace (j - c0 + c0) with j by ring. ring.
Qed.

Lemma rmapM_Forall2 {A B} (f : A -> result B) : forall l r, rmapM f l = Ok r -> Forall2 (fun a b => f a = Ok b) l r.
Proof. induction l as [|x l IH]; intros r H; cbn in H.
  - injection H as <-. constructor.
  - destruct (f x) as [y|e] eqn:E; cbn in H; [|discriminate].
    destruct (rmapM f l) as [t|e] eqn:E2; cbn in H; [|discriminate]. injection H as <-.
    constructor; [assumption|now apply IH]. Qed.

Lemma cover_cons0 a l i j : @cover S (a :: l) i j = (kofb (mask_at a i j) + cover l i j)%K.
Proof. reflexivity. Qed.

(* all segments: the phasors exist, have more than one element each, and add up to
   amplitude * exp(2 pi i opd / lambda) * (number of segment masks containing the sample) *)
Lemma phasors_from_spec (P : plane S) lam n m : attr_compat P n m ->
  forall (ms : list (garr bool)) (sl : list pslice) k,
  Forall2 (fun a s => pnr a = n /\ pnc a = m /\ slice_ok a s) ms sl ->
  exists phs, phasors_from P lam n m k (map MK2 ms) sl = Ok phs /\
    (forall p, In p phs -> fsized p) /\
    forall r c, lsum (map (fun p => embed p r c) phs) =
      (amp_at (pl_amp P) (r + n / 2) (c + m / 2) * phase lam (opd_at (pl_opd P) (r + n / 2) (c + m / 2))
       * cover ms (r + n / 2) (c + m / 2))%K.
Proof.
  intros Hc ms sl k H. revert k. induction H as [|a s ms sl (En & Em & Hs) H IH]; intros k.
  - exists []. split; [reflexivity|]. split; [intros p []|]. intros r c. cbn [map cover fold_right]. rewrite lsum_nil. ring.
  - cbn [map phasors_from]. subst n m.
    destruct (phasor_array_spec P lam k a s Hc Hs) as (p & Ep & Vp & Gp).
    destruct (IH (Datatypes.S k)) as (phs & Ephs & Hall & Gs).
    rewrite Ep. cbn [rbind]. rewrite Ephs. cbn [rbind]. exists (p :: phs). split; [reflexivity|]. split.
    + intros q [<-|Hq]; [assumption|now apply Hall].
    + intros r c. cbn [map]. rewrite lsum_cons, Gs, Gp. rewrite cover_cons0. ring.
Qed.


Lemma plane_phasors_spec (P : plane S) lam n m : plane_ok P n m ->
  exists phs, plane_phasors P lam = Ok phs /\
    (forall p, In p phs -> fsized p) /\
    forall r c, lsum (map (fun p => embed p r c) phs) = transmission P lam n m r c.
Proof.
  intros [Hd Hs Hl Ha]. unfold plane_phasors, transmission.
  assert (F2 : forall ms sl, rmapM boundary_slice ms = Ok sl -> (forall a, In a ms -> pnr a = n /\ pnc a = m) ->
            Forall2 (fun a s => pnr a = n /\ pnc a = m /\ slice_ok a s) ms sl).
  { intros ms sl E. apply rmapM_Forall2 in E. induction E as [|a s ms sl Ea E IH]; intros Hin; [constructor|].
    constructor.
    - destruct (Hin a (or_introl eq_refl)). repeat split; try assumption. now apply boundary_slice_ok.
    - apply IH. intros; apply Hin; now right. }
  destruct (pl_mask P) as [b|a|n0 m0 l] eqn:Em; cbn [plane_dims masks_of plane_slice] in *.
  - discriminate.
  - injection Hd as <- <-.
    destruct (boundary_slice a) as [s|e] eqn:Eb; cbn [rbind] in Hs; [|discriminate]. injection Hs as Hs.
    specialize (F2 [a] [s]). cbn [rmapM rbind] in F2. rewrite Eb in F2. cbn [rbind] in F2.
    rewrite <- Hs in *. specialize (F2 eq_refl Hl).
    exact (phasors_from_spec P lam (pnr a) (pnc a) Ha [a] [s] 0%nat F2).
  - injection Hd as <- <-.
    exact (phasors_from_spec P lam n0 m0 Ha l (pl_slices P) 0%nat (F2 l (pl_slices P) Hs Hl)).
Qed.

(* every product with an array phasor is an array field of positive dimensions (never 0-d) *)
Lemma mul_core_sized (da : arr S) ora oca (db : arr S) orb ocb tl f :
  0 < nr da -> 0 < nc da -> 0 < nr db -> 0 < nc db -> mul_core da ora oca db orb ocb tl = Some f -> fsized f.
Proof.
  intros Ha1 Ha2 Hb1 Hb2. unfold mul_core.
  destruct da as [an am ag], db as [bn bm bg]. cbn [nr nc get] in *.
  unfold intersect, intersection_slices, intersection_shift, intersection_extent, array_extent.
  destr_if; [|discriminate]. intros H. injection H as <-. unfold fsized. cbn [fd]. rewrite force_nr, force_nc. cbn [nr nc]. lia.
Qed.
Lemma fmul_sized (a p x : field S) : fvalid a -> fsized p -> fmul a p = Some x -> fsized x.
Proof.
  intros Va Vp. unfold fsized in Vp. unfold FieldP.fvalid in Va. unfold fmul, mul_array.
  destruct a as [[va|da] ora oca ta], p as [[vp|dp] orp ocp tp]; cbn [fd is0d andb same_shape negb dshape dget toarr offr offc ftilt fst snd] in *;
    try contradiction.
  - apply mul_core_sized; unfold aconst; cbn [nr nc]; lia.
  - destruct (negb ((nr da =? nr dp) && (nc da =? nc dp))); cbn [andb]; apply mul_core_sized; lia.
Qed.
Lemma mul_fields_sized (phs fs : list (field S)) : (forall f, In f fs -> fvalid f) -> (forall p, In p phs -> fsized p) ->
  forall x, In x (mul_fields phs fs) -> fsized x.
Proof.
  intros Hf Hp x Hx. unfold mul_fields in Hx. apply in_flat_map in Hx. destruct Hx as (f & Hin & Hx).
  apply in_flat_map in Hx. destruct Hx as (p & Hpin & Hx). unfold keep in Hx.
  destruct (fmul f p) as [y|] eqn:E; [|contradiction]. destruct Hx as [<-|[]].
  apply (fmul_sized f p y); [now apply Hf|now apply Hp|exact E].
Qed.

Lemma ec_sum_lsum (fs : list (field S)) r c : ec_sum fs r c = lsum (map (fun f => embed_const f r c) fs).
Proof. induction fs as [|f l IH]; [reflexivity|]. cbn [ec_sum fold_right map]. rewrite lsum_cons. f_equal. exact IH. Qed.

(* T07c for planes with an array mask (monolithic or segmented; amplitude and OPD scalar or array) *)
Theorem plane_multiply_spec (P : plane S) (w : pwf S) n m px : plane_ok P n m ->
  (forall f, In f (pw_data w) -> fvalid f) -> mul_pixelscale (pl_pix P) (pw_pix w) = Ok px ->
  exists w', plane_multiply P w = Ok w' /\
    pw_lam w' = pw_lam w /\ pw_pix w' = px /\ pw_shape w' = Some (n, m) /\
    pw_focal w' = (match pl_focal P with Some f => f | None => focal_truthy (pw_focal w) end) /\
    (forall f, In f (pw_data w') -> fsized f) /\
    forall r c, embed_sum (pw_data w') r c = (ec_sum (pw_data w) r c * transmission P (pw_lam w) n m r c)%K.
Proof.
  intros Hok Hf Hpx. unfold plane_multiply. rewrite Hpx. cbn [rbind].
  destruct (plane_phasors_spec P (pw_lam w) n m Hok) as (phs & Ephs & Hall & Gs).
  assert (Hshape : match plane_shape (pl_mask P) with Sh0 => pw_shape w | Sh2 a b => Some (a, b) end = Some (n, m)).
  { destruct Hok as [Hd _ _ _]. destruct (pl_mask P) as [b|a|n0 m0 l]; cbn in *; [discriminate|congruence|congruence]. }
  destruct (pw_data w) as [|f0 fs] eqn:Ed.
  - cbn [rbind]. eexists; split; [reflexivity|]. cbn [pw_lam pw_pix pw_shape pw_focal pw_data].
    repeat split; try assumption; [intros f []|]. intros r c. unfold mul_fields. rewrite ec_sum_lsum. cbn [flat_map map]. rewrite embed_sum_nil, lsum_nil. ring.
  - rewrite Ephs. cbn [rbind]. eexists; split; [reflexivity|]. cbn [pw_lam pw_pix pw_shape pw_focal pw_data].
    repeat split; try assumption; [now apply mul_fields_sized|]. intros r c. rewrite mul_fields_pointwise by assumption. rewrite ec_sum_lsum. now rewrite Gs.
Qed.

(* ---- planes whose three attributes are scalars: one 0-d phasor at the origin ---- *)
Lemma fmul_scalar_phasor (f : field S) (a : S) tl r c : fvalid f ->
  (is0d (fd f) = true -> offr f = 0 /\ offc f = 0) ->
  embed_opt (fmul f (mkField (D0 a) 0 0 tl)) r c = (embed f r c * a)%K.
Proof.
  intros Vf Ho. destruct (is0d (fd f)) eqn:E.
  - destruct (Ho eq_refl) as [O1 O2]. unfold fmul. rewrite E. cbn [fd is0d andb].
    unfold mul_scalar. cbn [offr offc fd dget]. rewrite O1, O2. cbn [Z.eqb andb embed_opt].
    destruct f as [[vf|df] orr occ tf]; cbn [fd offr offc dget ftilt is0d] in *; [|discriminate]. subst orr occ.
    rewrite !embed_D0. destr_if; ring.
  - rewrite (fmul_embed S Sring f (mkField (D0 a) 0 0 tl) r c Vf I) by (now rewrite E).
    unfold embed_const. rewrite E. cbn [fd is0d dget]. reflexivity.
Qed.

Theorem plane_multiply_scalar (P : plane S) (w : pwf S) v q b px : plane_scalar P v q b ->
  (forall f, In f (pw_data w) -> fvalid f) -> origin_consts (pw_data w) ->
  mul_pixelscale (pl_pix P) (pw_pix w) = Ok px ->
  exists w', plane_multiply P w = Ok w' /\
    pw_lam w' = pw_lam w /\ pw_pix w' = px /\ pw_shape w' = pw_shape w /\
    pw_focal w' = (match pl_focal P with Some f => f | None => focal_truthy (pw_focal w) end) /\
    forall r c, embed_sum (pw_data w') r c = (embed_sum (pw_data w) r c * (v * kofb b * phase (pw_lam w) q))%K.
Proof.
  intros (Ea & Eo & Em & Es) Hf Ho Hpx. unfold plane_multiply. rewrite Hpx. cbn [rbind].
  unfold plane_phasors. rewrite Em, Es. cbn [phasors_from]. unfold phasor. rewrite Ea, Eo.
  cbn [amp_data opd_data rbind dmul slice_offset dforce plane_shape].
  set (p := mkField (D0 (v * kofb b * phase (pw_lam w) q)%K) 0 0 _).
  destruct (pw_data w) as [|f0 fs] eqn:Ed.
  - cbn [rbind]. eexists; split; [reflexivity|]. cbn [pw_lam pw_pix pw_shape pw_focal pw_data].
    repeat split. intros r c. unfold mul_fields. cbn [flat_map]. rewrite !embed_sum_nil. ring.
  - cbn [rbind]. eexists; split; [reflexivity|]. cbn [pw_lam pw_pix pw_shape pw_focal pw_data].
    repeat split. intros r c. rewrite mul_fields_sum. rewrite embed_sum_lsum by exact Sring.
    rewrite <- lsum_scale_r. rewrite map_map.
    rewrite (lsum_map_ext S (fun f => lsum (map (fun p0 => embed_opt (fmul f p0) r c) [p]))
                            (fun f => embed_opt (fmul f p) r c))
      by (intros; cbn [map]; rewrite lsum_cons, lsum_nil; ring).
    revert Hf Ho. generalize (f0 :: fs). intros l Hf Ho.
    induction l as [|f l IH]; cbn [map]; rewrite ?lsum_cons, ?lsum_nil; [reflexivity|].
    rewrite IH.
    + f_equal. subst p. apply fmul_scalar_phasor.
      * apply Hf. now left.
      * apply Ho. now left.
    + intros; apply Hf; now right.
    + intros x Hx. apply Ho. now right.
Qed.

(* ---- the default plane (amplitude 1, opd 0, no mask: the mask derived from the amplitude is 1) changes nothing ---- *)
Lemma phase_zero lam : kernel_laws S -> @phase S lam 0%Qc = k1.
Proof. intros Hk. unfold phase. replace (- (0 / lam))%Qc with 0%Qc by (unfold Qcdiv; ring). apply (ke_0 S Hk). Qed.

Theorem default_plane_identity (P : plane S) (w : pwf S) px : kernel_laws S -> plane_scalar P k1 0%Qc true ->
  (forall f, In f (pw_data w) -> fvalid f) -> origin_consts (pw_data w) ->
  mul_pixelscale (pl_pix P) (pw_pix w) = Ok px ->
  exists w', plane_multiply P w = Ok w' /\ pw_lam w' = pw_lam w /\ pw_shape w' = pw_shape w /\
    forall r c, embed_sum (pw_data w') r c = embed_sum (pw_data w) r c.
Proof.
  intros Hk Hs Hf Ho Hpx. destruct (plane_multiply_scalar P w k1 0%Qc true px Hs Hf Ho Hpx) as (w' & E & L & _ & Sh & _ & G).
  exists w'. repeat split; try assumption. intros r c. rewrite G, phase_zero by assumption. unfold kofb. ring.
Qed.

(* ---- what the transmission is: the phasor inside the mask, zero outside ---- *)

Lemma cover_cons a l i j : @cover S (a :: l) i j = (kofb (mask_at a i j) + cover l i j)%K.
Proof. reflexivity. Qed.

(* pairwise disjoint segment masks: the multiplicity is the indicator of the union (induction over the segments) *)
Lemma cover_disjoint (l : list (garr bool)) i j : disjoint_masks l ->
  @cover S l i j = kofb (existsb (fun a => mask_at a i j) l).
Proof.
  intros H. induction H as [|a l Ha H IH]; [reflexivity|].
  rewrite cover_cons, IH. cbn [existsb]. destruct (mask_at a i j) eqn:E; cbn [orb].
  - assert (Z0 : existsb (fun b => mask_at b i j) l = false).
    { destruct (existsb (fun b => mask_at b i j) l) eqn:Ex; [|reflexivity]. exfalso.
      apply existsb_exists in Ex. destruct Ex as (b & Hb & Eb). rewrite Forall_forall in Ha.
      specialize (Ha b Hb i j). rewrite E, Eb in Ha. discriminate. }
    rewrite Z0. unfold kofb. ring.
  - unfold kofb at 1. ring.
Qed.

Theorem transmission_inside_outside (P : plane S) lam n m r c : disjoint_masks (masks_of (pl_mask P)) ->
  transmission P lam n m r c =
  if existsb (fun a => mask_at a (r + n / 2) (c + m / 2)) (masks_of (pl_mask P))
  then (amp_at (pl_amp P) (r + n / 2) (c + m / 2) * phase lam (opd_at (pl_opd P) (r + n / 2) (c + m / 2)))%K
  else k0.
Proof. intros H. unfold transmission. rewrite cover_disjoint by assumption. destr_if; unfold kofb; ring. Qed.

(* ---- C03: a partition of the aperture into segments is the same optics as the global mask ---- *)
(* two planes with the same shape and the same transmission act identically on every wavefront *)
Theorem plane_multiply_same_transmission (P1 P2 : plane S) (w1 w2 : pwf S) n m px1 px2 :
  plane_ok P1 n m -> plane_ok P2 n m ->
  (forall f, In f (pw_data w1) -> fvalid f) -> (forall f, In f (pw_data w2) -> fvalid f) ->
  pw_lam w1 = pw_lam w2 -> (forall r c, ec_sum (pw_data w1) r c = ec_sum (pw_data w2) r c) ->
  (forall r c, transmission P1 (pw_lam w1) n m r c = transmission P2 (pw_lam w1) n m r c) ->
  mul_pixelscale (pl_pix P1) (pw_pix w1) = Ok px1 -> mul_pixelscale (pl_pix P2) (pw_pix w2) = Ok px2 ->
  exists w1' w2', plane_multiply P1 w1 = Ok w1' /\ plane_multiply P2 w2 = Ok w2' /\
    pw_lam w1' = pw_lam w2' /\ pw_shape w1' = pw_shape w2' /\
    forall r c, embed_sum (pw_data w1') r c = embed_sum (pw_data w2') r c.
Proof.
  intros H1 H2 Hf1 Hf2 Hl He Ht Hp1 Hp2.
  destruct (plane_multiply_spec P1 w1 n m px1 H1 Hf1 Hp1) as (w1' & E1 & L1 & _ & S1 & _ & _ & G1).
  destruct (plane_multiply_spec P2 w2 n m px2 H2 Hf2 Hp2) as (w2' & E2 & L2 & _ & S2 & _ & _ & G2).
  exists w1', w2'. split; [assumption|]. split; [assumption|]. split; [congruence|]. split; [congruence|].
  intros r c. rewrite G1, G2, He, <- Hl, Ht. reflexivity.
Qed.


Lemma partition_transmission (Pseg Pmono : plane S) n m lam r c : partition_of Pseg Pmono n m ->
  transmission Pseg lam n m r c = transmission Pmono lam n m r c.
Proof.
  intros (_ & _ & Ea & Eo & _ & _ & Hd & g & Eg & Hu). unfold transmission. rewrite Ea, Eo. f_equal.
  rewrite cover_disjoint by assumption. rewrite Eg. cbn [masks_of]. rewrite cover_cons, <- Hu.
  cbn [cover fold_right]. ring.
Qed.

Theorem plane_multiply_partition (Pseg Pmono : plane S) (w : pwf S) n m px1 px2 : partition_of Pseg Pmono n m ->
  (forall f, In f (pw_data w) -> fvalid f) ->
  mul_pixelscale (pl_pix Pseg) (pw_pix w) = Ok px1 -> mul_pixelscale (pl_pix Pmono) (pw_pix w) = Ok px2 ->
  exists ws wm, plane_multiply Pseg w = Ok ws /\ plane_multiply Pmono w = Ok wm /\
    pw_lam ws = pw_lam wm /\ pw_shape ws = pw_shape wm /\
    forall r c, embed_sum (pw_data ws) r c = embed_sum (pw_data wm) r c.
Proof.
  intros Hp Hf Hp1 Hp2. pose proof Hp as (_ & _ & _ & _ & Ok1 & Ok2 & _).
  apply (plane_multiply_same_transmission Pseg Pmono w w n m px1 px2); try assumption; try reflexivity.
  intros r c. now apply partition_transmission.
Qed.

(* chains of planes *)
Lemma lsum_map_ext_in {A} (e1 e2 : A -> S) (l : list A) :
  (forall f, In f l -> e1 f = e2 f) -> lsum (map e1 l) = lsum (map e2 l).
Proof. intros H. induction l as [|x l IH]; cbn [map]; [reflexivity|]. rewrite !lsum_cons.
  rewrite IH by (intros; apply H; now right). now rewrite H by now left. Qed.
(* array fields: nothing is read as a constant *)
Lemma sized_ec (fs : list (field S)) r c : (forall f, In f fs -> fsized f) -> ec_sum fs r c = embed_sum fs r c.
Proof. intros H. rewrite ec_sum_lsum. rewrite embed_sum_lsum by exact Sring. apply lsum_map_ext_in. intros f Hf.
  unfold embed_const. destruct (fsized_not0d f (H f Hf)) as [_ ->]. reflexivity. Qed.

Lemma plane_multiply_ok_pix (P : plane S) w w' : plane_multiply P w = Ok w' ->
  exists px, mul_pixelscale (pl_pix P) (pw_pix w) = Ok px.
Proof. unfold plane_multiply. destruct (mul_pixelscale (pl_pix P) (pw_pix w)) as [px|e]; [now exists px|discriminate]. Qed.

Theorem chain_same_optics (ps1 ps2 : list (plane S)) : Forall2 same_optics ps1 ps2 ->
  forall w1 w2 w1' w2', wf_equiv w1 w2 -> chain_multiply ps1 w1 = Ok w1' -> chain_multiply ps2 w2 = Ok w2' -> wf_equiv w1' w2'.
Proof.
  intros H. induction H as [|P1 P2 ps1 ps2 (Epx & Efo & n & m & O1 & O2 & HT) H IH]; intros w1 w2 w1' w2' He R1 R2.
  - cbn in R1, R2. injection R1 as <-. injection R2 as <-. exact He.
  - cbn [chain_multiply] in R1, R2.
    destruct (plane_multiply P1 w1) as [a|e1] eqn:M1; cbn [rbind] in R1; [|discriminate].
    destruct (plane_multiply P2 w2) as [b|e2] eqn:M2; cbn [rbind] in R2; [|discriminate].
    apply (IH a b); try assumption.
    destruct He as (El & Esh & Epix & Efoc & V1 & V2 & Ee).
    destruct (plane_multiply_ok_pix _ _ _ M1) as (px1 & Hp1). destruct (plane_multiply_ok_pix _ _ _ M2) as (px2 & Hp2).
    destruct (plane_multiply_spec P1 w1 n m px1 O1 V1 Hp1) as (a' & Ea & La & Pa & Sa & Fa & Za & Ga).
    destruct (plane_multiply_spec P2 w2 n m px2 O2 V2 Hp2) as (b' & Eb & Lb & Pb & Sb & Fb & Zb & Gb).
    rewrite M1 in Ea. injection Ea as <-. rewrite M2 in Eb. injection Eb as <-.
    assert (px1 = px2) by (rewrite Epx, Epix in Hp1; congruence).
    split; [congruence|]. split; [congruence|]. split; [congruence|]. split; [rewrite Fa, Fb, Efo, Efoc; reflexivity|].
    split; [intros f Hf; now apply fsized_valid, Za|]. split; [intros f Hf; now apply fsized_valid, Zb|].
    intros r c. rewrite !sized_ec by assumption. rewrite Ga, Gb, Ee, <- El. now rewrite HT.
Qed.

(* array planes leave array fields behind *)
Lemma chain_multiply_sized (ps : list (plane S)) : (forall P, In P ps -> exists n m, plane_ok P n m) -> ps <> [] ->
  forall w w', (forall f, In f (pw_data w) -> fvalid f) -> chain_multiply ps w = Ok w' -> forall f, In f (pw_data w') -> fsized f.
Proof.
  induction ps as [|P ps IH]; intros Hok Hne w w' Hf R; [congruence|]. cbn [chain_multiply] in R.
  destruct (plane_multiply P w) as [a|e] eqn:M; cbn [rbind] in R; [|discriminate].
  destruct (Hok P (or_introl eq_refl)) as (n & m & O).
  destruct (plane_multiply_ok_pix _ _ _ M) as (px & Hp).
  destruct (plane_multiply_spec P w n m px O Hf Hp) as (a' & Ea & _ & _ & _ & _ & Za & _).
  rewrite M in Ea. injection Ea as <-.
  destruct ps as [|Q ps']; [cbn in R; injection R as <-; exact Za|].
  apply (IH (fun X HX => Hok X (or_intror HX)) ltac:(discriminate) a w'); [|exact R].
  intros f Hf'. now apply fsized_valid, Za.
Qed.

(* a chain of segmented planes against the chain of their monolithic counterparts: whenever both chains run
   (i.e. the pixel scales are consistent), all attributes and the plane function are equal *)
Theorem chain_partition (segs monos : list (plane S)) :
  Forall2 (fun Ps Pm => exists n m, partition_of Ps Pm n m) segs monos ->
  forall w ws wm, (forall f, In f (pw_data w) -> fvalid f) ->
  chain_multiply segs w = Ok ws -> chain_multiply monos w = Ok wm ->
  pw_lam ws = pw_lam wm /\ pw_shape ws = pw_shape wm /\ pw_pix ws = pw_pix wm /\ pw_focal ws = pw_focal wm /\
  forall r c, ec_sum (pw_data ws) r c = ec_sum (pw_data wm) r c.
Proof.
  intros H.
  assert (H' : Forall2 same_optics segs monos).
  { induction H as [|Ps Pm l1 l2 (n & m & Hp) H IH]; constructor; [|exact IH].
    pose proof Hp as (E1 & E2 & _ & _ & O1 & O2 & _). split; [exact E1|]. split; [exact E2|].
    exists n, m. split; [exact O1|]. split; [exact O2|].
    intros lam r c. now apply partition_transmission. }
  intros w ws wm Hf R1 R2.
  destruct (chain_same_optics segs monos H' w w ws wm) as (A & B & C & D & _ & _ & E); try assumption.
  - repeat split; try assumption; reflexivity.
  - repeat split; assumption.
Qed.

(* the monolithic chain runs whenever the segmented one does *)
Lemma chain_runs_together (l1 l2 : list (plane S)) :
  Forall2 (fun Ps Pm => exists n m, partition_of Ps Pm n m) l1 l2 ->
  forall (u v u' : pwf S), pw_pix u = pw_pix v -> (forall f, In f (pw_data u) -> fvalid f) ->
  (forall f, In f (pw_data v) -> fvalid f) -> chain_multiply l1 u = Ok u' -> exists v', chain_multiply l2 v = Ok v'.
Proof.
  intros F. induction F as [|Qs Qm t1 t2 (n & m & Hq) F IH]; intros u v u' Epx Hu Hv R.
  - exists v. reflexivity.
  - cbn [chain_multiply] in *. destruct (plane_multiply Qs u) as [a|e] eqn:M; cbn [rbind] in R; [|discriminate].
    destruct (plane_multiply_ok_pix _ _ _ M) as (px & Hpx).
    pose proof Hq as (E1 & _ & _ & _ & O1 & O2 & _).
    assert (Hpx2 : mul_pixelscale (pl_pix Qm) (pw_pix v) = Ok px) by (rewrite <- E1, <- Epx; exact Hpx).
    destruct (plane_multiply_spec Qs u n m px O1 Hu Hpx) as (a' & Ea & _ & Pa & _ & _ & Za & _).
    destruct (plane_multiply_spec Qm v n m px O2 Hv Hpx2) as (b & Eb & _ & Pb & _ & _ & Zb & _).
    rewrite M in Ea. injection Ea as <-. rewrite Eb. cbn [rbind].
    apply (IH a b u'); try assumption; [congruence| |]; intros f Hf; apply fsized_valid; auto.
Qed.
Theorem chain_partition_runs (segs monos : list (plane S)) :
  Forall2 (fun Ps Pm => exists n m, partition_of Ps Pm n m) segs monos ->
  forall w ws, (forall f, In f (pw_data w) -> fvalid f) ->
  chain_multiply segs w = Ok ws -> exists wm, chain_multiply monos w = Ok wm.
Proof. intros H w ws Hf R. exact (chain_runs_together segs monos H w w ws eq_refl Hf Hf R). Qed.

(* ---- Plane.__init__ ---- *)
Theorem plane_init_spec (nz : S -> bool) amp opd mask pix foc tl (P : plane S) :
  plane_init nz amp opd mask pix foc tl = Ok P ->
  pl_amp P = amp /\ pl_opd P = opd /\ pl_mask P = init_mask nz amp mask /\
  plane_slice (pl_mask P) = Ok (pl_slices P) /\ pl_pix P = pix_broadcast pix /\ pl_tilt P = tl /\ pl_focal P = foc.
Proof.
  unfold plane_init. destruct mask; try discriminate;
    (match goal with |- context[plane_slice ?x] => destruct (plane_slice x) as [sl|e] eqn:E end; cbn [rbind]; [|discriminate];
     intros H; injection H as <-; cbn [pl_amp pl_opd pl_mask pl_slices pl_pix pl_tilt pl_focal]; repeat split; try reflexivity; exact E).
Qed.

Lemma boundary_slice_err (m : garr bool) e : boundary_slice m = Err e -> e = IndexError.
Proof. unfold boundary_slice, util_boundary.
  repeat match goal with |- context[match ?o with Some _ => _ | None => _ end] => destruct o end;
  intros H; try discriminate; now injection H. Qed.
Lemma plane_slice_err (mk : pmask) e : plane_slice mk = Err e -> e = IndexError.
Proof. unfold plane_slice. destruct mk as [b|a|n m l]; [discriminate| |].
  - destruct (boundary_slice a) eqn:B; cbn [rbind]; [discriminate|]. intros H. injection H as <-. exact (boundary_slice_err _ _ B).
  - induction l as [|a l IH]; cbn [rmapM]; [discriminate|].
    destruct (boundary_slice a) eqn:B; cbn [rbind].
    + destruct (rmapM boundary_slice l); cbn [rbind]; [discriminate|]. exact IH.
    + intros H. injection H as <-. exact (boundary_slice_err _ _ B). Qed.

(* the constructor's outcome: which keyword combinations and masks are refused, and with which exception *)
Theorem plane_init_kw_outcome (nz : S -> bool) amplitude alias opd mask pix foc tl :
  match plane_init_kw nz amplitude alias opd mask pix foc tl with
  | Ok P => (alias = None /\ pl_amp P = amplitude \/ exists a', alias = Some a' /\ pl_amp P = a') /\
            mask <> M4 /\ pl_opd P = opd /\ pl_mask P = init_mask nz (pl_amp P) mask /\
            plane_slice (pl_mask P) = Ok (pl_slices P) /\ pl_pix P = pix_broadcast pix /\ pl_tilt P = tl /\ pl_focal P = foc
  | Err TypeError =>      (* both `amplitude` and `amp` given *)
      alias <> None /\ (exists v, amplitude = AmpS v /\ nz (v - k1)%K = true) \/
      alias <> None /\ (exists A, amplitude = AmpA A /\ nr A * nc A = 1 /\ nz (get A 0 0 - k1)%K = true)
  | Err ValueError =>     (* `amplitude != 1` has no truth value, or the mask has rank >= 4 *)
      (alias <> None /\ exists A, amplitude = AmpA A /\ nr A * nc A <> 1) \/ mask = M4
  | Err IndexError =>     (* some (segment) mask has no set sample: no bounding slice *)
      mask <> M4 /\ exists a, plane_slice (init_mask nz a mask) = Err IndexError
  | Err _ => False
  end.
Proof.
  unfold plane_init_kw, amp_kw.
  assert (Core : forall a, match plane_init nz a opd mask pix foc tl with
     | Ok P => pl_amp P = a /\ mask <> M4 /\ pl_opd P = opd /\ pl_mask P = init_mask nz a mask /\
               plane_slice (pl_mask P) = Ok (pl_slices P) /\ pl_pix P = pix_broadcast pix /\ pl_tilt P = tl /\ pl_focal P = foc
     | Err ValueError => mask = M4
     | Err IndexError => mask <> M4 /\ plane_slice (init_mask nz a mask) = Err IndexError
     | Err _ => False end).
  { intros a. destruct (plane_init nz a opd mask pix foc tl) as [P|e] eqn:E.
    - destruct (plane_init_spec nz a opd mask pix foc tl P E) as (A1 & A2 & A3 & A4 & A5 & A6 & A7).
      repeat split; try assumption. intros ->. discriminate.
    - unfold plane_init in E. destruct mask; try (injection E as <-; reflexivity);
        (match type of E with context[plane_slice ?x] => destruct (plane_slice x) as [sl|e'] eqn:E2 end; cbn [rbind] in E; [discriminate|];
         injection E as <-; pose proof (plane_slice_err _ _ E2) as ->; split; [discriminate|reflexivity]). }
  destruct alias as [a'|].
  - destruct amplitude as [v|A].
    + destruct (nz (v - k1)%K) eqn:Ev; cbn [rbind].
      * left. split; [discriminate|]. now exists v.
      * specialize (Core a'). destruct (plane_init nz a' opd mask pix foc tl) as [P|e].
        -- destruct Core as (A1 & Rest). split; [right; now exists a'|]. rewrite A1. exact Rest.
        -- destruct e; try contradiction; [now right|]. destruct Core as [C1 C2]. split; [exact C1|now exists a'].
    + destruct (nr A * nc A =? 1) eqn:Es.
      * destruct (nz (get A 0 0 - k1)%K) eqn:Ev; cbn [rbind].
        -- right. split; [discriminate|]. exists A. repeat split; [lia|exact Ev].
        -- specialize (Core a'). destruct (plane_init nz a' opd mask pix foc tl) as [P|e].
           ++ destruct Core as (A1 & Rest). split; [right; now exists a'|]. rewrite A1. exact Rest.
           ++ destruct e; try contradiction; [now right|]. destruct Core as [C1 C2]. split; [exact C1|now exists a'].
      * cbn [rbind]. left. split; [discriminate|]. exists A. split; [reflexivity|lia].
  - cbn [rbind]. specialize (Core amplitude). destruct (plane_init nz amplitude opd mask pix foc tl) as [P|e].
    + destruct Core as (A1 & Rest). split; [left; now split|]. rewrite A1. exact Rest.
    + destruct e; try contradiction; [now right|]. destruct Core as [C1 C2]. split; [exact C1|now exists amplitude].
Qed.

(* Wavefront(..., tilt=...): exactly two entries, stored as one Tilt with the axes exchanged *)
Theorem pwf_init_kw_outcome lam pix foc (t : option (list Qc)) :
  match pwf_init_kw (S := S) lam pix foc t with
  | Ok w => pw_lam w = lam /\ pw_pix w = pix_broadcast pix /\ pw_shape w = None /\
            (t = None /\ pw_data w = [mkField (D0 k1) 0 0 []] \/
             exists rx ry, t = Some [rx; ry] /\ pw_data w = [mkField (D0 k1) 0 0 [TiltAng ry rx]])
  | Err e => e = ValueError /\ exists l, t = Some l /\ length l <> 2%nat
  end.
Proof.
  unfold pwf_init_kw. destruct t as [[|rx [|ry [|z l]]]|]; cbn;
    try (split; [reflexivity|eexists; split; [reflexivity|cbn; lia]]).
  - repeat split. right. now exists rx, ry.
  - repeat split. now left.
Qed.

(* Plane.global_mask of pairwise disjoint segments: 1 on their union, 0 elsewhere *)
Theorem global_mask_disjoint (n m : Z) (l : list (garr bool)) i j : disjoint_masks l ->
  (forall a, In a l -> inr (pnr a) i && inr (pnc a) j = true) ->
  global_mask (PM3 n m l) i j = if existsb (fun a => pget a i j) l then 1 else 0.
Proof.
  intros H Hr. cbn [global_mask]. induction H as [|a l Ha H IH]; [reflexivity|]. cbn [fold_right existsb].
  rewrite IH by (intros; apply Hr; now right).
  destruct (pget a i j) eqn:E; cbn [zofb orb]; [|reflexivity].
  assert (Z0 : existsb (fun b => pget b i j) l = false).
  { destruct (existsb (fun b => pget b i j) l) eqn:Ex; [|reflexivity]. exfalso.
    apply existsb_exists in Ex. destruct Ex as (b & Hb & Eb). rewrite Forall_forall in Ha. specialize (Ha b Hb i j).
    unfold mask_at in Ha. rewrite (Hr a (or_introl eq_refl)), (Hr b (or_intror Hb)), E, Eb in Ha. discriminate. }
  rewrite Z0. reflexivity.
Qed.

(* the stored mask is binary: set exactly where the given array (or, without one, the amplitude) is non-zero;
   a mask that is nowhere set is refused *)
Theorem init_mask_binary (nz : S -> bool) amp :
  (forall a, init_mask nz amp (M2 a) = PM2 (binarise nz a)) /\
  (forall n m l, init_mask nz amp (M3 n m l) = PM3 n m (map (binarise nz) l)) /\
  (forall v, init_mask nz amp (MS v) = PM0 (nz v)) /\
  (forall a i j, pget (binarise nz a) i j = nz (get a i j)) /\
  (match amp with AmpA A => init_mask nz amp MNone = PM2 (binarise nz A) | AmpS v => init_mask nz amp MNone = PM0 (nz v) end).
Proof. repeat split; try reflexivity. destruct amp; reflexivity. Qed.

(* without a mask argument the mask is derived from the amplitude and changes nothing *)
Theorem derived_mask_transparent (nz : S -> bool) (P : plane S) (A : arr S) lam r c :
  (forall x, nz x = false -> x = k0) ->
  pl_amp P = AmpA A -> pl_mask P = PM2 (binarise nz A) ->
  transmission P lam (nr A) (nc A) r c =
  (if inr (nr A) (r + nr A / 2) && inr (nc A) (c + nc A / 2)
   then get A (r + nr A / 2) (c + nc A / 2) * phase lam (opd_at (pl_opd P) (r + nr A / 2) (c + nc A / 2)) else k0)%K.
Proof.
  intros Hnz Ea Em. unfold transmission. rewrite Ea, Em. cbn [masks_of cover fold_right amp_at].
  unfold mask_at. cbn [binarise pnr pnc pget].
  destruct (inr (nr A) (r + nr A / 2) && inr (nc A) (c + nc A / 2)); cbn [andb]; [|unfold kofb; ring].
  destruct (nz (get A (r + nr A / 2) (c + nc A / 2))) eqn:E; unfold kofb; [ring|]. rewrite (Hnz _ E). ring.
Qed.

Theorem plane_multiply_refused (P : plane S) (w : pwf S) x y : pl_pix P = Some x -> pw_pix w = Some y ->
  fst x <> fst y \/ snd x <> snd y -> plane_multiply P w = Err ValueError.
Proof.
  intros H1 H2 H. unfold plane_multiply. rewrite H1, H2.
  destruct mul_pixelscale_table as (_ & _ & _ & _ & T & _). rewrite (T x y H). reflexivity.
Qed.

Lemma embed_sum_retilt (g : field S -> list tilt) (l : list (field S)) r c :
  embed_sum (map (fun f => mkField (fd f) (offr f) (offc f) (g f)) l) r c = embed_sum l r c.
Proof. unfold embed_sum. generalize (@k0 S). induction l as [|f l IH]; intros a; cbn [map fold_left]; [reflexivity|].
  rewrite IH. reflexivity. Qed.

(* ---- lentil.Tilt as a plane: the field is untouched, every field's tilt list grows by exactly this one element ---- *)
Theorem tilt_plane_spec (t : tilt) (P : plane S) (w : pwf S) px : kernel_laws S -> plane_scalar P k1 0%Qc true ->
  (forall f, In f (pw_data w) -> fvalid f) -> origin_consts (pw_data w) ->
  mul_pixelscale (pl_pix P) (pw_pix w) = Ok px ->
  exists w0 w', plane_multiply P w = Ok w0 /\ elem_multiply (CTilt t P) w = Ok w' /\
    pw_lam w' = pw_lam w /\ pw_shape w' = pw_shape w /\
    (forall r c, embed_sum (pw_data w') r c = embed_sum (pw_data w) r c) /\
    map (@ftilt S) (pw_data w') = map (fun f => ftilt f ++ [t]) (pw_data w0).
Proof.
  intros Hk Hs Hf Ho Hpx. destruct (default_plane_identity P w px Hk Hs Hf Ho Hpx) as (w0 & E & L & Sh & G).
  exists w0, (append_tilt t w0). cbn [elem_multiply]. rewrite E. repeat split; try assumption.
  - intros r c. rewrite <- G. unfold append_tilt. cbn [pw_data]. apply embed_sum_retilt.
  - unfold append_tilt. cbn [pw_data]. rewrite map_map. reflexivity.
Qed.

(* ---- attribute updates: a multiply sees exactly the plane's current attributes ---- *)
Theorem setters_spec (P : plane S) a o m :
  pl_amp (set_amp P a) = a /\ pl_opd (set_amp P a) = pl_opd P /\ pl_mask (set_amp P a) = pl_mask P /\
  pl_slices (set_amp P a) = pl_slices P /\
  pl_opd (set_opd P o) = o /\ pl_amp (set_opd P o) = pl_amp P /\ pl_mask (set_opd P o) = pl_mask P /\
  pl_slices (set_opd P o) = pl_slices P /\
  pl_mask (set_mask_inplace P m) = m /\ pl_slices (set_mask_inplace P m) = pl_slices P.
Proof. repeat split. Qed.

(* ---- planes with a 0-d mask and at least one array attribute: one phasor covering the attribute array ---- *)
Lemma full_embed (a : arr S) tl r c :
  embed (mkField (D2 (force a)) 0 0 tl) r c
  = if inr (nr a) (r + nr a / 2) && inr (nc a) (c + nc a / 2) then get a (r + nr a / 2) (c + nc a / 2) else k0.
Proof. rewrite embed_force, embed_D2. unfold embedA. replace (r - 0 + nr a / 2) with (r + nr a / 2) by ring.
  replace (c - 0 + nc a / 2) with (c + nc a / 2) by ring. reflexivity. Qed.

Lemma smask_phasor (P : plane S) lam b n m : smask_plane P b n m ->
  exists p, plane_phasors P lam = Ok [p] /\ fsized p /\
    forall r c, embed p r c = smask_transmission P b lam n m r c.
Proof.
  intros (Em & Es & Ea & Hn & Hm & Hc). unfold plane_phasors. rewrite Em, Es. cbn [phasors_from]. unfold phasor.
  unfold attr_shape in Ea. unfold smask_transmission.
  destruct (pl_amp P) as [v|A] eqn:EA; destruct (pl_opd P) as [q|o] eqn:EO; try discriminate;
    injection Ea as En Emm; cbn [amp_data opd_data rbind dmul slice_offset dforce nr nc].
  - (* scalar amplitude, array opd *)
    eexists; split; [reflexivity|]. split; [unfold fsized; cbn [fd]; rewrite force_nr, force_nc; cbn [nr nc]; lia|].
    intros r c. rewrite full_embed. cbn [nr nc get amp_at opd_at]. subst n m. destr_if; [ring|reflexivity].
  - (* array amplitude, scalar opd *)
    eexists; split; [reflexivity|]. split; [unfold fsized; cbn [fd]; rewrite force_nr, force_nc; cbn [nr nc]; lia|].
    intros r c. rewrite full_embed. cbn [nr nc get amp_at opd_at]. subst n m. destr_if; [ring|reflexivity].
  - (* both arrays, of one shape *)
    destruct Hc as [C1 C2]. rewrite <- C1, <- C2, !Z.eqb_refl. cbn [andb rbind dmul slice_offset dforce nr nc].
    eexists; split; [reflexivity|]. split; [unfold fsized; cbn [fd]; rewrite force_nr, force_nc; cbn [nr nc]; lia|].
    intros r c. rewrite full_embed. cbn [nr nc get amp_at opd_at]. rewrite C1, C2. subst n m. destr_if; [ring|reflexivity].
Qed.

(* T07c for 0-d masks with array amplitude and/or OPD: the plane's shape is (), so the wavefront keeps its shape *)
Theorem plane_multiply_scalar_mask (P : plane S) (w : pwf S) b n m px : smask_plane P b n m ->
  (forall f, In f (pw_data w) -> fvalid f) -> mul_pixelscale (pl_pix P) (pw_pix w) = Ok px ->
  exists w', plane_multiply P w = Ok w' /\
    pw_lam w' = pw_lam w /\ pw_pix w' = px /\ pw_shape w' = pw_shape w /\
    pw_focal w' = (match pl_focal P with Some f => f | None => focal_truthy (pw_focal w) end) /\
    (forall f, In f (pw_data w') -> fsized f) /\
    forall r c, embed_sum (pw_data w') r c = (ec_sum (pw_data w) r c * smask_transmission P b (pw_lam w) n m r c)%K.
Proof.
  intros Hs Hf Hpx. destruct (smask_phasor P (pw_lam w) b n m Hs) as (p & Ep & Sp & Gp).
  unfold plane_multiply. rewrite Hpx. cbn [rbind].
  assert (Hshape : plane_shape (pl_mask P) = Sh0) by (destruct Hs as (-> & _); reflexivity). rewrite Hshape.
  destruct (pw_data w) as [|f0 fs] eqn:Ed.
  - cbn [rbind]. eexists; split; [reflexivity|]. cbn [pw_lam pw_pix pw_shape pw_focal pw_data].
    repeat split; try assumption; [intros f []|]. intros r c. unfold mul_fields. rewrite ec_sum_lsum. cbn [flat_map map].
    rewrite embed_sum_nil, lsum_nil. ring.
  - rewrite Ep. cbn [rbind]. eexists; split; [reflexivity|]. cbn [pw_lam pw_pix pw_shape pw_focal pw_data].
    assert (Hp : forall q, In q [p] -> fsized q) by (intros q [<-|[]]; exact Sp).
    repeat split; try assumption; [now apply mul_fields_sized|].
    intros r c. rewrite mul_fields_pointwise by assumption. rewrite ec_sum_lsum.
    replace (lsum (map (fun p0 => embed p0 r c) [p])) with (embed p r c) by (cbn [map]; rewrite lsum_cons; unfold FieldP.lsum; cbn; ring).
    now rewrite Gp.
Qed.

(* Plane.shape and Plane.size read off the stored mask: () and 1 for a 0-d mask, the array's shape and 1 for a 2-d
   mask, the trailing two dimensions and the number of layers for a cube *)
Theorem shape_size_spec (nz : S -> bool) amp :
  (forall a, plane_dims (init_mask nz amp (M2 a)) = Some (nr a, nc a) /\ psize (init_mask nz amp (M2 a)) = 1%nat) /\
  (forall n m l, plane_dims (init_mask nz amp (M3 n m l)) = Some (n, m) /\ psize (init_mask nz amp (M3 n m l)) = length l) /\
  (forall v, plane_dims (init_mask nz amp (MS v)) = None /\ psize (init_mask nz amp (MS v)) = 1%nat) /\
  (match amp with
   | AmpA A => plane_dims (init_mask nz amp MNone) = Some (nr A, nc A)
   | AmpS v => plane_dims (init_mask nz amp MNone) = None end) /\ psize (init_mask nz amp MNone) = 1%nat.
Proof.
  repeat split; try reflexivity; try (destruct amp; reflexivity).
  cbn [init_mask psize]. apply map_length.
Qed.
End PlaneSpec.

(* ================================================================== equal plane functions, equal views *)
Section Agree.
Variable S : Scalar.
Hypothesis Sring : is_ring S.

(* two collections of fields with the same sum of embeddings are indistinguishable through
   Wavefront.field and Wavefront.intensity, whatever their grouping into fields *)
Theorem views_agree (fs1 fs2 : list (field S)) n m : 0 < n -> 0 < m ->
  (forall f, In f fs1 -> fsized f /\ fbounded S f) -> (forall f, In f fs2 -> fsized f /\ fbounded S f) ->
  (forall r c, embed_sum fs1 r c = embed_sum fs2 r c) ->
  exists F1 F2 I1 I2, render fs1 n m = Ok F1 /\ render fs2 n m = Ok F2 /\
    intensity fs1 n m = Ok I1 /\ intensity fs2 n m = Ok I2 /\
    forall i j, 0 <= i < n -> 0 <= j < m -> get F1 i j = get F2 i j /\ get I1 i j = get I2 i j.
Proof.
  intros Hn Hm H1 H2 He.
  destruct (render_spec S Sring fs1 n m Hn Hm (fun f H => proj1 (H1 f H))) as (F1 & E1 & _ & _ & G1).
  destruct (render_spec S Sring fs2 n m Hn Hm (fun f H => proj1 (H2 f H))) as (F2 & E2 & _ & _ & G2).
  destruct (intensity_is_norm2_field S Sring fs1 n m Hn Hm H1) as (F1' & I1 & E1' & EI1 & _ & _ & _ & _ & GI1).
  destruct (intensity_is_norm2_field S Sring fs2 n m Hn Hm H2) as (F2' & I2 & E2' & EI2 & _ & _ & _ & _ & GI2).
  rewrite E1 in E1'. injection E1' as <-. rewrite E2 in E2'. injection E2' as <-.
  exists F1, F2, I1, I2. repeat split; try assumption.
  - rewrite G1, G2 by assumption. apply He.
  - rewrite GI1, GI2 by assumption. f_equal. rewrite G1, G2 by assumption. apply He.
Qed.
End Agree.
