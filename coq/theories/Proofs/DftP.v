(* The matrix triple product is the defining Fourier sum (C01), for every commutative ring with an
   additive kernel; sub-arrays with offsets transform like the zero-padded whole (C01/C02/C03). *)
From LV Require Import Model.Dft Proofs.ArrP.

Section DftP.
Variable S : Scalar.
Hypothesis Sring : is_ring S.
Hypothesis Skernel : kernel_laws S.
Variable sq : Qc -> S.
Add Ring Sr : Sring.

Lemma zq_add a b : zq (a + b) = (zq a + zq b)%Qc.
Proof. unfold zq, Qcplus. apply Qc_is_canon. cbn [this Q2Qc]. rewrite !Qred_correct.
  rewrite inject_Z_plus. reflexivity. Qed.

Theorem dft2_raw_defining_sum (f : arr S) ar ac M N shr shc offr offc u v :
  0 <= u < M -> 0 <= v < N ->
  get (dft2_raw f ar ac M N shr shc offr offc) u v
  = fourier_sum f ar ac offr offc (zq (u - M / 2) - shr)%Qc (zq (v - N / 2) - shc)%Qc.
Proof.
  intros Hu Hv. unfold dft2_raw, fourier_sum.
  rewrite force_get by (cbn [nr nc]; lia). cbn [get].
  transitivity (sumZ (nc f) (fun y => sumZ (nr f) (fun x =>
     (get f x y * ke (ar * zq (x - nr f / 2 + offr) * (zq (u - M / 2) - shr)
                      + ac * zq (y - nc f / 2 + offc) * (zq (v - N / 2) - shc))%Qc)%K))).
  - apply sumZ_ext. intros y Hy. rewrite force_get by (cbn [nr nc]; lia). cbn [get].
    rewrite <- (sumZ_scale_r S Sring). apply sumZ_ext. intros x Hx.
    rewrite (ke_add S Skernel). unfold phase. ring.
  - apply sumZ_exchange. exact Sring.
Qed.

Theorem dft2_defining_sum (f : arr S) ar ac M N shr shc offr offc unitary u v :
  0 <= u < M -> 0 <= v < N ->
  get (dft2 sq f ar ac M N shr shc offr offc unitary) u v
  = (fourier_sum f ar ac offr offc (zq (u - M / 2) - shr)%Qc (zq (v - N / 2) - shc)%Qc
     * unitary_scale sq unitary ar ac)%K.
Proof.
  intros Hu Hv. unfold dft2. destruct unitary; cbn [amap get unitary_scale].
  - now rewrite dft2_raw_defining_sum.
  - rewrite dft2_raw_defining_sum by assumption. ring.
Qed.

Lemma dft2_shape (f : arr S) ar ac M N shr shc offr offc unitary :
  nr (dft2 sq f ar ac M N shr shc offr offc unitary) = M /\ nc (dft2 sq f ar ac M N shr shc offr offc unitary) = N.
Proof. unfold dft2, dft2_raw. destruct unitary; cbn; auto. Qed.

(* linearity of the defining sum *)
Lemma fourier_sum_ext (f g : arr S) ar ac offr offc U V : nr f = nr g -> nc f = nc g ->
  (forall x y, 0 <= x < nr f -> 0 <= y < nc f -> get f x y = get g x y) ->
  fourier_sum f ar ac offr offc U V = fourier_sum g ar ac offr offc U V.
Proof. intros Hr Hc H. unfold fourier_sum. rewrite <- Hr, <- Hc.
  apply sumZ_ext; intros x Hx. apply sumZ_ext; intros y Hy. now rewrite H. Qed.
Lemma fourier_sum_add (f g : arr S) ar ac offr offc U V : nr f = nr g -> nc f = nc g ->
  fourier_sum (mkArr (nr f) (nc f) (fun x y => (get f x y + get g x y)%K)) ar ac offr offc U V
  = (fourier_sum f ar ac offr offc U V + fourier_sum g ar ac offr offc U V)%K.
Proof. intros Hr Hc. unfold fourier_sum. cbn [nr nc get]. rewrite <- Hr, <- Hc.
  rewrite <- sumZ_add by exact Sring. apply sumZ_ext; intros x Hx.
  rewrite <- sumZ_add by exact Sring. apply sumZ_ext; intros y Hy. ring. Qed.
Lemma fourier_sum_scale (f : arr S) (c : S) ar ac offr offc U V :
  fourier_sum (mkArr (nr f) (nc f) (fun x y => (c * get f x y)%K)) ar ac offr offc U V
  = (c * fourier_sum f ar ac offr offc U V)%K.
Proof. unfold fourier_sum. cbn [nr nc get].
  rewrite <- sumZ_scale_l by exact Sring. apply sumZ_ext; intros x Hx.
  rewrite <- sumZ_scale_l by exact Sring. apply sumZ_ext; intros y Hy. ring. Qed.

(* ---- the origin-at-floor(n/2) convention for sub-arrays ----
   A sub-array g[r0:r1, c0:c1] containing the support of g, transformed with the offset of the
   slice (helper.slice_offset) added to the array's own offset, gives the transform of g. *)
Definition slice_off (lo hi n : Z) : Z := lo + (hi - lo) / 2 - n / 2.

Theorem fourier_sum_subarray (g : arr S) r0 r1 c0 c1 ar ac offr offc U V :
  0 <= r0 -> r0 <= r1 -> r1 <= nr g -> 0 <= c0 -> c0 <= c1 -> c1 <= nc g ->
  (forall x y, 0 <= x < nr g -> 0 <= y < nc g -> ~ (r0 <= x < r1 /\ c0 <= y < c1) -> get g x y = k0) ->
  fourier_sum (aslice g r0 r1 c0 c1) ar ac (offr + slice_off r0 r1 (nr g)) (offc + slice_off c0 c1 (nc g)) U V
  = fourier_sum g ar ac offr offc U V.
Proof.
  intros H1 H2 H3 H4 H5 H6 Hz. unfold fourier_sum, aslice, slice_off. cbn [nr nc get].
  symmetry.
  rewrite (sumZ_support S Sring (nr g) r0 (r1 - r0)); try lia.
  - apply sumZ_ext; intros x Hx.
    rewrite (sumZ_support S Sring (nc g) c0 (c1 - c0)); try lia.
    + apply sumZ_ext; intros y Hy. f_equal; [f_equal; lia|]. f_equal. f_equal; f_equal; f_equal; f_equal; lia.
    + intros y Hy Hn. rewrite Hz by lia. ring.
  - intros x Hx Hn. apply (sumZ_zero_ext S Sring). intros y Hy. rewrite Hz by lia. ring.
Qed.

(* ---- a linear phase ramp in the input is a shift of the output (C04) ---- *)
Theorem fourier_sum_ramp (f : arr S) ar ac offr offc U V sr sc :
  fourier_sum (mkArr (nr f) (nc f) (fun x y =>
       (get f x y * ke (- (ar * zq (x - nr f / 2 + offr) * sr + ac * zq (y - nc f / 2 + offc) * sc))%Qc)%K))
     ar ac offr offc U V
  = fourier_sum f ar ac offr offc (U - sr)%Qc (V - sc)%Qc.
Proof.
  unfold fourier_sum. cbn [nr nc get].
  apply sumZ_ext; intros x Hx. apply sumZ_ext; intros y Hy.
  transitivity (get f x y * (ke (- (ar * zq (x - nr f / 2 + offr) * sr + ac * zq (y - nc f / 2 + offc) * sc))%Qc
                             * ke (ar * zq (x - nr f / 2 + offr) * U + ac * zq (y - nc f / 2 + offc) * V)%Qc))%K; [ring|].
  rewrite <- (ke_add S Skernel). f_equal. f_equal. ring.
Qed.

(* out=: same values as a fresh allocation, whatever the buffer held *)
Theorem dft2_out_transparent (dt : dtype) (buf1 buf2 : arr S) f ar ac M N shr shc offr offc unitary :
  nr buf1 = nr buf2 -> nc buf1 = nc buf2 ->
  dft2_out sq (Some (dt, buf1)) f ar ac M N shr shc offr offc unitary
  = dft2_out sq (Some (dt, buf2)) f ar ac M N shr shc offr offc unitary
  /\ (dt <> Float64 -> nr buf1 = M -> nc buf1 = N ->
      dft2_out sq (Some (dt, buf1)) f ar ac M N shr shc offr offc unitary
      = dft2_out sq None f ar ac M N shr shc offr offc unitary).
Proof.
  intros Hr Hc. unfold dft2_out. rewrite <- Hr, <- Hc. split; [reflexivity|].
  intros Hd HM HN. destruct dt; try congruence; rewrite HM, HN, !Z.eqb_refl; reflexivity.
Qed.
End DftP.
