(* WP-T: the definitions src_<f> of Gen/ExtentSrc.v are regenerated from the lentil SOURCE TEXT on every
   check (harness/gen_src.py).  This file proves, for every translated function and FOR ALL integer
   arguments, that the translated term equals the hand-written model the C06 (and C02/C03/C09/C20)
   theorems are about.  When the integer arithmetic of the source changes, the corresponding lemma below
   stops compiling - that is the obligation that is re-checked against what the code says now.

   The proof scripts are deliberately generic (unfold, destruct every [if], lia) so that harmless
   rewrites of the source (renamed locals, reordered assignments, a <= b written b >= a, max written as
   a conditional expression) still go through. *)
From LV Require Import Model.Extent Model.Field Model.Geometry Model.Fft Gen.ExtentSrc.

Ltac destr_prods :=
  repeat match goal with x : ?T |- _ => lazymatch eval hnf in T with prod _ _ => destruct x end end.
Ltac src_norm := cbv beta iota zeta delta [fst snd].
(* one spelling per comparison (a > b is b < a, a >= b is b <= a): fewer distinct conditions to destruct *)
Ltac cmp_norm := rewrite ?Z.gtb_ltb, ?Z.geb_leb.
Ltac split_eq :=
  repeat match goal with
         | |- (_, _) = (_, _) => f_equal
         | |- Some _ = Some _ => f_equal
         | |- Ok _ = Ok _ => f_equal
         end.
(* destruct the condition of an [if] that contains no other [if]: innermost first, so that no conditional is
   left behind inside a hypothesis where lia would treat it as an opaque term *)
Ltac destr_inner_if :=
  match goal with
  | |- context[if ?b then _ else _] =>
      lazymatch b with
      | context[if _ then _ else _] => fail
      | _ => destruct b eqn:?
      end
  end.
Ltac src_finish :=
  src_norm; cmp_norm; repeat (destr_inner_if; src_norm); split_eq; first [reflexivity | lia | exfalso; lia].

(* ------------------------------------------------------------------ lentil/extent.py *)
Lemma src_array_extent_ok : forall shape shift : Z * Z,
  src_array_extent shape shift = array_extent (fst shape) (snd shape) (fst shift) (snd shift).
Proof. intros; destr_prods; unfold src_array_extent, array_extent; src_finish. Qed.

(* a 0-d shape () is replaced by (1, 1) by the guard [len(shape) < 2] *)
Lemma src_array_extent_0d_ok : forall shift : Z * Z,
  src_array_extent_0d shift = array_extent 1 1 (fst shift) (snd shift).
Proof. intros; destr_prods; unfold src_array_extent_0d, array_extent; src_finish. Qed.

(* array_extent with a parent shape (not used by lentil itself, no definition in Model/Extent.v):
   the same box, translated by the parent's origin index floor(n/2) *)
Definition array_extent_parent (sr sc shr shc pr pc : Z) : extent :=
  let '(r0, r1, c0, c1) := array_extent sr sc shr shc in (r0 + pr / 2, r1 + pr / 2, c0 + pc / 2, c1 + pc / 2).
Lemma src_array_extent_parent_ok : forall shape shift parent : Z * Z,
  src_array_extent_parent shape shift parent =
  array_extent_parent (fst shape) (snd shape) (fst shift) (snd shift) (fst parent) (snd parent).
Proof. intros; destr_prods; unfold src_array_extent_parent, array_extent_parent, array_extent; src_finish. Qed.

Lemma src_array_center_ok : forall e : extent, src_array_center e = array_center e.
Proof. intros; destr_prods; unfold src_array_center, array_center; src_finish. Qed.

Lemma src_intersect_ok : forall a b : extent, src_intersect a b = intersect a b.
Proof. intros; destr_prods; unfold src_intersect, intersect; src_finish. Qed.

Lemma src_intersection_extent_ok : forall a b : extent, src_intersection_extent a b = intersection_extent a b.
Proof. intros; destr_prods; unfold src_intersection_extent, intersection_extent; src_finish. Qed.

Lemma src_intersection_shape_ok : forall a b : extent, src_intersection_shape a b = intersection_shape a b.
Proof. intros; destr_prods; unfold src_intersection_shape, intersection_shape, intersection_extent; src_finish. Qed.

Lemma src_intersection_slices_ok : forall a b : extent, src_intersection_slices a b = intersection_slices a b.
Proof. intros; destr_prods; unfold src_intersection_slices, intersection_slices, intersection_extent; src_finish. Qed.

Lemma src_intersection_shift_ok : forall a b : extent, src_intersection_shift a b = intersection_shift a b.
Proof. intros; destr_prods; unfold src_intersection_shift, intersection_shift, intersection_extent; src_finish. Qed.

(* ------------------------------------------------------------------ lentil/field.py *)
Lemma fold_left_map_gen {A B C} (f : A -> B -> A) (g : C -> B) (l : list C) (a : A) :
  fold_left f (map g l) a = fold_left (fun a x => f a (g x)) l a.
Proof. revert a; induction l; intros; simpl; auto. Qed.

(* one iteration of the loop of boundary() on the extent of a field = the model's [bstep] *)
Lemma src_field_boundary_step_ok : forall (S : Scalar) (acc : extent) (f : field S),
  src_field_boundary_step acc (fextent f) = bstep acc f.
Proof.
  intros. unfold bstep. destruct (fextent f) as [[[frmin frmax] fcmin] fcmax].
  destr_prods; unfold src_field_boundary_step; src_finish.
Qed.

(* boundary(fields), as a function of [f.extent for f in fields] (sys.maxsize is the interpreter's value) *)
Lemma src_field_boundary_ok : forall (S : Scalar) (fs : list (field S)),
  src_field_boundary (map fextent fs) = boundary fs.
Proof.
  intros. unfold src_field_boundary, boundary. rewrite fold_left_map_gen.
  assert (E : forall i, fold_left (fun a x => src_field_boundary_step a (fextent x)) fs i = fold_left bstep fs i).
  { induction fs; intros; simpl; [reflexivity|]. rewrite src_field_boundary_step_ok. apply IHfs. }
  rewrite E. change (9223372036854775807, -9223372036854775807, 9223372036854775807, -9223372036854775807)
    with (maxsize, - maxsize, maxsize, - maxsize).
  destruct (fold_left bstep fs _) as [[[r0 r1] c0] c1]. src_finish.
Qed.

(* the integer part of _merge_offset / _merge_shape, as the model's [merge] uses it *)
Definition merge_offset_model (b : extent) : Z * Z :=
  let '(rmin, rmax, cmin, cmax) := b in (rmin + (rmax - rmin + 1) / 2, cmin + (cmax - cmin + 1) / 2).
Definition merge_shape_model (b : extent) (scalars : bool) : option (Z * Z) :=
  let '(rmin, rmax, cmin, cmax) := b in if scalars then None else Some (rmax - rmin + 1, cmax - cmin + 1).

Lemma src_merge_offset_model : forall b : extent, src_merge_offset b = merge_offset_model b.
Proof. intros; destr_prods; unfold src_merge_offset, merge_offset_model; src_finish. Qed.
Lemma src_merge_shape_model : forall (b : extent) (s : bool), src_merge_shape b s = merge_shape_model b s.
Proof. intros; destr_prods; unfold src_merge_shape, merge_shape_model; src_finish. Qed.

Lemma merge_offset_model_ok : forall (S : Scalar) (fs : list (field S)),
  merge_offset_model (boundary fs) = (offr (merge fs), offc (merge fs)).
Proof.
  intros. unfold merge, merge_offset_model. destruct (boundary fs) as [[[rmin rmax] cmin] cmax].
  destruct (merge_scalars fs); reflexivity.
Qed.
Lemma merge_shape_model_ok : forall (S : Scalar) (fs : list (field S)),
  merge_shape_model (boundary fs) (merge_scalars fs) =
  match fd (merge fs) with D0 _ => None | D2 a => Some (nr a, nc a) end.
Proof.
  intros. unfold merge, merge_shape_model. destruct (boundary fs) as [[[rmin rmax] cmin] cmax].
  destruct (merge_scalars fs); reflexivity.
Qed.

Lemma src_merge_offset_ok : forall (S : Scalar) (fs : list (field S)),
  src_merge_offset (boundary fs) = (offr (merge fs), offc (merge fs)).
Proof. intros. rewrite src_merge_offset_model. apply merge_offset_model_ok. Qed.
Lemma src_merge_shape_ok : forall (S : Scalar) (fs : list (field S)),
  src_merge_shape (boundary fs) (merge_scalars fs) =
  match fd (merge fs) with D0 _ => None | D2 a => Some (nr a, nc a) end.
Proof. intros. rewrite src_merge_shape_model. apply merge_shape_model_ok. Qed.

(* the clipping block of insert(): exactly the per-axis [reconcile] the model's [insert] is written with *)
Definition insert_clip_model (fshape foffset oshape : Z * Z) : option (((Z * Z) * (Z * Z)) * ((Z * Z) * (Z * Z))) :=
  let cr := reconcile (fst oshape) (fst fshape) (fst oshape / 2 - fst fshape / 2 + fst foffset) in
  let cc := reconcile (snd oshape) (snd fshape) (snd oshape / 2 - snd fshape / 2 + snd foffset) in
  if negb (clip_nonempty cr) || negb (clip_nonempty cc) then None
  else Some (((o_lo cr, o_hi cr), (o_lo cc, o_hi cc)), ((f_lo cr, f_hi cr), (f_lo cc, f_hi cc))).

Lemma src_insert_clip_ok : forall fshape foffset oshape : Z * Z,
  src_insert_clip fshape foffset oshape = insert_clip_model fshape foffset oshape.
Proof.
  intros; destr_prods. unfold src_insert_clip, insert_clip_model, reconcile, clip_nonempty. src_norm.
  repeat match goal with |- context[?a / 2] => let q := fresh "q" in set (q := a / 2); clearbody q end.
  cmp_norm. repeat (destr_inner_if; cbv beta iota zeta delta [fst snd o_lo o_hi f_lo f_hi]);
    split_eq; first [reflexivity | lia | exfalso; lia].
Qed.

(* [insert] really is written with these clips: the windows it adds into are the ones of the model *)
Lemma insert_uses_clip_model : forall (S : Scalar) (g : S -> S) (f : field S) (d out : arr S) (w : S),
  fd f = D2 d ->
  (nr d =? nr out) && (nc d =? nc out) && (offr f =? 0) && (offc f =? 0) = false ->
  insert_clip_model (nr d, nc d) (offr f, offc f) (nr out, nc out) = None -> insert g f out w = Ok out.
Proof.
  intros S g f d out w Hd Hs. unfold insert, insert_clip_model. rewrite Hd, Hs. cbv beta iota zeta delta [fst snd].
  destruct (negb _ || negb _); [reflexivity | discriminate].
Qed.

(* ------------------------------------------------------------------ lentil/helper.py *)
Lemma src_slice_offset_ok : forall (r0 r1 c0 c1 n m : Z),
  src_slice_offset ((r0, r1), (c0, c1)) (n, m) = slice_offset (SlBox r0 r1 c0 c1) n m.
Proof. intros; unfold src_slice_offset, slice_offset; src_finish. Qed.

Lemma src_boundary_slice_ok : forall (n m pr pc : Z) (b : extent),
  src_boundary_slice (n, m) (pr, pc) b =
  let '(r0, r1, c0, c1) := bslice_of n m pr pc b in ((r0, r1), (c0, c1)).
Proof. intros; destr_prods; unfold src_boundary_slice, bslice_of; src_finish. Qed.

(* ------------------------------------------------------------------ lentil/util.py *)
Lemma src_pad_bounds_ok : forall n m N M : Z,
  src_pad_bounds (n, m) (N, M) =
  (pad_src_lo n N, pad_src_hi n N, pad_dst_lo n N, pad_dst_hi n N,
   pad_src_lo m M, pad_src_hi m M, pad_dst_lo m M, pad_dst_hi m M).
Proof.
  intros; unfold src_pad_bounds, pad_src_lo, pad_src_hi, pad_dst_lo, pad_dst_hi; src_finish.
Qed.

(* the same bounds are the ones of Model/Fft.v (C09/C20 use that copy) *)
Lemma src_pad_bounds_fft_ok : forall n m N M : Z,
  src_pad_bounds (n, m) (N, M) =
  (s_lo (pad_axis n N), s_hi (pad_axis n N), t_lo (pad_axis n N), t_hi (pad_axis n N),
   s_lo (pad_axis m M), s_hi (pad_axis m M), t_lo (pad_axis m M), t_hi (pad_axis m M)).
Proof.
  intros; rewrite src_pad_bounds_ok; unfold pad_src_lo, pad_src_hi, pad_dst_lo, pad_dst_hi, pad_axis; src_norm; cmp_norm.
  repeat (destr_inner_if; cbv beta iota zeta delta [fst snd s_lo s_hi t_lo t_hi]);
    split_eq; first [reflexivity | lia | exfalso; lia].
Qed.

(* a cube of shape (d, n, m): the bounds are computed from the last two axes *)
Lemma src_pad_bounds_3d_ok : forall d n m N M : Z,
  src_pad_bounds_3d (d, n, m) (N, M) =
  (pad_src_lo n N, pad_src_hi n N, pad_dst_lo n N, pad_dst_hi n N,
   pad_src_lo m M, pad_src_hi m M, pad_dst_lo m M, pad_dst_hi m M).
Proof.
  intros; unfold src_pad_bounds_3d, pad_src_lo, pad_src_hi, pad_dst_lo, pad_dst_hi; src_finish.
Qed.

Definition subarray_bounds_model (n m sr sc shr shc : Z) : result (Z * Z * Z * Z) :=
  let rmin := sub_lo n sr shr in
  let cmin := sub_lo m sc shc in
  if (rmin <? 0) || (cmin <? 0) || (rmin + sr >? n) || (cmin + sc >? m) then Err ValueError
  else Ok (rmin, rmin + sr, cmin, cmin + sc).

Lemma src_subarray_bounds_model : forall n m sr sc shr shc : Z,
  src_subarray_bounds (n, m) (sr, sc) (shr, shc) = subarray_bounds_model n m sr sc shr shc.
Proof. intros; unfold src_subarray_bounds, subarray_bounds_model, sub_lo; src_finish. Qed.

Lemma subarray_bounds_model_ok : forall (S : Scalar) (a : arr S) (sr sc shr shc : Z),
  subarray a sr sc shr shc =
  match subarray_bounds_model (nr a) (nc a) sr sc shr shc with
  | Ok (r0, r1, c0, c1) => Ok (aslice a r0 r1 c0 c1)
  | Err e => Err e
  end.
Proof. intros. unfold subarray, subarray_bounds_model. cbv zeta. destruct (_ || _); reflexivity. Qed.

Lemma src_subarray_bounds_ok : forall (S : Scalar) (a : arr S) (sr sc shr shc : Z),
  subarray a sr sc shr shc =
  match src_subarray_bounds (nr a, nc a) (sr, sc) (shr, shc) with
  | Ok (r0, r1, c0, c1) => Ok (aslice a r0 r1 c0 c1)
  | Err e => Err e
  end.
Proof. intros. rewrite src_subarray_bounds_model. apply subarray_bounds_model_ok. Qed.
