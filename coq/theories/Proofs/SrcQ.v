(* Rational arithmetic facts shared by the source-translation layers that translate true divisions of integers
   exactly (harness/gen_src.py, spec flag `rationals`): np.ceil of a quotient of integers with a positive
   denominator is [- ((- a) / d)], np.floor is [a / d]; [zq] is the injection of the integers into Qc
   (every model defines its own copy, all convertible to [Q2Qc (inject_Z z)]). *)
From LV Require Import Model.Rescale Proofs.RescaleP.
Open Scope Qc_scope.

Lemma zq_pos (d : Z) : (0 < d)%Z -> Q2Qc 0 < zq d.
Proof. intros H. rewrite <- zq_0. apply zq_lt. exact H. Qed.

Lemma Qclt_mul_reg_r (x y z : Qc) : Q2Qc 0 < z -> x * z < y * z -> x < y.
Proof.
  intros Hz H. apply Qcnot_le_lt. intros Hle. apply (Qclt_not_le _ _ H).
  apply Qcmult_le_compat_r; [exact Hle | apply Qclt_le_weak; exact Hz].
Qed.

Lemma qceil_frac (a d : Z) : (0 < d)%Z -> qceil (zq a / zq d) = (- ((- a) / d))%Z.
Proof.
  intros Hd. set (c := (- ((- a) / d))%Z).
  assert (Hc : (a <= c * d < a + d)%Z).
  { subst c. pose proof (Z.mul_div_le (- a) d Hd). pose proof (Z.mul_succ_div_gt (- a) d Hd). lia. }
  pose proof (zq_pos d Hd) as Hzd.
  assert (Hne : zq d <> Q2Qc 0) by (apply zq_neq0; lia).
  apply qceil_unique.
  - apply Qcmult_lt_0_le_reg_r with (z := zq d); [exact Hzd|].
    replace (zq a / zq d * zq d) with (zq a) by (field; exact Hne).
    rewrite <- zq_mul. apply zq_le. lia.
  - apply Qclt_mul_reg_r with (z := zq d); [exact Hzd|].
    replace ((zq a / zq d + 1) * zq d) with (zq a + zq d) by (field; exact Hne).
    rewrite <- zq_mul, <- zq_add. apply zq_lt. lia.
Qed.

Lemma qfloor_frac (a d : Z) : (0 < d)%Z -> qfloor (zq a / zq d) = (a / d)%Z.
Proof.
  intros Hd. pose proof (zq_pos d Hd) as Hzd.
  assert (Hne : zq d <> Q2Qc 0) by (apply zq_neq0; lia).
  pose proof (Z.mul_div_le a d Hd). pose proof (Z.mul_succ_div_gt a d Hd).
  apply qfloor_unique.
  - apply Qcmult_lt_0_le_reg_r with (z := zq d); [exact Hzd|].
    replace (zq a / zq d * zq d) with (zq a) by (field; exact Hne).
    rewrite <- zq_mul. apply zq_le. lia.
  - apply Qclt_mul_reg_r with (z := zq d); [exact Hzd|].
    replace (zq a / zq d * zq d) with (zq a) by (field; exact Hne).
    rewrite <- zq_mul. apply zq_lt. lia.
Qed.

(* n * (p/q) as one quotient *)
Lemma zq_mul_frac (n p q : Z) : (0 < q)%Z -> zq n * (zq p / zq q) = zq (n * p) / zq q.
Proof. intros H. rewrite zq_mul. field. apply zq_neq0. lia. Qed.

(* two quotients of integers are equal when they cross-multiply (whatever numerator/denominator the source's
   spelling of the arithmetic produces) *)
Lemma zq_frac_eq (a b a' b' : Z) : b <> 0%Z -> b' <> 0%Z -> (a * b' = a' * b)%Z -> zq a / zq b = zq a' / zq b'.
Proof.
  intros Hb Hb' H. assert (zq b <> Q2Qc 0) by (apply zq_neq0; exact Hb).
  assert (zq b' <> Q2Qc 0) by (apply zq_neq0; exact Hb').
  apply (f_equal zq) in H. rewrite !zq_mul in H.
  transitivity (zq a * zq b' / (zq b * zq b')); [field; split; assumption|].
  rewrite H. field. split; assumption.
Qed.

(* equality of two quotients of integers with positive denominators is cross-multiplied equality *)
Lemma Qc_eq_bool_frac (a b c d : Z) : (0 < b)%Z -> (0 < d)%Z ->
  Qc_eq_bool (zq a / zq b) (zq c / zq d) = (a * d =? c * b)%Z.
Proof.
  intros Hb Hd. assert (Nb : zq b <> Q2Qc 0) by (apply zq_neq0; lia).
  assert (Nd : zq d <> Q2Qc 0) by (apply zq_neq0; lia).
  destruct (a * d =? c * b)%Z eqn:E.
  - apply Z.eqb_eq in E. rewrite (zq_frac_eq a b c d) by (try lia; exact E).
    unfold Qc_eq_bool. destruct (Qc_eq_dec _ _); congruence.
  - apply Z.eqb_neq in E. unfold Qc_eq_bool. destruct (Qc_eq_dec _ _) as [H|H]; [|reflexivity].
    exfalso. apply E. apply zq_inj. rewrite !zq_mul.
    transitivity (zq a / zq b * (zq b * zq d)); [field; exact Nb|].
    rewrite H. field. exact Nd.
Qed.
