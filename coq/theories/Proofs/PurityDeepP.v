(* C10 deepen: refusal paths (which calls raise, and that a refused call changes nothing), identity of result
   objects, independence of planes documented as new.  Continues Proofs/PurityP.v. *)
From LV Require Import Lib.Base Model.Purity Proofs.PurityP.

Section Deep.
Variable K : kernels.

Ltac unfold_all :=
  unfold do_plane, do_fit_tilt, do_rescale, do_mul, do_prop_dft, do_prop_fft, do_insert, do_wfield, do_dft2, do_spec_edit,
         arr_or_scalar, dcopy, ret, fail, alloc1, alloc_list, push_obj, set_obj, wr, getarr, getobj, scalar, valof, argvals,
         with_hp, with_ob, with_env, with_cache, with_rng, mul_fields, prop_vals;
  cbn [hp ob env cache rng fst snd o_status o_writes o_owrites o_res].
Ltac dmatch :=
  match goal with |- context [match ?x with _ => _ end] =>
    lazymatch x with context [match _ with _ => _ end] => fail | _ => destruct x eqn:? end end.

(* phase 2: a refused call leaves heap, objects and generator as they were and returns nothing *)
Lemma main_refused h obs e c g o cvs :
  o_status (snd (main K (mkstate h obs e c g) o cvs)) <> 0 ->
  fst (main K (mkstate h obs e c g) o cvs) = mkstate h obs (e ++ [VNone]) c g /\
  o_res (snd (main K (mkstate h obs e c g) o cvs)) = VNone /\
  o_owrites (snd (main K (mkstate h obs e c g) o cvs)) = [].
Proof.
  destruct o; cbn [main]; unfold_all;
  repeat (dmatch; cbn [hp ob env cache rng fst snd option_map o_status o_writes o_owrites o_res]);
  intros H; try (exfalso; apply H; reflexivity); repeat split; reflexivity.
Qed.

Ltac rw := repeat match goal with H : ?x = _ |- context [?x] => rewrite H end.
Ltac leaf := cbn [hp ob env cache rng fst snd option_map o_status o_writes o_owrites o_res].

(* phase 2: the read-only refusal comes from exactly one attempted assignment, into a documented target that is read-only *)
Lemma main_readonly h obs e c g o cvs :
  o_status (snd (main K (mkstate h obs e c g) o cvs)) = 1 ->
  exists a, o_writes (snd (main K (mkstate h obs e c g) o cvs)) = [a] /\
            In a (documented (mkstate h obs e c g) o) /\ frozen_at (mkstate h obs e c g) a = true.
Proof.
  destruct o; cbn [main documented]; unfold frozen_at, hget; unfold_all;
  repeat (dmatch; leaf); intros H; try discriminate H;
  (eexists; split; [reflexivity|]; split; [cbn; auto|unfold hget in *; rw; auto]).
Qed.

Lemma main_notimpl h obs e c g o cvs :
  o_status (snd (main K (mkstate h obs e c g) o cvs)) = 4 ->
  exists w scr jw fs, o = OPropFft w scr /\ getobj (mkstate h obs e c g) w = Some (jw, Wave fs) /\ has_tilt fs = true.
Proof.
  destruct o; cbn [main]; unfold_all;
  repeat (dmatch; leaf); intros H; try discriminate H;
  (do 4 eexists; split; [reflexivity|]; split; [cbn; rw; reflexivity|auto]).
Qed.

(* phase 2: an object result is a new object, except where the call is specified to return its argument *)
Lemma main_res_object h obs e c g o cvs j :
  o_res (snd (main K (mkstate h obs e c g) o cvs)) = VObj j ->
  j = length obs \/ returns_self (mkstate h obs e c g) o = Some j.
Proof.
  destruct o; cbn [main returns_self]; unfold_all;
  repeat (dmatch; leaf); intros H; try discriminate H; injection H as <-;
  try (left; rewrite ?app_length; cbn; reflexivity); try (right; cbn; rw; reflexivity).
Qed.

Lemma nth_error_app_len {A} (l : list A) x : nth_error (l ++ [x]) (length l) = Some x.
Proof. rewrite nth_error_app2 by lia. rewrite Nat.sub_diag. reflexivity. Qed.
Lemma nth_error_lset_app_len {A} (l : list A) x y : nth_error (lset (l ++ [x]) (length l) y) (length l) = Some y.
Proof. apply nth_lset_same. rewrite app_length; cbn; lia. Qed.

(* phase 2: copy / rescale / fit_tilt(inplace=False) hand back a new object made of new buffers only *)
Lemma main_new_plane h obs e c g o cvs :
  makes_new_plane (mkstate h obs e c g) o = true ->
  o_status (snd (main K (mkstate h obs e c g) o cvs)) = 0 ->
  o_res (snd (main K (mkstate h obs e c g) o cvs)) = VObj (length obs) /\
  forall i, In i (res_slots (fst (main K (mkstate h obs e c g) o cvs)) (VObj (length obs))) -> (length h <= i)%nat.
Proof.
  destruct o; cbn [main makes_new_plane]; try discriminate; unfold res_slots; unfold_all;
  repeat (rewrite ?nth_error_lset_app_len, ?nth_error_app_len; dmatch; leaf); intros M H; try discriminate M; try discriminate H;
  (split; [reflexivity|]);
  rewrite ?nth_error_lset_app_len, ?nth_error_app_len; cbn [oslots In];
  intros i Hi; repeat (destruct Hi as [<-|Hi]); try contradiction; rewrite ?app_length; cbn [length]; lia.
Qed.

(* phase 2: a result is made of new buffers and of the caller buffers listed by [may_alias] only *)
Lemma in_seq_combine_l {B} (l : list B) a n i x : In (i, x) (combine (seq a n) l) -> (a <= i)%nat.
Proof. intros H. apply in_combine_l in H. apply in_seq in H. lia. Qed.

Definition RA (h : heap) (obs : list obj) (e : list value) (c : list (key * cent)) (g : Z) (o : op) cvs : Prop :=
  forall i, In i (res_slots (fst (main K (mkstate h obs e c g) o cvs)) (o_res (snd (main K (mkstate h obs e c g) o cvs)))) ->
  In i (may_alias (mkstate h obs e c g) o) \/ (length h <= i)%nat.

Lemma alias_mul h obs e c g p w cvs : RA h obs e c g (OMul p w) cvs.
Proof.
  unfold RA. cbn [main may_alias]. unfold do_mul.
  destruct (getobj _ p) as [[jp [a d m tl nseg kind| |]]|]; try (cbn; intros i []; fail).
  destruct (getobj _ w) as [[jw [| fs |]]|]; try (cbn; intros i []; fail).
  unfold alloc_list, push_obj, ret, res_slots. cbn [hp ob env cache rng fst snd o_res with_hp with_ob with_env].
  rewrite nth_error_app_len. cbn [oslots]. intros i Hi. right. rewrite map_map in Hi. cbn in Hi.
  apply in_map_iff in Hi as ((x & y) & <- & Hx). cbn. eapply in_seq_combine_l; eauto.
Qed.
Lemma alias_prop h obs e c g w z ks cvs : RA h obs e c g (OPropDft w z ks) cvs.
Proof.
  unfold RA. cbn [main may_alias]. unfold do_prop_dft.
  destruct (getobj _ w) as [[jw [| fs |]]|]; try (cbn; intros i []; fail).
  unfold alloc_list, push_obj, ret, res_slots. cbn [hp ob env cache rng fst snd o_res with_hp with_ob with_env].
  rewrite nth_error_app_len. cbn [oslots]. intros i Hi. right. rewrite map_map in Hi. cbn in Hi. rewrite map_id in Hi.
  apply in_seq in Hi. lia.
Qed.
Lemma alias_multilt h obs e c g w t cvs : RA h obs e c g (OMulTilt w t) cvs.
Proof.
  unfold RA. cbn [main may_alias].
  destruct (getobj _ w) as [[jw [| fs |]]|]; try (cbn; intros i []; fail).
  unfold alloc_list, push_obj, ret, res_slots. cbn [hp ob env cache rng fst snd o_res with_hp with_ob with_env].
  rewrite nth_error_app_len. cbn [oslots]. intros i Hi. right. rewrite map_map in Hi. cbn in Hi.
  apply in_map_iff in Hi as ((x & y) & <- & Hx). cbn. eapply in_seq_combine_l; eauto.
Qed.

Lemma main_res_alias h obs e c g o cvs : RA h obs e c g o cvs.
Proof.
  destruct o; try apply alias_mul; try apply alias_prop; try apply alias_multilt;
  unfold RA; cbn [main may_alias]; unfold res_slots; unfold_all;
    repeat (rewrite ?nth_error_lset_app_len, ?nth_error_app_len; dmatch; leaf);
    rewrite ?nth_error_lset_app_len, ?nth_error_app_len;
    repeat match goal with
           | H : nth_error (lset ?l ?j ?x) ?j = _, H2 : nth_error ?l ?j = Some _ |- _ =>
               rewrite nth_lset_same in H by (apply nth_error_Some; congruence)
           end;
    repeat match goal with H : Some _ = Some _ |- _ => injection H as <- | H : Some _ = None |- _ => discriminate H
                      | H : None = Some _ |- _ => discriminate H end;
    cbn [oslots In app map f_data]; intros i Hi; repeat (destruct Hi as [<-|Hi]); try contradiction;
    rewrite ?app_length, ?lset_length; cbn [length f_data]; try (right; lia); try (left; cbn; rw; cbn; auto; fail).
Qed.

(* ---- the same at the level of whole calls (cache phase included) ---- *)
Lemma cache_phase_public s o : same_public s (fst (cache_phase s o)).
Proof.
  assert (forall s k, same_public s (fst (cache_get s k))) as G1.
  { intros s0 k. unfold cache_get. destruct (clookup k (cache s0)) as [[[[a b] c] d]|]; [constructor; cbn; auto; exists []; rewrite app_nil_r; auto|].
    destruct (coords k) as [[[cR cS] cU] cV]. constructor; cbn; auto. eexists; eauto. }
  assert (forall ks s, same_public s (fst (cache_get_list s ks))) as G2.
  { induction ks as [|k r IH]; intros s0; cbn; [apply same_public_refl|].
    pose proof (G1 s0 k) as S1. destruct (cache_get s0 k) as [s1 c]. cbn [fst] in *. specialize (IH s1).
    destruct (cache_get_list s1 r) as [s2 cs]. cbn [fst] in *. eapply same_public_trans; eauto. }
  destruct o; cbn [cache_phase]; try apply same_public_refl; auto.
  destruct (getobj s w) as [[j [| fs |]]|]; try apply same_public_refl. apply G2.
Qed.

Lemma step_refused s o :
  o_status (snd (step K s o)) <> 0 ->
  ob (fst (step K s o)) = ob s /\
  (forall i, (i < length (hp s))%nat -> hget (hp (fst (step K s o))) i = hget (hp s) i) /\
  rng (fst (step K s o)) = rng s /\
  env (fst (step K s o)) = env s ++ [VNone] /\
  o_res (snd (step K s o)) = VNone /\ o_owrites (snd (step K s o)) = [].
Proof.
  unfold step. pose proof (cache_phase_public s o) as SP. destruct (cache_phase s o) as [s1 cvs]. cbn [fst] in SP.
  destruct s1 as [h obs e c g]. intros H. destruct (main_refused h obs e c g o cvs H) as (E1 & E2 & E3).
  rewrite E1, E2, E3. cbn. destruct SP as [[l Hl] Ho He Hr]. cbn in Hl, Ho, He, Hr.
  repeat split; auto; try congruence. intros i Hi. rewrite Hl. unfold hget. apply nth_app_old; auto.
Qed.

Lemma step_readonly s o :
  inv s -> o_status (snd (step K s o)) = 1 ->
  exists a, o_writes (snd (step K s o)) = [a] /\ In a (documented s o) /\ frozen_at s a = true.
Proof.
  intros I. unfold step. pose proof (cache_phase_public s o) as SP. destruct (cache_phase s o) as [s1 cvs]. cbn [fst] in SP.
  intros H. pose proof (same_public_documented _ _ o SP) as Ed. destruct s1 as [h obs e c g].
  destruct (main_readonly h obs e c g o cvs H) as (a & W & D & F). exists a. rewrite Ed in D. repeat split; auto.
  unfold frozen_at in *. rewrite <- (same_public_hget _ _ a SP); auto.
  apply (proj1 I). eapply documented_visible; eauto.
Qed.

Lemma step_notimpl s o :
  o_status (snd (step K s o)) = 4 ->
  exists w scr jw fs, o = OPropFft w scr /\ getobj s w = Some (jw, Wave fs) /\ has_tilt fs = true.
Proof.
  unfold step. pose proof (cache_phase_public s o) as SP. destruct (cache_phase s o) as [s1 cvs]. cbn [fst] in SP.
  intros H. destruct s1 as [h obs e c g]. destruct (main_notimpl h obs e c g o cvs H) as (w & scr & jw & fs & E & G & T).
  exists w, scr, jw, fs. rewrite (same_public_getobj _ _ w SP) in G. auto.
Qed.

Lemma same_public_returns_self s s' o : same_public s s' -> returns_self s' o = returns_self s o.
Proof. intros SP. destruct o; cbn; auto. rewrite (same_public_getobj _ _ _ SP). auto. Qed.
Lemma same_public_makes_new s s' o : same_public s s' -> makes_new_plane s' o = makes_new_plane s o.
Proof. intros SP. destruct o; cbn; auto. rewrite (same_public_getobj _ _ _ SP). auto. Qed.

Lemma step_res_object s o j :
  o_res (snd (step K s o)) = VObj j -> j = length (ob s) \/ returns_self s o = Some j.
Proof.
  unfold step. pose proof (cache_phase_public s o) as SP. destruct (cache_phase s o) as [s1 cvs]. cbn [fst] in SP.
  intros H. pose proof (same_public_returns_self _ _ o SP) as Er. destruct s1 as [h obs e c g].
  destruct (main_res_object h obs e c g o cvs j H) as [E|E]; [left|right; congruence].
  destruct SP as [_ Ho _ _]. cbn in Ho. congruence.
Qed.

Lemma step_new_plane s o :
  makes_new_plane s o = true -> o_status (snd (step K s o)) = 0 ->
  o_res (snd (step K s o)) = VObj (length (ob s)) /\
  forall i, In i (res_slots (fst (step K s o)) (VObj (length (ob s)))) -> (length (hp s) <= i)%nat.
Proof.
  unfold step. pose proof (cache_phase_public s o) as SP. destruct (cache_phase s o) as [s1 cvs]. cbn [fst] in SP.
  intros M H. rewrite <- (same_public_makes_new _ _ o SP) in M. destruct s1 as [h obs e c g].
  destruct (main_new_plane h obs e c g o cvs M H) as (R & S). destruct SP as [[l Hl] Ho _ _]. cbn in *. subst obs.
  split; auto. intros i Hi. specialize (S i Hi). rewrite Hl, app_length in S. lia.
Qed.

Lemma same_public_may_alias s s' o : same_public s s' -> may_alias s' o = may_alias s o.
Proof.
  intros SP. destruct o; cbn; auto; rewrite ?(same_public_getarr _ _ _ SP), ?(same_public_getobj _ _ _ SP); auto.
  all: destruct amp || destruct out || idtac; try destruct opd; rewrite ?(same_public_getarr _ _ _ SP); auto.
Qed.

Lemma step_res_alias s o i :
  In i (res_slots (fst (step K s o)) (o_res (snd (step K s o)))) -> In i (may_alias s o) \/ (length (hp s) <= i)%nat.
Proof.
  unfold step. pose proof (cache_phase_public s o) as SP. destruct (cache_phase s o) as [s1 cvs]. cbn [fst] in SP.
  intros H. pose proof (same_public_may_alias _ _ o SP) as Ea. destruct s1 as [h obs e c g].
  destruct (main_res_alias h obs e c g o cvs i H) as [A|A]; [left; congruence|right].
  destruct SP as [[l Hl] _ _ _]. cbn in Hl. rewrite Hl, app_length in A. lia.
Qed.

End Deep.
