(* Lemmas about Model/Shapes.v: ring/order algebra of the drawn shapes (any ordered commutative
   ring with any square-root function), the hexagonal lattice of hex_segments (integers). *)
From LV Require Import Model.Shapes.

(* what the theorems need of the comparison: a total order compatible with addition *)
Record ord_laws (S : Scalar) (leb : S -> S -> bool) : Prop := {
  leb_refl : forall a, leb a a = true;
  leb_trans : forall a b c, leb a b = true -> leb b c = true -> leb a c = true;
  leb_antisym : forall a b, leb a b = true -> leb b a = true -> a = b;
  leb_total : forall a b, leb a b = true \/ leb b a = true;
  leb_add : forall a b c, leb a b = true -> leb (a + c)%K (b + c)%K = true;
  leb_01 : leb (@k0 S) k1 = true
}.
(* the injection of the integers respects + and - *)
Record zinj_laws (S : Scalar) : Prop := {
  kofz_add : forall a b : Z, @kofz S (a + b) = (kofz a + kofz b)%K;
  kofz_opp : forall a : Z, @kofz S (- a) = (- kofz a)%K
}.

Section ShapesP.
Variable S : Scalar.
Variable leb : S -> S -> bool.
Variable sq : S -> S.
Hypothesis Sring : is_ring S.
Hypothesis Hord : ord_laws S leb.
Hypothesis Hz : zinj_laws S.
Add Ring Sr : Sring.
(* every lemma of the section takes the same six section variables, used or not *)
#[local] Set Default Proof Using "S leb sq Sring Hord Hz".

Let refl := leb_refl S leb Hord.
Let trans := leb_trans S leb Hord.
Let antisym := leb_antisym S leb Hord.
Let total := leb_total S leb Hord.
Let l01 := leb_01 S leb Hord.

Definition in01 (v : S) : Prop := leb k0 v = true /\ leb v k1 = true.
Definition is01 (v : S) : Prop := v = k0 \/ v = k1.

Lemma in01_0 : in01 k0. Proof. split; [apply refl | apply l01]. Qed.
Lemma in01_1 : in01 k1. Proof. split; [apply l01 | apply refl]. Qed.
Lemma is01_in01 v : is01 v -> in01 v.
Proof. intros [->| ->]; [apply in01_0 | apply in01_1]. Qed.

Lemma clip_in01 x : in01 (clip leb x k0 k1).
Proof.
  unfold clip, kmin, kmax, in01.
  destruct (leb x k0) eqn:E1.
  - rewrite l01. split; [apply refl | apply l01].
  - assert (H0 : leb k0 x = true) by (destruct (total x k0) as [H|H]; congruence).
    destruct (leb x k1) eqn:E2; split; try assumption; try apply l01; apply refl.
Qed.

Lemma kmin_in01 a b : in01 a -> in01 b -> in01 (kmin leb a b).
Proof. intros Ha Hb. unfold kmin. destruct (leb a b); assumption. Qed.
Lemma kmin_is01 a b : is01 a -> is01 b -> is01 (kmin leb a b).
Proof. intros Ha Hb. unfold kmin. destruct (leb a b); assumption. Qed.

Lemma binarize_is01 v : in01 v -> is01 (binarize leb v).
Proof.
  intros [H0 H1]. unfold binarize, gtb. destruct (leb v k0) eqn:E; cbn [negb].
  - left. apply antisym; assumption.
  - right. reflexivity.
Qed.

(* ---- values in [0,1]; binary without antialiasing ---- *)
Theorem circle_range n m radius sh0 sh1 aa i j :
  in01 (circle_val leb sq n m radius sh0 sh1 aa i j) /\
  (aa = false -> is01 (circle_val leb sq n m radius sh0 sh1 aa i j)).
Proof.
  unfold circle_val. cbv zeta. destruct aa.
  - split; [apply clip_in01 | discriminate].
  - assert (B := binarize_is01 _ (clip_in01 (radius + khalf - sq
      ((rot_r (mesh1 n i k0) (mesh1 m j k0) k1 k0 - sh0) * (rot_r (mesh1 n i k0) (mesh1 m j k0) k1 k0 - sh0) +
       (rot_c (mesh1 n i k0) (mesh1 m j k0) k1 k0 - sh1) * (rot_c (mesh1 n i k0) (mesh1 m j k0) k1 k0 - sh1)))%K)).
    split; [apply is01_in01, B | intros _; exact B].
Qed.

Theorem rect_range n m w h sh0 sh1 co si aa i j :
  in01 (rect_val leb n m w h sh0 sh1 co si aa i j) /\
  (aa = false -> is01 (rect_val leb n m w h sh0 sh1 co si aa i j)).
Proof.
  unfold rect_val. cbv zeta.
  set (wc := clip leb _ k0 k1). set (hc := clip leb _ k0 k1).
  assert (V : in01 (kmin leb (kmin leb k1 wc) hc)).
  { apply kmin_in01; [apply kmin_in01; [apply in01_1 | apply clip_in01] | apply clip_in01]. }
  destruct aa.
  - split; [exact V | discriminate].
  - pose proof (binarize_is01 _ V) as B. split; [apply is01_in01, B | intros _; exact B].
Qed.

Lemma hex_slc_in01 inner aa r c nrm : in01 (hex_slc leb inner aa r c nrm).
Proof. unfold hex_slc. cbv zeta. destruct aa; [apply clip_in01|]. destruct (gtb leb _ inner); [apply in01_0 | apply in01_1]. Qed.
Lemma hex_slc_is01 inner r c nrm : is01 (hex_slc leb inner false r c nrm).
Proof. unfold hex_slc. cbv zeta. destruct (gtb leb _ inner); [left | right]; reflexivity. Qed.

Lemma fold_kmin_P (P : S -> Prop) (g : S * S -> S) :
  (forall a b, P a -> P b -> P (kmin leb a b)) -> (forall y, P (g y)) ->
  forall l init, P init -> P (fold_left (fun acc y => kmin leb acc (g y)) l init).
Proof. intros HP Hg. induction l as [|y l IH]; intros init Hi; cbn [fold_left]; [assumption|]. apply IH, HP; auto. Qed.

Theorem hex_range n m radius s3 sh0 sh1 ns aa i j :
  in01 (hex_val leb n m radius s3 sh0 sh1 ns aa i j) /\
  (aa = false -> is01 (hex_val leb n m radius s3 sh0 sh1 ns aa i j)).
Proof.
  unfold hex_val, hex_fold. cbv zeta. split.
  - apply (fold_kmin_P in01); [apply kmin_in01 | intros; apply hex_slc_in01 | apply in01_1].
  - intros ->. apply (fold_kmin_P is01); [apply kmin_is01 | intros; apply hex_slc_is01 | right; reflexivity].
Qed.

(* ---- translation: a drawn value is a function of (index - floor(n/2) - shift) ---- *)
Lemma kofz_sub a b : @kofz S (a - b) = (kofz a - kofz b)%K.
Proof. unfold Z.sub. rewrite (kofz_add S Hz), (kofz_opp S Hz). ring. Qed.

Lemma mesh1_shift n n' i i' d (sh : S) : i' - n' / 2 = i - n / 2 + d ->
  mesh1 n' i' (sh + kofz d)%K = mesh1 n i sh.
Proof.
  intros H. unfold mesh1. replace i' with (i - n / 2 + d + n' / 2) by lia.
  rewrite !(kofz_add S Hz), kofz_sub. ring.
Qed.
Lemma mesh1_shift0 n n' i i' d (sh : S) : i' - n' / 2 = i - n / 2 + d ->
  (mesh1 n' i' k0 - (sh + kofz d))%K = (mesh1 n i k0 - sh)%K.
Proof.
  intros H. unfold mesh1. replace i' with (i - n / 2 + d + n' / 2) by lia.
  rewrite !(kofz_add S Hz), kofz_sub. ring.
Qed.

Theorem circle_translate n m n' m' radius sh0 sh1 aa i j i' j' d0 d1 :
  i' - n' / 2 = i - n / 2 + d0 -> j' - m' / 2 = j - m / 2 + d1 ->
  circle_val leb sq n' m' radius (sh0 + kofz d0)%K (sh1 + kofz d1)%K aa i' j' =
  circle_val leb sq n m radius sh0 sh1 aa i j.
Proof.
  intros H0 H1. unfold circle_val, rot_r, rot_c. cbv zeta.
  replace (mesh1 n' i' k0 * k1 + mesh1 m' j' k0 * k0 - (sh0 + kofz d0))%K
     with (mesh1 n i k0 * k1 + mesh1 m j k0 * k0 - sh0)%K.
  2:{ pose proof (mesh1_shift0 n n' i i' d0 sh0 H0) as E. unfold mesh1 in *.
      replace i' with (i - n / 2 + d0 + n' / 2) by lia. replace j' with (j - m / 2 + d1 + m' / 2) by lia.
      rewrite !(kofz_add S Hz), !kofz_sub. ring. }
  replace (mesh1 n' i' k0 * - k0 + mesh1 m' j' k0 * k1 - (sh1 + kofz d1))%K
     with (mesh1 n i k0 * - k0 + mesh1 m j k0 * k1 - sh1)%K.
  2:{ unfold mesh1.
      replace i' with (i - n / 2 + d0 + n' / 2) by lia. replace j' with (j - m / 2 + d1 + m' / 2) by lia.
      rewrite !(kofz_add S Hz), !kofz_sub. ring. }
  reflexivity.
Qed.

Theorem rect_translate n m n' m' w h sh0 sh1 co si aa i j i' j' d0 d1 :
  i' - n' / 2 = i - n / 2 + d0 -> j' - m' / 2 = j - m / 2 + d1 ->
  rect_val leb n' m' w h (sh0 + kofz d0)%K (sh1 + kofz d1)%K co si aa i' j' =
  rect_val leb n m w h sh0 sh1 co si aa i j.
Proof.
  intros H0 H1. unfold rect_val. rewrite (mesh1_shift n n' i i' d0 sh0 H0), (mesh1_shift m m' j j' d1 sh1 H1).
  reflexivity.
Qed.

Theorem hex_translate n m n' m' radius s3 sh0 sh1 ns aa i j i' j' d0 d1 :
  i' - n' / 2 = i - n / 2 + d0 -> j' - m' / 2 = j - m / 2 + d1 ->
  hex_val leb n' m' radius s3 (sh0 + kofz d0)%K (sh1 + kofz d1)%K ns aa i' j' =
  hex_val leb n m radius s3 sh0 sh1 ns aa i j.
Proof.
  intros H0 H1. unfold hex_val. rewrite (mesh1_shift n n' i i' d0 sh0 H0), (mesh1_shift m m' j j' d1 sh1 H1).
  reflexivity.
Qed.

(* ---- half-turn and mirrors about the origin sample: i |-> 2*floor(n/2) - i ---- *)
Lemma mesh1_flip n i : mesh1 n (2 * (n / 2) - i) (@k0 S) = (- mesh1 n i k0)%K.
Proof.
  unfold mesh1. replace (2 * (n / 2) - i) with (n / 2 + (n / 2 - i)) by lia.
  rewrite (kofz_add S Hz), kofz_sub. ring.
Qed.

Lemma leb_opp_l x : leb k0 x = true -> leb (- x)%K k0 = true.
Proof.
  intros H. pose proof (leb_add S leb Hord _ _ (- x)%K H) as A.
  replace (k0 + - x)%K with (- x)%K in A by ring. replace (x + - x)%K with (@k0 S) in A by ring. exact A.
Qed.
Lemma leb_opp_r x : leb x k0 = true -> leb k0 (- x)%K = true.
Proof.
  intros H. pose proof (leb_add S leb Hord _ _ (- x)%K H) as A.
  replace (k0 + - x)%K with (- x)%K in A by ring. replace (x + - x)%K with (@k0 S) in A by ring. exact A.
Qed.

Lemma kabs_opp x : kabs leb (- x)%K = kabs leb x.
Proof.
  unfold kabs. destruct (leb k0 x) eqn:E1; destruct (leb k0 (- x)%K) eqn:E2.
  - pose proof (leb_opp_l _ E2) as A. replace (- - x)%K with x in A by ring.
    assert (x = k0) by (apply antisym; assumption). subst x. ring.
  - ring.
  - reflexivity.
  - exfalso. destruct (total k0 x) as [H|H]; [congruence|].
    pose proof (leb_opp_r _ H). congruence.
Qed.

Theorem circle_half_turn n m radius aa i j :
  circle_val leb sq n m radius k0 k0 aa (2 * (n / 2) - i) (2 * (m / 2) - j) =
  circle_val leb sq n m radius k0 k0 aa i j.
Proof.
  unfold circle_val, rot_r, rot_c. cbv zeta. rewrite !mesh1_flip.
  set (a := mesh1 n i k0). set (b := mesh1 m j k0).
  replace ((- a * k1 + - b * k0 - k0) * (- a * k1 + - b * k0 - k0) +
           (- a * - k0 + - b * k1 - k0) * (- a * - k0 + - b * k1 - k0))%K
     with ((a * k1 + b * k0 - k0) * (a * k1 + b * k0 - k0) +
           (a * - k0 + b * k1 - k0) * (a * - k0 + b * k1 - k0))%K by ring.
  reflexivity.
Qed.

Theorem circle_mirror n m radius aa i j :
  circle_val leb sq n m radius k0 k0 aa (2 * (n / 2) - i) j = circle_val leb sq n m radius k0 k0 aa i j /\
  circle_val leb sq n m radius k0 k0 aa i (2 * (m / 2) - j) = circle_val leb sq n m radius k0 k0 aa i j.
Proof.
  unfold circle_val, rot_r, rot_c. cbv zeta. rewrite !mesh1_flip.
  set (a := mesh1 n i k0). set (b := mesh1 m j k0). split.
  - replace ((- a * k1 + b * k0 - k0) * (- a * k1 + b * k0 - k0) +
             (- a * - k0 + b * k1 - k0) * (- a * - k0 + b * k1 - k0))%K
       with ((a * k1 + b * k0 - k0) * (a * k1 + b * k0 - k0) +
             (a * - k0 + b * k1 - k0) * (a * - k0 + b * k1 - k0))%K by ring.
    reflexivity.
  - replace ((a * k1 + - b * k0 - k0) * (a * k1 + - b * k0 - k0) +
             (a * - k0 + - b * k1 - k0) * (a * - k0 + - b * k1 - k0))%K
       with ((a * k1 + b * k0 - k0) * (a * k1 + b * k0 - k0) +
             (a * - k0 + b * k1 - k0) * (a * - k0 + b * k1 - k0))%K by ring.
    reflexivity.
Qed.

Lemma mesh1_0 n i (sh : S) : sh = k0 -> mesh1 n i sh = mesh1 n i k0. Proof. intros ->. reflexivity. Qed.

(* rectangle, any rotation: half-turn *)
Theorem rect_half_turn n m w h co si aa i j :
  rect_val leb n m w h k0 k0 co si aa (2 * (n / 2) - i) (2 * (m / 2) - j) =
  rect_val leb n m w h k0 k0 co si aa i j.
Proof.
  unfold rect_val. cbv zeta. rewrite !mesh1_flip.
  set (a := mesh1 n i k0). set (b := mesh1 m j k0).
  replace (rot_r (- a) (- b) co si)%K with (- rot_r (a) (b) co si)%K
    by (unfold rot_r; ring).
  replace (rot_c (- a) (- b) co si)%K with (- rot_c (a) (b) co si)%K
    by (unfold rot_c; ring).
  rewrite !kabs_opp. reflexivity.
Qed.

(* rectangle, not rotated (cos = 1, sin = 0): both mirrors *)
Theorem rect_mirror n m w h aa i j :
  rect_val leb n m w h k0 k0 k1 k0 aa (2 * (n / 2) - i) j = rect_val leb n m w h k0 k0 k1 k0 aa i j /\
  rect_val leb n m w h k0 k0 k1 k0 aa i (2 * (m / 2) - j) = rect_val leb n m w h k0 k0 k1 k0 aa i j.
Proof.
  unfold rect_val. cbv zeta. rewrite !mesh1_flip.
  set (a := mesh1 n i k0). set (b := mesh1 m j k0). split.
  - replace (rot_r (- a) (b) k1 k0)%K with (- rot_r (a) (b) k1 k0)%K
      by (unfold rot_r; ring).
    replace (rot_c (- a) (b) k1 k0)%K with (rot_c (a) (b) k1 k0)%K
      by (unfold rot_c; ring).
    rewrite kabs_opp. reflexivity.
  - replace (rot_r (a) (- b) k1 k0)%K with (rot_r (a) (b) k1 k0)%K
      by (unfold rot_r; ring).
    replace (rot_c (a) (- b) k1 k0)%K with (- rot_c (a) (b) k1 k0)%K
      by (unfold rot_c; ring).
    rewrite kabs_opp. reflexivity.
Qed.

(* ---- helper.mesh: zero at the origin sample (+ integer shift) for every rotation; odd under the half-turn ---- *)
Theorem mesh_origin n m d0 d1 co si :
  mesh_val n m (kofz d0) (kofz d1) co si (n / 2 + d0) (m / 2 + d1) = (@k0 S, @k0 S).
Proof.
  unfold mesh_val, rot_r, rot_c, mesh1. rewrite !(kofz_add S Hz). f_equal; ring.
Qed.

Theorem mesh_translate n m n' m' (sh0 sh1 co si : S) i j i' j' d0 d1 :
  i' - n' / 2 = i - n / 2 + d0 -> j' - m' / 2 = j - m / 2 + d1 ->
  mesh_val n' m' (sh0 + kofz d0)%K (sh1 + kofz d1)%K co si i' j' = mesh_val n m sh0 sh1 co si i j.
Proof.
  intros H0 H1. unfold mesh_val. rewrite (mesh1_shift n n' i i' d0 sh0 H0), (mesh1_shift m m' j j' d1 sh1 H1).
  reflexivity.
Qed.

Theorem mesh_half_turn n m (co si : S) i j :
  mesh_val n m k0 k0 co si (2 * (n / 2) - i) (2 * (m / 2) - j) =
  ((- fst (mesh_val n m k0 k0 co si i j))%K, (- snd (mesh_val n m k0 k0 co si i j))%K).
Proof.
  unfold mesh_val. cbn [fst snd]. rewrite !mesh1_flip.
  set (a := mesh1 n i k0). set (b := mesh1 m j k0). unfold rot_r, rot_c. f_equal; ring.
Qed.

(* ---- spider = 1 - rectangle: range, binarity, translation inside one array ---- *)
Lemma in01_compl v : in01 v -> in01 (k1 - v)%K.
Proof.
  intros [H0 H1]. split.
  - pose proof (leb_add S leb Hord _ _ (- v)%K H1) as A.
    replace (v + - v)%K with (@k0 S) in A by ring. replace (k1 + - v)%K with (k1 - v)%K in A by ring. exact A.
  - pose proof (leb_opp_l _ H0) as A. pose proof (leb_add S leb Hord _ _ k1 A) as B.
    replace (- v + k1)%K with (k1 - v)%K in B by ring. replace (k0 + k1)%K with (@k1 S) in B by ring. exact B.
Qed.
Lemma is01_compl v : is01 v -> is01 (k1 - v)%K.
Proof. intros [->| ->]; [right | left]; ring. Qed.

Theorem spider_range n m width s2 sh0 sh1 co si aa i j :
  in01 (spider_val leb n m width s2 sh0 sh1 co si aa i j) /\
  (aa = false -> is01 (spider_val leb n m width s2 sh0 sh1 co si aa i j)).
Proof.
  unfold spider_val. cbv zeta.
  pose proof (rect_range n m (spider_len n m s2) width (sh0 + - (spider_len n m s2 * khalf) * si)%K
                (sh1 + spider_len n m s2 * khalf * co)%K co si aa i j) as [A B].
  split; [apply in01_compl, A | intros E; apply is01_compl, B, E].
Qed.

Theorem spider_translate n m width s2 sh0 sh1 co si aa i j d0 d1 :
  spider_val leb n m width s2 (sh0 + kofz d0)%K (sh1 + kofz d1)%K co si aa (i + d0) (j + d1) =
  spider_val leb n m width s2 sh0 sh1 co si aa i j.
Proof.
  unfold spider_val. cbv zeta. f_equal.
  set (len := spider_len n m s2).
  replace (sh0 + kofz d0 + - (len * khalf) * si)%K with ((sh0 + - (len * khalf) * si) + kofz d0)%K by ring.
  replace (sh1 + kofz d1 + len * khalf * co)%K with ((sh1 + len * khalf * co) + kofz d1)%K by ring.
  apply rect_translate; lia.
Qed.

(* the spider is the complement of its rectangle: a sample is in the spider mask (value 1, no antialiasing)
   exactly when it is outside the arm *)
Theorem spider_is_complement n m width s2 sh0 sh1 co si aa i j :
  (spider_val leb n m width s2 sh0 sh1 co si aa i j +
   rect_val leb n m (spider_len n m s2) width (sh0 + - (spider_len n m s2 * khalf) * si)%K
            (sh1 + spider_len n m s2 * khalf * co)%K co si aa i j = k1)%K.
Proof. unfold spider_val. cbv zeta. ring. Qed.

(* ---- hexagon: the minimum over the normals depends only on the set of slice values ---- *)
Lemma leb_kmin x a b : leb x (kmin leb a b) = true <-> leb x a = true /\ leb x b = true.
Proof.
  unfold kmin. destruct (leb a b) eqn:E.
  - split; [intros H; split; [assumption | eapply trans; eassumption] | tauto].
  - assert (leb b a = true) by (destruct (total a b); congruence).
    split; [intros H1; split; [eapply trans; eassumption | assumption] | tauto].
Qed.

Lemma fold_kmin_glb (g : S * S -> S) x : forall l init,
  leb x (fold_left (fun acc y => kmin leb acc (g y)) l init) = true <->
  leb x init = true /\ forall y, In y l -> leb x (g y) = true.
Proof.
  induction l as [|y l IH]; intros init; cbn [fold_left].
  - split; [intros H; split; [assumption | intros y []] | tauto].
  - rewrite IH, leb_kmin. split.
    + intros [[H1 H2] H3]. split; [assumption|]. intros z [<-|Hz']; auto.
    + intros [H1 H2]. split; [split; [assumption | apply H2; left; reflexivity]|]. intros z Hz'. apply H2. right. assumption.
Qed.

Lemma fold_kmin_same_values (g1 g2 : S * S -> S) l1 l2 init :
  (forall y, In y l1 -> exists z, In z l2 /\ g2 z = g1 y) ->
  (forall z, In z l2 -> exists y, In y l1 /\ g1 y = g2 z) ->
  fold_left (fun acc y => kmin leb acc (g1 y)) l1 init = fold_left (fun acc y => kmin leb acc (g2 y)) l2 init.
Proof.
  intros H12 H21. apply antisym.
  - apply fold_kmin_glb. pose proof (proj1 (fold_kmin_glb g1 _ l1 init) (refl _)) as [A B].
    split; [assumption|]. intros z Hz'. destruct (H21 z Hz') as (y & Hy & <-). apply B. assumption.
  - apply fold_kmin_glb. pose proof (proj1 (fold_kmin_glb g2 _ l2 init) (refl _)) as [A B].
    split; [assumption|]. intros y Hy. destruct (H12 y Hy) as (z & Hz' & <-). apply B. assumption.
Qed.

Definition nneg (p : S * S) : S * S := ((- fst p)%K, (- snd p)%K).
Definition nmir_c (p : S * S) : S * S := (fst p, (- snd p)%K).   (* the mirror c |-> -c *)
Definition nmir_r (p : S * S) : S * S := ((- fst p)%K, snd p).   (* the mirror r |-> -r *)

Lemma hex_slc_map (T : S * S -> S * S) inner aa r c r' c' :
  (forall p, (r' * fst p + c' * snd p = r * fst (T p) + c * snd (T p))%K) ->
  forall p, hex_slc leb inner aa r' c' p = hex_slc leb inner aa r c (T p).
Proof. intros H p. unfold hex_slc. cbv zeta. rewrite H. reflexivity. Qed.

(* a symmetry of the coordinates whose dual permutes the normals (an involution) leaves the hexagon unchanged *)
Lemma hex_fold_sym (T : S * S -> S * S) inner aa r c r' c' ns :
  (forall p, (r' * fst p + c' * snd p = r * fst (T p) + c * snd (T p))%K) ->
  (forall p, T (T p) = p) -> (forall p, In p ns -> In (T p) ns) ->
  hex_fold leb inner aa r' c' ns = hex_fold leb inner aa r c ns.
Proof.
  intros HT Hinv Hcl. unfold hex_fold. apply fold_kmin_same_values.
  - intros y Hy. exists (T y). split; [apply Hcl, Hy | symmetry; apply hex_slc_map; assumption].
  - intros z Hz'. exists (T z). split; [apply Hcl, Hz'|].
    rewrite (hex_slc_map T inner aa r c r' c' HT). rewrite Hinv. reflexivity.
Qed.

Theorem hex_half_turn n m radius s3 ns aa i j :
  (forall p, In p ns -> In (nneg p) ns) ->
  hex_val leb n m radius s3 k0 k0 ns aa (2 * (n / 2) - i) (2 * (m / 2) - j) =
  hex_val leb n m radius s3 k0 k0 ns aa i j.
Proof.
  intros Hcl. unfold hex_val. cbv zeta. rewrite !mesh1_flip.
  apply (hex_fold_sym nneg); [| |assumption].
  - intros p. unfold nneg, rot_r, rot_c. cbn [fst snd]. ring.
  - intros [a b]. unfold nneg. cbn [fst snd]. f_equal; ring.
Qed.

Theorem hex_mirror n m radius s3 ns aa i j :
  ((forall p, In p ns -> In (nmir_r p) ns) ->
   hex_val leb n m radius s3 k0 k0 ns aa (2 * (n / 2) - i) j = hex_val leb n m radius s3 k0 k0 ns aa i j) /\
  ((forall p, In p ns -> In (nmir_c p) ns) ->
   hex_val leb n m radius s3 k0 k0 ns aa i (2 * (m / 2) - j) = hex_val leb n m radius s3 k0 k0 ns aa i j).
Proof.
  split; intros Hcl; unfold hex_val; cbv zeta; rewrite !mesh1_flip.
  - apply (hex_fold_sym nmir_r); [| |assumption].
    + intros p. unfold nmir_r, rot_r, rot_c. cbn [fst snd]. ring.
    + intros [a b]. unfold nmir_r. cbn [fst snd]. f_equal; ring.
  - apply (hex_fold_sym nmir_c); [| |assumption].
    + intros p. unfold nmir_c, rot_r, rot_c. cbn [fst snd]. ring.
    + intros [a b]. unfold nmir_c. cbn [fst snd]. f_equal; ring.
Qed.

(* ---- two binary hexagon masks separated along one of their normals do not overlap ---- *)
Lemma leb_add2 a b c d : leb a b = true -> leb c d = true -> leb (a + c)%K (b + d)%K = true.
Proof.
  intros H1 H2. apply (trans _ (b + c)%K).
  - apply (leb_add S leb Hord). assumption.
  - replace (b + c)%K with (c + b)%K by ring. replace (b + d)%K with (d + b)%K by ring.
    apply (leb_add S leb Hord). assumption.
Qed.

Lemma hex_fold_binary_1 inner r c ns : hex_fold leb inner false r c ns = k1 -> k1 <> @k0 S ->
  forall p, In p ns -> leb (r * fst p + c * snd p)%K inner = true.
Proof.
  intros H Hne p Hp. unfold hex_fold in H.
  pose proof (proj1 (fold_kmin_glb (hex_slc leb inner false r c) k1 ns k1)) as G.
  rewrite H in G. destruct (G (refl _)) as [_ G2]. specialize (G2 p Hp).
  unfold hex_slc in G2. cbv zeta in G2. unfold gtb in G2.
  destruct (leb (r * fst p + c * snd p)%K inner) eqn:E; [reflexivity|]. cbn [negb] in G2.
  exfalso. apply Hne. apply antisym; [assumption | apply l01].
Qed.

Theorem hex_masks_disjoint n m radius s3 ns (a0 a1 b0 b1 : S) p i j :
  k1 <> @k0 S -> In p ns -> In (nneg p) ns ->
  (* the centres are further apart along the normal p than twice the inner radius *)
  gtb leb ((b0 - a0) * fst p + (b1 - a1) * snd p)%K (radius * s3 * khalf + radius * s3 * khalf)%K = true ->
  ~ (hex_val leb n m radius s3 a0 a1 ns false i j = k1 /\ hex_val leb n m radius s3 b0 b1 ns false i j = k1).
Proof.
  intros Hne Hp Hnp Hsep [HA HB]. unfold hex_val in HA, HB. cbv zeta in HA, HB.
  pose proof (hex_fold_binary_1 _ _ _ _ HA Hne p Hp) as A.
  pose proof (hex_fold_binary_1 _ _ _ _ HB Hne (nneg p) Hnp) as B.
  pose proof (leb_add2 _ _ _ _ A B) as C. unfold gtb in Hsep.
  replace (rot_r (mesh1 n i a0) (mesh1 m j a1) k1 k0 * fst p + rot_c (mesh1 n i a0) (mesh1 m j a1) k1 k0 * snd p +
           (rot_r (mesh1 n i b0) (mesh1 m j b1) k1 k0 * fst (nneg p) +
            rot_c (mesh1 n i b0) (mesh1 m j b1) k1 k0 * snd (nneg p)))%K
     with ((b0 - a0) * fst p + (b1 - a1) * snd p)%K in C
     by (unfold rot_r, rot_c, mesh1, nneg; cbn [fst snd]; ring).
  rewrite C in Hsep. discriminate.
Qed.

End ShapesP.

(* ------------------------------------------------------------------ hexagonal lattice (integers) *)
Lemma hex_lattice_separation dq dr : (dq, dr) <> (0, 0) ->
  2 <= Z.abs (2 * dq + dr) \/ 2 <= Z.abs (dq + 2 * dr) \/ 2 <= Z.abs (dr - dq).
Proof. intros H. assert (dq <> 0 \/ dr <> 0) by (destruct (Z.eq_dec dq 0), (Z.eq_dec dr 0); subst; tauto || lia). lia. Qed.

Lemma walk_spec k : forall h d,
  length (fst (walk k h d)) = k.
Proof.
  induction k as [|k IH]; intros h d; cbn [walk]; [reflexivity|].
  specialize (IH (hex_add h d) d). destruct (walk k (hex_add h d) d) as [l e]. cbn [fst length] in *. lia.
Qed.

Lemma ring_loop_length ds k : forall h, length (ring_loop ds k h) = (length ds * k)%nat.
Proof.
  induction ds as [|d t IH]; intros h; cbn [ring_loop length]; [reflexivity|].
  pose proof (walk_spec k h d) as W. destruct (walk k h d) as [l e]. cbn [fst] in W.
  rewrite app_length, IH, W. lia.
Qed.

Theorem hex_ring_length r : Z.of_nat (length (hex_ring r)) = 6 * Z.max r 0.
Proof. unfold hex_ring. rewrite ring_loop_length. cbn [hex_directions length]. lia. Qed.

Lemma hex_all_length_nat k :
  Z.of_nat (length (flat_map (fun i => hex_ring (Z.of_nat i + 1)) (seq 0 k))) = 3 * Z.of_nat k * (Z.of_nat k + 1).
Proof.
  induction k as [|k IH]; [reflexivity|].
  rewrite seq_S, flat_map_app, app_length. cbn [flat_map Nat.add]. rewrite app_nil_r.
  rewrite Nat2Z.inj_add, IH, hex_ring_length. lia.
Qed.

Theorem hex_all_length rings : 0 <= rings -> Z.of_nat (length (hex_all rings)) = 3 * rings * (rings + 1).
Proof. intros H. unfold hex_all. rewrite hex_all_length_nat. lia. Qed.

Lemma filter_split_length {A} (p : A -> bool) l :
  (length (filter p l) + length (filter (fun x => negb (p x)) l) = length l)%nat.
Proof. induction l as [|x l IH]; cbn [filter length]; [reflexivity|]. destruct (p x); cbn [negb length]; lia. Qed.

Lemma numbered_length l : length (numbered l) = length l.
Proof. unfold numbered. rewrite combine_length, map_length, seq_length. lia. Qed.

(* segments kept = 1 + 3k(k+1) - number of segment ids of the aperture that are in the drop list *)
Theorem hex_count rings drop : 0 <= rings ->
  Z.of_nat (length (hex_kept rings drop)) =
  1 + 3 * rings * (rings + 1) - Z.of_nat (length (filter (fun p => in_drop drop (fst p)) (hex_numbered rings))).
Proof.
  intros H. unfold hex_kept.
  pose proof (filter_split_length (fun p : Z * hex => in_drop drop (fst p)) (hex_numbered rings)) as F.
  assert (L : Z.of_nat (length (hex_numbered rings)) = 1 + 3 * rings * (rings + 1)).
  { unfold hex_numbered. cbn [length]. rewrite numbered_length, Nat2Z.inj_succ, hex_all_length by assumption. lia. }
  lia.
Qed.
