(* WP-T2, C16: the index arithmetic of lentil/detector.py (the Bayer mosaic repetition counts of
   collect_charge_bayer, the model order of adc by the rank of the gain), translated from the source text on every
   check (Gen/DetectorSrc.v), equals the model of Model/Detector.v for all integers. *)
From LV Require Import Model.Detector Gen.DetectorSrc Proofs.SrcTac.

Lemma src_bayer_mosaic_ok : forall (d R C os : Z) (kr kg kb : Z * Z),
  src_bayer_mosaic (d, R, C) os kr kg kb =
  (R / os, C / os, (R / os / fst kr, C / os / snd kr), (R / os / fst kg, C / os / snd kg),
   (R / os / fst kb, C / os / snd kb)).
Proof. intros; destr_prods; unfold src_bayer_mosaic; src_finish. Qed.

(* the model's mosaic of channel ch tiles the k x k kernel exactly that many times *)
Lemma src_bayer_mosaic_model : forall (S : Scalar) (p : pattern) (ch d R C os : Z),
  let k := (pk p, pk p) in
  let '(nrow, ncol, rr, rg, rb) := src_bayer_mosaic (d, R, C) os k k k in
  nrow = R / os /\ ncol = C / os /\ rr = rg /\ rg = rb /\
  mosaic (S := S) p ch nrow ncol os = repeat2 (tile (kernel p ch) (fst rr) (snd rr)) os.
Proof. intros. subst k. rewrite src_bayer_mosaic_ok. cbn [fst snd]. repeat split. Qed.

Lemma src_adc_order_0d_ok : forall g : Qc, src_adc_order_0d = gorder (G0 g).
Proof. intros; unfold src_adc_order_0d; src_finish. Qed.
Lemma src_adc_order_1d_ok : forall l : list Qc, src_adc_order_1d (Z.of_nat (length l)) = gorder (G1 l).
Proof. intros; unfold src_adc_order_1d; src_finish. Qed.
Lemma src_adc_order_2d_ok : forall a : arr QcS, src_adc_order_2d (nr a, nc a) = gorder (G2 a).
Proof. intros; unfold src_adc_order_2d; src_finish. Qed.
Lemma src_adc_order_3d_ok : forall c : cube QcS, src_adc_order_3d (cnk c, cnr c, cnc c) = gorder (G3 c).
Proof. intros; unfold src_adc_order_3d; src_finish. Qed.
