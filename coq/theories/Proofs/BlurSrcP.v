(* WP-T3, C19: which axis length each frequency vector of the three blur kernels is built from (the arguments of the
   np.fft.fftfreq calls of detector.pixel, convolvable.jitter and convolvable.smear), translated from the source text
   on every check (Gen/BlurSrc.v): x is built from the COLUMN count, y from the ROW count - as the model's kernels
   (Model/Blur.v: [pixel_mul], [jitter_mul], [smear_mul]) use them. *)
From LV Require Import Model.Blur Gen.BlurSrc Proofs.SrcTac.

Lemma src_pixel_freq_sizes_ok : forall m n : Z, src_pixel_freq_sizes (m, n) = (n, m).
Proof. intros; unfold src_pixel_freq_sizes; src_finish. Qed.
Lemma src_jitter_freq_sizes_ok : forall m n : Z, src_jitter_freq_sizes (m, n) = (n, m).
Proof. intros; unfold src_jitter_freq_sizes; src_finish. Qed.
Lemma src_smear_freq_sizes_ok : forall m n : Z, src_smear_freq_sizes (m, n) = (n, m).
Proof. intros; unfold src_smear_freq_sizes; src_finish. Qed.

(* the model's kernels take the x frequencies (index j, along a row) from fftfreq of the first translated length and
   the y frequencies (index i) from the second *)
Lemma src_pixel_kernel_axes : forall (S : Scalar) (sinc : Qc -> S) (os : Qc) (m n i j : Z),
  let '(nx, ny) := src_pixel_freq_sizes (m, n) in
  get (pixel_mul sinc os m n) i j = (sinc (fftfreq ny i * os)%Qc * sinc (fftfreq nx j * os)%Qc)%K.
Proof. intros. rewrite src_pixel_freq_sizes_ok. reflexivity. Qed.

Lemma src_jitter_kernel_axes : forall (S : Scalar) (gauss : Qc -> S) (scale ps os : Qc) (m n i j : Z),
  let '(nx, ny) := src_jitter_freq_sizes (m, n) in
  get (jitter_mul gauss scale ps os m n) i j =
  gauss (extent scale ps os * extent scale ps os * (fftfreq nx j * fftfreq nx j + fftfreq ny i * fftfreq ny i))%Qc.
Proof. intros. rewrite src_jitter_freq_sizes_ok. reflexivity. Qed.

Lemma src_smear_kernel_axes : forall (S : Scalar) (sinc : Qc -> S) (d sn cs ps os : Qc) (m n i j : Z),
  let '(nx, ny) := src_smear_freq_sizes (m, n) in
  get (smear_mul sinc d sn cs ps os m n) i j = sinc ((sn * fftfreq ny i + cs * fftfreq nx j) * extent d ps os)%Qc.
Proof. intros. rewrite src_smear_freq_sizes_ok. reflexivity. Qed.
