(* Lemmas about the model of util.rescale / Plane.rescale / Plane.resample (Model/Rescale.v). *)
From LV Require Import Model.Rescale.
From Coq Require Import Qreduction Lqa Field.

Local Open Scope Qc_scope.
Arguments util_rescale : simpl never.

Lemma zq_this z : this (zq z) = inject_Z z.
Proof. unfold zq, Q2Qc; cbn [this]. apply Qred_identity. cbn. apply Z.gcd_1_r. Qed.

Lemma zq_inj a b : zq a = zq b -> a = b.
Proof. intros H. apply (f_equal this) in H. rewrite !zq_this in H. injection H; auto. Qed.

Lemma zq_add a b : zq (a + b) = zq a + zq b.
Proof. apply Qc_is_canon. unfold Qcplus, Q2Qc; cbn [this]. rewrite !zq_this, Qred_correct, inject_Z_plus. reflexivity. Qed.
Lemma zq_mul a b : zq (a * b) = zq a * zq b.
Proof. apply Qc_is_canon. unfold Qcmult, Q2Qc; cbn [this]. rewrite !zq_this, Qred_correct, inject_Z_mult. reflexivity. Qed.
Lemma zq_opp a : zq (- a) = - zq a.
Proof. apply Qc_is_canon. unfold Qcopp, Q2Qc; cbn [this]. rewrite !zq_this, Qred_correct, inject_Z_opp. reflexivity. Qed.
Lemma zq_sub a b : zq (a - b) = zq a - zq b.
Proof. unfold Z.sub, Qcminus. now rewrite zq_add, zq_opp. Qed.
Lemma zq_0 : zq 0 = 0. Proof. apply Qc_is_canon. reflexivity. Qed.
Lemma zq_1 : zq 1 = 1. Proof. apply Qc_is_canon. reflexivity. Qed.

Lemma zq_le a b : zq a <= zq b <-> (a <= b)%Z.
Proof. unfold Qcle. rewrite !zq_this, <- Zle_Qle. reflexivity. Qed.
Lemma zq_lt a b : zq a < zq b <-> (a < b)%Z.
Proof. unfold Qclt. rewrite !zq_this, <- Zlt_Qlt. reflexivity. Qed.
Lemma zq_neq0 a : a <> 0%Z -> zq a <> 0.
Proof. intros H E. rewrite <- zq_0 in E. apply zq_inj in E. contradiction. Qed.

(* ceil *)
Lemma qceil_ge x : x <= zq (qceil x).
Proof. unfold Qcle, qceil. rewrite zq_this. apply Qle_ceiling. Qed.
Lemma qceil_lt x : zq (qceil x) < x + 1.
Proof. unfold Qclt, qceil. rewrite zq_this. unfold Qcplus, Q2Qc; cbn [this]. rewrite Qred_correct.
  pose proof (Qceiling_lt (this x)) as H. unfold Z.sub in H. rewrite inject_Z_plus in H. cbn in H |- *.
  change (inject_Z (-1)) with (-1#1)%Q in H. set (c := inject_Z _) in *. set (q := this x) in *. clearbody c q. lra. Qed.
Lemma qceil_zq z : qceil (zq z) = z.
Proof. unfold qceil. rewrite zq_this. apply Qceiling_Z. Qed.

Lemma qceil_unique x c : x <= zq c -> zq c < x + 1 -> qceil x = c.
Proof. intros H1 H2. pose proof (qceil_ge x) as G1. pose proof (qceil_lt x) as G2.
  assert (A : zq c < zq (qceil x) + 1) by (eapply Qclt_le_trans; [exact H2|]; apply Qcplus_le_compat; [exact G1|apply Qcle_refl]).
  assert (B : zq (qceil x) < zq c + 1) by (eapply Qclt_le_trans; [exact G2|]; apply Qcplus_le_compat; [exact H1|apply Qcle_refl]).
  rewrite <- zq_1, <- zq_add in A, B. apply (proj1 (zq_lt _ _)) in A. apply (proj1 (zq_lt _ _)) in B. lia. Qed.

Lemma qceil_mono x y : x <= y -> (qceil x <= qceil y)%Z.
Proof. intros H. unfold qceil. apply Qceiling_resp_le. exact H. Qed.

Lemma qinv_pos s : 0 < s -> 0 < / s.
Proof. unfold Qclt, Qcinv, Q2Qc; cbn [this]. rewrite !Qred_correct. apply Qinv_lt_0_compat. Qed.
Lemma qpos_neq0 s : 0 < s -> s <> 0.
Proof. intros H E. rewrite E in H. revert H. apply Qlt_irrefl. Qed.
Lemma qmul_pos a b : 0 < a -> 0 < b -> 0 < a * b.
Proof. intros Ha Hb. replace 0 with (0 * b) by ring. apply Qcmult_lt_compat_r; assumption. Qed.
Lemma qdiv_pos a s : 0 < a -> 0 < s -> 0 < a / s.
Proof. intros. unfold Qcdiv. apply qmul_pos; auto using qinv_pos. Qed.

(* ---- (e) ceil / shape ---- *)
Lemma rescale_shape_bounds n s :
  zq n * s <= zq (rescale_shape n s) /\ zq (rescale_shape n s) < zq n * s + 1.
Proof. split; [apply qceil_ge|apply qceil_lt]. Qed.

Lemma rescale_shape_one n : rescale_shape n 1 = n.
Proof. unfold rescale_shape. replace (zq n * 1) with (zq n) by ring. apply qceil_zq. Qed.

Lemma rescale_shape_int n k : rescale_shape n (zq k) = (n * k)%Z.
Proof. unfold rescale_shape. rewrite <- zq_mul. apply qceil_zq. Qed.

Lemma rescale_shape_inv N k : (0 < k)%Z -> rescale_shape (k * N) (/ zq k) = N.
Proof. intros Hk. unfold rescale_shape. rewrite zq_mul.
  replace (zq k * zq N * / zq k) with (zq N) by (field; apply zq_neq0; lia). apply qceil_zq. Qed.

Lemma rescale_shape_pos n s : (0 < n)%Z -> 0 < s -> (0 < rescale_shape n s)%Z.
Proof. intros Hn Hs. apply zq_lt. rewrite zq_0. eapply Qclt_le_trans; [|apply qceil_ge].
  apply qmul_pos; [|exact Hs]. rewrite <- zq_0. apply zq_lt. exact Hn. Qed.

(* ---- (a) extent ---- *)
Lemma extent_within_one_sample n s ps : 0 < s -> 0 < ps ->
  zq n * ps <= zq (rescale_shape n s) * (ps / s) /\
  zq (rescale_shape n s) * (ps / s) < zq n * ps + ps / s.
Proof. intros Hs Hp. destruct (rescale_shape_bounds n s) as [H1 H2].
  set (N := zq (rescale_shape n s)) in *. clearbody N.
  assert (Hu : 0 < ps / s) by (apply qdiv_pos; assumption).
  assert (Hs0 : s <> 0) by (apply qpos_neq0; assumption).
  split.
  - replace (zq n * ps) with (zq n * s * (ps / s)) by (field; exact Hs0).
    apply Qcmult_le_compat_r; [exact H1|apply Qclt_le_weak; exact Hu].
  - replace (zq n * ps + ps / s) with ((zq n * s + 1) * (ps / s)) by (field; exact Hs0).
    apply Qcmult_lt_compat_r; assumption. Qed.

(* ---- nodes ---- *)
Lemma node_spec n x i : node n x = Some i <-> x = zq i /\ (0 <= i < n)%Z.
Proof. unfold node, inr. split.
  - destruct (_ && _) eqn:E; [|discriminate]. intros H; injection H as <-.
    apply andb_prop in E as [E1 E2]. split; [|lia].
    apply Qc_is_canon. rewrite zq_this. destruct (this x) as [a d]; cbn [Qnum Qden] in *.
    assert (d = 1%positive) by lia. subst d. reflexivity.
  - intros [-> Hi]. rewrite zq_this. cbn. replace ((0 <=? i)%Z && (i <? n)%Z) with true by lia. reflexivity. Qed.

Lemma node_zq n i : (0 <= i < n)%Z -> node n (zq i) = Some i.
Proof. intros H. apply node_spec. auto. Qed.

Lemma node_none_zq n x : node n x = None -> forall i, (0 <= i < n)%Z -> x <> zq i.
Proof. intros H i Hi E. rewrite E, node_zq in H by assumption. discriminate. Qed.

(* ---- sampling coordinates ---- *)
Lemma zq2_neq0 : zq 2 <> 0. Proof. apply zq_neq0. lia. Qed.

Ltac nzq := repeat split; try exact zq2_neq0; try exact Qcanon.Q_apart_0_1; try (apply zq_neq0; lia); try assumption.

Lemma coord_one n j : coord n n 1 j = zq j.
Proof. unfold coord. field. nzq. Qed.

Lemma coord_int n k j : (0 < k)%Z -> coord n (n * k) (zq k) j = zq j / zq k.
Proof. intros Hk. unfold coord. rewrite zq_mul. field. nzq. Qed.

Lemma coord_int_node n k i : (0 < k)%Z -> coord n (n * k) (zq k) (k * i) = zq i.
Proof. intros Hk. rewrite coord_int by assumption. rewrite zq_mul. field. nzq. Qed.

Lemma coord_int_node_iff n k j i : (0 < k)%Z ->
  coord n (n * k) (zq k) j = zq i <-> j = (k * i)%Z.
Proof. intros Hk. split.
  - rewrite coord_int by assumption. intros H. apply zq_inj. rewrite zq_mul, <- H. field. nzq.
  - intros ->. apply coord_int_node; assumption. Qed.

Lemma coord_inv N k j : (0 < k)%Z -> coord (k * N) N (/ zq k) j = zq (k * j).
Proof. intros Hk. unfold coord. rewrite !zq_mul. field. nzq. Qed.

(* general form: the coordinate as a single fraction *)
Lemma coord_frac n N p q j : (0 < p)%Z -> (0 < q)%Z ->
  coord n N (zq p / zq q) j = zq ((2 * j - N) * q + n * p) / zq (2 * p).
Proof. intros Hp Hq. unfold coord. rewrite !zq_add, !zq_mul, zq_sub, !zq_mul. field. nzq. Qed.

(* ---- comparisons, nearest neighbour ---- *)
Lemma qle_spec x y : qle x y = true <-> x <= y.
Proof. unfold qle. rewrite Qcle_alt. destruct (x ?= y); split; intros; congruence. Qed.

Lemma qfloor_unique x z : zq z <= x -> x < zq (z + 1) -> qfloor x = z.
Proof. unfold Qcle, Qclt, qfloor. rewrite !zq_this. intros H1 H2.
  pose proof (Qfloor_le (this x)) as G1. pose proof (Qlt_floor (this x)) as G2.
  assert (A : (inject_Z z < inject_Z (Qfloor x + 1))%Q) by (eapply Qle_lt_trans; eassumption).
  assert (B : (inject_Z (Qfloor x) < inject_Z (z + 1))%Q) by (eapply Qle_lt_trans; eassumption).
  rewrite <- Zlt_Qlt in A, B. lia. Qed.

Lemma qhalf_this : this qhalf = (1 # 2)%Q. Proof. reflexivity. Qed.

Lemma rnd_zq i : rnd (zq i) = i.
Proof. unfold rnd. apply qfloor_unique.
  - unfold Qcle, Qcplus, Q2Qc; cbn [this]. rewrite Qred_correct, zq_this, qhalf_this.
    set (a := inject_Z i). clearbody a. lra.
  - unfold Qclt, Qcplus, Q2Qc; cbn [this]. rewrite Qred_correct, !zq_this, qhalf_this, inject_Z_plus.
    set (a := inject_Z i). clearbody a. change (inject_Z 1) with 1%Q. lra. Qed.

Lemma in_closed_zq n i : (0 <= i < n)%Z -> in_closed n (zq i) = true.
Proof. intros H. unfold in_closed. apply andb_true_intro. split; apply qle_spec; apply zq_le; lia. Qed.

Lemma in_closed_spec n x : in_closed n x = true <-> zq 0 <= x /\ x <= zq (n - 1).
Proof. unfold in_closed. rewrite andb_true_iff, !qle_spec. reflexivity. Qed.

(* the nearest node of an in-range coordinate is a valid index *)
Lemma rnd_in_range n x : in_closed n x = true -> (0 <= rnd x < n)%Z.
Proof. rewrite in_closed_spec. intros [H1 H2]. unfold rnd, qfloor.
  pose proof (Qfloor_le (this (x + qhalf))) as G1. pose proof (Qlt_floor (this (x + qhalf))) as G2.
  revert H1 H2 G1 G2. unfold Qcle, Qcplus, Q2Qc; cbn [this]. rewrite !zq_this, qhalf_this.
  set (f := Qfloor _). rewrite !Qred_correct. intros H1 H2 G1 G2.
  assert (A : (inject_Z (-1) < inject_Z f)%Q).
  { unfold Z.sub in *. rewrite inject_Z_plus in G2. change (inject_Z 1) with 1%Q in G2.
    change (inject_Z 0) with 0%Q in H1. change (inject_Z (-1)) with (-1 # 1)%Q.
    set (a := inject_Z f) in *. set (b := this x) in *. clearbody a b. lra. }
  assert (B : (inject_Z f < inject_Z n)%Q).
  { unfold Z.sub in H2. rewrite inject_Z_plus, inject_Z_opp in H2. change (inject_Z 1) with 1%Q in H2.
    set (a := inject_Z f) in *. set (b := this x) in *. set (c := inject_Z n) in *. clearbody a b c. lra. }
  rewrite <- Zlt_Qlt in A, B. lia. Qed.

Lemma nzfactor v : (v * (if nz v then 1 else Q2Qc 0))%Qc = v.
Proof. unfold nz. destruct (Qnum (this v) =? 0)%Z eqn:E; cbn [negb]; [|ring].
  assert (v = 0). { apply Qc_is_canon. destruct (this v) as [a d]. cbn in *. unfold Qeq. cbn. lia. }
  subst v. ring. Qed.

Lemma nz_false v : nz v = false <-> v = 0.
Proof. unfold nz. split.
  - intros E. apply Qc_is_canon. destruct (this v) as [a d]. cbn in *. unfold Qeq. cbn. lia.
  - intros ->. reflexivity. Qed.

(* ---- one sample ---- *)
Lemma sample_node o img y x i j :
  node (qnr img) y = Some i -> node (qnc img) x = Some j -> sample o img y x = Known (qget img i j).
Proof. intros Hy Hx. unfold sample. rewrite Hy, Hx. now rewrite nzfactor. Qed.

Definition b2q (b : bool) : Qc := if b then 1 else Q2Qc 0.

(* everything the model pins about a sample *)
Lemma sample_known_spec o img y x v : sample o img y x = Known v ->
  (exists i j, y = zq i /\ (0 <= i < qnr img)%Z /\ x = zq j /\ (0 <= j < qnc img)%Z /\ v = qget img i j)
  \/ (v = 0 /\ o = Cubic /\ zero_cluster img y x = true)
  \/ (v = 0 /\ o = Nearest0 /\
      (in_closed (qnr img) y && in_closed (qnc img) x = false \/ qget img (rnd y) (rnd x) = 0)).
Proof. unfold sample.
  destruct (node (qnr img) y) as [i|] eqn:Hy; [destruct (node (qnc img) x) as [j|] eqn:Hx|].
  - rewrite nzfactor. intros H; injection H as <-. left. exists i, j.
    apply node_spec in Hy as [-> ?]. apply node_spec in Hx as [-> ?]. auto.
  - destruct o.
    + destruct (zero_cluster img y x); [|discriminate]. intros H; injection H as <-. right; left; auto.
    + destruct (in_closed (qnr img) y && in_closed (qnc img) x).
      * destruct (nz _) eqn:E; [discriminate|]. intros H; injection H as <-. right; right.
        apply nz_false in E. auto.
      * intros H; injection H as <-. right; right; auto.
  - destruct o.
    + destruct (zero_cluster img y x); [|discriminate]. intros H; injection H as <-. right; left; auto.
    + destruct (in_closed (qnr img) y && in_closed (qnc img) x).
      * destruct (nz _) eqn:E; [discriminate|]. intros H; injection H as <-. right; right.
        apply nz_false in E. auto.
      * intros H; injection H as <-. right; right; auto.
Qed.

(* the nearest-neighbour configuration pins every sample of the binarised mask *)
Lemma sample_nearest_spec img y x :
  binarise (sample Nearest0 img y x) =
  Known (b2q (in_closed (qnr img) y && in_closed (qnc img) x && nz (qget img (rnd y) (rnd x)))).
Proof. unfold sample.
  destruct (node (qnr img) y) as [i|] eqn:Hy; [destruct (node (qnc img) x) as [j|] eqn:Hx|].
  - apply node_spec in Hy as [-> Hi]. apply node_spec in Hx as [-> Hj].
    rewrite nzfactor, !rnd_zq, !in_closed_zq by assumption. reflexivity.
  - destruct (in_closed (qnr img) y && in_closed (qnc img) x); [|reflexivity].
    cbn [andb]. destruct (nz _); reflexivity.
  - destruct (in_closed (qnr img) y && in_closed (qnc img) x); [|reflexivity].
    cbn [andb]. destruct (nz _); reflexivity.
Qed.

(* ---- util.rescale ---- *)
Lemma util_rescale_ok o img s r : util_rescale o img s = Ok r ->
  True /\ onr r = rescale_shape (qnr img) s /\ onc r = rescale_shape (qnc img) s /\
  forall i j, oget r i j = sample o img (coord (qnr img) (onr r) s i) (coord (qnc img) (onc r) s j).
Proof. unfold util_rescale. intros H; injection H as <-. cbn. auto. Qed.

Lemma util_rescale_total o img s : exists r, util_rescale o img s = Ok r.
Proof. unfold util_rescale. eauto. Qed.

Lemma util_rescale_as_float o img s : util_rescale o (as_float img) s = util_rescale o img s.
Proof. reflexivity. Qed.

(* ---- Plane.rescale: structure ---- *)
Lemma rbind_ok {A B} (r : result A) (f : A -> result B) b :
  rbind r f = Ok b -> exists a, r = Ok a /\ f a = Ok b.
Proof. destruct r; cbn; [eauto|discriminate]. Qed.

Lemma plane_rescale_inv P s P' : plane_rescale P s = Ok P' ->
  rescale_fld (p_amp P) s (fun v => v / s) = Ok (o_amp P') /\
  rescale_fld (p_opd P) s (fun v => v) = Ok (o_opd P') /\
  rescale_msk0 (p_mask P) s = Ok (o_mask P') /\
  o_ps P' = rescale_ps (p_ps P) s.
Proof. unfold plane_rescale. intros H.
  apply rbind_ok in H as (a & Ha & H). apply rbind_ok in H as (o & Ho & H). apply rbind_ok in H as (m & Hm & H).
  injection H as <-. cbn. repeat split; auto.
  unfold rescale_msk in Hm. apply rbind_ok in Hm as (m0 & Hm0 & Hm). destruct (nonempty_msk m0); [|discriminate].
  injection Hm as <-. exact Hm0. Qed.

Lemma plane_rescale_nonempty P s P' : plane_rescale P s = Ok P' -> nonempty_msk (o_mask P') = true.
Proof. unfold plane_rescale. intros H.
  apply rbind_ok in H as (a & Ha & H). apply rbind_ok in H as (o & Ho & H). apply rbind_ok in H as (m & Hm & H).
  injection H as <-. cbn. unfold rescale_msk in Hm. apply rbind_ok in Hm as (m0 & Hm0 & Hm).
  destruct (nonempty_msk m0) eqn:E; [|discriminate]. injection Hm as <-. exact E. Qed.

Lemma zrange_in n i : In i (zrange n) <-> (0 <= i < n)%Z.
Proof. unfold zrange. rewrite in_map_iff. split.
  - intros (k & <- & Hk). apply in_seq in Hk. lia.
  - intros Hi. exists (Z.to_nat i). split; [lia|]. apply in_seq. lia. Qed.

Lemma has_one_spec a : has_one a = true <->
  exists i j, (0 <= i < onr a)%Z /\ (0 <= j < onc a)%Z /\ is_one (oget a i j) = true.
Proof. unfold has_one. rewrite existsb_exists. split.
  - intros (i & Hi & H). apply existsb_exists in H as (j & Hj & H). apply zrange_in in Hi, Hj. eauto.
  - intros (i & j & Hi & Hj & H). exists i. split; [apply zrange_in; assumption|].
    apply existsb_exists. exists j. split; [apply zrange_in; assumption|exact H]. Qed.

Lemma rescale_fld_arr a s post f' : rescale_fld (FArr a) s post = Ok f' ->
  exists r, util_rescale Cubic a s = Ok r /\ f' = OArr (omap (smap post) r).
Proof. cbn. intros H. apply rbind_ok in H as (r & Hr & H). injection H as <-. eauto. Qed.

Lemma rescale_masks_ok l s r : rescale_masks l s = Ok r ->
  Forall2 (fun a a' => util_rescale Nearest0 a s = Ok a') l r.
Proof. revert r. induction l as [|a t IH]; cbn; intros r H.
  - injection H as <-. constructor.
  - apply rbind_ok in H as (a' & Ha & H). apply rbind_ok in H as (rt & Ht & H). injection H as <-.
    constructor; auto. Qed.

Lemma Forall2_map_r {A B C} (R : A -> C -> Prop) (f : B -> C) l l' :
  Forall2 (fun a b => R a (f b)) l l' -> Forall2 R l (map f l').
Proof. induction 1; cbn; constructor; auto. Qed.

(* shape facts shared by the theorems *)
Definition shape_ok (a : qarr) (s : Qc) (a' : oarr) : Prop :=
  onr a' = rescale_shape (qnr a) s /\ onc a' = rescale_shape (qnc a) s.

Lemma Forall2_len {A B} (R : A -> B -> Prop) l l' : Forall2 R l l' -> length l = length l'.
Proof. induction 1; cbn; congruence. Qed.
Lemma Forall2_imp {A B} (R Q : A -> B -> Prop) l l' :
  (forall a b, R a b -> Q a b) -> Forall2 R l l' -> Forall2 Q l l'.
Proof. intros H. induction 1; constructor; auto. Qed.

(* ================= plane-level theorems ================= *)

(* (a) bookkeeping *)
Theorem rescale_bookkeeping P s P' : plane_rescale P s = Ok P' ->
  (forall a, p_amp P = FArr a -> exists a', o_amp P' = OArr a' /\
      onr a' = rescale_shape (qnr a) s /\ onc a' = rescale_shape (qnc a) s) /\
  (forall v, p_amp P = FScalar v -> o_amp P' = OScalar (v / s)) /\
  (forall a, p_opd P = FArr a -> exists a', o_opd P' = OArr a' /\
      onr a' = rescale_shape (qnr a) s /\ onc a' = rescale_shape (qnc a) s) /\
  (forall v, p_opd P = FScalar v -> o_opd P' = OScalar v) /\
  (forall a, p_mask P = MMono a -> exists a', o_mask P' = OMono a' /\
      onr a' = rescale_shape (qnr a) s /\ onc a' = rescale_shape (qnc a) s) /\
  (forall l, p_mask P = MCube l -> exists l', o_mask P' = OCube l' /\ length l' = length l /\
      Forall2 (fun a a' => onr a' = rescale_shape (qnr a) s /\ onc a' = rescale_shape (qnc a) s) l l') /\
  (forall px py, p_ps P = Some (px, py) -> o_ps P' = Some (px / s, py / s)) /\
  (p_ps P = None -> o_ps P' = None).
Proof. intros H. apply plane_rescale_inv in H as (Ha & Ho & Hm & Hp).
  repeat split.
  - intros a E. rewrite E in Ha. apply rescale_fld_arr in Ha as (r & Hr & ->).
    apply util_rescale_ok in Hr as (_ & H1 & H2 & _). eexists; split; [reflexivity|]. cbn. auto.
  - intros v E. rewrite E in Ha. cbn in Ha. now injection Ha as <-.
  - intros a E. rewrite E in Ho. apply rescale_fld_arr in Ho as (r & Hr & ->).
    apply util_rescale_ok in Hr as (_ & H1 & H2 & _). eexists; split; [reflexivity|]. cbn. auto.
  - intros v E. rewrite E in Ho. cbn in Ho. now injection Ho as <-.
  - intros a E. rewrite E in Hm. cbn in Hm. apply rbind_ok in Hm as (r & Hr & Hm). injection Hm as <-.
    apply util_rescale_ok in Hr as (_ & H1 & H2 & _). eexists; split; [reflexivity|]. cbn. auto.
  - intros l E. rewrite E in Hm. cbn in Hm. apply rbind_ok in Hm as (r & Hr & Hm). injection Hm as <-.
    apply rescale_masks_ok in Hr. eexists; split; [reflexivity|]. split.
    + rewrite map_length. symmetry. eapply Forall2_len; eassumption.
    + apply Forall2_map_r. eapply Forall2_imp; [|exact Hr]. cbn. intros a a' Hu.
      apply util_rescale_ok in Hu as (_ & H1 & H2 & _). auto.
  - intros px py E. rewrite Hp, E. reflexivity.
  - intros E. rewrite Hp, E. reflexivity.
Qed.

Theorem resample_is_rescale P new_ps :
  (p_ps P = None -> plane_resample P new_ps = Err ValueError) /\
  (forall px py, p_ps P = Some (px, py) -> px <> py -> plane_resample P new_ps = Err NotImplementedErr) /\
  (forall px, p_ps P = Some (px, px) -> plane_resample P new_ps = plane_rescale P (px / new_ps)).
Proof. unfold plane_resample. repeat split.
  - now intros ->.
  - intros px py -> Hne. unfold qeqb. destruct (px ?= py) eqn:E; try reflexivity.
    apply Qceq_alt in E. contradiction.
  - intros px ->. unfold qeqb. assert (E : (px ?= px) = Eq) by (apply Qceq_alt; reflexivity). now rewrite E.
Qed.

(* (b) identity at s = 1 *)
Lemma omap_get f a i j : oget (omap f a) i j = f (oget a i j). Proof. reflexivity. Qed.

Lemma util_rescale_one o a r : util_rescale o a 1 = Ok r ->
  onr r = qnr a /\ onc r = qnc a /\
  forall i j, (0 <= i < qnr a)%Z -> (0 <= j < qnc a)%Z -> oget r i j = Known (qget a i j).
Proof. intros H. apply util_rescale_ok in H as (_ & H1 & H2 & H3). rewrite rescale_shape_one in H1, H2.
  repeat split; auto. intros i j Hi Hj. rewrite H3, H1, H2, !coord_one.
  apply sample_node; apply node_zq; assumption. Qed.

Theorem identity_at_one P P' : plane_rescale P 1 = Ok P' ->
  (forall a, p_amp P = FArr a -> exists a', o_amp P' = OArr a' /\ onr a' = qnr a /\ onc a' = qnc a /\
      forall i j, (0 <= i < qnr a)%Z -> (0 <= j < qnc a)%Z -> oget a' i j = Known (qget a i j)) /\
  (forall a, p_opd P = FArr a -> exists a', o_opd P' = OArr a' /\ onr a' = qnr a /\ onc a' = qnc a /\
      forall i j, (0 <= i < qnr a)%Z -> (0 <= j < qnc a)%Z -> oget a' i j = Known (qget a i j)) /\
  (forall a, p_mask P = MMono a -> exists a', o_mask P' = OMono a' /\ onr a' = qnr a /\ onc a' = qnc a /\
      forall i j, (0 <= i < qnr a)%Z -> (0 <= j < qnc a)%Z ->
        oget a' i j = Known (if nz (qget a i j) then 1 else Q2Qc 0)) /\
  (forall l, p_mask P = MCube l -> exists l', o_mask P' = OCube l' /\
      Forall2 (fun a a' => onr a' = qnr a /\ onc a' = qnc a /\
        forall i j, (0 <= i < qnr a)%Z -> (0 <= j < qnc a)%Z ->
          oget a' i j = Known (if nz (qget a i j) then 1 else Q2Qc 0)) l l') /\
  o_ps P' = p_ps P /\
  (forall v, p_amp P = FScalar v -> o_amp P' = OScalar v).
Proof. intros H. apply plane_rescale_inv in H as (Ha & Ho & Hm & Hp). repeat split.
  - intros a E. rewrite E in Ha. apply rescale_fld_arr in Ha as (r & Hr & ->).
    apply util_rescale_one in Hr as (H1 & H2 & H3). eexists; split; [reflexivity|]. cbn [onr onc omap].
    repeat split; auto. intros i j Hi Hj. rewrite omap_get, H3 by assumption. cbn. f_equal. field. exact Qcanon.Q_apart_0_1.
  - intros a E. rewrite E in Ho. apply rescale_fld_arr in Ho as (r & Hr & ->).
    apply util_rescale_one in Hr as (H1 & H2 & H3). eexists; split; [reflexivity|]. cbn [onr onc omap].
    repeat split; auto. intros i j Hi Hj. rewrite omap_get, H3 by assumption. reflexivity.
  - intros a E. rewrite E in Hm. cbn in Hm. apply rbind_ok in Hm as (r & Hr & Hm). injection Hm as <-.
    apply util_rescale_one in Hr as (H1 & H2 & H3). eexists; split; [reflexivity|]. cbn [onr onc omap].
    repeat split; auto. intros i j Hi Hj. rewrite omap_get, H3 by assumption. reflexivity.
  - intros l E. rewrite E in Hm. cbn in Hm. apply rbind_ok in Hm as (r & Hr & Hm). injection Hm as <-.
    apply rescale_masks_ok in Hr. eexists; split; [reflexivity|].
    apply Forall2_map_r. eapply Forall2_imp; [|exact Hr]. cbn beta. intros a a' Hu.
    apply util_rescale_one in Hu as (H1 & H2 & H3). cbn [onr onc omap]. repeat split; auto.
    intros i j Hi Hj. rewrite omap_get, H3 by assumption. reflexivity.
  - rewrite Hp. destruct (p_ps P) as [[px py]|]; cbn; [|reflexivity]. f_equal. f_equal; field; exact Qcanon.Q_apart_0_1.
  - intros v E. rewrite E in Ha. cbn in Ha. injection Ha as <-. f_equal. field. exact Qcanon.Q_apart_0_1.
Qed.

(* (c) nodes of the sampling grid for integer factors and unit fractions *)
Lemma util_rescale_intfactor o a k r : (0 < k)%Z -> util_rescale o a (zq k) = Ok r ->
  onr r = (qnr a * k)%Z /\ onc r = (qnc a * k)%Z /\
  forall i j, (0 <= i < qnr a)%Z -> (0 <= j < qnc a)%Z -> oget r (k * i) (k * j) = Known (qget a i j).
Proof. intros Hk H. apply util_rescale_ok in H as (_ & H1 & H2 & H3). rewrite rescale_shape_int in H1, H2.
  repeat split; auto. intros i j Hi Hj. rewrite H3, H1, H2, !coord_int_node by assumption.
  apply sample_node; apply node_zq; assumption. Qed.

Theorem nodes_for_integer_factors P k P' : (0 < k)%Z -> plane_rescale P (zq k) = Ok P' ->
  (forall n j i, coord n (rescale_shape n (zq k)) (zq k) j = zq i <-> j = (k * i)%Z) /\
  (forall a, p_amp P = FArr a -> exists a', o_amp P' = OArr a' /\
      onr a' = (qnr a * k)%Z /\ onc a' = (qnc a * k)%Z /\
      forall i j, (0 <= i < qnr a)%Z -> (0 <= j < qnc a)%Z ->
        oget a' (k * i) (k * j) = Known (qget a i j / zq k)) /\
  (forall a, p_opd P = FArr a -> exists a', o_opd P' = OArr a' /\
      onr a' = (qnr a * k)%Z /\ onc a' = (qnc a * k)%Z /\
      forall i j, (0 <= i < qnr a)%Z -> (0 <= j < qnc a)%Z ->
        oget a' (k * i) (k * j) = Known (qget a i j)).
Proof. intros Hk H. apply plane_rescale_inv in H as (Ha & Ho & _ & _). repeat split.
  - rewrite rescale_shape_int. apply coord_int_node_iff; assumption.
  - rewrite rescale_shape_int. apply coord_int_node_iff; assumption.
  - intros a E. rewrite E in Ha. apply rescale_fld_arr in Ha as (r & Hr & ->).
    apply util_rescale_intfactor in Hr as (H1 & H2 & H3); [|assumption]. eexists; split; [reflexivity|].
    cbn [onr onc omap]. repeat split; auto. intros i j Hi Hj. rewrite omap_get, H3 by assumption. reflexivity.
  - intros a E. rewrite E in Ho. apply rescale_fld_arr in Ho as (r & Hr & ->).
    apply util_rescale_intfactor in Hr as (H1 & H2 & H3); [|assumption]. eexists; split; [reflexivity|].
    cbn [onr onc omap]. repeat split; auto. intros i j Hi Hj. rewrite omap_get, H3 by assumption. reflexivity.
Qed.

(* s = 1/k : x_j = k j - (k N - n)/2, a node iff k N - n is even (and the result is inside the array) *)
Lemma coord_unit_fraction n N k j : (0 < k)%Z ->
  coord n N (/ zq k) j = zq (k * j) - zq (k * N - n) / zq 2.
Proof. intros Hk. unfold coord. rewrite zq_sub, !zq_mul. field. nzq. Qed.

Lemma util_rescale_unitfraction o a k N M r : (0 < k)%Z -> qnr a = (k * N)%Z -> qnc a = (k * M)%Z ->
  util_rescale o a (/ zq k) = Ok r ->
  onr r = N /\ onc r = M /\
  forall i j, (0 <= i < N)%Z -> (0 <= j < M)%Z -> oget r i j = Known (qget a (k * i) (k * j)).
Proof. intros Hk En Em H. apply util_rescale_ok in H as (_ & H1 & H2 & H3).
  rewrite En in H1. rewrite Em in H2. rewrite rescale_shape_inv in H1, H2 by assumption.
  repeat split; auto. intros i j Hi Hj. rewrite H3, H1, H2, En, Em, !coord_inv by assumption.
  apply sample_node; apply node_zq; nia. Qed.

Theorem nodes_for_unit_fractions P k P' : (0 < k)%Z -> plane_rescale P (/ zq k) = Ok P' ->
  (forall n N j, coord n N (/ zq k) j = zq (k * j) - zq (k * N - n) / zq 2) /\
  (forall N, rescale_shape (k * N) (/ zq k) = N) /\
  (forall a N M, p_amp P = FArr a -> qnr a = (k * N)%Z -> qnc a = (k * M)%Z ->
      exists a', o_amp P' = OArr a' /\ onr a' = N /\ onc a' = M /\
      forall i j, (0 <= i < N)%Z -> (0 <= j < M)%Z ->
        oget a' i j = Known (qget a (k * i) (k * j) / / zq k)) /\
  (forall a N M, p_opd P = FArr a -> qnr a = (k * N)%Z -> qnc a = (k * M)%Z ->
      exists a', o_opd P' = OArr a' /\ onr a' = N /\ onc a' = M /\
      forall i j, (0 <= i < N)%Z -> (0 <= j < M)%Z ->
        oget a' i j = Known (qget a (k * i) (k * j))).
Proof. intros Hk H. apply plane_rescale_inv in H as (Ha & Ho & _ & _). repeat split.
  - intros. apply coord_unit_fraction; assumption.
  - intros. apply rescale_shape_inv; assumption.
  - intros a N M E En Em. rewrite E in Ha. apply rescale_fld_arr in Ha as (r & Hr & ->).
    eapply util_rescale_unitfraction in Hr as (H1 & H2 & H3); eauto. eexists; split; [reflexivity|].
    cbn [onr onc omap]. repeat split; auto. intros i j Hi Hj. rewrite omap_get, H3 by assumption. reflexivity.
  - intros a N M E En Em. rewrite E in Ho. apply rescale_fld_arr in Ho as (r & Hr & ->).
    eapply util_rescale_unitfraction in Hr as (H1 & H2 & H3); eauto. eexists; split; [reflexivity|].
    cbn [onr onc omap]. repeat split; auto. intros i j Hi Hj. rewrite omap_get, H3 by assumption. reflexivity.
Qed.

(* (d) what a pinned sample is *)
Lemma smap_known f x v : smap f x = Known v -> exists u, x = Known u /\ v = f u.
Proof. destruct x; cbn; try discriminate. intros H; injection H as <-. eauto. Qed.

Theorem known_samples_spec P s P' : plane_rescale P s = Ok P' ->
  (forall a a' i j v, p_amp P = FArr a -> o_amp P' = OArr a' -> oget a' i j = Known v ->
     (exists y x, coord (qnr a) (onr a') s i = zq y /\ (0 <= y < qnr a)%Z /\
                  coord (qnc a) (onc a') s j = zq x /\ (0 <= x < qnc a)%Z /\ v = qget a y x / s)
     \/ (v = 0 /\ zero_cluster a (coord (qnr a) (onr a') s i) (coord (qnc a) (onc a') s j) = true)) /\
  (forall a a' i j v, p_opd P = FArr a -> o_opd P' = OArr a' -> oget a' i j = Known v ->
     (exists y x, coord (qnr a) (onr a') s i = zq y /\ (0 <= y < qnr a)%Z /\
                  coord (qnc a) (onc a') s j = zq x /\ (0 <= x < qnc a)%Z /\ v = qget a y x)
     \/ (v = 0 /\ zero_cluster a (coord (qnr a) (onr a') s i) (coord (qnc a) (onc a') s j) = true)) /\
  (forall a a' i j y x, p_amp P = FArr a -> o_amp P' = OArr a' ->
     coord (qnr a) (onr a') s i = zq y -> (0 <= y < qnr a)%Z ->
     coord (qnc a) (onc a') s j = zq x -> (0 <= x < qnc a)%Z -> oget a' i j = Known (qget a y x / s)) /\
  (forall a a' i j y x, p_opd P = FArr a -> o_opd P' = OArr a' ->
     coord (qnr a) (onr a') s i = zq y -> (0 <= y < qnr a)%Z ->
     coord (qnc a) (onc a') s j = zq x -> (0 <= x < qnc a)%Z -> oget a' i j = Known (qget a y x)).
Proof. intros H. apply plane_rescale_inv in H as (Ha & Ho & _ & _). repeat split.
  - intros a a' i j v E E' Hv. rewrite E in Ha. apply rescale_fld_arr in Ha as (r & Hr & Hf).
    rewrite E' in Hf. injection Hf as ->. apply util_rescale_ok in Hr as (_ & _ & _ & H3).
    rewrite omap_get in Hv. apply smap_known in Hv as (u & Hu & ->). cbn [onr onc omap]. rewrite H3 in Hu.
    apply sample_known_spec in Hu as [(y & x & Hy & Hyr & Hx & Hxr & ->)|[(-> & _ & Hz)|(_ & Hc & _)]].
    + left. exists y, x. auto.
    + right. split; [|exact Hz]. unfold Qcdiv. ring.
    + discriminate.
  - intros a a' i j v E E' Hv. rewrite E in Ho. apply rescale_fld_arr in Ho as (r & Hr & Hf).
    rewrite E' in Hf. injection Hf as ->. apply util_rescale_ok in Hr as (_ & _ & _ & H3).
    rewrite omap_get in Hv. apply smap_known in Hv as (u & Hu & ->). cbn [onr onc omap]. rewrite H3 in Hu.
    apply sample_known_spec in Hu as [(y & x & Hy & Hyr & Hx & Hxr & ->)|[(-> & _ & Hz)|(_ & Hc & _)]].
    + left. exists y, x. auto.
    + right. auto.
    + discriminate.
  - intros a a' i j y x E E' Hy Hyr Hx Hxr. rewrite E in Ha. apply rescale_fld_arr in Ha as (r & Hr & Hf).
    rewrite E' in Hf. injection Hf as ->. apply util_rescale_ok in Hr as (_ & _ & _ & H3).
    cbn [onr onc omap] in Hy, Hx. rewrite omap_get, H3, Hy, Hx.
    rewrite (sample_node _ _ _ _ y x) by (apply node_zq; assumption). reflexivity.
  - intros a a' i j y x E E' Hy Hyr Hx Hxr. rewrite E in Ho. apply rescale_fld_arr in Ho as (r & Hr & Hf).
    rewrite E' in Hf. injection Hf as ->. apply util_rescale_ok in Hr as (_ & _ & _ & H3).
    cbn [onr onc omap] in Hy, Hx. rewrite omap_get, H3, Hy, Hx.
    rewrite (sample_node _ _ _ _ y x) by (apply node_zq; assumption). reflexivity.
Qed.

(* mask: every sample is pinned (nearest neighbour, ties up, 0 outside [0, n-1]) and binary *)
Definition nn_mask (a : qarr) (s : Qc) (N M i j : Z) : bool :=
  let y := coord (qnr a) N s i in let x := coord (qnc a) M s j in
  in_closed (qnr a) y && in_closed (qnc a) x && nz (qget a (rnd y) (rnd x)).

Lemma mask_arr_spec a s r : util_rescale Nearest0 a s = Ok r ->
  forall i j, oget (omap binarise r) i j = Known (if nn_mask a s (onr r) (onc r) i j then 1 else Q2Qc 0).
Proof. intros H i j. apply util_rescale_ok in H as (_ & _ & _ & H3).
  rewrite omap_get, H3, sample_nearest_spec. reflexivity. Qed.

Theorem mask_nearest_neighbour P s P' : plane_rescale P s = Ok P' ->
  (forall a, p_mask P = MMono a -> exists a', o_mask P' = OMono a' /\
     forall i j, oget a' i j =
       Known (if in_closed (qnr a) (coord (qnr a) (onr a') s i) && in_closed (qnc a) (coord (qnc a) (onc a') s j)
                 && nz (qget a (rnd (coord (qnr a) (onr a') s i)) (rnd (coord (qnc a) (onc a') s j)))
              then 1 else Q2Qc 0)) /\
  (forall l, p_mask P = MCube l -> exists l', o_mask P' = OCube l' /\ length l' = length l /\
     Forall2 (fun a a' => forall i j, oget a' i j =
       Known (if in_closed (qnr a) (coord (qnr a) (onr a') s i) && in_closed (qnc a) (coord (qnc a) (onc a') s j)
                 && nz (qget a (rnd (coord (qnr a) (onr a') s i)) (rnd (coord (qnc a) (onc a') s j)))
              then 1 else Q2Qc 0)) l l').
Proof. intros H. apply plane_rescale_inv in H as (_ & _ & Hm & _). split.
  - intros a E. rewrite E in Hm. cbn in Hm. apply rbind_ok in Hm as (r & Hr & Hm). injection Hm as <-.
    eexists; split; [reflexivity|]. intros i j. rewrite (mask_arr_spec _ _ _ Hr). reflexivity.
  - intros l E. rewrite E in Hm. cbn in Hm. apply rbind_ok in Hm as (r & Hr & Hm). injection Hm as <-.
    apply rescale_masks_ok in Hr. eexists; split; [reflexivity|]. split.
    + rewrite map_length. symmetry. eapply Forall2_len; eassumption.
    + apply Forall2_map_r. eapply Forall2_imp; [|exact Hr]. cbn beta. intros a a' Hu i j.
      rewrite (mask_arr_spec _ _ _ Hu). reflexivity.
Qed.

Lemma known_b2q_true (b : bool) : Known (if b then 1 else Q2Qc 0) = Known 1 -> b = true.
Proof. destruct b; [reflexivity|]. intros H.
  apply (f_equal (fun x => match x with Known v => v | _ => 1 end)) in H. symmetry in H. destruct (Qcanon.Q_apart_0_1 H). Qed.

(* segments that do not overlap before do not overlap after *)
Theorem segments_stay_disjoint a b s a' b' :
  util_rescale Nearest0 a s = Ok a' -> util_rescale Nearest0 b s = Ok b' ->
  qnr a = qnr b -> qnc a = qnc b ->
  (forall y x, nz (qget a y x) && nz (qget b y x) = false) ->
  forall i j, ~ (oget (omap binarise a') i j = Known 1 /\ oget (omap binarise b') i j = Known 1).
Proof. intros Ha Hb En Em Hd i j [H1 H2].
  rewrite (mask_arr_spec _ _ _ Ha) in H1. rewrite (mask_arr_spec _ _ _ Hb) in H2.
  apply util_rescale_ok in Ha as (_ & Ha1 & Ha2 & _). apply util_rescale_ok in Hb as (_ & Hb1 & Hb2 & _).
  unfold nn_mask in *. rewrite Hb1, Hb2, <- En, <- Em, <- Ha1, <- Ha2 in H2.
  set (y := coord (qnr a) (onr a') s i) in *. set (x := coord (qnc a) (onc a') s j) in *.
  specialize (Hd (rnd y) (rnd x)).
  apply known_b2q_true in H1. apply known_b2q_true in H2.
  apply andb_prop in H1 as [_ H1]. apply andb_prop in H2 as [_ H2].
  rewrite H1, H2 in Hd. discriminate.
Qed.

(* integer / bool arrays are handled exactly like their float casts *)
Lemma rescale_masks_as_float l s : rescale_masks (map as_float l) s = rescale_masks l s.
Proof. induction l as [|a t IH]; cbn; [reflexivity|]. rewrite IH. reflexivity. Qed.

Theorem integer_arrays_like_float_casts P s :
  plane_rescale (plane_as_float P) s = plane_rescale P s /\
  (forall new_ps, plane_resample (plane_as_float P) new_ps = plane_resample P new_ps) /\
  (forall o a, exists r, util_rescale o a s = Ok r).
Proof.
  assert (E : forall s, plane_rescale (plane_as_float P) s = plane_rescale P s).
  { intros s0. unfold plane_rescale, plane_as_float; cbn [p_amp p_opd p_mask p_ps].
    assert (Ef : forall f post, rescale_fld (fld_as_float f) s0 post = rescale_fld f s0 post) by (intros [v|a] post; reflexivity).
    assert (Em : rescale_msk (msk_as_float (p_mask P)) s0 = rescale_msk (p_mask P) s0).
    { unfold rescale_msk. destruct (p_mask P) as [v|a|l]; cbn [msk_as_float rescale_msk0]; try reflexivity.
      rewrite rescale_masks_as_float. reflexivity. }
    rewrite !Ef, Em. reflexivity. }
  repeat split.
  - apply E.
  - intros new_ps. unfold plane_resample. cbn [plane_as_float p_ps].
    destruct (p_ps P) as [[px py]|]; [|reflexivity]. destruct (qeqb px py); [apply E|reflexivity].
  - intros o a. apply util_rescale_total.
Qed.

(* no segment vanishes silently: a successful call leaves at least one sample set in the mask / in every segment;
   a mask or segment that would come out empty makes the call raise IndexError *)
Theorem no_segment_vanishes P s :
  (forall P', plane_rescale P s = Ok P' ->
     (forall a', o_mask P' = OMono a' -> exists i j, (0 <= i < onr a')%Z /\ (0 <= j < onc a')%Z /\ oget a' i j = Known 1) /\
     (forall l', o_mask P' = OCube l' -> Forall (fun a' =>
        exists i j, (0 <= i < onr a')%Z /\ (0 <= j < onc a')%Z /\ oget a' i j = Known 1) l')) /\
  (forall fa fo m0, rescale_fld (p_amp P) s (fun v => v / s) = Ok fa -> rescale_fld (p_opd P) s (fun v => v) = Ok fo ->
     rescale_msk0 (p_mask P) s = Ok m0 -> nonempty_msk m0 = false -> plane_rescale P s = Err IndexError).
Proof. split.
  - intros P' H. pose proof (plane_rescale_nonempty _ _ _ H) as Hne.
    pose proof (mask_nearest_neighbour _ _ _ H) as [Hmono Hcube].
    apply plane_rescale_inv in H as (_ & _ & Hm & _). split.
    + intros a' E. rewrite E in Hne. cbn in Hne. apply has_one_spec in Hne as (i & j & Hi & Hj & H1).
      exists i, j. repeat split; try lia.
      destruct (p_mask P) as [v|a|l] eqn:Em; cbn in Hm; try discriminate.
      * destruct (Hmono a eq_refl) as (a2 & E2 & Hs). rewrite E in E2. injection E2 as <-.
        rewrite Hs in H1 |- *. destruct (_ && _ && _); [reflexivity|discriminate].
      * apply rbind_ok in Hm as (r & _ & Hm). rewrite E in Hm. discriminate.
    + intros l' E. rewrite E in Hne. cbn in Hne.
      destruct (p_mask P) as [v|a|l] eqn:Em; cbn in Hm; try discriminate.
      * apply rbind_ok in Hm as (r & _ & Hm). rewrite E in Hm. discriminate.
      * destruct (Hcube l eq_refl) as (l2 & E2 & _ & HF). rewrite E in E2. injection E2 as <-.
        rewrite forallb_forall in Hne. apply Forall_forall. intros a' Hin.
        specialize (Hne a' Hin). apply has_one_spec in Hne as (i & j & Hi & Hj & H1).
        assert (Hs : forall i j, exists b : bool, oget a' i j = Known (if b then 1 else Q2Qc 0)).
        { clear - HF Hin. induction HF as [|a b l l' Hab HF IH]; [contradiction|].
          destruct Hin as [<-|Hin]; [|auto]. intros i j. eexists. apply Hab. }
        exists i, j. repeat split; try lia.
        destruct (Hs i j) as (b & Hb). rewrite Hb in H1 |- *. destruct b; [reflexivity|discriminate].
  - intros fa fo m0 Ha Ho Hm Hne. unfold plane_rescale, rescale_msk. rewrite Ha, Ho, Hm. cbn. rewrite Hne. reflexivity.
Qed.

(* a scalar amplitude v becomes v/s: the same value an array of the constant v gets at every pinned sample *)
Theorem scalar_amplitude_divided P s v :
  p_amp P = FScalar v ->
  (forall P', plane_rescale P s = Ok P' -> o_amp P' = OScalar (v / s)) /\
  (forall a Pa' a' i j u, (forall y x, qget a y x = v) ->
     plane_rescale (mkPlane (FArr a) (p_opd P) (p_mask P) (p_ps P) (p_tilt P)) s = Ok Pa' ->
     o_amp Pa' = OArr a' -> oget a' i j = Known u -> u = v / s).
Proof. intros Ev. split.
  - intros P' H. apply plane_rescale_inv in H as (Ha & _). rewrite Ev in Ha. cbn in Ha. now injection Ha as <-.
  - intros a Pa' a' i j u Hc H E Hu.
    destruct (known_samples_spec _ _ _ H) as (K & _). cbn [p_amp] in K.
    destruct (K a a' i j u eq_refl E Hu) as [(y & x & _ & _ & _ & _ & ->)|(-> & Hz)].
    + now rewrite Hc.
    + unfold zero_cluster in Hz. rewrite !Hc in Hz. destruct (nz v) eqn:Ez; [discriminate|].
      apply nz_false in Ez. subst v. unfold Qcdiv. ring.
Qed.

Lemma sample_ext o a b y x :
  qnr a = qnr b -> qnc a = qnc b -> (forall i j, qget a i j = qget b i j) -> sample o a y x = sample o b y x.
Proof. intros En Em Eg. unfold sample, zero_cluster. cbv zeta. rewrite En, Em.
  destruct (node (qnr b) y); [destruct (node (qnc b) x)|]; rewrite ?Eg; reflexivity. Qed.

(* no hidden state: the samples util.rescale produces depend only on the CURRENT shape and sample values of its
   input (two arrays that agree sample by sample give results that agree sample by sample, whatever happened before) *)
Theorem result_depends_on_current_samples_only o a b s r r' :
  qnr a = qnr b -> qnc a = qnc b -> (forall i j, qget a i j = qget b i j) ->
  util_rescale o a s = Ok r -> util_rescale o b s = Ok r' ->
  onr r = onr r' /\ onc r = onc r' /\ forall i j, oget r i j = oget r' i j.
Proof. intros En Em Eg Ha Hb.
  apply util_rescale_ok in Ha as (_ & A1 & A2 & A3). apply util_rescale_ok in Hb as (_ & B1 & B2 & B3).
  assert (E1 : onr r = onr r') by (rewrite A1, B1, En; reflexivity). assert (E2 : onc r = onc r') by (rewrite A2, B2, Em; reflexivity).
  repeat split; auto. intros i j. rewrite A3, B3, E1, E2, En, Em. apply sample_ext; assumption. Qed.

Lemma ceil_spec n s :
  zq n * s <= zq (rescale_shape n s) /\ zq (rescale_shape n s) < zq n * s + 1 /\
  (forall c : Z, zq n * s <= zq c -> zq c < zq n * s + 1 -> rescale_shape n s = c) /\
  ((0 < n)%Z -> 0 < s -> (0 < rescale_shape n s)%Z).
Proof. repeat split; [apply qceil_ge|apply qceil_lt|intros c; apply qceil_unique|apply rescale_shape_pos]. Qed.

Lemma nonvacuous :
  let a := mkQ 2 4 (fun i j => zq (1 + i + 2 * j)) false in
  let P := mkPlane (FArr a) (FScalar (Q2Qc 0)) (MMono a) (Some (1, 1)) [] in
  exists P' a' m', plane_rescale P (zq 3 / zq 2) = Ok P' /\ o_amp P' = OArr a' /\ o_mask P' = OMono m' /\
    onr a' = 3%Z /\ onc a' = 6%Z /\ o_ps P' = Some (zq 2 / zq 3, zq 2 / zq 3) /\
    oget a' 0 0 = Known (zq 1 / (zq 3 / zq 2)) /\ oget a' 0 3 = Known (zq 5 / (zq 3 / zq 2)) /\
    oget a' 1 1 = Unknown /\ oget m' 1 1 = Known 1.
Proof. cbv zeta. eexists; eexists; eexists. split; [reflexivity|]. split; [reflexivity|]. split; [reflexivity|].
  repeat split; apply f_equal || idtac; try (vm_compute; reflexivity).
Qed.

(* ================= the general lentil.rescale (all arguments) ================= *)
Lemma rescale_gen_default o img s : rescale_gen o img s ShNone None false = util_rescale o img s.
Proof. reflexivity. Qed.

Lemma rescale_gen_shape o img s sh pm u r : rescale_gen o img s sh pm u = Ok r ->
  True /\ (onr r, onc r) = gen_shape img sh s.
Proof. unfold rescale_gen. destruct (gen_shape img sh s) as [N M].
  destruct u.
  - destruct (unitary_factor _ _ _ _) as [f|]; [destruct (nz f)|]; intros H; injection H as <-; auto.
  - intros H; injection H as <-; auto. Qed.

Theorem general_shape o img s sh pm u :
  (forall r, rescale_gen o img s sh pm u = Ok r ->
     match sh with
     | ShNone => onr r = rescale_shape (qnr img) s /\ onc r = rescale_shape (qnc img) s
     | ShScalar a => onr r = rescale_shape a s /\ onc r = rescale_shape a s
     | ShPair a b => onr r = rescale_shape a s /\ onc r = rescale_shape b s
     end) /\
  (exists r, rescale_gen o img s sh pm u = Ok r) /\
  rescale_gen o img s ShNone None false = util_rescale o img s /\
  (forall mk eps, rescale_gen o img s sh (Some (as_float mk, eps)) u = rescale_gen o img s sh (Some (mk, eps)) u) /\
  rescale_gen o (as_float img) s sh pm u = rescale_gen o img s sh pm u.
Proof. repeat split.
  - intros r H. apply rescale_gen_shape in H as (_ & H). destruct sh; cbn in H; injection H; auto.
  - unfold rescale_gen. destruct (gen_shape img sh s) as [N M]. destruct u; [|eauto].
    destruct (unitary_factor _ _ _ _) as [f|]; [destruct (nz f)|]; eauto. Qed.

(* non-unitary call with an explicit mask: what every output sample is *)
Lemma rescale_gen_plain_get o img s sh pm r : rescale_gen o img s sh pm false = Ok r ->
  forall i j, oget r i j = sample_gen o img pm (coord (qnr img) (onr r) s i) (coord (qnc img) (onc r) s j).
Proof. unfold rescale_gen. destruct (gen_shape img sh s) as [N M]. intros H; injection H as <-. reflexivity. Qed.

Lemma thr_spec eps v : thr eps v = (if qlt v eps then Q2Qc 0 else v). Proof. reflexivity. Qed.
Lemma qlt_spec x y : qlt x y = true <-> x < y.
Proof. unfold qlt. rewrite Qclt_alt. destruct (x ?= y); split; intros; congruence. Qed.

Theorem explicit_mask_spec o img s sh mk eps r :
  rescale_gen o img s sh (Some (mk, eps)) false = Ok r ->
  qnr mk = qnr img -> qnc mk = qnc img ->
  (forall i j y x, coord (qnr img) (onr r) s i = zq y -> (0 <= y < qnr img)%Z ->
                   coord (qnc img) (onc r) s j = zq x -> (0 <= x < qnc img)%Z ->
     oget r i j = Known (qget img y x * (if qlt (qget mk y x) eps then Q2Qc 0 else qget mk y x))) /\
  (forall i j, zero_cluster mk (coord (qnr img) (onr r) s i) (coord (qnc img) (onc r) s j) = true ->
     node (qnr img) (coord (qnr img) (onr r) s i) = None \/ node (qnc img) (coord (qnc img) (onc r) s j) = None ->
     oget r i j = Known (Q2Qc 0)).
Proof. intros H En Em. pose proof (rescale_gen_plain_get _ _ _ _ _ _ H) as G. split.
  - intros i j y x Hy Hyr Hx Hxr. rewrite G, Hy, Hx. unfold sample_gen, pre_sample, post_sample.
    rewrite En, Em, !node_zq by assumption. reflexivity.
  - intros i j Hz Hn. rewrite G. unfold sample_gen, pre_sample, post_sample. rewrite En, Em.
    set (y := coord (qnr img) (onr r) s i) in *. set (x := coord (qnc img) (onc r) s j) in *.
    assert (P : (match node (qnr img) y with Some i0 => match node (qnc img) x with Some j0 => Known (thr eps (qget mk i0 j0)) | None => if zero_cluster mk y x then Known (Q2Qc 0) else Unknown end
                 | None => if zero_cluster mk y x then Known (Q2Qc 0) else Unknown end) = Known (Q2Qc 0)).
    { rewrite Hz. destruct Hn as [-> | Hn]; [reflexivity|]. rewrite Hn. destruct (node (qnr img) y); reflexivity. }
    rewrite P. unfold smul.
    destruct (match node (qnr img) y with Some i0 => match node (qnc img) x with Some j0 => Known (qget img i0 j0) | None => _ end | None => _ end) as [u| |];
      cbn; try reflexivity. f_equal. ring. Qed.

(* sums *)
Lemma qsum_list_scale f l : qsum_list (map (fun v => v * f) l) = qsum_list l * f.
Proof. induction l as [|a t IH]; cbn [map qsum_list fold_right]; [ring|]. fold (qsum_list (map (fun v => v * f) t)). fold (qsum_list t). rewrite IH. ring. Qed.
Lemma qsum2_scale n m g f : qsum2 n m (fun i j => g i j * f) = qsum2 n m g * f.
Proof. unfold qsum2. rewrite <- qsum_list_scale, map_map. f_equal. apply map_ext. intros i.
  rewrite <- qsum_list_scale, map_map. reflexivity. Qed.

Theorem unitary_preserves_total img N M pre f :
  unitary_factor img N M pre = Some f ->
  qsum2 N M (fun i j => val0 (pre i j) * f) = qsum2 (qnr img) (qnc img) (qget img) /\
  all_known N M pre = true /\ qsum2 N M (fun i j => val0 (pre i j)) <> 0.
Proof. unfold unitary_factor. destruct (all_known N M pre) eqn:A; [|discriminate].
  set (t := qsum2 N M (fun i j => val0 (pre i j))). destruct (nz t) eqn:Ez; [|discriminate].
  intros H; injection H as <-. assert (Ht : t <> 0) by (intros E; rewrite E in Ez; discriminate).
  repeat split; auto. rewrite qsum2_scale. fold t. field. exact Ht. Qed.

Theorem unitary_result o img s sh pm r :
  rescale_gen o img s sh pm true = Ok r ->
  let N := onr r in let M := onc r in
  let pre := fun i j => pre_sample o img (coord (qnr img) N s i) (coord (qnc img) M s j) in
  match unitary_factor img N M pre with
  | Some f =>
      qsum2 N M (fun i j => val0 (pre i j) * f) = qsum2 (qnr img) (qnc img) (qget img) /\
      (nz f = true -> forall i j, oget r i j = smap (fun v => v * f) (sample_gen o img pm (coord (qnr img) N s i) (coord (qnc img) M s j))) /\
      (nz f = false -> forall i j, oget r i j = Known (Q2Qc 0))
  | None => forall i j, oget r i j = Unknown
  end.
Proof. unfold rescale_gen. destruct (gen_shape img sh s) as [N M].
  destruct (unitary_factor img N M _) as [f|] eqn:U.
  - destruct (nz f) eqn:Ef; intros H; injection H as <-; cbn [onr onc oget]; rewrite U; (split; [apply (unitary_preserves_total _ _ _ _ _ U)|]);
      split; intros; try congruence; reflexivity.
  - intros H; injection H as <-. cbn [onr onc oget]. rewrite U. reflexivity. Qed.

(* the detector.pixelate configuration: s = 1/k with k dividing both sizes, default mask, unitary *)
Lemma all_known_intro N M f :
  (forall i j, (0 <= i < N)%Z -> (0 <= j < M)%Z -> exists v, f i j = Known v) -> all_known N M f = true.
Proof. intros H. unfold all_known. apply forallb_forall. intros i Hi. apply forallb_forall. intros j Hj.
  apply zrange_in in Hi, Hj. destruct (H i j Hi Hj) as (v & ->). reflexivity. Qed.

Lemma qsum2_ext N M f g : (forall i j, (0 <= i < N)%Z -> (0 <= j < M)%Z -> f i j = g i j) -> qsum2 N M f = qsum2 N M g.
Proof. intros H. unfold qsum2. f_equal. apply map_ext_in. intros i Hi. f_equal. apply map_ext_in. intros j Hj.
  apply zrange_in in Hi, Hj. auto. Qed.

Lemma nz_true v : v <> 0 -> nz v = true.
Proof. intros H. destruct (nz v) eqn:E; [reflexivity|]. apply nz_false in E. contradiction. Qed.

Lemma pre_sample_node o img y x i j :
  node (qnr img) y = Some i -> node (qnc img) x = Some j -> pre_sample o img y x = Known (qget img i j).
Proof. intros Hy Hx. unfold pre_sample. now rewrite Hy, Hx. Qed.

Theorem unit_fraction_unitary img k N M r : (0 < k)%Z -> qnr img = (k * N)%Z -> qnc img = (k * M)%Z ->
  let t := qsum2 N M (fun i j => qget img (k * i) (k * j)) in
  t <> 0 ->
  rescale_gen Cubic img (/ zq k) ShNone None true = Ok r ->
  onr r = N /\ onc r = M /\
  (forall i j, (0 <= i < N)%Z -> (0 <= j < M)%Z ->
     oget r i j = Known (qget img (k * i) (k * j) * (qsum2 (qnr img) (qnc img) (qget img) / t))) /\
  qsum2 N M (fun i j => qget img (k * i) (k * j) * (qsum2 (qnr img) (qnc img) (qget img) / t))
    = qsum2 (qnr img) (qnc img) (qget img).
Proof. intros Hk En Em t Ht. unfold rescale_gen, gen_shape. rewrite En, Em, !rescale_shape_inv by assumption.
  rewrite <- En, <- Em.
  set (pre := fun i j => pre_sample Cubic img (coord (qnr img) N (/ zq k) i) (coord (qnc img) M (/ zq k) j)).
  assert (Hpre : forall i j, (0 <= i < N)%Z -> (0 <= j < M)%Z -> pre i j = Known (qget img (k * i) (k * j))).
  { intros i j Hi Hj. unfold pre. rewrite En, Em, !coord_inv by assumption.
    apply pre_sample_node; apply node_zq; nia. }
  assert (Hall : all_known N M pre = true) by (apply all_known_intro; intros i j Hi Hj; rewrite Hpre by assumption; eauto).
  assert (Hsum : qsum2 N M (fun i j => val0 (pre i j)) = t)
    by (apply qsum2_ext; intros i j Hi Hj; rewrite Hpre by assumption; reflexivity).
  unfold unitary_factor. rewrite Hall, Hsum, (nz_true _ Ht).
  set (f := qsum2 (qnr img) (qnc img) (qget img) / t).
  assert (Hs : forall i j, (0 <= i < N)%Z -> (0 <= j < M)%Z ->
            sample_gen Cubic img None (coord (qnr img) N (/ zq k) i) (coord (qnc img) M (/ zq k) j) = Known (qget img (k * i) (k * j))).
  { intros i j Hi Hj. cbn [sample_gen]. rewrite En, Em, !coord_inv by assumption.
    apply sample_node; apply node_zq; nia. }
  assert (Htot : qsum2 N M (fun i j => qget img (k * i) (k * j) * f) = qsum2 (qnr img) (qnc img) (qget img)).
  { rewrite qsum2_scale. fold t. unfold f. field. exact Ht. }
  destruct (nz f) eqn:Ef; intros H; injection H as <-; cbn [onr onc oget]; repeat split; auto.
  - intros i j Hi Hj. change (sample Cubic img) with (sample_gen Cubic img None). rewrite Hs by assumption. reflexivity.
  - intros i j Hi Hj. apply nz_false in Ef. rewrite Ef. f_equal. ring. Qed.

(* non-vacuity instances for the general rescale *)
Definition ex_img : qarr := mkQ 4 4 (fun i j => zq (1 + i + 4 * j)) false.
Definition ex_mask : qarr := mkQ 4 4 (fun i j => if (i =? 0)%Z then Q2Qc (1 # 1000000) else if (j =? 0)%Z then Q2Qc 0 else zq 2) false.

Lemma ex_general_shape :
  (exists r, rescale_gen Cubic ex_img (zq 3 / zq 2) (ShScalar 5) None false = Ok r /\ onr r = 8%Z /\ onc r = 8%Z) /\
  (exists r, rescale_gen Nearest0 ex_img (zq 3 / zq 2) (ShPair 2 5) None false = Ok r /\ onr r = 3%Z /\ onc r = 8%Z).
Proof. repeat split; try (eexists; split; [reflexivity|]; split; vm_compute; reflexivity). Qed.

Lemma ex_explicit_mask :
  exists r, rescale_gen Cubic ex_img (zq 2) ShNone (Some (ex_mask, Q2Qc (1 # 1000))) false = Ok r /\
    oget r 2 2 = Known (zq 12) /\          (* node (1,1): img = 6, mask = 2 *)
    oget r 0 2 = Known (Q2Qc 0) /\         (* node (0,1): mask 1e-6 < eps = 1e-3 -> 0 *)
    oget r 2 0 = Known (Q2Qc 0) /\         (* node (1,0): mask 0 *)
    oget r 3 3 = Unknown.
Proof. eexists; split; [reflexivity|]. repeat split; vm_compute; reflexivity. Qed.

Lemma ex_unit_fraction_unitary :
  exists r, rescale_gen Cubic ex_img (/ zq 2) ShNone None true = Ok r /\ onr r = 2%Z /\ onc r = 2%Z /\
    oget r 0 0 = Known (zq 1 * (zq 136 / zq 24)) /\ oget r 1 1 = Known (zq 11 * (zq 136 / zq 24)).
Proof. eexists; split; [reflexivity|]. repeat split; vm_compute; reflexivity. Qed.

Lemma ex_unitary_poisoned :
  exists r, rescale_gen Cubic ex_img (zq 3 / zq 2) ShNone None true = Ok r /\ oget r 0 0 = Unknown.
Proof. eexists; split; [reflexivity|]. vm_compute; reflexivity. Qed.

(* ================= tilt bookkeeping and plane._slice ================= *)
Lemma first_from_spec f s n x : first_from f s n = Some x ->
  (s <= x < s + Z.of_nat n)%Z /\ f x = true /\ forall y, (s <= y < x)%Z -> f y = false.
Proof. revert s. induction n as [|n IH]; intros s; cbn [first_from]; [discriminate|].
  destruct (f s) eqn:E.
  - intros H; injection H as <-. repeat split; try lia; auto; try (intros; lia).
  - intros H. apply IH in H as (H1 & H2 & H3). repeat split; try lia; auto.
    intros y Hy. destruct (Z.eq_dec y s) as [->|]; [exact E|apply H3; lia]. Qed.
Lemma first_from_none f s n : first_from f s n = None -> forall y, (s <= y < s + Z.of_nat n)%Z -> f y = false.
Proof. revert s. induction n as [|n IH]; intros s; cbn [first_from]; [intros; lia|].
  destruct (f s) eqn:E; [discriminate|]. intros H y Hy. destruct (Z.eq_dec y s) as [->|]; [exact E|apply (IH _ H); lia]. Qed.
Lemma last_from_spec f s n x : last_from f s n = Some x ->
  (s - Z.of_nat n < x <= s)%Z /\ f x = true /\ forall y, (x < y <= s)%Z -> f y = false.
Proof. revert s. induction n as [|n IH]; intros s; cbn [last_from]; [discriminate|].
  destruct (f s) eqn:E.
  - intros H; injection H as <-. repeat split; try lia; auto; try (intros; lia).
  - intros H. apply IH in H as (H1 & H2 & H3). repeat split; try lia; auto.
    intros y Hy. destruct (Z.eq_dec y s) as [->|]; [exact E|apply H3; lia]. Qed.
Lemma last_from_none f s n : last_from f s n = None -> forall y, (s - Z.of_nat n < y <= s)%Z -> f y = false.
Proof. revert s. induction n as [|n IH]; intros s; cbn [last_from]; [intros; lia|].
  destruct (f s) eqn:E; [discriminate|]. intros H y Hy. destruct (Z.eq_dec y s) as [->|]; [exact E|apply (IH _ H); lia]. Qed.

Lemma row_has_spec a i : row_has a i = true <-> exists j, (0 <= j < onc a)%Z /\ is_one (oget a i j) = true.
Proof. unfold row_has. rewrite existsb_exists. split; intros (j & H1 & H2); exists j; split; auto; apply zrange_in; auto. Qed.
Lemma col_has_spec a j : col_has a j = true <-> exists i, (0 <= i < onr a)%Z /\ is_one (oget a i j) = true.
Proof. unfold col_has. rewrite existsb_exists. split; intros (i & H1 & H2); exists i; split; auto; apply zrange_in; auto. Qed.

(* the tight bounding box of the set samples *)
Definition tight_box (a : oarr) (b : Z * Z * Z * Z) : Prop :=
  let '(r0, r1, c0, c1) := b in
  (0 <= r0 < r1)%Z /\ (r1 <= onr a)%Z /\ (0 <= c0 < c1)%Z /\ (c1 <= onc a)%Z /\
  (forall i j, (0 <= i < onr a)%Z -> (0 <= j < onc a)%Z -> is_one (oget a i j) = true -> (r0 <= i < r1)%Z /\ (c0 <= j < c1)%Z) /\
  row_has a r0 = true /\ row_has a (r1 - 1) = true /\ col_has a c0 = true /\ col_has a (c1 - 1) = true.

Lemma bbox_tight a : has_one a = true -> tight_box a (bbox a).
Proof. intros H. apply has_one_spec in H as (i0 & j0 & Hi0 & Hj0 & H0).
  assert (R0 : row_has a i0 = true) by (apply row_has_spec; eauto).
  assert (C0 : col_has a j0 = true) by (apply col_has_spec; eauto).
  unfold bbox.
  destruct (first_from (row_has a) 0 (Z.to_nat (onr a))) as [r0|] eqn:F1;
    [|rewrite (first_from_none _ _ _ F1 i0) in R0 by lia; discriminate].
  destruct (last_from (row_has a) (onr a - 1) (Z.to_nat (onr a))) as [r1|] eqn:L1;
    [|rewrite (last_from_none _ _ _ L1 i0) in R0 by lia; discriminate].
  destruct (first_from (col_has a) 0 (Z.to_nat (onc a))) as [c0|] eqn:F2;
    [|rewrite (first_from_none _ _ _ F2 j0) in C0 by lia; discriminate].
  destruct (last_from (col_has a) (onc a - 1) (Z.to_nat (onc a))) as [c1|] eqn:L2;
    [|rewrite (last_from_none _ _ _ L2 j0) in C0 by lia; discriminate].
  apply first_from_spec in F1 as (A1 & A2 & A3). apply last_from_spec in L1 as (B1 & B2 & B3).
  apply first_from_spec in F2 as (D1 & D2 & D3). apply last_from_spec in L2 as (E1 & E2 & E3).
  assert (Hbox : forall i j, (0 <= i < onr a)%Z -> (0 <= j < onc a)%Z -> is_one (oget a i j) = true ->
                 (r0 <= i <= r1)%Z /\ (c0 <= j <= c1)%Z).
  { intros i j Hi Hj Hone.
    assert (Ri : row_has a i = true) by (apply row_has_spec; eauto).
    assert (Cj : col_has a j = true) by (apply col_has_spec; eauto).
    repeat split.
    - destruct (Z_lt_le_dec i r0) as [L|]; [rewrite A3 in Ri by lia; discriminate|lia].
    - destruct (Z_lt_le_dec r1 i) as [L|]; [rewrite B3 in Ri by lia; discriminate|lia].
    - destruct (Z_lt_le_dec j c0) as [L|]; [rewrite D3 in Cj by lia; discriminate|lia].
    - destruct (Z_lt_le_dec c1 j) as [L|]; [rewrite E3 in Cj by lia; discriminate|lia]. }
  destruct (Hbox i0 j0 Hi0 Hj0 H0) as (X1 & X2).
  unfold tight_box. replace (r1 + 1 - 1)%Z with r1 by lia. replace (c1 + 1 - 1)%Z with c1 by lia.
  repeat split; try lia; auto; try (destruct (Hbox i j) as (Y1 & Y2); auto; lia). Qed.

Theorem tilt_and_slice P s P' : plane_rescale P s = Ok P' ->
  o_tilt P' = p_tilt P /\
  (forall a', o_mask P' = OMono a' -> exists b, o_slice P' = [b] /\ tight_box a' b) /\
  (forall l', o_mask P' = OCube l' -> length (o_slice P') = length l' /\ Forall2 tight_box l' (o_slice P')).
Proof. intros H. pose proof (plane_rescale_nonempty _ _ _ H) as Hne.
  unfold plane_rescale in H.
  apply rbind_ok in H as (a & Ha & H). apply rbind_ok in H as (o & Ho & H). apply rbind_ok in H as (m & Hm & H).
  injection H as <-. cbn [o_tilt o_mask o_slice] in *. split; [reflexivity|]. split.
  - intros a' ->. cbn in *. eexists; split; [reflexivity|]. apply bbox_tight. exact Hne.
  - intros l' ->. cbn [slices nonempty_msk] in *. split; [apply map_length|].
    rewrite forallb_forall in Hne. clear Hm. induction l' as [|x t IH]; cbn [map]; constructor.
    + apply bbox_tight. apply Hne. left; reflexivity.
    + apply IH. intros y Hy. apply Hne. right; exact Hy. Qed.

Lemma ex_tilt_and_slice :
  let a := mkQ 4 4 (fun i j => if ((1 <=? i) && (i <=? 2) && (j =? 1))%Z then 1 else Q2Qc 0) false in
  let P := mkPlane (FScalar 1) (FScalar (Q2Qc 0)) (MMono a) None [(zq 3, zq 5)] in
  exists P', plane_rescale P (zq 2) = Ok P' /\ o_tilt P' = [(zq 3, zq 5)] /\ o_slice P' = [(1, 5, 1, 3)%Z].
Proof. cbv zeta. eexists; split; [reflexivity|]. split; vm_compute; reflexivity. Qed.
