(* The round trip through the public entry points with every optional argument left at its default
   (shape=None, shift=(0,0), offset=(0,0), out=None): idft2(dft2(f, 1/shape), 1/shape) = f, both flags. *)
From Coq Require Import Reals QArith Qreals Qcanon.
From Coquelicot Require Import Complex.
From LV Require Import Lib.Cis Model.Dft Model.DftApi Proofs.DftP Proofs.DftApiP Proofs.DftInvP.

Theorem api_roundtrip_defaults (sq : Qc -> C) (f : arr CS) (unitary : bool) :
  sq_spec sq -> 0 < nr f -> 0 < nc f ->
  let alpha := FSeq [(/ zq (nr f))%Qc; (/ zq (nc f))%Qc] in
  exists F R,
    dft2_api (S:=CS) sq (In2 f) alpha None (FSeq [0%Qc; 0%Qc]) (FSeq [0; 0]) unitary None = Ok F
    /\ nr F = nr f /\ nc F = nc f
    /\ idft2_api (S:=CS) sq (In2 F) alpha None (FSeq [0%Qc; 0%Qc]) unitary None = Ok R
    /\ forall x y, 0 <= x < nr f -> 0 <= y < nc f -> get R x y = get f x y.
Proof.
  intros Hsq Hm Hn alpha.
  set (F := dft2 (S:=CS) sq f (/ zq (nr f))%Qc (/ zq (nc f))%Qc (nr f) (nc f) 0%Qc 0%Qc 0 0 unitary).
  assert (HF : dft2_api (S:=CS) sq (In2 f) alpha None (FSeq [0%Qc; 0%Qc]) (FSeq [0; 0]) unitary None = Ok F).
  { rewrite (dft2_api_ok CS sq f alpha None (FSeq [0%Qc; 0%Qc]) (FSeq [0; 0]) unitary None
               (/ zq (nr f))%Qc (/ zq (nc f))%Qc (nr f) (nc f) 0%Qc 0%Qc 0 0) by (reflexivity || exact I).
    rewrite !Z.max_r by lia. reflexivity. }
  destruct (dft2_shape CS sq f (/ zq (nr f))%Qc (/ zq (nc f))%Qc (nr f) (nc f) 0%Qc 0%Qc 0 0 unitary) as [Er Ec].
  fold F in Er, Ec.
  exists F, (idft2 (S:=CS) sq F (/ zq (nr f))%Qc (/ zq (nc f))%Qc (nr f) (nc f) 0%Qc 0%Qc unitary).
  split; [exact HF|]. split; [exact Er|]. split; [exact Ec|]. split.
  - unfold idft2_api. cbn [input_conj].
    rewrite (dft2_api_ok CS sq (amap kconj F) alpha None (FSeq [0%Qc; 0%Qc]) (FSeq [0; 0]) unitary None
               (/ zq (nr f))%Qc (/ zq (nc f))%Qc (nr f) (nc f) 0%Qc 0%Qc 0 0);
      [| reflexivity | cbn [req_shape amap nr nc]; now rewrite Er, Ec | reflexivity | reflexivity | exact I].
    cbn [rbind]. rewrite !Z.max_r by lia. unfold idft2, input_size. reflexivity.
  - intros x y Hx Hy. unfold F. now apply idft2_dft2_id.
Qed.
