(* WP-T3, C17: the output-shape formula and the interpolation coordinates of lentil/util.py:rescale, translated from
   the source text on every check (Gen/RescaleSrc.v) with the scale as an exact rational num/den (den > 0), equal
   the model of Model/Rescale.v ([rescale_shape], [coord]) for all integers.  Python evaluates these in floating
   point; the model and the translation are exact (every float is a rational). *)
From LV Require Import Model.Rescale Proofs.RescaleP Proofs.SrcQ Gen.RescaleSrc Proofs.SrcTac.
Open Scope Z_scope.

Lemma rescale_shape_frac : forall n p q : Z, 0 < q -> rescale_shape n (zq p / zq q)%Qc = - ((- (n * p)) / q).
Proof. intros. unfold rescale_shape. rewrite zq_mul_frac, qceil_frac by assumption. reflexivity. Qed.

Lemma src_rescale_shape_ok : forall n m p q : Z, 0 < q ->
  src_rescale_shape (n, m) (p, q) = (rescale_shape n (zq p / zq q)%Qc, rescale_shape m (zq p / zq q)%Qc).
Proof. intros. rewrite !rescale_shape_frac by assumption. unfold src_rescale_shape. src_finish. Qed.

Lemma src_rescale_shape_given_ok : forall (ish : Z * Z) (a b p q : Z), 0 < q ->
  src_rescale_shape_given ish (p, q) (a, b) = (rescale_shape a (zq p / zq q)%Qc, rescale_shape b (zq p / zq q)%Qc).
Proof. intros. destr_prods. rewrite !rescale_shape_frac by assumption. unfold src_rescale_shape_given. src_finish. Qed.

Lemma src_rescale_shape_scalar_ok : forall (ish : Z * Z) (a p q : Z), 0 < q ->
  src_rescale_shape_scalar ish (p, q) a = (rescale_shape a (zq p / zq q)%Qc, rescale_shape a (zq p / zq q)%Qc).
Proof. intros. destr_prods. rewrite !rescale_shape_frac by assumption. unfold src_rescale_shape_scalar. src_finish. Qed.

(* element k of the coordinate vectors, as the rational numerator/denominator *)
Lemma coord_frac : forall n N p q k : Z, 0 < p -> 0 < q ->
  coord n N (zq p / zq q)%Qc k = (zq ((k * 2 - N) * q * 2 + n * (2 * p)) / zq (2 * p * 2))%Qc.
Proof.
  intros. unfold coord. rewrite !zq_add, !zq_mul, !zq_sub, !zq_mul.
  assert (zq p <> Q2Qc 0) by (apply zq_neq0; lia). assert (zq q <> Q2Qc 0) by (apply zq_neq0; lia).
  pose proof zq2_neq0. field. repeat split; assumption.
Qed.

Lemma src_rescale_coords_ok : forall n m p q k : Z, 0 < p -> 0 < q ->
  let s := (zq p / zq q)%Qc in
  let '((xn, xd), (yn, yd)) := src_rescale_coords (n, m) (p, q) k in
  (zq xn / zq xd)%Qc = coord m (rescale_shape m s) s k /\ (zq yn / zq yd)%Qc = coord n (rescale_shape n s) s k.
Proof.
  intros n m p q k Hp Hq s. subst s. rewrite !coord_frac, !rescale_shape_frac by assumption.
  unfold src_rescale_coords. src_norm.
  (* the same quotient spelled with its dividend in another order (p*n for n*p) is one quotient *)
  repeat match goal with
         | |- context[?a / q] =>
             match goal with
             | |- context[?b / q] =>
                 lazymatch a with b => fail | _ => replace (a / q) with (b / q) by (f_equal; ring) end
             end
         end.
  repeat match goal with |- context[?a / q] => let N := fresh "N" in set (N := a / q) end.
  split; apply zq_frac_eq; first [nia | ring].
Qed.
