From LV Require Import Model.Dft Model.DftOut.

Section DftOutP.
Variable S : Scalar.
Variable sq : Qc -> S.

(* out= of the inverse transform: same values as a fresh allocation, whatever the buffer held *)
Theorem idft2_out_transparent (dt : dtype) (buf1 buf2 : arr S) F ar ac M N shr shc unitary :
  nr buf1 = nr buf2 -> nc buf1 = nc buf2 ->
  idft2_out sq (Some (dt, buf1)) F ar ac M N shr shc unitary
  = idft2_out sq (Some (dt, buf2)) F ar ac M N shr shc unitary
  /\ (dt <> Float64 -> nr buf1 = M -> nc buf1 = N ->
      idft2_out sq (Some (dt, buf1)) F ar ac M N shr shc unitary
      = idft2_out sq None F ar ac M N shr shc unitary).
Proof.
  intros Hr Hc. unfold idft2_out. rewrite <- Hr, <- Hc. split; [reflexivity|].
  intros Hd HM HN. destruct dt; try congruence; rewrite HM, HN, !Z.eqb_refl; reflexivity.
Qed.
End DftOutP.
