(* Which calls of propagate_dft are refused, with which exception, and which succeed (C02, deepen):
   a complete decision of the outcome for every wavefront, any per-field shifts, any mask. *)
From LV Require Import Model.Propagate Proofs.ArrP Proofs.ExtentP Proofs.FieldP Proofs.DftP Proofs.PropagateP.

Section Outcome.
Variable S : Scalar.
Variable sq : Qc -> S.

(* one field of the loop: skipped iff its chip misses the window; otherwise the pixelscale of the
   wavefront is needed first (TypeError), then 2-d data (ValueError) *)
Lemma prop_field_outcome oe Pro Pco alpha sh (f : field S) :
  evalid oe -> 0 < Pro -> 0 < Pco ->
  let meets := intersect oe (array_extent Pro Pco (qfix (fst sh)) (qfix (snd sh))) in
  match prop_field sq oe Pro Pco alpha sh f with
  | Ok None => meets = false
  | Ok (Some _) => meets = true /\ alpha <> None /\ exists a, fd f = D2 a
  | Err e => meets = true /\ ((alpha = None /\ e = TypeError) \/ (alpha <> None /\ e = ValueError /\ exists v, fd f = D0 v))
  end.
Proof.
  intros Hv HP1 HP2 meets. subst meets. unfold prop_field.
  set (fr := qfix (fst sh)). set (fc := qfix (snd sh)).
  destruct (intersect oe (array_extent Pro Pco fr fc)) eqn:Ei; [|reflexivity].
  destruct (prop_window oe Pro Pco fr fc Hv HP1 HP2 Ei)
    as (r1 & r2 & c1 & c2 & Ir & Ic & isr & isc & Hie & Hsh & HIr & HIc & Hsf & Hae & _ & _).
  rewrite Hsh, Hsf.
  destruct (array_center (array_extent Pro Pco fr fc)) as [pcr pcc].
  destruct (array_center (array_extent Ir Ic isr isc)) as [icr icc].
  destruct alpha as [[ar ac]|].
  - destruct (fd f) as [v|a] eqn:Ef.
    + split; [reflexivity|]. right. split; [discriminate|]. split; [reflexivity|]. now exists v.
    + split; [reflexivity|]. split; [discriminate|]. now exists a.
  - split; [reflexivity|]. left. split; reflexivity.
Qed.

Definition meets_window (shift_of : field S -> Qc * Qc) (oe : extent) (Pro Pco : Z) (f : field S) : bool :=
  intersect oe (array_extent Pro Pco (qfix (fst (shift_of f))) (qfix (snd (shift_of f)))).

Lemma prop_fields_outcome shift_of oe Pro Pco alpha (fs : list (field S)) :
  evalid oe -> 0 < Pro -> 0 < Pco ->
  match prop_fields sq shift_of oe Pro Pco alpha fs with
  | Ok _ => forall f, In f fs -> meets_window shift_of oe Pro Pco f = true -> alpha <> None /\ exists a, fd f = D2 a
  | Err e => exists f, In f fs /\ meets_window shift_of oe Pro Pco f = true /\
             ((alpha = None /\ e = TypeError) \/ (alpha <> None /\ e = ValueError /\ exists v, fd f = D0 v))
  end.
Proof.
  intros Hv H1 H2. induction fs as [|f r IH]; cbn [prop_fields].
  - intros f [].
  - pose proof (prop_field_outcome oe Pro Pco alpha (shift_of f) f Hv H1 H2) as Hf. cbv zeta in Hf.
    fold (meets_window shift_of oe Pro Pco f) in Hf.
    destruct (prop_field sq oe Pro Pco alpha (shift_of f) f) as [o|e]; cbn [rbind].
    + destruct (prop_fields sq shift_of oe Pro Pco alpha r) as [l|e]; cbn [rbind].
      * intros x [<-|Hx] Hm; [|now apply IH].
        destruct o as [g|]; [tauto|]. rewrite Hf in Hm. discriminate.
      * destruct IH as (x & Hx & Hm & Hk). exists x. split; [now right|]. split; assumption.
    + exists f. split; [now left|]. exact Hf.
Qed.

(* the output window: refused only because of the mask *)
Lemma out_extent_outcome Ro Co mask : 0 < Ro -> 0 < Co ->
  match out_extent Ro Co mask with
  | Ok oe => evalid oe /\
             forall m, mask = Some m -> (mnr m = Ro \/ mnc m = Co) /\
                                        exists i j, 0 <= i < mnr m /\ 0 <= j < mnc m /\ mget m i j = true
  | Err e => exists m, mask = Some m /\
             ((mnr m <> Ro /\ mnc m <> Co /\ e = ValueError) \/
              ((mnr m = Ro \/ mnc m = Co) /\ e = IndexError /\
               forall i j, 0 <= i < mnr m -> 0 <= j < mnc m -> mget m i j = false))
  end.
Proof.
  intros HR HC. destruct mask as [m|]; cbn [out_extent].
  - destruct (negb (mnr m =? Ro) && negb (mnc m =? Co)) eqn:Eb.
    + exists m. split; [reflexivity|]. left. repeat split; try reflexivity; lia.
    + destruct (mask_boundary m) as [b|e] eqn:Hb; cbn [rbind].
      * destruct b as [[[rmin rmax] cmin] cmax].
        destruct (mask_boundary_spec _ _ _ _ _ Hb) as (A1 & A2 & A3 & A4 & A5 & A6 & _ & (j & Hj & Hg) & _).
        unfold mask_shape, mask_shift. split.
        { unfold evalid, array_extent. lia. }
        intros m' Hm'. injection Hm' as <-. split; [lia|]. exists rmin, j. repeat split; try lia. exact Hg.
      * destruct (mask_boundary_empty _ _ Hb) as [-> Hz]. exists m. split; [reflexivity|]. right.
        split; [lia|]. split; [reflexivity|exact Hz].
  - split; [apply array_extent_valid; assumption|]. intros m Hm. discriminate.
Qed.

(* ------------------------------------------------------------------ the whole call *)
Theorem propagate_dft_outcome shift_of (w : wavefront S) dur duc shape pshape os mask Sr Sc Pr Pc :
  match shape with None => wshape w | Some s => s end = (Sr, Sc) ->
  match pshape with None => (Sr, Sc) | Some p => p end = (Pr, Pc) ->
  0 < Sr -> 0 < Sc -> 0 < Pr -> 0 < Pc -> 1 <= os ->
  match propagate_dft sq shift_of w dur duc shape pshape os mask with
  | Ok w' =>
      wptype w <> PtNone /\
      exists oe, out_extent (Sr * os) (Sc * os) mask = Ok oe /\
        (forall m, mask = Some m -> (mnr m = Sr * os \/ mnc m = Sc * os) /\
                                    exists i j, 0 <= i < mnr m /\ 0 <= j < mnc m /\ mget m i j = true) /\
        (forall f, In f (wdata w) -> meets_window shift_of oe (Pr * os) (Pc * os) f = true ->
                   wps w <> None /\ exists a, fd f = D2 a)
  | Err e =>
      (wptype w = PtNone /\ e = TypeError) \/
      (wptype w <> PtNone /\ exists m, mask = Some m /\
         ((mnr m <> Sr * os /\ mnc m <> Sc * os /\ e = ValueError) \/
          ((mnr m = Sr * os \/ mnc m = Sc * os) /\ e = IndexError /\
           forall i j, 0 <= i < mnr m -> 0 <= j < mnc m -> mget m i j = false))) \/
      (wptype w <> PtNone /\ exists oe, out_extent (Sr * os) (Sc * os) mask = Ok oe /\
         exists f, In f (wdata w) /\ meets_window shift_of oe (Pr * os) (Pc * os) f = true /\
           ((wps w = None /\ e = TypeError) \/ (wps w <> None /\ e = ValueError /\ exists v, fd f = D0 v)))
  end.
Proof.
  intros Hshape Hpshape HSr HSc HPr HPc Hos.
  assert (HRo : 0 < Sr * os) by nia. assert (HCo : 0 < Sc * os) by nia.
  assert (HPro : 0 < Pr * os) by nia. assert (HPco : 0 < Pc * os) by nia.
  unfold propagate_dft.
  destruct (wptype w) eqn:Ept; cbn [propagate_ptype rbind]; [left; split; reflexivity| |];
    rewrite Hshape, Hpshape;
    pose proof (out_extent_outcome (Sr * os) (Sc * os) mask HRo HCo) as Ho;
    (destruct (out_extent (Sr * os) (Sc * os) mask) as [oe|e]; cbn [rbind];
     [|right; left; split; [discriminate|exact Ho]]);
    destruct Ho as [Hv Hm];
    match goal with |- context[prop_fields sq shift_of oe ?a ?b ?al ?fs] =>
      pose proof (prop_fields_outcome shift_of oe a b al fs Hv HPro HPco) as Hf;
      destruct (prop_fields sq shift_of oe a b al fs) as [l|e]; cbn [rbind]
    end.
  - split; [discriminate|]. exists oe. split; [reflexivity|]. split; [exact Hm|].
    intros f Hin Hmeet. destruct (Hf f Hin Hmeet) as [Ha Hd]. split; [|exact Hd].
    destruct (wps w) as [[dxr dxc]|]; [discriminate|congruence].
  - right. right. split; [discriminate|]. exists oe. split; [reflexivity|].
    destruct Hf as (f & Hin & Hmeet & Hk). exists f. split; [exact Hin|]. split; [exact Hmeet|].
    destruct (wps w) as [[dxr dxc]|].
    + right. destruct Hk as [[Hk _]|(_ & He & Hd)]; [discriminate|]. split; [discriminate|]. split; assumption.
    + left. destruct Hk as [[_ He]|(Hk & _)]; [split; [reflexivity|exact He]|congruence].
  - split; [discriminate|]. exists oe. split; [reflexivity|]. split; [exact Hm|].
    intros f Hin Hmeet. destruct (Hf f Hin Hmeet) as [Ha Hd]. split; [|exact Hd].
    destruct (wps w) as [[dxr dxc]|]; [discriminate|congruence].
  - right. right. split; [discriminate|]. exists oe. split; [reflexivity|].
    destruct Hf as (f & Hin & Hmeet & Hk). exists f. split; [exact Hin|]. split; [exact Hmeet|].
    destruct (wps w) as [[dxr dxc]|].
    + right. destruct Hk as [[Hk _]|(_ & He & Hd)]; [discriminate|]. split; [discriminate|]. split; assumption.
    + left. destruct Hk as [[_ He]|(Hk & _)]; [split; [reflexivity|exact He]|congruence].
Qed.
End Outcome.
