(* propagate_dft puts the Fraunhofer sum of every field on the right output samples (C02). *)
From LV Require Import Model.Propagate Proofs.ArrP Proofs.ExtentP Proofs.FieldP Proofs.DftP.

(* ------------------------------------------------------------------ rationals *)
Lemma zq_opp a : zq (- a) = (- zq a)%Qc.
Proof. unfold zq, Qcopp. apply Qc_is_canon. cbn [this Q2Qc]. rewrite !Qred_correct.
  unfold inject_Z, Qopp. reflexivity. Qed.
Lemma zq_sub a b : zq (a - b) = (zq a - zq b)%Qc.
Proof. unfold Z.sub, Qcminus. now rewrite zq_add, zq_opp. Qed.
Lemma zq_0 : zq 0 = 0%Qc.
Proof. apply Qc_is_canon. reflexivity. Qed.
Lemma qfix_0 : qfix 0%Qc = 0.
Proof. reflexivity. Qed.

(* ------------------------------------------------------------------ window arithmetic *)
(* the output Field of one propagated chip: shape = intersection shape, offset = intersection
   shift, hence its extent is the intersection of the output window with the chip, and DFT sample
   a of the chip (coordinate a - I/2 - prop_shift) is the sample at plane coordinate
   (a + rmin) - fix_shift *)
Lemma prop_window (oe : extent) Pr Pc fr fc :
  evalid oe -> 0 < Pr -> 0 < Pc ->
  let pe := array_extent Pr Pc fr fc in
  intersect oe pe = true ->
  exists r1 r2 c1 c2 Ir Ic isr isc,
    intersection_extent oe pe = (r1, r2, c1, c2) /\
    intersection_shape oe pe = Some (Ir, Ic) /\ 0 < Ir /\ 0 < Ic /\
    intersection_shift oe pe = (isr, isc) /\
    array_extent Ir Ic isr isc = (r1, r2, c1, c2) /\
    (forall a, a - Ir / 2 - (fst (array_center pe) - fst (array_center (array_extent Ir Ic isr isc))) = a + r1 - fr) /\
    (forall b, b - Ic / 2 - (snd (array_center pe) - snd (array_center (array_extent Ir Ic isr isc))) = b + c1 - fc).
Proof.
  intros Hv HPr HPc pe. destruct oe as [[[o1 o2] o3] o4]. subst pe. cbn in Hv.
  unfold array_extent, intersect, intersection_shape, intersection_shift, intersection_extent, array_center.
  intros Hi.
  assert (Hp2 : - (Pr / 2) + fr <= - (Pr / 2) + fr + Pr - 1) by lia.
  assert (Hq2 : - (Pc / 2) + fc <= - (Pc / 2) + fc + Pc - 1) by lia.
  set (pr1 := - (Pr / 2) + fr) in *. set (pc1 := - (Pc / 2) + fc) in *.
  assert (Hrr : pr1 + (pr1 + Pr - 1 - pr1 + 1) / 2 = fr) by (subst pr1; lia).
  assert (Hcc : pc1 + (pc1 + Pc - 1 - pc1 + 1) / 2 = fc) by (subst pc1; lia).
  clearbody pr1 pc1.
  set (r1 := Z.max o1 pr1) in *. set (r2 := Z.min o2 (pr1 + Pr - 1)) in *.
  set (c1 := Z.max o3 pc1) in *. set (c2 := Z.min o4 (pc1 + Pc - 1)) in *.
  assert (Hr : r1 <= r2) by (clear Hrr Hcc; subst r1 r2; lia).
  assert (Hc : c1 <= c2) by (clear Hrr Hcc; subst r1 r2 c1 c2; lia).
  clearbody r1 r2 c1 c2. clear Hi. rewrite Hrr, Hcc. clear Hrr Hcc.
  exists r1, r2, c1, c2, (r2 - r1 + 1), (c2 - c1 + 1), (r1 + (r2 - r1 + 1) / 2), (c1 + (c2 - c1 + 1) / 2).
  split; [reflexivity|]. split.
  { replace ((r2 - r1 + 1 <=? 0) || (c2 - c1 + 1 <=? 0)) with false by lia. reflexivity. }
  split; [lia|]. split; [lia|]. split; [reflexivity|]. split.
  { repeat f_equal; lia. }
  cbn [fst snd]. split; intros; lia.
Qed.

Lemma common_point_intersect a b u v : inE a u v = true -> inE b u v = true -> intersect a b = true.
Proof. destruct a as [[[a1 a2] a3] a4], b as [[[b1 b2] b3] b4]. unfold inE, inb, intersect. lia. Qed.

Lemma array_extent_valid n m r c : 0 < n -> 0 < m -> evalid (array_extent n m r c).
Proof. unfold evalid, array_extent. lia. Qed.

Section PropagateP.
Variable S : Scalar.
Hypothesis Sring : is_ring S.
Hypothesis Skernel : kernel_laws S.
Variable sq : Qc -> S.
Add Ring Sr : Sring.

(* the contribution of one input field to the output sample at plane coordinate (u, v): its
   Fraunhofer sum evaluated at (u, v) - shift, inside (output window) /\ (chip), nothing outside *)
Definition chip (oe : extent) (Pro Pco : Z) (ar ac : Qc) (sh : Qc * Qc) (f : field S) (u v : Z) : S :=
  if inE oe u v && inE (array_extent Pro Pco (qfix (fst sh)) (qfix (snd sh))) u v then
    match fd f with
    | D2 a => (fourier_sum a ar ac (offr f) (offc f) (zq u - fst sh)%Qc (zq v - snd sh)%Qc
               * unitary_scale sq true ar ac)%K
    | D0 _ => k0
    end
  else k0.

Definition sized (g : field S) : Prop := exists d, fd g = D2 d /\ 0 < nr d /\ 0 < nc d.

Lemma prop_field_spec oe Pro Pco ar ac sh f a :
  evalid oe -> 0 < Pro -> 0 < Pco -> fd f = D2 a ->
  exists o, prop_field sq oe Pro Pco (Some (ar, ac)) sh f = Ok o /\
    (forall g, o = Some g -> sized g) /\
    (forall u v, embed_opt o u v = chip oe Pro Pco ar ac sh f u v).
Proof.
  intros Hv HP1 HP2 Hd. unfold prop_field, chip. rewrite Hd.
  set (fr := qfix (fst sh)). set (fc := qfix (snd sh)).
  destruct (intersect oe (array_extent Pro Pco fr fc)) eqn:Ei.
  - destruct (prop_window oe Pro Pco fr fc Hv HP1 HP2 Ei)
      as (r1 & r2 & c1 & c2 & Ir & Ic & isr & isc & Hie & Hsh & HIr & HIc & Hsf & Hae & Hra & Hcb).
    rewrite Hsh, Hsf.
    set (pe := array_extent Pro Pco fr fc) in *.
    set (ie := array_extent Ir Ic isr isc) in *.
    destruct (array_center pe) as [pcr pcc]. destruct (array_center ie) as [icr icc].
    cbn [fst snd] in Hra, Hcb.
    eexists; split; [reflexivity|]. split.
    + intros g Hg. injection Hg as <-. eexists; split; [reflexivity|].
      destruct (dft2_shape S sq a ar ac Ir Ic (zq (pcr - icr) + (fst sh - zq fr))%Qc
                  (zq (pcc - icc) + (snd sh - zq fc))%Qc (offr f) (offc f) true) as [E1 E2].
      rewrite E1, E2. split; assumption.
    + intros u v. cbn [embed_opt]. rewrite embed_D2. unfold embedA.
      destruct (dft2_shape S sq a ar ac Ir Ic (zq (pcr - icr) + (fst sh - zq fr))%Qc
                  (zq (pcc - icc) + (snd sh - zq fc))%Qc (offr f) (offc f) true) as [E1 E2].
      rewrite E1, E2.
      rewrite <- intersection_extent_is_set_intersection, Hie.
      assert (Hmem : inE (r1, r2, c1, c2) u v = inr Ir (u - isr + Ir / 2) && inr Ic (v - isc + Ic / 2)).
      { rewrite <- Hae. apply array_extent_mem. }
      rewrite Hmem.
      destruct (inr Ir (u - isr + Ir / 2) && inr Ic (v - isc + Ic / 2)) eqn:Ein; [|reflexivity].
      rewrite (dft2_defining_sum S Sring Skernel) by (unfold inr in Ein; lia).
      assert (Hr1 : - (Ir / 2) + isr = r1) by (unfold ie, array_extent in Hae; congruence).
      assert (Hc1 : - (Ic / 2) + isc = c1) by (unfold ie, array_extent in Hae; congruence).
      f_equal. f_equal.
      * specialize (Hra (u - isr + Ir / 2)).
        replace (u - isr + Ir / 2 - Ir / 2) with (u - fr + (pcr - icr)) by lia.
        rewrite zq_add, zq_sub. ring.
      * specialize (Hcb (v - isc + Ic / 2)).
        replace (v - isc + Ic / 2 - Ic / 2) with (v - fc + (pcc - icc)) by lia.
        rewrite zq_add, zq_sub. ring.
  - eexists; split; [reflexivity|]. split; [discriminate|].
    intros u v. cbn [embed_opt].
    destruct (inE oe u v) eqn:E1; [|reflexivity].
    destruct (inE (array_extent Pro Pco fr fc) u v) eqn:E2; [|reflexivity].
    rewrite (common_point_intersect _ _ _ _ E1 E2) in Ei. discriminate.
Qed.
End PropagateP.
