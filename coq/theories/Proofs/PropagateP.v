(* propagate_dft puts the Fraunhofer sum of every field on the right output samples (C02). *)
From LV Require Import Model.Propagate Proofs.ArrP Proofs.ExtentP Proofs.FieldP Proofs.DftP.
From Coq Require Import Permutation.

(* ------------------------------------------------------------------ rationals *)
Lemma zq_opp a : zq (- a) = (- zq a)%Qc.
Proof. unfold zq, Qcopp. apply Qc_is_canon. cbn [this Q2Qc]. rewrite !Qred_correct.
  unfold inject_Z, Qopp. reflexivity. Qed.
Lemma zq_sub a b : zq (a - b) = (zq a - zq b)%Qc.
Proof. unfold Z.sub, Qcminus. now rewrite zq_add, zq_opp. Qed.
Lemma zq_0 : zq 0 = 0%Qc.
Proof. apply Qc_is_canon. reflexivity. Qed.
Lemma qfix_0 : qfix 0%Qc = 0.
Proof. reflexivity. Qed.

(* ------------------------------------------------------------------ window arithmetic *)
(* the output Field of one propagated chip: shape = intersection shape, offset = intersection
   shift, hence its extent is the intersection of the output window with the chip, and DFT sample
   a of the chip (coordinate a - I/2 - prop_shift) is the sample at plane coordinate
   (a + rmin) - fix_shift *)
Lemma prop_window (oe : extent) Pr Pc fr fc :
  evalid oe -> 0 < Pr -> 0 < Pc ->
  let pe := array_extent Pr Pc fr fc in
  intersect oe pe = true ->
  exists r1 r2 c1 c2 Ir Ic isr isc,
    intersection_extent oe pe = (r1, r2, c1, c2) /\
    intersection_shape oe pe = Some (Ir, Ic) /\ 0 < Ir /\ 0 < Ic /\
    intersection_shift oe pe = (isr, isc) /\
    array_extent Ir Ic isr isc = (r1, r2, c1, c2) /\
    (forall a, a - Ir / 2 - (fst (array_center pe) - fst (array_center (array_extent Ir Ic isr isc))) = a + r1 - fr) /\
    (forall b, b - Ic / 2 - (snd (array_center pe) - snd (array_center (array_extent Ir Ic isr isc))) = b + c1 - fc).
Proof.
  intros Hv HPr HPc pe. destruct oe as [[[o1 o2] o3] o4]. subst pe. cbn in Hv.
  unfold array_extent, intersect, intersection_shape, intersection_shift, intersection_extent, array_center.
  intros Hi.
  assert (Hp2 : - (Pr / 2) + fr <= - (Pr / 2) + fr + Pr - 1) by lia.
  assert (Hq2 : - (Pc / 2) + fc <= - (Pc / 2) + fc + Pc - 1) by lia.
  set (pr1 := - (Pr / 2) + fr) in *. set (pc1 := - (Pc / 2) + fc) in *.
  assert (Hrr : pr1 + (pr1 + Pr - 1 - pr1 + 1) / 2 = fr) by (subst pr1; lia).
  assert (Hcc : pc1 + (pc1 + Pc - 1 - pc1 + 1) / 2 = fc) by (subst pc1; lia).
  clearbody pr1 pc1.
  set (r1 := Z.max o1 pr1) in *. set (r2 := Z.min o2 (pr1 + Pr - 1)) in *.
  set (c1 := Z.max o3 pc1) in *. set (c2 := Z.min o4 (pc1 + Pc - 1)) in *.
  assert (Hr : r1 <= r2) by (clear Hrr Hcc; subst r1 r2; lia).
  assert (Hc : c1 <= c2) by (clear Hrr Hcc; subst r1 r2 c1 c2; lia).
  clearbody r1 r2 c1 c2. clear Hi. rewrite Hrr, Hcc. clear Hrr Hcc.
  exists r1, r2, c1, c2, (r2 - r1 + 1), (c2 - c1 + 1), (r1 + (r2 - r1 + 1) / 2), (c1 + (c2 - c1 + 1) / 2).
  split; [reflexivity|]. split.
  { replace ((r2 - r1 + 1 <=? 0) || (c2 - c1 + 1 <=? 0)) with false by lia. reflexivity. }
  split; [lia|]. split; [lia|]. split; [reflexivity|]. split.
  { repeat f_equal; lia. }
  cbn [fst snd]. split; intros; lia.
Qed.

Lemma common_point_intersect a b u v : inE a u v = true -> inE b u v = true -> intersect a b = true.
Proof. destruct a as [[[a1 a2] a3] a4], b as [[[b1 b2] b3] b4]. unfold inE, inb, intersect. lia. Qed.

Lemma array_extent_valid n m r c : 0 < n -> 0 < m -> evalid (array_extent n m r c).
Proof. unfold evalid, array_extent. lia. Qed.

(* ------------------------------------------------------------------ util.boundary of the mask *)
Lemma any_upto_spec n p : any_upto n p = true <-> exists k, 0 <= k < Z.of_nat n /\ p k = true.
Proof.
  induction n as [|n IH]; cbn [any_upto].
  - split; [discriminate|]. intros (k & Hk & _). lia.
  - rewrite orb_true_iff, IH. split.
    + intros [(k & Hk & Hp)|Hp]; [exists k; split; [lia|exact Hp]|exists (Z.of_nat n); split; [lia|exact Hp]].
    + intros (k & Hk & Hp). destruct (Z.eq_dec k (Z.of_nat n)) as [->|Hne]; [now right|].
      left. exists k. split; [lia|exact Hp].
Qed.
Lemma anyZ_spec n p : anyZ n p = true <-> exists k, 0 <= k < n /\ p k = true.
Proof. unfold anyZ. rewrite any_upto_spec. split; intros (k & Hk & Hp); exists k; split; try assumption; lia. Qed.

Lemma first_from_some fuel : forall i p k, first_from fuel i p = Some k ->
  i <= k < i + Z.of_nat fuel /\ p k = true /\ forall j, i <= j < k -> p j = false.
Proof.
  induction fuel as [|fuel IH]; intros i p k; cbn [first_from]; [discriminate|].
  destruct (p i) eqn:E.
  - intros H. injection H as <-. repeat split; try lia. exact E.
  - intros H. apply IH in H. destruct H as (H1 & H2 & H3). repeat split; try lia; try assumption.
    intros j Hj. destruct (Z.eq_dec j i) as [->|Hne]; [exact E|]. apply H3. lia.
Qed.
Lemma first_from_none fuel : forall i p, first_from fuel i p = None ->
  forall j, i <= j < i + Z.of_nat fuel -> p j = false.
Proof.
  induction fuel as [|fuel IH]; intros i p; cbn [first_from]; [intros; lia|].
  destruct (p i) eqn:E; [discriminate|]. intros H j Hj.
  destruct (Z.eq_dec j i) as [->|Hne]; [exact E|]. apply (IH _ _ H). lia.
Qed.
Lemma last_upto_some n : forall p k, last_upto n p = Some k ->
  0 <= k < Z.of_nat n /\ p k = true /\ forall j, k < j < Z.of_nat n -> p j = false.
Proof.
  induction n as [|n IH]; intros p k; cbn [last_upto]; [discriminate|].
  destruct (p (Z.of_nat n)) eqn:E.
  - intros H. injection H as <-. repeat split; try lia. exact E.
  - intros H. apply IH in H. destruct H as (H1 & H2 & H3). repeat split; try lia; try assumption.
    intros j Hj. destruct (Z.eq_dec j (Z.of_nat n)) as [->|Hne]; [exact E|]. apply H3. lia.
Qed.
Lemma last_upto_none n : forall p, last_upto n p = None -> forall j, 0 <= j < Z.of_nat n -> p j = false.
Proof.
  induction n as [|n IH]; intros p; cbn [last_upto]; [intros; lia|].
  destruct (p (Z.of_nat n)) eqn:E; [discriminate|]. intros H j Hj.
  destruct (Z.eq_dec j (Z.of_nat n)) as [->|Hne]; [exact E|]. apply (IH _ H). lia.
Qed.

(* first and last selected index of a vector of length n *)
Lemma first_last_spec n p a b : first_true n p = Some a -> last_true n p = Some b ->
  0 <= a /\ a <= b /\ b < n /\ p a = true /\ p b = true /\ forall k, 0 <= k < n -> p k = true -> a <= k <= b.
Proof.
  unfold first_true, last_true. intros Ha Hb.
  apply first_from_some in Ha. apply last_upto_some in Hb.
  destruct Ha as (A1 & A2 & A3), Hb as (B1 & B2 & B3).
  assert (a <= b).
  { destruct (Z_le_gt_dec a b); [assumption|]. rewrite B3 in A2 by lia. discriminate. }
  repeat split; try lia; try assumption.
  - destruct (Z_le_gt_dec a k); [assumption|]. rewrite A3 in H1 by lia. discriminate.
  - destruct (Z_le_gt_dec k b); [assumption|]. rewrite B3 in H1 by lia. discriminate.
Qed.

(* util.boundary returns the bounding box of the samples with mask > 0: it contains every such
   sample and each of its four sides touches one *)
Theorem mask_boundary_spec m rmin rmax cmin cmax : mask_boundary m = Ok (rmin, rmax, cmin, cmax) ->
  0 <= rmin /\ rmin <= rmax /\ rmax < mnr m /\ 0 <= cmin /\ cmin <= cmax /\ cmax < mnc m /\
  (forall i j, 0 <= i < mnr m -> 0 <= j < mnc m -> mget m i j = true -> rmin <= i <= rmax /\ cmin <= j <= cmax) /\
  (exists j, 0 <= j < mnc m /\ mget m rmin j = true) /\ (exists j, 0 <= j < mnc m /\ mget m rmax j = true) /\
  (exists i, 0 <= i < mnr m /\ mget m i cmin = true) /\ (exists i, 0 <= i < mnr m /\ mget m i cmax = true).
Proof.
  unfold mask_boundary.
  set (rows := fun i => anyZ (mnc m) (fun j => mget m i j)).
  set (cols := fun j => anyZ (mnr m) (fun i => mget m i j)).
  destruct (first_true (mnr m) rows) as [a|] eqn:E1; [|discriminate].
  destruct (last_true (mnr m) rows) as [b|] eqn:E2; [|discriminate].
  destruct (first_true (mnc m) cols) as [c|] eqn:E3; [|discriminate].
  destruct (last_true (mnc m) cols) as [d|] eqn:E4; [|discriminate].
  intros H. injection H as <- <- <- <-.
  destruct (first_last_spec _ _ _ _ E1 E2) as (R1 & R2 & R3 & R4 & R5 & R6).
  destruct (first_last_spec _ _ _ _ E3 E4) as (C1 & C2 & C3 & C4 & C5 & C6).
  repeat split; try assumption.
  - apply R6; [lia|]. unfold rows. apply anyZ_spec. exists j. split; [lia|assumption].
  - apply R6; [lia|]. unfold rows. apply anyZ_spec. exists j. split; [lia|assumption].
  - apply C6; [lia|]. unfold cols. apply anyZ_spec. exists i. split; [lia|assumption].
  - apply C6; [lia|]. unfold cols. apply anyZ_spec. exists i. split; [lia|assumption].
  - unfold rows in R4. now apply anyZ_spec in R4.
  - unfold rows in R5. now apply anyZ_spec in R5.
  - unfold cols in C4. now apply anyZ_spec in C4.
  - unfold cols in C5. now apply anyZ_spec in C5.
Qed.

(* an all-zero (or empty) mask is refused with IndexError *)
Theorem mask_boundary_empty m e : mask_boundary m = Err e ->
  e = IndexError /\ forall i j, 0 <= i < mnr m -> 0 <= j < mnc m -> mget m i j = false.
Proof.
  unfold mask_boundary.
  set (rows := fun i => anyZ (mnc m) (fun j => mget m i j)).
  set (cols := fun j => anyZ (mnr m) (fun i => mget m i j)).
  assert (Hrows : (forall i, 0 <= i < mnr m -> rows i = false) ->
                  forall i j, 0 <= i < mnr m -> 0 <= j < mnc m -> mget m i j = false).
  { intros H i j Hi Hj. destruct (mget m i j) eqn:E; [|reflexivity].
    assert (rows i = true) by (unfold rows; apply anyZ_spec; exists j; split; [lia|exact E]).
    rewrite H in H0 by lia. discriminate. }
  assert (Hcols : (forall j, 0 <= j < mnc m -> cols j = false) ->
                  forall i j, 0 <= i < mnr m -> 0 <= j < mnc m -> mget m i j = false).
  { intros H i j Hi Hj. destruct (mget m i j) eqn:E; [|reflexivity].
    assert (cols j = true) by (unfold cols; apply anyZ_spec; exists i; split; [lia|exact E]).
    rewrite H in H0 by lia. discriminate. }
  destruct (first_true (mnr m) rows) as [a|] eqn:E1.
  2:{ intros H. split; [congruence|]. apply Hrows. intros i Hi.
      apply (first_from_none _ _ _ E1). lia. }
  destruct (last_true (mnr m) rows) as [b|] eqn:E2.
  2:{ intros H. split; [congruence|]. apply Hrows. intros i Hi.
      apply (last_upto_none _ _ E2). lia. }
  destruct (first_true (mnc m) cols) as [c|] eqn:E3.
  2:{ intros H. split; [congruence|]. apply Hcols. intros j Hj.
      apply (first_from_none _ _ _ E3). lia. }
  destruct (last_true (mnc m) cols) as [d|] eqn:E4.
  2:{ intros H. split; [congruence|]. apply Hcols. intros j Hj.
      apply (last_upto_none _ _ E4). lia. }
  discriminate.
Qed.

(* the output window in plane coordinates = the bounding box in array indices *)
Lemma out_extent_spec Ro Co mask b : 0 < Ro -> 0 < Co ->
  (forall m, mask = Some m -> mnr m = Ro /\ mnc m = Co) ->
  mask_bbox mask Ro Co = Ok b ->
  exists oe, out_extent Ro Co mask = Ok oe /\ evalid oe /\
    forall i j, inE oe (i - Ro / 2) (j - Co / 2) = inE b i j.
Proof.
  intros HR HC Hm Hb. destruct mask as [m|]; cbn [mask_bbox out_extent] in *.
  - destruct (Hm m eq_refl) as [E1 E2]. rewrite E1, E2, !Z.eqb_refl. cbn [negb andb].
    rewrite Hb. cbn [rbind]. destruct b as [[[rmin rmax] cmin] cmax].
    destruct (mask_boundary_spec _ _ _ _ _ Hb) as (A1 & A2 & A3 & A4 & A5 & A6 & _).
    unfold mask_shape, mask_shift.
    eexists; split; [reflexivity|]. split.
    + unfold evalid, array_extent. lia.
    + intros i j. unfold inE, array_extent, inb. lia.
  - injection Hb as <-. eexists; split; [reflexivity|]. split.
    + apply array_extent_valid; assumption.
    + intros i j. unfold inE, array_extent, inb. lia.
Qed.

Section PropagateP.
Variable S : Scalar.
Hypothesis Sring : is_ring S.
Hypothesis Skernel : kernel_laws S.
Variable sq : Qc -> S.
Add Ring Sr : Sring.

(* the contribution of one input field to the output sample at plane coordinate (u, v): its
   Fraunhofer sum evaluated at (u, v) - shift, inside (output window) /\ (chip), nothing outside *)
Definition chip (oe : extent) (Pro Pco : Z) (ar ac : Qc) (sh : Qc * Qc) (f : field S) (u v : Z) : S :=
  if inE oe u v && inE (array_extent Pro Pco (qfix (fst sh)) (qfix (snd sh))) u v then
    match fd f with
    | D2 a => (fourier_sum a ar ac (offr f) (offc f) (zq u - fst sh)%Qc (zq v - snd sh)%Qc
               * unitary_scale sq true ar ac)%K
    | D0 _ => k0
    end
  else k0.

Definition sized (g : field S) : Prop := exists d, fd g = D2 d /\ 0 < nr d /\ 0 < nc d.

Lemma prop_field_spec oe Pro Pco ar ac sh f a :
  evalid oe -> 0 < Pro -> 0 < Pco -> fd f = D2 a ->
  exists o, prop_field sq oe Pro Pco (Some (ar, ac)) sh f = Ok o /\
    (forall g, o = Some g -> sized g) /\
    (forall u v, embed_opt o u v = chip oe Pro Pco ar ac sh f u v).
Proof.
  intros Hv HP1 HP2 Hd. unfold prop_field, chip. rewrite Hd.
  set (fr := qfix (fst sh)). set (fc := qfix (snd sh)).
  destruct (intersect oe (array_extent Pro Pco fr fc)) eqn:Ei.
  - destruct (prop_window oe Pro Pco fr fc Hv HP1 HP2 Ei)
      as (r1 & r2 & c1 & c2 & Ir & Ic & isr & isc & Hie & Hsh & HIr & HIc & Hsf & Hae & Hra & Hcb).
    rewrite Hsh, Hsf.
    set (pe := array_extent Pro Pco fr fc) in *.
    set (ie := array_extent Ir Ic isr isc) in *.
    destruct (array_center pe) as [pcr pcc]. destruct (array_center ie) as [icr icc].
    cbn [fst snd] in Hra, Hcb.
    destruct (dft2_shape S sq a ar ac Ir Ic (zq (pcr - icr) + (fst sh - zq fr))%Qc
                (zq (pcc - icc) + (snd sh - zq fc))%Qc (offr f) (offc f) true) as [E1 E2].
    pose proof (dft2_defining_sum S Sring Skernel sq a ar ac Ir Ic (zq (pcr - icr) + (fst sh - zq fr))%Qc
                (zq (pcc - icc) + (snd sh - zq fc))%Qc (offr f) (offc f) true) as Hds.
    set (D := dft2 sq a ar ac Ir Ic (zq (pcr - icr) + (fst sh - zq fr))%Qc
                (zq (pcc - icc) + (snd sh - zq fc))%Qc (offr f) (offc f) true) in *.
    clearbody D.
    eexists; split; [reflexivity|]. split.
    + intros g Hg. injection Hg as <-. exists D. cbn [fd]. repeat split; lia.
    + intros u v. cbn [embed_opt]. rewrite embed_D2. unfold embedA.
      rewrite E1, E2.
      rewrite <- intersection_extent_is_set_intersection, Hie.
      assert (Hmem : inE (r1, r2, c1, c2) u v = inr Ir (u - isr + Ir / 2) && inr Ic (v - isc + Ic / 2)).
      { rewrite <- Hae. apply array_extent_mem. }
      rewrite Hmem.
      destruct (inr Ir (u - isr + Ir / 2) && inr Ic (v - isc + Ic / 2)) eqn:Ein; [|reflexivity].
      rewrite Hds by (unfold inr in Ein; lia).
      assert (Hr1 : - (Ir / 2) + isr = r1) by (unfold ie, array_extent in Hae; congruence).
      assert (Hc1 : - (Ic / 2) + isc = c1) by (unfold ie, array_extent in Hae; congruence).
      f_equal. f_equal.
      * specialize (Hra (u - isr + Ir / 2)).
        replace (u - isr + Ir / 2 - Ir / 2) with (u - fr + (pcr - icr)) by lia.
        rewrite zq_add, zq_sub. ring.
      * specialize (Hcb (v - isc + Ic / 2)).
        replace (v - isc + Ic / 2 - Ic / 2) with (v - fc + (pcc - icc)) by lia.
        rewrite zq_add, zq_sub. ring.
  - eexists; split; [reflexivity|]. split; [discriminate|].
    intros u v. cbn [embed_opt].
    destruct (inE oe u v) eqn:E1; [|reflexivity].
    destruct (inE (array_extent Pro Pco fr fc) u v) eqn:E2; [|reflexivity].
    rewrite (common_point_intersect _ _ _ _ E1 E2) in Ei. discriminate.
Qed.

(* ------------------------------------------------------------------ Wavefront.field *)
Lemma render_from (fs : list (field S)) : forall (o0 : arr S), 0 < nr o0 -> 0 < nc o0 ->
  (forall g, In g fs -> sized g) ->
  exists o, fold_left (fun acc f => rbind acc (fun o => rbind (insert (fun x => x) f o k1) (fun o' => Ok (force o'))))
                      fs (Ok o0) = Ok o /\ nr o = nr o0 /\ nc o = nc o0 /\ forall i j, 0 <= i < nr o0 -> 0 <= j < nc o0 ->
    get o i j = (get o0 i j + lsum S (map (fun g => embed g (i - nr o0 / 2) (j - nc o0 / 2)) fs))%K.
Proof.
  induction fs as [|f r IH]; intros o0 Hn Hm Hs.
  - exists o0. cbn. repeat split; try reflexivity. intros. ring.
  - destruct (Hs f (or_introl eq_refl)) as (d & Hd & Hd1 & Hd2).
    destruct (insert_spec S Sring (fun x => x) f d o0 k1 Hd Hd1 Hd2 Hn Hm eq_refl) as (o1 & Ho1 & N1 & M1 & G1).
    cbn [fold_left rbind]. rewrite Ho1. cbn [rbind].
    destruct (IH (force o1)) as (o & Ho & N & M & G).
    + rewrite force_nr. lia. + rewrite force_nc. lia. + intros g Hg. apply Hs. now right.
    + exists o. split; [exact Ho|]. rewrite force_nr, force_nc in *. split; [lia|]. split; [lia|].
      intros i j Hi Hj. rewrite N1, M1 in G. rewrite G by assumption.
      rewrite force_get by lia. rewrite G1 by assumption. cbn [map lsum fold_right]. unfold lsum. ring.
Qed.

Lemma render_spec (fs : list (field S)) n m : 0 < n -> 0 < m -> (forall g, In g fs -> sized g) ->
  exists o, render fs n m = Ok o /\ nr o = n /\ nc o = m /\ forall i j, 0 <= i < n -> 0 <= j < m ->
    get o i j = lsum S (map (fun g => embed g (i - n / 2) (j - m / 2)) fs).
Proof.
  intros Hn Hm Hs. destruct (render_from fs (azeros n m) Hn Hm Hs) as (o & Ho & N & M & G).
  exists o. split; [exact Ho|]. cbn [azeros nr nc] in *. repeat split; try assumption.
  intros i j Hi Hj. rewrite G by assumption. unfold azeros. cbn [get]. ring.
Qed.

(* ------------------------------------------------------------------ the loop over the fields *)
Lemma lsum_cons (x : S) l : lsum S (x :: l) = (x + lsum S l)%K.
Proof. reflexivity. Qed.
Lemma lsum_map_if {A} (c : bool) (t : A -> S) l :
  lsum S (map (fun f => if c then t f else k0) l) = if c then lsum S (map t l) else k0.
Proof. induction l as [|x l IH]; cbn [map]; [destruct c; reflexivity|].
  rewrite !lsum_cons, IH. destruct c; [reflexivity|ring]. Qed.
Lemma lsum_map_scale {A} (c : S) (t : A -> S) l :
  lsum S (map (fun f => (t f * c)%K) l) = (lsum S (map t l) * c)%K.
Proof. induction l as [|x l IH]; cbn [map]; [unfold lsum; cbn; ring|].
  rewrite !lsum_cons, IH. ring. Qed.
Lemma lsum_map_ext {A} (t1 t2 : A -> S) l : (forall x, In x l -> t1 x = t2 x) ->
  lsum S (map t1 l) = lsum S (map t2 l).
Proof. induction l as [|x l IH]; intros H; cbn [map]; [reflexivity|].
  rewrite !lsum_cons, IH, (H x) by (intros; try apply H; cbn; auto). reflexivity. Qed.

Lemma prop_fields_spec shift_of oe Pro Pco ar ac (fs : list (field S)) :
  evalid oe -> 0 < Pro -> 0 < Pco -> (forall f, In f fs -> exists a, fd f = D2 a) ->
  exists l, prop_fields sq shift_of oe Pro Pco (Some (ar, ac)) fs = Ok l /\
    (forall g, In g l -> sized g) /\
    (forall u v, lsum S (map (fun g => embed g u v) l)
                 = lsum S (map (fun f => chip oe Pro Pco ar ac (shift_of f) f u v) fs)).
Proof.
  intros Hv H1 H2. induction fs as [|f r IH]; intros Hd.
  - exists []. cbn. repeat split; auto. intros g [].
  - destruct (Hd f (or_introl eq_refl)) as [a Ha].
    destruct (prop_field_spec oe Pro Pco ar ac (shift_of f) f a Hv H1 H2 Ha) as (o & Ho & So & Eo).
    destruct IH as (l & Hl & Sl & El). { intros; apply Hd; now right. }
    cbn [prop_fields]. rewrite Ho. cbn [rbind]. rewrite Hl. cbn [rbind].
    eexists; split; [reflexivity|]. destruct o as [g|].
    + split.
      * intros x [<-|Hx]; [now apply So|now apply Sl].
      * intros u v. cbn [map]. rewrite !lsum_cons, El, <- Eo. reflexivity.
    + split; [exact Sl|]. intros u v. cbn [map]. rewrite lsum_cons, El, <- Eo. cbn [embed_opt]. ring.
Qed.

(* ------------------------------------------------------------------ propagate_dft, any per-field shift *)
Theorem propagate_dft_chips shift_of (w : wavefront S) dur duc shape pshape os mask dxr dxc Sr Sc Pr Pc b :
  wptype w <> PtNone -> wps w = Some (dxr, dxc) ->
  (forall f, In f (wdata w) -> exists a, fd f = D2 a) ->
  match shape with None => wshape w | Some s => s end = (Sr, Sc) ->
  match pshape with None => (Sr, Sc) | Some p => p end = (Pr, Pc) ->
  0 < Sr -> 0 < Sc -> 0 < Pr -> 0 < Pc -> 1 <= os ->
  (forall m, mask = Some m -> mnr m = Sr * os /\ mnc m = Sc * os) ->
  mask_bbox mask (Sr * os) (Sc * os) = Ok b ->
  let ar := dft_alpha1 dxr dur (wwl w) (wfocal w) os in
  let ac := dft_alpha1 dxc duc (wwl w) (wfocal w) os in
  exists w' o, propagate_dft sq shift_of w dur duc shape pshape os mask = Ok w' /\
    wshape w' = (Sr * os, Sc * os) /\
    wfield w' = Ok o /\ nr o = Sr * os /\ nc o = Sc * os /\
    (forall i j, 0 <= i < Sr * os -> 0 <= j < Sc * os ->
      let u := i - (Sr * os) / 2 in let v := j - (Sc * os) / 2 in
      get o i j = lsum S (map (fun f =>
        if inE b i j && inE (array_extent (Pr * os) (Pc * os) (qfix (fst (shift_of f))) (qfix (snd (shift_of f)))) u v
        then match fd f with
             | D2 a => (fourier_sum a ar ac (offr f) (offc f) (zq u - fst (shift_of f))%Qc (zq v - snd (shift_of f))%Qc
                        * unitary_scale sq true ar ac)%K
             | D0 _ => k0
             end
        else k0) (wdata w))).
Proof.
  intros Hpt Hps Hd Hshape Hpshape HSr HSc HPr HPc Hos Hm Hb ar ac.
  assert (HRo : 0 < Sr * os) by nia. assert (HCo : 0 < Sc * os) by nia.
  assert (HPro : 0 < Pr * os) by nia. assert (HPco : 0 < Pc * os) by nia.
  destruct (out_extent_spec (Sr * os) (Sc * os) mask b HRo HCo Hm Hb) as (oe & Hoe & Hv & Hin).
  destruct (prop_fields_spec shift_of oe (Pr * os) (Pc * os) ar ac (wdata w) Hv HPro HPco Hd) as (l & Hl & Sl & El).
  destruct (render_spec l (Sr * os) (Sc * os) HRo HCo Sl) as (o & Ho & N & M & G).
  unfold propagate_dft.
  assert (Hfin : forall i j, 0 <= i < Sr * os -> 0 <= j < Sc * os ->
      let u := i - (Sr * os) / 2 in let v := j - (Sc * os) / 2 in
      get o i j = lsum S (map (fun f =>
        if inE b i j && inE (array_extent (Pr * os) (Pc * os) (qfix (fst (shift_of f))) (qfix (snd (shift_of f)))) u v
        then match fd f with
             | D2 a => (fourier_sum a ar ac (offr f) (offc f) (zq u - fst (shift_of f))%Qc (zq v - snd (shift_of f))%Qc
                        * unitary_scale sq true ar ac)%K
             | D0 _ => k0
             end
        else k0) (wdata w))).
  { intros i j Hi Hj u v. rewrite G by assumption. rewrite El. apply lsum_map_ext. intros f _.
    unfold chip. subst u v. rewrite Hin. reflexivity. }
  destruct (wptype w) eqn:Ept; [congruence| |]; cbn [propagate_ptype rbind];
    rewrite Hshape, Hpshape, Hoe; cbn [rbind]; rewrite Hps; fold ar ac; rewrite Hl; cbn [rbind];
    (eexists; exists o; split; [reflexivity|]); unfold wfield; cbn [wdata wshape fst snd];
    (split; [reflexivity|]); (split; [exact Ho|]); (split; [exact N|]); (split; [exact M|]); exact Hfin.
Qed.

(* untilted wavefronts: every chip is the centred prop_shape*oversample box and the samples are
   the unitary Fraunhofer sums of the fields at the sample's own coordinate *)
Theorem propagate_dft_samples shift_of (w : wavefront S) dur duc shape pshape os mask dxr dxc Sr Sc Pr Pc b :
  wptype w <> PtNone -> wps w = Some (dxr, dxc) ->
  (forall f, In f (wdata w) -> shift_of f = (0%Qc, 0%Qc) /\ exists a, fd f = D2 a) ->
  match shape with None => wshape w | Some s => s end = (Sr, Sc) ->
  match pshape with None => (Sr, Sc) | Some p => p end = (Pr, Pc) ->
  0 < Sr -> 0 < Sc -> 0 < Pr -> 0 < Pc -> 1 <= os ->
  (forall m, mask = Some m -> mnr m = Sr * os /\ mnc m = Sc * os) ->
  mask_bbox mask (Sr * os) (Sc * os) = Ok b ->
  let ar := dft_alpha1 dxr dur (wwl w) (wfocal w) os in
  let ac := dft_alpha1 dxc duc (wwl w) (wfocal w) os in
  exists w' o, propagate_dft sq shift_of w dur duc shape pshape os mask = Ok w' /\
    wshape w' = (Sr * os, Sc * os) /\
    wfield w' = Ok o /\ nr o = Sr * os /\ nc o = Sc * os /\
    (forall i j, 0 <= i < Sr * os -> 0 <= j < Sc * os ->
      let u := i - (Sr * os) / 2 in let v := j - (Sc * os) / 2 in
      get o i j =
        if inE b i j && inE (array_extent (Pr * os) (Pc * os) 0 0) u v
        then (lsum S (map (fun f => match fd f with
                                    | D2 a => fourier_sum a ar ac (offr f) (offc f) (zq u) (zq v)
                                    | D0 _ => k0
                                    end) (wdata w))
              * sq (qabs (ar * ac)%Qc))%K
        else k0).
Proof.
  intros Hpt Hps Hd Hshape Hpshape HSr HSc HPr HPc Hos Hm Hb ar ac.
  destruct (propagate_dft_chips shift_of w dur duc shape pshape os mask dxr dxc Sr Sc Pr Pc b Hpt Hps
              (fun f Hf => proj2 (Hd f Hf)) Hshape Hpshape HSr HSc HPr HPc Hos Hm Hb)
    as (w' & o & Hw & Hs & Ho & N & M & G).
  exists w', o. repeat (split; [assumption|]).
  intros i j Hi Hj u v. rewrite (G i j Hi Hj). fold ar ac u v.
  rewrite <- lsum_map_scale, <- lsum_map_if. apply lsum_map_ext. intros f Hf.
  destruct (Hd f Hf) as [E [a Ha]]. rewrite E. cbn [fst snd]. rewrite qfix_0, Ha.
  unfold unitary_scale. replace (zq u - 0)%Qc with (zq u) by ring. replace (zq v - 0)%Qc with (zq v) by ring.
  reflexivity.
Qed.

(* shape, prop_shape and mask only select: two calls that differ in nothing else agree on every
   sample (same plane coordinate) that both evaluate *)
Theorem window_only_selects shift_of (w : wavefront S) dur duc os dxr dxc
        shape1 pshape1 mask1 Sr1 Sc1 Pr1 Pc1 b1 w1 o1 shape2 pshape2 mask2 Sr2 Sc2 Pr2 Pc2 b2 w2 o2 :
  wps w = Some (dxr, dxc) ->
  (forall f, In f (wdata w) -> shift_of f = (0%Qc, 0%Qc) /\ exists a, fd f = D2 a) -> 1 <= os ->
  match shape1 with None => wshape w | Some s => s end = (Sr1, Sc1) ->
  match pshape1 with None => (Sr1, Sc1) | Some p => p end = (Pr1, Pc1) ->
  0 < Sr1 -> 0 < Sc1 -> 0 < Pr1 -> 0 < Pc1 ->
  (forall m, mask1 = Some m -> mnr m = Sr1 * os /\ mnc m = Sc1 * os) ->
  mask_bbox mask1 (Sr1 * os) (Sc1 * os) = Ok b1 ->
  match shape2 with None => wshape w | Some s => s end = (Sr2, Sc2) ->
  match pshape2 with None => (Sr2, Sc2) | Some p => p end = (Pr2, Pc2) ->
  0 < Sr2 -> 0 < Sc2 -> 0 < Pr2 -> 0 < Pc2 ->
  (forall m, mask2 = Some m -> mnr m = Sr2 * os /\ mnc m = Sc2 * os) ->
  mask_bbox mask2 (Sr2 * os) (Sc2 * os) = Ok b2 ->
  propagate_dft sq shift_of w dur duc shape1 pshape1 os mask1 = Ok w1 -> wfield w1 = Ok o1 ->
  propagate_dft sq shift_of w dur duc shape2 pshape2 os mask2 = Ok w2 -> wfield w2 = Ok o2 ->
  forall i1 j1 i2 j2, 0 <= i1 < Sr1 * os -> 0 <= j1 < Sc1 * os -> 0 <= i2 < Sr2 * os -> 0 <= j2 < Sc2 * os ->
    i1 - (Sr1 * os) / 2 = i2 - (Sr2 * os) / 2 -> j1 - (Sc1 * os) / 2 = j2 - (Sc2 * os) / 2 ->
    inE b1 i1 j1 && inE (array_extent (Pr1 * os) (Pc1 * os) 0 0) (i1 - (Sr1 * os) / 2) (j1 - (Sc1 * os) / 2) = true ->
    inE b2 i2 j2 && inE (array_extent (Pr2 * os) (Pc2 * os) 0 0) (i2 - (Sr2 * os) / 2) (j2 - (Sc2 * os) / 2) = true ->
    get o1 i1 j1 = get o2 i2 j2.
Proof.
  intros Hps Hd Hos Hs1 Hp1 A1 A2 A3 A4 Hm1 Hb1 Hs2 Hp2 B1 B2 B3 B4 Hm2 Hb2 Hw1 Ho1 Hw2 Ho2
         i1 j1 i2 j2 Hi1 Hj1 Hi2 Hj2 Eu Ev In1 In2.
  assert (Hpt : wptype w <> PtNone).
  { intro E. unfold propagate_dft in Hw1. rewrite E in Hw1. discriminate. }
  destruct (propagate_dft_samples shift_of w dur duc shape1 pshape1 os mask1 dxr dxc Sr1 Sc1 Pr1 Pc1 b1
              Hpt Hps Hd Hs1 Hp1 A1 A2 A3 A4 Hos Hm1 Hb1) as (w1' & o1' & Hw1' & _ & Ho1' & _ & _ & G1).
  destruct (propagate_dft_samples shift_of w dur duc shape2 pshape2 os mask2 dxr dxc Sr2 Sc2 Pr2 Pc2 b2
              Hpt Hps Hd Hs2 Hp2 B1 B2 B3 B4 Hos Hm2 Hb2) as (w2' & o2' & Hw2' & _ & Ho2' & _ & _ & G2).
  rewrite Hw1 in Hw1'. injection Hw1' as <-. rewrite Ho1 in Ho1'. injection Ho1' as <-.
  rewrite Hw2 in Hw2'. injection Hw2' as <-. rewrite Ho2 in Ho2'. injection Ho2' as <-.
  rewrite (G1 i1 j1 Hi1 Hj1), (G2 i2 j2 Hi2 Hj2). cbv zeta. rewrite In1, In2, Eu, Ev. reflexivity.
Qed.

(* ------------------------------------------------------------------ metadata *)
Theorem propagate_metadata shift_of (w w' : wavefront S) dur duc shape pshape os mask :
  propagate_dft sq shift_of w dur duc shape pshape os mask = Ok w' ->
  wwl w' = wwl w /\
  wfocal w' = init_focal (wfocal w) /\
  wps w' = Some ((dur / zq os)%Qc, (duc / zq os)%Qc) /\
  ((wptype w = PtPupil /\ wptype w' = PtImage) \/ (wptype w = PtImage /\ wptype w' = PtPupil)) /\
  wshape w' = (let '(Sr, Sc) := match shape with None => wshape w | Some s => s end in (Sr * os, Sc * os)).
Proof.
  unfold propagate_dft. destruct (wptype w) eqn:Ept; cbn [propagate_ptype rbind]; [discriminate| |];
    destruct (match shape with None => wshape w | Some s => s end) as [Sr Sc];
    destruct (match pshape with None => (Sr, Sc) | Some p => p end) as [Pr Pc];
    destruct (out_extent (Sr * os) (Sc * os) mask) as [oe|e]; cbn [rbind]; try discriminate;
    match goal with |- context[prop_fields ?a1 ?a2 ?a3 ?a4 ?a5 ?a6 ?a7] => destruct (prop_fields a1 a2 a3 a4 a5 a6 a7) as [l|e2] end;
    cbn [rbind]; try discriminate; intros H; injection H as <-; cbn [wwl wfocal wps wptype wshape];
    repeat split; auto.
Qed.

Theorem propagate_focal_copied shift_of (w w' : wavefront S) dur duc shape pshape os mask z :
  propagate_dft sq shift_of w dur duc shape pshape os mask = Ok w' ->
  wfocal w = Some z -> z <> 0%Qc -> wfocal w' = Some z.
Proof.
  intros H Hz Hne. destruct (propagate_metadata _ _ _ _ _ _ _ _ _ H) as (_ & Hf & _).
  rewrite Hf, Hz. unfold init_focal. destruct (Qc_eq_bool z 0) eqn:E; [|reflexivity].
  apply Qc_eq_bool_correct in E. contradiction.
Qed.

Theorem propagate_none_refused shift_of (w : wavefront S) dur duc shape pshape os mask :
  wptype w = PtNone -> propagate_dft sq shift_of w dur duc shape pshape os mask = Err TypeError.
Proof. intros H. unfold propagate_dft. rewrite H. reflexivity. Qed.
(* the same statement with every definition of Proofs/ unfolded (the form quoted in Properties/C02.v) *)
Lemma lsum_map_fold {A} (t : A -> S) l : lsum S (map t l) = fold_right (fun f acc => (t f + acc)%K) k0 l.
Proof. induction l as [|x l IH]; [reflexivity|]. cbn [map fold_right]. rewrite lsum_cons, IH. reflexivity. Qed.

Lemma dft_alpha1_explicit dx du wl z os :
  dft_alpha1 dx du wl z os = ((dx * du) / (wl * match z with Some zz => zz | None => 0 end * zq os))%Qc.
Proof. unfold dft_alpha1. destruct z; [reflexivity|].
  unfold Qcdiv. replace (wl * 0 * zq os)%Qc with 0%Qc by ring.
  replace (/ 0)%Qc with 0%Qc by (apply Qc_is_canon; reflexivity). ring. Qed.

Theorem propagate_dft_samples_explicit shift_of (w : wavefront S) dur duc shape pshape os mask dxr dxc Sr Sc Pr Pc b :
  wptype w <> PtNone -> wps w = Some (dxr, dxc) ->
  (forall f, In f (wdata w) -> shift_of f = (0%Qc, 0%Qc) /\ exists a, fd f = D2 a) ->
  match shape with None => wshape w | Some s => s end = (Sr, Sc) ->
  match pshape with None => (Sr, Sc) | Some p => p end = (Pr, Pc) ->
  0 < Sr -> 0 < Sc -> 0 < Pr -> 0 < Pc -> 1 <= os ->
  (forall m, mask = Some m -> mnr m = Sr * os /\ mnc m = Sc * os) ->
  mask_bbox mask (Sr * os) (Sc * os) = Ok b ->
  let ar := ((dxr * dur) / (wwl w * match wfocal w with Some z => z | None => 0 end * zq os))%Qc in
  let ac := ((dxc * duc) / (wwl w * match wfocal w with Some z => z | None => 0 end * zq os))%Qc in
  exists w' o, propagate_dft sq shift_of w dur duc shape pshape os mask = Ok w' /\
    wshape w' = (Sr * os, Sc * os) /\
    render (wdata w') (Sr * os) (Sc * os) = Ok o /\ nr o = Sr * os /\ nc o = Sc * os /\
    (forall i j, 0 <= i < Sr * os -> 0 <= j < Sc * os ->
      let u := i - (Sr * os) / 2 in let v := j - (Sc * os) / 2 in
      get o i j =
        if inE b i j && inE (array_extent (Pr * os) (Pc * os) 0 0) u v
        then (fold_right (fun f acc =>
                (match fd f with
                 | D2 a => sumZ (nr a) (fun x => sumZ (nc a) (fun y =>
                     (get a x y * ke (ar * zq (x - nr a / 2 + offr f) * zq u + ac * zq (y - nc a / 2 + offc f) * zq v)%Qc)%K))
                 | D0 _ => k0
                 end + acc)%K) k0 (wdata w)
              * sq (qabs (ar * ac)%Qc))%K
        else k0).
Proof.
  intros H1 H2 H3 H4 H5 H6 H7 H8 H9 H10 H11 H12 ar ac.
  destruct (propagate_dft_samples shift_of w dur duc shape pshape os mask dxr dxc Sr Sc Pr Pc b
              H1 H2 H3 H4 H5 H6 H7 H8 H9 H10 H11 H12) as (w' & o & A & B & C & D & E & F).
  exists w', o. repeat (split; [assumption|]). split.
  { unfold wfield in C. rewrite B in C. exact C. }
  repeat (split; [assumption|]).
  intros i j Hi Hj u v. rewrite (F i j Hi Hj). rewrite !dft_alpha1_explicit. fold ar ac u v.
  rewrite lsum_map_fold. reflexivity.
Qed.
(* ------------------------------------------------------------------ the input plane *)
(* the Fraunhofer sums of the fields add up to the Fraunhofer sum of the plane they tile: input
   sample x of a field sits at plane coordinate x - floor(m/2) + offset *)
Definition in_box (B : Z) (e : extent) : Prop :=
  let '(rmin, rmax, cmin, cmax) := e in - B <= rmin /\ rmax <= B /\ - B <= cmin /\ cmax <= B.

Lemma field_sum_is_plane_transform (f : field S) a B ar ac U V :
  fd f = D2 a -> 0 < nr a -> 0 < nc a -> in_box B (fextent f) ->
  fourier_sum a ar ac (offr f) (offc f) U V = plane_fraunhofer B (embed f) ar ac U V.
Proof.
  destruct f as [d orr occ tl]. cbn [fd offr offc]. intros -> Hn Hm.
  unfold in_box, fextent, embed, fextent. cbn [fd dshape offr offc dget]. unfold array_extent.
  set (rmin := - (nr a / 2) + orr). set (cmin := - (nc a / 2) + occ). intros (B1 & B2 & B3 & B4).
  unfold plane_fraunhofer, fourier_sum. symmetry.
  rewrite (sumZ_support S Sring (2 * B + 1) (rmin + B) (nr a)); try lia.
  - apply sumZ_ext; intros x Hx.
    rewrite (sumZ_support S Sring (2 * B + 1) (cmin + B) (nc a)); try lia.
    + apply sumZ_ext; intros y Hy. unfold inb.
      replace ((rmin <=? rmin + B + x - B) && (rmin + B + x - B <=? rmin + nr a - 1)
               && ((cmin <=? cmin + B + y - B) && (cmin + B + y - B <=? cmin + nc a - 1))) with true by lia.
      replace (rmin + B + x - B - rmin) with x by lia. replace (cmin + B + y - B - cmin) with y by lia.
      replace (rmin + B + x - B) with (x - nr a / 2 + orr) by (subst rmin; lia).
      replace (cmin + B + y - B) with (y - nc a / 2 + occ) by (subst cmin; lia). reflexivity.
    + intros y Hy Hn'. unfold inb.
      replace ((rmin <=? rmin + B + x - B) && (rmin + B + x - B <=? rmin + nr a - 1)
               && ((cmin <=? y - B) && (y - B <=? cmin + nc a - 1))) with false by lia. ring.
  - intros x Hx Hn'. apply (sumZ_zero_ext S Sring). intros y Hy. unfold inb.
    replace ((rmin <=? x - B) && (x - B <=? rmin + nr a - 1)
             && ((cmin <=? y - B) && (y - B <=? cmin + nc a - 1))) with false by lia. ring.
Qed.

Lemma plane_fraunhofer_add B (g h : Z -> Z -> S) ar ac U V :
  plane_fraunhofer B (fun x y => (g x y + h x y)%K) ar ac U V
  = (plane_fraunhofer B g ar ac U V + plane_fraunhofer B h ar ac U V)%K.
Proof. unfold plane_fraunhofer. rewrite <- sumZ_add by exact Sring. apply sumZ_ext; intros x Hx.
  rewrite <- sumZ_add by exact Sring. apply sumZ_ext; intros y Hy. ring. Qed.
Lemma plane_fraunhofer_zero B ar ac U V : plane_fraunhofer B (fun _ _ => k0) ar ac U V = @k0 S.
Proof. unfold plane_fraunhofer. apply (sumZ_zero_ext S Sring); intros x Hx.
  apply (sumZ_zero_ext S Sring); intros y Hy. ring. Qed.
Lemma plane_fraunhofer_ext B (g h : Z -> Z -> S) ar ac U V : (forall x y, g x y = h x y) ->
  plane_fraunhofer B g ar ac U V = plane_fraunhofer B h ar ac U V.
Proof. intros H. unfold plane_fraunhofer. apply sumZ_ext; intros x Hx. apply sumZ_ext; intros y Hy. now rewrite H. Qed.

Theorem fields_sum_is_plane_transform (fs : list (field S)) B ar ac U V :
  (forall f, In f fs -> sized f /\ in_box B (fextent f)) ->
  lsum S (map (fun f => match fd f with D2 a => fourier_sum a ar ac (offr f) (offc f) U V | D0 _ => k0 end) fs)
  = plane_fraunhofer B (embed_sum fs) ar ac U V.
Proof.
  intros H.
  rewrite (plane_fraunhofer_ext B (embed_sum fs) (fun x y => lsum S (map (fun f => embed f x y) fs)))
    by (intros; apply embed_sum_lsum; exact Sring).
  induction fs as [|f r IH]; cbn [map].
  - symmetry. apply plane_fraunhofer_zero.
  - rewrite lsum_cons, IH by (intros; apply H; now right).
    destruct (H f (or_introl eq_refl)) as [(a & Ha & Hn & Hm) Hb]. rewrite Ha.
    rewrite (field_sum_is_plane_transform f a B ar ac U V Ha Hn Hm Hb).
    rewrite <- plane_fraunhofer_add. apply plane_fraunhofer_ext. intros x y. reflexivity.
Qed.
Theorem fields_sum_is_plane_transform_explicit (fs : list (field S)) B ar ac U V :
  (forall f, In f fs -> (exists d, fd f = D2 d /\ 0 < nr d /\ 0 < nc d) /\
                        (let '(rmin, rmax, cmin, cmax) := fextent f in - B <= rmin /\ rmax <= B /\ - B <= cmin /\ cmax <= B)) ->
  fold_right (fun f acc =>
     (match fd f with
      | D2 a => sumZ (nr a) (fun x => sumZ (nc a) (fun y =>
          (get a x y * ke (ar * zq (x - nr a / 2 + offr f) * U + ac * zq (y - nc a / 2 + offc f) * V)%Qc)%K))
      | D0 _ => k0
      end + acc)%K) k0 fs
  = sumZ (2 * B + 1) (fun x => sumZ (2 * B + 1) (fun y =>
      (embed_sum fs (x - B)%Z (y - B)%Z * ke (ar * zq (x - B) * U + ac * zq (y - B) * V)%Qc)%K)).
Proof.
  intros H. rewrite <- lsum_map_fold. exact (fields_sum_is_plane_transform fs B ar ac U V H).
Qed.
(* ------------------------------------------------------------------ Wavefront.intensity *)
Lemma acc_from (g : S -> S) (w : S) (fs : list (field S)) : g k0 = k0 ->
  forall (o0 : arr S), 0 < nr o0 -> 0 < nc o0 -> (forall f, In f fs -> sized f) ->
  exists o, fold_left (fun acc f => rbind acc (fun o => rbind (insert g f o w) (fun o' => Ok (force o'))))
                      fs (Ok o0) = Ok o /\ nr o = nr o0 /\ nc o = nc o0 /\
    (forall i j, 0 <= i < nr o0 -> 0 <= j < nc o0 ->
      get o i j = (get o0 i j + lsum S (map (fun f => (g (embed f (i - nr o0 / 2) (j - nc o0 / 2)) * w)%K) fs))%K).
Proof.
  intros Hg. induction fs as [|f r IH]; intros o0 Hn Hm Hs.
  - exists o0. cbn. repeat split; try reflexivity. intros. ring.
  - destruct (Hs f (or_introl eq_refl)) as (d & Hd & Hd1 & Hd2).
    destruct (insert_spec S Sring g f d o0 w Hd Hd1 Hd2 Hn Hm Hg) as (o1 & Ho1 & N1 & M1 & G1).
    cbn [fold_left rbind]. rewrite Ho1. cbn [rbind].
    destruct (IH (force o1)) as (o & Ho & N & M & G).
    + rewrite force_nr. lia. + rewrite force_nc. lia. + intros x Hx. apply Hs. now right.
    + exists o. split; [exact Ho|]. rewrite force_nr, force_nc in *. split; [lia|]. split; [lia|].
      intros i j Hi Hj. rewrite N1, M1 in G. rewrite G by assumption.
      rewrite force_get by lia. rewrite G1 by assumption. cbn [map]. rewrite lsum_cons. ring.
Qed.

Lemma all_fields_init (fs : list (field S)) : all_fields S (map (fun f => ([f], fextent f)) fs) = fs.
Proof. induction fs as [|f r IH]; [reflexivity|]. cbn [map]. unfold all_fields in *. cbn [flat_map fst app]. now rewrite IH. Qed.

Lemma reduce_sized (fs : list (field S)) : (forall f, In f fs -> sized f /\ fbounded S f) ->
  forall g, In g (reduce fs) -> sized g.
Proof.
  intros H g Hg. rewrite reduce_is_map in Hg. apply in_map_iff in Hg. destruct Hg as (grp & <- & Hin).
  assert (Hok : forall f, In f fs -> fok S f).
  { intros f Hf. destruct (H f Hf) as [(d & Hd & Hd1 & Hd2) Hb]. split; [unfold fvalid; rewrite Hd; lia|exact Hb]. }
  destruct (reduce_groups_inv S fs Hok grp Hin) as (G1 & G2 & G3).
  assert (Hsub : forall f, In f (fst grp) -> In f fs).
  { intros f Hf. assert (Hall : In f (all_fields S (reduce_groups fs))).
    { unfold all_fields. apply in_flat_map. exists grp. split; assumption. }
    unfold reduce_groups in Hall. eapply Permutation.Permutation_in in Hall; [|apply disjoint_perm].
    rewrite all_fields_init in Hall. exact Hall. }
  unfold gout. destruct (fst grp) as [|f [|f' l]] eqn:E; [congruence|apply H; apply Hsub; now left|].
  assert (Hv : fvalid S (merge (f :: f' :: l))).
  { apply merge_valid; [discriminate|]. intros x Hx. apply G3. exact Hx. }
  destruct (H f (Hsub f (or_introl eq_refl))) as [(d & Hd & _) _].
  unfold merge in *. destruct (boundary (f :: f' :: l)) as [[[b1 b2] b3] b4].
  assert (Ms : merge_scalars (f :: f' :: l) = false) by (cbn [merge_scalars forallb]; rewrite Hd; reflexivity).
  rewrite Ms in *. unfold fvalid in Hv. cbn [fd] in Hv. eexists; split; [reflexivity|]. exact Hv.
Qed.

Lemma norm2_0 : norm2 (@k0 S) = k0.
Proof. unfold norm2. ring. Qed.

Lemma forall_or_split {A} (P : Prop) (Q : A -> Prop) l : Forall (fun b => P \/ Q b) l -> P \/ Forall Q l.
Proof. induction 1 as [|b r [Hp|Hq] _ [IH|IH]]; auto. Qed.

Lemma lsum_zero (vs : list S) : Forall (fun b => b = k0) vs -> lsum S vs = k0 /\ lsum S (map norm2 vs) = k0.
Proof. induction 1 as [|b r Hb _ [IH1 IH2]]; [split; reflexivity|]. cbn [map]. rewrite !lsum_cons, IH1, IH2, Hb, norm2_0.
  split; ring. Qed.

(* where at most one term is non-zero, the sum of the squared moduli is the squared modulus of the sum *)
Lemma lsum_norm2_disjoint (vs : list S) : ForallOrdPairs (fun a b => a = k0 \/ b = k0) vs ->
  lsum S (map norm2 vs) = norm2 (lsum S vs).
Proof.
  induction 1 as [|x r Hx _ IH]; [symmetry; apply norm2_0|].
  cbn [map]. rewrite !lsum_cons. destruct (forall_or_split _ _ _ Hx) as [E|E].
  - rewrite E, norm2_0, IH. replace (k0 + lsum S r)%K with (lsum S r) by ring. ring.
  - destruct (lsum_zero r E) as [E1 E2]. rewrite E1, E2. replace (x + k0)%K with x by ring. ring.
Qed.

Lemma fop_map {A B} (R : A -> A -> Prop) (R' : B -> B -> Prop) (h : A -> B) l :
  (forall a b, R a b -> R' (h a) (h b)) -> ForallOrdPairs R l -> ForallOrdPairs R' (map h l).
Proof. intros Hh. induction 1 as [|x r Hx _ IH]; cbn [map]; constructor; [|exact IH].
  apply Forall_forall. intros y Hy. apply in_map_iff in Hy. destruct Hy as (b & <- & Hb).
  apply Hh. rewrite Forall_forall in Hx. now apply Hx. Qed.

Lemma esub_refl e : esub e e.
Proof. destruct e as [[[a b] c] d]. unfold esub. lia. Qed.

Lemma disjoint_one_zero (a b : field S) r c : intersect (fextent a) (fextent b) = false ->
  embed a r c = k0 \/ embed b r c = k0.
Proof.
  intros H. destruct (inE (fextent a) r c) eqn:Ea.
  - destruct (inE (fextent b) r c) eqn:Eb.
    + rewrite (common_point_intersect _ _ _ _ Ea Eb) in H. discriminate.
    + right. apply (embed_outside S b (fextent b)); [apply esub_refl|exact Eb].
  - left. apply (embed_outside S a (fextent a)); [apply esub_refl|exact Ea].
Qed.

(* Wavefront.intensity is the squared modulus of Wavefront.field, sample by sample (overlapping
   fields are merged = added coherently, disjoint ones contribute to different samples) *)
Theorem intensity_is_norm2_field (fs : list (field S)) n m : 0 < n -> 0 < m ->
  (forall f, In f fs -> sized f /\ fbounded S f) ->
  exists o, intensity fs n m = Ok o /\ nr o = n /\ nc o = m /\
    (forall i j, 0 <= i < n -> 0 <= j < m ->
      get o i j = norm2 (lsum S (map (fun f => embed f (i - n / 2) (j - m / 2)) fs))).
Proof.
  intros Hn Hm H.
  assert (Hok : forall f, In f fs -> fok S f).
  { intros f Hf. destruct (H f Hf) as [(d & Hd & Hd1 & Hd2) Hb]. split; [unfold fvalid; rewrite Hd; lia|exact Hb]. }
  destruct (acc_from norm2 k1 (reduce fs) norm2_0 (azeros n m) Hn Hm (reduce_sized fs H)) as (o & Ho & N & M & G).
  exists o. split; [exact Ho|]. cbn [azeros nr nc] in *. repeat split; try assumption.
  intros i j Hi Hj. rewrite G by assumption. unfold azeros at 1. cbn [get].
  set (u := i - n / 2). set (v := j - m / 2).
  rewrite (lsum_map_ext _ (fun f => norm2 (embed f u v))) by (intros; ring).
  rewrite <- (map_map (fun f => embed f u v) norm2).
  rewrite lsum_norm2_disjoint.
  - rewrite <- !(embed_sum_lsum S Sring). rewrite (reduce_total S Sring fs u v Hok). ring.
  - apply (fop_map (fun a b : field S => intersect (fextent a) (fextent b) = false)).
    + intros a b Hab. now apply disjoint_one_zero.
    + apply (reduce_disjoint S fs Hok).
Qed.
(* every output Field lies inside the output window *)
Lemma prop_field_extent oe Pro Pco alpha sh (f g : field S) :
  evalid oe -> 0 < Pro -> 0 < Pco -> prop_field sq oe Pro Pco alpha sh f = Ok (Some g) ->
  esub (fextent g) oe /\ exists a ar ac, fd f = D2 a /\ alpha = Some (ar, ac).
Proof.
  intros Hv HP1 HP2. unfold prop_field.
  set (fr := qfix (fst sh)). set (fc := qfix (snd sh)).
  destruct (intersect oe (array_extent Pro Pco fr fc)) eqn:Ei; [|discriminate].
  destruct (prop_window oe Pro Pco fr fc Hv HP1 HP2 Ei)
    as (r1 & r2 & c1 & c2 & Ir & Ic & isr & isc & Hie & Hsh & HIr & HIc & Hsf & Hae & _ & _).
  rewrite Hsh, Hsf.
  destruct (array_center (array_extent Pro Pco fr fc)) as [pcr pcc].
  destruct (array_center (array_extent Ir Ic isr isc)) as [icr icc].
  destruct alpha as [[ar ac]|]; [|discriminate]. destruct (fd f) as [v|a]; [discriminate|].
  destruct (dft2_shape S sq a ar ac Ir Ic (zq (pcr - icr) + (fst sh - zq fr))%Qc
              (zq (pcc - icc) + (snd sh - zq fc))%Qc (offr f) (offc f) true) as [E1 E2].
  set (D := dft2 sq a ar ac Ir Ic (zq (pcr - icr) + (fst sh - zq fr))%Qc
              (zq (pcc - icc) + (snd sh - zq fc))%Qc (offr f) (offc f) true) in *. clearbody D.
  intros H. injection H as <-. split; [|exists a, ar, ac; split; reflexivity].
  unfold fextent. cbn [fd dshape offr offc].
  rewrite E1, E2, Hae. destruct oe as [[[o1 o2] o3] o4].
  unfold intersection_extent, array_extent in Hie. injection Hie as <- <- <- <-. unfold esub. lia.
Qed.

Lemma prop_fields_extent shift_of oe Pro Pco alpha (fs : list (field S)) :
  evalid oe -> 0 < Pro -> 0 < Pco -> forall l, prop_fields sq shift_of oe Pro Pco alpha fs = Ok l ->
  forall g, In g l -> esub (fextent g) oe.
Proof.
  intros Hv H1 H2. induction fs as [|f r IH]; intros l; cbn [prop_fields].
  - intros H. injection H as <-. intros g [].
  - destruct (prop_field sq oe Pro Pco alpha (shift_of f) f) as [o|e] eqn:Ef; cbn [rbind]; [|discriminate].
    destruct (prop_fields sq shift_of oe Pro Pco alpha r) as [l'|e] eqn:El; cbn [rbind]; [|discriminate].
    intros H. injection H as <-. intros g Hg. destruct o as [g0|].
    + destruct Hg as [<-|Hg]; [exact (proj1 (prop_field_extent _ _ _ _ _ _ _ Hv H1 H2 Ef))|now apply (IH l')].
    + now apply (IH l').
Qed.

Lemma mask_bbox_in_array mask Ro Co b : 0 < Ro -> 0 < Co ->
  (forall m, mask = Some m -> mnr m = Ro /\ mnc m = Co) -> mask_bbox mask Ro Co = Ok b ->
  let '(r1, r2, c1, c2) := b in 0 <= r1 /\ r1 <= r2 /\ r2 < Ro /\ 0 <= c1 /\ c1 <= c2 /\ c2 < Co.
Proof.
  intros HR HC Hm Hb. destruct mask as [m|]; cbn [mask_bbox] in Hb.
  - destruct (Hm m eq_refl) as [<- <-]. destruct b as [[[r1 r2] c1] c2].
    destruct (mask_boundary_spec _ _ _ _ _ Hb) as (A1 & A2 & A3 & A4 & A5 & A6 & _). lia.
  - injection Hb as <-. lia.
Qed.

(* Wavefront.intensity of the propagated wavefront is |Wavefront.field|^2 at every sample *)
Theorem propagate_dft_intensity shift_of (w : wavefront S) dur duc shape pshape os mask dxr dxc Sr Sc Pr Pc b :
  wptype w <> PtNone -> wps w = Some (dxr, dxc) ->
  (forall f, In f (wdata w) -> exists a, fd f = D2 a) ->
  match shape with None => wshape w | Some s => s end = (Sr, Sc) ->
  match pshape with None => (Sr, Sc) | Some p => p end = (Pr, Pc) ->
  0 < Sr -> 0 < Sc -> 0 < Pr -> 0 < Pc -> 1 <= os -> Sr * os < maxsize -> Sc * os < maxsize ->
  (forall m, mask = Some m -> mnr m = Sr * os /\ mnc m = Sc * os) ->
  mask_bbox mask (Sr * os) (Sc * os) = Ok b ->
  exists w' o oi, propagate_dft sq shift_of w dur duc shape pshape os mask = Ok w' /\
    wfield w' = Ok o /\ wintensity w' = Ok oi /\ nr oi = Sr * os /\ nc oi = Sc * os /\
    (forall i j, 0 <= i < Sr * os -> 0 <= j < Sc * os -> get oi i j = norm2 (get o i j)).
Proof.
  intros Hpt Hps Hd Hshape Hpshape HSr HSc HPr HPc Hos HbR HbC Hm Hb.
  set (ar := dft_alpha1 dxr dur (wwl w) (wfocal w) os). set (ac := dft_alpha1 dxc duc (wwl w) (wfocal w) os).
  assert (HRo : 0 < Sr * os) by nia. assert (HCo : 0 < Sc * os) by nia.
  assert (HPro : 0 < Pr * os) by nia. assert (HPco : 0 < Pc * os) by nia.
  destruct (out_extent_spec (Sr * os) (Sc * os) mask b HRo HCo Hm Hb) as (oe & Hoe & Hv & Hin).
  pose proof (mask_bbox_in_array mask (Sr * os) (Sc * os) b HRo HCo Hm Hb) as Hbb.
  destruct (prop_fields_spec shift_of oe (Pr * os) (Pc * os) ar ac (wdata w) Hv HPro HPco Hd) as (l & Hl & Sl & El).
  pose proof (prop_fields_extent shift_of oe (Pr * os) (Pc * os) (Some (ar, ac)) (wdata w) Hv HPro HPco l Hl) as Xl.
  destruct (render_spec l (Sr * os) (Sc * os) HRo HCo Sl) as (o & Ho & N & M & G).
  assert (Hoeb : esub oe (- ((Sr * os) / 2), Sr * os - 1 - (Sr * os) / 2, - ((Sc * os) / 2), Sc * os - 1 - (Sc * os) / 2)).
  { destruct oe as [[[o1 o2] o3] o4]. destruct b as [[[r1 r2] c1] c2]. cbn in Hv.
    pose proof (Hin (o1 + (Sr * os) / 2) (o3 + (Sc * os) / 2)) as C1.
    pose proof (Hin (o2 + (Sr * os) / 2) (o4 + (Sc * os) / 2)) as C2.
    unfold inE, inb in C1, C2. unfold esub.
    set (h1 := (Sr * os) / 2) in *. set (h2 := (Sc * os) / 2) in *. clearbody h1 h2. lia. }
  assert (Hfb : forall g, In g l -> sized g /\ fbounded S g).
  { intros g Hg. split; [now apply Sl|]. specialize (Xl g Hg). unfold fbounded.
    destruct (fextent g) as [[[g1 g2] g3] g4]. destruct oe as [[[o1 o2] o3] o4]. unfold esub in *.
    set (h1 := (Sr * os) / 2) in *. set (h2 := (Sc * os) / 2) in *.
    assert (0 <= h1 <= Sr * os) by (subst h1; lia). assert (0 <= h2 <= Sc * os) by (subst h2; lia).
    clearbody h1 h2. lia. }
  destruct (intensity_is_norm2_field l (Sr * os) (Sc * os) HRo HCo Hfb) as (oi & Hoi & Ni & Mi & Gi).
  assert (Hfin : forall i j, 0 <= i < Sr * os -> 0 <= j < Sc * os -> get oi i j = norm2 (get o i j)).
  { intros i j Hi Hj. rewrite Gi, G by assumption. reflexivity. }
  unfold propagate_dft.
  destruct (wptype w) eqn:Ept; [congruence| |]; cbn [propagate_ptype rbind];
    rewrite Hshape, Hpshape, Hoe; cbn [rbind]; rewrite Hps; fold ar ac; rewrite Hl; cbn [rbind];
    (eexists; exists o, oi; split; [reflexivity|]); unfold wfield, wintensity; cbn [wdata wshape fst snd];
    (split; [exact Ho|]); (split; [exact Hoi|]); (split; [exact Ni|]); (split; [exact Mi|]); exact Hfin.
Qed.
End PropagateP.
