(* The blur model over the complex numbers (scalar structure CS of Lib/Cis.v, ke t = exp(-2 pi i t)):
   inverse theorems in both directions (1-D from roots-of-unity orthogonality, lifted to 2-D), the sum of an
   inverse transform is its DC term, identity for the unit multiplier, the convolution theorem in its final form,
   non-negativity of the modulus, and conservation of the total by the renormalisation. *)
From Coq Require Import Reals Lra QArith Qreals Qcanon.
From Coquelicot Require Import Complex.
From LV Require Import Lib.Cis Model.Blur Proofs.ArrP Proofs.BlurP.

Local Open Scope Z_scope.

Ltac csimp := cbn [kmul kadd ksub kopp k0 k1 K CS].

Lemma CS_period : forall z : Z, @ke CS (zQ z) = k1.
Proof. exact CS_ke_Z. Qed.

Lemma tq_qz a n : tq a n = qz a n. Proof. reflexivity. Qed.

Definition cinvn (n : Z) : C := @kofq CS (/ zQ n)%Qc.
Lemma cinvn_R n : n <> 0 -> cinvn n = RtoC (/ IZR n).
Proof. intros H. unfold cinvn. cbn [kofq CS]. f_equal.
  change (zQ n) with (Z2Qc n). rewrite Q2R_Qc_inv by (apply Z2Qc_neq0; assumption). now rewrite Q2R_Z2Qc. Qed.
Lemma cinvn_mul m n : m <> 0 -> n <> 0 -> cinvn (m * n) = Cmult (cinvn m) (cinvn n).
Proof. intros Hm Hn. rewrite !cinvn_R by lia. rewrite mult_IZR.
  rewrite <- RtoC_mult. f_equal. field. split; apply not_0_IZR; assumption. Qed.
Lemma cinvn_n n : n <> 0 -> Cmult (cinvn n) (RtoC (IZR n)) = RtoC 1.
Proof. intros H. rewrite cinvn_R by assumption. rewrite <- RtoC_mult. f_equal. field. now apply not_0_IZR. Qed.

(* ------------------------------------------------------------------------------------------ *)
(** * One dimension *)
(* inverse of forward: Lib/Cis.v's theorem with both origins 0 (numpy's fft / ifft pair) *)
Lemma idft1_dft1 n (f : Z -> C) y : 0 < n -> 0 <= y < n ->
  Cmult (cinvn n) (@idft1r CS n (@dft1 CS n f) y) = f y.
Proof.
  intros Hn Hy. rewrite <- (idft1c_dft1c n 0 0 f y Hn Hy).
  unfold idft1c, dft1c, idft1r, dft1. rewrite cinvn_R by lia. f_equal.
  apply sumZ_ext. intros u _. rewrite !Z.sub_0_r. cbn [kmul CS]. f_equal.
  apply sumZ_ext. intros x _. now rewrite !Z.sub_0_r.
Qed.

(* forward of inverse, directly from the orthogonality of the roots of unity *)
Lemma dft1_idft1 n (F : Z -> C) u : 0 < n -> 0 <= u < n ->
  @dft1 CS n (fun x => Cmult (cinvn n) (@idft1r CS n F x)) u = F u.
Proof.
  intros Hn Hu. assert (Hn0 : n <> 0) by lia.
  pose proof CS_ring as Rg. pose proof CS_kernel as [Kadd K0].
  unfold dft1, idft1r.
  rewrite (sumZ_ext CS n _ (fun x => @sumZ CS n (fun w => Cmult (Cmult (cinvn n) (F w)) (@ke CS (qz ((u - w) * x) n))))).
  2:{ intros x _. change Cmult with (@kmul CS).
      rewrite <- (sumZ_scale_l CS Rg), <- (sumZ_scale_r CS Rg). apply sumZ_ext. intros w _.
      transitivity (@kmul CS (@kmul CS (cinvn n) (F w)) (@kmul CS (@ke CS (tq (- (x * w)) n)) (@ke CS (tq (x * u) n)))).
      { csimp. ring. }
      rewrite <- Kadd, <- tq_add. f_equal. f_equal. rewrite tq_qz. f_equal. ring. }
  rewrite (sumZ_exchange CS Rg).
  rewrite (sumZ_ext CS n _ (fun w => if w =? u then F w else RtoC 0)).
  - change (RtoC 0) with (@k0 CS). now rewrite (sumZ_delta CS Rg n u F).
  - intros w Hw. change Cmult with (@kmul CS). rewrite (sumZ_scale_l CS Rg), ke_roots_sum by assumption.
    destruct (Z.eqb_spec w u) as [->|Hne].
    + rewrite Z.sub_diag, Z.mod_0_l by lia. cbn [Z.eqb]. csimp.
      transitivity (Cmult (F u) (Cmult (cinvn n) (RtoC (IZR n)))); [ring|]. rewrite cinvn_n by assumption. ring.
    + assert (((u - w) mod n) <> 0).
      { intro E. apply Z.mod_divide in E; [|lia]. destruct E as [q Hq].
        assert (q = 0 \/ q <= -1 \/ 1 <= q) as [Hq0|[Hq1|Hq1]] by lia; [subst q; lia| |]; nia. }
      destruct (Z.eqb_spec ((u - w) mod n) 0); [contradiction|]. csimp. ring.
Qed.

(* ------------------------------------------------------------------------------------------ *)
(** * Two dimensions *)
Lemma I2r_F2 m n (g : Z -> Z -> C) i j : 0 < m -> 0 < n -> 0 <= i < m -> 0 <= j < n ->
  Cmult (cinvn (m * n)) (@I2r CS m n (@F2 CS m n g) i j) = g i j.
Proof.
  intros Hm Hn Hi Hj. pose proof CS_ring as Rg. rewrite cinvn_mul by lia. unfold I2r, F2.
  transitivity (Cmult (cinvn m) (@idft1r CS m (fun u => Cmult (cinvn n)
       (@idft1r CS n (fun v => @dft1 CS n (fun y => @dft1 CS m (fun x => g x y) u) v) j)) i)).
  { change Cmult with (@kmul CS). rewrite (idft1r_scale CS Rg). csimp. ring. }
  rewrite (@idft1r_ext CS m _ (@dft1 CS m (fun x => g x j))).
  - apply (idft1_dft1 m (fun x => g x j)); assumption.
  - intros u _. apply (idft1_dft1 n (fun y => @dft1 CS m (fun x => g x y) u)); assumption.
Qed.

Lemma F2_I2r m n (G : Z -> Z -> C) u v : 0 < m -> 0 < n -> 0 <= u < m -> 0 <= v < n ->
  @F2 CS m n (fun x y => Cmult (cinvn (m * n)) (@I2r CS m n G x y)) u v = G u v.
Proof.
  intros Hm Hn Hu Hv. pose proof CS_ring as Rg. rewrite cinvn_mul by lia. unfold I2r, F2.
  rewrite (@dft1_ext CS n _ (fun y => Cmult (cinvn n) (@idft1r CS n (fun v' => G u v') y))).
  - apply (dft1_idft1 n (fun v' => G u v')); assumption.
  - intros y _.
    rewrite (@dft1_ext CS m _ (fun x => Cmult (cinvn n) (Cmult (cinvn m)
        (@idft1r CS m (fun u' => @idft1r CS n (fun v' => G u' v') y) x)))) by (intros; csimp; ring).
    change Cmult with (@kmul CS). rewrite (dft1_scale CS Rg). f_equal.
    apply (dft1_idft1 m (fun u' => @idft1r CS n (fun v' => G u' v') y)); assumption.
Qed.

Theorem ifft2_fft2 (a : arr CS) i j : 0 <= i < nr a -> 0 <= j < nc a ->
  get (ifft2 (fft2 a)) i j = get a i j.
Proof.
  intros Hi Hj. assert (Hr : nr (fft2 a) = nr a) by reflexivity. assert (Hc : nc (fft2 a) = nc a) by reflexivity.
  rewrite (@ifft2_get CS (fft2 a) i j) by lia.
  change (nr (fft2 a)) with (nr a). change (nc (fft2 a)) with (nc a).
  rewrite (@I2r_ext CS (nr a) (nc a) _ (@F2 CS (nr a) (nc a) (get a))) by (intros; apply (@fft2_get CS a); assumption).
  apply I2r_F2; lia.
Qed.

Theorem fft2_ifft2 (G : arr CS) u v : 0 <= u < nr G -> 0 <= v < nc G ->
  get (fft2 (ifft2 G)) u v = get G u v.
Proof.
  intros Hu Hv. assert (Hr : nr (ifft2 G) = nr G) by reflexivity. assert (Hc : nc (ifft2 G) = nc G) by reflexivity.
  rewrite (@fft2_get CS (ifft2 G) u v) by lia.
  change (nr (ifft2 G)) with (nr G). change (nc (ifft2 G)) with (nc G).
  rewrite (@F2_ext CS (nr G) (nc G) _ (fun x y => Cmult (cinvn (nr G * nc G)) (@I2r CS (nr G) (nc G) (get G) x y)))
    by (intros; apply (@ifft2_get CS G); assumption).
  apply F2_I2r; lia.
Qed.

(* ------------------------------------------------------------------------------------------ *)
(** * Totals *)
Lemma asum_fft2_dc (a : arr CS) : 0 < nr a -> 0 < nc a -> get (fft2 a) 0 0 = asum a.
Proof. intros Hm Hn. rewrite fft2_get by lia. apply (F2_dc CS CS_ring CS_kernel). Qed.

(* the sum of an inverse transform is the DC sample of the spectrum *)
Theorem sum_of_ifft_is_dc (G : arr CS) : 0 < nr G -> 0 < nc G -> asum (ifft2 G) = get G 0 0.
Proof.
  intros Hm Hn. rewrite <- (fft2_ifft2 G 0 0) by lia.
  symmetry. apply (asum_fft2_dc (ifft2 G)); assumption.
Qed.

Theorem conv_total (K a : arr CS) : 0 < nr a -> 0 < nc a -> get K 0 0 = k1 -> asum (conv K a) = asum a.
Proof.
  intros Hm Hn HK. unfold conv. rewrite sum_of_ifft_is_dc by assumption.
  rewrite force_get by (change (nr (amul (fft2 a) K)) with (nr a); change (nc (amul (fft2 a) K)) with (nc a); lia).
  cbn [amul get]. rewrite HK, asum_fft2_dc by assumption. csimp. ring.
Qed.

(* ------------------------------------------------------------------------------------------ *)
(** * Unit multiplier and the convolution theorem *)
Theorem conv_unit (K a : arr CS) i j : 0 <= i < nr a -> 0 <= j < nc a ->
  (forall u v, 0 <= u < nr a -> 0 <= v < nc a -> get K u v = k1) ->
  get (conv K a) i j = get a i j.
Proof.
  intros Hi Hj HK. rewrite conv_get by assumption.
  rewrite (@I2r_ext CS (nr a) (nc a) _ (@F2 CS (nr a) (nc a) (get a))).
  - apply I2r_F2; lia.
  - intros u v Hu Hv. rewrite HK by assumption. csimp. ring.
Qed.

Theorem conv_is_cconv (a h : arr CS) i j : nr h = nr a -> nc h = nc a -> 0 <= i < nr a -> 0 <= j < nc a ->
  get (conv (fft2 h) a) i j = get (cconv a h) i j.
Proof.
  intros Hr Hc Hi Hj. rewrite conv_get by assumption.
  rewrite (@I2r_ext CS (nr a) (nc a) _ (@F2 CS (nr a) (nc a)
     (fun i j => @sumZ CS (nr a) (fun x => @sumZ CS (nc a) (fun y =>
        Cmult (get a x y) (get h ((i - x) mod nr a) ((j - y) mod nc a))))))).
  - apply (I2r_F2 (nr a) (nc a) (get (cconv a h)) i j); lia.
  - intros u v Hu Hv. rewrite (F2_cconv CS CS_ring CS_kernel CS_period) by lia.
    rewrite (@fft2_get CS h) by lia. now rewrite Hr, Hc.
Qed.

(* for an arbitrary multiplier: the point-spread function is its inverse transform *)
Theorem conv_is_cconv_ifft (K a : arr CS) i j : nr K = nr a -> nc K = nc a -> 0 <= i < nr a -> 0 <= j < nc a ->
  get (conv K a) i j = get (cconv a (ifft2 K)) i j.
Proof.
  intros Hr Hc Hi Hj. rewrite <- (conv_is_cconv a (ifft2 K)) by assumption.
  rewrite !conv_get by assumption. f_equal. apply I2r_ext. intros u v Hu Hv.
  rewrite fft2_ifft2 by lia. reflexivity.
Qed.

(* ------------------------------------------------------------------------------------------ *)
(** * Modulus: np.abs, non-negativity, and where nothing is lost *)
Definition Cabs (z : C) : C := RtoC (Cmod z).
Definition Cnn (z : C) : Prop := (0 <= fst z)%R /\ snd z = 0%R.      (* a non-negative real number *)

Lemma Cnn_abs z : Cnn (Cabs z).
Proof. split; cbn; [apply Cmod_ge_0|reflexivity]. Qed.
Lemma Cabs_nn z : Cnn z -> Cabs z = z.
Proof. destruct z as [a b]. intros [Ha Hb]. cbn in *. subst b. unfold Cabs.
  change (a, 0%R) with (RtoC a). rewrite Cmod_R, Rabs_pos_eq by assumption. reflexivity. Qed.
Lemma Cnn_0 : Cnn (RtoC 0). Proof. split; cbn; lra. Qed.
Lemma Cnn_add a b : Cnn a -> Cnn b -> Cnn (Cplus a b).
Proof. destruct a, b. intros [H1 H2] [H3 H4]; cbn in *. split; cbn; lra. Qed.
Lemma Cnn_mul a b : Cnn a -> Cnn b -> Cnn (Cmult a b).
Proof. destruct a as [a1 a2], b as [b1 b2]. intros [H1 H2] [H3 H4]; cbn in *. subst. split; cbn.
  - replace (a1 * b1 - 0 * 0)%R with (a1 * b1)%R by ring. now apply Rmult_le_pos.
  - ring. Qed.
Lemma Cnn_inv a : Cnn a -> Cnn (Cinv a).
Proof. destruct a as [a1 a2]. intros [H1 H2]; cbn in *. subst. split; cbn.
  - destruct (Req_dec a1 0) as [->|Hne].
    + unfold Rdiv. rewrite Rmult_0_l. lra.
    + apply Rmult_le_pos; [assumption|]. apply Rlt_le, Rinv_0_lt_compat. nra.
  - unfold Rdiv. ring. Qed.
Lemma Cnn_sumZ n (f : Z -> C) : (forall i, 0 <= i < n -> Cnn (f i)) -> Cnn (@sumZ CS n f).
Proof. intros H. unfold sumZ.
  assert (forall k, (k <= Z.to_nat n)%nat -> Cnn (@sumn CS k (fun i => f (Z.of_nat i)))) as G.
  { induction k as [|k IH]; intros Hk; cbn [sumn]. - apply Cnn_0.
    - apply Cnn_add; [apply IH; lia|apply H; lia]. }
  apply G. lia. Qed.
Lemma Cnn_asum (a : arr CS) : (forall i j, 0 <= i < nr a -> 0 <= j < nc a -> Cnn (get a i j)) -> Cnn (asum a).
Proof. intros H. unfold asum. apply Cnn_sumZ. intros i Hi. apply Cnn_sumZ. intros j Hj. now apply H. Qed.

Lemma blur_shape (K a : arr CS) : nr (@blur CS Cabs K a) = nr a /\ nc (@blur CS Cabs K a) = nc a.
Proof. split; reflexivity. Qed.
Lemma blur_nonneg (K a : arr CS) i j : Cnn (get (@blur CS Cabs K a) i j).
Proof. cbn [blur amap get]. apply Cnn_abs. Qed.
Lemma renorm_nonneg (out img : arr CS) i j :
  (forall i j, 0 <= i < nr out -> 0 <= j < nc out -> Cnn (get out i j)) ->
  (forall i j, 0 <= i < nr img -> 0 <= j < nc img -> Cnn (get img i j)) ->
  0 <= i < nr out -> 0 <= j < nc out ->
  Cnn (get (@renorm CS Cinv out img) i j).
Proof. intros Ho Hi Hr Hc. cbn [renorm get kmul CS].
  apply Cnn_mul; [apply Cnn_mul|]. - now apply Ho. - now apply Cnn_asum. - apply Cnn_inv. now apply Cnn_asum. Qed.

(* triangle inequality for sums *)
Lemma Cmod_sumn k (f : nat -> C) : (Cmod (@sumn CS k f) <= @sumn RS k (fun i => Cmod (f i)))%R.
Proof. induction k as [|k IH]; cbn [sumn k0 kadd CS RS].
  - rewrite Cmod_0. lra.
  - eapply Rle_trans; [apply Cmod_triangle|]. lra. Qed.
Lemma sumn_RtoC k (g : nat -> R) : @sumn CS k (fun i => RtoC (g i)) = RtoC (@sumn RS k g).
Proof. induction k as [|k IH]; cbn [sumn k0 kadd CS RS]; [reflexivity|]. rewrite IH. now rewrite RtoC_plus. Qed.
Lemma sumn_RS_le k (f g : nat -> R) : (forall i, (i < k)%nat -> (f i <= g i)%R) -> (@sumn RS k f <= @sumn RS k g)%R.
Proof. induction k as [|k IH]; intros H; cbn [sumn k0 kadd RS]; [lra|].
  pose proof (H k ltac:(lia)). assert (@sumn RS k f <= @sumn RS k g)%R by (apply IH; intros; apply H; lia). lra. Qed.

(* the total of the moduli dominates the modulus of the total *)
Lemma asum_abs_ge (c : arr CS) : exists r : R, asum (@amap CS Cabs c) = RtoC r /\ (Cmod (asum c) <= r)%R.
Proof.
  unfold asum, amap, sumZ. cbn [nr nc get].
  set (M := Z.to_nat (nr c)). set (N := Z.to_nat (nc c)).
  exists (@sumn RS M (fun i => @sumn RS N (fun j => Cmod (get c (Z.of_nat i) (Z.of_nat j))))). split.
  - rewrite <- sumn_RtoC. apply sumn_ext. intros i _. unfold Cabs. now rewrite sumn_RtoC.
  - eapply Rle_trans; [apply Cmod_sumn|]. apply sumn_RS_le. intros i _. apply Cmod_sumn.
Qed.

(* T19e for jitter / smear: the renormalisation is well defined and keeps the total *)
Theorem blur_renorm_total (K img : arr CS) : 0 < nr img -> 0 < nc img -> get K 0 0 = k1 ->
  asum img <> RtoC 0 ->
  asum (@renorm CS Cinv (@blur CS Cabs K img) img) = asum img.
Proof.
  intros Hm Hn HK Hne. apply (renorm_total CS CS_ring).
  destruct (asum_abs_ge (conv K img)) as [r [Hr Hle]]. unfold blur. rewrite Hr.
  rewrite conv_total in Hle by assumption.
  assert (0 < r)%R. { eapply Rlt_le_trans; [|exact Hle]. now apply Cmod_gt_0. }
  cbn [kmul k1 CS]. apply Cinv_r. intro E. apply RtoC_inj in E. lra.
Qed.

(* ------------------------------------------------------------------------------------------ *)
(** * Unit multiplier through the absolute value and the renormalisation (zero extent) *)
Theorem blur_unit (K a : arr CS) i j : 0 <= i < nr a -> 0 <= j < nc a ->
  (forall u v, 0 <= u < nr a -> 0 <= v < nc a -> get K u v = k1) -> Cnn (get a i j) ->
  get (@blur CS Cabs K a) i j = get a i j.
Proof. intros Hi Hj HK Hnn. change (Cabs (get (conv K a) i j) = get a i j).
  rewrite conv_unit by assumption. now apply Cabs_nn. Qed.

Theorem renorm_blur_unit (K a : arr CS) i j : 0 <= i < nr a -> 0 <= j < nc a ->
  (forall u v, 0 <= u < nr a -> 0 <= v < nc a -> get K u v = k1) ->
  (forall i j, 0 <= i < nr a -> 0 <= j < nc a -> Cnn (get a i j)) -> asum a <> RtoC 0 ->
  get (@renorm CS Cinv (@blur CS Cabs K a) a) i j = get a i j.
Proof.
  intros Hi Hj HK Hnn Hne.
  change (Cmult (Cmult (get (@blur CS Cabs K a) i j) (asum a)) (Cinv (asum (@blur CS Cabs K a))) = get a i j).
  rewrite (asum_ext CS (@blur CS Cabs K a) a); try reflexivity.
  - rewrite blur_unit by auto. rewrite <- Cmult_assoc, Cinv_r by assumption. ring.
  - intros i' j' Hi' Hj'. apply blur_unit; auto.
Qed.

(* ------------------------------------------------------------------------------------------ *)
(** * Where the circular convolution with the point-spread function ifft2 K is non-negative, the absolute value
      changes nothing: the output is that convolution and the total is kept *)
Theorem blur_is_cconv (K a : arr CS) : nr K = nr a -> nc K = nc a ->
  (forall i j, 0 <= i < nr a -> 0 <= j < nc a -> Cnn (get (cconv a (ifft2 K)) i j)) ->
  (forall i j, 0 <= i < nr a -> 0 <= j < nc a -> get (@blur CS Cabs K a) i j = get (cconv a (ifft2 K)) i j)
  /\ (0 < nr a -> 0 < nc a -> get K 0 0 = k1 -> asum (@blur CS Cabs K a) = asum a).
Proof.
  intros Hr Hc Hnn.
  assert (E : forall i j, 0 <= i < nr a -> 0 <= j < nc a -> get (@blur CS Cabs K a) i j = get (conv K a) i j).
  { intros i j Hi Hj. change (Cabs (get (conv K a) i j) = get (conv K a) i j). apply Cabs_nn.
    rewrite conv_is_cconv_ifft by assumption. now apply Hnn. }
  split.
  - intros i j Hi Hj. rewrite E by assumption. now apply conv_is_cconv_ifft.
  - intros Hm Hn HK. rewrite <- (conv_total K a) by assumption.
    apply (asum_ext CS); try reflexivity. exact E.
Qed.

(* ------------------------------------------------------------------------------------------ *)
(** * The three public functions *)
Section Named.
Variables sinc gauss : Qc -> C.
Hypothesis sinc_0 : sinc 0%Qc = RtoC 1.
Hypothesis gauss_0 : gauss 0%Qc = RtoC 1.

Definition nonneg_image (img : arr CS) : Prop := forall i j, 0 <= i < nr img -> 0 <= j < nc img -> Cnn (get img i j).

Theorem named_shape_nonneg (img : arr CS) os scale d sn cs ps :
  (nr (@pixel CS sinc Cabs img os) = nr img /\ nc (@pixel CS sinc Cabs img os) = nc img
   /\ forall i j, Cnn (get (@pixel CS sinc Cabs img os) i j))
  /\ (nr (@jitter CS gauss Cabs Cinv img scale ps os) = nr img /\ nc (@jitter CS gauss Cabs Cinv img scale ps os) = nc img
      /\ (nonneg_image img -> forall i j, 0 <= i < nr img -> 0 <= j < nc img ->
          Cnn (get (@jitter CS gauss Cabs Cinv img scale ps os) i j)))
  /\ (nr (@smear CS sinc Cabs Cinv img d sn cs ps os) = nr img /\ nc (@smear CS sinc Cabs Cinv img d sn cs ps os) = nc img
      /\ (nonneg_image img -> forall i j, 0 <= i < nr img -> 0 <= j < nc img ->
          Cnn (get (@smear CS sinc Cabs Cinv img d sn cs ps os) i j))).
Proof.
  split; [|split]; (split; [reflexivity|split; [reflexivity|]]).
  - intros. apply blur_nonneg.
  - intros Hnn i' j' Hi Hj. apply renorm_nonneg; try assumption. intros; apply blur_nonneg.
  - intros Hnn i' j' Hi Hj. apply renorm_nonneg; try assumption. intros; apply blur_nonneg.
Qed.

Theorem named_zero_extent (img : arr CS) ps os sn cs i j : 0 <= i < nr img -> 0 <= j < nc img -> nonneg_image img ->
  get (@pixel CS sinc Cabs img 0%Qc) i j = get img i j
  /\ (asum img <> RtoC 0 ->
      get (@jitter CS gauss Cabs Cinv img 0%Qc ps os) i j = get img i j
      /\ get (@smear CS sinc Cabs Cinv img 0%Qc sn cs ps os) i j = get img i j).
Proof.
  intros Hi Hj Hnn. split; [|intros Hne; split].
  - apply blur_unit; auto. intros. apply (pixel_mul_zero CS CS_ring). exact sinc_0.
  - apply renorm_blur_unit; auto. intros. apply jitter_mul_zero. exact gauss_0.
  - apply renorm_blur_unit; auto. intros. apply smear_mul_zero. exact sinc_0.
Qed.

Theorem named_totals (img : arr CS) scale d sn cs ps os : 0 < nr img -> 0 < nc img -> asum img <> RtoC 0 ->
  asum (@jitter CS gauss Cabs Cinv img scale ps os) = asum img
  /\ asum (@smear CS sinc Cabs Cinv img d sn cs ps os) = asum img.
Proof.
  intros Hm Hn Hne. split; apply blur_renorm_total; try assumption.
  - apply jitter_mul_dc; [assumption|assumption|exact gauss_0].
  - apply smear_mul_dc; [assumption|assumption|exact sinc_0].
Qed.

Theorem pixel_total_before_abs (img : arr CS) os : 0 < nr img -> 0 < nc img ->
  asum (conv (@pixel_mul CS sinc os (nr img) (nc img)) img) = asum img.
Proof. intros Hm Hn. apply conv_total; try assumption. apply (pixel_mul_dc CS CS_ring); [assumption|assumption|exact sinc_0]. Qed.
End Named.

(* non-vacuity: a 2 x 3 non-negative image with non-zero total *)
Definition img23 : arr CS := @mkArr CS 2 3 (fun i j => RtoC (IZR (i + 2 * j))).
Lemma img23_ok : nonneg_image img23 /\ asum img23 <> RtoC 0.
Proof. split.
  - intros i j Hi Hj. change (nr img23) with 2 in Hi. change (nc img23) with 3 in Hj.
    split; cbn [img23 get fst snd RtoC]; [apply IZR_le; lia|reflexivity].
  - unfold asum, sumZ. change (nr img23) with 2. change (nc img23) with 3.
    change (Z.to_nat 2) with 2%nat. change (Z.to_nat 3) with 3%nat. cbn [sumn img23 get Z.of_nat Pos.of_succ_nat Pos.succ].
    csimp. cbn [Z.add Z.mul Pos.mul Pos.add Pos.succ]. rewrite <- !RtoC_plus. intro E. apply RtoC_inj in E. lra.
Qed.
