(* Lemmas about the Spectrum-valued quantum efficiency (Model/DetectorQE.v): the collected charge is the
   per-pixel sum with the efficiencies the table denotes at the cube's wavelengths, it does not depend on
   the unit in which the cube's wavelengths or the table are expressed, and a table given exactly on the
   cube's wavelengths acts as the vector of its values. *)
From LV Require Import Model.DetectorQE Proofs.DetectorP.
From Coq Require Import Lqa.
From LV Require Import Proofs.SpectrumP.
Import Spectrum.
From LV Require Import Model.Detector.
Local Open Scope Qc_scope.

Lemma sample_length s pts f u : length (sample s pts f u) = length pts.
Proof. unfold sample. apply map_length. Qed.

Lemma qe_asarray_any_vn qe wv u v : qe_asarray_any qe wv u = Ok v -> vn v = Z.of_nat (length wv).
Proof. destruct qe as [q|s]; cbn [qe_asarray_any].
  - apply (qe_asarray_vn QcS).
  - intros H. injection H as <-. cbn [vn vec_of_list]. now rewrite sample_length. Qed.

(* ------------------------------------------------------------------ the sampled efficiencies *)
Lemma collect_spectrum_spec (img : imgrep QcS) (wv : list Qc) (u : wunit) (s : spectrum) :
  wf s -> cnk (as_cube img) = Z.of_nat (length wv) ->
  exists a q, collect_charge_any img wv u (QEspec s) = Ok a /\
    nr a = cnr (as_cube img) /\ nc a = cnc (as_cube img) /\ length q = length wv /\
    (forall k, (k < length wv)%nat -> qe_at s u (nth k wv 0) (nth k q 0)) /\
    (forall i j, get a i j = @sumZ QcS (Z.of_nat (length wv))
                               (fun k => cget (as_cube img) k i j * nth (Z.to_nat k) q 0)).
Proof.
  intros W Hk. unfold collect_charge_any. cbn [qe_asarray_any rbind].
  set (q := sample s wv fill0 u).
  destruct (einsum_ki_ok QcS (as_cube img) (vec_of_list QcS q)) as (a & A1 & A2 & A3 & A4).
  { cbn [vn vec_of_list]. unfold q. now rewrite sample_length. }
  exists a, q. split; [exact A1|]. split; [exact A2|]. split; [exact A3|].
  split; [apply sample_length|]. split.
  - intros k Hlt. unfold qe_at. apply (sample_denotes s wv fill0 u k W Hlt).
  - intros i j. rewrite A4. unfold charge_at. rewrite Hk. reflexivity.
Qed.

(* ------------------------------------------------------------------ any wavelength unit *)
Lemma conv_wave_two s u u' : vu s = VNone ->
  wave (conv s u') = map (fun x => x * ufac u u') (wave (conv s u)) /\ value (conv s u') = value (conv s u).
Proof.
  intros Hv. destruct (conv_none s u Hv) as (A & B & _). destruct (conv_none s u' Hv) as (A' & B' & _).
  rewrite A, A', B, B', map_map. split; [|reflexivity]. apply map_ext. intros x.
  rewrite <- (ufac_trans (wu s) u u'). ring.
Qed.

(* the cube's wavelengths given in another unit: the same sampled efficiencies *)
Lemma sample_any_unit s pts c0 u u' : vu s = VNone ->
  sample s (map (fun x => x * ufac u u') pts) (FScalar c0) u' = sample s pts (FScalar c0) u.
Proof.
  intros Hv. unfold sample. destruct (conv_wave_two s u u' Hv) as (-> & ->).
  rewrite map_map. apply map_ext. intros x.
  rewrite (inrange_scale (ufac u u') (ufac_pos u u')), (interp_scale (ufac u u') (ufac_pos u u')). reflexivity.
Qed.

(* the table given in another unit: the same sampled efficiencies *)
Lemma sample_retabulated s t pts f u : vu s = VNone -> sample (to_wu s t) pts f u = sample s pts f u.
Proof.
  intros Hv. destruct (to_wu_none s t Hv) as (A & B & C0 & D).
  destruct (conv_none (to_wu s t) u C0) as (A' & B' & _). destruct (conv_none s u Hv) as (A'' & B'' & _).
  unfold sample. rewrite A', B', A'', B'', A, B, D, map_map.
  assert (map (fun x => x * ufac (wu s) t * ufac t u) (wave s) = map (fun x => x * ufac (wu s) u) (wave s)) as ->.
  { apply map_ext. intros x. rewrite <- (ufac_trans (wu s) t u). ring. }
  reflexivity.
Qed.

Lemma collect_any_unit (img : imgrep QcS) wv u u' s : vu s = VNone ->
  collect_charge_any img (map (fun x => x * ufac u u') wv) u' (QEspec s) = collect_charge_any img wv u (QEspec s).
Proof. intros Hv. unfold collect_charge_any. cbn [qe_asarray_any]. unfold fill0.
  now rewrite (sample_any_unit s wv 0 u u' Hv). Qed.
Lemma collect_retabulated (img : imgrep QcS) wv u t s : vu s = VNone ->
  collect_charge_any img wv u (QEspec (to_wu s t)) = collect_charge_any img wv u (QEspec s).
Proof. intros Hv. unfold collect_charge_any. cbn [qe_asarray_any]. now rewrite (sample_retabulated s t wv fill0 u Hv). Qed.

Lemma bayer_any_unit (img : imgrep QcS) wv u u' sr sg sb pat os :
  vu sr = VNone -> vu sg = VNone -> vu sb = VNone ->
  collect_charge_bayer_channels_any img (map (fun x => x * ufac u u') wv) u' (QEspec sr) (QEspec sg) (QEspec sb) pat os
  = collect_charge_bayer_channels_any img wv u (QEspec sr) (QEspec sg) (QEspec sb) pat os.
Proof. intros Hr Hg Hb. unfold collect_charge_bayer_channels_any. cbn [qe_asarray_any rbind]. unfold fill0.
  rewrite (sample_any_unit sr wv 0 u u' Hr), (sample_any_unit sg wv 0 u u' Hg), (sample_any_unit sb wv 0 u u' Hb).
  now rewrite map_length. Qed.

(* ------------------------------------------------------------------ a table on the cube's wavelengths *)
Lemma on_interpolant_node w v k : incr w -> length w = length v -> (k < length w)%nat ->
  on_interpolant w v (nth k w 0) (nth k v 0).
Proof.
  intros Hi Hl Hk. unfold on_interpolant.
  destruct (Nat.eq_dec (length w) 1) as [E|E].
  - left. assert (k = 0%nat) by lia. subst k. auto.
  - right. destruct (Nat.eq_dec (Datatypes.S k) (length w)) as [Hlast|Hnot].
    + (* the last node: the end of segment k-1 *)
      destruct k as [|k]; [lia|]. exists k. split; [lia|].
      assert (nth k w 0 < nth (Datatypes.S k) w 0) as Hlt by (apply incr_nth_lt; auto; lia).
      split; [apply Qclt_le_weak, Hlt|]. split; [apply Qcle_refl|].
      field. intros Z; qc2q; lra.
    + exists k. split; [lia|]. split; [apply Qcle_refl|].
      assert (nth k w 0 < nth (Datatypes.S k) w 0) as Hlt by (apply incr_nth_lt; auto; lia).
      split; [apply Qclt_le_weak, Hlt|].
      field. intros Z; qc2q; lra.
Qed.

Lemma sample_on_table s f : wf s -> sample s (wave s) f (wu s) = value s.
Proof.
  intros (Hi & Hl & Hn). unfold sample, conv. rewrite wunit_eqb_refl.
  apply (nth_ext _ _ 0 0).
  - now rewrite map_length.
  - intros k Hk. rewrite map_length in Hk. rewrite (nth_map_in _ _ _ 0 0) by exact Hk.
    assert (wmin (wave s) <= nth k (wave s) 0) as Hlo by (rewrite wmin_nth; apply incr_nth_le; auto; lia).
    assert (nth k (wave s) 0 <= wmax (wave s)) as Hhi by (rewrite wmax_nth; apply incr_nth_le; auto; lia).
    replace (inrange (wave s) (nth k (wave s) 0)) with true by (symmetry; apply inrange_true; auto).
    apply (on_interpolant_unique (wave s) (value s) (nth k (wave s) 0)); [exact Hi| |].
    + apply interp_on; auto.
    + apply on_interpolant_node; auto.
Qed.

(* a table whose wavelengths, expressed in the cube's unit, are the cube's wavelengths: the vector of its values *)
Lemma collect_on_table (img : imgrep QcS) (u : wunit) (s : spectrum) : wf s -> vu s = VNone ->
  collect_charge_any img (map (fun x => x * ufac (wu s) u) (wave s)) u (QEspec s)
  = collect_charge img (Z.of_nat (length (wave s))) (QVec (vec_of_list QcS (value s))).
Proof.
  intros W Hv. rewrite (collect_any_unit img (wave s) (wu s) u s Hv).
  unfold collect_charge_any, collect_charge. cbn [qe_asarray_any qe_asarray]. rewrite (sample_on_table s fill0 W).
  destruct W as (_ & Hl & _). cbn [vn vec_of_list].
  destruct (_ =? _)%Z eqn:E; [reflexivity|]. exfalso. apply Z.eqb_neq in E. apply E.
  exact (f_equal Z.of_nat (eq_sym Hl)).
Qed.

Lemma nth_const_map {A B} (l : list A) (c : B) n : nth n (map (fun _ => c) l) c = c.
Proof. revert n. induction l as [|a l IH]; intros [|n]; cbn; auto. Qed.

(* wavelengths outside the table collect nothing *)
Lemma sample_outside s pts u : let w := wave (conv s u) in
  (forall x, In x pts -> x < wmin w \/ wmax w < x) -> sample s pts fill0 u = map (fun _ => 0) pts.
Proof.
  intros w H. unfold sample. fold w. apply map_ext_in. intros x Hx.
  destruct (inrange w x) eqn:E; [|reflexivity]. apply inrange_true in E. destruct E as (A & B).
  destruct (H x Hx) as [C0|C0]; exfalso; qc2q; lra.
Qed.
Lemma collect_outside_table (img : imgrep QcS) wv u s : cnk (as_cube img) = Z.of_nat (length wv) ->
  (forall x, In x wv -> x < wmin (wave (conv s u)) \/ wmax (wave (conv s u)) < x) ->
  exists a, collect_charge_any img wv u (QEspec s) = Ok a /\ nr a = cnr (as_cube img) /\ nc a = cnc (as_cube img) /\
            forall i j, get a i j = 0.
Proof.
  intros Hk H. unfold collect_charge_any. cbn [qe_asarray_any rbind]. rewrite (sample_outside s wv u H).
  destruct (einsum_ki_ok QcS (as_cube img) (vec_of_list QcS (map (fun _ => 0) wv))) as (a & A1 & A2 & A3 & A4).
  { cbn [vn vec_of_list]. now rewrite map_length. }
  exists a. repeat split; try assumption. intros i j. rewrite A4. unfold charge_at.
  apply (sumZ_zero_ext QcS Qcrt). intros k Hkk. cbn [vget vec_of_list kmul k0 QcS K].
  rewrite nth_const_map. ring.
Qed.

(* the Bayer entry point with spectra = the Bayer entry point with the sampled vectors *)
Lemma bayer_any_is_sampled (img : imgrep QcS) wv u sr sg sb pat os :
  collect_charge_bayer_channels_any img wv u (QEspec sr) (QEspec sg) (QEspec sb) pat os
  = collect_charge_bayer_channels img (Z.of_nat (length wv))
      (QVec (vec_of_list QcS (sample sr wv fill0 u))) (QVec (vec_of_list QcS (sample sg wv fill0 u)))
      (QVec (vec_of_list QcS (sample sb wv fill0 u))) pat os.
Proof. reflexivity. Qed.
Lemma collect_plain_is_plain (img : imgrep QcS) wv u q :
  collect_charge_any img wv u (QEplain q) = collect_charge img (Z.of_nat (length wv)) q.
Proof. reflexivity. Qed.

(* ------------------------------------------------------------------ colour filter array with spectra *)
(* the efficiency list of a colour *)
Definition qlist_of (ch : Z) (qr qg qb : list Qc) : list Qc := if (ch =? 0)%Z then qr else if (ch =? 1)%Z then qg else qb.

Lemma bayer_spectrum_spec (img : imgrep QcS) (wv : list Qc) (u : wunit) (sr sg sb : spectrum) pat p os a b :
  wf sr -> wf sg -> wf sb -> cnk (as_cube img) = Z.of_nat (length wv) ->
  format_bayer pat = Ok p -> (1 <= pk p)%Z -> (1 <= os)%Z -> (0 <= a)%Z -> (0 <= b)%Z ->
  cnr (as_cube img) = (pk p * os * a)%Z -> cnc (as_cube img) = (pk p * os * b)%Z ->
  exists o qr qg qb, collect_charge_bayer_any img wv u (QEspec sr) (QEspec sg) (QEspec sb) pat os = Ok o /\
    nr o = cnr (as_cube img) /\ nc o = cnc (as_cube img) /\
    (length qr = length wv /\ length qg = length wv /\ length qb = length wv) /\
    (forall k, (k < length wv)%nat ->
       qe_at sr u (nth k wv 0) (nth k qr 0) /\ qe_at sg u (nth k wv 0) (nth k qg 0) /\ qe_at sb u (nth k wv 0) (nth k qb 0)) /\
    (forall i j, (0 <= i < cnr (as_cube img))%Z -> (0 <= j < cnc (as_cube img))%Z ->
       get o i j = @sumZ QcS (Z.of_nat (length wv)) (fun k => cget (as_cube img) k i j *
         nth (Z.to_nat k) (qlist_of (pch p ((i / os) mod pk p) ((j / os) mod pk p)) qr qg qb) 0)).
Proof.
  intros Wr Wg Wb Hk Hpat Hp Ho Ha Hb Hr Hc.
  set (qr := sample sr wv fill0 u). set (qg := sample sg wv fill0 u). set (qb := sample sb wv fill0 u).
  set (nw := Z.of_nat (length wv)).
  assert (forall q : list Qc, length q = length wv -> qe_asarray (QVec (vec_of_list QcS q)) nw = Ok (vec_of_list QcS q)) as Hq.
  { intros q Hl. cbn [qe_asarray vn vec_of_list]. unfold nw. destruct (_ =? _)%Z eqn:E; [reflexivity|].
    exfalso. apply Z.eqb_neq in E. apply E. exact (f_equal Z.of_nat Hl). }
  destruct (bayer_spec QcS Qcrt img nw (QVec (vec_of_list QcS qr)) (QVec (vec_of_list QcS qg)) (QVec (vec_of_list QcS qb))
              (vec_of_list QcS qr) (vec_of_list QcS qg) (vec_of_list QcS qb) pat p os a b)
    as (o & O1 & O2 & O3 & O4); try assumption; try (apply Hq; apply sample_length).
  exists o, qr, qg, qb. split.
  - unfold collect_charge_bayer_any. rewrite bayer_any_is_sampled. exact O1.
  - split; [exact O2|]. split; [exact O3|]. split; [repeat split; apply sample_length|]. split.
    + intros k Hlt. repeat split; unfold qe_at; [apply (sample_denotes sr wv fill0 u k Wr Hlt)
        | apply (sample_denotes sg wv fill0 u k Wg Hlt) | apply (sample_denotes sb wv fill0 u k Wb Hlt)].
    + intros i j Hi Hj. rewrite (O4 i j Hi Hj). unfold charge_at, qe_of, qlist_of. rewrite Hk. fold nw.
      destruct (_ =? 0)%Z; [reflexivity|]. destruct (_ =? 1)%Z; reflexivity.
Qed.

(* ------------------------------------------------------------------ oversample <= 0, the empty pattern *)
Lemma format_bayer_empty : exists p, format_bayer [] = Ok p /\ pk p = 0%Z.
Proof. eexists. split; reflexivity. Qed.

Lemma bayer_entry_zero_division (img : imgrep QcS) wv u qr qg qb vr vg vb pat p os :
  qe_asarray_any qr wv u = Ok vr -> qe_asarray_any qg wv u = Ok vg -> qe_asarray_any qb wv u = Ok vb ->
  format_bayer pat = Ok p -> (os = 0 \/ pk p = 0)%Z ->
  collect_charge_bayer_channels_entry img wv u qr qg qb pat os = RaisedZeroDivision /\
  collect_charge_bayer_entry img wv u qr qg qb pat os = RaisedZeroDivision.
Proof.
  intros Hr Hg Hb Hp H. unfold collect_charge_bayer_entry, collect_charge_bayer_channels_entry.
  rewrite Hr, Hg, Hb, Hp. replace ((os =? 0) || (pk p =? 0))%Z with true by lia. split; reflexivity.
Qed.

Lemma bayer_entry_regular (img : imgrep QcS) wv u qr qg qb pat os :
  (forall p, format_bayer pat = Ok p -> os <> 0 /\ pk p <> 0)%Z ->
  collect_charge_bayer_channels_entry img wv u qr qg qb pat os
  = lift (collect_charge_bayer_channels_any img wv u qr qg qb pat os).
Proof.
  intros H. unfold collect_charge_bayer_channels_entry.
  destruct (qe_asarray_any qr wv u); [|reflexivity]. destruct (qe_asarray_any qg wv u); [|reflexivity].
  destruct (qe_asarray_any qb wv u); [|reflexivity]. destruct (format_bayer pat) as [p|] eqn:E; [|reflexivity].
  destruct (H p eq_refl). replace ((os =? 0) || (pk p =? 0))%Z with false by lia. reflexivity.
Qed.

Lemma bayer_entry_negative_oversample (img : imgrep QcS) wv u qr qg qb vr vg vb pat p os :
  qe_asarray_any qr wv u = Ok vr -> qe_asarray_any qg wv u = Ok vg -> qe_asarray_any qb wv u = Ok vb ->
  format_bayer pat = Ok p -> (pk p <> 0)%Z -> (os < 0)%Z ->
  collect_charge_bayer_channels_entry img wv u qr qg qb pat os = Raised ValueError.
Proof.
  intros Hr Hg Hb Hp Hk Ho. unfold collect_charge_bayer_channels_entry. rewrite Hr, Hg, Hb, Hp.
  replace ((os =? 0) || (pk p =? 0))%Z with false by lia.
  unfold collect_charge_bayer_channels_any. rewrite Hr, Hg, Hb. cbn [rbind].
  unfold collect_charge_bayer_channels.
  assert (forall v : vec QcS, vn v = Z.of_nat (length wv) -> qe_asarray (QVec v) (Z.of_nat (length wv)) = Ok v) as Hq.
  { intros v Hv. cbn [qe_asarray]. rewrite Hv, Z.eqb_refl. reflexivity. }
  rewrite (Hq vr (qe_asarray_any_vn _ _ _ _ Hr)), (Hq vg (qe_asarray_any_vn _ _ _ _ Hg)),
          (Hq vb (qe_asarray_any_vn _ _ _ _ Hb)). cbn [rbind]. rewrite Hp. cbn [rbind].
  replace ((os <? 1) || (pk p <? 1))%Z with true by lia. reflexivity.
Qed.
