(* WP-K: composition of the property packages into statements about the whole optical chain
     Wavefront(...) * Pupil  ->  propagate_dft / propagate_fft  ->  Wavefront.field / .intensity.
   Nothing here is about new model code: every lemma combines theorems of
     Proofs/PlaneP.v (C07, C03), Proofs/PropagateP.v (C02), Proofs/SegmentP.v (C03), Proofs/DftP.v (C01),
     Proofs/FftP.v (C09), Proofs/TiltP.v (C04), Proofs/DftInvP.v (C05)
   about the model functions of Model/{Field,Plane,Segment,Propagate,Fft,Tilt,Dft}.v. *)
From Coq Require Import Reals QArith Qreals Qcanon.
From Coquelicot Require Import Complex.
(* imported first, so that the names they share with the propagate_dft model (wavefront, wfield, qfix, celem, ...)
   stay qualified: Fft.wavefront, Tilt.qfix, ... *)
From LV Require Import Lib.Cis Model.Tilt Proofs.TiltP Model.Fft Proofs.FftP Proofs.DftInvP.
From LV Require Import Model.Segment Proofs.ArrP Proofs.ExtentP Proofs.FieldP Proofs.DftP Proofs.PlaneP
                       Proofs.PropagateP Proofs.SegmentP.
Local Open Scope Z_scope.

(* ================================================================== ring-generic part *)
Section ChainGen.
Variable S : Scalar.
Hypothesis Sring : is_ring S.
Hypothesis Skernel : kernel_laws S.
Variable sq : Qc -> S.
Add Ring SrK : Sring.

(* ------------------------------------------------------------------ glue: boxes and plane sums *)
Lemma in_box_mono B B' e : B <= B' -> in_box B e -> in_box B' e.
Proof using Type. clear sq. destruct e as [[[a b] c] d]. unfold in_box. lia. Qed.

(* every finite list of fields fits into some centred box (the half-width [B] of C02's and C03's
   statements can always be chosen) *)
Lemma box_exists (fs : list (field S)) (B0 : Z) :
  exists B, B0 <= B /\ forall f, In f fs -> in_box B (fextent f).
Proof using Type. clear sq.
  induction fs as [|f r (B & HB & IH)].
  - exists B0. split; [lia|]. intros f [].
  - destruct (fextent f) as [[[a b] c] d] eqn:E.
    exists (Z.max B (Z.max (Z.abs a) (Z.max (Z.abs b) (Z.max (Z.abs c) (Z.abs d))))). split; [lia|].
    intros g [<-|Hg].
    + rewrite E. unfold in_box. lia.
    + apply (in_box_mono B); [lia|]. now apply IH.
Qed.

(* a plane function supported on the n x m array whose sample (floor(n/2), floor(m/2)) is the origin:
   its Fraunhofer sum over any box that contains the array is the defining sum of that array, offset 0 *)
Lemma plane_fraunhofer_box B n m (g : Z -> Z -> S) ar ac U V :
  0 < n -> 0 < m -> n <= B -> m <= B ->
  (forall r c, inr n (r + n / 2) && inr m (c + m / 2) = false -> g r c = k0) ->
  plane_fraunhofer B g ar ac U V
  = fourier_sum (mkArr n m (fun x y => g (x - n / 2) (y - m / 2))) ar ac 0 0 U V.
Proof using Sring. clear sq.
  intros Hn Hm HnB HmB Hg. unfold plane_fraunhofer, fourier_sum. cbn [nr nc get].
  rewrite (sumZ_support S Sring (2 * B + 1) (B - n / 2) n); try lia.
  - apply sumZ_ext; intros x Hx.
    rewrite (sumZ_support S Sring (2 * B + 1) (B - m / 2) m); try lia.
    + apply sumZ_ext; intros y Hy.
      replace (B - n / 2 + x - B) with (x - n / 2) by lia. replace (B - m / 2 + y - B) with (y - m / 2) by lia.
      replace (x - n / 2 + 0) with (x - n / 2) by lia. replace (y - m / 2 + 0) with (y - m / 2) by lia. reflexivity.
    + intros y Hy Hout. rewrite Hg; [ring|]. unfold inr. lia.
  - intros x Hx Hout. apply (sumZ_zero_ext S Sring). intros y Hy. rewrite Hg; [ring|]. unfold inr. lia.
Qed.

(* ------------------------------------------------------------------ C02 for a plane function *)
(* C02_samples_with_field_shifts + C02_fields_sum_is_input_plane_transform, for a wavefront whose fields
   all carry the same shift (sr, sc) and add up to a plane function supported on an n x m array:
   every rendered sample is the defining sum of THAT ARRAY (however it is cut into fields) at the sample's
   coordinate minus the shift, inside the window centred at fix(shift), and zero outside *)
Theorem propagate_plane_samples shift_of (w : wavefront S) dur duc shape pshape os mask dxr dxc Sr Sc Pr Pc b n m sr sc :
  wptype w <> PtNone -> wps w = Some (dxr, dxc) ->
  (forall f, In f (wdata w) -> shift_of f = (sr, sc) /\ sized S f) ->
  0 < n -> 0 < m ->
  (forall r c, inr n (r + n / 2) && inr m (c + m / 2) = false -> embed_sum (wdata w) r c = k0) ->
  match shape with None => wshape w | Some s => s end = (Sr, Sc) ->
  match pshape with None => (Sr, Sc) | Some p => p end = (Pr, Pc) ->
  0 < Sr -> 0 < Sc -> 0 < Pr -> 0 < Pc -> 1 <= os ->
  (forall k, mask = Some k -> mnr k = Sr * os /\ mnc k = Sc * os) ->
  mask_bbox mask (Sr * os) (Sc * os) = Ok b ->
  let ar := dft_alpha1 dxr dur (wwl w) (wfocal w) os in
  let ac := dft_alpha1 dxc duc (wwl w) (wfocal w) os in
  exists w' o, propagate_dft sq shift_of w dur duc shape pshape os mask = Ok w' /\
    wshape w' = (Sr * os, Sc * os) /\
    wfield w' = Ok o /\ nr o = Sr * os /\ nc o = Sc * os /\
    (forall i j, 0 <= i < Sr * os -> 0 <= j < Sc * os ->
      let u := i - (Sr * os) / 2 in let v := j - (Sc * os) / 2 in
      get o i j =
        if inE b i j && inE (array_extent (Pr * os) (Pc * os) (qfix sr) (qfix sc)) u v
        then (fourier_sum (mkArr n m (fun x y => embed_sum (wdata w) (x - n / 2) (y - m / 2))) ar ac 0 0
                          (zq u - sr)%Qc (zq v - sc)%Qc
              * sq (qabs (ar * ac)%Qc))%K
        else k0).
Proof.
  intros Hpt Hps Hd Hn Hm Hsup Hshape Hpshape HSr HSc HPr HPc Hos Hmk Hb ar ac.
  assert (Hd2 : forall f, In f (wdata w) -> exists a, fd f = D2 a).
  { intros f Hf. destruct (Hd f Hf) as [_ (a & Ea & _)]. now exists a. }
  destruct (propagate_dft_chips S Sring Skernel sq shift_of w dur duc shape pshape os mask dxr dxc Sr Sc Pr Pc b Hpt Hps
              Hd2 Hshape Hpshape HSr HSc HPr HPc Hos Hmk Hb)
    as (w' & o & Hw & Hs & Ho & N & M & G).
  exists w', o. repeat (split; [assumption|]).
  intros i j Hi Hj u v. rewrite (G i j Hi Hj). fold ar ac u v.
  rewrite (lsum_map_ext S _ (fun f =>
     if inE b i j && inE (array_extent (Pr * os) (Pc * os) (qfix sr) (qfix sc)) u v
     then (match fd f with
           | D2 a => fourier_sum a ar ac (offr f) (offc f) (zq u - sr)%Qc (zq v - sc)%Qc
           | D0 _ => k0 end * sq (qabs (ar * ac)%Qc))%K
     else k0)).
  2:{ intros f Hf. destruct (Hd f Hf) as [E (a & Ea & _)]. rewrite E, Ea. cbn [fst snd]. reflexivity. }
  rewrite (lsum_map_if S Sring). destr_if; [|reflexivity].
  rewrite (lsum_map_scale S Sring). f_equal.
  destruct (box_exists (wdata w) (Z.max n m)) as (B & HB & Hbox).
  rewrite (fields_sum_is_plane_transform S Sring sq (wdata w) B)
    by (intros f Hf; split; [exact (proj2 (Hd f Hf))|now apply Hbox]).
  apply plane_fraunhofer_box; try assumption; lia.
Qed.

(* ------------------------------------------------------------------ chain of planes -> propagate_dft *)
(* the focal length propagate_dft reads from the wavefront a chain leaves behind (np.inf = None) *)
Definition focal_opt (f : focal) : option Qc := match f with FVal q => Some q | _ => None end.

Lemma to_wavefront_ok (w1 : pwf S) n m t : pw_shape w1 = Some (n, m) -> pw_focal w1 <> FNone ->
  to_wavefront w1 t = Ok (mkWf (pw_lam w1) (pw_pix w1) (focal_opt (pw_focal w1)) (n, m) t (pw_data w1)).
Proof. intros Hs Hf. unfold to_wavefront. rewrite Hs. destruct (pw_focal w1); [reflexivity|congruence|reflexivity]. Qed.

(* Wavefront * P1 * ... * Pk -> propagate_dft (no tilt, no mask): if the chain leaves array fields that add up to
   a plane function supported on the n x m plane, the rendered field is the unitary defining sum of that plane
   function inside the centred prop_shape*oversample window and zero outside; the intensity is its norm2 *)
Theorem chain_propagate_samples (ps : list (plane S)) (w0 w1 : pwf S) dur duc shape pshape os dxr dxc n m Sr Sc Pr Pc :
  chain_multiply ps w0 = Ok w1 ->
  pw_shape w1 = Some (n, m) -> pw_pix w1 = Some (dxr, dxc) -> pw_focal w1 <> FNone ->
  (forall f, In f (pw_data w1) -> fsized f) ->
  0 < n -> 0 < m ->
  (forall r c, inr n (r + n / 2) && inr m (c + m / 2) = false -> embed_sum (pw_data w1) r c = k0) ->
  match shape with None => (n, m) | Some s => s end = (Sr, Sc) ->
  match pshape with None => (Sr, Sc) | Some p => p end = (Pr, Pc) ->
  0 < Sr -> 0 < Sc -> 0 < Pr -> 0 < Pc -> 1 <= os -> Sr * os < maxsize -> Sc * os < maxsize ->
  let ar := dft_alpha1 dxr dur (pw_lam w1) (focal_opt (pw_focal w1)) os in
  let ac := dft_alpha1 dxc duc (pw_lam w1) (focal_opt (pw_focal w1)) os in
  exists v o oi, chain_propagate sq ps w0 dur duc shape pshape os = Ok v /\
    wfield v = Ok o /\ wintensity v = Ok oi /\
    nr o = Sr * os /\ nc o = Sc * os /\ nr oi = Sr * os /\ nc oi = Sc * os /\
    forall i j, 0 <= i < Sr * os -> 0 <= j < Sc * os ->
      let u := i - (Sr * os) / 2 in let v := j - (Sc * os) / 2 in
      get o i j =
        (if inE (array_extent (Pr * os) (Pc * os) 0 0) u v
         then (fourier_sum (mkArr n m (fun x y => embed_sum (pw_data w1) (x - n / 2) (y - m / 2))) ar ac 0 0 (zq u) (zq v)
               * sq (qabs (ar * ac)%Qc))%K
         else k0)
      /\ get oi i j = norm2 (get o i j).
Proof.
  intros Hch Hsh Hpx Hfo Hsz Hn Hm Hsup Hshape Hpshape HSr HSc HPr HPc Hos HbR HbC ar ac.
  unfold chain_propagate. rewrite Hch. cbn [rbind]. rewrite (to_wavefront_ok w1 n m PtPupil Hsh Hfo). cbn [rbind].
  set (w2 := mkWf (pw_lam w1) (pw_pix w1) (focal_opt (pw_focal w1)) (n, m) PtPupil (pw_data w1)).
  assert (Hb : mask_bbox None (Sr * os) (Sc * os) = Ok (0, Sr * os - 1, 0, Sc * os - 1)) by reflexivity.
  assert (Hmk : forall k, @None bmask = Some k -> mnr k = Sr * os /\ mnc k = Sc * os) by discriminate.
  assert (Hpt : wptype w2 <> PtNone) by discriminate.
  assert (Hd : forall f, In f (wdata w2) -> @no_shift S f = (0%Qc, 0%Qc) /\ sized S f).
  { intros f Hf. split; [reflexivity|]. apply fsized_sized. now apply Hsz. }
  destruct (propagate_plane_samples (@no_shift S) w2 dur duc shape pshape os None dxr dxc Sr Sc Pr Pc
              (0, Sr * os - 1, 0, Sc * os - 1) n m 0%Qc 0%Qc Hpt Hpx Hd Hn Hm Hsup Hshape Hpshape HSr HSc HPr HPc Hos Hmk Hb)
    as (v & o & Ev & _ & Fo & No & Mo & G).
  assert (Hd2 : forall f, In f (wdata w2) -> exists a, fd f = D2 a).
  { intros f Hf. destruct (Hd f Hf) as [_ (a & Ea & _)]. now exists a. }
  destruct (propagate_dft_intensity S Sring Skernel sq (@no_shift S) w2 dur duc shape pshape os None dxr dxc Sr Sc Pr Pc
              (0, Sr * os - 1, 0, Sc * os - 1) Hpt Hpx
              Hd2 Hshape Hpshape HSr HSc HPr HPc Hos HbR HbC Hmk Hb)
    as (v' & o' & oi & Ev' & Fo' & Foi & Ni & Mi & Gi).
  rewrite Ev in Ev'. injection Ev' as <-. rewrite Fo in Fo'. injection Fo' as <-.
  exists v, o, oi. repeat (split; [assumption|]).
  intros i j Hi Hj. split; [|now apply Gi].
  rewrite (G i j Hi Hj). cbv zeta. cbn [wwl wfocal w2]. fold ar ac.
  replace (inE (0, Sr * os - 1, 0, Sc * os - 1) i j) with true by (unfold inE, inb; lia).
  rewrite qfix_0. cbn [andb].
  set (u := i - Sr * os / 2). set (v0 := j - Sc * os / 2).
  replace (zq u - 0)%Qc with (zq u) by ring. replace (zq v0 - 0)%Qc with (zq v0) by ring. reflexivity.
Qed.

(* ------------------------------------------------------------------ C07: what one plane leaves behind *)
(* the plane wave of a fresh Wavefront is the constant 1 *)
Lemma ec_sum_fresh lam pix foc tl r c : ec_sum (pw_data (pwf_init (S := S) lam pix foc tl)) r c = k1.
Proof. unfold pwf_init, ec_sum, embed_const. cbn [pw_data fold_right fd is0d dget]. ring. Qed.

Lemma fresh_valid lam pix foc tl : forall f, In f (pw_data (pwf_init (S := S) lam pix foc tl)) -> fvalid S f.
Proof. intros f [<-|[]]. exact I. Qed.

(* no segment mask contains a sample outside the plane's array *)
Lemma cover_outside (l : list (garr bool)) n m i j :
  (forall a, In a l -> pnr a = n /\ pnc a = m) -> inr n i && inr m j = false -> @cover S l i j = k0.
Proof.
  induction l as [|a l IH]; intros H E; [reflexivity|]. cbn [cover fold_right]. fold (@cover S l i j).
  rewrite IH by (try assumption; intros; apply H; now right).
  unfold mask_at. destruct (H a (or_introl eq_refl)) as [-> ->]. rewrite E. cbn [andb kofb]. ring.
Qed.

Lemma transmission_outside (P : plane S) lam n m r c :
  (forall a, In a (masks_of (pl_mask P)) -> pnr a = n /\ pnc a = m) ->
  inr n (r + n / 2) && inr m (c + m / 2) = false -> transmission P lam n m r c = k0.
Proof. intros H E. unfold transmission. rewrite (cover_outside _ n m) by assumption. ring. Qed.

(* amplitude * exp(2 pi i opd / lambda) * (number of segment masks containing the sample) at array index (x, y) *)
Definition pupil_function (P : plane S) (lam : Qc) (x y : Z) : S :=
  (amp_at (pl_amp P) x y * ke (- (opd_at (pl_opd P) x y / lam))%Qc * cover (masks_of (pl_mask P)) x y)%K.

Lemma transmission_pupil_function (P : plane S) lam n m x y :
  transmission P lam n m (x - n / 2) (y - m / 2) = pupil_function P lam x y.
Proof using Type. clear sq. unfold transmission, pupil_function, Plane.phase.
  replace (x - n / 2 + n / 2) with x by lia. replace (y - m / 2 + m / 2) with y by lia. reflexivity. Qed.

(* the explicit double sum that every chain theorem ends in *)
Definition image_sum (n m : Z) (T : Z -> Z -> S) (ar ac : Qc) (u v : Z) : S :=
  sumZ n (fun x => sumZ m (fun y =>
    (T x y * ke (ar * zq (x - n / 2) * zq u + ac * zq (y - m / 2) * zq v)%Qc)%K)).

Lemma fourier_sum_image_sum n m (T : Z -> Z -> S) ar ac u v :
  fourier_sum (mkArr n m T) ar ac 0 0 (zq u) (zq v) = image_sum n m T ar ac u v.
Proof using Type. clear sq. unfold fourier_sum, image_sum. cbn [nr nc get]. apply sumZ_ext; intros x _. apply sumZ_ext; intros y _.
  replace (x - n / 2 + 0) with (x - n / 2) by lia. replace (y - m / 2 + 0) with (y - m / 2) by lia. reflexivity. Qed.

Lemma image_sum_ext n m (T1 T2 : Z -> Z -> S) ar ac u v :
  (forall x y, 0 <= x < n -> 0 <= y < m -> T1 x y = T2 x y) -> image_sum n m T1 ar ac u v = image_sum n m T2 ar ac u v.
Proof. intros H. unfold image_sum. apply sumZ_ext; intros x Hx. apply sumZ_ext; intros y Hy. now rewrite H. Qed.

(* C07 o C02 for one plane with an array mask (monolithic or segmented) applied to a fresh plane wave *)
Theorem image_of_plane (P : plane S) lam pix foc fo dur duc shape pshape os dxr dxc n m Sr Sc Pr Pc :
  plane_ok P n m -> 0 < n -> 0 < m ->
  mul_pixelscale (pl_pix P) (pix_broadcast pix) = Ok (Some (dxr, dxc)) ->
  pl_focal P = Some fo -> fo <> FNone ->
  match shape with None => (n, m) | Some s => s end = (Sr, Sc) ->
  match pshape with None => (Sr, Sc) | Some p => p end = (Pr, Pc) ->
  0 < Sr -> 0 < Sc -> 0 < Pr -> 0 < Pc -> 1 <= os -> Sr * os < maxsize -> Sc * os < maxsize ->
  let ar := dft_alpha1 dxr dur lam (focal_opt fo) os in
  let ac := dft_alpha1 dxc duc lam (focal_opt fo) os in
  exists v o oi, chain_propagate sq [P] (pwf_init lam pix foc []) dur duc shape pshape os = Ok v /\
    wfield v = Ok o /\ wintensity v = Ok oi /\
    nr o = Sr * os /\ nc o = Sc * os /\ nr oi = Sr * os /\ nc oi = Sc * os /\
    forall i j, 0 <= i < Sr * os -> 0 <= j < Sc * os ->
      let u := i - (Sr * os) / 2 in let v := j - (Sc * os) / 2 in
      get o i j =
        (if inE (array_extent (Pr * os) (Pc * os) 0 0) u v
         then (image_sum n m (pupil_function P lam) ar ac u v * sq (qabs (ar * ac)%Qc))%K
         else k0)
      /\ get oi i j = norm2 (get o i j).
Proof.
  intros Hok Hn Hm Hpx Hfo Hfn Hshape Hpshape HSr HSc HPr HPc Hos HbR HbC ar ac.
  set (w0 := pwf_init (S := S) lam pix foc []).
  destruct (plane_multiply_spec S Sring P w0 n m (Some (dxr, dxc)) Hok (fresh_valid lam pix foc []) Hpx)
    as (w1 & E1 & L1 & P1 & S1 & F1 & Z1 & G1).
  assert (Hch : chain_multiply [P] w0 = Ok w1) by (cbn [chain_multiply]; rewrite E1; reflexivity).
  rewrite Hfo in F1. change (pw_lam w0) with lam in L1, G1.
  assert (Hsup : forall r c, inr n (r + n / 2) && inr m (c + m / 2) = false -> embed_sum (pw_data w1) r c = k0).
  { intros r c E. rewrite G1, (transmission_outside P lam n m r c (ok_layers S P n m Hok) E). ring. }
  assert (Hfn1 : pw_focal w1 <> FNone) by (rewrite F1; exact Hfn).
  destruct (chain_propagate_samples [P] w0 w1 dur duc shape pshape os dxr dxc n m Sr Sc Pr Pc
              Hch S1 P1 Hfn1 Z1 Hn Hm Hsup Hshape Hpshape HSr HSc HPr HPc Hos HbR HbC)
    as (v & o & oi & Ev & Fo & Foi & No & Mo & Ni & Mi & G).
  exists v, o, oi. repeat (split; [assumption|]).
  intros i j Hi Hj. destruct (G i j Hi Hj) as [Ga Gb]. split; [|exact Gb].
  rewrite Ga. rewrite L1, F1. fold ar ac. destr_if; [|reflexivity]. f_equal.
  rewrite fourier_sum_image_sum. apply image_sum_ext. intros x y Hx Hy.
  rewrite G1. unfold w0. rewrite ec_sum_fresh, transmission_pupil_function. ring.
Qed.

(* the pupil function of a monolithic plane: amplitude * [mask] * exp(2 pi i opd / lambda) *)
Lemma pupil_function_mono (P : plane S) lam n m g x y : plane_ok P n m -> pl_mask P = PM2 g ->
  0 <= x < n -> 0 <= y < m ->
  pupil_function P lam x y = (amp_at (pl_amp P) x y * kofb (pget g x y) * ke (- (opd_at (pl_opd P) x y / lam))%Qc)%K.
Proof using Sring. clear sq.
  intros Hok Eg Hx Hy. unfold pupil_function. rewrite Eg. cbn [masks_of cover fold_right].
  destruct (ok_layers S P n m Hok g) as [En Em]; [rewrite Eg; now left|].
  unfold mask_at. rewrite En, Em. replace (inr n x) with true by (unfold inr; lia).
  replace (inr m y) with true by (unfold inr; lia). cbn [andb]. ring.
Qed.

(* Chain_image_of_pupil: the image of a plane wave through a (monolithic) pupil is the unitary Fourier transform of
   the pupil function A * M * exp(2 pi i W / lambda); the intensity (PSF) is its squared modulus *)
Theorem image_of_pupil (P : plane S) (g : garr bool) lam pix foc z dur duc shape pshape os dxr dxc n m Sr Sc Pr Pc :
  plane_ok P n m -> pl_mask P = PM2 g -> 0 < n -> 0 < m ->
  mul_pixelscale (pl_pix P) (pix_broadcast pix) = Ok (Some (dxr, dxc)) ->
  pl_focal P = Some (FVal z) ->
  match shape with None => (n, m) | Some s => s end = (Sr, Sc) ->
  match pshape with None => (Sr, Sc) | Some p => p end = (Pr, Pc) ->
  0 < Sr -> 0 < Sc -> 0 < Pr -> 0 < Pc -> 1 <= os -> Sr * os < maxsize -> Sc * os < maxsize ->
  let ar := ((dxr * dur) / (lam * z * zq os))%Qc in
  let ac := ((dxc * duc) / (lam * z * zq os))%Qc in
  exists v o oi, chain_propagate sq [P] (pwf_init lam pix foc []) dur duc shape pshape os = Ok v /\
    wfield v = Ok o /\ wintensity v = Ok oi /\
    nr o = Sr * os /\ nc o = Sc * os /\ nr oi = Sr * os /\ nc oi = Sc * os /\
    forall i j, 0 <= i < Sr * os -> 0 <= j < Sc * os ->
      let u := i - (Sr * os) / 2 in let v := j - (Sc * os) / 2 in
      get o i j =
        (if inE (array_extent (Pr * os) (Pc * os) 0 0) u v
         then (sumZ n (fun x => sumZ m (fun y =>
                 (amp_at (pl_amp P) x y * kofb (pget g x y) * ke (- (opd_at (pl_opd P) x y / lam))%Qc
                  * ke (ar * zq (x - n / 2) * zq u + ac * zq (y - m / 2) * zq v)%Qc)%K))
               * sq (qabs (ar * ac)%Qc))%K
         else k0)
      /\ get oi i j = norm2 (get o i j).
Proof.
  intros Hok Eg Hn Hm Hpx Hfo Hshape Hpshape HSr HSc HPr HPc Hos HbR HbC ar ac.
  destruct (image_of_plane P lam pix foc (FVal z) dur duc shape pshape os dxr dxc n m Sr Sc Pr Pc
              Hok Hn Hm Hpx Hfo ltac:(discriminate) Hshape Hpshape HSr HSc HPr HPc Hos HbR HbC)
    as (v & o & oi & Ev & Fo & Foi & No & Mo & Ni & Mi & G).
  exists v, o, oi. repeat (split; [assumption|]).
  intros i j Hi Hj. destruct (G i j Hi Hj) as [Ga Gb]. split; [|exact Gb].
  rewrite Ga. cbn [focal_opt dft_alpha1]. fold ar ac. destr_if; [|reflexivity]. f_equal.
  unfold image_sum. apply sumZ_ext; intros x Hx. apply sumZ_ext; intros y Hy.
  now rewrite (pupil_function_mono P lam n m g x y Hok Eg Hx Hy).
Qed.

(* ... and the same image for the segmented description of the aperture (C03): [Pseg] carries a cube of pairwise
   disjoint segment masks whose union is the mask [g] of the monolithic description [Pmono] *)
Theorem image_of_segmented_pupil (Pseg Pmono : plane S) (g : garr bool) lam pix foc z dur duc shape pshape os dxr dxc
        n m Sr Sc Pr Pc :
  partition_of Pseg Pmono n m -> pl_mask Pmono = PM2 g -> 0 < n -> 0 < m ->
  mul_pixelscale (pl_pix Pseg) (pix_broadcast pix) = Ok (Some (dxr, dxc)) ->
  pl_focal Pseg = Some (FVal z) ->
  match shape with None => (n, m) | Some s => s end = (Sr, Sc) ->
  match pshape with None => (Sr, Sc) | Some p => p end = (Pr, Pc) ->
  0 < Sr -> 0 < Sc -> 0 < Pr -> 0 < Pc -> 1 <= os -> Sr * os < maxsize -> Sc * os < maxsize ->
  let ar := ((dxr * dur) / (lam * z * zq os))%Qc in
  let ac := ((dxc * duc) / (lam * z * zq os))%Qc in
  exists v o oi, chain_propagate sq [Pseg] (pwf_init lam pix foc []) dur duc shape pshape os = Ok v /\
    wfield v = Ok o /\ wintensity v = Ok oi /\
    nr o = Sr * os /\ nc o = Sc * os /\ nr oi = Sr * os /\ nc oi = Sc * os /\
    forall i j, 0 <= i < Sr * os -> 0 <= j < Sc * os ->
      let u := i - (Sr * os) / 2 in let v := j - (Sc * os) / 2 in
      get o i j =
        (if inE (array_extent (Pr * os) (Pc * os) 0 0) u v
         then (sumZ n (fun x => sumZ m (fun y =>
                 (amp_at (pl_amp Pseg) x y * kofb (pget g x y) * ke (- (opd_at (pl_opd Pseg) x y / lam))%Qc
                  * ke (ar * zq (x - n / 2) * zq u + ac * zq (y - m / 2) * zq v)%Qc)%K))
               * sq (qabs (ar * ac)%Qc))%K
         else k0)
      /\ get oi i j = norm2 (get o i j).
Proof.
  intros Hpart Eg Hn Hm Hpx Hfo Hshape Hpshape HSr HSc HPr HPc Hos HbR HbC ar ac.
  pose proof Hpart as (_ & _ & Ea & Eo & Oks & Okm & _).
  destruct (image_of_plane Pseg lam pix foc (FVal z) dur duc shape pshape os dxr dxc n m Sr Sc Pr Pc
              Oks Hn Hm Hpx Hfo ltac:(discriminate) Hshape Hpshape HSr HSc HPr HPc Hos HbR HbC)
    as (v & o & oi & Ev & Fo & Foi & No & Mo & Ni & Mi & G).
  exists v, o, oi. repeat (split; [assumption|]).
  intros i j Hi Hj. destruct (G i j Hi Hj) as [Ga Gb]. split; [|exact Gb].
  rewrite Ga. cbn [focal_opt dft_alpha1]. fold ar ac. destr_if; [|reflexivity]. f_equal.
  unfold image_sum. apply sumZ_ext; intros x Hx. apply sumZ_ext; intros y Hy. f_equal.
  rewrite <- transmission_pupil_function with (n := n) (m := m).
  rewrite (partition_transmission S Sring Pseg Pmono n m lam _ _ Hpart), transmission_pupil_function.
  rewrite (pupil_function_mono Pmono lam n m g x y Okm Eg Hx Hy). now rewrite Ea, Eo.
Qed.

(* ------------------------------------------------------------------ any chain of array planes *)
(* the product of the transmissions of a chain of n x m planes at plane coordinate (r, c) *)
Definition chain_transmission (ps : list (plane S)) (lam : Qc) (n m r c : Z) : S :=
  fold_right (fun P acc => (transmission P lam n m r c * acc)%K) k1 ps.

Lemma chain_embed (ps : list (plane S)) n m : (forall P, In P ps -> plane_ok P n m) -> ps <> [] ->
  forall w w', (forall f, In f (pw_data w) -> fvalid S f) -> chain_multiply ps w = Ok w' ->
  pw_lam w' = pw_lam w /\ pw_shape w' = Some (n, m) /\ (forall f, In f (pw_data w') -> fsized f) /\
  forall r c, embed_sum (pw_data w') r c = (ec_sum (pw_data w) r c * chain_transmission ps (pw_lam w) n m r c)%K.
Proof.
  induction ps as [|P ps IH]; intros Hok Hne w w' Hf R; [congruence|]. cbn [chain_multiply] in R.
  destruct (plane_multiply P w) as [a|e] eqn:M; cbn [rbind] in R; [|discriminate].
  destruct (plane_multiply_ok_pix S _ _ _ M) as (px & Hp).
  destruct (plane_multiply_spec S Sring P w n m px (Hok P (or_introl eq_refl)) Hf Hp) as (a' & Ea & La & _ & Sa & _ & Za & Ga).
  rewrite M in Ea. injection Ea as <-.
  destruct ps as [|Q ps'].
  - cbn in R. injection R as <-. repeat (split; [assumption|]). intros r c. rewrite Ga.
    unfold chain_transmission. cbn [fold_right]. ring.
  - destruct (IH (fun X HX => Hok X (or_intror HX)) ltac:(discriminate) a w'
                 (fun f Hf' => fsized_valid S f (Za f Hf')) R) as (L & Sh & Z & G).
    split; [congruence|]. split; [exact Sh|]. split; [exact Z|]. intros r c.
    rewrite G, (sized_ec S Sring) by exact Za. rewrite Ga, La. unfold chain_transmission. cbn [fold_right]. ring.
Qed.

(* "after any chain of planes and a propagation": a fresh plane wave through k >= 1 array planes of one shape
   (monolithic or segmented), then propagate_dft: the image is the transform of the PRODUCT of the planes' pupil functions *)
Theorem image_of_chain (ps : list (plane S)) (w1 : pwf S) lam pix foc z dur duc shape pshape os dxr dxc n m Sr Sc Pr Pc :
  ps <> [] -> (forall P, In P ps -> plane_ok P n m) -> 0 < n -> 0 < m ->
  chain_multiply ps (pwf_init lam pix foc []) = Ok w1 ->
  pw_pix w1 = Some (dxr, dxc) -> pw_focal w1 = FVal z ->
  match shape with None => (n, m) | Some s => s end = (Sr, Sc) ->
  match pshape with None => (Sr, Sc) | Some p => p end = (Pr, Pc) ->
  0 < Sr -> 0 < Sc -> 0 < Pr -> 0 < Pc -> 1 <= os -> Sr * os < maxsize -> Sc * os < maxsize ->
  let ar := ((dxr * dur) / (lam * z * zq os))%Qc in
  let ac := ((dxc * duc) / (lam * z * zq os))%Qc in
  exists v o oi, chain_propagate sq ps (pwf_init lam pix foc []) dur duc shape pshape os = Ok v /\
    wfield v = Ok o /\ wintensity v = Ok oi /\
    nr o = Sr * os /\ nc o = Sc * os /\ nr oi = Sr * os /\ nc oi = Sc * os /\
    forall i j, 0 <= i < Sr * os -> 0 <= j < Sc * os ->
      let u := i - (Sr * os) / 2 in let v := j - (Sc * os) / 2 in
      get o i j =
        (if inE (array_extent (Pr * os) (Pc * os) 0 0) u v
         then (sumZ n (fun x => sumZ m (fun y =>
                 (fold_right (fun P acc =>
                    (amp_at (pl_amp P) x y * ke (- (opd_at (pl_opd P) x y / lam))%Qc * cover (masks_of (pl_mask P)) x y
                     * acc)%K) k1 ps
                  * ke (ar * zq (x - n / 2) * zq u + ac * zq (y - m / 2) * zq v)%Qc)%K))
               * sq (qabs (ar * ac)%Qc))%K
         else k0)
      /\ get oi i j = norm2 (get o i j).
Proof.
  intros Hne Hok Hn Hm Hch Hpx Hfo Hshape Hpshape HSr HSc HPr HPc Hos HbR HbC ar ac.
  set (w0 := pwf_init (S := S) lam pix foc []) in *.
  destruct (chain_embed ps n m Hok Hne w0 w1 (fresh_valid lam pix foc []) Hch) as (L1 & S1 & Z1 & G1).
  change (pw_lam w0) with lam in L1, G1.
  assert (Hsup : forall r c, inr n (r + n / 2) && inr m (c + m / 2) = false -> embed_sum (pw_data w1) r c = k0).
  { intros r c E. rewrite G1. destruct ps as [|P ps']; [congruence|]. unfold chain_transmission. cbn [fold_right].
    rewrite (transmission_outside P lam n m r c (ok_layers S P n m (Hok P (or_introl eq_refl))) E). ring. }
  assert (Hfn1 : pw_focal w1 <> FNone) by (rewrite Hfo; discriminate).
  destruct (chain_propagate_samples ps w0 w1 dur duc shape pshape os dxr dxc n m Sr Sc Pr Pc
              Hch S1 Hpx Hfn1 Z1 Hn Hm Hsup Hshape Hpshape HSr HSc HPr HPc Hos HbR HbC)
    as (v & o & oi & Ev & Fo & Foi & No & Mo & Ni & Mi & G).
  exists v, o, oi. repeat (split; [assumption|]).
  intros i j Hi Hj. destruct (G i j Hi Hj) as [Ga Gb]. split; [|exact Gb].
  rewrite Ga. rewrite L1, Hfo. cbn [focal_opt dft_alpha1]. fold ar ac. destr_if; [|reflexivity]. f_equal.
  rewrite fourier_sum_image_sum. unfold image_sum. apply sumZ_ext; intros x Hx. apply sumZ_ext; intros y Hy. f_equal.
  rewrite G1. unfold w0. rewrite ec_sum_fresh. unfold chain_transmission.
  transitivity (fold_right (fun P acc => (transmission P lam n m (x - n / 2) (y - m / 2) * acc)%K) k1 ps); [ring|].
  clear. induction ps as [|P ps IH]; cbn [fold_right]; [reflexivity|].
  rewrite IH, transmission_pupil_function. reflexivity.
Qed.

(* ------------------------------------------------------------------ polychromatic images *)
(* the fields propagate_dft leaves behind are array fields inside the output array (what Wavefront.insert needs) *)
Lemma propagate_fields_ok shift_of (w w' : wavefront S) dur duc shape pshape os mask dxr dxc Sr Sc Pr Pc b :
  wptype w <> PtNone -> wps w = Some (dxr, dxc) ->
  (forall f, In f (wdata w) -> exists a, fd f = D2 a) ->
  match shape with None => wshape w | Some s => s end = (Sr, Sc) ->
  match pshape with None => (Sr, Sc) | Some p => p end = (Pr, Pc) ->
  0 < Sr -> 0 < Sc -> 0 < Pr -> 0 < Pc -> 1 <= os -> Sr * os < maxsize -> Sc * os < maxsize ->
  (forall k, mask = Some k -> mnr k = Sr * os /\ mnc k = Sc * os) ->
  mask_bbox mask (Sr * os) (Sc * os) = Ok b ->
  propagate_dft sq shift_of w dur duc shape pshape os mask = Ok w' ->
  forall g, In g (wdata w') -> fsized g /\ fbounded S g.
Proof.
  intros Hpt Hps Hd Hshape Hpshape HSr HSc HPr HPc Hos HbR HbC Hm Hb Hw.
  set (ar := dft_alpha1 dxr dur (wwl w) (wfocal w) os). set (ac := dft_alpha1 dxc duc (wwl w) (wfocal w) os).
  assert (HRo : 0 < Sr * os) by nia. assert (HCo : 0 < Sc * os) by nia.
  assert (HPro : 0 < Pr * os) by nia. assert (HPco : 0 < Pc * os) by nia.
  destruct (out_extent_spec (Sr * os) (Sc * os) mask b HRo HCo Hm Hb) as (oe & Hoe & Hv & Hin).
  pose proof (mask_bbox_in_array mask (Sr * os) (Sc * os) b HRo HCo Hm Hb) as Hbb.
  destruct (prop_fields_spec S Sring Skernel sq shift_of oe (Pr * os) (Pc * os) ar ac (wdata w) Hv HPro HPco Hd) as (l & Hl & Sl & _).
  pose proof (prop_fields_extent S sq shift_of oe (Pr * os) (Pc * os) (Some (ar, ac)) (wdata w) Hv HPro HPco l Hl) as Xl.
  assert (Hoeb : esub oe (- ((Sr * os) / 2), Sr * os - 1 - (Sr * os) / 2, - ((Sc * os) / 2), Sc * os - 1 - (Sc * os) / 2)).
  { destruct oe as [[[o1 o2] o3] o4]. destruct b as [[[r1 r2] c1] c2]. cbn in Hv.
    pose proof (Hin (o1 + (Sr * os) / 2) (o3 + (Sc * os) / 2)) as C1.
    pose proof (Hin (o2 + (Sr * os) / 2) (o4 + (Sc * os) / 2)) as C2.
    unfold inE, inb in C1, C2. unfold esub.
    set (h1 := (Sr * os) / 2) in *. set (h2 := (Sc * os) / 2) in *. clearbody h1 h2. lia. }
  assert (El : wdata w' = l).
  { unfold propagate_dft in Hw. destruct (wptype w) eqn:Ept; [congruence| |]; cbn [propagate_ptype rbind] in Hw;
      rewrite Hshape, Hpshape, Hoe in Hw; cbn [rbind] in Hw; rewrite Hps in Hw; fold ar ac in Hw; rewrite Hl in Hw;
      cbn [rbind] in Hw; injection Hw as <-; reflexivity. }
  rewrite El. intros g Hg. split.
  - destruct (Sl g Hg) as (d & Ed & Hd1 & Hd2). unfold fsized. rewrite Ed. now split.
  - specialize (Xl g Hg). unfold fbounded.
    destruct (fextent g) as [[[g1 g2] g3] g4]. destruct oe as [[[o1 o2] o3] o4]. unfold esub in *.
    set (h1 := (Sr * os) / 2) in *. set (h2 := (Sc * os) / 2) in *.
    assert (0 <= h1 <= Sr * os) by (subst h1; lia). assert (0 <= h2 <= Sc * os) by (subst h2; lia).
    clearbody h1 h2. lia.
Qed.

(* one monochromatic image added into an accumulator with a weight: Wavefront.insert(out, weight) after
   propagate_dft(Wavefront * P1 * ... * Pk) adds weight * |field|^2 at every sample *)
Theorem chain_propagate_insert (ps : list (plane S)) (w0 w1 : pwf S) dur duc shape pshape os dxr dxc n m Sr Sc Pr Pc
        (out : arr S) (wt : S) :
  chain_multiply ps w0 = Ok w1 ->
  pw_shape w1 = Some (n, m) -> pw_pix w1 = Some (dxr, dxc) -> pw_focal w1 <> FNone ->
  (forall f, In f (pw_data w1) -> fsized f) ->
  0 < n -> 0 < m ->
  (forall r c, inr n (r + n / 2) && inr m (c + m / 2) = false -> embed_sum (pw_data w1) r c = k0) ->
  match shape with None => (n, m) | Some s => s end = (Sr, Sc) ->
  match pshape with None => (Sr, Sc) | Some p => p end = (Pr, Pc) ->
  0 < Sr -> 0 < Sc -> 0 < Pr -> 0 < Pc -> 1 <= os -> Sr * os < maxsize -> Sc * os < maxsize ->
  nr out = Sr * os -> nc out = Sc * os ->
  exists v fld o, chain_propagate sq ps w0 dur duc shape pshape os = Ok v /\ wfield v = Ok fld /\
    accumulate (wdata v) out wt = Ok o /\ nr o = Sr * os /\ nc o = Sc * os /\
    forall i j, 0 <= i < Sr * os -> 0 <= j < Sc * os -> get o i j = (get out i j + norm2 (get fld i j) * wt)%K.
Proof.
  intros Hch Hsh Hpx Hfo Hsz Hn Hm Hsup Hshape Hpshape HSr HSc HPr HPc Hos HbR HbC No Mo.
  destruct (chain_propagate_samples ps w0 w1 dur duc shape pshape os dxr dxc n m Sr Sc Pr Pc
              Hch Hsh Hpx Hfo Hsz Hn Hm Hsup Hshape Hpshape HSr HSc HPr HPc Hos HbR HbC)
    as (v & fld & _ & Ev & Ff & _ & Nf & Mf & _ & _ & _).
  assert (HRo : 0 < Sr * os) by nia. assert (HCo : 0 < Sc * os) by nia.
  pose proof Ev as Ev'. unfold chain_propagate in Ev'. rewrite Hch in Ev'. cbn [rbind] in Ev'.
  rewrite (to_wavefront_ok w1 n m PtPupil Hsh Hfo) in Ev'. cbn [rbind] in Ev'.
  set (w2 := mkWf (pw_lam w1) (pw_pix w1) (focal_opt (pw_focal w1)) (n, m) PtPupil (pw_data w1)) in *.
  assert (Hd2 : forall f, In f (wdata w2) -> exists a, fd f = D2 a).
  { intros f Hf. destruct (fsized_sized S f (Hsz f Hf)) as (a & Ea & _). now exists a. }
  pose proof (propagate_fields_ok (@no_shift S) w2 v dur duc shape pshape os None dxr dxc Sr Sc Pr Pc
                (0, Sr * os - 1, 0, Sc * os - 1) ltac:(discriminate) Hpx Hd2 Hshape Hpshape HSr HSc HPr HPc Hos HbR HbC
                ltac:(discriminate) eq_refl Ev') as Hok.
  destruct (accumulate_spec S Sring (wdata v) out wt ltac:(lia) ltac:(lia) Hok) as (o & Eo & No' & Mo' & Go).
  destruct (PlaneP.render_spec S Sring (wdata v) (Sr * os) (Sc * os) HRo HCo (fun g Hg => proj1 (Hok g Hg)))
    as (fa & Efa & _ & _ & Gfa).
  assert (Esh : wshape v = (Sr * os, Sc * os)).
  { destruct (propagate_metadata S sq (@no_shift S) w2 v dur duc shape pshape os None Ev') as (_ & _ & _ & _ & E).
    rewrite E. change (wshape w2) with (n, m). now rewrite Hshape. }
  exists v, fa, o. split; [exact Ev|]. split; [unfold wfield; rewrite Esh; exact Efa|].
  split; [exact Eo|]. split; [congruence|]. split; [congruence|].
  intros i j Hi Hj. rewrite Go by lia. rewrite No, Mo. now rewrite <- Gfa by assumption.
Qed.

(* the loop a user writes for a polychromatic image:
     for wavelength, weight in spectrum:  propagate_dft(Wavefront(wavelength) * P, ...).insert(out, weight)          *)
Definition broadband_step (P : plane S) pix foc dur duc shape pshape os (acc : result (arr S)) (lw : Qc * S) : result (arr S) :=
  rbind acc (fun o =>
  rbind (chain_propagate sq [P] (pwf_init (fst lw) pix foc []) dur duc shape pshape os) (fun v =>
  accumulate (wdata v) o (snd lw))).
Definition broadband (P : plane S) pix foc dur duc shape pshape os (spec : list (Qc * S)) (out : arr S) : result (arr S) :=
  fold_left (broadband_step P pix foc dur duc shape pshape os) spec (Ok out).

(* the monochromatic field of Chain_image_of_pupil as a function of the wavelength *)
Definition mono_field (P : plane S) z dur duc os dxr dxc n m Sr Sc Pr Pc (lam : Qc) (i j : Z) : S :=
  let ar := ((dxr * dur) / (lam * z * zq os))%Qc in let ac := ((dxc * duc) / (lam * z * zq os))%Qc in
  let u := i - (Sr * os) / 2 in let v := j - (Sc * os) / 2 in
  if inE (array_extent (Pr * os) (Pc * os) 0 0) u v
  then (image_sum n m (pupil_function P lam) ar ac u v * sq (qabs (ar * ac)%Qc))%K else k0.

Lemma fold_left_err {A} (stp : result (arr S) -> A -> result (arr S)) (l : list A) e :
  (forall x, stp (Err e) x = Err e) -> fold_left stp l (Err e) = Err e.
Proof. intros H. induction l as [|x l IH]; cbn [fold_left]; [reflexivity|]. now rewrite H. Qed.

(* C07 o C02 over a sampled spectrum: the polychromatic image is the weighted sum over the wavelengths of the squared
   moduli of the monochromatic fields, each the transform of the pupil function at its own wavelength (its own phasor
   exp(2 pi i W / lambda) and its own sampling ratio alpha(lambda)) *)
Theorem broadband_of_plane (P : plane S) pix foc z dur duc shape pshape os dxr dxc n m Sr Sc Pr Pc :
  plane_ok P n m -> 0 < n -> 0 < m ->
  mul_pixelscale (pl_pix P) (pix_broadcast pix) = Ok (Some (dxr, dxc)) ->
  pl_focal P = Some (FVal z) ->
  match shape with None => (n, m) | Some s => s end = (Sr, Sc) ->
  match pshape with None => (Sr, Sc) | Some p => p end = (Pr, Pc) ->
  0 < Sr -> 0 < Sc -> 0 < Pr -> 0 < Pc -> 1 <= os -> Sr * os < maxsize -> Sc * os < maxsize ->
  forall (spec : list (Qc * S)) (out : arr S), nr out = Sr * os -> nc out = Sc * os ->
  exists o, broadband P pix foc dur duc shape pshape os spec out = Ok o /\ nr o = Sr * os /\ nc o = Sc * os /\
    forall i j, 0 <= i < Sr * os -> 0 <= j < Sc * os ->
      get o i j = (get out i j +
        fold_right (fun lw acc => (norm2 (mono_field P z dur duc os dxr dxc n m Sr Sc Pr Pc (fst lw) i j) * snd lw + acc)%K) k0 spec)%K.
Proof.
  intros Hok Hn Hm Hpx Hfo Hshape Hpshape HSr HSc HPr HPc Hos HbR HbC.
  induction spec as [|[lam wt] spec IH]; intros out No Mo.
  - exists out. split; [reflexivity|]. split; [exact No|]. split; [exact Mo|]. intros i j _ _. cbn [fold_right]. ring.
  - (* the monochromatic step: Chain_image_of_plane and the insertion lemma speak about the same call *)
    set (w0 := pwf_init (S := S) lam pix foc []).
    destruct (plane_multiply_spec S Sring P w0 n m (Some (dxr, dxc)) Hok (fresh_valid lam pix foc []) Hpx)
      as (w1 & E1 & L1 & P1 & S1 & F1 & Z1 & G1).
    assert (Hch : chain_multiply [P] w0 = Ok w1) by (cbn [chain_multiply]; rewrite E1; reflexivity).
    rewrite Hfo in F1. change (pw_lam w0) with lam in L1, G1.
    assert (Hsup : forall r c, inr n (r + n / 2) && inr m (c + m / 2) = false -> embed_sum (pw_data w1) r c = k0).
    { intros r c E. rewrite G1, (transmission_outside P lam n m r c (ok_layers S P n m Hok) E). ring. }
    assert (Hfn1 : pw_focal w1 <> FNone) by (rewrite F1; discriminate).
    destruct (chain_propagate_insert [P] w0 w1 dur duc shape pshape os dxr dxc n m Sr Sc Pr Pc out wt
                Hch S1 P1 Hfn1 Z1 Hn Hm Hsup Hshape Hpshape HSr HSc HPr HPc Hos HbR HbC No Mo)
      as (v & fld & o1 & Ev & Ff & Eo & N1 & M1 & G).
    destruct (image_of_plane P lam pix foc (FVal z) dur duc shape pshape os dxr dxc n m Sr Sc Pr Pc
                Hok Hn Hm Hpx Hfo ltac:(discriminate) Hshape Hpshape HSr HSc HPr HPc Hos HbR HbC)
      as (v' & fld' & oi' & Ev' & Ff' & _ & _ & _ & _ & _ & GI).
    fold w0 in Ev'. rewrite Ev in Ev'. injection Ev' as Evv. subst v'. rewrite Ff in Ff'. injection Ff' as Eff. subst fld'.
    destruct (IH o1 N1 M1) as (o & Eo2 & No2 & Mo2 & Go2).
    exists o. split.
    { unfold broadband. cbn [fold_left]. unfold broadband_step at 2. cbn [rbind fst snd]. fold w0. rewrite Ev. cbn [rbind].
      rewrite Eo. exact Eo2. }
    split; [exact No2|]. split; [exact Mo2|]. intros i j Hi Hj.
    rewrite (Go2 i j Hi Hj), (G i j Hi Hj). cbn [fold_right fst snd].
    destruct (GI i j Hi Hj) as [GIa _]. rewrite GIa. unfold mono_field. cbn [focal_opt dft_alpha1]. ring.
Qed.

(* linearity of the total: sum over the image of a weighted sum of images = weighted sum of the totals *)
Lemma total_of_weighted_sum {A} (t : A -> Z -> Z -> S) (wgt : A -> S) (l : list A) R C :
  sumZ R (fun i => sumZ C (fun j => fold_right (fun x acc => (t x i j * wgt x + acc)%K) k0 l))
  = fold_right (fun x acc => (sumZ R (fun i => sumZ C (fun j => t x i j)) * wgt x + acc)%K) k0 l.
Proof.
  induction l as [|x l IH]; cbn [fold_right].
  - rewrite (sumZ_zero_ext S Sring); [reflexivity|]. intros i _. apply (sumZ_zero S Sring).
  - rewrite <- IH, <- (sumZ_scale_r S Sring), <- (sumZ_add S Sring). apply sumZ_ext; intros i _.
    rewrite <- (sumZ_scale_r S Sring), <- (sumZ_add S Sring). reflexivity.
Qed.

Lemma fold_right_ext {A} (f1 f2 : A -> S -> S) (l : list A) a : (forall x y, f1 x y = f2 x y) ->
  fold_right f1 a l = fold_right f2 a l.
Proof. intros H. induction l as [|x l IH]; cbn [fold_right]; [reflexivity|]. now rewrite IH, H. Qed.

(* the same for a monolithic pupil, spelled out: A M exp(2 pi i W / lambda) *)
Definition mono_field_pupil (P : plane S) (g : garr bool) z dur duc os dxr dxc n m Sr Sc Pr Pc (lam : Qc) (i j : Z) : S :=
  let ar := ((dxr * dur) / (lam * z * zq os))%Qc in let ac := ((dxc * duc) / (lam * z * zq os))%Qc in
  let u := i - (Sr * os) / 2 in let v := j - (Sc * os) / 2 in
  if inE (array_extent (Pr * os) (Pc * os) 0 0) u v
  then (sumZ n (fun x => sumZ m (fun y =>
          (amp_at (pl_amp P) x y * kofb (pget g x y) * ke (- (opd_at (pl_opd P) x y / lam))%Qc
           * ke (ar * zq (x - n / 2) * zq u + ac * zq (y - m / 2) * zq v)%Qc)%K))
        * sq (qabs (ar * ac)%Qc))%K
  else k0.

Lemma mono_field_is_pupil (P : plane S) g z dur duc os dxr dxc n m Sr Sc Pr Pc lam i j :
  plane_ok P n m -> pl_mask P = PM2 g ->
  mono_field P z dur duc os dxr dxc n m Sr Sc Pr Pc lam i j = mono_field_pupil P g z dur duc os dxr dxc n m Sr Sc Pr Pc lam i j.
Proof. intros Hok Eg. unfold mono_field, mono_field_pupil. cbv zeta. destr_if; [|reflexivity]. f_equal.
  unfold image_sum. apply sumZ_ext; intros x Hx. apply sumZ_ext; intros y Hy.
  now rewrite (pupil_function_mono P lam n m g x y Hok Eg Hx Hy). Qed.

(* Chain_broadband: the polychromatic image accumulated into a zero array, and its total *)
Theorem broadband_of_pupil (P : plane S) (g : garr bool) pix foc z dur duc shape pshape os dxr dxc n m Sr Sc Pr Pc
        (spec : list (Qc * S)) :
  plane_ok P n m -> pl_mask P = PM2 g -> 0 < n -> 0 < m ->
  mul_pixelscale (pl_pix P) (pix_broadcast pix) = Ok (Some (dxr, dxc)) ->
  pl_focal P = Some (FVal z) ->
  match shape with None => (n, m) | Some s => s end = (Sr, Sc) ->
  match pshape with None => (Sr, Sc) | Some p => p end = (Pr, Pc) ->
  0 < Sr -> 0 < Sc -> 0 < Pr -> 0 < Pc -> 1 <= os -> Sr * os < maxsize -> Sc * os < maxsize ->
  exists o, broadband P pix foc dur duc shape pshape os spec (azeros (Sr * os) (Sc * os)) = Ok o /\
    nr o = Sr * os /\ nc o = Sc * os /\
    (forall i j, 0 <= i < Sr * os -> 0 <= j < Sc * os ->
       get o i j = fold_right (fun lw acc =>
         (norm2 (mono_field_pupil P g z dur duc os dxr dxc n m Sr Sc Pr Pc (fst lw) i j) * snd lw + acc)%K) k0 spec) /\
    sumZ (Sr * os) (fun i => sumZ (Sc * os) (fun j => get o i j))
    = fold_right (fun lw acc =>
        (sumZ (Sr * os) (fun i => sumZ (Sc * os) (fun j =>
           norm2 (mono_field_pupil P g z dur duc os dxr dxc n m Sr Sc Pr Pc (fst lw) i j))) * snd lw + acc)%K) k0 spec.
Proof.
  intros Hok Eg Hn Hm Hpx Hfo Hshape Hpshape HSr HSc HPr HPc Hos HbR HbC.
  destruct (broadband_of_plane P pix foc z dur duc shape pshape os dxr dxc n m Sr Sc Pr Pc
              Hok Hn Hm Hpx Hfo Hshape Hpshape HSr HSc HPr HPc Hos HbR HbC spec (azeros (Sr * os) (Sc * os)) eq_refl eq_refl)
    as (o & Eo & No & Mo & G).
  assert (G' : forall i j, 0 <= i < Sr * os -> 0 <= j < Sc * os ->
       get o i j = fold_right (fun lw acc =>
         (norm2 (mono_field_pupil P g z dur duc os dxr dxc n m Sr Sc Pr Pc (fst lw) i j) * snd lw + acc)%K) k0 spec).
  { intros i j Hi Hj. rewrite (G i j Hi Hj). cbn [azeros get].
    rewrite (fold_right_ext _ (fun lw acc =>
         (norm2 (mono_field_pupil P g z dur duc os dxr dxc n m Sr Sc Pr Pc (fst lw) i j) * snd lw + acc)%K))
      by (intros x y; now rewrite (mono_field_is_pupil P g) by assumption). ring. }
  exists o. repeat (split; [assumption|]).
  rewrite <- (total_of_weighted_sum (fun lw i j => norm2 (mono_field_pupil P g z dur duc os dxr dxc n m Sr Sc Pr Pc (fst lw) i j))
               (fun lw => snd lw)).
  apply sumZ_ext; intros i Hi. apply sumZ_ext; intros j Hj. now apply G'.
Qed.

End ChainGen.

(* ================================================================== C09 o C02: FFT path = DFT path *)
Section ChainFft.
Variable S : Scalar.
Hypothesis Sring : is_ring S.
Hypothesis Skernel : kernel_laws S.
Hypothesis Speriod : periodic S.
Variable sq : Qc -> S.
Add Ring SrF : Sring.

(* the plane type of the FFT model's wavefront as the plane type of the DFT model's wavefront *)
Definition pt_conv (p : Fft.ptype) : wf_ptype :=
  match p with PNone => PtNone | PPupil => PtPupil | PImage => PtImage end.

Lemma fold_left_add_lsum {A} (t : A -> S) l : forall a,
  fold_left (fun acc f => (acc + t f)%K) l a = (a + lsum S (map t l))%K.
Proof. induction l as [|x l IH]; intros a; cbn [fold_left map]; [unfold lsum; cbn; ring|].
  rewrite IH. unfold lsum. cbn [fold_right]. ring. Qed.

(* isotropic pixel scales d (pupil) and u (image): at the wavelength propagate_fft reports the DFT sampling is 1/N *)
Lemma reported_alpha N d u z os : N <> 0 -> os <> 0 -> d <> 0%Qc -> u <> 0%Qc -> z <> 0%Qc ->
  dft_alpha1 d u (prop_wavelength N N (d, d) (u, u) z os) (Some z) os = (/ zq N)%Qc.
Proof.
  intros HN Hos Hd Hu Hz. pose proof (fft_shape_wavelength N d u z os HN Hos Hd Hu Hz) as E.
  unfold Fft.dft_alpha in E. cbn [fst snd] in E. apply (f_equal fst) in E. cbn [fst] in E. unfold dft_alpha1. exact E.
Qed.

Theorem fft_equals_dft (wF : Fft.wavefront S) (N : Z) (d u z : Qc) (os s0 s1 : Z) (scratch : option (arr S)) :
  0 < N -> 0 < os -> d <> 0%Qc -> u <> 0%Qc -> z <> 0%Qc ->
  Fft.wpix wF = (d, d) -> Fft.wz wF = z ->
  fft_grid (d, d) (u, u) z (Fft.wlam wF) os = (N, N) ->
  Fft.has_tilt wF = false -> Fft.wpt wF <> PNone ->
  (forall f, In f (Fft.wdata wF) -> fgood S f /\ fits S N N f) ->
  0 < s0 -> 0 < s1 -> s0 * os <= N -> s1 * os <= N ->
  scratch_ok S N N wF scratch ->
  let lamF := prop_wavelength N N (d, d) (u, u) z os in
  let wD := mkWf lamF (Some (d, d)) (Some z) (Fft.wshape wF) (pt_conv (Fft.wpt wF)) (Fft.wdata wF) in
  exists outF sc oF outD oD,
    propagate_fft sq wF (u, u) (Some (s0, s1)) os scratch = Ok (outF, sc) /\
    Fft.wfield outF = Ok oF /\ Fft.wlam outF = lamF /\ Fft.wshape outF = (s0 * os, s1 * os) /\
    propagate_dft sq (@no_shift S) wD u u (Some (s0, s1)) None os None = Ok outD /\
    wfield outD = Ok oD /\ wwl outD = lamF /\ wshape outD = (s0 * os, s1 * os) /\
    nr oF = s0 * os /\ nc oF = s1 * os /\ nr oD = s0 * os /\ nc oD = s1 * os /\
    forall i j, 0 <= i < s0 * os -> 0 <= j < s1 * os ->
      get oF i j = get oD i j /\
      get oF i j =
        (fold_right (fun f acc =>
           (match fd f with
            | D2 a => fourier_sum a (/ zq N)%Qc (/ zq N)%Qc (offr f) (offc f)
                                  (zq (i - (s0 * os) / 2)) (zq (j - (s1 * os) / 2))
            | D0 _ => k0
            end + acc)%K) k0 (Fft.wdata wF)
         * sq (/ zq (N * N))%Qc)%K.
Proof.
  intros HN Hos Hd Hu Hz Epix Ez Egrid Ht Hpt Hg Hs0 Hs1 Hf0 Hf1 Hsc lamF wD.
  assert (Hpt' : exists pt, Fft.propagate_ptype (Fft.wpt wF) = Ok pt).
  { destruct (Fft.wpt wF); [congruence|eexists; reflexivity|eexists; reflexivity]. }
  destruct Hpt' as (pt & Ept).
  (* the FFT path: C09 *)
  unfold propagate_fft. rewrite Epix, Ez, Egrid. cbn [fst snd].
  destruct (propagate_fft_samples S Sring Skernel Speriod sq N N wF (u, u) (Some (s0, s1)) os scratch pt
              HN HN Hos Ht Ept (fun f Hf => proj1 (Hg f Hf))) as (outF & sc & EF & ShF & LamF & _ & _ & oF & FoF & NF & MF & GF).
  { cbn [accepted_shape fst snd]. lia. } { exact Hsc. }
  cbn [shape_out fst snd] in ShF, NF, MF. rewrite Epix, Ez in LamF.
  (* the DFT path: C02 *)
  assert (Hb : mask_bbox None (s0 * os) (s1 * os) = Ok (0, s0 * os - 1, 0, s1 * os - 1)) by reflexivity.
  assert (HptD : wptype wD <> PtNone) by (cbn [wptype wD]; destruct (Fft.wpt wF); [congruence|discriminate|discriminate]).
  assert (HdD : forall f, In f (wdata wD) -> @no_shift S f = (0%Qc, 0%Qc) /\ exists a, fd f = D2 a).
  { intros f Hf. split; [reflexivity|]. destruct (Hg f Hf) as [G _]. unfold fgood in G.
    destruct (fd f) as [|a]; [contradiction|now exists a]. }
  destruct (propagate_dft_samples S Sring Skernel sq (@no_shift S) wD u u (Some (s0, s1)) None os None d d s0 s1 s0 s1
              (0, s0 * os - 1, 0, s1 * os - 1) HptD eq_refl HdD eq_refl eq_refl Hs0 Hs1 Hs0 Hs1 ltac:(lia)
              ltac:(discriminate) Hb) as (outD & oD & ED & ShD & FoD & ND & MD & GD).
  pose proof (propagate_metadata S sq (@no_shift S) wD outD u u (Some (s0, s1)) None os None ED) as (LamD & _).
  exists outF, sc, oF, outD, oD. repeat (split; [assumption|]).
  assert (Hcommon : forall i j, 0 <= i < s0 * os -> 0 <= j < s1 * os ->
    get oF i j = (lsum S (map (fun f => match fd f with
                                        | D2 a => fourier_sum a (/ zq N)%Qc (/ zq N)%Qc (offr f) (offc f)
                                                    (zq (i - (s0 * os) / 2)) (zq (j - (s1 * os) / 2))
                                        | D0 _ => k0 end) (Fft.wdata wF))
                  * sq (/ zq (N * N))%Qc)%K).
  { intros i j Hi Hj. rewrite GF by lia. rewrite NF, MF.
    rewrite (grid_transform_is_sum_of_fields S Sring sq) by exact Hg.
    rewrite fold_left_add_lsum. unfold ortho_scale, field_ft. ring. }
  intros i j Hi Hj. split.
  - rewrite Hcommon by assumption. rewrite (GD i j Hi Hj). cbv zeta. cbn [wwl wfocal wdata wD].
    unfold lamF. rewrite (reported_alpha N d u z os) by (try assumption; lia).
    replace (inE (0, s0 * os - 1, 0, s1 * os - 1) i j) with true by (unfold inE, inb; lia).
    replace (inE (array_extent (s0 * os) (s1 * os) 0 0) (i - s0 * os / 2) (j - s1 * os / 2)) with true
      by (unfold inE, inb, array_extent; lia).
    cbn [andb]. f_equal.
    pose proof (ortho_is_unitary_scale S sq N N HN HN) as E. unfold ortho_scale, unitary_scale in E. exact E.
  - rewrite Hcommon by assumption. now rewrite (lsum_map_fold S).
Qed.

(* the same statement with the vocabulary of Proofs/FftP.v ([fgood], [fits]) unfolded (the form quoted in Properties/Chain.v) *)
Theorem fft_equals_dft_explicit (wF : Fft.wavefront S) (N : Z) (d u z : Qc) (os s0 s1 : Z) (scratch : option (arr S)) :
  0 < N -> 0 < os -> d <> 0%Qc -> u <> 0%Qc -> z <> 0%Qc ->
  Fft.wpix wF = (d, d) -> Fft.wz wF = z ->
  fft_grid (d, d) (u, u) z (Fft.wlam wF) os = (N, N) ->
  Fft.has_tilt wF = false -> Fft.wpt wF <> PNone ->
  (forall f, In f (Fft.wdata wF) ->
     match fd f with
     | D2 a => (0 < nr a /\ 0 < nc a) /\
               0 <= N / 2 - nr a / 2 + offr f /\ N / 2 - nr a / 2 + offr f + nr a <= N /\
               0 <= N / 2 - nc a / 2 + offc f /\ N / 2 - nc a / 2 + offc f + nc a <= N
     | D0 _ => False
     end) ->
  0 < s0 -> 0 < s1 -> s0 * os <= N -> s1 * os <= N ->
  scratch_ok S N N wF scratch ->
  let lamF := prop_wavelength N N (d, d) (u, u) z os in
  let wD := mkWf lamF (Some (d, d)) (Some z) (Fft.wshape wF) (pt_conv (Fft.wpt wF)) (Fft.wdata wF) in
  exists outF sc oF outD oD,
    propagate_fft sq wF (u, u) (Some (s0, s1)) os scratch = Ok (outF, sc) /\
    Fft.wfield outF = Ok oF /\ Fft.wlam outF = lamF /\ Fft.wshape outF = (s0 * os, s1 * os) /\
    propagate_dft sq (@no_shift S) wD u u (Some (s0, s1)) None os None = Ok outD /\
    wfield outD = Ok oD /\ wwl outD = lamF /\ wshape outD = (s0 * os, s1 * os) /\
    nr oF = s0 * os /\ nc oF = s1 * os /\ nr oD = s0 * os /\ nc oD = s1 * os /\
    forall i j, 0 <= i < s0 * os -> 0 <= j < s1 * os ->
      get oF i j = get oD i j /\
      get oF i j =
        (fold_right (fun f acc =>
           (match fd f with
            | D2 a => fourier_sum a (/ zq N)%Qc (/ zq N)%Qc (offr f) (offc f)
                                  (zq (i - (s0 * os) / 2)) (zq (j - (s1 * os) / 2))
            | D0 _ => k0
            end + acc)%K) k0 (Fft.wdata wF)
         * sq (/ zq (N * N))%Qc)%K.
Proof.
  intros H1 H2 H3 H4 H5 H6 H7 H8 H9 H10 Hfit. apply (fft_equals_dft wF N d u z os s0 s1 scratch H1 H2 H3 H4 H5 H6 H7 H8 H9 H10).
  intros f Hf. specialize (Hfit f Hf). unfold fgood, fits. destruct (fd f); [contradiction|]. tauto.
Qed.
End ChainFft.

(* ================================================================== C05 o C02 o C07: energy through the chain *)
Section ChainEnergy.
Variable sq : Qc -> C.
Hypothesis Hsq : sq_spec sq.

(* commensurate sampling: dx du / (lambda z os) = 1 / (shape * os) per axis, the pupil no larger than that period,
   the whole period evaluated (prop_shape = shape, no mask).  The total of Wavefront.intensity is the power of the
   pupil function: Parseval (C05) lifted through Plane.multiply (C07) and propagate_dft (C02) *)
Theorem energy_of_plane (P : plane CS) lam pix foc z dur duc shape os dxr dxc n m Sr Sc :
  plane_ok P n m -> 0 < n -> 0 < m ->
  mul_pixelscale (pl_pix P) (pix_broadcast pix) = Ok (Some (dxr, dxc)) ->
  pl_focal P = Some (FVal z) ->
  match shape with None => (n, m) | Some s => s end = (Sr, Sc) ->
  0 < Sr -> 0 < Sc -> 1 <= os -> Sr * os < maxsize -> Sc * os < maxsize ->
  ((dxr * dur) / (lam * z * zq os))%Qc = (/ zq (Sr * os))%Qc ->
  ((dxc * duc) / (lam * z * zq os))%Qc = (/ zq (Sc * os))%Qc ->
  n <= Sr * os -> m <= Sc * os ->
  exists v oi, chain_propagate (S := CS) sq [P] (pwf_init lam pix foc []) dur duc shape None os = Ok v /\
    wintensity v = Ok oi /\ nr oi = Sr * os /\ nc oi = Sc * os /\
    @sumZ CS (Sr * os) (fun i => @sumZ CS (Sc * os) (fun j => get oi i j))
    = @sumZ CS n (fun x => @sumZ CS m (fun y => @norm2 CS (pupil_function CS P lam x y))).
Proof.
  intros Hok Hn Hm Hpx Hfo Hshape HSr HSc Hos HbR HbC Ear Eac Hfr Hfc.
  destruct (image_of_plane CS CS_ring CS_kernel sq P lam pix foc (FVal z) dur duc shape None os dxr dxc n m Sr Sc Sr Sc
              Hok Hn Hm Hpx Hfo ltac:(discriminate) Hshape eq_refl HSr HSc HSr HSc Hos HbR HbC)
    as (v & o & oi & Ev & Fo & Foi & No & Mo & Ni & Mi & G).
  exists v, oi. repeat (split; [assumption|]).
  assert (HNr : 0 < Sr * os) by nia. assert (HNc : 0 < Sc * os) by nia.
  set (T := mkArr (S := CS) n m (pupil_function CS P lam)).
  etransitivity; [|exact (parseval_period sq T (Sr * os) (Sc * os) 0%Qc 0%Qc 0 0 Hsq HNr HNc Hfr Hfc)].
  apply sumZ_ext; intros i Hi. apply sumZ_ext; intros j Hj.
  destruct (G i j Hi Hj) as [Ga Gb]. rewrite Gb, Ga. cbv zeta. cbn [focal_opt dft_alpha1]. rewrite Ear, Eac.
  replace (inE (array_extent (Sr * os) (Sc * os) 0 0) (i - Sr * os / 2) (j - Sc * os / 2)) with true
    by (unfold inE, inb, array_extent; lia).
  f_equal. rewrite (dft2_defining_sum CS CS_ring CS_kernel) by assumption.
  replace (zq (i - Sr * os / 2) - 0)%Qc with (zq (i - Sr * os / 2)) by ring.
  replace (zq (j - Sc * os / 2) - 0)%Qc with (zq (j - Sc * os / 2)) by ring.
  unfold T. rewrite (fourier_sum_image_sum CS). reflexivity.
Qed.

Lemma norm2_kofb (b : bool) : @norm2 CS (kofb b) = kofb b.
Proof. destruct b; unfold kofb.
  - pose proof (norm2_ke CS CS_kernel CS_conj 0%Qc) as H. rewrite (ke_0 CS CS_kernel) in H. exact H.
  - unfold norm2. cbn. ring. Qed.

(* Chain_energy for a monolithic pupil: total image intensity = sum |A M exp(2 pi i W/lambda)|^2 = power of the
   amplitude inside the mask, whatever the OPD *)
Theorem chain_energy (P : plane CS) (g : garr bool) lam pix foc z dur duc shape os dxr dxc n m Sr Sc :
  plane_ok P n m -> pl_mask P = PM2 g -> 0 < n -> 0 < m ->
  mul_pixelscale (pl_pix P) (pix_broadcast pix) = Ok (Some (dxr, dxc)) ->
  pl_focal P = Some (FVal z) ->
  match shape with None => (n, m) | Some s => s end = (Sr, Sc) ->
  0 < Sr -> 0 < Sc -> 1 <= os -> Sr * os < maxsize -> Sc * os < maxsize ->
  ((dxr * dur) / (lam * z * zq os))%Qc = (/ zq (Sr * os))%Qc ->
  ((dxc * duc) / (lam * z * zq os))%Qc = (/ zq (Sc * os))%Qc ->
  n <= Sr * os -> m <= Sc * os ->
  exists v oi, chain_propagate (S := CS) sq [P] (pwf_init lam pix foc []) dur duc shape None os = Ok v /\
    wintensity v = Ok oi /\ nr oi = Sr * os /\ nc oi = Sc * os /\
    @sumZ CS (Sr * os) (fun i => @sumZ CS (Sc * os) (fun j => get oi i j))
    = @sumZ CS n (fun x => @sumZ CS m (fun y => @norm2 CS
        (amp_at (pl_amp P) x y * kofb (pget g x y) * ke (- (opd_at (pl_opd P) x y / lam))%Qc)%K)) /\
    @sumZ CS (Sr * os) (fun i => @sumZ CS (Sc * os) (fun j => get oi i j))
    = @sumZ CS n (fun x => @sumZ CS m (fun y => (@norm2 CS (amp_at (pl_amp P) x y) * kofb (pget g x y))%K)).
Proof.
  intros Hok Eg Hn Hm Hpx Hfo Hshape HSr HSc Hos HbR HbC Ear Eac Hfr Hfc.
  destruct (energy_of_plane P lam pix foc z dur duc shape os dxr dxc n m Sr Sc Hok Hn Hm Hpx Hfo Hshape HSr HSc Hos
              HbR HbC Ear Eac Hfr Hfc) as (v & oi & Ev & Foi & Ni & Mi & E).
  exists v, oi. repeat (split; [assumption|]).
  assert (E1 : @sumZ CS (Sr * os) (fun i => @sumZ CS (Sc * os) (fun j => get oi i j))
    = @sumZ CS n (fun x => @sumZ CS m (fun y => @norm2 CS
        (amp_at (pl_amp P) x y * kofb (pget g x y) * ke (- (opd_at (pl_opd P) x y / lam))%Qc)%K))).
  { rewrite E. apply sumZ_ext; intros x Hx. apply sumZ_ext; intros y Hy.
    now rewrite (pupil_function_mono CS CS_ring P lam n m g x y Hok Eg Hx Hy). }
  split; [exact E1|]. rewrite E1. apply sumZ_ext; intros x Hx. apply sumZ_ext; intros y Hy.
  rewrite !(norm2_mul CS CS_ring CS_conj), (norm2_ke CS CS_kernel CS_conj), norm2_kofb. cbn. ring.
Qed.
End ChainEnergy.

(* ================================================================== C04 o C07 o C02: tilt metadata = OPD ramp *)
Section ChainTilt.
Variable S : Scalar.
Hypothesis Sring : is_ring S.
Hypothesis Skernel : kernel_laws S.
Variable sq : Qc -> S.
Add Ring SrT : Sring.

(* ------------------------------------------------------------------ which tilt entries the products carry *)
Lemma mul_core_tilt (da : arr S) ora oca (db : arr S) orb ocb tl f :
  mul_core da ora oca db orb ocb tl = Some f -> ftilt f = tl.
Proof. unfold mul_core. destruct (intersect _ _); [|discriminate].
  destruct (intersection_slices _ _) as [[[? ?] [? ?]] [[? ?] [? ?]]]. destruct (intersection_shift _ _).
  intros H. injection H as <-. reflexivity. Qed.

Lemma fmul_tilt (a b f : field S) : fmul a b = Some f -> ftilt f = ftilt a ++ ftilt b.
Proof. unfold fmul. destr_if.
  - unfold mul_scalar. destr_if; [|discriminate]. intros H. injection H as <-. reflexivity.
  - unfold mul_array. cbv zeta.
    destruct (negb (same_shape (fd a) (fd b)) && is0d (fd a)); destruct (negb (same_shape (fd a) (fd b)) && is0d (fd b));
      apply mul_core_tilt. Qed.

Lemma in_mul_fields (phs fs : list (field S)) x : In x (mul_fields phs fs) ->
  exists f p, In f fs /\ In p phs /\ fmul f p = Some x.
Proof.
  intros Hx. unfold mul_fields in Hx. apply in_flat_map in Hx. destruct Hx as (f & Hin & Hx).
  apply in_flat_map in Hx. destruct Hx as (p & Hpin & Hx). unfold keep in Hx.
  destruct (fmul f p) as [y|] eqn:E; [|contradiction]. destruct Hx as [<-|[]]. now exists f, p.
Qed.

Lemma phasor_tilt (P : plane S) lam sr sc n mk s p : phasor P lam sr sc n mk s = Ok p ->
  ftilt p = match pl_tilt P with [] => [] | tl => take_every (psize (pl_mask P)) n tl end.
Proof. unfold phasor. destruct (amp_data _ _ _) as [a|]; [|discriminate]. cbn [rbind].
  destruct (opd_data _ _ _ _) as [o|]; [|discriminate]. cbn [rbind].
  destruct (dmul a o) as [d|]; [|discriminate]. cbn [rbind]. destruct (slice_offset s sr sc).
  intros H. injection H as <-. reflexivity. Qed.

Lemma phasors_from_untilted (P : plane S) lam sr sc : pl_tilt P = [] -> forall mks sl n phs,
  phasors_from P lam sr sc n mks sl = Ok phs -> forall p, In p phs -> ftilt p = [].
Proof.
  intros Ht. induction mks as [|mk mks IH]; intros sl n phs H p Hp.
  - cbn in H. injection H as <-. destruct Hp.
  - destruct sl as [|s sl]; [cbn in H; injection H as <-; destruct Hp|]. cbn [phasors_from] in H.
    destruct (phasor P lam sr sc n mk s) as [q|] eqn:E; [|discriminate]. cbn [rbind] in H.
    destruct (phasors_from P lam sr sc (Datatypes.S n) mks sl) as [r|] eqn:E2; [|discriminate]. cbn [rbind] in H.
    injection H as <-. destruct Hp as [<-|Hp].
    + rewrite (phasor_tilt _ _ _ _ _ _ _ _ E), Ht. reflexivity.
    + exact (IH sl _ r E2 p Hp).
Qed.

Lemma plane_phasors_untilted (P : plane S) lam phs : pl_tilt P = [] -> plane_phasors P lam = Ok phs ->
  forall p, In p phs -> ftilt p = [].
Proof. intros Ht. unfold plane_phasors. destruct (pl_mask P); apply phasors_from_untilted; exact Ht. Qed.

(* Plane.multiply of a plane whose .tilt is empty hands every product the tilt list of the incoming field *)
Lemma plane_multiply_data (P : plane S) (w w' : pwf S) : plane_multiply P w = Ok w' ->
  exists phs, (pw_data w = [] \/ plane_phasors P (pw_lam w) = Ok phs) /\ pw_data w' = mul_fields phs (pw_data w).
Proof.
  unfold plane_multiply. destruct (mul_pixelscale _ _) as [px|]; [|discriminate]. cbn [rbind].
  destruct (pw_data w) as [|f0 fs] eqn:Ed.
  - cbn [rbind]. intros H. injection H as <-. exists []. split; [now left|reflexivity].
  - destruct (plane_phasors P (pw_lam w)) as [phs|]; [|discriminate]. cbn [rbind]. intros H. injection H as <-.
    exists phs. split; [now right|reflexivity].
Qed.

Lemma plane_multiply_untilted (P : plane S) (w w' : pwf S) : pl_tilt P = [] -> plane_multiply P w = Ok w' ->
  forall x, In x (pw_data w') -> exists f, In f (pw_data w) /\ ftilt x = ftilt f.
Proof.
  intros Ht H x Hx. destruct (plane_multiply_data P w w' H) as (phs & Hph & Ed). rewrite Ed in Hx.
  destruct (in_mul_fields phs (pw_data w) x Hx) as (f & p & Hf & Hp & E). exists f. split; [exact Hf|].
  rewrite (fmul_tilt f p x E). destruct Hph as [Hnil|Hph]; [rewrite Hnil in Hf; destruct Hf|].
  rewrite (plane_phasors_untilted P (pw_lam w) phs Ht Hph p Hp). apply app_nil_r.
Qed.

(* ------------------------------------------------------------------ the all-scalar (default) plane on array fields *)
Lemma scalar_plane_phasors (P : plane S) v q b lam : plane_scalar P v q b ->
  exists tl, plane_phasors P lam = Ok [mkField (D0 (v * kofb b * Plane.phase lam q)%K) 0 0 tl].
Proof. intros (Ea & Eo & Em & Es). unfold plane_phasors. rewrite Em, Es. cbn [phasors_from]. unfold phasor.
  rewrite Ea, Eo. cbn [amp_data opd_data rbind dmul slice_offset dforce]. eexists. reflexivity. Qed.

Lemma fmul_sized_scalar (f x : field S) c orr occ tl : fsized f -> fmul f (mkField (D0 c) orr occ tl) = Some x -> fsized x.
Proof using Type. clear sq.
  unfold fsized at 1. destruct f as [[vf|df] orf ocf tf]; cbn [fd]; [contradiction|]. intros [H1 H2].
  unfold fmul, mul_array. cbn [fd is0d andb same_shape negb dshape dget toarr offr offc ftilt fst snd].
  apply (mul_core_sized S); unfold aconst; cbn [nr nc]; lia.
Qed.

Lemma scalar_plane_sized (P : plane S) v q b (w w' : pwf S) : plane_scalar P v q b -> plane_multiply P w = Ok w' ->
  (forall f, In f (pw_data w) -> fsized f) -> forall x, In x (pw_data w') -> fsized x.
Proof.
  intros Hs H Hf x Hx. destruct (plane_multiply_data P w w' H) as (phs & Hph & Ed). rewrite Ed in Hx.
  destruct (in_mul_fields phs (pw_data w) x Hx) as (f & p & Hin & Hp & E).
  destruct Hph as [Hnil|Hph]; [rewrite Hnil in Hin; destruct Hin|].
  destruct (scalar_plane_phasors P v q b (pw_lam w) Hs) as (tl & Etl). rewrite Etl in Hph.
  injection Hph as <-. destruct Hp as [<-|[]].
  exact (fmul_sized_scalar f x _ _ _ _ (Hf f Hin) E).
Qed.

(* lentil.Tilt(x=a, y=b) multiplied after a chain that left array fields without tilt: same plane function, same
   attributes, every field is an array field carrying exactly this one tilt element *)
Lemma tilt_plane_after (t : tilt) (Pd : plane S) (w1 : pwf S) z :
  plane_scalar Pd k1 0%Qc true -> pl_tilt Pd = [] -> pl_pix Pd = None -> pl_focal Pd = None ->
  (forall f, In f (pw_data w1) -> fsized f /\ ftilt f = []) -> pw_focal w1 = FVal z -> z <> 0%Qc ->
  exists w2, elem_multiply (CTilt t Pd) w1 = Ok w2 /\
    pw_lam w2 = pw_lam w1 /\ pw_shape w2 = pw_shape w1 /\ pw_pix w2 = pw_pix w1 /\ pw_focal w2 = FVal z /\
    (forall f, In f (pw_data w2) -> fsized f /\ ftilt f = [t]) /\
    forall r c, embed_sum (pw_data w2) r c = embed_sum (pw_data w1) r c.
Proof.
  intros Hs Ht Hpx Hfo Hf Hz Hz0.
  assert (Hv : forall f, In f (pw_data w1) -> fvalid S f) by (intros f H; apply (fsized_valid S), Hf, H).
  assert (Ho : origin_consts (pw_data w1)).
  { intros f H E. destruct (fsized_not0d S f (proj1 (Hf f H))) as [_ E']. congruence. }
  assert (Hp : mul_pixelscale (pl_pix Pd) (pw_pix w1) = Ok (pw_pix w1)) by (rewrite Hpx; destruct (pw_pix w1); reflexivity).
  destruct (plane_multiply_scalar S Sring Pd w1 k1 0%Qc true (pw_pix w1) Hs Hv Ho Hp) as (w0 & E & L & Px & Sh & Fo & G).
  exists (append_tilt t w0). cbn [elem_multiply]. rewrite E. split; [reflexivity|].
  unfold append_tilt. cbn [pw_lam pw_shape pw_pix pw_focal pw_data]. repeat (split; [assumption|]). split.
  { rewrite Fo, Hfo, Hz. cbn [focal_truthy]. now rewrite (Qc_eq_bool_false z 0%Qc Hz0). }
  split.
  - intros f Hin. apply in_map_iff in Hin. destruct Hin as (f0 & <- & Hin). cbn [fd ftilt]. split.
    + apply (scalar_plane_sized Pd k1 0%Qc true w1 w0 Hs E (fun g Hg => proj1 (Hf g Hg)) f0 Hin).
    + destruct (plane_multiply_untilted Pd w1 w0 Ht E f0 Hin) as (g & Hg & ->). rewrite (proj2 (Hf g Hg)). reflexivity.
  - intros r c. rewrite (embed_sum_retilt S). rewrite G, (phase_zero S _ Skernel). unfold kofb. ring.
Qed.

(* ------------------------------------------------------------------ propagation of a uniformly tilted wavefront *)
(* Field.shift (angular elements) of a field carrying the single element Tilt(x=a, y=b): the formula of C04 *)
Lemma ang_shift_single z dur duc os (f : field S) a b : ftilt f = [mk_tilt a b] ->
  ang_shift (Some z) dur duc os f = ((z * a * zq os / dur)%Qc, (- (z * b * zq os / duc))%Qc).
Proof. intros H. unfold ang_shift. rewrite H. unfold mk_tilt. cbn [fold_left ang_step fst snd].
  f_equal; unfold Qcdiv; ring. Qed.

(* the defining sum with rational output coordinates *)
Definition image_sumQ (n m : Z) (T : Z -> Z -> S) (ar ac U V : Qc) : S :=
  sumZ n (fun x => sumZ m (fun y => (T x y * ke (ar * zq (x - n / 2) * U + ac * zq (y - m / 2) * V)%Qc)%K)).
Lemma fourier_sum_image_sumQ n m (T : Z -> Z -> S) ar ac U V :
  fourier_sum (mkArr n m T) ar ac 0 0 U V = image_sumQ n m T ar ac U V.
Proof using Type. clear sq. unfold fourier_sum, image_sumQ. cbn [nr nc get]. apply sumZ_ext; intros x _. apply sumZ_ext; intros y _.
  replace (x - n / 2 + 0) with (x - n / 2) by lia. replace (y - m / 2 + 0) with (y - m / 2) by lia. reflexivity. Qed.
Lemma image_sumQ_ext n m (T1 T2 : Z -> Z -> S) ar ac U V :
  (forall x y, 0 <= x < n -> 0 <= y < m -> T1 x y = T2 x y) -> image_sumQ n m T1 ar ac U V = image_sumQ n m T2 ar ac U V.
Proof. intros H. unfold image_sumQ. apply sumZ_ext; intros x Hx. apply sumZ_ext; intros y Hy. now rewrite H. Qed.

(* propagate_dft of the wavefront a chain left behind, with Field.shift for angular tilt elements *)
Definition propagate_pwf_tilted (w : pwf S) dur duc shape pshape os : result (wavefront S) :=
  rbind (to_wavefront w PtPupil) (fun w2 =>
  propagate_dft sq (ang_shift (wfocal w2) dur duc os) w2 dur duc shape pshape os None).

(* every field carries Tilt(x=a, y=b): the image is the transform of the plane function, moved by
   (z a os / du_r, - z b os / du_c) output samples (whole and fractional part), evaluated in the window centred at the
   whole part of that shift *)
Theorem tilted_pwf_samples (w2 : pwf S) a b z dur duc shape pshape os dxr dxc n m Sr Sc Pr Pc :
  pw_shape w2 = Some (n, m) -> pw_pix w2 = Some (dxr, dxc) -> pw_focal w2 = FVal z ->
  (forall f, In f (pw_data w2) -> fsized f /\ ftilt f = [mk_tilt a b]) ->
  0 < n -> 0 < m ->
  (forall r c, inr n (r + n / 2) && inr m (c + m / 2) = false -> embed_sum (pw_data w2) r c = k0) ->
  match shape with None => (n, m) | Some s => s end = (Sr, Sc) ->
  match pshape with None => (Sr, Sc) | Some p => p end = (Pr, Pc) ->
  0 < Sr -> 0 < Sc -> 0 < Pr -> 0 < Pc -> 1 <= os ->
  let sr := (z * a * zq os / dur)%Qc in let sc := (- (z * b * zq os / duc))%Qc in
  let ar := dft_alpha1 dxr dur (pw_lam w2) (Some z) os in
  let ac := dft_alpha1 dxc duc (pw_lam w2) (Some z) os in
  exists v o, propagate_pwf_tilted w2 dur duc shape pshape os = Ok v /\
    wfield v = Ok o /\ nr o = Sr * os /\ nc o = Sc * os /\
    forall i j, 0 <= i < Sr * os -> 0 <= j < Sc * os ->
      let u := i - (Sr * os) / 2 in let v := j - (Sc * os) / 2 in
      get o i j =
        (if inE (array_extent (Pr * os) (Pc * os) (qfix sr) (qfix sc)) u v
         then (image_sumQ n m (fun x y => embed_sum (pw_data w2) (x - n / 2) (y - m / 2)) ar ac
                          (zq u - sr)%Qc (zq v - sc)%Qc
               * sq (qabs (ar * ac)%Qc))%K
         else k0).
Proof.
  intros Hsh Hpx Hfo Hd Hn Hm Hsup Hshape Hpshape HSr HSc HPr HPc Hos sr sc ar ac.
  unfold propagate_pwf_tilted. rewrite (to_wavefront_ok S w2 n m PtPupil Hsh) by (rewrite Hfo; discriminate).
  cbn [rbind]. rewrite Hfo. cbn [focal_opt wfocal].
  set (w3 := mkWf (pw_lam w2) (pw_pix w2) (Some z) (n, m) PtPupil (pw_data w2)).
  assert (Hb : mask_bbox None (Sr * os) (Sc * os) = Ok (0, Sr * os - 1, 0, Sc * os - 1)) by reflexivity.
  assert (Hmk : forall k, @None bmask = Some k -> mnr k = Sr * os /\ mnc k = Sc * os) by discriminate.
  assert (Hpt : wptype w3 <> PtNone) by discriminate.
  assert (Hd3 : forall f, In f (wdata w3) -> ang_shift (Some z) dur duc os f = (sr, sc) /\ sized S f).
  { intros f Hf. destruct (Hd f Hf) as [Hs Ht]. split; [now apply ang_shift_single|now apply fsized_sized]. }
  destruct (propagate_plane_samples S Sring Skernel sq (ang_shift (Some z) dur duc os) w3 dur duc shape pshape os None
              dxr dxc Sr Sc Pr Pc (0, Sr * os - 1, 0, Sc * os - 1) n m sr sc Hpt Hpx Hd3 Hn Hm Hsup Hshape Hpshape
              HSr HSc HPr HPc Hos Hmk Hb) as (v & o & Ev & _ & Fo & No & Mo & G).
  exists v, o. repeat (split; [assumption|]).
  intros i j Hi Hj. rewrite (G i j Hi Hj). cbv zeta. cbn [wwl wfocal w3]. fold ar ac.
  replace (inE (0, Sr * os - 1, 0, Sc * os - 1) i j) with true by (unfold inE, inb; lia). cbn [andb].
  now rewrite fourier_sum_image_sumQ.
Qed.

(* ------------------------------------------------------------------ the same tilt written into the OPD *)
(* the pupil whose OPD carries, in addition, the ramp a X dx_r - b Y dx_c that Tilt(x=a, y=b) stands for
   ((X, Y) = (row, column) counted from the origin sample floor(n/2)) *)
Definition ramp_plane (P : plane S) (a b dxr dxc : Qc) (n m : Z) : plane S :=
  set_opd P (OpdA (mkP n m (fun x y => (opd_at (pl_opd P) x y + opd_ramp a b dxr dxc (x - n / 2) (y - m / 2))%Qc))).

Lemma ramp_plane_ok (P : plane S) a b dxr dxc n m : plane_ok P n m -> plane_ok (ramp_plane P a b dxr dxc n m) n m.
Proof. intros [D Sl L [A O]]. constructor; cbn [ramp_plane set_opd pl_mask pl_slices]; try assumption.
  split; [exact A|]. cbn [pl_opd pnr pnc]. split; reflexivity. Qed.

Lemma pupil_function_ramp (P : plane S) a b dxr dxc n m lam x y :
  pupil_function S (ramp_plane P a b dxr dxc n m) lam x y
  = (pupil_function S P lam x y * ke (- (opd_ramp a b dxr dxc (x - n / 2) (y - m / 2) / lam))%Qc)%K.
Proof.
  unfold pupil_function, ramp_plane. cbn [set_opd pl_amp pl_opd pl_mask opd_at pget].
  replace (- ((opd_at (pl_opd P) x y + opd_ramp a b dxr dxc (x - n / 2) (y - m / 2)) / lam))%Qc
    with (- (opd_at (pl_opd P) x y / lam) + - (opd_ramp a b dxr dxc (x - n / 2) (y - m / 2) / lam))%Qc
    by (unfold Qcdiv; ring).
  rewrite (ke_add S Skernel). ring.
Qed.

(* C04 o C07 o C02.  Representation A: Wavefront * Pupil * Tilt(x=a, y=b) - the tilt is metadata of every field and
   propagate_dft moves the evaluation window and the sampling coordinates.  Representation B: the same Pupil with the
   ramp written into its OPD, no metadata.  Both rendered fields are the SAME function X of the sample, each inside
   its own window (A: centred at the whole part of the shift; B: centred at 0) - hence equal on every sample both
   evaluate. *)
Theorem tilt_vs_ramp_gen (P Pd : plane S) a b lam pix foc z dur duc shape pshape os dxr dxc n m Sr Sc Pr Pc :
  plane_ok P n m -> pl_tilt P = [] -> 0 < n -> 0 < m ->
  mul_pixelscale (pl_pix P) (pix_broadcast pix) = Ok (Some (dxr, dxc)) -> pl_focal P = Some (FVal z) ->
  plane_scalar Pd k1 0%Qc true -> pl_tilt Pd = [] -> pl_pix Pd = None -> pl_focal Pd = None ->
  dur <> 0%Qc -> duc <> 0%Qc -> lam <> 0%Qc -> z <> 0%Qc ->
  match shape with None => (n, m) | Some s => s end = (Sr, Sc) ->
  match pshape with None => (Sr, Sc) | Some p => p end = (Pr, Pc) ->
  0 < Sr -> 0 < Sc -> 0 < Pr -> 0 < Pc -> 1 <= os -> Sr * os < maxsize -> Sc * os < maxsize ->
  let w0 := pwf_init (S := S) lam pix foc [] in
  let sr := (z * a * zq os / dur)%Qc in let sc := (- (z * b * zq os / duc))%Qc in
  let ar := ((dxr * dur) / (lam * z * zq os))%Qc in
  let ac := ((dxc * duc) / (lam * z * zq os))%Qc in
  exists vA oA vB oB,
    rbind (plane_multiply P w0) (fun w1 => rbind (elem_multiply (CTilt (mk_tilt a b) Pd) w1) (fun w2 =>
      propagate_pwf_tilted w2 dur duc shape pshape os)) = Ok vA /\ wfield vA = Ok oA /\
    chain_propagate sq [ramp_plane P a b dxr dxc n m] w0 dur duc shape pshape os = Ok vB /\ wfield vB = Ok oB /\
    nr oA = Sr * os /\ nc oA = Sc * os /\ nr oB = Sr * os /\ nc oB = Sc * os /\
    forall i j, 0 <= i < Sr * os -> 0 <= j < Sc * os ->
      let u := i - (Sr * os) / 2 in let v := j - (Sc * os) / 2 in
      let X := (image_sumQ n m (pupil_function S P lam) ar ac (zq u - sr)%Qc (zq v - sc)%Qc * sq (qabs (ar * ac)%Qc))%K in
      get oA i j = (if inE (array_extent (Pr * os) (Pc * os) (qfix sr) (qfix sc)) u v then X else k0) /\
      get oB i j = (if inE (array_extent (Pr * os) (Pc * os) 0 0) u v then X else k0).
Proof.
  intros Hok HtP Hn Hm Hpx Hfo Hs HtD HpD HfD Hdur Hduc Hlam Hz Hshape Hpshape HSr HSc HPr HPc Hos HbR HbC w0 sr sc ar ac.
  (* A: the pupil, then the Tilt plane *)
  destruct (plane_multiply_spec S Sring P w0 n m (Some (dxr, dxc)) Hok (fresh_valid S lam pix foc []) Hpx)
    as (w1 & E1 & L1 & P1 & S1 & F1 & Z1 & G1).
  rewrite Hfo in F1. change (pw_lam w0) with lam in L1, G1.
  assert (T1 : forall f, In f (pw_data w1) -> fsized f /\ ftilt f = []).
  { intros f Hf. split; [now apply Z1|]. destruct (plane_multiply_untilted P w0 w1 HtP E1 f Hf) as (g & [<-|[]] & ->).
    reflexivity. }
  destruct (tilt_plane_after (mk_tilt a b) Pd w1 z Hs HtD HpD HfD T1 F1 Hz)
    as (w2 & E2 & L2 & S2 & P2 & F2 & T2 & G2).
  assert (Hemb : forall x y, embed_sum (pw_data w2) (x - n / 2) (y - m / 2) = pupil_function S P lam x y).
  { intros x y. rewrite G2, G1. unfold w0. rewrite (ec_sum_fresh S Sring), (transmission_pupil_function S). ring. }
  assert (Hsup : forall r c, inr n (r + n / 2) && inr m (c + m / 2) = false -> embed_sum (pw_data w2) r c = k0).
  { intros r c E. rewrite G2, G1, (transmission_outside S Sring P lam n m r c (ok_layers S P n m Hok) E). ring. }
  destruct (tilted_pwf_samples w2 a b z dur duc shape pshape os dxr dxc n m Sr Sc Pr Pc
              ltac:(congruence) ltac:(congruence) F2 T2 Hn Hm Hsup Hshape Hpshape HSr HSc HPr HPc Hos)
    as (vA & oA & EA & FA & NA & MA & GA).
  (* B: the ramp in the OPD *)
  destruct (image_of_plane S Sring Skernel sq (ramp_plane P a b dxr dxc n m) lam pix foc (FVal z) dur duc shape pshape os
              dxr dxc n m Sr Sc Pr Pc (ramp_plane_ok P a b dxr dxc n m Hok) Hn Hm Hpx Hfo ltac:(discriminate)
              Hshape Hpshape HSr HSc HPr HPc Hos HbR HbC)
    as (vB & oB & oiB & EB & FB & _ & NB & MB & _ & _ & GB).
  exists vA, oA, vB, oB. split; [rewrite E1; cbn [rbind]; rewrite E2; cbn [rbind]; exact EA|].
  repeat (split; [assumption|]).
  intros i j Hi Hj. cbv zeta. split.
  - rewrite (GA i j Hi Hj). cbv zeta. rewrite L2, L1. cbn [dft_alpha1]. fold ar ac sr sc.
    destr_if; [|reflexivity]. f_equal. apply image_sumQ_ext. intros x y _ _. apply Hemb.
  - destruct (GB i j Hi Hj) as [GB1 _]. rewrite GB1. cbv zeta. cbn [focal_opt dft_alpha1]. fold ar ac.
    destr_if; [|reflexivity]. f_equal.
    rewrite <- (fourier_sum_image_sum S), <- fourier_sum_image_sumQ.
    destruct (tilt_metadata_equals_ramp S Sring Skernel (mkArr n m (pupil_function S P lam)) a b dxr dxc dur duc lam z (zq os)
                0 0 (zq (i - Sr * os / 2)) (zq (j - Sc * os / 2)) Hdur Hduc Hlam Hz ltac:(apply zq_neq0; lia))
      as (sr' & sc' & _ & -> & -> & E).
    cbn [nr nc get] in E. unfold Tilt.dft_alpha in E. fold ar ac sr sc in E. rewrite <- E.
    apply (fourier_sum_ext S); [reflexivity|reflexivity|]. cbn [nr nc get]. intros x y Hx Hy.
    rewrite pupil_function_ramp.
    replace (x - n / 2 + 0) with (x - n / 2) by lia. replace (y - m / 2 + 0) with (y - m / 2) by lia. reflexivity.
Qed.

(* Chain_tilt_plane_equals_opd_ramp: the statement above for a monolithic pupil, everything spelled out *)
Theorem tilt_plane_equals_opd_ramp (P Pd : plane S) (g : garr bool) a b lam pix foc z dur duc shape pshape os dxr dxc
        n m Sr Sc Pr Pc :
  plane_ok P n m -> pl_mask P = PM2 g -> pl_tilt P = [] -> 0 < n -> 0 < m ->
  mul_pixelscale (pl_pix P) (pix_broadcast pix) = Ok (Some (dxr, dxc)) -> pl_focal P = Some (FVal z) ->
  plane_scalar Pd k1 0%Qc true -> pl_tilt Pd = [] -> pl_pix Pd = None -> pl_focal Pd = None ->
  dur <> 0%Qc -> duc <> 0%Qc -> lam <> 0%Qc -> z <> 0%Qc ->
  match shape with None => (n, m) | Some s => s end = (Sr, Sc) ->
  match pshape with None => (Sr, Sc) | Some p => p end = (Pr, Pc) ->
  0 < Sr -> 0 < Sc -> 0 < Pr -> 0 < Pc -> 1 <= os -> Sr * os < maxsize -> Sc * os < maxsize ->
  let w0 := pwf_init (S := S) lam pix foc [] in
  let Pramp := set_opd P (OpdA (mkP n m (fun x y =>
                 (opd_at (pl_opd P) x y + (a * (zq (x - n / 2) * dxr) - b * (zq (y - m / 2) * dxc)))%Qc))) in
  let sr := (z * a * zq os / dur)%Qc in let sc := (- (z * b * zq os / duc))%Qc in
  let ar := ((dxr * dur) / (lam * z * zq os))%Qc in
  let ac := ((dxc * duc) / (lam * z * zq os))%Qc in
  exists vA oA vB oB,
    rbind (plane_multiply P w0) (fun w1 => rbind (elem_multiply (CTilt (TiltAng b a) Pd) w1) (fun w2 =>
      rbind (to_wavefront w2 PtPupil) (fun w3 =>
        propagate_dft sq (ang_shift (wfocal w3) dur duc os) w3 dur duc shape pshape os None))) = Ok vA /\
    wfield vA = Ok oA /\
    chain_propagate sq [Pramp] w0 dur duc shape pshape os = Ok vB /\ wfield vB = Ok oB /\
    nr oA = Sr * os /\ nc oA = Sc * os /\ nr oB = Sr * os /\ nc oB = Sc * os /\
    forall i j, 0 <= i < Sr * os -> 0 <= j < Sc * os ->
      let u := i - (Sr * os) / 2 in let v := j - (Sc * os) / 2 in
      let X := (sumZ n (fun x => sumZ m (fun y =>
                  (amp_at (pl_amp P) x y * kofb (pget g x y) * ke (- (opd_at (pl_opd P) x y / lam))%Qc
                   * ke (ar * zq (x - n / 2) * (zq u - sr) + ac * zq (y - m / 2) * (zq v - sc))%Qc)%K))
                * sq (qabs (ar * ac)%Qc))%K in
      get oA i j = (if inE (array_extent (Pr * os) (Pc * os) (qfix sr) (qfix sc)) u v then X else k0) /\
      get oB i j = (if inE (array_extent (Pr * os) (Pc * os) 0 0) u v then X else k0) /\
      (inE (array_extent (Pr * os) (Pc * os) (qfix sr) (qfix sc)) u v = true ->
       inE (array_extent (Pr * os) (Pc * os) 0 0) u v = true -> get oA i j = get oB i j).
Proof.
  intros Hok Eg HtP Hn Hm Hpx Hfo Hs HtD HpD HfD Hdur Hduc Hlam Hz Hshape Hpshape HSr HSc HPr HPc Hos HbR HbC
         w0 Pramp sr sc ar ac.
  destruct (tilt_vs_ramp_gen P Pd a b lam pix foc z dur duc shape pshape os dxr dxc n m Sr Sc Pr Pc
              Hok HtP Hn Hm Hpx Hfo Hs HtD HpD HfD Hdur Hduc Hlam Hz Hshape Hpshape HSr HSc HPr HPc Hos HbR HbC)
    as (vA & oA & vB & oB & EA & FA & EB & FB & NA & MA & NB & MB & G).
  exists vA, oA, vB, oB. split; [exact EA|]. split; [exact FA|]. split; [exact EB|].
  repeat (split; [assumption|]).
  intros i j Hi Hj. cbv zeta. destruct (G i j Hi Hj) as [GA GB]. cbv zeta in GA, GB.
  assert (EX : image_sumQ n m (pupil_function S P lam) ar ac (zq (i - Sr * os / 2) - sr)%Qc (zq (j - Sc * os / 2) - sc)%Qc
               = sumZ n (fun x => sumZ m (fun y =>
                  (amp_at (pl_amp P) x y * kofb (pget g x y) * ke (- (opd_at (pl_opd P) x y / lam))%Qc
                   * ke (ar * zq (x - n / 2) * (zq (i - Sr * os / 2) - sr) + ac * zq (y - m / 2) * (zq (j - Sc * os / 2) - sc))%Qc)%K))).
  { unfold image_sumQ. apply sumZ_ext; intros x Hx. apply sumZ_ext; intros y Hy.
    now rewrite (pupil_function_mono S Sring P lam n m g x y Hok Eg Hx Hy). }
  fold ar ac sr sc in GA, GB. rewrite EX in GA, GB.
  split; [exact GA|]. split; [exact GB|]. intros WA WB. rewrite GA, GB, WA, WB. reflexivity.
Qed.

(* the same with the tilt given to the constructor, Wavefront(..., tilt=[a, b]) (wavefront.py wraps it as Tilt(x=a, y=b)
   on the plane-wave field; C04_representations_agree), instead of a Tilt plane *)
Theorem wavefront_tilt_equals_opd_ramp (P : plane S) (g : garr bool) a b lam pix foc z dur duc shape pshape os dxr dxc
        n m Sr Sc Pr Pc :
  plane_ok P n m -> pl_mask P = PM2 g -> pl_tilt P = [] -> 0 < n -> 0 < m ->
  mul_pixelscale (pl_pix P) (pix_broadcast pix) = Ok (Some (dxr, dxc)) -> pl_focal P = Some (FVal z) ->
  dur <> 0%Qc -> duc <> 0%Qc -> lam <> 0%Qc -> z <> 0%Qc ->
  match shape with None => (n, m) | Some s => s end = (Sr, Sc) ->
  match pshape with None => (Sr, Sc) | Some p => p end = (Pr, Pc) ->
  0 < Sr -> 0 < Sc -> 0 < Pr -> 0 < Pc -> 1 <= os -> Sr * os < maxsize -> Sc * os < maxsize ->
  let Pramp := set_opd P (OpdA (mkP n m (fun x y =>
                 (opd_at (pl_opd P) x y + (a * (zq (x - n / 2) * dxr) - b * (zq (y - m / 2) * dxc)))%Qc))) in
  let sr := (z * a * zq os / dur)%Qc in let sc := (- (z * b * zq os / duc))%Qc in
  let ar := ((dxr * dur) / (lam * z * zq os))%Qc in
  let ac := ((dxc * duc) / (lam * z * zq os))%Qc in
  exists vA oA vB oB,
    wavefront_tilt (Some [a; b]) = Ok [TiltAng b a] /\
    chain_propagate_tilted sq [P] (pwf_init lam pix foc [TiltAng b a]) dur duc shape pshape os = Ok vA /\
    wfield vA = Ok oA /\
    chain_propagate sq [Pramp] (pwf_init lam pix foc []) dur duc shape pshape os = Ok vB /\ wfield vB = Ok oB /\
    nr oA = Sr * os /\ nc oA = Sc * os /\ nr oB = Sr * os /\ nc oB = Sc * os /\
    forall i j, 0 <= i < Sr * os -> 0 <= j < Sc * os ->
      let u := i - (Sr * os) / 2 in let v := j - (Sc * os) / 2 in
      let X := (sumZ n (fun x => sumZ m (fun y =>
                  (amp_at (pl_amp P) x y * kofb (pget g x y) * ke (- (opd_at (pl_opd P) x y / lam))%Qc
                   * ke (ar * zq (x - n / 2) * (zq u - sr) + ac * zq (y - m / 2) * (zq v - sc))%Qc)%K))
                * sq (qabs (ar * ac)%Qc))%K in
      get oA i j = (if inE (array_extent (Pr * os) (Pc * os) (qfix sr) (qfix sc)) u v then X else k0) /\
      get oB i j = (if inE (array_extent (Pr * os) (Pc * os) 0 0) u v then X else k0) /\
      (inE (array_extent (Pr * os) (Pc * os) (qfix sr) (qfix sc)) u v = true ->
       inE (array_extent (Pr * os) (Pc * os) 0 0) u v = true -> get oA i j = get oB i j).
Proof.
  intros Hok Eg HtP Hn Hm Hpx Hfo Hdur Hduc Hlam Hz Hshape Hpshape HSr HSc HPr HPc Hos HbR HbC Pramp sr sc ar ac.
  set (w0 := pwf_init (S := S) lam pix foc [TiltAng b a]).
  (* A *)
  destruct (plane_multiply_spec S Sring P w0 n m (Some (dxr, dxc)) Hok (fresh_valid S lam pix foc _) Hpx)
    as (w1 & E1 & L1 & P1 & S1 & F1 & Z1 & G1).
  rewrite Hfo in F1. change (pw_lam w0) with lam in L1, G1.
  assert (T1 : forall f, In f (pw_data w1) -> fsized f /\ ftilt f = [mk_tilt a b]).
  { intros f Hf. split; [now apply Z1|]. destruct (plane_multiply_untilted P w0 w1 HtP E1 f Hf) as (g0 & [<-|[]] & ->).
    reflexivity. }
  assert (Hemb : forall x y, embed_sum (pw_data w1) (x - n / 2) (y - m / 2) = pupil_function S P lam x y).
  { intros x y. rewrite G1. unfold w0. rewrite (ec_sum_fresh S Sring), (transmission_pupil_function S). ring. }
  assert (Hsup : forall r c, inr n (r + n / 2) && inr m (c + m / 2) = false -> embed_sum (pw_data w1) r c = k0).
  { intros r c E. rewrite G1, (transmission_outside S Sring P lam n m r c (ok_layers S P n m Hok) E). ring. }
  destruct (tilted_pwf_samples w1 a b z dur duc shape pshape os dxr dxc n m Sr Sc Pr Pc
              S1 P1 F1 T1 Hn Hm Hsup Hshape Hpshape HSr HSc HPr HPc Hos)
    as (vA & oA & EA & FA & NA & MA & GA).
  (* B: as in tilt_vs_ramp_gen *)
  destruct (image_of_plane S Sring Skernel sq (ramp_plane P a b dxr dxc n m) lam pix foc (FVal z) dur duc shape pshape os
              dxr dxc n m Sr Sc Pr Pc (ramp_plane_ok P a b dxr dxc n m Hok) Hn Hm Hpx Hfo ltac:(discriminate)
              Hshape Hpshape HSr HSc HPr HPc Hos HbR HbC)
    as (vB & oB & oiB & EB & FB & _ & NB & MB & _ & _ & GB).
  exists vA, oA, vB, oB. split; [reflexivity|]. split.
  { unfold chain_propagate_tilted. cbn [chain_multiply]. fold w0. rewrite E1. cbn [rbind]. exact EA. }
  split; [exact FA|]. split; [exact EB|]. repeat (split; [assumption|]).
  intros i j Hi Hj. cbv zeta.
  assert (EX : image_sumQ n m (pupil_function S P lam) ar ac (zq (i - Sr * os / 2) - sr)%Qc (zq (j - Sc * os / 2) - sc)%Qc
               = sumZ n (fun x => sumZ m (fun y =>
                  (amp_at (pl_amp P) x y * kofb (pget g x y) * ke (- (opd_at (pl_opd P) x y / lam))%Qc
                   * ke (ar * zq (x - n / 2) * (zq (i - Sr * os / 2) - sr) + ac * zq (y - m / 2) * (zq (j - Sc * os / 2) - sc))%Qc)%K))).
  { unfold image_sumQ. apply sumZ_ext; intros x Hx. apply sumZ_ext; intros y Hy.
    now rewrite (pupil_function_mono S Sring P lam n m g x y Hok Eg Hx Hy). }
  assert (GA' : get oA i j = (if inE (array_extent (Pr * os) (Pc * os) (qfix sr) (qfix sc)) (i - Sr * os / 2) (j - Sc * os / 2)
                 then (image_sumQ n m (pupil_function S P lam) ar ac (zq (i - Sr * os / 2) - sr)%Qc (zq (j - Sc * os / 2) - sc)%Qc
                       * sq (qabs (ar * ac)%Qc))%K else k0)).
  { rewrite (GA i j Hi Hj). cbv zeta. rewrite L1. cbn [dft_alpha1]. fold ar ac sr sc.
    destr_if; [|reflexivity]. f_equal. apply image_sumQ_ext. intros x y _ _. apply Hemb. }
  assert (GB' : get oB i j = (if inE (array_extent (Pr * os) (Pc * os) 0 0) (i - Sr * os / 2) (j - Sc * os / 2)
                 then (image_sumQ n m (pupil_function S P lam) ar ac (zq (i - Sr * os / 2) - sr)%Qc (zq (j - Sc * os / 2) - sc)%Qc
                       * sq (qabs (ar * ac)%Qc))%K else k0)).
  { destruct (GB i j Hi Hj) as [GB1 _]. rewrite GB1. cbv zeta. cbn [focal_opt dft_alpha1]. fold ar ac.
    destr_if; [|reflexivity]. f_equal.
    rewrite <- (fourier_sum_image_sum S), <- fourier_sum_image_sumQ.
    destruct (tilt_metadata_equals_ramp S Sring Skernel (mkArr n m (pupil_function S P lam)) a b dxr dxc dur duc lam z (zq os)
                0 0 (zq (i - Sr * os / 2)) (zq (j - Sc * os / 2)) Hdur Hduc Hlam Hz ltac:(apply zq_neq0; lia))
      as (sr' & sc' & _ & -> & -> & E).
    cbn [nr nc get] in E. unfold Tilt.dft_alpha in E. fold ar ac sr sc in E. rewrite <- E.
    apply (fourier_sum_ext S); [reflexivity|reflexivity|]. cbn [nr nc get]. intros x y Hx Hy.
    rewrite pupil_function_ramp.
    replace (x - n / 2 + 0) with (x - n / 2) by lia. replace (y - m / 2 + 0) with (y - m / 2) by lia. reflexivity. }
  rewrite EX in GA', GB'.
  split; [exact GA'|]. split; [exact GB'|]. intros WA WB. rewrite GA', GB', WA, WB. reflexivity.
Qed.

(* ------------------------------------------------------------------ per-segment tilts *)
(* C02 field by field: every field supported on the n x m plane contributes the defining sum of ITS plane function at
   the sample's coordinate minus ITS shift, inside ITS window *)
Theorem propagate_field_plane_samples shift_of (w : wavefront S) dur duc shape pshape os mask dxr dxc Sr Sc Pr Pc b n m :
  wptype w <> PtNone -> wps w = Some (dxr, dxc) ->
  (forall f, In f (wdata w) -> sized S f /\
     forall r c, inr n (r + n / 2) && inr m (c + m / 2) = false -> embed f r c = k0) ->
  0 < n -> 0 < m ->
  match shape with None => wshape w | Some s => s end = (Sr, Sc) ->
  match pshape with None => (Sr, Sc) | Some p => p end = (Pr, Pc) ->
  0 < Sr -> 0 < Sc -> 0 < Pr -> 0 < Pc -> 1 <= os ->
  (forall k, mask = Some k -> mnr k = Sr * os /\ mnc k = Sc * os) ->
  mask_bbox mask (Sr * os) (Sc * os) = Ok b ->
  let ar := dft_alpha1 dxr dur (wwl w) (wfocal w) os in
  let ac := dft_alpha1 dxc duc (wwl w) (wfocal w) os in
  exists w' o, propagate_dft sq shift_of w dur duc shape pshape os mask = Ok w' /\
    wshape w' = (Sr * os, Sc * os) /\
    wfield w' = Ok o /\ nr o = Sr * os /\ nc o = Sc * os /\
    (forall i j, 0 <= i < Sr * os -> 0 <= j < Sc * os ->
      let u := i - (Sr * os) / 2 in let v := j - (Sc * os) / 2 in
      get o i j = lsum S (map (fun f =>
        if inE b i j && inE (array_extent (Pr * os) (Pc * os) (qfix (fst (shift_of f))) (qfix (snd (shift_of f)))) u v
        then (fourier_sum (mkArr n m (fun x y => embed f (x - n / 2) (y - m / 2))) ar ac 0 0
                          (zq u - fst (shift_of f))%Qc (zq v - snd (shift_of f))%Qc
              * sq (qabs (ar * ac)%Qc))%K
        else k0) (wdata w))).
Proof.
  intros Hpt Hps Hd Hn Hm Hshape Hpshape HSr HSc HPr HPc Hos Hmk Hb ar ac.
  assert (Hd2 : forall f, In f (wdata w) -> exists a, fd f = D2 a).
  { intros f Hf. destruct (Hd f Hf) as [(a & Ea & _) _]. now exists a. }
  destruct (propagate_dft_chips S Sring Skernel sq shift_of w dur duc shape pshape os mask dxr dxc Sr Sc Pr Pc b Hpt Hps
              Hd2 Hshape Hpshape HSr HSc HPr HPc Hos Hmk Hb)
    as (w' & o & Hw & Hs & Ho & N & M & G).
  exists w', o. repeat (split; [assumption|]).
  intros i j Hi Hj. rewrite (G i j Hi Hj). cbv zeta. fold ar ac. apply (lsum_map_ext S). intros f Hf.
  destruct (Hd f Hf) as [(a & Ea & Hn1 & Hm1) Hsup]. rewrite Ea. destr_if; [|reflexivity].
  unfold unitary_scale. f_equal.
  destruct (box_exists S [f] (Z.max n m)) as (B & HB & Hbox).
  rewrite (field_sum_is_plane_transform S Sring sq f a B _ _ _ _ Ea Hn1 Hm1 (Hbox f (or_introl eq_refl))).
  apply (plane_fraunhofer_box S Sring B n m (embed f)); try assumption; lia.
Qed.

(* the pair (a, b) of a field whose tilt list is the single element Tilt(x=a, y=b) (stored as TiltAng b a) *)
Definition tilt_ab (f : field S) : Qc * Qc :=
  match ftilt f with [TiltAng ty tx] => (tx, ty) | _ => (0%Qc, 0%Qc) end.
Lemma tilt_ab_single (f : field S) a b : ftilt f = [mk_tilt a b] -> tilt_ab f = (a, b).
Proof. intros H. unfold tilt_ab. rewrite H. reflexivity. Qed.

Lemma fourier_sum_lsum {A} (t : A -> Z -> Z -> S) (l : list A) n m ar ac U V :
  fourier_sum (mkArr n m (fun x y => lsum S (map (fun a => t a x y) l))) ar ac 0 0 U V
  = lsum S (map (fun a => fourier_sum (mkArr n m (t a)) ar ac 0 0 U V) l).
Proof.
  induction l as [|a l IH].
  - cbn [map]. unfold lsum at 2. cbn [fold_right]. unfold fourier_sum. cbn [nr nc get].
    apply (sumZ_zero_ext S Sring); intros x _. apply (sumZ_zero_ext S Sring); intros y _. unfold lsum. cbn. ring.
  - cbn [map]. rewrite (PropagateP.lsum_cons S), <- IH.
    rewrite <- (fourier_sum_add S Sring (mkArr n m (t a)) (mkArr n m (fun x y => lsum S (map (fun a0 => t a0 x y) l))))
      by reflexivity. reflexivity.
Qed.

(* C03 o C04 o C02, at the level of the wavefronts two chains leave behind.  wA: array fields on the n x m plane, each
   carrying ONE angular tilt Tilt(x=a_f, y=b_f) of its own as metadata (the segments of a segmented pupil after
   fit_tilt).  wB: untilted array fields - however the plane is cut (C03) - whose sum is the sum of wA's fields, each
   multiplied by the phasor of its own ramp a_f X dx_r - b_f Y dx_c.  Then A renders sum_f [window_f] X_f and B renders
   [window_0] sum_f X_f with the SAME per-segment terms X_f: the segment's transform moved by its own shift *)
Theorem segmented_tilt_fields (wA wB : pwf S) z dur duc shape pshape os dxr dxc n m Sr Sc Pr Pc :
  pw_shape wA = Some (n, m) -> pw_pix wA = Some (dxr, dxc) -> pw_focal wA = FVal z ->
  pw_shape wB = Some (n, m) -> pw_pix wB = Some (dxr, dxc) -> pw_focal wB = FVal z -> pw_lam wB = pw_lam wA ->
  (forall f, In f (pw_data wA) -> fsized f /\ (exists a b, ftilt f = [mk_tilt a b]) /\
     forall r c, inr n (r + n / 2) && inr m (c + m / 2) = false -> embed f r c = k0) ->
  (forall f, In f (pw_data wB) -> fsized f /\ ftilt f = []) ->
  (forall r c, embed_sum (pw_data wB) r c =
     lsum S (map (fun f => (embed f r c *
        ke (- (opd_ramp (fst (tilt_ab f)) (snd (tilt_ab f)) dxr dxc r c / pw_lam wA))%Qc)%K) (pw_data wA))) ->
  dur <> 0%Qc -> duc <> 0%Qc -> pw_lam wA <> 0%Qc -> z <> 0%Qc ->
  0 < n -> 0 < m ->
  match shape with None => (n, m) | Some s => s end = (Sr, Sc) ->
  match pshape with None => (Sr, Sc) | Some p => p end = (Pr, Pc) ->
  0 < Sr -> 0 < Sc -> 0 < Pr -> 0 < Pc -> 1 <= os ->
  let ar := ((dxr * dur) / (pw_lam wA * z * zq os))%Qc in
  let ac := ((dxc * duc) / (pw_lam wA * z * zq os))%Qc in
  let shr := fun f : field S => (z * fst (tilt_ab f) * zq os / dur)%Qc in
  let shc := fun f : field S => (- (z * snd (tilt_ab f) * zq os / duc))%Qc in
  let X := fun (f : field S) (i j : Z) =>
    (fourier_sum (mkArr n m (fun x y => embed f (x - n / 2) (y - m / 2))) ar ac 0 0
                 (zq (i - (Sr * os) / 2) - shr f)%Qc (zq (j - (Sc * os) / 2) - shc f)%Qc
     * sq (qabs (ar * ac)%Qc))%K in
  exists vA oA vB oB,
    propagate_pwf_tilted wA dur duc shape pshape os = Ok vA /\ wfield vA = Ok oA /\
    rbind (to_wavefront wB PtPupil) (fun w => propagate_dft sq (@no_shift S) w dur duc shape pshape os None) = Ok vB /\
    wfield vB = Ok oB /\
    nr oA = Sr * os /\ nc oA = Sc * os /\ nr oB = Sr * os /\ nc oB = Sc * os /\
    forall i j, 0 <= i < Sr * os -> 0 <= j < Sc * os ->
      let u := i - (Sr * os) / 2 in let v := j - (Sc * os) / 2 in
      get oA i j = lsum S (map (fun f =>
         if inE (array_extent (Pr * os) (Pc * os) (qfix (shr f)) (qfix (shc f))) u v then X f i j else k0) (pw_data wA)) /\
      get oB i j = (if inE (array_extent (Pr * os) (Pc * os) 0 0) u v then lsum S (map (fun f => X f i j) (pw_data wA)) else k0).
Proof.
  intros SA PA FA SB PB FB EL HA HB Hsum Hdur Hduc Hlam Hz Hn Hm Hshape Hpshape HSr HSc HPr HPc Hos ar ac shr shc X.
  assert (Hb : mask_bbox None (Sr * os) (Sc * os) = Ok (0, Sr * os - 1, 0, Sc * os - 1)) by reflexivity.
  assert (Hmk : forall k, @None bmask = Some k -> mnr k = Sr * os /\ mnc k = Sc * os) by discriminate.
  (* A *)
  set (w3 := mkWf (pw_lam wA) (pw_pix wA) (Some z) (n, m) PtPupil (pw_data wA)).
  assert (EA3 : to_wavefront wA PtPupil = Ok w3).
  { rewrite (to_wavefront_ok S wA n m PtPupil SA) by (rewrite FA; discriminate). now rewrite FA. }
  assert (HdA : forall f, In f (wdata w3) -> sized S f /\
     forall r c, inr n (r + n / 2) && inr m (c + m / 2) = false -> embed f r c = k0).
  { intros f Hf. destruct (HA f Hf) as (Hs & _ & Hsup). split; [now apply fsized_sized|exact Hsup]. }
  destruct (propagate_field_plane_samples (ang_shift (Some z) dur duc os) w3 dur duc shape pshape os None dxr dxc
              Sr Sc Pr Pc (0, Sr * os - 1, 0, Sc * os - 1) n m ltac:(discriminate) PA HdA Hn Hm Hshape Hpshape
              HSr HSc HPr HPc Hos Hmk Hb) as (vA & oA & EvA & _ & FoA & NA & MA & GA).
  (* B *)
  set (w4 := mkWf (pw_lam wB) (pw_pix wB) (Some z) (n, m) PtPupil (pw_data wB)).
  assert (EB4 : to_wavefront wB PtPupil = Ok w4).
  { rewrite (to_wavefront_ok S wB n m PtPupil SB) by (rewrite FB; discriminate). now rewrite FB. }
  assert (HdB : forall f, In f (wdata w4) -> @no_shift S f = (0%Qc, 0%Qc) /\ sized S f).
  { intros f Hf. split; [reflexivity|]. apply fsized_sized, (HB f Hf). }
  assert (HsupB : forall r c, inr n (r + n / 2) && inr m (c + m / 2) = false -> embed_sum (wdata w4) r c = k0).
  { intros r c E. cbn [wdata w4]. rewrite Hsum. apply (PlaneP.lsum_zero S Sring). intros x Hx.
    apply in_map_iff in Hx. destruct Hx as (f & <- & Hf). destruct (HA f Hf) as (_ & _ & Hsup). rewrite (Hsup r c E). ring. }
  destruct (propagate_plane_samples S Sring Skernel sq (@no_shift S) w4 dur duc shape pshape os None dxr dxc Sr Sc Pr Pc
              (0, Sr * os - 1, 0, Sc * os - 1) n m 0%Qc 0%Qc ltac:(discriminate) PB HdB Hn Hm HsupB Hshape Hpshape
              HSr HSc HPr HPc Hos Hmk Hb) as (vB & oB & EvB & _ & FoB & NB & MB & GB).
  exists vA, oA, vB, oB.
  split; [unfold propagate_pwf_tilted; rewrite EA3; cbn [rbind wfocal w3]; exact EvA|]. split; [exact FoA|].
  split; [rewrite EB4; cbn [rbind]; exact EvB|]. split; [exact FoB|]. repeat (split; [assumption|]).
  intros i j Hi Hj. cbv zeta.
  assert (Esh : forall f, In f (pw_data wA) -> ang_shift (Some z) dur duc os f = (shr f, shc f)).
  { intros f Hf. destruct (HA f Hf) as (_ & (a & b0 & Et) & _). unfold shr, shc. rewrite (tilt_ab_single f a b0 Et).
    now apply ang_shift_single. }
  split.
  - rewrite (GA i j Hi Hj). cbv zeta. cbn [wwl wfocal wdata w3 dft_alpha1]. fold ar ac.
    replace (inE (0, Sr * os - 1, 0, Sc * os - 1) i j) with true by (unfold inE, inb; lia). cbn [andb].
    apply (lsum_map_ext S). intros f Hf. rewrite (Esh f Hf). cbn [fst snd]. reflexivity.
  - rewrite (GB i j Hi Hj). cbv zeta. cbn [wwl wfocal wdata w4 dft_alpha1]. rewrite EL. fold ar ac.
    replace (inE (0, Sr * os - 1, 0, Sc * os - 1) i j) with true by (unfold inE, inb; lia). cbn [andb].
    rewrite qfix_0. destr_if; [|reflexivity]. unfold X. cbv beta.
    rewrite (PropagateP.lsum_map_scale S Sring). f_equal.
    replace (zq (i - Sr * os / 2) - 0)%Qc with (zq (i - Sr * os / 2)) by ring.
    replace (zq (j - Sc * os / 2) - 0)%Qc with (zq (j - Sc * os / 2)) by ring.
    rewrite (fourier_sum_ext S _ (mkArr n m (fun x y => lsum S (map (fun f =>
               (embed f (x - n / 2) (y - m / 2) *
                ke (- (opd_ramp (fst (tilt_ab f)) (snd (tilt_ab f)) dxr dxc (x - n / 2) (y - m / 2) / pw_lam wA))%Qc)%K)
               (pw_data wA))))) by (try reflexivity; intros x y _ _; cbn [get]; apply Hsum).
    rewrite fourier_sum_lsum. apply (lsum_map_ext S). intros f Hf.
    destruct (tilt_metadata_equals_ramp S Sring Skernel (mkArr n m (fun x y => embed f (x - n / 2) (y - m / 2)))
                (fst (tilt_ab f)) (snd (tilt_ab f)) dxr dxc dur duc (pw_lam wA) z (zq os)
                0 0 (zq (i - Sr * os / 2)) (zq (j - Sc * os / 2)) Hdur Hduc Hlam Hz ltac:(apply zq_neq0; lia))
      as (sr' & sc' & _ & -> & -> & E).
    cbn [nr nc get] in E. unfold Tilt.dft_alpha in E. fold ar ac in E. unfold shr, shc. rewrite <- E.
    apply (fourier_sum_ext S); [reflexivity|reflexivity|]. cbn [nr nc get]. intros x y Hx Hy.
    replace (x - n / 2 + 0) with (x - n / 2) by lia. replace (y - m / 2 + 0) with (y - m / 2) by lia. reflexivity.
Qed.

(* ------------------------------------------------------------------ a segmented pupil with one tilt per segment *)
Lemma take_every_short {A} K : forall (l : list A) i, (length l <= i)%nat -> take_every K i l = [].
Proof. induction l as [|x r IH]; intros i H; cbn [take_every]; [reflexivity|]. cbn [length] in H.
  destruct i as [|j]; [lia|]. apply IH. lia. Qed.
(* tilt[n::size] of a list with one entry per segment is the segment's own entry *)
Lemma take_every_nth {A} K : forall (l : list A) i d, (i < length l)%nat -> (length l <= K + i)%nat ->
  take_every K i l = [nth i l d].
Proof. induction l as [|x r IH]; intros i d H1 H2; cbn [length] in *; [lia|]. cbn [take_every].
  destruct i as [|j]; cbn [nth].
  - rewrite take_every_short by lia. reflexivity.
  - apply IH; lia. Qed.
Lemma take_every_match {A} K i (l : list A) : match l with [] => [] | t :: r => take_every K i (t :: r) end = take_every K i l.
Proof. destruct l; reflexivity. Qed.

Definition mkt (ab : Qc * Qc) : tilt := mk_tilt (fst ab) (snd ab).
(* what Plane.multiply leaves behind for segment (mask g, tilt (a, b)) of plane P hit by a fresh plane wave *)
Definition seg_field (P : plane S) lam n m (x : field S) (gab : garr bool * (Qc * Qc)) : Prop :=
  fsized x /\ ftilt x = [mkt (snd gab)] /\
  forall r c, embed x r c =
    (amp_at (pl_amp P) (r + n / 2) (c + m / 2) * Plane.phase lam (opd_at (pl_opd P) (r + n / 2) (c + m / 2))
     * kofb (mask_at (fst gab) (r + n / 2) (c + m / 2)))%K.

Lemma seg_phasors_from (P : plane S) lam n m (abs : list (Qc * Qc)) :
  attr_compat P n m -> pl_tilt P = map mkt abs -> psize (pl_mask P) = length abs ->
  forall ms sl, Forall2 (fun a s => pnr a = n /\ pnc a = m /\ slice_ok a s) ms sl ->
  forall pre abs' k, abs = pre ++ abs' -> length pre = k -> length ms = length abs' ->
  exists phs, phasors_from P lam n m k (map MK2 ms) sl = Ok phs /\
    Forall2 (seg_field P lam n m) phs (combine ms abs').
Proof.
  intros Hc Htl HK ms sl H. induction H as [|a s ms sl (En & Em & Hs) H IH]; intros pre abs' k Eabs Hk Hlen.
  - exists []. split; [reflexivity|]. destruct abs'; constructor.
  - destruct abs' as [|ab abs'']; [discriminate|]. cbn [map phasors_from combine]. subst n m.
    destruct (phasor_array_spec S Sring P lam k a s Hc Hs) as (p & Ep & Vp & Gp).
    destruct (IH (pre ++ [ab]) abs'' (Datatypes.S k)) as (phs & Ephs & Hall).
    { rewrite <- app_assoc. exact Eabs. } { rewrite app_length. cbn. lia. } { cbn in Hlen. lia. }
    rewrite Ep. cbn [rbind]. rewrite Ephs. cbn [rbind]. exists (p :: phs). split; [reflexivity|].
    constructor; [|exact Hall]. split; [exact Vp|]. split; [|exact Gp].
    rewrite (phasor_tilt _ _ _ _ _ _ _ _ Ep), take_every_match, Htl, HK.
    rewrite (take_every_nth (length abs) (map mkt abs) k (mkt ab)).
    + rewrite Eabs, map_app, app_nth2 by (rewrite map_length; lia). rewrite map_length, Hk, Nat.sub_diag. reflexivity.
    + rewrite map_length, Eabs, app_length. cbn. lia.
    + rewrite map_length. lia.
Qed.

Lemma fmul_fresh_some (p : field S) : fsized p ->
  exists x, fmul (mkField (D0 k1) 0 0 []) p = Some x /\ fsized x /\ ftilt x = ftilt p /\
    forall r c, embed x r c = embed p r c.
Proof.
  intros Vp. set (f0 := mkField (S := S) (D0 k1) 0 0 []).
  destruct (fmul f0 p) as [x|] eqn:E.
  - exists x. split; [reflexivity|]. split; [exact (fmul_sized S f0 p x I Vp E)|]. split; [exact (fmul_tilt f0 p x E)|].
    intros r c. destruct (fsized_not0d S p Vp) as [Vv Np].
    pose proof (fmul_embed S Sring f0 p r c I Vv ltac:(now rewrite Np, Bool.andb_false_r)) as G.
    rewrite E in G. cbn [embed_opt] in G. rewrite G. unfold embed_const. rewrite Np. cbn [f0 fd is0d dget]. ring.
  - exfalso. unfold fsized in Vp. destruct p as [[v|d] orp ocp tp]; cbn [fd] in Vp; [contradiction|].
    unfold fmul, mul_array, f0 in E. cbn [fd is0d andb same_shape negb dshape dget toarr offr offc ftilt fst snd] in E.
    unfold mul_core, aconst in E. cbn [nr nc] in E.
    destruct (intersect _ _) eqn:Ei.
    + destruct (intersection_slices _ _) as [[[? ?] [? ?]] [[? ?] [? ?]]]. destruct (intersection_shift _ _). discriminate.
    + unfold intersect, array_extent in Ei. lia.
Qed.

Lemma seg_fields_fresh (P : plane S) lam n m : forall phs L, Forall2 (seg_field P lam n m) phs L ->
  exists data, flat_map (fun p => keep (fmul (mkField (D0 k1) 0 0 []) p)) phs = data /\ Forall2 (seg_field P lam n m) data L.
Proof.
  intros phs L H. induction H as [|p gab phs L (Vp & Tp & Gp) H (data & Ed & Hd)].
  - exists []. split; [reflexivity|constructor].
  - destruct (fmul_fresh_some p Vp) as (x & Ex & Vx & Tx & Gx).
    exists (x :: data). split; [cbn [flat_map]; rewrite Ex, Ed; reflexivity|]. constructor; [|exact Hd].
    split; [exact Vx|]. split; [now rewrite Tx|]. intros r c. now rewrite Gx, Gp.
Qed.

Lemma slices_forall2 n m : forall (ms : list (garr bool)) sl, rmapM boundary_slice ms = Ok sl ->
  (forall a, In a ms -> pnr a = n /\ pnc a = m) ->
  Forall2 (fun a s => pnr a = n /\ pnc a = m /\ slice_ok a s) ms sl.
Proof.
  intros ms sl E. apply rmapM_Forall2 in E. induction E as [|a s ms' sl' Ea E IH]; intros Hin; [constructor|].
  constructor.
  - destruct (Hin a (or_introl eq_refl)). repeat split; try assumption. now apply boundary_slice_ok.
  - apply IH. intros; apply Hin; now right.
Qed.

(* Plane.multiply of a segmented pupil (cube of K masks, .tilt = one Tilt per segment) on a fresh plane wave: one array
   field per segment, carrying exactly that segment's tilt *)
Theorem segmented_multiply_fresh (P : plane S) (ms : list (garr bool)) (abs : list (Qc * Qc)) lam pix foc n m px :
  plane_ok P n m -> pl_mask P = PM3 n m ms -> pl_tilt P = map mkt abs -> length abs = length ms ->
  mul_pixelscale (pl_pix P) (pix_broadcast pix) = Ok px ->
  exists w1, plane_multiply P (pwf_init lam pix foc []) = Ok w1 /\
    pw_lam w1 = lam /\ pw_pix w1 = px /\ pw_shape w1 = Some (n, m) /\
    pw_focal w1 = (match pl_focal P with Some f => f | None => focal_truthy (pw_focal (pwf_init (S := S) lam pix foc [])) end) /\
    Forall2 (seg_field P lam n m) (pw_data w1) (combine ms abs).
Proof.
  intros Hok Em Htl Hlen Hpx.
  destruct (plane_multiply_spec S Sring P (pwf_init lam pix foc []) n m px Hok (fresh_valid S lam pix foc []) Hpx)
    as (w1 & E1 & L1 & P1 & S1 & F1 & _ & _).
  exists w1. repeat (split; [assumption|]).
  pose proof Hok as [Hd Hs Hl Ha]. rewrite Em in Hs, Hl. cbn [plane_slice masks_of] in Hs, Hl.
  pose proof (slices_forall2 n m ms (pl_slices P) Hs Hl) as F2.
  destruct (seg_phasors_from P lam n m abs Ha Htl ltac:(rewrite Em; cbn [psize]; lia) ms (pl_slices P) F2 [] abs 0%nat
              eq_refl eq_refl ltac:(lia)) as (phs & Ephs & Hphs).
  destruct (seg_fields_fresh P lam n m phs _ Hphs) as (data & Ed & Hdata).
  unfold plane_multiply in E1. cbn [pwf_init pw_pix pw_data pw_lam] in E1. rewrite Hpx in E1. cbn [rbind] in E1.
  unfold plane_phasors in E1. rewrite Em, Ephs in E1. cbn [rbind] in E1. injection E1 as <-. cbn [pw_data].
  unfold mul_fields. cbn [flat_map]. rewrite app_nil_r, Ed. exact Hdata.
Qed.

(* the OPD that holds every segment's ramp on that segment's own mask: sum_k [mask_k] (a_k X dx_r - b_k Y dx_c) at array
   index (i, j), (X, Y) = (i - floor(n/2), j - floor(m/2)) *)
Definition seg_ramp (L : list (garr bool * (Qc * Qc))) (dxr dxc : Qc) (n m i j : Z) : Qc :=
  fold_right (fun gab acc =>
    ((if mask_at (fst gab) i j then opd_ramp (fst (snd gab)) (snd (snd gab)) dxr dxc (i - n / 2) (j - m / 2) else 0) + acc)%Qc)
    0%Qc L.

Lemma seg_all_false (L : list (garr bool * (Qc * Qc))) dxr dxc n m i j lam (W : Qc) :
  (forall gab, In gab L -> mask_at (fst gab) i j = false) ->
  seg_ramp L dxr dxc n m i j = 0%Qc /\ @cover S (map fst L) i j = k0 /\
  lsum S (map (fun gab => (Plane.phase lam W * kofb (mask_at (fst gab) i j)
       * ke (- (opd_ramp (fst (snd gab)) (snd (snd gab)) dxr dxc (i - n / 2) (j - m / 2) / lam))%Qc)%K) L) = k0.
Proof.
  induction L as [|gab L IH]; intros H.
  - repeat split; reflexivity.
  - destruct IH as (I1 & I2 & I3); [intros; apply H; now right|].
    cbn [seg_ramp fold_right map cover]. fold (seg_ramp L dxr dxc n m i j). fold (@cover S (map fst L) i j).
    rewrite (PropagateP.lsum_cons S), I1, I2, I3, (H gab (or_introl eq_refl)). cbn [kofb].
    repeat split; ring.
Qed.

(* disjoint segment masks: the phasor of the summed ramps times the mask multiplicity is the sum over the segments of
   the segment's indicator times the phasor of its own ramp *)
Lemma seg_sum_identity (L : list (garr bool * (Qc * Qc))) dxr dxc n m i j lam (W : Qc) :
  disjoint_masks (map fst L) ->
  (Plane.phase lam (W + seg_ramp L dxr dxc n m i j)%Qc * cover (map fst L) i j)%K
  = lsum S (map (fun gab => (Plane.phase lam W * kofb (mask_at (fst gab) i j)
       * ke (- (opd_ramp (fst (snd gab)) (snd (snd gab)) dxr dxc (i - n / 2) (j - m / 2) / lam))%Qc)%K) L).
Proof.
  induction L as [|gab L IH]; intros Hd.
  - cbn [map cover fold_right]. unfold lsum. cbn [fold_right]. ring.
  - cbn [map] in Hd. inversion Hd as [|g0 l0 Hhd Htl]; subst.
    cbn [seg_ramp fold_right map cover]. fold (seg_ramp L dxr dxc n m i j). fold (@cover S (map fst L) i j).
    rewrite (PropagateP.lsum_cons S). destruct (mask_at (fst gab) i j) eqn:E.
    + assert (Hall : forall g, In g L -> mask_at (fst g) i j = false).
      { intros g Hg. rewrite Forall_forall in Hhd. specialize (Hhd (fst g) (in_map fst L g Hg) i j).
        rewrite E in Hhd. exact Hhd. }
      destruct (seg_all_false L dxr dxc n m i j lam W Hall) as (I1 & I2 & I3). rewrite I1, I2, I3. cbn [kofb].
      unfold Plane.phase.
      replace (- ((W + (opd_ramp (fst (snd gab)) (snd (snd gab)) dxr dxc (i - n / 2) (j - m / 2) + 0)) / lam))%Qc
        with (- (W / lam) + - (opd_ramp (fst (snd gab)) (snd (snd gab)) dxr dxc (i - n / 2) (j - m / 2) / lam))%Qc
        by (unfold Qcdiv; ring).
      rewrite (ke_add S Skernel). ring.
    + rewrite <- (IH Htl). cbn [kofb]. replace (W + (0 + seg_ramp L dxr dxc n m i j))%Qc with (W + seg_ramp L dxr dxc n m i j)%Qc by ring.
      ring.
Qed.

Lemma lsum_forall2 {A B} (R : A -> B -> Prop) (h : A -> S) (h' : B -> S) (l : list A) (L : list B) :
  Forall2 R l L -> (forall x y, In y L -> R x y -> h x = h' y) -> lsum S (map h l) = lsum S (map h' L).
Proof.
  intros H. induction H as [|x y l L Hxy H IH]; intros E; [reflexivity|]. cbn [map].
  rewrite !(PropagateP.lsum_cons S), (E x y (or_introl eq_refl) Hxy), IH; [reflexivity|].
  intros a b Hb. apply E. now right.
Qed.

Lemma Forall2_in_l {A B} (R : A -> B -> Prop) (l : list A) (L : list B) : Forall2 R l L ->
  forall x, In x l -> exists y, In y L /\ R x y.
Proof. intros H. induction H as [|a b l L Hab H IH]; intros x Hx; [destruct Hx|].
  destruct Hx as [<-|Hx]; [exists b; split; [now left|exact Hab]|].
  destruct (IH x Hx) as (y & Hy & Hr). exists y. split; [now right|exact Hr]. Qed.

Lemma combine_map_fst {A B} (a : list A) (b : list B) : length b = length a -> map fst (combine a b) = a.
Proof. revert b. induction a as [|x a IH]; intros [|y b] H; cbn in *; try reflexivity; try discriminate.
  f_equal. apply IH. lia. Qed.

Lemma in_combine_fst {A B} (a : list A) (b : list B) x : In x (combine a b) -> In (fst x) a.
Proof. destruct x as [u v]. apply in_combine_l. Qed.

(* the segmented pupil with every segment's ramp written into the OPD and no tilt metadata *)
Definition seg_ramp_plane (P : plane S) (L : list (garr bool * (Qc * Qc))) (dxr dxc : Qc) (n m : Z) : plane S :=
  mkPlane (pl_amp P) (OpdA (mkP n m (fun x y => (opd_at (pl_opd P) x y + seg_ramp L dxr dxc n m x y)%Qc)))
          (pl_mask P) (pl_slices P) (pl_pix P) [] (pl_focal P).

Lemma seg_ramp_plane_ok (P : plane S) L dxr dxc n m : plane_ok P n m -> plane_ok (seg_ramp_plane P L dxr dxc n m) n m.
Proof. intros [D Sl Ly [A O]]. constructor; cbn [seg_ramp_plane pl_mask pl_slices]; try assumption.
  split; [exact A|]. cbn [pl_opd pnr pnc]. split; reflexivity. Qed.

(* Chain_segmented_tilt (C03 o C04 o C07 o C02).
   A: Wavefront * segmented Pupil whose .tilt holds one Tilt(x=a_k, y=b_k) per segment (what fit_tilt leaves behind),
      propagated with Field.shift: every segment lands in its own window, moved by its own shift.
   B: the same pupil with every segment's ramp written into the OPD on that segment's mask, no metadata.
   Both rendered fields are built from the same per-segment terms X_k (the segment's transform at the sample's
   coordinate minus the segment's shift): A = sum_k [window_k] X_k, B = [window_0] sum_k X_k. *)
Theorem segmented_tilt_equals_ramps (P : plane S) (ms : list (garr bool)) (abs : list (Qc * Qc)) lam pix foc z dur duc
        shape pshape os dxr dxc n m Sr Sc Pr Pc :
  plane_ok P n m -> pl_mask P = PM3 n m ms -> disjoint_masks ms ->
  pl_tilt P = map (fun ab => TiltAng (snd ab) (fst ab)) abs -> length abs = length ms -> 0 < n -> 0 < m ->
  mul_pixelscale (pl_pix P) (pix_broadcast pix) = Ok (Some (dxr, dxc)) -> pl_focal P = Some (FVal z) ->
  dur <> 0%Qc -> duc <> 0%Qc -> lam <> 0%Qc -> z <> 0%Qc ->
  match shape with None => (n, m) | Some s => s end = (Sr, Sc) ->
  match pshape with None => (Sr, Sc) | Some p => p end = (Pr, Pc) ->
  0 < Sr -> 0 < Sc -> 0 < Pr -> 0 < Pc -> 1 <= os ->
  let w0 := pwf_init (S := S) lam pix foc [] in
  let L := combine ms abs in
  let Pramp := mkPlane (pl_amp P)
     (OpdA (mkP n m (fun x y => (opd_at (pl_opd P) x y +
        fold_right (fun gab acc =>
          ((if mask_at (fst gab) x y
            then fst (snd gab) * (zq (x - n / 2) * dxr) - snd (snd gab) * (zq (y - m / 2) * dxc) else 0) + acc)%Qc) 0%Qc L)%Qc)))
     (pl_mask P) (pl_slices P) (pl_pix P) [] (pl_focal P) in
  let ar := ((dxr * dur) / (lam * z * zq os))%Qc in
  let ac := ((dxc * duc) / (lam * z * zq os))%Qc in
  let shr := fun gab : garr bool * (Qc * Qc) => (z * fst (snd gab) * zq os / dur)%Qc in
  let shc := fun gab : garr bool * (Qc * Qc) => (- (z * snd (snd gab) * zq os / duc))%Qc in
  let X := fun (gab : garr bool * (Qc * Qc)) (i j : Z) =>
    (sumZ n (fun x => sumZ m (fun y =>
       (amp_at (pl_amp P) x y * kofb (pget (fst gab) x y) * ke (- (opd_at (pl_opd P) x y / lam))%Qc
        * ke (ar * zq (x - n / 2) * (zq (i - (Sr * os) / 2) - shr gab)
              + ac * zq (y - m / 2) * (zq (j - (Sc * os) / 2) - shc gab))%Qc)%K))
     * sq (qabs (ar * ac)%Qc))%K in
  exists vA oA vB oB,
    chain_propagate_tilted sq [P] w0 dur duc shape pshape os = Ok vA /\ wfield vA = Ok oA /\
    chain_propagate sq [Pramp] w0 dur duc shape pshape os = Ok vB /\ wfield vB = Ok oB /\
    nr oA = Sr * os /\ nc oA = Sc * os /\ nr oB = Sr * os /\ nc oB = Sc * os /\
    forall i j, 0 <= i < Sr * os -> 0 <= j < Sc * os ->
      let u := i - (Sr * os) / 2 in let v := j - (Sc * os) / 2 in
      get oA i j = fold_right (fun gab acc =>
         ((if inE (array_extent (Pr * os) (Pc * os) (qfix (shr gab)) (qfix (shc gab))) u v then X gab i j else k0) + acc)%K) k0 L /\
      get oB i j = (if inE (array_extent (Pr * os) (Pc * os) 0 0) u v
                    then fold_right (fun gab acc => (X gab i j + acc)%K) k0 L else k0).
Proof.
  intros Hok Em Hdis Htl Hlen Hn Hm Hpx Hfo Hdur Hduc Hlam Hz Hshape Hpshape HSr HSc HPr HPc Hos
         w0 L Pramp ar ac shr shc X.
  assert (Htl' : pl_tilt P = map mkt abs) by exact Htl.
  change Pramp with (seg_ramp_plane P L dxr dxc n m).
  assert (EmsL : map fst L = ms) by (apply combine_map_fst; exact Hlen).
  (* A *)
  destruct (segmented_multiply_fresh P ms abs lam pix foc n m (Some (dxr, dxc)) Hok Em Htl' Hlen Hpx)
    as (wA & EA & LA & PA & SA & FA & HA). rewrite Hfo in FA. fold L in HA.
  (* B *)
  pose proof (seg_ramp_plane_ok P L dxr dxc n m Hok) as HokB.
  destruct (plane_multiply_spec S Sring (seg_ramp_plane P L dxr dxc n m) w0 n m (Some (dxr, dxc)) HokB
              (fresh_valid S lam pix foc []) Hpx) as (wB & EB & LB & PB & SB & FB & ZB & GB).
  cbn [seg_ramp_plane pl_focal] in FB. rewrite Hfo in FB. change (pw_lam w0) with lam in LB, GB.
  assert (TB : forall f, In f (pw_data wB) -> fsized f /\ ftilt f = []).
  { intros f Hf. split; [now apply ZB|].
    destruct (plane_multiply_untilted (seg_ramp_plane P L dxr dxc n m) w0 wB eq_refl EB f Hf) as (g0 & [<-|[]] & ->). reflexivity. }
  assert (Hlayer : forall gab, In gab L -> pnr (fst gab) = n /\ pnc (fst gab) = m).
  { intros gab Hg. apply (ok_layers S P n m Hok). rewrite Em. cbn [masks_of]. now apply (in_combine_fst ms abs). }
  assert (HA' : forall f, In f (pw_data wA) -> fsized f /\ (exists a b, ftilt f = [mk_tilt a b]) /\
     forall r c, inr n (r + n / 2) && inr m (c + m / 2) = false -> embed f r c = k0).
  { intros f Hf. destruct (Forall2_in_l _ _ _ HA f Hf) as (gab & Hg & (Vf & Tf & Gf)). split; [exact Vf|]. split.
    - exists (fst (snd gab)), (snd (snd gab)). exact Tf.
    - intros r c E. rewrite Gf. destruct (Hlayer gab Hg) as [E1 E2]. unfold mask_at. rewrite E1, E2, E. cbn [andb kofb]. ring. }
  assert (Hsum : forall r c, embed_sum (pw_data wB) r c =
     lsum S (map (fun f => (embed f r c *
        ke (- (opd_ramp (fst (tilt_ab f)) (snd (tilt_ab f)) dxr dxc r c / pw_lam wA))%Qc)%K) (pw_data wA))).
  { intros r c. rewrite GB. unfold w0. rewrite (ec_sum_fresh S Sring). rewrite LA.
    rewrite (lsum_forall2 (seg_field P lam n m)
               (fun f => (embed f r c * ke (- (opd_ramp (fst (tilt_ab f)) (snd (tilt_ab f)) dxr dxc r c / lam))%Qc)%K)
               (fun gab => (amp_at (pl_amp P) (r + n / 2) (c + m / 2) *
                  (Plane.phase lam (opd_at (pl_opd P) (r + n / 2) (c + m / 2)) * kofb (mask_at (fst gab) (r + n / 2) (c + m / 2))
                   * ke (- (opd_ramp (fst (snd gab)) (snd (snd gab)) dxr dxc (r + n / 2 - n / 2) (c + m / 2 - m / 2) / lam))%Qc))%K)
               _ _ HA).
    2:{ intros x gab _ (Vx & Tx & Gx). rewrite Gx, (tilt_ab_single x _ _ Tx). cbn [fst snd].
        replace (r + n / 2 - n / 2) with r by lia. replace (c + m / 2 - m / 2) with c by lia. ring. }
    rewrite <- (map_map (fun gab => (Plane.phase lam (opd_at (pl_opd P) (r + n / 2) (c + m / 2)) * kofb (mask_at (fst gab) (r + n / 2) (c + m / 2))
                   * ke (- (opd_ramp (fst (snd gab)) (snd (snd gab)) dxr dxc (r + n / 2 - n / 2) (c + m / 2 - m / 2) / lam))%Qc)%K)
                 (fun t => (amp_at (pl_amp P) (r + n / 2) (c + m / 2) * t)%K)).
    rewrite (PlaneP.lsum_scale_l S Sring).
    rewrite <- (seg_sum_identity L dxr dxc n m (r + n / 2) (c + m / 2) lam) by (rewrite EmsL; exact Hdis).
    unfold transmission. cbn [seg_ramp_plane pl_amp pl_opd pl_mask opd_at pget]. rewrite Em. cbn [masks_of]. rewrite EmsL. ring. }
  destruct (segmented_tilt_fields wA wB z dur duc shape pshape os dxr dxc n m Sr Sc Pr Pc
              SA PA FA SB PB FB ltac:(congruence) HA' TB Hsum Hdur Hduc ltac:(now rewrite LA) Hz Hn Hm Hshape Hpshape
              HSr HSc HPr HPc Hos) as (vA & oA & vB & oB & EvA & FoA & EvB & FoB & NA & MA & NB & MB & G).
  exists vA, oA, vB, oB.
  split. { unfold chain_propagate_tilted, w0. cbn [chain_multiply]. rewrite EA. cbn [rbind]. exact EvA. }
  split; [exact FoA|].
  split. { unfold chain_propagate. cbn [chain_multiply]. rewrite EB. cbn [rbind]. exact EvB. }
  split; [exact FoB|]. repeat (split; [assumption|]).
  intros i j Hi Hj. cbv zeta. destruct (G i j Hi Hj) as [GA GBB]. cbv zeta in GA, GBB. rewrite LA in GA, GBB.
  fold ar ac in GA, GBB.
  (* the per-field terms are the per-segment terms *)
  assert (EX : forall x gab, In gab L -> seg_field P lam n m x gab ->
     (fourier_sum (mkArr n m (fun a b => embed x (a - n / 2) (b - m / 2))) ar ac 0 0
        (zq (i - Sr * os / 2) - z * fst (tilt_ab x) * zq os / dur)%Qc
        (zq (j - Sc * os / 2) - - (z * snd (tilt_ab x) * zq os / duc))%Qc * sq (qabs (ar * ac)%Qc))%K = X gab i j
     /\ tilt_ab x = snd gab).
  { intros x gab Hg (Vx & Tx & Gx). pose proof (tilt_ab_single x _ _ Tx) as Et. split; [|rewrite Et; now destruct (snd gab)].
    rewrite Et. cbn [fst snd]. unfold X, shr, shc. f_equal. rewrite fourier_sum_image_sumQ. unfold image_sumQ.
    apply sumZ_ext; intros a Ha. apply sumZ_ext; intros b Hb. f_equal. rewrite Gx.
    replace (a - n / 2 + n / 2) with a by lia. replace (b - m / 2 + m / 2) with b by lia.
    destruct (Hlayer gab Hg) as [E1 E2]. unfold mask_at. rewrite E1, E2.
    replace (inr n a) with true by (unfold inr; lia). replace (inr m b) with true by (unfold inr; lia).
    cbn [andb]. unfold Plane.phase. ring. }
  split.
  - rewrite GA. rewrite <- (lsum_map_fold S).
    apply (lsum_forall2 (seg_field P lam n m) _ _ _ _ HA). intros x gab Hg Hx.
    destruct (EX x gab Hg Hx) as [E1 E2]. unfold shr, shc. rewrite <- E2. rewrite E1. reflexivity.
  - rewrite GBB. destr_if; [|reflexivity]. rewrite <- (lsum_map_fold S).
    apply (lsum_forall2 (seg_field P lam n m) _ _ _ _ HA). intros x gab Hg Hx. exact (proj1 (EX x gab Hg Hx)).
Qed.
End ChainTilt.
