(* Entry points, refusal paths and early returns of the tilt code (C04, deepen work item):
   Field.shift and Wavefront(tilt=) refusals, self.tilt[n::size] as an index map, the propagate_fft guard,
   DispersiveTilt's constructor, fit_tilt's entry, and completeness of the validated 3x3 solver. *)
From Coq Require Import Permutation Field.
From LV Require Import Model.Tilt Proofs.TiltP.

Local Open Scope Qc_scope.

(* ------------------------------------------------------------------------------------------ *)
(** * Field.shift: exactly which calls are refused *)

Theorem field_shift_refusals tl z wl ps os ix :
  (forall e, field_shift tl z wl ps os ix = Err e -> e = ValueError /\ (ix = BadIndexing \/ ps = None))
  /\ ((ix = BadIndexing \/ ps = None) -> field_shift tl z wl ps os ix = Err ValueError)
  /\ (ix <> BadIndexing -> forall pr pc, ps = Some (pr, pc) -> exists s, field_shift tl z wl ps os ix = Ok s).
Proof.
  unfold field_shift. split; [|split].
  - intros e. destruct ix, ps as [[pr pc]|]; intros H; try discriminate; injection H as <-; auto.
  - intros [Hx|Hx]; subst; [reflexivity|destruct ix; reflexivity].
  - intros Hi pr pc ->. destruct ix; try congruence; eexists; reflexivity.
Qed.

(* ------------------------------------------------------------------------------------------ *)
(** * Wavefront(tilt=...) *)

Theorem wavefront_tilt_spec (t : option (list Qc)) :
  match t with
  | None => wavefront_tilt t = Ok []
  | Some l => (length l = 2%nat -> exists rx ry, l = [rx; ry] /\ wavefront_tilt t = Ok [mk_tilt rx ry])
              /\ (length l <> 2%nat -> wavefront_tilt t = Err ValueError)
  end.
Proof.
  destruct t as [l|]; [|reflexivity]. split.
  - destruct l as [|a [|b [|c r]]]; cbn; intros H; try discriminate. now exists a, b.
  - destruct l as [|a [|b [|c r]]]; cbn; intros H; try reflexivity. congruence.
Qed.

(* ------------------------------------------------------------------------------------------ *)
(** * self.tilt[n::self.size] for any list: entry k of the slice is entry n + k*size of the list *)

Theorem stride_spec {A} (size : nat) : (1 <= size)%nat ->
  forall (l : list A) (n k : nat), nth_error (stride n size l) k = nth_error l (n + k * size).
Proof.
  intros Hs. unfold stride. induction l as [|x r IH]; intros n k.
  - cbn. destruct k, (n + _)%nat; reflexivity.
  - destruct n as [|n'].
    + cbn [stride_go]. destruct k as [|k'].
      * reflexivity.
      * cbn [nth_error]. rewrite IH. replace (0 + Datatypes.S k' * size)%nat with (Datatypes.S (size - 1 + k' * size)) by (cbn; lia).
        reflexivity.
    + cbn [stride_go]. rewrite IH. reflexivity.
Qed.
Corollary stride_length_le {A} size n (l : list A) : (1 <= size)%nat -> (length (stride n size l) <= length l)%nat.
Proof.
  intros Hs. destruct (Nat.le_gt_cases (length (stride n size l)) (length l)) as [H|H]; [exact H|].
  exfalso. assert (Hn : nth_error (stride n size l) (length l) <> None) by (apply nth_error_Some; lia).
  rewrite (stride_spec size Hs) in Hn. apply Hn. apply nth_error_None. nia.
Qed.

(* ------------------------------------------------------------------------------------------ *)
(** * propagate_fft refuses exactly the wavefronts that carry tilt bookkeeping *)

Lemma has_tilt_spec fields : has_tilt fields = true <-> exists tl, In tl fields /\ tl <> [].
Proof.
  unfold has_tilt. rewrite existsb_exists. split; intros (tl & Hin & H); exists tl; split; try assumption.
  - destruct tl; [discriminate|congruence].
  - destruct tl; [congruence|reflexivity].
Qed.

Theorem fft_guard_spec fields :
  (fft_guard fields = Err NotImplementedErr <-> exists tl, In tl fields /\ tl <> [])
  /\ (fft_guard fields = Ok tt <-> forall tl, In tl fields -> tl = []).
Proof.
  unfold fft_guard. destruct (has_tilt fields) eqn:E; split; split; intros H; try reflexivity; try discriminate.
  - now apply has_tilt_spec.
  - exfalso. apply has_tilt_spec in E as (tl & Hin & Hne). now apply Hne, H.
  - exfalso. apply has_tilt_spec in H. congruence.
  - intros tl Hin. destruct tl as [|t r]; [reflexivity|]. exfalso.
    assert (has_tilt fields = true) by (apply has_tilt_spec; exists (t :: r); split; [assumption|discriminate]). congruence.
Qed.

(* for a chain  Tilt planes, one masked plane with [size] segments, Tilt planes  behind a wavefront with own tilt list w0:
   refused iff some segment's field ends up with a non-empty list *)
Theorem fft_guard_chain w0 pre size pt post :
  fft_guard (chain_tilts w0 (map CTilt pre ++ CPlane size pt :: map CTilt post)) = Err NotImplementedErr
  <-> exists n, (n < size)%nat /\ ((w0 ++ pre) ++ stride n size pt) ++ post <> [].
Proof.
  rewrite (proj1 (fft_guard_spec _)), chain_tilts_shape. split.
  - intros (tl & Hin & Hne). apply in_map_iff in Hin as (n & <- & Hn). apply in_seq in Hn. exists n. split; [lia|assumption].
  - intros (n & Hn & Hne). eexists. split; [|exact Hne]. apply in_map_iff. exists n. split; [reflexivity|]. apply in_seq. lia.
Qed.
(* consequences: a wavefront tilt, or any Tilt plane, or a fitted plane makes every chain with at least one segment refused;
   a chain without any of them is accepted *)
Corollary fft_guard_any_tilt w0 pre size pt post :
  (0 < size)%nat -> w0 ++ pre ++ post <> [] ->
  fft_guard (chain_tilts w0 (map CTilt pre ++ CPlane size pt :: map CTilt post)) = Err NotImplementedErr.
Proof.
  intros Hs Hne. apply fft_guard_chain. exists 0%nat. split; [assumption|]. intros E. apply Hne.
  apply app_eq_nil in E as [E1 E2]. apply app_eq_nil in E1 as [E1 E3]. apply app_eq_nil in E1 as [E0 E1].
  now rewrite E0, E1, E2.
Qed.
Corollary fft_guard_untilted size :
  fft_guard (chain_tilts [] (map CTilt [] ++ CPlane size [] :: map CTilt [])) = Ok tt.
Proof.
  apply fft_guard_spec. intros tl Hin. rewrite chain_tilts_shape in Hin. apply in_map_iff in Hin as (n & <- & _).
  destruct size, n; reflexivity.
Qed.

(* ------------------------------------------------------------------------------------------ *)
(** * DispersiveTilt's constructor *)

Theorem mk_disp_spec trace disp root :
  (mk_disp trace disp root = DispRefused <-> (length trace < 2)%nat \/ (length disp < 2)%nat)
  /\ (forall t, mk_disp trace disp root = DispFirst t <->
        exists t0 t1 d0 d1, trace = [t0; t1] /\ disp = [d0; d1] /\ t = TiltDisp t0 t1 d0 d1 root)
  /\ (mk_disp trace disp root = DispHigher <->
        (2 <= length trace)%nat /\ (2 <= length disp)%nat /\ (2 < length trace \/ 2 < length disp)%nat).
Proof.
  unfold mk_disp. split; [|split].
  - destruct trace as [|a [|b [|c tr]]]; destruct disp as [|d [|e [|f dr]]]; cbn [length Nat.ltb Nat.leb orb];
      (split; [intros H; try discriminate; cbn; lia | intros [H|H]; cbn in H; try lia; reflexivity]).
  - intros t. destruct trace as [|a [|b [|c tr]]]; destruct disp as [|d [|e [|f dr]]]; cbn [length Nat.ltb Nat.leb orb];
      (split; [intros H; try discriminate | intros (t0 & t1 & d0 & d1 & H1 & H2 & H3); try discriminate]).
    + injection H as <-. now exists a, b, d, e.
    + injection H1 as <- <-. injection H2 as <- <-. now subst.
  - destruct trace as [|a [|b [|c tr]]]; destruct disp as [|d [|e [|f dr]]]; cbn [length Nat.ltb Nat.leb orb];
      (split; [intros H; try discriminate; cbn; lia | intros (H1 & H2 & H3); cbn in H1, H2, H3; try lia; reflexivity]).
Qed.

(* ------------------------------------------------------------------------------------------ *)
(** * the validated Cramer solver never fails its own validation: it refuses exactly the singular systems *)

Lemma qeqb_refl a : qeqb a a = true.
Proof. unfold qeqb. apply Qeq_bool_iff. reflexivity. Qed.
Lemma qeqb_true_iff a b : qeqb a b = true <-> a = b.
Proof. split; [apply qeqb_eq|intros ->; apply qeqb_refl]. Qed.

Theorem solve3_complete (G : Z -> Z -> Qc) (r : Z -> Qc) :
  let D := det3 (G 0 0)%Z (G 0 1)%Z (G 0 2)%Z (G 1 0)%Z (G 1 1)%Z (G 1 2)%Z (G 2 0)%Z (G 2 1)%Z (G 2 2)%Z in
  (D = 0 -> solve3 G r = Err ValueError)
  /\ (D <> 0 -> exists t, solve3 G r = Ok t).
Proof.
  intros D. unfold solve3. cbv zeta. fold D. split.
  - intros ->. now rewrite qeqb_refl.
  - intros HD. destruct (qeqb D 0) eqn:E; [apply qeqb_eq in E; contradiction|].
    match goal with |- exists t, (if ?c then _ else _) = _ => assert (Hc : c = true) end.
    { rewrite !andb_true_iff, !qeqb_true_iff. unfold D in *. unfold det3 in *. repeat split; field; exact HD. }
    rewrite Hc. eexists. reflexivity.
Qed.

(* ------------------------------------------------------------------------------------------ *)
(** * the entry of fit_tilt *)

Theorem fit_tilt_call_spec (k : pkind) (has_mask inplace : bool) (p : qplane) :
  (* Image planes and planes without a 2-d mask come back untouched, whatever their pixelscale or OPD *)
  (k = KImage \/ has_mask = false -> fit_tilt_call k has_mask inplace p = Ok (p, p))
  /\ (k <> KImage -> has_mask = true ->
      (* no pixelscale: refused *)
      (qp_ps p = None -> fit_tilt_call k has_mask inplace p = Err ValueError)
      (* an OPD of size 1: handed back as is *)
      /\ (qp_ps p <> None -> qp_opd p = None -> fit_tilt_call k has_mask inplace p = Ok (p, p))
      (* otherwise the fit; without inplace the receiver keeps its OPD and tilt list, with inplace it is the result *)
      /\ (forall q r, fit_tilt_call k has_mask inplace p = Ok (q, r) ->
            fit_tilt p = Ok q /\ r = (if inplace then q else p))
      /\ (forall e, fit_tilt_call k has_mask inplace p = Err e -> fit_tilt p = Err e)).
Proof.
  split.
  - intros [->| ->]; [reflexivity|]. destruct k; reflexivity.
  - intros Hk ->. unfold fit_tilt_call.
    assert (E : match k with KImage => Ok (p, p) | _ => if negb true then Ok (p, p)
                  else rbind (fit_tilt p) (fun q => Ok (q, if inplace then q else p)) end
                = rbind (fit_tilt p) (fun q => Ok (q, if inplace then q else p))) by (destruct k; [reflexivity|reflexivity|exfalso; apply Hk; reflexivity]).
    rewrite E. clear E. split; [|split; [|split]].
    + intros E. unfold fit_tilt. now rewrite E.
    + intros E1 E2. unfold fit_tilt. destruct (qp_ps p) as [[a b]|]; [|congruence]. rewrite E2. cbn [rbind]. destruct inplace; reflexivity.
    + intros q r H. destruct (fit_tilt p) as [q'|e]; cbn [rbind] in H; [|discriminate]. injection H as <- <-. now split.
    + intros e H. destruct (fit_tilt p) as [q'|e']; cbn [rbind] in H; [discriminate|]. now injection H as <-.
Qed.

(* the only way the executable fit fails is ValueError: a missing pixelscale (the code's own refusal) or a singular
   (rank-deficient) masked basis, where numpy's lstsq returns the minimum-norm solution instead - the one place where
   the model's domain is smaller than the code's *)
Lemma solve3_errors G r e : solve3 G r = Err e -> e = ValueError.
Proof.
  intros H. destruct (solve3_complete G r) as [H0 H1]. cbv zeta in H0, H1.
  destruct (Qc_eq_dec (det3 (G 0 0)%Z (G 0 1)%Z (G 0 2)%Z (G 1 0)%Z (G 1 1)%Z (G 1 2)%Z (G 2 0)%Z (G 2 1)%Z (G 2 2)%Z) 0) as [E|E].
  - rewrite (H0 E) in H. now injection H as <-.
  - destruct (H1 E) as [t Ht]. congruence.
Qed.
Lemma lstsq_all_errors dxr dxc masks opd e : lstsq_all dxr dxc masks opd = Err e -> e = ValueError.
Proof.
  induction masks as [|mk r IH]; cbn [lstsq_all]; [discriminate|].
  destruct (lstsq3 dxr dxc mk opd) as [t|e1] eqn:E1; cbn [rbind].
  - destruct (lstsq_all dxr dxc r opd) as [ts|e2]; cbn [rbind]; [discriminate|]. intros H; injection H as <-. now apply IH.
  - intros H; injection H as <-. unfold lstsq3 in E1. now apply solve3_errors in E1.
Qed.
Theorem fit_tilt_errors p e : fit_tilt p = Err e -> e = ValueError.
Proof.
  unfold fit_tilt. destruct (qp_ps p) as [[dxr dxc]|]; [|intros H; now injection H as <-].
  destruct (qp_opd p) as [opd|]; [|discriminate].
  destruct (qp_masks p) as [|mk [|mk2 r]].
  - cbn [lstsq_all rbind]. discriminate.
  - destruct (lstsq3 dxr dxc mk opd) as [t|e1] eqn:E1; cbn [rbind]; [discriminate|].
    intros H; injection H as <-. unfold lstsq3 in E1. now apply solve3_errors in E1.
  - destruct (lstsq_all dxr dxc (mk :: mk2 :: r) opd) as [ts|e1] eqn:E1; cbn [rbind]; [discriminate|].
    intros H; injection H as <-. now apply lstsq_all_errors in E1.
Qed.

(* ------------------------------------------------------------------------------------------ *)
(** * concrete instances (non-vacuity) *)
Definition q (n : Z) : Qc := zq n.
Lemma ex_field_shift_refused :
  field_shift [mk_tilt (q 1) (q 2)] (q 8) (q 1) None (q 2) IJ = Err ValueError
  /\ field_shift [mk_tilt (q 1) (q 2)] (q 8) (q 1) (Some (q 1, q 2)) (q 2) BadIndexing = Err ValueError
  /\ field_shift [mk_tilt (q 1) (q 2)] (q 8) (q 1) (Some (q 1, q 2)) (q 2) IJ = Ok (q 16, q (-16)).
Proof. split; [reflexivity|split; [reflexivity|]]. rewrite field_shift_single. f_equal. all: try (f_equal; apply Qc_is_canon; reflexivity). Qed.
Lemma ex_wavefront_tilt :
  wavefront_tilt (Some [q 1]) = Err ValueError /\ wavefront_tilt (Some [q 1; q 2]) = Ok [TiltAng (q 2) (q 1)].
Proof. split; reflexivity. Qed.
Lemma ex_stride : stride 1 2 [10; 11; 12; 13; 14]%Z = [11; 13]%Z /\ stride 0 3 [10; 11; 12; 13; 14]%Z = [10; 13]%Z.
Proof. split; reflexivity. Qed.
Lemma ex_fft_guard :
  fft_guard (chain_tilts [] (map CTilt [] ++ CPlane 2 [] :: map CTilt [mk_tilt (q 0) (q 0)])) = Err NotImplementedErr
  /\ fft_guard (chain_tilts [] (map CTilt [] ++ CPlane 2 [] :: map CTilt [])) = Ok tt.
Proof. split; reflexivity. Qed.
Lemma ex_mk_disp :
  mk_disp [q 1] [q 1; q 2] (q 1) = DispRefused
  /\ mk_disp [q 0; q 1] [q 1; q 2] (q 1) = DispFirst (TiltDisp (q 0) (q 1) (q 1) (q 2) (q 1))
  /\ mk_disp [q 1; q 0; q 1] [q 1; q 2] (q 1) = DispHigher.
Proof. repeat split; reflexivity. Qed.
Lemma ex_solve3 :
  solve3 (fun i j => if (i =? j)%Z then q 2 else q 0) (fun i => q (2 * i)) = Ok (q 0, q 1, q 2)
  /\ solve3 (fun i j => q 1) (fun i => q 1) = Err ValueError.
Proof. split; [|reflexivity]. vm_compute. f_equal. all: try (f_equal; [f_equal|]; apply Qc_is_canon; reflexivity). Qed.
Definition ex_plane : qplane :=
  mkQPlane (Some (q 1, q 1)) [mkArr (S := QS) 2 2 (fun _ _ => q 1)]
           (Some (mkArr (S := QS) 2 2 (fun i j => zq (3 * i - j)))) [].
Lemma ex_fit_tilt_call :
  fit_tilt_call KImage true false ex_plane = Ok (ex_plane, ex_plane)
  /\ (exists p', fit_tilt_call KPupil true false ex_plane = Ok (p', ex_plane) /\ qp_tilt p' = [mk_tilt (q 3) (q 1)])
  /\ fit_tilt_call KPupil true false (mkQPlane None (qp_masks ex_plane) (qp_opd ex_plane) []) = Err ValueError.
Proof.
  split; [reflexivity|]. split; [|reflexivity].
  unfold fit_tilt_call. cbn [negb]. destruct (fit_tilt ex_plane) as [p'|e] eqn:E.
  - exists p'. cbn [rbind]. split; [reflexivity|].
    revert E. vm_compute. intros E. injection E as <-. cbn [qp_tilt]. f_equal. all: try (f_equal; apply Qc_is_canon; reflexivity).
  - exfalso. revert E. vm_compute. discriminate.
Qed.
