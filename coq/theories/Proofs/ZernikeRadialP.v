(* C11: radial polynomials R_n^m - bounded checks in exact rational arithmetic (kernel evaluation,
   about 11 s; kept in its own file). *)
From LV Require Import Model.Zernike Proofs.ZernikeP.

(* the code's factorial quotient is the integer (-1)^k C(n-k,k) C(n-2k,(n-m)/2-k) *)
Definition coef_ok (n m : Z) : bool :=
  forallb (fun k => Qc_eq_bool (rcoef m n k) (zQ (rcoef_binom m n k))) (zrange ((n - m) / 2 + 1)).
Lemma coef_checked : all_nm 41 coef_ok = true.
Proof. vm_cast_no_check (eq_refl true). Qed.
Theorem radial_is_textbook n m k : 0 <= m <= n -> n <= 40 -> Z.even (n - m) = true -> 0 <= k <= (n - m) / 2 ->
  rcoef m n k = zQ (rcoef_binom m n k).
Proof.
  intros Hm Hn He Hk. pose proof (all_nm_sound _ _ coef_checked n m Hm ltac:(lia) He) as H.
  unfold coef_ok in H. apply Qc_eq_bool_correct. apply (forallb_zrange _ _ H k). lia.
Qed.

(* R_n^m(1) = 1 *)
Definition at_one_ok (n m : Z) : bool := Qc_eq_bool (radial m n 1%Qc) 1%Qc && Qc_eq_bool (radial (- m) n 1%Qc) 1%Qc.
Lemma at_one_checked : all_nm 41 at_one_ok = true.
Proof. vm_cast_no_check (eq_refl true). Qed.
Theorem radial_at_one m n : Z.abs m <= n -> n <= 40 -> Z.even (n - Z.abs m) = true -> radial m n 1%Qc = 1%Qc.
Proof.
  intros Hm Hn He. pose proof (all_nm_sound _ _ at_one_checked n (Z.abs m) ltac:(lia) ltac:(lia) He) as H.
  unfold at_one_ok in H. apply andb_true_iff in H. destruct H as [H1 H2].
  destruct (Z_le_gt_dec 0 m).
  - rewrite Z.abs_eq in H1 by lia. apply Qc_eq_bool_correct. exact H1.
  - rewrite Z.abs_neq in H2 by lia. rewrite Z.opp_involutive in H2. apply Qc_eq_bool_correct. exact H2.
Qed.

(* radial orthogonality with weight rho on [0,1], the integral taken by the power rule *)
Definition orth_ok (N : Z) (n m : Z) : bool :=
  forallb (fun n' => negb (valid_nm n' m) ||
     Qc_eq_bool (pinner (radial_terms m n) (radial_terms m n'))
                (if n =? n' then (1 / zQ (2 * (n + 1)))%Qc else 0%Qc)) (zrange N).
Lemma orth_checked : all_nm 21 (orth_ok 21) = true.
Proof. vm_cast_no_check (eq_refl true). Qed.
Theorem radial_orthogonality m n n' : 0 <= m -> m <= n <= 20 -> m <= n' <= 20 ->
  Z.even (n - m) = true -> Z.even (n' - m) = true ->
  pinner (radial_terms m n) (radial_terms m n') = if n =? n' then (1 / zQ (2 * (n + 1)))%Qc else 0%Qc.
Proof.
  intros Hm Hn Hn' He He'. pose proof (all_nm_sound _ _ orth_checked n m ltac:(lia) ltac:(lia) He) as H.
  unfold orth_ok in H. pose proof (forallb_zrange _ _ H n' ltac:(lia)) as H1. cbv beta in H1.
  unfold valid_nm in H1. rewrite He' in H1. replace ((0 <=? m) && (m <=? n')) with true in H1 by lia.
  apply Qc_eq_bool_correct. exact H1.
Qed.
