(* C11: radial polynomials R_n^m - bounded checks in exact rational arithmetic (kernel evaluation,
   about 25 s; kept in its own file). *)
From LV Require Import Model.Zernike Proofs.ZernikeP.

(* the code's factorial quotient is the integer (-1)^k C(n-k,k) C(n-2k,(n-m)/2-k) *)
Definition coef_ok (n m : Z) : bool :=
  forallb (fun k => Qc_eq_bool (rcoef m n k) (zQ (rcoef_binom m n k))) (zrange ((n - m) / 2 + 1)).
Lemma coef_checked : all_nm 41 coef_ok = true.
Proof. vm_cast_no_check (eq_refl true). Qed.
Theorem radial_is_textbook n m k : 0 <= m <= n -> n <= 40 -> Z.even (n - m) = true -> 0 <= k <= (n - m) / 2 ->
  rcoef m n k = zQ (rcoef_binom m n k).
Proof.
  intros Hm Hn He Hk. pose proof (all_nm_sound _ _ coef_checked n m Hm ltac:(lia) He) as H.
  unfold coef_ok in H. apply Qc_eq_bool_correct. apply (forallb_zrange _ _ H k). lia.
Qed.

(* R_n^m(1) = 1 *)
Definition at_one_ok (n m : Z) : bool := Qc_eq_bool (radial m n 1%Qc) 1%Qc && Qc_eq_bool (radial (- m) n 1%Qc) 1%Qc.
Lemma at_one_checked : all_nm 41 at_one_ok = true.
Proof. vm_cast_no_check (eq_refl true). Qed.
Theorem radial_at_one m n : Z.abs m <= n -> n <= 40 -> Z.even (n - Z.abs m) = true -> radial m n 1%Qc = 1%Qc.
Proof.
  intros Hm Hn He. pose proof (all_nm_sound _ _ at_one_checked n (Z.abs m) ltac:(lia) ltac:(lia) He) as H.
  unfold at_one_ok in H. apply andb_true_iff in H. destruct H as [H1 H2].
  destruct (Z_le_gt_dec 0 m).
  - rewrite Z.abs_eq in H1 by lia. apply Qc_eq_bool_correct. exact H1.
  - rewrite Z.abs_neq in H2 by lia. rewrite Z.opp_involutive in H2. apply Qc_eq_bool_correct. exact H2.
Qed.

(* radial orthogonality with weight rho on [0,1], the integral taken by the power rule.
   Instead of integrating every pair (n, n') the kernel evaluates, for each admissible (n, m) with
   n <= 50, the moments of R_n^m against rho^(m+2s), s < (n-m)/2 (all zero: R_n^m is orthogonal to every
   lower-degree polynomial rho^m q(rho^2)) and its norm; orthogonality of the pairs follows by bilinearity. *)
(* ---- sums over lists in Qc ---- *)
Definition qsum {A} (f : A -> Qc) (l : list A) : Qc := fold_right (fun x a => (f x + a)%Qc) 0%Qc l.
Lemma qsum_cons {A} (f : A -> Qc) x l : qsum f (x :: l) = (f x + qsum f l)%Qc. Proof. reflexivity. Qed.
Lemma qsum_nil {A} (f : A -> Qc) : qsum f [] = 0%Qc. Proof. reflexivity. Qed.
Lemma fold_left_qsum {A} (f : A -> Qc) l : forall a, fold_left (fun acc x => (acc + f x)%Qc) l a = (a + qsum f l)%Qc.
Proof. induction l as [|x l IH]; intros a; cbn [fold_left]; rewrite ?qsum_cons, ?qsum_nil.
  - ring. - rewrite IH. ring. Qed.
Lemma qsum_ext {A} (f g : A -> Qc) l : (forall x, In x l -> f x = g x) -> qsum f l = qsum g l.
Proof. induction l as [|x l IH]; intros H; [reflexivity|]. rewrite !qsum_cons, H by (now left). rewrite IH; [reflexivity|].
  intros; apply H; now right. Qed.
Lemma qsum_zero {A} (f : A -> Qc) l : (forall x, In x l -> f x = 0%Qc) -> qsum f l = 0%Qc.
Proof. induction l as [|x l IH]; intros H; [reflexivity|]. rewrite qsum_cons, H by (now left). rewrite IH; [ring|].
  intros; apply H; now right. Qed.
Lemma qsum_add {A} (f g : A -> Qc) l : qsum (fun x => (f x + g x)%Qc) l = (qsum f l + qsum g l)%Qc.
Proof. induction l as [|x l IH]; rewrite ?qsum_cons, ?qsum_nil; [ring|]. rewrite IH. ring. Qed.
Lemma qsum_scale {A} (c : Qc) (f : A -> Qc) l : qsum (fun x => (c * f x)%Qc) l = (c * qsum f l)%Qc.
Proof. induction l as [|x l IH]; rewrite ?qsum_cons, ?qsum_nil; [ring|]. rewrite IH. ring. Qed.
Lemma qsum_swap {A B} (g : A -> B -> Qc) p q :
  qsum (fun t => qsum (fun u => g t u) q) p = qsum (fun u => qsum (fun t => g t u) p) q.
Proof. induction p as [|t p IH].
  - rewrite qsum_nil. symmetry. apply qsum_zero. reflexivity.
  - rewrite qsum_cons, IH, <- qsum_add. apply qsum_ext. intros u _. rewrite qsum_cons. reflexivity. Qed.

(* moment of p against x^b with weight x on [0,1], by the power rule *)
Definition pmoment (p : list (Z * Qc)) (b : Z) : Qc :=
  fold_left (fun acc t => (acc + snd t / zQ (fst t + b + 2))%Qc) p 0%Qc.

Lemma pinner_qsum p q :
  pinner p q = qsum (fun t : Z * Qc => qsum (fun u : Z * Qc => (snd t * snd u / zQ (fst t + fst u + 2))%Qc) q) p.
Proof.
  unfold pinner.
  assert (H : forall a, fold_left (fun acc (t : Z * Qc) => fold_left (fun acc' (u : Z * Qc) =>
     (acc' + snd t * snd u / zQ (fst t + fst u + 2))%Qc) q acc) p a
     = (a + qsum (fun t : Z * Qc => qsum (fun u : Z * Qc => (snd t * snd u / zQ (fst t + fst u + 2))%Qc) q) p)%Qc).
  { induction p as [|t p IH]; intros a; cbn [fold_left]; rewrite ?qsum_cons, ?qsum_nil.
    { ring. }
    rewrite IH, (fold_left_qsum (fun u : Z * Qc => (snd t * snd u / zQ (fst t + fst u + 2))%Qc)). ring. }
  rewrite H. ring.
Qed.
Lemma pmoment_qsum p b : pmoment p b = qsum (fun t : Z * Qc => (snd t / zQ (fst t + b + 2))%Qc) p.
Proof. unfold pmoment. rewrite (fold_left_qsum (fun t : Z * Qc => (snd t / zQ (fst t + b + 2))%Qc)). ring. Qed.

(* the inner product is the combination of the moments of p against the powers of q *)
Lemma pinner_by_moments p q : pinner p q = qsum (fun u : Z * Qc => (snd u * pmoment p (fst u))%Qc) q.
Proof.
  rewrite pinner_qsum, qsum_swap. apply qsum_ext. intros u _. rewrite pmoment_qsum, <- qsum_scale.
  apply qsum_ext. intros t _. unfold Qcdiv. ring.
Qed.
Lemma pinner_sym p q : pinner p q = pinner q p.
Proof. rewrite !pinner_qsum, qsum_swap. apply qsum_ext. intros u _. apply qsum_ext. intros t _.
  replace (fst u + fst t + 2) with (fst t + fst u + 2) by ring. unfold Qcdiv. ring. Qed.

(* the check, per (n, m): R_n^m is orthogonal to rho^(m+2s), s < (n-m)/2, and its norm is 1/(2(n+1)) *)
Definition moments_ok (n m : Z) : bool :=
  let p := radial_terms m n in
  forallb (fun s => Qc_eq_bool (pmoment p (m + 2 * s)) 0%Qc) (zrange ((n - m) / 2))
  && Qc_eq_bool (rcoef m n 0 * pmoment p n)%Qc (1 / zQ (2 * (n + 1)))%Qc.
Lemma moments_checked : all_nm 51 moments_ok = true.
Proof. vm_cast_no_check (eq_refl true). Qed.

Lemma radial_moments n m : 0 <= m <= n -> n <= 50 -> Z.even (n - m) = true ->
  (forall s, 0 <= s < (n - m) / 2 -> pmoment (radial_terms m n) (m + 2 * s) = 0%Qc) /\
  (rcoef m n 0 * pmoment (radial_terms m n) n)%Qc = (1 / zQ (2 * (n + 1)))%Qc.
Proof.
  intros Hm Hn He. pose proof (all_nm_sound _ _ moments_checked n m Hm ltac:(lia) He) as H.
  unfold moments_ok in H. apply andb_true_iff in H. destruct H as [H1 H2]. split.
  - intros s Hs. apply Qc_eq_bool_correct. apply (forallb_zrange _ _ H1 s). lia.
  - apply Qc_eq_bool_correct. exact H2.
Qed.

Lemma radial_terms_In m n u : In u (radial_terms m n) ->
  exists k, 0 <= k <= (n - m) / 2 /\ u = (n - 2 * k, rcoef m n k).
Proof. unfold radial_terms. intros H. apply in_map_iff in H. destruct H as [k [<- Hk]].
  apply zrange_In in Hk. exists k. split; [lia|reflexivity]. Qed.
Lemma radial_terms_head m n : 0 <= (n - m) / 2 ->
  radial_terms m n = (n, rcoef m n 0) :: map (fun k => (n - 2 * k, rcoef m n k)) (map Z.of_nat (seq 1 (Z.to_nat ((n - m) / 2)))).
Proof. intros H. unfold radial_terms, zrange.
  replace (Z.to_nat ((n - m) / 2 + 1)) with (Datatypes.S (Z.to_nat ((n - m) / 2))) by lia.
  cbn [seq map]. replace (n - 2 * Z.of_nat 0) with n by (cbn; ring). reflexivity. Qed.

Lemma pinner_lower m n n' : 0 <= m <= n' -> n' < n -> n <= 50 ->
  Z.even (n - m) = true -> Z.even (n' - m) = true ->
  pinner (radial_terms m n) (radial_terms m n') = 0%Qc.
Proof.
  intros Hm Hlt Hn He He'. rewrite pinner_by_moments. apply qsum_zero. intros u Hu.
  apply radial_terms_In in Hu. destruct Hu as [k [Hk ->]]. cbn [fst snd].
  destruct (radial_moments n m ltac:(lia) Hn He) as [Hz _].
  apply even_ex in He. destruct He as [a Ha]. apply even_ex in He'. destruct He' as [b Hb].
  replace (n' - 2 * k) with (m + 2 * (b - k)) by lia. rewrite Hz by lia. ring.
Qed.

Theorem radial_orthogonality m n n' : 0 <= m -> m <= n <= 50 -> m <= n' <= 50 ->
  Z.even (n - m) = true -> Z.even (n' - m) = true ->
  pinner (radial_terms m n) (radial_terms m n') = if n =? n' then (1 / zQ (2 * (n + 1)))%Qc else 0%Qc.
Proof.
  intros Hm Hn Hn' He He'. destruct (Z.eqb_spec n n') as [<-|Hne].
  - rewrite pinner_by_moments.
    destruct (radial_moments n m ltac:(lia) ltac:(lia) He) as [Hz Hnorm].
    assert (Hd : 0 <= (n - m) / 2) by lia.
    set (f := fun u : Z * Qc => (snd u * pmoment (radial_terms m n) (fst u))%Qc).
    rewrite (radial_terms_head m n Hd), qsum_cons. subst f. cbv beta. cbn [fst snd]. rewrite Hnorm.
    match goal with |- (_ + ?r)%Qc = _ => replace r with 0%Qc; [ring|] end.
    symmetry. apply qsum_zero. intros u Hu. apply in_map_iff in Hu. destruct Hu as [k [<- Hk]].
    apply in_map_iff in Hk. destruct Hk as [k0 [<- Hk0]]. apply in_seq in Hk0. cbn [fst snd].
    pose proof (even_ex _ He) as [a Ha].
    replace (n - 2 * Z.of_nat k0) with (m + 2 * (a - Z.of_nat k0)) by lia. rewrite Hz by lia. ring.
  - destruct (Z_lt_le_dec n' n).
    + apply pinner_lower; try assumption; lia.
    + rewrite pinner_sym. apply pinner_lower; try assumption; lia.
Qed.

(* the moment is the inner product with a monomial *)
Lemma pinner_monomial p b : pinner p [(b, 1%Qc)] = pmoment p b.
Proof. rewrite pinner_by_moments, qsum_cons, qsum_nil. cbn [fst snd]. ring. Qed.
Theorem radial_lower_moments m n s : 0 <= m <= n -> n <= 50 -> Z.even (n - m) = true -> 0 <= s < (n - m) / 2 ->
  pinner (radial_terms m n) [(m + 2 * s, 1%Qc)] = 0%Qc.
Proof. intros Hm Hn He Hs. rewrite pinner_monomial. apply (proj1 (radial_moments n m Hm Hn He)). exact Hs. Qed.
