(* Lemmas about the tilt model (C04): displacement formula, additivity and order independence,
   OPD ramp = shift of the transform, the fix/sub-pixel split, tilt entries kept by repeated fits,
   the first-order dispersive element, least-squares tilt fitting. *)
From Coq Require Import Permutation Field.
From LV Require Import Model.Tilt Proofs.ArrP Proofs.DftP.

Local Open Scope Qc_scope.

Definition qsum (l : list Qc) : Qc := fold_right Qcplus 0 l.
Lemma qsum_nil : qsum [] = 0. Proof. reflexivity. Qed.
Lemma qsum_cons x l : qsum (x :: l) = x + qsum l. Proof. reflexivity. Qed.

(* ------------------------------------------------------------------------------------------ *)
(** * (b) every element adds its own displacement; the fold is a sum; order is irrelevant *)

Lemma tilt_shift_add t xs ys z wl :
  tilt_shift t xs ys z wl = (xs + fst (tilt_disp t z wl), ys + snd (tilt_disp t z wl)).
Proof. destruct t; unfold tilt_disp; cbn [tilt_shift fst snd]; f_equal; ring. Qed.

Lemma fold_tilts_acc tl z wl acc :
  fold_left (shift_step z wl) tl acc
  = (fst acc + qsum (map (fun t => fst (tilt_disp t z wl)) tl),
     snd acc + qsum (map (fun t => snd (tilt_disp t z wl)) tl)).
Proof.
  revert acc. induction tl as [|t tl IH]; intros acc; cbn [fold_left map]; rewrite ?qsum_nil, ?qsum_cons.
  - destruct acc; cbn [fst snd]; f_equal; ring.
  - rewrite IH. unfold shift_step. rewrite tilt_shift_add. cbn [fst snd]. f_equal; ring.
Qed.

Theorem fold_tilts_sum tl z wl :
  fold_tilts tl z wl = (qsum (map (fun t => fst (tilt_disp t z wl)) tl),
                        qsum (map (fun t => snd (tilt_disp t z wl)) tl)).
Proof. unfold fold_tilts. rewrite fold_tilts_acc. cbn [fst snd]. f_equal; ring. Qed.

Lemma qsum_perm l l' : Permutation l l' -> qsum l = qsum l'.
Proof. induction 1; rewrite ?qsum_cons; try congruence; ring. Qed.
Lemma qsum_app l l' : qsum (l ++ l') = qsum l + qsum l'.
Proof. induction l as [|x l IH]; cbn [app]; rewrite ?qsum_nil, ?qsum_cons; [ring|]. rewrite IH. ring. Qed.

Theorem fold_tilts_perm tl tl' z wl : Permutation tl tl' -> fold_tilts tl z wl = fold_tilts tl' z wl.
Proof. intros H. rewrite !fold_tilts_sum. f_equal; apply qsum_perm; now apply Permutation_map. Qed.

Theorem fold_tilts_app tl tl' z wl :
  fold_tilts (tl ++ tl') z wl
  = (fst (fold_tilts tl z wl) + fst (fold_tilts tl' z wl), snd (fold_tilts tl z wl) + snd (fold_tilts tl' z wl)).
Proof. rewrite !fold_tilts_sum, !map_app, !qsum_app. reflexivity. Qed.

Theorem field_shift_perm tl tl' z wl ps os ix : Permutation tl tl' ->
  field_shift tl z wl ps os ix = field_shift tl' z wl ps os ix.
Proof. intros H. unfold field_shift. now rewrite (fold_tilts_perm tl tl' z wl H). Qed.

(* the shift of a field depends on its tilt list only through the folded displacement *)
Theorem field_shift_through_fold tl tl' z wl ps os ix : fold_tilts tl z wl = fold_tilts tl' z wl ->
  field_shift tl z wl ps os ix = field_shift tl' z wl ps os ix.
Proof. intros H. unfold field_shift. now rewrite H. Qed.

(* the displacement in output samples (row, column) of a list of elements whose displacements in
   metres at the focal plane are (x_k, y_k): ( -(sum y_k)/du_r*os , (sum x_k)/du_c*os ) *)
Theorem field_shift_general tl z wl dur duc os :
  field_shift tl z wl (Some (dur, duc)) os IJ
  = Ok (- (qsum (map (fun t => snd (tilt_disp t z wl)) tl) / dur * os),
        qsum (map (fun t => fst (tilt_disp t z wl)) tl) / duc * os).
Proof. unfold field_shift. rewrite fold_tilts_sum. reflexivity. Qed.

(* ------------------------------------------------------------------------------------------ *)
(** * (a) angular tilts: the displacement formula *)

Definition ang_list (l : list (Qc * Qc)) : list tilt := map (fun ab => mk_tilt (fst ab) (snd ab)) l.

Lemma ang_disp_x l z wl :
  qsum (map (fun t => fst (tilt_disp t z wl)) (ang_list l)) = - (z * qsum (map snd l)).
Proof. induction l as [|[a b] l IH]; cbn [ang_list map] in *; rewrite ?qsum_nil, ?qsum_cons; [ring|].
  unfold ang_list in IH. rewrite IH. unfold tilt_disp, mk_tilt. cbn [tilt_shift fst snd]. ring. Qed.
Lemma ang_disp_y l z wl :
  qsum (map (fun t => snd (tilt_disp t z wl)) (ang_list l)) = - (z * qsum (map fst l)).
Proof. induction l as [|[a b] l IH]; cbn [ang_list map] in *; rewrite ?qsum_nil, ?qsum_cons; [ring|].
  unfold ang_list in IH. rewrite IH. unfold tilt_disp, mk_tilt. cbn [tilt_shift fst snd]. ring. Qed.

Theorem field_shift_formula (l : list (Qc * Qc)) z wl dur duc os :
  field_shift (ang_list l) z wl (Some (dur, duc)) os IJ
  = Ok (z * qsum (map fst l) * os / dur, - (z * qsum (map snd l) * os / duc)).
Proof.
  rewrite field_shift_general, ang_disp_x, ang_disp_y. f_equal. unfold Qcdiv. f_equal; ring.
Qed.
(* Cartesian indexing returns (x, y) in output samples *)
Theorem field_shift_formula_xy (l : list (Qc * Qc)) z wl dur duc os :
  field_shift (ang_list l) z wl (Some (dur, duc)) os XY
  = Ok (- (z * qsum (map snd l) * os / duc), - (z * qsum (map fst l) * os / dur)).
Proof.
  unfold field_shift. rewrite fold_tilts_sum, ang_disp_x, ang_disp_y. cbn [fst snd].
  f_equal. unfold Qcdiv. f_equal; ring.
Qed.
Lemma field_shift_errors tl z wl ps os :
  field_shift tl z wl ps os BadIndexing = Err ValueError
  /\ field_shift tl z wl None os IJ = Err ValueError /\ field_shift tl z wl None os XY = Err ValueError.
Proof. repeat split. Qed.

(* ------------------------------------------------------------------------------------------ *)
(** * (g) repeated fits: every recorded tilt of a segment is kept, and only their sum matters *)

Lemma stride_go_skip {A} size (p r : list A) c : (length p <= c)%nat ->
  stride_go size c (p ++ r) = stride_go size (c - length p) r.
Proof.
  revert c. induction p as [|x p IH]; intros c H; cbn [app length].
  - now rewrite Nat.sub_0_r.
  - destruct c as [|c]; [cbn in H; lia|]. cbn [stride_go]. rewrite IH by (cbn in H; lia). reflexivity.
Qed.

Lemma stride_go_block {A} size c (blk r : list A) d : length blk = size -> (c < size)%nat ->
  stride_go size c (blk ++ r) = nth c blk d :: stride_go size c r.
Proof.
  intros Hl Hc.
  rewrite <- (firstn_skipn c blk) at 1. rewrite <- app_assoc.
  assert (Hf : length (firstn c blk) = c) by (rewrite firstn_length; lia).
  rewrite stride_go_skip by lia. rewrite Hf, Nat.sub_diag.
  destruct (skipn c blk) as [|x q] eqn:E.
  - apply (f_equal (@length A)) in E. rewrite skipn_length in E. cbn in E. lia.
  - cbn [app stride_go]. f_equal.
    + rewrite <- (firstn_skipn c blk) at 1. rewrite app_nth2 by lia. rewrite Hf, Nat.sub_diag, E. reflexivity.
    + assert (Hq : length q = (size - c - 1)%nat).
      { apply (f_equal (@length A)) in E. rewrite skipn_length in E. cbn in E. lia. }
      rewrite stride_go_skip by lia. f_equal. lia.
Qed.

(* plane.tilt after k fits is the concatenation of k blocks of [size] entries; segment n receives
   entry n of every block, in order *)
Theorem stride_concat {A} (size n : nat) (blocks : list (list A)) d :
  Forall (fun b => length b = size) blocks -> (n < size)%nat ->
  stride n size (concat blocks) = map (fun b => nth n b d) blocks.
Proof.
  intros H Hn. unfold stride. induction H as [|b bs Hb _ IH]; cbn [concat map]; [reflexivity|].
  rewrite (stride_go_block size n b (concat bs) d) by assumption. now rewrite IH.
Qed.

(* ------------------------------------------------------------------------------------------ *)
(** * (f) first-order dispersive element *)

Lemma Qc_sq_nonneg (x : Qc) : 0 <= x * x.
Proof.
  destruct (Qclt_le_dec x 0) as [H|H].
  - assert (H' : 0 <= - x). { apply Qclt_le_weak in H. apply Qcopp_le_compat in H. exact H. }
    replace (x * x) with ((- x) * (- x)) by ring.
    replace 0 with (0 * - x) at 1 by ring. now apply Qcmult_le_compat_r.
  - replace 0 with (0 * x) at 1 by ring. now apply Qcmult_le_compat_r.
Qed.
Lemma root_nz root t0 : root * root = 1 + t0 * t0 -> root <> 0.
Proof. intros Hr E. rewrite E in Hr. pose proof (Qc_sq_nonneg t0) as H0.
  assert (Hx : t0 * t0 = - (1)). { transitivity ((1 + t0 * t0) - 1); [ring|]. rewrite <- Hr. ring. }
  rewrite Hx in H0. apply H0. reflexivity. Qed.

Theorem dispersive_first_order_q t0 t1 d0 d1 root wl z :
  d0 <> 0 -> root * root = 1 + t0 * t0 ->
  let xy := tilt_disp (TiltDisp t0 t1 d0 d1 root) z wl in
  let d := disp_dist d0 d1 wl in
  snd xy = t0 * fst xy + t1                                             (* on the trace polynomial *)
  /\ fst xy * fst xy + (snd xy - t1) * (snd xy - t1) = d * d           (* at (squared) arc length d from the trace origin *)
  /\ d0 * d + d1 = wl                                                    (* which the dispersion polynomial maps to lambda *)
  /\ fst xy * root = d.                                                  (* on the side of the origin given by the sign of d *)
Proof.
  intros Hd Hr. cbv zeta. unfold tilt_disp. cbn [tilt_shift disp_trace fst snd]. unfold disp_dist.
  pose proof (root_nz root t0 Hr) as Hroot.
  repeat split.
  - ring.
  - transitivity (((wl - d1) / d0 / root) * ((wl - d1) / d0 / root) * (1 + t0 * t0)); [ring|].
    rewrite <- Hr. field; tauto.
  - field; assumption.
  - field; tauto.
Qed.

(* ------------------------------------------------------------------------------------------ *)
(** * (d) np.fix and the sub-pixel remainder: nothing is dropped *)

Lemma this_sub_zq (s : Qc) (k : Z) : (this (s - zq k) == this s - inject_Z k)%Q.
Proof. unfold Qcminus, Qcplus, Qcopp, zq, Q2Qc. cbn [this]. rewrite !Qred_correct. reflexivity. Qed.

Theorem fix_subpx_split (s : Qc) :
  s = zq (fst (fix_subpx s)) + snd (fix_subpx s)
  /\ - (1) < snd (fix_subpx s) /\ snd (fix_subpx s) < 1
  /\ (0 <= s -> 0 <= snd (fix_subpx s)) /\ (s <= 0 -> snd (fix_subpx s) <= 0).
Proof.
  unfold fix_subpx. cbn [fst snd]. split; [ring|].
  unfold Qclt, Qcle. rewrite !this_sub_zq. unfold qfix.
  destruct s as [q Hc]. destruct q as [n d]. cbn [this Qnum Qden].
  unfold Qlt, Qle, Qminus, Qplus, Qopp, inject_Z. cbn [Qnum Qden this Q2Qc Qred].
  cbn.
  repeat split; intros; lia.
Qed.

Lemma zq_sub a b : zq (a - b) = zq a - zq b.
Proof. replace a with ((a - b) + b)%Z at 2 by lia. rewrite zq_add. ring. Qed.

(* ------------------------------------------------------------------------------------------ *)
(** * the window propagate_dft evaluates for a tilted field, and the coordinates of its samples *)

Lemma zq_coord x y z f s : (x - y = z - f)%Z -> zq x - (zq y + (s - zq f)) = zq z - s.
Proof. intros H. replace x with (y + (z - f))%Z by lia. rewrite zq_add, zq_sub. ring. Qed.

Theorem tilted_window_samples (oe : extent) (Pr Pc : Z) (sr sc : Qc) Ir Ic isr isc shr shc :
  (0 < Pr)%Z -> (0 < Pc)%Z ->
  tilted_window oe Pr Pc sr sc = Some ((Ir, Ic), (isr, isc), (shr, shc)) ->
  let ie := intersection_extent oe (array_extent Pr Pc (qfix sr) (qfix sc)) in
  (* the output field (shape (Ir, Ic), offset (isr, isc)) covers exactly the intersection ... *)
  array_extent Ir Ic isr isc = ie
  (* ... and sample (a, b) of it, which sits at plane coordinate (a + rmin, b + cmin), is transformed at
     the coordinate minus the complete (integer + sub-pixel) shift *)
  /\ forall a b, zq (a - Ir / 2) - shr = zq (a + fst (fst (fst ie))) - sr
              /\ zq (b - Ic / 2) - shc = zq (b + snd (fst ie)) - sc.
Proof.
  intros HPr HPc. unfold tilted_window, fix_subpx.
  set (fr := qfix sr). set (fc := qfix sc). clearbody fr fc.
  destruct oe as [[[o1 o2] o3] o4].
  unfold intersect, intersection_shape, intersection_shift, intersection_extent, array_extent, array_center.
  set (r1 := Z.max o1 (- (Pr / 2) + fr)). set (r2 := Z.min o2 (- (Pr / 2) + fr + Pr - 1)).
  set (c1 := Z.max o3 (- (Pc / 2) + fc)). set (c2 := Z.min o4 (- (Pc / 2) + fc + Pc - 1)).
  destruct (_ && _ && _ && _) eqn:Hi; [|discriminate].
  destruct ((r2 - r1 + 1 <=? 0)%Z || (c2 - c1 + 1 <=? 0)%Z) eqn:Hs; [discriminate|].
  intros H. injection H as <- <- <- <- <- <-. cbn [fst snd].
  assert (Hr : (r1 <= r2)%Z) by lia. assert (Hc : (c1 <= c2)%Z) by lia.
  clear Hi Hs. clearbody r1 r2 c1 c2.
  split.
  - repeat f_equal; lia.
  - intros a b. split; apply zq_coord; lia.
Qed.

(* ------------------------------------------------------------------------------------------ *)
(** * (c) an OPD ramp in the pupil is a shift of the output coordinates *)

Section Ramp.
Variable S : Scalar.
Hypothesis Sring : is_ring S.
Hypothesis Skernel : kernel_laws S.
Variable sq : Qc -> S.
Add Ring Sr2 : Sring.

(* the plane phasor exp(+2 pi i opd / lambda) = ke(-opd/lambda) of the ramp that Tilt(x=a, y=b) stands for *)
Definition ramped (f : arr S) (a b dxr dxc wl : Qc) (offr offc : Z) : arr S :=
  mkArr (nr f) (nc f) (fun x y =>
    (get f x y * ke (- (opd_ramp a b dxr dxc (x - nr f / 2 + offr) (y - nc f / 2 + offc) / wl)))%K).

Theorem ramp_is_shift (f : arr S) a b dxr dxc dur duc wl z os offr offc U V :
  dur <> 0 -> duc <> 0 -> wl <> 0 -> z <> 0 -> os <> 0 ->
  fourier_sum (ramped f a b dxr dxc wl offr offc)
     (dft_alpha dxr dur wl z os) (dft_alpha dxc duc wl z os) offr offc U V
  = fourier_sum f (dft_alpha dxr dur wl z os) (dft_alpha dxc duc wl z os) offr offc
      (U - z * a * os / dur) (V - - (z * b * os / duc)).
Proof.
  intros H1 H2 H3 H4 H5.
  rewrite <- (fourier_sum_ramp S Sring Skernel f).
  apply (fourier_sum_ext S); try reflexivity.
  intros x y _ _. unfold ramped. cbn [get nr nc]. f_equal. f_equal.
  unfold opd_ramp, dft_alpha. field. repeat split; assumption.
Qed.

(* the same for the transform lentil computes: multiplying by the ramp phasor and transforming with
   shift (shr, shc) = transforming the plain field with shift (shr + s_r, shc + s_c) *)
Theorem dft2_ramp_is_shift (f : arr S) a b dxr dxc dur duc wl z os offr offc M N shr shc unitary u v :
  dur <> 0 -> duc <> 0 -> wl <> 0 -> z <> 0 -> os <> 0 -> (0 <= u < M)%Z -> (0 <= v < N)%Z ->
  get (dft2 sq (ramped f a b dxr dxc wl offr offc)
         (dft_alpha dxr dur wl z os) (dft_alpha dxc duc wl z os) M N shr shc offr offc unitary) u v
  = get (dft2 sq f (dft_alpha dxr dur wl z os) (dft_alpha dxc duc wl z os) M N
           (shr + z * a * os / dur) (shc + - (z * b * os / duc)) offr offc unitary) u v.
Proof.
  intros H1 H2 H3 H4 H5 Hu Hv.
  rewrite !(dft2_defining_sum S Sring Skernel) by assumption.
  rewrite ramp_is_shift by assumption. f_equal. f_equal; ring.
Qed.

(* what propagate_dft computes for a field carrying tilt metadata of total shift (sr, sc): every sample
   (a, b) of the output field - plane coordinate (a + rmin, b + cmin) - holds the defining sum at that
   coordinate minus the shift, times the unitary factor *)
Theorem propagate_tilt_samples (f : arr S) (ar ac : Qc) (offr offc : Z) (oe : extent) (Pr Pc : Z) (sr sc : Qc)
        Ir Ic isr isc shr shc a b :
  (0 < Pr)%Z -> (0 < Pc)%Z ->
  tilted_window oe Pr Pc sr sc = Some ((Ir, Ic), (isr, isc), (shr, shc)) ->
  (0 <= a < Ir)%Z -> (0 <= b < Ic)%Z ->
  let ie := intersection_extent oe (array_extent Pr Pc (qfix sr) (qfix sc)) in
  get (dft2 sq f ar ac Ir Ic shr shc offr offc true) a b
  = (fourier_sum f ar ac offr offc (zq (a + fst (fst (fst ie))) - sr) (zq (b + snd (fst ie)) - sc)
     * sq (qabs (ar * ac)))%K.
Proof.
  intros HPr HPc Hw Ha Hb ie.
  destruct (tilted_window_samples oe Pr Pc sr sc Ir Ic isr isc shr shc HPr HPc Hw) as [_ Hs].
  destruct (Hs a b) as [E1 E2]. fold ie in E1, E2.
  rewrite (dft2_defining_sum S Sring Skernel) by assumption.
  rewrite E1, E2. reflexivity.
Qed.
End Ramp.

(* ------------------------------------------------------------------------------------------ *)
(** * (g) histories of OPD updates and fits: plane.tilt is a concatenation of blocks of [size] entries *)

Lemma ang_list_stride size n (blocks : list (list (Qc * Qc))) :
  Forall (fun b => length b = size) blocks -> (n < size)%nat ->
  stride n size (concat (map ang_list blocks)) = ang_list (map (fun b => nth n b (0, 0)) blocks).
Proof.
  intros H Hn. rewrite (stride_concat size n _ (mk_tilt 0 0)); [|now apply Forall_map; eapply Forall_impl; [|exact H]; intros b Hb; unfold ang_list; rewrite map_length|assumption].
  unfold ang_list. rewrite !map_map. apply map_ext. intros b.
  change (mk_tilt 0 0) with ((fun ab : Qc * Qc => mk_tilt (fst ab) (snd ab)) (0, 0)). now rewrite map_nth.
Qed.

Lemma lstsq_all_length dxr dxc masks opd ts : lstsq_all dxr dxc masks opd = Ok ts -> length ts = length masks.
Proof.
  revert ts. induction masks as [|mk r IH]; intros ts; cbn [lstsq_all].
  - intros H; injection H as <-. reflexivity.
  - destruct (lstsq3 dxr dxc mk opd); cbn [rbind]; [|discriminate].
    destruct (lstsq_all dxr dxc r opd) as [ts0|]; cbn [rbind]; [|discriminate].
    intros H; injection H as <-. cbn [length]. now rewrite (IH ts0).
Qed.

(* one fit appends exactly one entry per segment, keeps the masks, and keeps an array OPD an array *)
Lemma fit_tilt_appends p p' : fit_tilt p = Ok p' -> qp_opd p <> None ->
  exists blk, qp_tilt p' = qp_tilt p ++ blk /\ length blk = length (qp_masks p)
              /\ qp_masks p' = qp_masks p /\ qp_opd p' <> None /\ qp_ps p' = qp_ps p.
Proof.
  unfold fit_tilt. destruct (qp_ps p) as [[dxr dxc]|] eqn:Eps; [|discriminate].
  destruct (qp_opd p) as [opd|] eqn:Eo; [|congruence]. intros H _.
  destruct (qp_masks p) as [|mk [|mk2 r]] eqn:Em.
  - cbn [lstsq_all rbind] in H. injection H as <-. exists []. cbn. repeat split; auto; congruence.
  - destruct (lstsq3 dxr dxc mk opd) as [t|]; cbn [rbind] in H; [|discriminate]. injection H as <-.
    eexists. cbn [qp_tilt qp_masks qp_opd qp_ps]. repeat split; auto; congruence.
  - destruct (lstsq_all dxr dxc (mk :: mk2 :: r) opd) as [ts|] eqn:El; cbn [rbind] in H; [|discriminate].
    injection H as <-. eexists. cbn [qp_tilt qp_masks qp_opd qp_ps]. repeat split; auto; try congruence.
    rewrite map_length. now apply lstsq_all_length in El.
Qed.

Lemma add_opd_keeps p d : qp_tilt (add_opd p d) = qp_tilt p /\ qp_masks (add_opd p d) = qp_masks p
  /\ (qp_opd p <> None -> qp_opd (add_opd p d) <> None) /\ qp_ps (add_opd p d) = qp_ps p.
Proof. unfold add_opd. destruct (qp_opd p); cbn; repeat split; auto; congruence. Qed.

Lemma history_blocks_aux ds : forall p0 p' bs0,
  qp_opd p0 <> None -> qp_tilt p0 = concat bs0 -> Forall (fun b => length b = length (qp_masks p0)) bs0 ->
  fold_left update_and_fit ds (Ok p0) = Ok p' ->
  exists bs, qp_tilt p' = concat (bs0 ++ bs) /\ Forall (fun b => length b = length (qp_masks p0)) (bs0 ++ bs)
             /\ length bs = length ds /\ qp_masks p' = qp_masks p0.
Proof.
  induction ds as [|d ds IH]; intros p0 p' bs0 Ho Ht Hf H; cbn [fold_left] in H.
  - injection H as <-. exists []. rewrite app_nil_r. auto.
  - unfold update_and_fit at 2 in H. cbn [rbind] in H.
    destruct (fit_tilt (add_opd p0 d)) as [p1|e] eqn:E1.
    + destruct (add_opd_keeps p0 d) as (K1 & K2 & K3 & K4).
      destruct (fit_tilt_appends _ _ E1 (K3 Ho)) as (blk & B1 & B2 & B3 & B4 & B5).
      rewrite K1, K2 in *.
      destruct (IH p1 p' (bs0 ++ [blk])) as (bs & C1 & C2 & C3 & C4); try assumption.
      * rewrite B1, Ht, concat_app. cbn [concat]. now rewrite app_nil_r.
      * rewrite B3. apply Forall_app. split; [assumption|]. constructor; [assumption|constructor].
      * exists (blk :: bs). rewrite <- app_assoc in C1, C2. cbn [app] in C1, C2.
        rewrite B3 in C2, C4. cbn [length]. auto.
    + exfalso. clear - H. induction ds as [|d' ds IH]; cbn [fold_left] in H; [discriminate|]. now apply IH.
Qed.

(* any history fit, (update, fit)*: the tilt list is a concatenation of 1 + #updates blocks, one entry per
   segment each; together with [stride_concat] every recorded tilt of a segment reaches its field *)
Theorem history_blocks p ds p' :
  qp_opd p <> None -> qp_tilt p = [] -> fit_history p ds = Ok p' ->
  exists blocks, qp_tilt p' = concat blocks
                 /\ Forall (fun b => length b = length (qp_masks p)) blocks
                 /\ length blocks = Datatypes.S (length ds).
Proof.
  intros Ho Ht H. unfold fit_history in H.
  destruct (fit_tilt p) as [p1|e] eqn:E1.
  - destruct (fit_tilt_appends _ _ E1 Ho) as (blk & B1 & B2 & B3 & B4 & B5).
    destruct (history_blocks_aux ds p1 p' [blk]) as (bs & C1 & C2 & C3 & C4); try assumption.
    + rewrite B1, Ht. cbn. now rewrite app_nil_r.
    + rewrite B3. constructor; [assumption|constructor].
    + exists ([blk] ++ bs). rewrite B3 in C2. repeat split; try assumption. cbn [app length]. now rewrite C3.
  - exfalso. clear - H. induction ds as [|d' ds IH]; cbn [fold_left] in H; [discriminate|]. now apply IH.
Qed.

(* ------------------------------------------------------------------------------------------ *)
(** * plane chains: where Tilt planes stand relative to the masked plane, and in which order, is irrelevant *)

Lemma chain_ctilts ts : forall fields,
  fold_left chain_step (map CTilt ts) fields = map (fun tl => tl ++ ts) fields.
Proof.
  induction ts as [|t ts IH]; intros fields; cbn [map fold_left].
  - rewrite <- (map_id fields) at 1. apply map_ext. intros; now rewrite app_nil_r.
  - rewrite IH. cbn [chain_step]. rewrite map_map. apply map_ext. intros tl. now rewrite <- app_assoc.
Qed.

Theorem chain_tilts_shape w0 pre size pt post :
  chain_tilts w0 (map CTilt pre ++ CPlane size pt :: map CTilt post)
  = map (fun n => ((w0 ++ pre) ++ stride n size pt) ++ post) (seq 0 size).
Proof.
  unfold chain_tilts. rewrite fold_left_app. cbn [fold_left]. rewrite !chain_ctilts.
  cbn [map chain_step flat_map]. rewrite app_nil_r, map_map. reflexivity.
Qed.

Theorem chain_order_irrelevant w0 pre post pre' post' size pt z wl ps os ix :
  Permutation (pre ++ post) (pre' ++ post') ->
  map (fun tl => field_shift tl z wl ps os ix) (chain_tilts w0 (map CTilt pre ++ CPlane size pt :: map CTilt post))
  = map (fun tl => field_shift tl z wl ps os ix) (chain_tilts w0 (map CTilt pre' ++ CPlane size pt :: map CTilt post')).
Proof.
  intros H. rewrite !chain_tilts_shape, !map_map. apply map_ext. intros n. apply field_shift_perm.
  rewrite <- !app_assoc. apply Permutation_app_head.
  transitivity (stride n size pt ++ (pre ++ post)).
  - rewrite !app_assoc. apply Permutation_app_tail. apply Permutation_app_comm.
  - transitivity (stride n size pt ++ (pre' ++ post')); [now apply Permutation_app_head|].
    rewrite !app_assoc. apply Permutation_app_tail. apply Permutation_app_comm.
Qed.

(* ------------------------------------------------------------------------------------------ *)
(** * combined statements used by Properties/C04.v *)

Lemma field_shift_single a b z wl dur duc os :
  field_shift [mk_tilt a b] z wl (Some (dur, duc)) os IJ = Ok (z * a * os / dur, - (z * b * os / duc)).
Proof.
  pose proof (field_shift_formula [(a, b)] z wl dur duc os) as H. cbn [ang_list map fst snd] in H.
  rewrite H. rewrite !qsum_cons, qsum_nil. f_equal. unfold Qcdiv. f_equal; ring.
Qed.

Theorem tilt_metadata_equals_ramp (S : Scalar) (Sring : is_ring S) (Sk : kernel_laws S)
        (f : arr S) a b dxr dxc dur duc wl z os offr offc U V :
  dur <> 0 -> duc <> 0 -> wl <> 0 -> z <> 0 -> os <> 0 ->
  exists sr sc,
    field_shift [mk_tilt a b] z wl (Some (dur, duc)) os IJ = Ok (sr, sc)
    /\ sr = z * a * os / dur /\ sc = - (z * b * os / duc)
    /\ fourier_sum (mkArr (nr f) (nc f) (fun x y =>
          (get f x y * ke (- (opd_ramp a b dxr dxc (x - nr f / 2 + offr) (y - nc f / 2 + offc) / wl)))%K))
         (dft_alpha dxr dur wl z os) (dft_alpha dxc duc wl z os) offr offc U V
       = fourier_sum f (dft_alpha dxr dur wl z os) (dft_alpha dxc duc wl z os) offr offc (U - sr) (V - sc).
Proof.
  intros. eexists. eexists. split; [apply field_shift_single|]. split; [reflexivity|]. split; [reflexivity|].
  now apply (ramp_is_shift S Sring Sk).
Qed.

Lemma field_shift_app_through_fold w tl tl' z wl ps os ix : fold_tilts tl z wl = fold_tilts tl' z wl ->
  field_shift (w ++ tl) z wl ps os ix = field_shift (w ++ tl') z wl ps os ix.
Proof. intros H. apply field_shift_through_fold. rewrite !fold_tilts_app. now rewrite H. Qed.

Theorem repeated_fit_accumulates p ds p' :
  qp_opd p <> None -> qp_tilt p = [] -> fit_history p ds = Ok p' ->
  let size := length (qp_masks p) in
  exists blocks : list (list tilt),
    qp_tilt p' = concat blocks /\ length blocks = Datatypes.S (length ds)
    /\ Forall (fun b => length b = size) blocks
    /\ forall n, (n < size)%nat ->
         stride n size (qp_tilt p') = map (fun b => nth n b (TiltAng 0 0)) blocks
         /\ forall w tl' z wl ps os ix,
              fold_tilts tl' z wl = fold_tilts (stride n size (qp_tilt p')) z wl ->
              field_shift (w ++ tl') z wl ps os ix = field_shift (w ++ stride n size (qp_tilt p')) z wl ps os ix.
Proof.
  intros Ho Ht H size. destruct (history_blocks p ds p' Ho Ht H) as (blocks & B1 & B2 & B3).
  exists blocks. repeat split; try assumption.
  - rewrite B1. now apply stride_concat.
  - intros. now apply field_shift_app_through_fold.
Qed.

(* ------------------------------------------------------------------------------------------ *)
(** * the representations agree sample for sample wherever both are evaluated *)

Section Agree.
Variable S : Scalar.
Hypothesis Sring : is_ring S.
Hypothesis Skernel : kernel_laws S.
Variable sq : Qc -> S.

(* Representation 1: the ramp in the OPD, no tilt metadata (shift (0,0)), any output box / propagation shape.
   Representation 2 (Tilt plane anywhere in the chain) and 3 (Wavefront(tilt=[a, b])): the plain field with the
   metadata [Tilt(x=a, y=b)], any (other) output box / propagation shape.
   Two samples at the same plane coordinate carry the same value. *)
Theorem representations_agree (f : arr S) a b dxr dxc dur duc wl z os offr offc
        oe Pr Pc Ir Ic isr isc shr shc oe' Pr' Pc' Ir' Ic' isr' isc' shr' shc' sr sc i j i' j' :
  dur <> 0 -> duc <> 0 -> wl <> 0 -> z <> 0 -> os <> 0 ->
  (0 < Pr)%Z -> (0 < Pc)%Z -> (0 < Pr')%Z -> (0 < Pc')%Z ->
  tilted_window oe Pr Pc 0 0 = Some ((Ir, Ic), (isr, isc), (shr, shc)) ->
  field_shift [mk_tilt a b] z wl (Some (dur, duc)) os IJ = Ok (sr, sc) ->
  tilted_window oe' Pr' Pc' sr sc = Some ((Ir', Ic'), (isr', isc'), (shr', shc')) ->
  (0 <= i < Ir)%Z -> (0 <= j < Ic)%Z -> (0 <= i' < Ir')%Z -> (0 <= j' < Ic')%Z ->
  let ie := intersection_extent oe (array_extent Pr Pc (qfix 0) (qfix 0)) in
  let ie' := intersection_extent oe' (array_extent Pr' Pc' (qfix sr) (qfix sc)) in
  (i + fst (fst (fst ie)) = i' + fst (fst (fst ie')))%Z -> (j + snd (fst ie) = j' + snd (fst ie'))%Z ->
  get (dft2 sq (ramped S f a b dxr dxc wl offr offc)
         (dft_alpha dxr dur wl z os) (dft_alpha dxc duc wl z os) Ir Ic shr shc offr offc true) i j
  = get (dft2 sq f (dft_alpha dxr dur wl z os) (dft_alpha dxc duc wl z os) Ir' Ic' shr' shc' offr offc true) i' j'.
Proof.
  intros H1 H2 H3 H4 H5 P1 P2 P3 P4 W1 Hs W2 Hi Hj Hi' Hj' ie ie' Er Ec.
  rewrite field_shift_single in Hs. injection Hs as <- <-.
  rewrite (propagate_tilt_samples S Sring Skernel sq _ _ _ offr offc oe Pr Pc 0 0 Ir Ic isr isc shr shc i j P1 P2 W1 Hi Hj).
  rewrite (propagate_tilt_samples S Sring Skernel sq _ _ _ offr offc oe' Pr' Pc' _ _ Ir' Ic' isr' isc' shr' shc' i' j' P3 P4 W2 Hi' Hj').
  fold ie ie'. rewrite Er, Ec.
  rewrite (ramp_is_shift S Sring Skernel) by assumption. f_equal. f_equal; ring.
Qed.

Lemma wavefront_tilt_is_tilt_plane a b : wavefront_tilt (Some [a; b]) = Ok [mk_tilt a b].
Proof. reflexivity. Qed.
End Agree.
