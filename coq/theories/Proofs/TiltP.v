(* Lemmas about the tilt model (C04): displacement formula, additivity and order independence,
   OPD ramp = shift of the transform, the fix/sub-pixel split, tilt entries kept by repeated fits,
   the first-order dispersive element, least-squares tilt fitting. *)
From Coq Require Import Permutation Field.
From LV Require Import Model.Tilt Proofs.ArrP Proofs.DftP.

Local Open Scope Qc_scope.

Definition qsum (l : list Qc) : Qc := fold_right Qcplus 0 l.
Lemma qsum_nil : qsum [] = 0. Proof. reflexivity. Qed.
Lemma qsum_cons x l : qsum (x :: l) = x + qsum l. Proof. reflexivity. Qed.

(* ------------------------------------------------------------------------------------------ *)
(** * (b) every element adds its own displacement; the fold is a sum; order is irrelevant *)

Lemma tilt_shift_add t xs ys z wl :
  tilt_shift t xs ys z wl = (xs + fst (tilt_disp t z wl), ys + snd (tilt_disp t z wl)).
Proof. destruct t; unfold tilt_disp; cbn [tilt_shift fst snd]; f_equal; ring. Qed.

Lemma fold_tilts_acc tl z wl acc :
  fold_left (shift_step z wl) tl acc
  = (fst acc + qsum (map (fun t => fst (tilt_disp t z wl)) tl),
     snd acc + qsum (map (fun t => snd (tilt_disp t z wl)) tl)).
Proof.
  revert acc. induction tl as [|t tl IH]; intros acc; cbn [fold_left map]; rewrite ?qsum_nil, ?qsum_cons.
  - destruct acc; cbn [fst snd]; f_equal; ring.
  - rewrite IH. unfold shift_step. rewrite tilt_shift_add. cbn [fst snd]. f_equal; ring.
Qed.

Theorem fold_tilts_sum tl z wl :
  fold_tilts tl z wl = (qsum (map (fun t => fst (tilt_disp t z wl)) tl),
                        qsum (map (fun t => snd (tilt_disp t z wl)) tl)).
Proof. unfold fold_tilts. rewrite fold_tilts_acc. cbn [fst snd]. f_equal; ring. Qed.

Lemma qsum_perm l l' : Permutation l l' -> qsum l = qsum l'.
Proof. induction 1; rewrite ?qsum_cons; try congruence; ring. Qed.
Lemma qsum_app l l' : qsum (l ++ l') = qsum l + qsum l'.
Proof. induction l as [|x l IH]; cbn [app]; rewrite ?qsum_nil, ?qsum_cons; [ring|]. rewrite IH. ring. Qed.

Theorem fold_tilts_perm tl tl' z wl : Permutation tl tl' -> fold_tilts tl z wl = fold_tilts tl' z wl.
Proof. intros H. rewrite !fold_tilts_sum. f_equal; apply qsum_perm; now apply Permutation_map. Qed.

Theorem fold_tilts_app tl tl' z wl :
  fold_tilts (tl ++ tl') z wl
  = (fst (fold_tilts tl z wl) + fst (fold_tilts tl' z wl), snd (fold_tilts tl z wl) + snd (fold_tilts tl' z wl)).
Proof. rewrite !fold_tilts_sum, !map_app, !qsum_app. reflexivity. Qed.

Theorem field_shift_perm tl tl' z wl ps os ix : Permutation tl tl' ->
  field_shift tl z wl ps os ix = field_shift tl' z wl ps os ix.
Proof. intros H. unfold field_shift. now rewrite (fold_tilts_perm tl tl' z wl H). Qed.

(* the shift of a field depends on its tilt list only through the folded displacement *)
Theorem field_shift_through_fold tl tl' z wl ps os ix : fold_tilts tl z wl = fold_tilts tl' z wl ->
  field_shift tl z wl ps os ix = field_shift tl' z wl ps os ix.
Proof. intros H. unfold field_shift. now rewrite H. Qed.

(* the displacement in output samples (row, column) of a list of elements whose displacements in
   metres at the focal plane are (x_k, y_k): ( -(sum y_k)/du_r*os , (sum x_k)/du_c*os ) *)
Theorem field_shift_general tl z wl dur duc os :
  field_shift tl z wl (Some (dur, duc)) os IJ
  = Ok (- (qsum (map (fun t => snd (tilt_disp t z wl)) tl) / dur * os),
        qsum (map (fun t => fst (tilt_disp t z wl)) tl) / duc * os).
Proof. unfold field_shift. rewrite fold_tilts_sum. reflexivity. Qed.

(* ------------------------------------------------------------------------------------------ *)
(** * (a) angular tilts: the displacement formula *)

Definition ang_list (l : list (Qc * Qc)) : list tilt := map (fun ab => mk_tilt (fst ab) (snd ab)) l.

Lemma ang_disp_x l z wl :
  qsum (map (fun t => fst (tilt_disp t z wl)) (ang_list l)) = - (z * qsum (map snd l)).
Proof. induction l as [|[a b] l IH]; cbn [ang_list map] in *; rewrite ?qsum_nil, ?qsum_cons; [ring|].
  unfold ang_list in IH. rewrite IH. unfold tilt_disp, mk_tilt. cbn [tilt_shift fst snd]. ring. Qed.
Lemma ang_disp_y l z wl :
  qsum (map (fun t => snd (tilt_disp t z wl)) (ang_list l)) = - (z * qsum (map fst l)).
Proof. induction l as [|[a b] l IH]; cbn [ang_list map] in *; rewrite ?qsum_nil, ?qsum_cons; [ring|].
  unfold ang_list in IH. rewrite IH. unfold tilt_disp, mk_tilt. cbn [tilt_shift fst snd]. ring. Qed.

Theorem field_shift_formula (l : list (Qc * Qc)) z wl dur duc os :
  field_shift (ang_list l) z wl (Some (dur, duc)) os IJ
  = Ok (z * qsum (map fst l) * os / dur, - (z * qsum (map snd l) * os / duc)).
Proof.
  rewrite field_shift_general, ang_disp_x, ang_disp_y. f_equal. unfold Qcdiv. f_equal; ring.
Qed.
(* Cartesian indexing returns (x, y) in output samples *)
Theorem field_shift_formula_xy (l : list (Qc * Qc)) z wl dur duc os :
  field_shift (ang_list l) z wl (Some (dur, duc)) os XY
  = Ok (- (z * qsum (map snd l) * os / duc), - (z * qsum (map fst l) * os / dur)).
Proof.
  unfold field_shift. rewrite fold_tilts_sum, ang_disp_x, ang_disp_y. cbn [fst snd].
  f_equal. unfold Qcdiv. f_equal; ring.
Qed.
Lemma field_shift_errors tl z wl ps os :
  field_shift tl z wl ps os BadIndexing = Err ValueError
  /\ field_shift tl z wl None os IJ = Err ValueError /\ field_shift tl z wl None os XY = Err ValueError.
Proof. repeat split. Qed.

(* ------------------------------------------------------------------------------------------ *)
(** * (g) repeated fits: every recorded tilt of a segment is kept, and only their sum matters *)

Lemma stride_go_skip {A} size (p r : list A) c : (length p <= c)%nat ->
  stride_go size c (p ++ r) = stride_go size (c - length p) r.
Proof.
  revert c. induction p as [|x p IH]; intros c H; cbn [app length].
  - now rewrite Nat.sub_0_r.
  - destruct c as [|c]; [cbn in H; lia|]. cbn [stride_go]. rewrite IH by (cbn in H; lia). reflexivity.
Qed.

Lemma stride_go_block {A} size c (blk r : list A) d : length blk = size -> (c < size)%nat ->
  stride_go size c (blk ++ r) = nth c blk d :: stride_go size c r.
Proof.
  intros Hl Hc.
  rewrite <- (firstn_skipn c blk) at 1. rewrite <- app_assoc.
  assert (Hf : length (firstn c blk) = c) by (rewrite firstn_length; lia).
  rewrite stride_go_skip by lia. rewrite Hf, Nat.sub_diag.
  destruct (skipn c blk) as [|x q] eqn:E.
  - apply (f_equal (@length A)) in E. rewrite skipn_length in E. cbn in E. lia.
  - cbn [app stride_go]. f_equal.
    + rewrite <- (firstn_skipn c blk) at 1. rewrite app_nth2 by lia. rewrite Hf, Nat.sub_diag, E. reflexivity.
    + assert (Hq : length q = (size - c - 1)%nat).
      { apply (f_equal (@length A)) in E. rewrite skipn_length in E. cbn in E. lia. }
      rewrite stride_go_skip by lia. f_equal. lia.
Qed.

(* plane.tilt after k fits is the concatenation of k blocks of [size] entries; segment n receives
   entry n of every block, in order *)
Theorem stride_concat {A} (size n : nat) (blocks : list (list A)) d :
  Forall (fun b => length b = size) blocks -> (n < size)%nat ->
  stride n size (concat blocks) = map (fun b => nth n b d) blocks.
Proof.
  intros H Hn. unfold stride. induction H as [|b bs Hb _ IH]; cbn [concat map]; [reflexivity|].
  rewrite (stride_go_block size n b (concat bs) d) by assumption. now rewrite IH.
Qed.

(* ------------------------------------------------------------------------------------------ *)
(** * (f) first-order dispersive element *)

Lemma Qc_sq_nonneg (x : Qc) : 0 <= x * x.
Proof.
  destruct (Qclt_le_dec x 0) as [H|H].
  - assert (H' : 0 <= - x). { apply Qclt_le_weak in H. apply Qcopp_le_compat in H. exact H. }
    replace (x * x) with ((- x) * (- x)) by ring.
    replace 0 with (0 * - x) at 1 by ring. now apply Qcmult_le_compat_r.
  - replace 0 with (0 * x) at 1 by ring. now apply Qcmult_le_compat_r.
Qed.
Lemma root_nz root t0 : root * root = 1 + t0 * t0 -> root <> 0.
Proof. intros Hr E. rewrite E in Hr. pose proof (Qc_sq_nonneg t0) as H0.
  assert (Hx : t0 * t0 = - (1)). { transitivity ((1 + t0 * t0) - 1); [ring|]. rewrite <- Hr. ring. }
  rewrite Hx in H0. apply H0. reflexivity. Qed.

Theorem dispersive_first_order_q t0 t1 d0 d1 root wl z :
  d0 <> 0 -> root * root = 1 + t0 * t0 ->
  let xy := tilt_disp (TiltDisp t0 t1 d0 d1 root) z wl in
  let d := disp_dist d0 d1 wl in
  snd xy = t0 * fst xy + t1                                             (* on the trace polynomial *)
  /\ fst xy * fst xy + (snd xy - t1) * (snd xy - t1) = d * d           (* at (squared) arc length d from the trace origin *)
  /\ d0 * d + d1 = wl                                                    (* which the dispersion polynomial maps to lambda *)
  /\ fst xy * root = d.                                                  (* on the side of the origin given by the sign of d *)
Proof.
  intros Hd Hr. cbv zeta. unfold tilt_disp. cbn [tilt_shift disp_trace fst snd]. unfold disp_dist.
  pose proof (root_nz root t0 Hr) as Hroot.
  repeat split.
  - ring.
  - transitivity (((wl - d1) / d0 / root) * ((wl - d1) / d0 / root) * (1 + t0 * t0)); [ring|].
    rewrite <- Hr. field; tauto.
  - field; assumption.
  - field; tauto.
Qed.
