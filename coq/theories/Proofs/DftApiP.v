(* The public entry points: which calls are refused and with which exception, what the accepted ones return
   (the kernel of Model/Dft.v on the expanded arguments), argument forms, defaults, out=. *)
From LV Require Import Model.Dft Model.DftApi.

Lemma bcast2_formb {A} (x : argform A) :
  (formb x = true /\ exists p, bcast2 x = Ok p) \/ (formb x = false /\ bcast2 x = Err ValueError).
Proof. destruct x as [a|[|a [|b [|c l]]]|]; cbn; eauto. Qed.
Lemma bcast2_ok_formb {A} (x : argform A) p : bcast2 x = Ok p -> formb x = true.
Proof. destruct (bcast2_formb x) as [[H _]|[_ H]]; [auto|congruence]. Qed.
Lemma formb_false_err {A} (x : argform A) : formb x = false -> bcast2 x = Err ValueError.
Proof. destruct (bcast2_formb x) as [[H _]|[_ H]]; [congruence|auto]. Qed.
Lemma formb_true_ok {A} (x : argform A) : formb x = true -> exists p, bcast2 x = Ok p.
Proof. destruct (bcast2_formb x) as [[_ H]|[H _]]; [auto|congruence]. Qed.

Lemma check_out_cases out M N :
  (check_out out M N = Ok tt /\ out_accept out M N) \/
  (check_out out M N = Err TypeError /\ out_notype out) \/
  (check_out out M N = Err ValueError /\ out_badvalue out M N).
Proof.
  unfold check_out, out_accept, out_notype, out_badvalue. destruct out as [o|]; [|left; auto].
  destruct (o_dt o) eqn:D.
  - destruct (o_contig o) eqn:Ct; cbn [andb].
    + destruct (Z.eqb_spec (o_nr o) M); cbn [andb].
      * destruct (Z.eqb_spec (o_nc o) N).
        -- left. auto.
        -- right; right. split; [reflexivity|]. exists o. split; [reflexivity|]. right. auto.
      * right; right. split; [reflexivity|]. exists o. split; [reflexivity|]. right. auto.
    + right; right. split; [reflexivity|]. exists o. split; [reflexivity|]. right. auto.
  - right; left. split; [reflexivity|]. exists o. auto.
  - right; right. split; [reflexivity|]. exists o. auto.
Qed.
Lemma out_classes_exclusive out M N :
  ~ (out_accept out M N /\ out_notype out) /\ ~ (out_accept out M N /\ out_badvalue out M N)
  /\ ~ (out_notype out /\ out_badvalue out M N).
Proof. unfold out_accept, out_notype, out_badvalue. repeat split.
  - intros [A [o [E D]]]. subst. destruct A as [A _]. congruence.
  - intros [A [o [E D]]]. subst. destruct A as [A1 [A2 [A3 A4]]]. destruct D as [D|[_ [D|[D|D]]]]; congruence.
  - intros [[o [E D]] [o' [E' D']]]. subst. injection E' as <-. destruct D' as [D'|[D' _]]; congruence.
Qed.

Section DftApiP.
Variable S : Scalar.
Variable sq : Qc -> S.

Lemma req_shape_cases (g : arr S) shape :
  (shape_formb shape = true /\ exists p, req_shape g shape = Ok p) \/
  (shape_formb shape = false /\ req_shape g shape = Err ValueError).
Proof. destruct shape as [s|]; cbn; [apply bcast2_formb|left; eauto]. Qed.

(* ---- accepted calls: the kernel on the expanded arguments ---- *)
Theorem dft2_api_ok (g : arr S) alpha shape shift offset unitary out ar ac M N shr shc offr offc :
  bcast2 alpha = Ok (ar, ac) -> req_shape g shape = Ok (M, N) -> bcast2 shift = Ok (shr, shc) ->
  bcast2 offset = Ok (offr, offc) -> out_accept out (Z.max 0 M) (Z.max 0 N) ->
  dft2_api sq (In2 g) alpha shape shift offset unitary out
  = Ok (dft2 sq g ar ac (Z.max 0 M) (Z.max 0 N) shr shc offr offc unitary).
Proof.
  intros Ha Hs Ht Ho Hout. unfold dft2_api. rewrite Ha. cbn [rbind]. unfold req_shape in Hs. rewrite Hs. cbn [rbind].
  rewrite Ht, Ho. cbn [rbind fst snd].
  destruct (check_out_cases out (Z.max 0 M) (Z.max 0 N)) as [[E _]|[[E B]|[E B]]].
  - rewrite E. reflexivity.
  - exfalso. apply (proj1 (out_classes_exclusive out (Z.max 0 M) (Z.max 0 N))). auto.
  - exfalso. apply (proj1 (proj2 (out_classes_exclusive out (Z.max 0 M) (Z.max 0 N)))). auto.
Qed.

(* every argument valid: the call's verdict is the buffer's *)
Lemma dft2_api_valid (g : arr S) alpha shape shift offset unitary out a sh st off :
  bcast2 alpha = Ok a -> req_shape g shape = Ok sh -> bcast2 shift = Ok st -> bcast2 offset = Ok off ->
  dft2_api sq (In2 g) alpha shape shift offset unitary out
  = rbind (check_out out (Z.max 0 (fst sh)) (Z.max 0 (snd sh))) (fun _ =>
      Ok (dft2 sq g (fst a) (snd a) (Z.max 0 (fst sh)) (Z.max 0 (snd sh)) (fst st) (snd st) (fst off) (snd off) unitary)).
Proof. intros Ha Hs Ht Ho. unfold dft2_api. rewrite Ha. cbn [rbind]. unfold req_shape in Hs. rewrite Hs. cbn [rbind].
  rewrite Ht, Ho. reflexivity. Qed.

(* ---- refusals ---- *)
Lemma dft2_api_args_bad f alpha shape shift offset unitary out :
  args_ok f alpha shape shift offset = false ->
  dft2_api sq f alpha shape shift offset unitary out = Err ValueError.
Proof.
  unfold args_ok, dft2_api. intros H.
  destruct (bcast2_formb alpha) as [[Fa [a Ea]]|[Fa Ea]]; rewrite Ea; cbn [rbind]; [|reflexivity].
  destruct f as [g|r]; [|reflexivity].
  destruct (req_shape_cases g shape) as [[Fs [sh Es]]|[Fs Es]]; unfold req_shape in Es; rewrite Es; cbn [rbind]; [|reflexivity].
  destruct (bcast2_formb shift) as [[Ft [st Et]]|[Ft Et]]; rewrite Et; cbn [rbind]; [|reflexivity].
  destruct (bcast2_formb offset) as [[Fo [off Eo]]|[Fo Eo]]; rewrite Eo; cbn [rbind]; [|reflexivity].
  rewrite Fa, Fs, Ft, Fo in H. discriminate.
Qed.

(* complete description of a call's verdict *)
Theorem dft2_api_verdict f alpha shape shift offset unitary out :
  (* refused with ValueError: an argument of the wrong form / rank ... *)
  (args_ok f alpha shape shift offset = false ->
     dft2_api sq f alpha shape shift offset unitary out = Err ValueError)
  /\ (* ... otherwise the buffer decides *)
  (args_ok f alpha shape shift offset = true ->
     exists g a sh st off, f = In2 g /\ bcast2 alpha = Ok a /\ req_shape g shape = Ok sh /\ bcast2 shift = Ok st
       /\ bcast2 offset = Ok off /\
       let M := Z.max 0 (fst sh) in let N := Z.max 0 (snd sh) in
       (out_accept out M N ->
          dft2_api sq f alpha shape shift offset unitary out
          = Ok (dft2 sq g (fst a) (snd a) M N (fst st) (snd st) (fst off) (snd off) unitary))
       /\ (out_notype out -> dft2_api sq f alpha shape shift offset unitary out = Err TypeError)
       /\ (out_badvalue out M N -> dft2_api sq f alpha shape shift offset unitary out = Err ValueError)
       /\ (out_accept out M N \/ out_notype out \/ out_badvalue out M N)).
Proof.
  split; [apply dft2_api_args_bad|].
  unfold args_ok. intros H. apply andb_prop in H as [H Ho]. apply andb_prop in H as [H Ht].
  apply andb_prop in H as [H Hs]. apply andb_prop in H as [Ha Hf].
  destruct f as [g|r]; [|discriminate].
  destruct (formb_true_ok alpha Ha) as [a Ea]. destruct (formb_true_ok shift Ht) as [st Et].
  destruct (formb_true_ok offset Ho) as [off Eo].
  destruct (req_shape_cases g shape) as [[_ [sh Es]]|[Fs _]]; [|congruence].
  exists g, a, sh, st, off. repeat (split; [assumption || reflexivity|]).
  cbn zeta. rewrite (dft2_api_valid g alpha shape shift offset unitary out a sh st off Ea Es Et Eo).
  pose proof (out_classes_exclusive out (Z.max 0 (fst sh)) (Z.max 0 (snd sh))) as [X1 [X2 X3]].
  destruct (check_out_cases out (Z.max 0 (fst sh)) (Z.max 0 (snd sh))) as [[E A]|[[E B]|[E B]]]; rewrite E; cbn [rbind];
    repeat split; intros; try reflexivity; try tauto; exfalso; tauto.
Qed.

(* the call depends on an argument only through its broadcast: scalar, one-element and two-element forms agree *)
Theorem dft2_api_forms f alpha alpha' shape shape' shift shift' offset offset' unitary out :
  bcast2 alpha = bcast2 alpha' -> bcast2 shift = bcast2 shift' -> bcast2 offset = bcast2 offset' ->
  (forall g : arr S, req_shape g shape = req_shape g shape') ->
  dft2_api sq f alpha shape shift offset unitary out = dft2_api sq f alpha' shape' shift' offset' unitary out.
Proof. intros Ha Ht Ho Hs. unfold dft2_api. rewrite Ha, Ht, Ho. destruct (bcast2 alpha'); cbn [rbind]; [|reflexivity].
  destruct f as [g|r]; [|reflexivity]. specialize (Hs g). unfold req_shape in Hs. rewrite Hs. reflexivity. Qed.
Lemma bcast2_scalar_forms {A} (a : A) : bcast2 (FScalar a) = bcast2 (FSeq [a]) /\ bcast2 (FScalar a) = bcast2 (FSeq [a; a]).
Proof. split; reflexivity. Qed.

(* out=: an accepted buffer changes nothing - same value as a fresh allocation (the model has no buffer content) *)
Theorem dft2_api_out_transparent f alpha shape shift offset unitary o F :
  dft2_api sq f alpha shape shift offset unitary (Some o) = Ok F ->
  dft2_api sq f alpha shape shift offset unitary None = Ok F.
Proof.
  unfold dft2_api. destruct (bcast2 alpha); cbn [rbind]; [|discriminate].
  destruct f as [g|r]; [|discriminate].
  destruct (match shape with Some s => bcast2 s | None => Ok (nr g, nc g) end); cbn [rbind]; [|discriminate].
  destruct (bcast2 shift); cbn [rbind]; [|discriminate]. destruct (bcast2 offset); cbn [rbind]; [|discriminate].
  destruct (check_out (Some o) _ _) as [[]|e]; cbn [rbind]; [|discriminate]. intros H. exact H.
Qed.

(* ---- the inverse entry point ---- *)
Theorem idft2_api_verdict F alpha shape shift unitary out :
  (forall e, idft2_api sq F alpha shape shift unitary out = Err e <->
             dft2_api sq (input_conj F) alpha shape shift (FSeq [0; 0]) unitary out = Err e)
  /\ (forall R, idft2_api sq F alpha shape shift unitary out = Ok R ->
        exists g ar ac M N shr shc, F = In2 g /\ bcast2 alpha = Ok (ar, ac) /\ req_shape g shape = Ok (M, N)
          /\ bcast2 shift = Ok (shr, shc) /\ out_accept out (Z.max 0 M) (Z.max 0 N)
          /\ R = idft2 sq g ar ac (Z.max 0 M) (Z.max 0 N) shr shc unitary).
Proof.
  split.
  - intros e. unfold idft2_api. destruct (dft2_api sq (input_conj F) alpha shape shift (FSeq [0; 0]) unitary out); cbn [rbind];
      split; intros H; congruence.
  - intros R H. unfold idft2_api in H.
    destruct (dft2_api sq (input_conj F) alpha shape shift (FSeq [0; 0]) unitary out) as [G|e] eqn:E; cbn [rbind] in H; [|discriminate].
    injection H as <-.
    destruct (args_ok (input_conj F) alpha shape shift (FSeq [0; 0])) eqn:A.
    2:{ rewrite (dft2_api_args_bad _ _ _ _ _ unitary out A) in E. discriminate. }
    destruct (proj2 (dft2_api_verdict (input_conj F) alpha shape shift (FSeq [0; 0]) unitary out) A)
      as [g' [a [sh [st [off [Ef [Ea [Es [Et [Eo [V1 [V2 [V3 V4]]]]]]]]]]]]].
    destruct F as [g|r]; cbn [input_conj] in Ef; [|discriminate]. injection Ef as <-.
    cbn zeta in *. destruct V4 as [V|[V|V]].
    + rewrite (V1 V) in E. injection E as <-. cbn in Eo. injection Eo as <-.
      destruct a as [ar ac], sh as [M N], st as [shr shc]. cbn [fst snd] in *.
      exists g, ar, ac, M, N, shr, shc. repeat split; try assumption.
    + rewrite (V2 V) in E. discriminate.
    + rewrite (V3 V) in E. discriminate.
Qed.
End DftApiP.
