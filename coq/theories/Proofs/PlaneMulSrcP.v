(* WP-T4, C07: the bookkeeping decisions of lentil/plane.py:Plane.multiply - which pixel scales are accepted,
   inherited or refused (_mul_pixelscale), and which shape the product has - translated from the source text on every
   check (Gen/PlaneMulSrc.v; pixel scales as exact rationals), equal Model/Plane.v's [mul_pixelscale] and the shape
   rule of its multiply for all integers. *)
From LV Require Import Model.Plane Model.Rescale Proofs.RescaleP Proofs.SrcQ Gen.PlaneMulSrc Proofs.SrcTac.
Open Scope Z_scope.

Definition qpair (p : (Z * Z) * (Z * Z)) : Qc * Qc :=
  let '((n0, d0), (n1, d1)) := p in ((zq n0 / zq d0)%Qc, (zq n1 / zq d1)%Qc).

Lemma src_mul_pixelscale_vals : forall an0 ad0 an1 ad1 bn0 bd0 bn1 bd1 : Z,
  src_mul_pixelscale ((an0, ad0), (an1, ad1)) ((bn0, bd0), (bn1, bd1)) =
  if (an0 * bd0 =? bn0 * ad0) && (an1 * bd1 =? bn1 * ad1) then Ok ((an0, ad0), (an1, ad1)) else Err ValueError.
Proof. intros; unfold src_mul_pixelscale; src_finish. Qed.

Lemma src_mul_pixelscale_ok : forall a b : (Z * Z) * (Z * Z),
  0 < snd (fst a) -> 0 < snd (snd a) -> 0 < snd (fst b) -> 0 < snd (snd b) ->
  mul_pixelscale (Some (qpair a)) (Some (qpair b)) =
  match src_mul_pixelscale a b with Ok p => Ok (Some (qpair p)) | Err e => Err e end.
Proof.
  intros [[an0 ad0] [an1 ad1]] [[bn0 bd0] [bn1 bd1]]. cbn [fst snd]. intros.
  rewrite src_mul_pixelscale_vals. unfold mul_pixelscale, qpair. cbn [fst snd].
  rewrite !Qc_eq_bool_frac by assumption. destruct (_ && _); reflexivity.
Qed.

Lemma src_mul_pixelscale_left_none_ok : forall b : (Z * Z) * (Z * Z),
  mul_pixelscale None (Some (qpair b)) = Ok (Some (qpair (src_mul_pixelscale_left_none b))).
Proof. intros [[n0 d0] [n1 d1]]. reflexivity. Qed.

Lemma src_mul_pixelscale_right_none_ok : forall a : (Z * Z) * (Z * Z),
  mul_pixelscale (Some (qpair a)) None = Ok (Some (qpair (src_mul_pixelscale_right_none a))).
Proof. intros [[n0 d0] [n1 d1]]. reflexivity. Qed.

Lemma src_multiply_shape_ok : forall (ps ws : Z * Z) (can : bool),
  src_multiply_shape ps ws can = if negb can then Err TypeError else Ok ps.
Proof. intros; destr_prods; unfold src_multiply_shape; src_finish. Qed.

Lemma src_multiply_shape_scalar_plane_ok : forall (ws : Z * Z) (can : bool),
  src_multiply_shape_scalar_plane ws can = if negb can then Err TypeError else Ok ws.
Proof. intros; destr_prods; unfold src_multiply_shape_scalar_plane; src_finish. Qed.
