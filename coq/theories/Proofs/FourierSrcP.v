(* WP-T4, C01: the integer bookkeeping of lentil/fourier.py - the coordinate origins of _dft2_coords, the arguments
   dft2 hands to _dft2_matrices after broadcasting shape / shift / offset, the divisor of the non-unitary idft2 -
   translated from the source text on every check (Gen/FourierSrc.v), equals what Model/Dft.v uses. *)
From LV Require Import Model.Dft Gen.FourierSrc Proofs.SrcTac.

Lemma src_dft2_coords_ok : forall m n M N k : Z,
  src_dft2_coords m n M N k = (k - m / 2, k - n / 2, k - M / 2, k - N / 2).
Proof. intros; unfold src_dft2_coords; src_finish. Qed.

(* the model's phase is written with exactly these coordinates: input sample x of an axis of length n sits at
   R[x] + offset, output sample u of an axis of length Nn at U[u] - shift *)
Lemma phase_uses_coords : forall (alpha : Qc) (n off x : Z) (shift : Qc) (Nn u : Z),
  phase alpha n off x shift Nn u =
  (let '(_, rx, _, _) := src_dft2_coords 0 n 0 0 x in let '(_, _, uu, _) := src_dft2_coords 0 0 Nn 0 u in
   alpha * zq (rx + off) * (zq uu - shift))%Qc.
Proof. intros. rewrite !src_dft2_coords_ok. reflexivity. Qed.

Lemma src_dft2_args_ok : forall (m n shr shc offr offc : Z),
  src_dft2_args (m, n) (shr, shc) (offr, offc) = (m, n, m, n, shr, shc, offr, offc).
Proof. intros; unfold src_dft2_args; src_finish. Qed.

Lemma src_dft2_args_shape_ok : forall (m n M N shr shc offr offc : Z),
  src_dft2_args_shape (m, n) (M, N) (shr, shc) (offr, offc) = (m, n, M, N, shr, shc, offr, offc).
Proof. intros; unfold src_dft2_args_shape; src_finish. Qed.

Lemma src_dft2_args_scalars_ok : forall (m n M sh off : Z),
  src_dft2_args_scalars (m, n) M sh off = (m, n, M, M, sh, sh, off, off).
Proof. intros; unfold src_dft2_args_scalars; src_finish. Qed.

(* idft2 divides by the number of INPUT samples, and only when not unitary: the model's 1/(nr F * nc F) *)
Lemma src_idft2_divisor_ok : forall (m n : Z) (unitary : bool),
  src_idft2_divisor (m, n) unitary = if unitary then None else Some (m * n).
Proof. intros; unfold src_idft2_divisor; src_finish. Qed.

Lemma idft2_uses_divisor : forall (S : Scalar) (sq : Qc -> S) (F : arr S) (ar ac : Qc) (M N : Z) (shr shc : Qc)
    (unitary : bool),
  idft2 sq F ar ac M N shr shc unitary =
  let G' := amap kconj (dft2 sq (amap kconj F) ar ac M N shr shc 0 0 unitary) in
  match src_idft2_divisor (nr F, nc F) unitary with
  | None => G'
  | Some d => amap (fun z => (z * kofq (/ zq d)%Qc)%K) G'
  end.
Proof. intros. rewrite src_idft2_divisor_ok. unfold idft2. destruct unitary; reflexivity. Qed.
