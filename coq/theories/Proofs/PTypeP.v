(* Lemmas for property C08.  The finite facts are decided by case analysis over the finite
   inductive types themselves (wtype, content, bool, ptype, method, cls): the generated tables are
   total functions on them, so [destruct; reflexivity] is a complete proof, re-checked against the
   freshly generated tables on every run.  The statements about programs are by induction. *)
From LV Require Import Model.PTypeSpec.

Ltac fin := repeat match goal with
  | s : wstate |- _ => destruct s as [? ?]
  | w : wtype |- _ => destruct w
  | c : content |- _ => destruct c
  | b : bool |- _ => destruct b
  | p : ptype |- _ => destruct p
  | m : method |- _ => destruct m
  | k : cls |- _ => destruct k
  | o : option ptype |- _ => destruct o
  end.

(* ---- (a) the tables ---- *)
Lemma mul_table_matches_doc : forall w b p clip,
  erase (observed_mul (St w b) p clip false) = tdoc w (doc_mul w p).
Proof. intros; fin; reflexivity. Qed.

(* a cell the table forbids is refused with TypeError whatever the sampling of the two operands *)
Lemma forbidden_cell_is_TypeError : forall w b p clip mism,
  doc_mul w p = None -> observed_mul (St w b) p clip mism = Raises ETypeError (St w b).
Proof. intros w b p clip mism H; fin; cbn in H; try discriminate H; reflexivity. Qed.

Lemma forbidden_class_cell_is_TypeError : forall k po clip mism w b,
  op_claimed (MulClass k po clip mism) = true -> doc_mul w (eff_ptype k po) = None ->
  observed_class_mul k po clip mism (St w b) = Raises ETypeError (St w b).
Proof.
  intros k po clip mism w b C H.
  destruct k, po as [[]|]; cbn in C; try discriminate C;
    destruct w; cbn in H; try discriminate H; destruct clip, mism, b; reflexivity.
Qed.

Lemma propagation_matches_doc : forall m w b, b <> Tilted ->
  erase (observed_prop m (St w b)) = tdoc w (doc_prop m w).
Proof. intros m w b H; fin; try congruence; reflexivity. Qed.

Lemma propagation_with_tilt : forall m w,
  erase (observed_prop m (St w Tilted)) =
  if (match m with Fft => true | Dft => false end) && observed_fft_refuses_tilt
  then TRaises ENotImplementedError w
  else tdoc w (doc_prop m w).
Proof. intros; fin; reflexivity. Qed.

Lemma propagation_only_between_pupil_and_image :
  (forall m s s', observed_prop m s = Yields s' ->
     (ty s = WPupil /\ ty s' = WImage) \/ (ty s = WImage /\ ty s' = WPupil)) /\
  (forall m b, exists e, observed_prop m (St WNone b) = Raises e (St WNone b)) /\
  (forall w b, w <> WNone -> exists s', observed_prop Dft (St w b) = Yields s') /\
  (forall w b, w <> WNone -> b <> Tilted -> exists s', observed_prop Fft (St w b) = Yields s').
Proof.
  repeat split.
  - intros m s s' H. fin; cbn in H; try discriminate H; inversion H; cbn; auto.
  - intros m b. fin; cbn; eexists; reflexivity.
  - intros w b H. fin; try congruence; cbn; eexists; reflexivity.
  - intros w b H H'. fin; try congruence; cbn; eexists; reflexivity.
Qed.

(* ---- one step ---- *)
Lemma step_follows_doc : forall s o, op_claimed o = true -> step observed s o = step documented s o.
Proof.
  intros s o H. destruct o as [p clip mism | k po clip mism | m | s'].
  - fin; reflexivity.
  - fin; try discriminate H; reflexivity.
  - fin; reflexivity.
  - reflexivity.
Qed.

Definition wstate_eqb (a b : wstate) : bool :=
  wtype_eqb (ty a) (ty b) &&
  match body a, body b with Plain, Plain | Tilted, Tilted | Empty, Empty => true | _, _ => false end.
Lemma wstate_eqb_eq : forall a b, wstate_eqb a b = true -> a = b.
Proof. intros [[] []] [[] []] H; try discriminate H; reflexivity. Qed.
Definition kept_ok (x : outcome) (s : wstate) : bool :=
  match x with Raises _ k => wstate_eqb k s | Yields _ => true end.
Lemma kept_ok_all : forall s (o : op cls), kept_ok (step observed s o) s = true.
Proof. intros s o. destruct o as [p clip mism | c po clip mism | m | s']; fin; reflexivity. Qed.

Lemma refused_step_keeps_state : forall s (o : op cls) e k, step observed s o = Raises e k -> k = s.
Proof.
  intros s o e k H. pose proof (kept_ok_all s o) as K. rewrite H in K. apply wstate_eqb_eq. exact K.
Qed.

(* ---- (b) programs: induction over the op list ---- *)
Lemma run_program_ext : forall (C : Type) (M M' : machine C) (ok : op C -> bool),
  (forall s o, ok o = true -> step M s o = step M' s o) ->
  forall ops s, forallb ok ops = true -> run_program M s ops = run_program M' s ops.
Proof.
  intros C M M' ok Hstep. induction ops as [| o rest IH]; intros s H.
  - reflexivity.
  - cbn in H. apply andb_prop in H. destruct H as [Ho Hr].
    cbn [run_program]. rewrite (Hstep s o Ho). f_equal. apply IH. exact Hr.
Qed.

Lemma programs_follow_doc : forall s ops,
  forallb op_claimed ops = true -> run_program observed s ops = run_program documented s ops.
Proof. intros. apply run_program_ext with (ok := op_claimed); auto using step_follows_doc. Qed.

Lemma final_state_follows_doc : forall ops s,
  forallb op_claimed ops = true -> final_state observed s ops = final_state documented s ops.
Proof.
  induction ops as [| o rest IH]; intros s H; [reflexivity|].
  cbn in H. apply andb_prop in H. destruct H as [Ho Hr].
  cbn [final_state]. rewrite (step_follows_doc s o Ho). apply IH. exact Hr.
Qed.

(* the content influences nothing but propagate_fft: without that routine the types follow the
   three tables read on types alone *)
Lemma step_types : forall s o, op_claimed o = true -> consistent o = true -> is_fft o = false ->
  erase (step observed s o) = tstep (ty s) o /\ ty (next (step observed s o)) = tnext (tstep (ty s) o).
Proof.
  intros s o H K F. destruct o as [p clip mism | k po clip mism | m | s'].
  - destruct mism; [discriminate K|]. fin; split; reflexivity.
  - destruct mism; [discriminate K|]. fin; try discriminate H; split; reflexivity.
  - fin; try discriminate F; split; reflexivity.
  - split; reflexivity.
Qed.

Lemma program_types_follow_tables : forall ops s,
  forallb op_claimed ops = true -> forallb consistent ops = true ->
  forallb (fun o => negb (is_fft o)) ops = true ->
  map erase (run_program observed s ops) = run_types (ty s) ops.
Proof.
  induction ops as [| o rest IH]; intros s H K F; [reflexivity|].
  cbn in H, K, F. apply andb_prop in H. destruct H as [Ho Hr].
  apply andb_prop in K. destruct K as [Ko Kr].
  apply andb_prop in F. destruct F as [Fo Fr]. apply negb_true_iff in Fo.
  destruct (step_types s o Ho Ko Fo) as [E N].
  cbn [run_program run_types map]. rewrite E. f_equal.
  rewrite (IH _ Hr Kr Fr). rewrite N. reflexivity.
Qed.

(* with propagate_fft too, as long as the program starts without tilt and no step attaches one *)
Lemma step_types_untilted : forall s o, op_claimed o = true -> consistent o = true ->
  untilting o = true -> tilted s = false ->
  erase (step observed s o) = tstep (ty s) o /\
  ty (next (step observed s o)) = tnext (tstep (ty s) o) /\
  tilted (next (step observed s o)) = false.
Proof.
  intros s o H K U T. destruct o as [p clip mism | k po clip mism | m | s'].
  - destruct mism; [discriminate K|]. fin; try discriminate T; repeat split; reflexivity.
  - destruct mism; [discriminate K|].
    fin; try discriminate H; try discriminate T; try discriminate U; repeat split; reflexivity.
  - fin; try discriminate T; repeat split; reflexivity.
  - unfold untilting in U. cbn in U. repeat rewrite andb_true_r in U.
    repeat split. cbn. destruct (tilted s'); [discriminate U | reflexivity].
Qed.

Lemma untilted_program_types_follow_tables : forall ops s,
  forallb op_claimed ops = true -> forallb consistent ops = true ->
  forallb untilting ops = true -> tilted s = false ->
  map erase (run_program observed s ops) = run_types (ty s) ops.
Proof.
  induction ops as [| o rest IH]; intros s H K U T; [reflexivity|].
  cbn in H, K, U. apply andb_prop in H. destruct H as [Ho Hr].
  apply andb_prop in K. destruct K as [Ko Kr].
  apply andb_prop in U. destruct U as [Uo Ur].
  destruct (step_types_untilted s o Ho Ko Uo T) as [E [N T']].
  cbn [run_program run_types map]. rewrite E. f_equal.
  rewrite (IH _ Hr Kr Ur T'). rewrite N. reflexivity.
Qed.

(* ---- (c) the documented classes ---- *)
Definition class_applies (k : cls) (p : ptype) : Prop :=
  observed_class_ptype k = p /\
  (exists w, doc_mul w p <> None) /\
  (forall w t b clip, doc_mul w p = Some t ->
     exists b', observed_class_mul k None clip false (St w b) = Yields (St t b')).

Lemma documented_classes_apply_partial : forall k p,
  doc_class_ptype k = Some p -> known_broken k = false -> class_applies k p.
Proof.
  intros k p D B. unfold class_applies.
  destruct k; cbn in B; try discriminate B; cbn in D; inversion D; subst p; (split; [reflexivity|]);
    (split; [exists WNone; cbn; discriminate|]);
    intros w t b clip H; destruct w, b, clip; cbn in H; try discriminate H; inversion H; subst t; cbn;
    eexists; reflexivity.
Qed.

Lemma rotate_flip_refuted : forall k, known_broken k = true ->
  doc_class_ptype k = Some PTransform /\ observed_class_ptype k = PNone /\
  forall clip mism s, observed_class_mul k None clip mism s = Raises EAttributeError s.
Proof.
  intros k B. destruct k; cbn in B; try discriminate B; repeat split; intros; fin; reflexivity.
Qed.

(* the documented ptype override of a class constructor gives an instance of that ptype *)
Lemma ptype_override_is_honoured : forall k p q, observed_override_ptype k p = Some q -> q = p.
Proof. intros k p q H. destruct k, p; cbn in H; try discriminate H; inversion H; reflexivity. Qed.

Lemma documented_classes_apply_refuted :
  ~ (forall k p, doc_class_ptype k = Some p -> class_applies k p).
Proof.
  intro H. destruct (H KRotate PTransform eq_refl) as [E _]. cbn in E. discriminate E.
Qed.

Lemma programs_with_rotate_refuted :
  exists s ops, run_program observed s ops <> run_program documented s ops.
Proof. exists (St WPupil Plain), [MulClass KRotate None false false]. cbn. discriminate. Qed.
