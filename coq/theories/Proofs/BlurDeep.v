(* Over the complex numbers: (1) the array handed to np.abs is real for pixel and jitter on every shape and for smear
   on odd x odd frames; (2) the renormalisation of jitter / smear divides by zero exactly on the all-zero frame. *)
From Coq Require Import Reals Lra QArith Qreals Qcanon.
From Coquelicot Require Import Complex.
From LV Require Import Lib.Cis Model.Blur Model.BlurEntry Proofs.ArrP Proofs.BlurP Proofs.BlurC Proofs.BlurEven.
Local Open Scope Z_scope.

Lemma CS_conj_q : forall q : Qc, @kconj CS (kofq q) = kofq q.
Proof. intros q. cbn [kconj kofq CS]. unfold Cconj, RtoC. cbn. f_equal. ring. Qed.

Definition real_image (img : arr CS) : Prop :=
  forall x y, 0 <= x < nr img -> 0 <= y < nc img -> Cconj (get img x y) = get img x y.

Section PreAbsReal.
Variables sinc gauss : Qc -> C.
Hypothesis sinc_real : forall q, Cconj (sinc q) = sinc q.
Hypothesis gauss_real : forall q, Cconj (gauss q) = gauss q.
Hypothesis sinc_even : forall q : Qc, sinc (- q)%Qc = sinc q.

Theorem preabs_real (img : arr CS) os scale ps d sn cs i j : real_image img -> 0 <= i < nr img -> 0 <= j < nc img ->
  Cconj (get (conv (@pixel_mul CS sinc os (nr img) (nc img)) img) i j)
    = get (conv (@pixel_mul CS sinc os (nr img) (nc img)) img) i j
  /\ Cconj (get (conv (@jitter_mul CS gauss scale ps os (nr img) (nc img)) img) i j)
    = get (conv (@jitter_mul CS gauss scale ps os (nr img) (nc img)) img) i j
  /\ (Z.odd (nr img) = true -> Z.odd (nc img) = true ->
      Cconj (get (conv (@smear_mul CS sinc d sn cs ps os (nr img) (nc img)) img) i j)
      = get (conv (@smear_mul CS sinc d sn cs ps os (nr img) (nc img)) img) i j).
Proof.
  intros Hre Hi Hj. assert (Hm : 0 < nr img) by lia. assert (Hn : 0 < nc img) by lia.
  split; [|split].
  - apply (conv_real CS CS_ring CS_kernel CS_period CS_conj CS_conj_q); try assumption.
    + intros u v _ _. cbn [pixel_mul get]. etransitivity; [apply (kconj_mul CS CS_conj)|].
      cbn [kconj kmul CS]. now rewrite !sinc_real.
    + intros u v Hu Hv. now apply pixel_mul_even.
  - apply (conv_real CS CS_ring CS_kernel CS_period CS_conj CS_conj_q); try assumption.
    + intros u v _ _. cbn [jitter_mul get kconj CS]. apply gauss_real.
    + intros u v Hu Hv. now apply jitter_mul_even.
  - intros Om On. apply (conv_real CS CS_ring CS_kernel CS_period CS_conj CS_conj_q); try assumption.
    + intros u v _ _. cbn [smear_mul get kconj CS]. apply sinc_real.
    + intros u v Hu Hv. apply smear_mul_even; try assumption.
      * intro E. rewrite <- E, Z.odd_mul in Om. cbn in Om. discriminate.
      * intro E. rewrite <- E, Z.odd_mul in On. cbn in On. discriminate.
Qed.
End PreAbsReal.

(* ------------------------------------------------------------------------------------------ *)
(** * 0/0 in the renormalisation *)
Definition Cis0 (z : C) : bool := if Ceq_dec z (RtoC 0) then true else false.
Lemma Cis0_true z : Cis0 z = true <-> z = RtoC 0.
Proof. unfold Cis0. destruct (Ceq_dec z (RtoC 0)); split; intros; congruence. Qed.

Lemma Cnn_add_zero a b : Cnn a -> Cnn b -> Cplus a b = RtoC 0 -> a = RtoC 0 /\ b = RtoC 0.
Proof. destruct a as [a1 a2], b as [b1 b2]. intros [H1 H2] [H3 H4] E. cbn in *. subst.
  unfold Cplus, RtoC in E. cbn in E. injection E as E1 _.
  assert (a1 = 0%R) by lra. assert (b1 = 0%R) by lra. subst. split; reflexivity. Qed.

Lemma Cnn_sumZ_zero n (f : Z -> C) : (forall i, 0 <= i < n -> Cnn (f i)) -> @sumZ CS n f = RtoC 0 ->
  forall i, 0 <= i < n -> f i = RtoC 0.
Proof.
  intros Hnn. unfold sumZ.
  assert (G : forall k, (k <= Z.to_nat n)%nat -> @sumn CS k (fun i => f (Z.of_nat i)) = RtoC 0 ->
              forall i, (i < k)%nat -> f (Z.of_nat i) = RtoC 0).
  { induction k as [|k IH]; intros Hk E i Hi; [lia|]. cbn [sumn kadd CS] in E.
    apply Cnn_add_zero in E.
    - destruct E as [E1 E2]. destruct (Nat.eq_dec i k) as [->|Hne]; [assumption|]. apply IH; try assumption; lia.
    - clear E. assert (Gk : forall k', (k' <= Z.to_nat n)%nat -> Cnn (@sumn CS k' (fun i => f (Z.of_nat i)))).
      { induction k' as [|k' IH']; intros Hk'; cbn [sumn]. - apply Cnn_0.
        - apply Cnn_add; [apply IH'; lia|apply Hnn; lia]. }
      apply Gk. lia.
    - apply Hnn. lia. }
  intros E i Hi. specialize (G (Z.to_nat n) (le_n _) E (Z.to_nat i) ltac:(lia)).
  now rewrite Z2Nat.id in G by lia.
Qed.

Lemma dft1_zero n u : @dft1 CS n (fun _ => RtoC 0) u = RtoC 0.
Proof. unfold dft1. change (RtoC 0) with (@k0 CS) at 2. apply (sumZ_zero_ext CS CS_ring). intros. csimp. ring. Qed.
Lemma idft1r_zero n u : @idft1r CS n (fun _ => RtoC 0) u = RtoC 0.
Proof. unfold idft1r. change (RtoC 0) with (@k0 CS) at 2. apply (sumZ_zero_ext CS CS_ring). intros. csimp. ring. Qed.

Lemma conv_zero (K a : arr CS) i j : 0 <= i < nr a -> 0 <= j < nc a ->
  (forall x y, 0 <= x < nr a -> 0 <= y < nc a -> get a x y = RtoC 0) -> get (conv K a) i j = RtoC 0.
Proof.
  intros Hi Hj Hz. rewrite conv_get by assumption.
  rewrite (@I2r_ext CS (nr a) (nc a) _ (fun _ _ => RtoC 0)).
  - unfold I2r. rewrite (@idft1r_ext CS (nr a) _ (fun _ => RtoC 0)) by (intros; apply idft1r_zero).
    rewrite idft1r_zero. csimp. ring.
  - intros u v Hu Hv. rewrite (@F2_ext CS (nr a) (nc a) _ (fun _ _ => RtoC 0)) by assumption.
    unfold F2. rewrite (@dft1_ext CS (nc a) _ (fun _ => RtoC 0)) by (intros; apply dft1_zero).
    rewrite dft1_zero. csimp. ring.
Qed.

Definition zero_image (img : arr CS) : Prop :=
  forall i j, 0 <= i < nr img -> 0 <= j < nc img -> get img i j = RtoC 0.

Lemma nonneg_total_zero (img : arr CS) : nonneg_image img -> asum img = RtoC 0 -> zero_image img.
Proof. intros Hnn Ez i j Hi Hj. unfold asum in Ez.
  pose proof (Cnn_sumZ_zero (nr img) _ (fun i' Hi' => Cnn_sumZ (nc img) _ (fun j' Hj' => Hnn i' j' Hi' Hj')) Ez i Hi) as Er.
  exact (Cnn_sumZ_zero (nc img) _ (fun j' Hj' => Hnn i j' Hi Hj') Er j Hj). Qed.

Lemma zero_image_total (img : arr CS) : zero_image img -> asum img = RtoC 0.
Proof. intros Hz. unfold asum. change (RtoC 0) with (@k0 CS). apply (sumZ_zero_ext CS CS_ring). intros i Hi.
  apply (sumZ_zero_ext CS CS_ring). intros j Hj. now apply Hz. Qed.

(* the weight of the blurred frame vanishes exactly on the all-zero frame *)
Lemma blur_weight_zero_iff (K img : arr CS) : 0 < nr img -> 0 < nc img -> get K 0 0 = k1 -> nonneg_image img ->
  Cis0 (asum (@blur CS Cabs K img)) = true <-> zero_image img.
Proof.
  intros Hm Hn HK Hnn. rewrite Cis0_true. split.
  - intros E. destruct (asum_abs_ge (conv K img)) as [r [Hr Hle]].
    unfold blur in E. rewrite Hr in E. apply RtoC_inj in E. subst r.
    rewrite conv_total in Hle by assumption.
    apply nonneg_total_zero; [assumption|]. apply Cmod_eq_0. pose proof (Cmod_ge_0 (asum img)). lra.
  - intros Hz. unfold asum. change (RtoC 0) with (@k0 CS). apply (sumZ_zero_ext CS CS_ring). intros i Hi.
    apply (sumZ_zero_ext CS CS_ring). intros j Hj.
    change (Cabs (get (conv K img) i j) = RtoC 0). rewrite conv_zero by assumption.
    unfold Cabs. now rewrite Cmod_0.
Qed.

(* the renormalisation is total on non-negative inputs: zeros on the all-zero frame, otherwise the renormalised blur;
   in both cases the total of the image is kept and no sample is negative *)
Theorem renorm_checked_total (K img : arr CS) : 0 < nr img -> 0 < nc img -> get K 0 0 = k1 -> nonneg_image img ->
  (zero_image img ->
     @renorm_checked CS Cis0 Cinv (@blur CS Cabs K img) img = @blur CS Cabs K img
     /\ forall i j, 0 <= i < nr img -> 0 <= j < nc img ->
        get (@renorm_checked CS Cis0 Cinv (@blur CS Cabs K img) img) i j = RtoC 0)
  /\ (~ zero_image img ->
     @renorm_checked CS Cis0 Cinv (@blur CS Cabs K img) img = @renorm CS Cinv (@blur CS Cabs K img) img)
  /\ asum (@renorm_checked CS Cis0 Cinv (@blur CS Cabs K img) img) = asum img
  /\ (forall i j, 0 <= i < nr img -> 0 <= j < nc img ->
        Cnn (get (@renorm_checked CS Cis0 Cinv (@blur CS Cabs K img) img) i j)).
Proof.
  intros Hm Hn HK Hnn. pose proof (blur_weight_zero_iff K img Hm Hn HK Hnn) as Hiff.
  unfold renorm_checked. destruct (Cis0 (asum (@blur CS Cabs K img))) eqn:E.
  - assert (Hz : zero_image img) by now apply Hiff.
    split; [|split; [|split]].
    + intros _. split; [reflexivity|]. intros i j Hi Hj.
      change (Cabs (get (conv K img) i j) = RtoC 0). rewrite conv_zero by assumption. unfold Cabs. now rewrite Cmod_0.
    + intros Hnz. contradiction.
    + rewrite (zero_image_total img Hz). now apply Cis0_true.
    + intros i j _ _. apply blur_nonneg.
  - assert (Hnz : ~ zero_image img). { intros Hz. apply Hiff in Hz. discriminate. }
    split; [|split; [|split]].
    + intros Hz. contradiction.
    + intros _. reflexivity.
    + apply blur_renorm_total; try assumption. intro Ez. apply Hnz. now apply nonneg_total_zero.
    + intros i j Hi Hj. apply renorm_nonneg; try assumption. intros; apply blur_nonneg.
Qed.
