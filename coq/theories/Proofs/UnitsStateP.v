(* C14 (deepen) - Spectrum.to: which calls are refused and with which exception, what the object holds
   after a refused call, and that the wave setter's re-validation never fires on a well-formed spectrum. *)
From Coq Require Import Reals Lra.
From LV Require Import Lib.Base Model.UnitsBase Gen.UnitTable Model.Units Proofs.UnitsP.

Section Generic.
Variable K : Fld.
Variables cH cC : K.
Variable leb : K -> K -> bool.
Notation to1 := (to1 K cH cC).
Notation to1c := (to1c K cH cC leb).
Notation toc := (toc K cH cC leb).
Notation to_st := (to_st K cH cC leb).

(* one argument of Spectrum.to: the complete case analysis *)
Lemma to1_outcome : forall (s : spectrum K) (n : uname),
  match to1 s n with
  | Err e =>
      (e = ValueError /\ ~ In n [NM; NUm; NNm; NAngstrom; NPhotlam; NFlam; NWlam])
      \/ (e = TypeError /\ In n [NPhotlam; NFlam; NWlam] /\ s_vu K s = None)
  | Ok s' =>
      (exists b, n = wname b /\ s_wu K s' = b /\ s_vu K s' = s_vu K s
                 /\ s_wave K s' = scale K (wf K (s_wu K s) b) (s_wave K s)
                 /\ length (s_value K s') = length (s_value K s))
      \/ (exists g a, n = fname g /\ s_vu K s = Some a /\ s_vu K s' = Some g
                      /\ s_wu K s' = s_wu K s /\ s_wave K s' = s_wave K s)
  end.
Proof.
  intros s n. unfold Units.to1.
  assert (Wv : forall b, match (match s_vu K s with
                         | Some _ => Ok (mkSpec K (scale K (wf K (s_wu K s) b) (s_wave K s))
                                                  (unscale K (wf K (s_wu K s) b) (s_value K s)) b (s_vu K s))
                         | None => Ok (mkSpec K (scale K (wf K (s_wu K s) b) (s_wave K s)) (s_value K s) b None)
                         end) with
          | Err _ => False
          | Ok s' => s_wu K s' = b /\ s_vu K s' = s_vu K s
                     /\ s_wave K s' = scale K (wf K (s_wu K s) b) (s_wave K s)
                     /\ length (s_value K s') = length (s_value K s)
          end).
  { intros b. destruct (s_vu K s) eqn:Hv; cbn; repeat split; auto. unfold unscale. apply map_length. }
  assert (Fv : forall g, match (match s_vu K s with
                         | None => Err TypeError
                         | Some a => Ok (mkSpec K (s_wave K s)
                                          (conv_values K cH cC a g (wf K Wm (s_wu K s))
                                             (unscale K (wf K (s_wu K s) Wm) (s_value K s))
                                             (scale K (wf K (s_wu K s) Wm) (s_wave K s))) (s_wu K s) (Some g))
                         end) with
          | Err e => e = TypeError /\ s_vu K s = None
          | Ok s' => exists a, s_vu K s = Some a /\ s_vu K s' = Some g /\ s_wu K s' = s_wu K s /\ s_wave K s' = s_wave K s
          end).
  { intros g. destruct (s_vu K s) eqn:Hv; cbn; [eexists; repeat split; reflexivity|split; reflexivity]. }
  destruct n; cbn [short_wave_name flux_name].
  - specialize (Wv Wm). destruct (match s_vu K s with Some _ => _ | None => _ end); [|contradiction].
    left. exists Wm. split; [reflexivity|exact Wv].
  - left; split; [reflexivity|]; cbn; intros F; repeat (destruct F as [F|F]; [discriminate|]); exact F.
  - specialize (Wv Wum). destruct (match s_vu K s with Some _ => _ | None => _ end); [|contradiction].
    left. exists Wum. split; [reflexivity|exact Wv].
  - left; split; [reflexivity|]; cbn; intros F; repeat (destruct F as [F|F]; [discriminate|]); exact F.
  - specialize (Wv Wnm). destruct (match s_vu K s with Some _ => _ | None => _ end); [|contradiction].
    left. exists Wnm. split; [reflexivity|exact Wv].
  - left; split; [reflexivity|]; cbn; intros F; repeat (destruct F as [F|F]; [discriminate|]); exact F.
  - specialize (Wv Wangstrom). destruct (match s_vu K s with Some _ => _ | None => _ end); [|contradiction].
    left. exists Wangstrom. split; [reflexivity|exact Wv].
  - specialize (Fv Fphotlam). destruct (match s_vu K s with Some _ => _ | None => _ end).
    + right. destruct Fv as (a0 & Fv). exists Fphotlam, a0. split; [reflexivity|exact Fv].
    + right. destruct Fv as [A B]. split; [exact A|]. split; [cbn; auto 10|exact B].
  - specialize (Fv Fflam). destruct (match s_vu K s with Some _ => _ | None => _ end).
    + right. destruct Fv as (a0 & Fv). exists Fflam, a0. split; [reflexivity|exact Fv].
    + right. destruct Fv as [A B]. split; [exact A|]. split; [cbn; auto 10|exact B].
  - specialize (Fv Fwlam). destruct (match s_vu K s with Some _ => _ | None => _ end).
    + right. destruct Fv as (a0 & Fv). exists Fwlam, a0. split; [reflexivity|exact Fv].
    + right. destruct Fv as [A B]. split; [exact A|]. split; [cbn; auto 10|exact B].
  - left; split; [reflexivity|]; cbn; intros F; repeat (destruct F as [F|F]; [discriminate|]); exact F.
Qed.

(* the object after Spectrum.to with several arguments *)
Lemma to_st_spec : forall (args : list uname) (s s1 : spectrum K) (o : option errkind),
  to_st s args = (s1, o) ->
  match o with
  | None => toc s args = Ok s1
  | Some e => exists pre n post, args = pre ++ n :: post /\ toc s pre = Ok s1 /\ to1c s1 n = Err e
                                 /\ toc s args = Err e
  end.
Proof.
  induction args as [|n r IH]; intros s s1 o E; cbn in E.
  - inversion E; subst. reflexivity.
  - destruct (to1c s n) as [s'|e] eqn:E1.
    + specialize (IH s' s1 o E). destruct o as [e|].
      * destruct IH as (pre & m & post & A & B & Cc & D).
        exists (n :: pre), m, post. repeat split.
        -- cbn. rewrite A. reflexivity.
        -- cbn. rewrite E1. exact B.
        -- exact Cc.
        -- cbn. rewrite E1. exact D.
      * cbn. rewrite E1. exact IH.
    + inversion E; subst. exists [], n, r. repeat split; auto. cbn. rewrite E1. reflexivity.
Qed.
End Generic.

(* ---- over the reals: a well-formed spectrum stays well-formed and the setter's check never fires ---- *)
Local Open Scope R_scope.
Definition wellformed (s : spectrum RF) : Prop :=
  Forall (fun w => 0 < w) (s_wave RF s) /\ increasing (s_wave RF s)
  /\ length (s_value RF s) = length (s_wave RF s).

Lemma strictly_increasing_ok : forall ws, increasing ws -> strictly_increasing RF Rleb ws = true.
Proof.
  induction ws as [|w0 ws IH]; [reflexivity|]. destruct ws as [|w1 ws]; [reflexivity|].
  intros [A B]. change (negb (Rleb w1 w0) && strictly_increasing RF Rleb (w1 :: ws) = true).
  rewrite (Rleb_false w1 w0 A), (IH B). reflexivity.
Qed.
Lemma wave_ok_wf : forall ws, Forall (fun w => 0 < w) ws -> increasing ws -> wave_ok RF Rleb ws = true.
Proof.
  intros ws P I. unfold wave_ok. rewrite (strictly_increasing_ok ws I), andb_true_r.
  apply forallb_forall. intros w Hin. rewrite Forall_forall in P. specialize (P w Hin).
  cbn [f0 RF]. rewrite (Rleb_false w 0 P). reflexivity.
Qed.
Lemma scale_pos : forall f ws, 0 < f -> Forall (fun w => 0 < w) ws -> Forall (fun w => 0 < w) (scale RF f ws).
Proof.
  intros f ws Hf P. unfold scale. rewrite Forall_forall in *. intros x Hin.
  apply in_map_iff in Hin. destruct Hin as (w & E & Hw). subst x. cbn [fmul RF].
  apply Rmult_lt_0_compat; auto.
Qed.
Lemma scale_increasing : forall f ws, 0 < f -> increasing ws -> increasing (scale RF f ws).
Proof.
  intros f ws Hf. induction ws as [|w0 ws IH]; [exact (fun _ => I)|].
  destruct ws as [|w1 ws]; [exact (fun _ => I)|]. intros [A B].
  change (w0 * f < w1 * f /\ increasing (scale RF f (w1 :: ws))). split.
  - apply Rmult_lt_compat_r; auto.
  - apply IH; auto.
Qed.

Section Checked.
Variables H C : R.

Lemma to1_keeps_wellformed : forall (s s' : spectrum RF) (n : uname),
  wellformed s -> to1 RF H C s n = Ok s' -> wellformed s'.
Proof.
  intros s s' n (P & I & L) E. pose proof (to1_outcome RF H C s n) as O. rewrite E in O.
  destruct O as [(b & _ & _ & _ & Ew & Lv) | (g & a & En & Hv & _ & _ & Ew)].
  - unfold wellformed. rewrite Ew, Lv. repeat split.
    + apply scale_pos; [apply wf_pos|exact P].
    + apply scale_increasing; [apply wf_pos|exact I].
    + unfold scale. rewrite map_length. exact L.
  - subst n. rewrite (to1_flux H C s a g Hv) in E. inversion E; subst s'. unfold wellformed. cbn [s_wave s_value].
    split; [exact P|]. split; [exact I|]. rewrite map_length, combine_length. apply Nat.min_r. apply Nat.eq_le_incl. symmetry. exact L.
Qed.
Lemma to1c_is_to1 : forall (s : spectrum RF) (n : uname),
  wellformed s -> to1c RF H C Rleb s n = to1 RF H C s n.
Proof.
  intros s n W. unfold to1c. destruct (to1 RF H C s n) as [s'|e] eqn:E; [|reflexivity].
  cbn [rbind]. destruct (to1_keeps_wellformed s s' n W E) as (P & I & _).
  rewrite (wave_ok_wf _ P I). reflexivity.
Qed.
Lemma toc_is_to : forall (args : list uname) (s : spectrum RF),
  wellformed s -> toc RF H C Rleb s args = to RF H C s args.
Proof.
  induction args as [|n r IH]; intros s W; [reflexivity|].
  cbn [Units.toc Units.to]. rewrite (to1c_is_to1 s n W).
  destruct (to1 RF H C s n) as [s'|e] eqn:E; [|reflexivity]. cbn [rbind].
  apply IH. exact (to1_keeps_wellformed s s' n W E).
Qed.
Lemma toc_keeps_wellformed : forall (args : list uname) (s s' : spectrum RF),
  wellformed s -> toc RF H C Rleb s args = Ok s' -> wellformed s'.
Proof.
  induction args as [|n r IH]; intros s s' W E.
  - inversion E; subst; exact W.
  - cbn [Units.toc] in E. rewrite (to1c_is_to1 s n W) in E.
    destruct (to1 RF H C s n) as [s1|e] eqn:E1; [|discriminate]. cbn [rbind] in E.
    exact (IH s1 s' (to1_keeps_wellformed s s1 n W E1) E).
Qed.
End Checked.
