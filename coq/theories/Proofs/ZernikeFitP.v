(* Lemmas about Model/ZernikeFit.v.  Everything is proved for an arbitrary formally real commutative
   ring S (R, Q), an arbitrary mode family [zpoly], an arbitrary zero test [is0] and an arbitrary
   [solve] that honours the contract "an answer solves the normal equations". *)
From LV Require Import Model.ZernikeFit.

Lemma nthZ_ext {S : Scalar} (a b : list S) :
  length a = length b -> (forall i, 0 <= i < Z.of_nat (length a) -> nthZ a i = nthZ b i) -> a = b.
Proof. intros Hl H. apply (nth_ext a b k0 k0 Hl). intros n Hn.
  specialize (H (Z.of_nat n)). unfold nthZ in H. rewrite Nat2Z.id in H. apply H. lia. Qed.

Section ZFP.
Variable S : Scalar.
Hypothesis Sring : is_ring S.
Add Ring Sr : Sring.
Hypothesis FR : formally_real S.
Variable Crd : Type.
Variable is0 : S -> bool.
Variable zpoly : bool -> option Crd -> Z -> Z -> Z -> S.
Variable solve : Z -> Z -> (Z -> Z -> S) -> (Z -> S) -> result (list S).
Hypothesis solve_sound : forall k N B y c,
  solve k N B y = Ok c -> Z.of_nat (length c) = k /\ NE k N B y (nthZ c).

Notation zern := (zernike is0 zpoly).
Notation compose := (zernike_compose is0 zpoly).
Notation bmat := (basis_mat is0 zpoly).
Notation fit := (zernike_fit is0 zpoly solve).
Notation remove := (zernike_remove is0 zpoly solve).
Notation klen modes := (Z.of_nat (length modes)).
Notation npix mask := (nr mask * nc mask).

(* ---- what a successful fit means ---- *)
Lemma fit_ok opd mask modes nrm crd c :
  fit opd mask modes nrm crd = Ok c ->
  modes_ok modes = true /\ nr opd * nc opd = npix mask /\ length c = length modes /\
  NE (klen modes) (npix mask) (bmat mask modes nrm crd) (ravel opd) (nthZ c).
Proof. unfold zernike_fit, zernike_basis_vec. destruct (modes_ok modes); [|discriminate]. cbn [negb].
  destruct (Nat.eqb (length modes) 0); [discriminate|]. cbn [rbind nr nc get].
  destruct (nr opd * nc opd =? npix mask) eqn:E; [|discriminate]. cbn [negb]. intros H.
  apply solve_sound in H as [H1 H2]. repeat split; try assumption; lia. Qed.
(* zernike_fit refuses an empty list of modes (reshape of an empty cube) *)
Lemma fit_nonempty opd mask modes nrm crd c : fit opd mask modes nrm crd = Ok c -> modes <> [].
Proof. unfold zernike_fit, zernike_basis_vec. intros H ->. cbn in H. discriminate. Qed.

Lemma bmat_get mask modes nrm crd i p :
  bmat mask modes nrm crd i p = get (zern mask (nthmode modes i) nrm crd) (p / nc mask) (p mod nc mask).
Proof. reflexivity. Qed.
Lemma bmat_outside mask modes nrm crd i p :
  is0 (get mask (p / nc mask) (p mod nc mask)) = true -> bmat mask modes nrm crd i p = k0.
Proof. intros H. rewrite bmat_get. cbn [zernike get]. rewrite H. reflexivity. Qed.

(* ---- (b) fit o compose = id ---- *)
Lemma fit_unique opd mask modes nrm crd c d :
  indep (klen modes) (npix mask) (bmat mask modes nrm crd) ->
  fit opd mask modes nrm crd = Ok c ->
  NE (klen modes) (npix mask) (bmat mask modes nrm crd) (ravel opd) d ->
  forall i, 0 <= i < klen modes -> nthZ c i = d i.
Proof. intros Hi Hf Hd. apply fit_ok in Hf as (_ & _ & _ & Hne).
  exact (lsq_unique S Sring _ _ _ _ _ _ FR Hi Hne Hd). Qed.

Lemma fit_span_id opd mask modes nrm crd (cs c : list S) :
  indep (klen modes) (npix mask) (bmat mask modes nrm crd) ->
  length cs = length modes ->
  (forall p, 0 <= p < npix mask -> ravel opd p = lin (klen modes) (bmat mask modes nrm crd) (nthZ cs) p) ->
  fit opd mask modes nrm crd = Ok c -> c = cs.
Proof. intros Hi Hl Hy Hf. pose proof (fit_ok _ _ _ _ _ _ Hf) as (_ & _ & Hlc & _).
  apply nthZ_ext; [congruence|]. intros i Hi'. rewrite Hlc in Hi'.
  apply (fit_unique _ _ _ _ _ _ _ Hi Hf); [|assumption]. apply (NE_span S Sring). exact Hy. Qed.

Lemma length_scatter n modes (cs : list S) : 0 <= n -> klen (scatter n modes cs) = n.
Proof. intros H. unfold scatter. rewrite length_tabZ. lia. Qed.

Lemma compose_scatter mask n modes cs nrm crd r c :
  0 <= n -> (forall i, 0 <= i < klen modes -> 1 <= nthmode modes i <= n) ->
  get (compose mask (scatter n modes cs) nrm crd) r c
  = sumZ (klen modes) (fun i => (nthZ cs i * get (zern mask (nthmode modes i) nrm crd) r c)%K).
Proof. intros Hn Hm. cbn [zernike_compose get]. rewrite length_scatter by assumption.
  set (z := fun j => get (zern mask j nrm crd) r c).
  rewrite (sumZ_ext S n _ (fun t => sumZ (klen modes)
             (fun i => if t =? nthmode modes i - 1 then (nthZ cs i * z (t + 1)%Z)%K else k0))).
  - rewrite sumZ_exchange by assumption. apply sumZ_ext. intros i Hi.
    rewrite (sumZ_delta S Sring n (nthmode modes i - 1) (fun t => (nthZ cs i * z (t + 1)%Z)%K))
      by (specialize (Hm i Hi); lia).
    unfold z. replace (nthmode modes i - 1 + 1) with (nthmode modes i) by lia. reflexivity.
  - intros t Ht. unfold scatter. rewrite (nthZ_tabZ S) by assumption.
    rewrite <- sumZ_scale_r by assumption. apply sumZ_ext. intros i _. fold (z (t + 1)).
    destruct (nthmode modes i =? t + 1) eqn:E1; destruct (t =? nthmode modes i - 1) eqn:E2; try lia; ring.
Qed.

Lemma fit_compose_id mask n modes (cs c : list S) nrm crd :
  0 <= n -> (forall i, 0 <= i < klen modes -> 1 <= nthmode modes i <= n) ->
  length cs = length modes ->
  indep (klen modes) (npix mask) (bmat mask modes nrm crd) ->
  fit (compose mask (scatter n modes cs) nrm crd) mask modes nrm crd = Ok c -> c = cs.
Proof. intros Hn Hm Hl Hi Hf. apply (fit_span_id _ _ _ _ _ _ _ Hi Hl) in Hf; [assumption|].
  intros p _. unfold ravel at 1. cbn [zernike_compose nc]. fold (compose mask (scatter n modes cs) nrm crd).
  rewrite compose_scatter by assumption. reflexivity. Qed.

(* ---- (d) linearity of fit; the fit sees the OPD only through the mask ---- *)
Lemma fit_linear mask modes nrm crd a y1 y2 y3 c1 c2 c3 :
  indep (klen modes) (npix mask) (bmat mask modes nrm crd) ->
  fit y1 mask modes nrm crd = Ok c1 -> fit y2 mask modes nrm crd = Ok c2 -> fit y3 mask modes nrm crd = Ok c3 ->
  (forall p, 0 <= p < npix mask -> ravel y3 p = (a * ravel y1 p + ravel y2 p)%K) ->
  forall i, 0 <= i < klen modes -> nthZ c3 i = (a * nthZ c1 i + nthZ c2 i)%K.
Proof. intros Hi H1 H2 H3 Hy.
  apply fit_ok in H1 as (_ & _ & _ & N1). apply fit_ok in H2 as (_ & _ & _ & N2).
  apply (fit_unique _ _ _ _ _ _ _ Hi H3).
  apply (NE_ext S _ _ _ (fun p => (a * ravel y1 p + ravel y2 p)%K) _
                (fun i => (a * nthZ c1 i + nthZ c2 i)%K)).
  - intros p Hp. symmetry. apply Hy. exact Hp.
  - reflexivity.
  - apply (NE_comb S Sring); assumption. Qed.

Lemma fit_inside_mask_only mask modes nrm crd y1 y2 c1 c2 :
  indep (klen modes) (npix mask) (bmat mask modes nrm crd) ->
  nc y1 = nc mask -> nc y2 = nc mask ->
  (forall r c, is0 (get mask r c) = false -> get y1 r c = get y2 r c) ->
  fit y1 mask modes nrm crd = Ok c1 -> fit y2 mask modes nrm crd = Ok c2 -> c1 = c2.
Proof. intros Hi E1 E2 Hy H1 H2.
  pose proof (fit_ok _ _ _ _ _ _ H1) as (_ & _ & L1 & N1). pose proof (fit_ok _ _ _ _ _ _ H2) as (_ & _ & L2 & N2).
  apply nthZ_ext; [congruence|]. intros i Hi'. rewrite L1 in Hi'.
  apply (fit_unique _ _ _ _ _ _ _ Hi H1); [|assumption].
  intros j Hj. etransitivity; [|exact (N2 j Hj)]. apply sumZ_ext. intros p _.
  destruct (is0 (get mask (p / nc mask) (p mod nc mask))) eqn:E.
  - rewrite bmat_outside by assumption. ring.
  - change (ravel y1 p) with (get y1 (p / nc y1) (p mod nc y1)).
    change (ravel y2 p) with (get y2 (p / nc y2) (p mod nc y2)). rewrite E1, E2, (Hy _ _ E). reflexivity. Qed.

(* ---- (c) remove: what it composes, and that it is the orthogonal projection ---- *)
Lemma remove_ok opd mask modes crd res :
  remove opd mask modes crd = Ok res ->
  exists c, fit opd mask modes true crd = Ok c /\ nr opd = nr mask /\ nc opd = nc mask /\
    nr res = nr opd /\ nc res = nc opd /\
    forall r c', get res r c' =
      (get opd r c' - sumZ (klen modes) (fun i => (get (zern mask (nthmode modes i) true crd) r c' * nthZ c i)%K))%K.
Proof. unfold zernike_remove. destruct (fit opd mask modes true crd) as [c|e] eqn:Hf; cbn [rbind]; [|discriminate].
  destruct ((nr opd =? nr mask) && (nc opd =? nc mask)) eqn:E; cbn [negb]; [|discriminate].
  intros H. injection H as <-. exists c. cbn [nr nc get]. repeat split; lia. Qed.

Lemma remove_ravel opd mask modes crd res c :
  nc opd = nc mask -> nc res = nc opd ->
  (forall r c', get res r c' =
      (get opd r c' - sumZ (klen modes) (fun i => (get (zern mask (nthmode modes i) true crd) r c' * nthZ c i)%K))%K) ->
  forall p, ravel res p = (ravel opd p - lin (klen modes) (bmat mask modes true crd) (nthZ c) p)%K.
Proof. intros E1 E2 H p. unfold ravel at 1 2. rewrite E2, H, E1. f_equal. unfold lin. apply sumZ_ext.
  intros i _. rewrite bmat_get. ring. Qed.

Lemma remove_fit_zero opd mask modes crd res c' :
  indep (klen modes) (npix mask) (bmat mask modes true crd) ->
  remove opd mask modes crd = Ok res -> fit res mask modes true crd = Ok c' ->
  forall i, 0 <= i < klen modes -> nthZ c' i = k0.
Proof. intros Hi Hr Hf. apply remove_ok in Hr as (c & Hc & _ & E1 & _ & E2 & Hg).
  apply fit_ok in Hc as (_ & _ & _ & Hne).
  apply (fit_unique _ _ _ _ _ _ (fun _ => k0) Hi Hf).
  apply (NE_ext S _ _ _ (fun p => (ravel opd p - lin (klen modes) (bmat mask modes true crd) (nthZ c) p)%K) _ (fun _ => k0)).
  - intros p _. symmetry. apply (remove_ravel _ _ _ _ _ _ E1 E2 Hg).
  - reflexivity.
  - apply (NE_of_residual S Sring). exact Hne. Qed.

Lemma remove_idempotent opd mask modes crd res res' :
  indep (klen modes) (npix mask) (bmat mask modes true crd) ->
  remove opd mask modes crd = Ok res -> remove res mask modes crd = Ok res' ->
  nr res' = nr res /\ nc res' = nc res /\ forall r c, get res' r c = get res r c.
Proof. intros Hi H1 H2. pose proof (remove_ok _ _ _ _ _ H2) as (c' & Hc' & _ & _ & E1 & E2 & Hg).
  pose proof (remove_fit_zero _ _ _ _ _ _ Hi H1 Hc') as Hz.
  repeat split; try assumption. intros r c. rewrite Hg.
  rewrite (sumZ_zero_ext S Sring); [ring|]. intros i Hi'. rewrite (Hz i Hi'). ring. Qed.

Lemma remove_span_zero opd mask modes crd (cs : list S) res :
  indep (klen modes) (npix mask) (bmat mask modes true crd) ->
  length cs = length modes ->
  (forall r c, get opd r c = sumZ (klen modes) (fun i => (nthZ cs i * get (zern mask (nthmode modes i) true crd) r c)%K)) ->
  remove opd mask modes crd = Ok res -> forall r c, get res r c = k0.
Proof. intros Hi Hl Hy Hr. apply remove_ok in Hr as (c & Hc & _ & E1 & _ & _ & Hg).
  assert (c = cs) as ->.
  { apply (fit_span_id opd _ _ _ _ _ _ Hi Hl); [|exact Hc]. intros p _. unfold ravel. rewrite E1, Hy. reflexivity. }
  intros r c. rewrite Hg, Hy.
  rewrite (sumZ_ext S _ (fun i => (get (zern mask (nthmode modes i) true crd) r c * nthZ cs i)%K)
                        (fun i => (nthZ cs i * get (zern mask (nthmode modes i) true crd) r c)%K))
    by (intros; ring). ring. Qed.

Lemma remove_compose_zero mask n modes (cs : list S) crd res :
  0 <= n -> (forall i, 0 <= i < klen modes -> 1 <= nthmode modes i <= n) ->
  length cs = length modes ->
  indep (klen modes) (npix mask) (bmat mask modes true crd) ->
  remove (compose mask (scatter n modes cs) true crd) mask modes crd = Ok res ->
  forall r c, get res r c = k0.
Proof. intros Hn Hm Hl Hi Hr. apply (remove_span_zero (compose mask (scatter n modes cs) true crd) _ _ _ cs _ Hi Hl); [|exact Hr].
  intros r c. apply compose_scatter; assumption. Qed.

Lemma remove_outside_mask opd mask modes crd res r c :
  remove opd mask modes crd = Ok res -> is0 (get mask r c) = true -> get res r c = get opd r c.
Proof. intros Hr Hm. apply remove_ok in Hr as (cf & _ & _ & _ & _ & _ & Hg). rewrite Hg.
  rewrite (sumZ_zero_ext S Sring); [ring|]. intros i _. cbn [zernike get]. rewrite Hm. ring. Qed.
End ZFP.

(* ---------------------------------------------------------------------------------------- *)
(* Total forms: np.linalg.pinv always returns, so the contract of [solve] for an abstract solver has
   a second half: an independent family gets an answer. *)
Lemma modes_ok_range (modes : list Z) :
  (forall i, 0 <= i < Z.of_nat (length modes) -> 1 <= nthmode modes i) -> modes_ok modes = true.
Proof. intros H. unfold modes_ok. destruct (existsb (fun j => j <? 1) modes) eqn:E; [|reflexivity].
  apply existsb_exists in E as (x & Hin & Hx). apply (In_nth _ _ 0) in Hin as (n & Hn & Hnth).
  specialize (H (Z.of_nat n)). unfold nthmode in H. rewrite Nat2Z.id, Hnth in H. lia. Qed.

Section ZFT.
Variable S : Scalar.
Hypothesis Sring : is_ring S.
Hypothesis FR : formally_real S.
Variable Crd : Type.
Variable is0 : S -> bool.
Variable zpoly : bool -> option Crd -> Z -> Z -> Z -> S.
Variable solve : Z -> Z -> (Z -> Z -> S) -> (Z -> S) -> result (list S).
Hypothesis solve_sound : forall k N B y c,
  solve k N B y = Ok c -> Z.of_nat (length c) = k /\ NE k N B y (nthZ c).
Hypothesis solve_total : forall k N B y, 0 <= k -> indep k N B -> exists c, solve k N B y = Ok c.

Notation compose := (zernike_compose is0 zpoly).
Notation bmat := (basis_mat is0 zpoly).
Notation fit := (zernike_fit is0 zpoly solve).
Notation remove := (zernike_remove is0 zpoly solve).
Notation klen modes := (Z.of_nat (length modes)).
Notation npix mask := (nr mask * nc mask).

Lemma fit_total opd mask modes nrm crd :
  modes <> [] -> modes_ok modes = true -> nr opd * nc opd = npix mask ->
  indep (klen modes) (npix mask) (bmat mask modes nrm crd) ->
  exists c, fit opd mask modes nrm crd = Ok c.
Proof. intros Hne Hm Hs Hi. unfold zernike_fit, zernike_basis_vec. rewrite Hm. cbn [negb].
  destruct modes as [|j modes]; [contradiction|]. cbn [length Nat.eqb rbind nr nc get].
  replace (nr opd * nc opd =? npix mask) with true by lia. cbn [negb]. apply solve_total; [lia|exact Hi]. Qed.

Lemma remove_total opd mask modes crd :
  modes <> [] -> modes_ok modes = true -> nr opd = nr mask -> nc opd = nc mask ->
  indep (klen modes) (npix mask) (bmat mask modes true crd) ->
  exists res, remove opd mask modes crd = Ok res.
Proof. intros Hne Hm E1 E2 Hi. destruct (fit_total opd mask modes true crd Hne Hm) as [c Hc]; [rewrite E1, E2; reflexivity|exact Hi|].
  unfold zernike_remove. rewrite Hc. cbn [rbind]. replace ((nr opd =? nr mask) && (nc opd =? nc mask)) with true by lia.
  cbn [negb]. eexists. reflexivity. Qed.

Lemma fit_compose_id_total mask n modes (cs : list S) nrm crd :
  modes <> [] -> 0 <= n -> (forall i, 0 <= i < klen modes -> 1 <= nthmode modes i <= n) ->
  length cs = length modes ->
  indep (klen modes) (npix mask) (bmat mask modes nrm crd) ->
  fit (compose mask (scatter n modes cs) nrm crd) mask modes nrm crd = Ok cs.
Proof. intros Hne Hn Hm Hl Hi.
  destruct (fit_total (compose mask (scatter n modes cs) nrm crd) mask modes nrm crd) as [c Hc].
  - exact Hne.
  - apply modes_ok_range. intros i Hi'. specialize (Hm i Hi'). lia.
  - reflexivity.
  - exact Hi.
  - rewrite Hc. f_equal.
    exact (fit_compose_id S Sring FR Crd is0 zpoly solve solve_sound mask n modes cs c nrm crd Hn Hm Hl Hi Hc). Qed.

Lemma remove_is_projection opd mask modes crd :
  modes <> [] -> modes_ok modes = true -> nr opd = nr mask -> nc opd = nc mask ->
  indep (klen modes) (npix mask) (bmat mask modes true crd) ->
  exists res, remove opd mask modes crd = Ok res /\
    (exists c', fit res mask modes true crd = Ok c' /\ length c' = length modes /\
                forall i, 0 <= i < klen modes -> nthZ c' i = k0) /\
    (exists res', remove res mask modes crd = Ok res' /\ nr res' = nr res /\ nc res' = nc res /\
                  forall r c, get res' r c = get res r c).
Proof. intros Hne Hm E1 E2 Hi. destruct (remove_total opd mask modes crd Hne Hm E1 E2 Hi) as [res Hr].
  exists res. split; [exact Hr|].
  pose proof (remove_ok S Crd is0 zpoly solve _ _ _ _ _ Hr) as (c & _ & _ & _ & R1 & R2 & _).
  destruct (remove_total res mask modes crd Hne Hm) as [res' Hr']; [congruence|congruence|exact Hi|].
  pose proof (remove_ok S Crd is0 zpoly solve _ _ _ _ _ Hr') as (c' & Hc' & _).
  split.
  - exists c'. split; [exact Hc'|]. split.
    + apply (fit_ok S Crd is0 zpoly solve solve_sound) in Hc'. tauto.
    + exact (remove_fit_zero S Sring FR Crd is0 zpoly solve solve_sound _ _ _ _ _ _ Hi Hr Hc').
  - exists res'. split; [exact Hr'|].
    exact (remove_idempotent S Sring FR Crd is0 zpoly solve solve_sound _ _ _ _ _ _ Hi Hr Hr'). Qed.

Lemma remove_compose_zero_total mask n modes (cs : list S) crd :
  modes <> [] -> 0 <= n -> (forall i, 0 <= i < klen modes -> 1 <= nthmode modes i <= n) ->
  length cs = length modes ->
  indep (klen modes) (npix mask) (bmat mask modes true crd) ->
  exists res, remove (compose mask (scatter n modes cs) true crd) mask modes crd = Ok res /\
              forall r c, get res r c = k0.
Proof. intros Hne Hn Hm Hl Hi.
  destruct (remove_total (compose mask (scatter n modes cs) true crd) mask modes crd) as [res Hr];
    [exact Hne | apply modes_ok_range; intros i Hi'; specialize (Hm i Hi'); lia | reflexivity | reflexivity | exact Hi |].
  exists res. split; [exact Hr|].
  exact (remove_compose_zero S Sring FR Crd is0 zpoly solve solve_sound mask n modes cs crd res Hn Hm Hl Hi Hr). Qed.
End ZFT.
