(* Lemmas about the stochastic models (Model/Noise.v), property C18. *)
From Coq Require Import Reals Lra QArith Qreals Qcanon Qround.
From LV Require Import Lib.Cis.
From LV Require Export Model.Noise.

(* ------------------------------------------------------------------------------------------ *)
(** * Index-range reductions *)

Lemma anyn_true n p : anyn n p = true <-> exists i, (i < n)%nat /\ p i = true.
Proof. induction n as [|n IH]; cbn [anyn].
  - split; [discriminate|]. intros (i & H & _). lia.
  - rewrite orb_true_iff, IH. split.
    + intros [(i & H & Hp)|Hp]; [exists i|exists n]; split; auto; lia.
    + intros (i & H & Hp). destruct (Nat.eq_dec i n) as [->|Hne]; [now right|].
      left. exists i. split; [lia|assumption]. Qed.

Lemma any2_true (S : Scalar) (p : S -> bool) (a : arr S) :
  any2 p a = true <-> exists i j, 0 <= i < nr a /\ 0 <= j < nc a /\ p (get a i j) = true.
Proof. unfold any2. rewrite anyn_true. split.
  - intros (i & Hi & H). apply anyn_true in H. destruct H as (j & Hj & H).
    exists (Z.of_nat i), (Z.of_nat j). repeat split; try lia. assumption.
  - intros (i & j & Hi & Hj & H). exists (Z.to_nat i). split; [lia|].
    apply anyn_true. exists (Z.to_nat j). split; [lia|]. rewrite !Z2Nat.id by lia. assumption. Qed.

Lemma any2_false (S : Scalar) (p : S -> bool) (a : arr S) :
  any2 p a = false <-> forall i j, 0 <= i < nr a -> 0 <= j < nc a -> p (get a i j) = false.
Proof. split.
  - intros H i j Hi Hj. destruct (p (get a i j)) eqn:E; [|reflexivity].
    assert (any2 p a = true) by (apply any2_true; eauto). congruence.
  - intros H. destruct (any2 p a) eqn:E; [|reflexivity].
    apply any2_true in E. destruct E as (i & j & Hi & Hj & E). rewrite H in E by assumption. discriminate. Qed.

(* indicator sums over Z *)
Lemma sumnZ_nonneg n (f : nat -> Z) : (forall i, (i < n)%nat -> 0 <= f i) -> 0 <= @sumn ZS n f.
Proof. induction n as [|n IH]; intros H; cbn [sumn]; [cbn; lia|].
  assert (0 <= @sumn ZS n f) by (apply IH; intros; apply H; lia).
  assert (0 <= f n) by (apply H; lia). cbn [ZS kadd K] in *. lia. Qed.
Lemma sumnZ_ge_term n (f : nat -> Z) k : (forall i, (i < n)%nat -> 0 <= f i) -> (k < n)%nat ->
  f k <= @sumn ZS n f.
Proof. induction n as [|n IH]; intros H Hk; [lia|]. cbn [sumn].
  assert (0 <= @sumn ZS n f) by (apply sumnZ_nonneg; intros; apply H; lia).
  assert (0 <= f n) by (apply H; lia).
  destruct (Nat.eq_dec k n) as [->|Hne]; cbn [ZS kadd K] in *; [lia|].
  assert (f k <= @sumn ZS n f) by (apply IH; [intros; apply H|]; lia). lia. Qed.

Lemma count2_nonneg (S : Scalar) (p : S -> bool) a : 0 <= count2 p a.
Proof. unfold count2, sumZ. apply sumnZ_nonneg. intros i _. apply sumnZ_nonneg. intros j _.
  destr_if; lia. Qed.
Lemma count2_pos (S : Scalar) (p : S -> bool) a i j :
  0 <= i < nr a -> 0 <= j < nc a -> p (get a i j) = true -> 1 <= count2 p a.
Proof. intros Hi Hj H. unfold count2, sumZ.
  set (g := fun i0 : nat => @sumn ZS (Z.to_nat (nc a))
             (fun j0 => if p (get a (Z.of_nat i0) (Z.of_nat j0)) then 1 else 0)).
  assert (Hg : forall i0, 0 <= g i0).
  { intros i0. apply sumnZ_nonneg. intros j0 _. destr_if; lia. }
  transitivity (g (Z.to_nat i)).
  - unfold g. set (h := fun j0 : nat => if p (get a (Z.of_nat (Z.to_nat i)) (Z.of_nat j0)) then 1 else 0).
    transitivity (h (Z.to_nat j)).
    + unfold h. rewrite !Z2Nat.id by lia. rewrite H. lia.
    + apply sumnZ_ge_term; [|lia]. intros j0 _. unfold h. destr_if; lia.
  - apply (sumnZ_ge_term _ g); [intros; apply Hg | lia]. Qed.
Lemma count2_zero (S : Scalar) (p : S -> bool) a :
  count2 p a = 0 -> forall i j, 0 <= i < nr a -> 0 <= j < nc a -> p (get a i j) = false.
Proof. intros H i j Hi Hj. destruct (p (get a i j)) eqn:E; [|reflexivity].
  pose proof (count2_pos S p a i j Hi Hj E). lia. Qed.

(* ------------------------------------------------------------------------------------------ *)
(** * Order, floor and truncation on Qc *)

Lemma Qcltb_true a b : Qcltb a b = true <-> (a < b)%Qc.
Proof. unfold Qcltb. rewrite Qclt_alt. destruct (a ?= b)%Qc; split; intros; congruence. Qed.
Lemma Qcltb_false a b : Qcltb a b = false <-> (b <= a)%Qc.
Proof. split.
  - intros H. apply Qcnot_lt_le. intros Hlt. apply Qcltb_true in Hlt. congruence.
  - intros H. destruct (Qcltb a b) eqn:E; [|reflexivity]. apply Qcltb_true in E.
    exfalso. eapply Qclt_not_le; eassumption. Qed.

Lemma Qcfloor_spec (q : Qc) : (inject_Z (Qcfloor q) <= q)%Q /\ (q < inject_Z (Qcfloor q + 1))%Q.
Proof. unfold Qcfloor. split; [apply Qfloor_le | apply Qlt_floor]. Qed.
Lemma Qcfloor_Z (k : Z) : Qcfloor (Q2Qc (inject_Z k)) = k.
Proof. unfold Qcfloor, Q2Qc. cbn [this]. rewrite (Qfloor_comp _ (inject_Z k)) by apply Qred_correct.
  apply Qfloor_Z. Qed.
Lemma Qcfloor_nonneg (q : Qc) : (0 <= q)%Qc -> 0 <= Qcfloor q.
Proof. intros H. unfold Qcfloor. change 0%Z with (Qfloor 0). apply Qfloor_resp_le. exact H. Qed.

Lemma Qcmult_nonneg (a b : Qc) : (0 <= a)%Qc -> (0 <= b)%Qc -> (0 <= a * b)%Qc.
Proof. unfold Qcle. intros Ha Hb. cbn [Qcmult Q2Qc this].
  apply (Qle_trans _ (a * b)%Q); [apply Qmult_le_0_compat; assumption|].
  apply Qle_lteq. right. symmetry. apply Qred_correct. Qed.

Lemma Qctrunc_nonneg (q : Qc) : 0 <= Qctrunc q <-> (- 1 < q)%Q.
Proof. unfold Qctrunc. destruct q as [[n d] Hc]. cbn [this Qnum Qden]. unfold Qlt. cbn [Qnum Qden].
  split; intros H.
  - assert (- Zpos d < n) by (pose proof (Pos2Z.is_pos d); nia). lia.
  - assert (- Zpos d < n) by lia. pose proof (Pos2Z.is_pos d). nia. Qed.

(* ------------------------------------------------------------------------------------------ *)
(** * shot_noise guards *)

Definition in_range {S : Scalar} (a : arr S) (i j : Z) : Prop := 0 <= i < nr a /\ 0 <= j < nc a.

Lemma has_neg_true (img : arr QS) : has_neg img = true <-> exists i j, in_range img i j /\ (get img i j < 0)%Qc.
Proof. unfold has_neg. rewrite any2_true. split; intros (i & j & H).
  - destruct H as (Hi & Hj & H). exists i, j. split; [split; assumption|]. now apply Qcltb_true.
  - destruct H as ((Hi & Hj) & H). exists i, j. repeat split; try lia. now apply Qcltb_true. Qed.
Lemma has_neg_false (img : arr QS) : has_neg img = false <-> forall i j, in_range img i j -> (0 <= get img i j)%Qc.
Proof. unfold has_neg. rewrite any2_false. split; intros H i j.
  - intros (Hi & Hj). apply Qcltb_false. apply H; assumption.
  - intros Hi Hj. apply Qcltb_false. apply H. split; assumption. Qed.
Lemma has_big_true (img : arr QS) : has_big img = true <-> exists i j, in_range img i j /\ (LAM_MAX < get img i j)%Qc.
Proof. unfold has_big. rewrite any2_true. split; intros (i & j & H).
  - destruct H as (Hi & Hj & H). exists i, j. split; [split; assumption|]. now apply Qcltb_true.
  - destruct H as ((Hi & Hj) & H). exists i, j. repeat split; try lia. now apply Qcltb_true. Qed.
Lemma has_big_false (img : arr QS) : has_big img = false <-> forall i j, in_range img i j -> (get img i j <= LAM_MAX)%Qc.
Proof. unfold has_big. rewrite any2_false. split; intros H i j.
  - intros (Hi & Hj). apply Qcltb_false. apply H; assumption.
  - intros Hi Hj. apply Qcltb_false. apply H. split; assumption. Qed.

Lemma shot_poisson_negative (img draw : arr QS) :
  (exists i j, in_range img i j /\ (get img i j < 0)%Qc) ->
  shot_poisson img draw = ShotErr ValueError MsgNegative.
Proof. intros H. apply has_neg_true in H. unfold shot_poisson. now rewrite H. Qed.
Lemma shot_poisson_too_large (img draw : arr QS) :
  (forall i j, in_range img i j -> (0 <= get img i j)%Qc) ->
  (exists i j, in_range img i j /\ (LAM_MAX < get img i j)%Qc) ->
  shot_poisson img draw = ShotErr ValueError MsgTooLarge.
Proof. intros H0 H. apply has_neg_false in H0. apply has_big_true in H. unfold shot_poisson.
  now rewrite H0, H. Qed.
Lemma shot_poisson_accepts (img draw : arr QS) :
  (forall i j, in_range img i j -> (0 <= get img i j)%Qc /\ (get img i j <= LAM_MAX)%Qc) ->
  shot_poisson img draw = ShotOk (@mkArr ZS (nr img) (nc img) (fun i j => Qcfloor (get draw i j))).
Proof. intros H. unfold shot_poisson.
  assert (H0 : has_neg img = false) by (apply has_neg_false; intros; now apply H).
  assert (H1 : has_big img = false) by (apply has_big_false; intros; now apply H).
  now rewrite H0, H1. Qed.
(* any result is one of the three; an accepted frame has the input's shape, integer samples
   floor(draw), which are the draws themselves and non-negative under the Poisson contract *)
Lemma shot_poisson_frame (img draw : arr QS) frame :
  shot_poisson img draw = ShotOk frame ->
  (forall i j, in_range img i j -> (0 <= get img i j)%Qc /\ (get img i j <= LAM_MAX)%Qc) /\
  nr frame = nr img /\ nc frame = nc img /\
  (forall i j, get frame i j = Qcfloor (get draw i j)) /\
  (forall i j k, get draw i j = Q2Qc (inject_Z k) -> 0 <= k -> get frame i j = k /\ 0 <= get frame i j).
Proof. unfold shot_poisson. destruct (has_neg img) eqn:H0; [discriminate|].
  destruct (has_big img) eqn:H1; [discriminate|]. intros H. injection H as <-.
  split; [|cbn [nr nc get]; repeat split].
  - intros i j Hr. split; [now apply has_neg_false | now apply has_big_false].
  - rewrite H. apply Qcfloor_Z.
  - rewrite H, Qcfloor_Z. assumption. Qed.

Lemma shot_gaussian_negative ug (img draw : arr QS) :
  (exists i j, in_range img i j /\ (get img i j < 0)%Qc) ->
  shot_gaussian ug img draw = ShotErr ValueError MsgNegative.
Proof. intros H. apply has_neg_true in H. unfold shot_gaussian. now rewrite H. Qed.
Lemma shot_gaussian_too_large (img draw : arr QS) :
  (forall i j, in_range img i j -> (0 <= get img i j)%Qc) ->
  (exists i j, in_range img i j /\ (LAM_MAX < get img i j)%Qc) ->
  shot_gaussian true img draw = ShotErr ValueError MsgTooLarge.
Proof. intros H0 H. apply has_neg_false in H0. apply has_big_true in H. unfold shot_gaussian.
  now rewrite H0, H. Qed.
(* the code as it is: nothing but a negative sample is refused *)
Lemma shot_gaussian_unguarded (img draw : arr QS) :
  (forall i j, in_range img i j -> (0 <= get img i j)%Qc) ->
  shot_gaussian false img draw = ShotOk (@mkArr ZS (nr img) (nc img) (fun i j => cast_int64 (get draw i j))).
Proof. intros H0. apply has_neg_false in H0. unfold shot_gaussian. now rewrite H0. Qed.
Lemma shot_gaussian_frame ug (img draw : arr QS) frame :
  shot_gaussian ug img draw = ShotOk frame ->
  (forall i j, in_range img i j -> (0 <= get img i j)%Qc) /\
  (ug = true -> forall i j, in_range img i j -> (get img i j <= LAM_MAX)%Qc) /\
  nr frame = nr img /\ nc frame = nc img /\
  (forall i j, get frame i j = cast_int64 (get draw i j)).
Proof. unfold shot_gaussian. destruct (has_neg img) eqn:H0; [discriminate|].
  destruct (ug && has_big img) eqn:H1; [discriminate|]. intros H. injection H as <-.
  split; [|split; [|cbn [nr nc get]; repeat split]].
  - intros i j Hr. now apply has_neg_false.
  - intros -> i j Hr. cbn [andb] in H1. now apply has_big_false. Qed.

Lemma cast_int64_in_range (x : Qc) :
  - 2 ^ 63 <= Qctrunc x < 2 ^ 63 -> cast_int64 x = Qctrunc x.
Proof. intros H. unfold cast_int64, INT64_MIN. cbv zeta.
  destruct ((- 2 ^ 63 <=? Qctrunc x) && (Qctrunc x <? 2 ^ 63)) eqn:E; [reflexivity|].
  apply andb_false_iff in E. destruct E as [E|E]; [apply Z.leb_gt in E | apply Z.ltb_ge in E]; lia. Qed.
Lemma cast_int64_nonneg (x : Qc) :
  - 2 ^ 63 <= Qctrunc x < 2 ^ 63 -> (0 <= cast_int64 x <-> (- 1 < x)%Q).
Proof. intros H. rewrite cast_int64_in_range by assumption. apply Qctrunc_nonneg. Qed.

(* ------------------------------------------------------------------------------------------ *)
(** * dark_current *)

Lemma dark_no_fpn rate n m fpn draw i j :
  ~ (0 < fpn)%Qc -> get (dark_current rate n m fpn draw) i j = Qcfloor rate.
Proof. intros H. cbn [dark_current get]. unfold dark_fpn.
  destruct (Qcltb 0 fpn) eqn:E; [apply Qcltb_true in E; contradiction|].
  f_equal. ring. Qed.
Lemma dark_shape rate n m fpn draw :
  nr (dark_current rate n m fpn draw) = n /\ nc (dark_current rate n m fpn draw) = m.
Proof. split; reflexivity. Qed.
Lemma dark_nonneg rate n m fpn (draw : arr QS) i j :
  (0 <= rate)%Qc -> (0 < get draw i j)%Qc -> 0 <= get (dark_current rate n m fpn draw) i j.
Proof. intros Hr Hd. cbn [dark_current get]. apply Qcfloor_nonneg.
  apply Qcmult_nonneg; [apply Qcmult_nonneg; [assumption|discriminate]|].
  unfold dark_fpn. destruct (Qcltb 0 fpn); [apply Qclt_le_weak; assumption|discriminate]. Qed.
Lemma dark_floor rate n m fpn draw i j :
  let x := (rate * dark_fpn fpn draw i j)%Qc in
  let d := get (dark_current rate n m fpn draw) i j in
  (inject_Z d <= x)%Q /\ (x < inject_Z (d + 1))%Q.
Proof. cbv zeta. cbn [dark_current get].
  replace (rate * 1 * dark_fpn fpn draw i j)%Qc with (rate * dark_fpn fpn draw i j)%Qc by ring.
  apply Qcfloor_spec. Qed.

(* ------------------------------------------------------------------------------------------ *)
(** * read_noise *)
Lemma read_noise_additive (img draw : arr QS) i j :
  nr (read_noise img draw) = nr img /\ nc (read_noise img draw) = nc img /\
  (get (read_noise img draw) i j - get img i j)%Qc = get draw i j.
Proof. cbn [read_noise nr nc get]. repeat split. ring. Qed.

(* ------------------------------------------------------------------------------------------ *)
(** * Seeded functions depend on the generator only through their one request *)
Lemma shot_noise_seeded_ext ug (rng1 rng2 : generator) sq img mth seed :
  (forall rq, rng1 seed rq = rng2 seed rq) ->
  shot_noise_seeded ug rng1 sq img mth seed = shot_noise_seeded ug rng2 sq img mth seed.
Proof. intros H. unfold shot_noise_seeded. destruct mth; now rewrite H. Qed.
Lemma read_noise_seeded_ext (rng1 rng2 : generator) img e seed :
  (forall rq, rng1 seed rq = rng2 seed rq) ->
  read_noise_seeded rng1 img e seed = read_noise_seeded rng2 img e seed.
Proof. intros H. unfold read_noise_seeded. now rewrite H. Qed.
Lemma dark_current_seeded_ext (rng1 rng2 : generator) rate n m fpn seed :
  (forall rq, rng1 seed rq = rng2 seed rq) ->
  dark_current_seeded rng1 rate n m fpn seed = dark_current_seeded rng2 rate n m fpn seed.
Proof. intros H. unfold dark_current_seeded. now rewrite H. Qed.
