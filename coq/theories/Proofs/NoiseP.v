(* Lemmas about the stochastic models (Model/Noise.v), property C18. *)
From Coq Require Import Reals Lra QArith Qreals Qcanon Qround.
From LV Require Import Lib.Cis.
From LV Require Export Model.Noise.

(* ------------------------------------------------------------------------------------------ *)
(** * Index-range reductions *)

Lemma anyn_true n p : anyn n p = true <-> exists i, (i < n)%nat /\ p i = true.
Proof. induction n as [|n IH]; cbn [anyn].
  - split; [discriminate|]. intros (i & H & _). lia.
  - rewrite orb_true_iff, IH. split.
    + intros [(i & H & Hp)|Hp]; [exists i|exists n]; split; auto; lia.
    + intros (i & H & Hp). destruct (Nat.eq_dec i n) as [->|Hne]; [now right|].
      left. exists i. split; [lia|assumption]. Qed.

Lemma any2_true (S : Scalar) (p : S -> bool) (a : arr S) :
  any2 p a = true <-> exists i j, 0 <= i < nr a /\ 0 <= j < nc a /\ p (get a i j) = true.
Proof. unfold any2. rewrite anyn_true. split.
  - intros (i & Hi & H). apply anyn_true in H. destruct H as (j & Hj & H).
    exists (Z.of_nat i), (Z.of_nat j). repeat split; try lia. assumption.
  - intros (i & j & Hi & Hj & H). exists (Z.to_nat i). split; [lia|].
    apply anyn_true. exists (Z.to_nat j). split; [lia|]. rewrite !Z2Nat.id by lia. assumption. Qed.

Lemma any2_false (S : Scalar) (p : S -> bool) (a : arr S) :
  any2 p a = false <-> forall i j, 0 <= i < nr a -> 0 <= j < nc a -> p (get a i j) = false.
Proof. split.
  - intros H i j Hi Hj. destruct (p (get a i j)) eqn:E; [|reflexivity].
    assert (any2 p a = true) by (apply any2_true; eauto). congruence.
  - intros H. destruct (any2 p a) eqn:E; [|reflexivity].
    apply any2_true in E. destruct E as (i & j & Hi & Hj & E). rewrite H in E by assumption. discriminate. Qed.

(* indicator sums over Z *)
Lemma sumnZ_nonneg n (f : nat -> Z) : (forall i, (i < n)%nat -> 0 <= f i) -> 0 <= @sumn ZS n f.
Proof. induction n as [|n IH]; intros H; cbn [sumn]; [cbn; lia|].
  assert (0 <= @sumn ZS n f) by (apply IH; intros; apply H; lia).
  assert (0 <= f n) by (apply H; lia). cbn [ZS kadd K] in *. lia. Qed.
Lemma sumnZ_ge_term n (f : nat -> Z) k : (forall i, (i < n)%nat -> 0 <= f i) -> (k < n)%nat ->
  f k <= @sumn ZS n f.
Proof. induction n as [|n IH]; intros H Hk; [lia|]. cbn [sumn].
  assert (0 <= @sumn ZS n f) by (apply sumnZ_nonneg; intros; apply H; lia).
  assert (0 <= f n) by (apply H; lia).
  destruct (Nat.eq_dec k n) as [->|Hne]; cbn [ZS kadd K] in *; [lia|].
  assert (f k <= @sumn ZS n f) by (apply IH; [intros; apply H|]; lia). lia. Qed.

Lemma count2_nonneg (S : Scalar) (p : S -> bool) a : 0 <= count2 p a.
Proof. unfold count2, sumZ. apply sumnZ_nonneg. intros i _. apply sumnZ_nonneg. intros j _.
  destr_if; lia. Qed.
Lemma count2_pos (S : Scalar) (p : S -> bool) a i j :
  0 <= i < nr a -> 0 <= j < nc a -> p (get a i j) = true -> 1 <= count2 p a.
Proof. intros Hi Hj H. unfold count2, sumZ.
  set (g := fun i0 : nat => @sumn ZS (Z.to_nat (nc a))
             (fun j0 => if p (get a (Z.of_nat i0) (Z.of_nat j0)) then 1 else 0)).
  assert (Hg : forall i0, 0 <= g i0).
  { intros i0. apply sumnZ_nonneg. intros j0 _. destr_if; lia. }
  transitivity (g (Z.to_nat i)).
  - unfold g. set (h := fun j0 : nat => if p (get a (Z.of_nat (Z.to_nat i)) (Z.of_nat j0)) then 1 else 0).
    transitivity (h (Z.to_nat j)).
    + unfold h. rewrite !Z2Nat.id by lia. rewrite H. lia.
    + apply sumnZ_ge_term; [|lia]. intros j0 _. unfold h. destr_if; lia.
  - apply (sumnZ_ge_term _ g); [intros; apply Hg | lia]. Qed.
Lemma count2_zero (S : Scalar) (p : S -> bool) a :
  count2 p a = 0 -> forall i j, 0 <= i < nr a -> 0 <= j < nc a -> p (get a i j) = false.
Proof. intros H i j Hi Hj. destruct (p (get a i j)) eqn:E; [|reflexivity].
  pose proof (count2_pos S p a i j Hi Hj E). lia. Qed.

(* ------------------------------------------------------------------------------------------ *)
(** * Order, floor and truncation on Qc *)

Lemma Qcltb_true a b : Qcltb a b = true <-> (a < b)%Qc.
Proof. unfold Qcltb. rewrite Qclt_alt. destruct (a ?= b)%Qc; split; intros; congruence. Qed.
Lemma Qcltb_false a b : Qcltb a b = false <-> (b <= a)%Qc.
Proof. split.
  - intros H. apply Qcnot_lt_le. intros Hlt. apply Qcltb_true in Hlt. congruence.
  - intros H. destruct (Qcltb a b) eqn:E; [|reflexivity]. apply Qcltb_true in E.
    exfalso. eapply Qclt_not_le; eassumption. Qed.

Lemma Qcfloor_spec (q : Qc) : (inject_Z (Qcfloor q) <= q)%Q /\ (q < inject_Z (Qcfloor q + 1))%Q.
Proof. unfold Qcfloor. split; [apply Qfloor_le | apply Qlt_floor]. Qed.
Lemma Qcfloor_Z (k : Z) : Qcfloor (Q2Qc (inject_Z k)) = k.
Proof. unfold Qcfloor, Q2Qc. cbn [this]. rewrite (Qfloor_comp _ (inject_Z k)) by apply Qred_correct.
  apply Qfloor_Z. Qed.
Lemma Qcfloor_nonneg (q : Qc) : (0 <= q)%Qc -> 0 <= Qcfloor q.
Proof. intros H. unfold Qcfloor. change 0%Z with (Qfloor 0). apply Qfloor_resp_le. exact H. Qed.

Lemma Qcmult_nonneg (a b : Qc) : (0 <= a)%Qc -> (0 <= b)%Qc -> (0 <= a * b)%Qc.
Proof. unfold Qcle. intros Ha Hb. cbn [Qcmult Q2Qc this].
  apply (Qle_trans _ (a * b)%Q); [apply Qmult_le_0_compat; assumption|].
  apply Qle_lteq. right. symmetry. apply Qred_correct. Qed.

Lemma Qctrunc_nonneg (q : Qc) : 0 <= Qctrunc q <-> (- 1 < q)%Q.
Proof. unfold Qctrunc. destruct q as [[n d] Hc]. cbn [this Qnum Qden]. unfold Qlt. cbn [Qnum Qden].
  split; intros H.
  - assert (- Zpos d < n) by (pose proof (Pos2Z.is_pos d); nia). lia.
  - assert (- Zpos d < n) by lia. pose proof (Pos2Z.is_pos d). nia. Qed.

(* ------------------------------------------------------------------------------------------ *)
(** * shot_noise guards *)

Definition in_range {S : Scalar} (a : arr S) (i j : Z) : Prop := 0 <= i < nr a /\ 0 <= j < nc a.

Lemma has_neg_true (img : arr QS) : has_neg img = true <-> exists i j, in_range img i j /\ (get img i j < 0)%Qc.
Proof. unfold has_neg. rewrite any2_true. split; intros (i & j & H).
  - destruct H as (Hi & Hj & H). exists i, j. split; [split; assumption|]. now apply Qcltb_true.
  - destruct H as ((Hi & Hj) & H). exists i, j. repeat split; try lia. now apply Qcltb_true. Qed.
Lemma has_neg_false (img : arr QS) : has_neg img = false <-> forall i j, in_range img i j -> (0 <= get img i j)%Qc.
Proof. unfold has_neg. rewrite any2_false. split; intros H i j.
  - intros (Hi & Hj). apply Qcltb_false. apply H; assumption.
  - intros Hi Hj. apply Qcltb_false. apply H. split; assumption. Qed.
Lemma has_big_true (img : arr QS) : has_big img = true <-> exists i j, in_range img i j /\ (LAM_MAX < get img i j)%Qc.
Proof. unfold has_big. rewrite any2_true. split; intros (i & j & H).
  - destruct H as (Hi & Hj & H). exists i, j. split; [split; assumption|]. now apply Qcltb_true.
  - destruct H as ((Hi & Hj) & H). exists i, j. repeat split; try lia. now apply Qcltb_true. Qed.
Lemma has_big_false (img : arr QS) : has_big img = false <-> forall i j, in_range img i j -> (get img i j <= LAM_MAX)%Qc.
Proof. unfold has_big. rewrite any2_false. split; intros H i j.
  - intros (Hi & Hj). apply Qcltb_false. apply H; assumption.
  - intros Hi Hj. apply Qcltb_false. apply H. split; assumption. Qed.

Lemma shot_poisson_negative (img draw : arr QS) :
  (exists i j, in_range img i j /\ (get img i j < 0)%Qc) ->
  shot_poisson img draw = ShotErr ValueError MsgNegative.
Proof. intros H. apply has_neg_true in H. unfold shot_poisson. now rewrite H. Qed.
Lemma shot_poisson_too_large (img draw : arr QS) :
  (forall i j, in_range img i j -> (0 <= get img i j)%Qc) ->
  (exists i j, in_range img i j /\ (LAM_MAX < get img i j)%Qc) ->
  shot_poisson img draw = ShotErr ValueError MsgTooLarge.
Proof. intros H0 H. apply has_neg_false in H0. apply has_big_true in H. unfold shot_poisson.
  now rewrite H0, H. Qed.
Lemma shot_poisson_accepts (img draw : arr QS) :
  (forall i j, in_range img i j -> (0 <= get img i j)%Qc /\ (get img i j <= LAM_MAX)%Qc) ->
  shot_poisson img draw = ShotOk (@mkArr ZS (nr img) (nc img) (fun i j => Qcfloor (get draw i j))).
Proof. intros H. unfold shot_poisson.
  assert (H0 : has_neg img = false) by (apply has_neg_false; intros; now apply H).
  assert (H1 : has_big img = false) by (apply has_big_false; intros; now apply H).
  now rewrite H0, H1. Qed.
(* any result is one of the three; an accepted frame has the input's shape, integer samples
   floor(draw), which are the draws themselves and non-negative under the Poisson contract *)
Lemma shot_poisson_frame (img draw : arr QS) frame :
  shot_poisson img draw = ShotOk frame ->
  (forall i j, in_range img i j -> (0 <= get img i j)%Qc /\ (get img i j <= LAM_MAX)%Qc) /\
  nr frame = nr img /\ nc frame = nc img /\
  (forall i j, get frame i j = Qcfloor (get draw i j)) /\
  (forall i j k, get draw i j = Q2Qc (inject_Z k) -> 0 <= k -> get frame i j = k /\ 0 <= get frame i j).
Proof. unfold shot_poisson. destruct (has_neg img) eqn:H0; [discriminate|].
  destruct (has_big img) eqn:H1; [discriminate|]. intros H. injection H as <-.
  split; [|cbn [nr nc get]; repeat split].
  - intros i j Hr. split; [now apply has_neg_false | now apply has_big_false].
  - rewrite H. apply Qcfloor_Z.
  - rewrite H, Qcfloor_Z. assumption. Qed.

Lemma shot_gaussian_negative ug (img draw : arr QS) :
  (exists i j, in_range img i j /\ (get img i j < 0)%Qc) ->
  shot_gaussian ug img draw = ShotErr ValueError MsgNegative.
Proof. intros H. apply has_neg_true in H. unfold shot_gaussian. now rewrite H. Qed.
Lemma shot_gaussian_too_large (img draw : arr QS) :
  (forall i j, in_range img i j -> (0 <= get img i j)%Qc) ->
  (exists i j, in_range img i j /\ (LAM_MAX < get img i j)%Qc) ->
  shot_gaussian true img draw = ShotErr ValueError MsgTooLarge.
Proof. intros H0 H. apply has_neg_false in H0. apply has_big_true in H. unfold shot_gaussian.
  now rewrite H0, H. Qed.
(* the code as it is: nothing but a negative sample is refused *)
Lemma shot_gaussian_unguarded (img draw : arr QS) :
  (forall i j, in_range img i j -> (0 <= get img i j)%Qc) ->
  shot_gaussian false img draw = ShotOk (@mkArr ZS (nr img) (nc img) (fun i j => cast_int64 (get draw i j))).
Proof. intros H0. apply has_neg_false in H0. unfold shot_gaussian. now rewrite H0. Qed.
Lemma shot_gaussian_frame ug (img draw : arr QS) frame :
  shot_gaussian ug img draw = ShotOk frame ->
  (forall i j, in_range img i j -> (0 <= get img i j)%Qc) /\
  (ug = true -> forall i j, in_range img i j -> (get img i j <= LAM_MAX)%Qc) /\
  nr frame = nr img /\ nc frame = nc img /\
  (forall i j, get frame i j = cast_int64 (get draw i j)).
Proof. unfold shot_gaussian. destruct (has_neg img) eqn:H0; [discriminate|].
  destruct (ug && has_big img) eqn:H1; [discriminate|]. intros H. injection H as <-.
  split; [|split; [|cbn [nr nc get]; repeat split]].
  - intros i j Hr. now apply has_neg_false.
  - intros -> i j Hr. cbn [andb] in H1. now apply has_big_false. Qed.

Lemma cast_int64_in_range (x : Qc) :
  - 2 ^ 63 <= Qctrunc x < 2 ^ 63 -> cast_int64 x = Qctrunc x.
Proof. intros H. unfold cast_int64, INT64_MIN. cbv zeta.
  destruct ((- 2 ^ 63 <=? Qctrunc x) && (Qctrunc x <? 2 ^ 63)) eqn:E; [reflexivity|].
  apply andb_false_iff in E. destruct E as [E|E]; [apply Z.leb_gt in E | apply Z.ltb_ge in E]; lia. Qed.
Lemma cast_int64_nonneg (x : Qc) :
  - 2 ^ 63 <= Qctrunc x < 2 ^ 63 -> (0 <= cast_int64 x <-> (- 1 < x)%Q).
Proof. intros H. rewrite cast_int64_in_range by assumption. apply Qctrunc_nonneg. Qed.

(* ------------------------------------------------------------------------------------------ *)
(** * dark_current *)

Lemma dark_no_fpn rate n m fpn draw i j :
  ~ (0 < fpn)%Qc -> get (dark_current rate n m fpn draw) i j = Qcfloor rate.
Proof. intros H. cbn [dark_current get]. unfold dark_fpn.
  destruct (Qcltb 0 fpn) eqn:E; [apply Qcltb_true in E; contradiction|].
  f_equal. ring. Qed.
Lemma dark_shape rate n m fpn draw :
  nr (dark_current rate n m fpn draw) = n /\ nc (dark_current rate n m fpn draw) = m.
Proof. split; reflexivity. Qed.
Lemma dark_nonneg rate n m fpn (draw : arr QS) i j :
  (0 <= rate)%Qc -> (0 < get draw i j)%Qc -> 0 <= get (dark_current rate n m fpn draw) i j.
Proof. intros Hr Hd. cbn [dark_current get]. apply Qcfloor_nonneg.
  apply Qcmult_nonneg; [apply Qcmult_nonneg; [assumption|discriminate]|].
  unfold dark_fpn. destruct (Qcltb 0 fpn); [apply Qclt_le_weak; assumption|discriminate]. Qed.
Lemma dark_floor rate n m fpn draw i j :
  let x := (rate * dark_fpn fpn draw i j)%Qc in
  let d := get (dark_current rate n m fpn draw) i j in
  (inject_Z d <= x)%Q /\ (x < inject_Z (d + 1))%Q.
Proof. cbv zeta. cbn [dark_current get].
  replace (rate * 1 * dark_fpn fpn draw i j)%Qc with (rate * dark_fpn fpn draw i j)%Qc by ring.
  apply Qcfloor_spec. Qed.

(* ------------------------------------------------------------------------------------------ *)
(** * read_noise *)
Lemma read_noise_additive (img draw : arr QS) i j :
  nr (read_noise img draw) = nr img /\ nc (read_noise img draw) = nc img /\
  (get (read_noise img draw) i j - get img i j)%Qc = get draw i j.
Proof. cbn [read_noise nr nc get]. repeat split. ring. Qed.

(* ------------------------------------------------------------------------------------------ *)
(** * Seeded functions depend on the generator only through their one request *)
Lemma shot_noise_seeded_ext ug (rng1 rng2 : generator) sq img mth seed :
  (forall rq, rng1 seed rq = rng2 seed rq) ->
  shot_noise_seeded ug rng1 sq img mth seed = shot_noise_seeded ug rng2 sq img mth seed.
Proof. intros H. unfold shot_noise_seeded. destruct mth; now rewrite H. Qed.
Lemma read_noise_seeded_ext (rng1 rng2 : generator) img e seed :
  (forall rq, rng1 seed rq = rng2 seed rq) ->
  read_noise_seeded rng1 img e seed = read_noise_seeded rng2 img e seed.
Proof. intros H. unfold read_noise_seeded. now rewrite H. Qed.
Lemma dark_current_seeded_ext (rng1 rng2 : generator) rate n m fpn seed :
  (forall rq, rng1 seed rq = rng2 seed rq) ->
  dark_current_seeded rng1 rate n m fpn seed = dark_current_seeded rng2 rate n m fpn seed.
Proof. intros H. unfold dark_current_seeded. now rewrite H. Qed.

(* ------------------------------------------------------------------------------------------ *)
(** * power_spectrum over the reals: zero outside the mask, RMS over the support exactly |rms| *)
Section PSReal.
Local Open Scope R_scope.

Definition Risz (x : K RS) : bool := if Req_EM_T x 0 then true else false.   (* x == 0 *)
Definition Rnrm (c : Z) (s : K RS) : K RS := sqrt (IZR c / s).                   (* np.sqrt(c / s) *)

Lemma Risz_true x : Risz x = true <-> x = 0.
Proof. unfold Risz. destruct (Req_EM_T x 0); split; intros; congruence. Qed.
Lemma Risz_false x : Risz x = false <-> x <> 0.
Proof. unfold Risz. destruct (Req_EM_T x 0); split; intros; congruence. Qed.

Lemma sumnR_nonneg n (f : nat -> R) : (forall i, (i < n)%nat -> 0 <= f i) -> 0 <= @sumn RS n f.
Proof. induction n as [|n IH]; intros H; cbn [sumn]; [cbn; lra|].
  assert (0 <= @sumn RS n f) by (apply IH; intros; apply H; lia).
  assert (0 <= f n) by (apply H; lia). cbn [RS kadd K] in *. lra. Qed.
Lemma sumnR_ge_term n (f : nat -> R) k : (forall i, (i < n)%nat -> 0 <= f i) -> (k < n)%nat ->
  f k <= @sumn RS n f.
Proof. induction n as [|n IH]; intros H Hk; [lia|]. cbn [sumn].
  assert (0 <= @sumn RS n f) by (apply sumnR_nonneg; intros; apply H; lia).
  assert (0 <= f n) by (apply H; lia).
  destruct (Nat.eq_dec k n) as [->|Hne]; cbn [RS kadd K] in *; [lra|].
  assert (f k <= @sumn RS n f) by (apply IH; [intros; apply H|]; lia). lra. Qed.

Lemma ps_ss_pos (opd : arr RS) i j :
  (0 <= i < nr opd)%Z -> (0 <= j < nc opd)%Z -> get opd i j <> 0 -> 0 < ps_ss opd.
Proof. intros Hi Hj Hx. unfold ps_ss, sumZ.
  set (g := fun i0 : nat => @sumn RS (Z.to_nat (nc opd))
             (fun j0 => (get opd (Z.of_nat i0) (Z.of_nat j0) * get opd (Z.of_nat i0) (Z.of_nat j0))%K)).
  assert (Hsq : forall x : R, 0 <= x * x) by (intros; nra).
  assert (Hg : forall i0, 0 <= g i0).
  { intros i0. apply sumnR_nonneg. intros j0 _. cbn [RS kmul K]. apply Hsq. }
  apply Rlt_le_trans with (g (Z.to_nat i)).
  - unfold g. set (h := fun j0 : nat => (get opd (Z.of_nat (Z.to_nat i)) (Z.of_nat j0) *
                                          get opd (Z.of_nat (Z.to_nat i)) (Z.of_nat j0))%K).
    apply Rlt_le_trans with (h (Z.to_nat j)).
    + unfold h. rewrite !Z2Nat.id by lia. cbn [RS kmul K] in *. nra.
    + apply sumnR_ge_term; [|lia]. intros j0 _. unfold h. cbn [RS kmul K]. apply Hsq.
  - apply (sumnR_ge_term _ g); [intros; apply Hg | lia]. Qed.

Lemma count2_ext (S T : Scalar) (p : S -> bool) (q : T -> bool) (a : arr S) (b : arr T) :
  nr a = nr b -> nc a = nc b ->
  (forall i j, (0 <= i < nr a)%Z -> (0 <= j < nc a)%Z -> p (get a i j) = q (get b i j)) ->
  count2 p a = count2 q b.
Proof. intros Hr Hc H. unfold count2. rewrite <- Hr, <- Hc.
  apply (sumZ_ext ZS). intros i Hi. apply (sumZ_ext ZS). intros j Hj. now rewrite H. Qed.

Section Fixed.
Variables (opd : arr RS) (rms : R).
Hypothesis nonzero : exists i j, in_range opd i j /\ get opd i j <> 0.

Let cnt := ps_count Risz opd.
Let ss := ps_ss opd.
Let c := Rnrm cnt ss.

Lemma ps_cnt_pos : (1 <= cnt)%Z.
Proof. destruct nonzero as (i & j & (Hi & Hj) & Hx). unfold cnt, ps_count.
  apply (count2_pos RS _ opd i j Hi Hj). apply negb_true_iff. now apply Risz_false. Qed.
Lemma ps_ss_pos' : 0 < ss.
Proof. destruct nonzero as (i & j & (Hi & Hj) & Hx). exact (ps_ss_pos opd i j Hi Hj Hx). Qed.
Lemma ps_c_sq : c * c = IZR cnt / ss.
Proof. unfold c, Rnrm. apply sqrt_sqrt. pose proof ps_ss_pos'. pose proof ps_cnt_pos.
  apply Rmult_le_pos; [apply IZR_le; lia | left; now apply Rinv_0_lt_compat]. Qed.
Lemma ps_c_pos : 0 < c.
Proof. unfold c, Rnrm. apply sqrt_lt_R0. pose proof ps_ss_pos'. pose proof ps_cnt_pos.
  apply Rmult_lt_0_compat; [apply IZR_lt; lia | now apply Rinv_0_lt_compat]. Qed.

(* sum over the whole frame of out^2 = rms^2 * count *)
Lemma ps_energy :
  sumZ (nr opd) (fun i => sumZ (nc opd) (fun j =>
     (ps_scale Risz Rnrm opd rms i j * ps_scale Risz Rnrm opd rms i j)%K))
  = rms * rms * IZR cnt.
Proof.
  rewrite (sumZ_ext RS _ _ (fun i => ((c * rms) * (c * rms) *
             sumZ (nc opd) (fun j => (get opd i j * get opd i j)%K))%K)).
  - rewrite (sumZ_scale_l RS RS_ring). fold (ps_ss opd). fold ss.
    cbn [RS kmul K]. replace (c * rms * (c * rms) * ss) with (c * c * rms * rms * ss) by ring.
    rewrite ps_c_sq. pose proof ps_ss_pos'. field. lra.
  - intros i _. rewrite <- (sumZ_scale_l RS RS_ring). apply (sumZ_ext RS). intros j _.
    unfold ps_scale, ps_scale_with. fold cnt. fold ss. fold c. cbn [RS kmul K]. ring. Qed.

Lemma ps_scale_zero_iff i j : rms <> 0 -> (ps_scale Risz Rnrm opd rms i j = 0 <-> get opd i j = 0).
Proof. intros Hr. unfold ps_scale, ps_scale_with. fold cnt. fold ss. fold c. cbn [RS kmul K]. pose proof ps_c_pos.
  split; intros H0.
  - apply Rmult_integral in H0. destruct H0 as [H0|H0]; [|contradiction].
    apply Rmult_integral in H0. destruct H0 as [H0|H0]; [assumption|lra].
  - rewrite H0. ring. Qed.
End Fixed.

(* the statement about power_spectrum_post *)
Lemma power_spectrum_rms (filt mask : arr RS) (rms : R) :
  (exists i j, in_range mask i j /\ get filt i j * get mask i j <> 0) ->
  exists out, power_spectrum_post Risz Rnrm filt mask rms = Some out /\
    nr out = nr mask /\ nc out = nc mask /\
    (forall i j, get mask i j = 0 -> get out i j = 0) /\
    sumZ (nr out) (fun i => sumZ (nc out) (fun j => (get out i j * get out i j)%K))
      = rms * rms * IZR (ps_count Risz (ps_opd filt mask)) /\
    (rms <> 0 ->
       ps_count Risz out = ps_count Risz (ps_opd filt mask) /\
       (1 <= ps_count Risz out)%Z /\
       sqrt (sumZ (nr out) (fun i => sumZ (nc out) (fun j => (get out i j * get out i j)%K))
             / IZR (ps_count Risz out)) = Rabs rms).
Proof. intros Hnz. set (opd := ps_opd filt mask).
  assert (Hnz' : exists i j, in_range opd i j /\ get opd i j <> 0).
  { destruct Hnz as (i & j & Hr & Hx). exists i, j. split; [exact Hr | exact Hx]. }
  pose proof (ps_cnt_pos opd Hnz') as Hcnt.
  unfold power_spectrum_post. cbv zeta. fold opd.
  change (ps_scale_with Rnrm opd (ps_count Risz opd) (ps_ss opd) rms) with (ps_scale Risz Rnrm opd rms).
  destruct (ps_count Risz opd =? 0)%Z eqn:E; [apply Z.eqb_eq in E; lia|].
  eexists. split; [reflexivity|]. cbn [nr nc get].
  assert (Hen := ps_energy opd rms Hnz'). cbn [opd ps_opd nr nc] in Hen. fold opd in Hen.
  split; [reflexivity|]. split; [reflexivity|]. split; [|split].
  - intros i j H0. unfold ps_scale, ps_scale_with. cbn [opd ps_opd get RS kmul K]. rewrite H0. ring.
  - exact Hen.
  - intros Hr.
    assert (Hc : ps_count Risz (mkArr (nr mask) (nc mask) (ps_scale Risz Rnrm opd rms)) = ps_count Risz opd).
    { unfold ps_count. apply count2_ext; try reflexivity. cbn [nr nc get]. intros i j _ _. f_equal.
      destruct (Risz (get opd i j)) eqn:E1.
      - apply Risz_true. apply (ps_scale_zero_iff opd rms Hnz' i j Hr). now apply Risz_true.
      - apply Risz_false. apply Risz_false in E1. intros H0. apply E1.
        now apply (ps_scale_zero_iff opd rms Hnz' i j Hr). }
    rewrite Hc. split; [reflexivity|]. split; [assumption|].
    rewrite Hen. replace (rms * rms * IZR (ps_count Risz opd) / IZR (ps_count Risz opd)) with (Rsqr rms).
    + apply sqrt_Rsqr_abs.
    + unfold Rsqr. field. apply not_0_IZR. lia. Qed.

(* an identically-zero masked draw: 0/0, the code returns a frame of NaN *)
Lemma power_spectrum_all_zero (filt mask : arr RS) (rms : R) :
  (forall i j, in_range mask i j -> get filt i j * get mask i j = 0) ->
  power_spectrum_post Risz Rnrm filt mask rms = None.
Proof. intros H. unfold power_spectrum_post.
  replace (ps_count Risz (ps_opd filt mask)) with 0%Z; [reflexivity|].
  symmetry. unfold ps_count, count2. apply (sumZ_zero_ext ZS ZS_ring). intros i Hi.
  apply (sumZ_zero_ext ZS ZS_ring). intros j Hj. cbn [ps_opd nr nc get] in *.
  assert (E : Risz (get filt i j * get mask i j)%K = true) by (apply Risz_true; apply H; split; assumption).
  rewrite E. reflexivity. Qed.
End PSReal.

(* ------------------------------------------------------------------------------------------ *)
(** * cosmic_rays: a sum of non-negative deposits is a non-negative frame of the requested shape *)
Section CosmicReal.
Local Open Scope R_scope.

Lemma lsum_nonneg (l : list R) : (forall x, In x l -> 0 <= x) -> 0 <= @lsum RS l.
Proof. induction l as [|x l IH]; intros H; cbn [lsum]; [cbn; lra|].
  assert (0 <= x) by (apply H; now left).
  assert (0 <= @lsum RS l) by (apply IH; intros; apply H; now right).
  cbn [RS kadd K] in *. lra. Qed.

Definition dep_nonneg (d : deposit RS) : Prop := 0 <= dflux d /\ exists q, ddist d = sqrt q.

Lemma dep_at_nonneg n m i j (d : deposit RS) : dep_nonneg d -> 0 <= dep_at n m i j d.
Proof. intros (Hf & q & Hq). unfold dep_at. destr_if; cbn [RS kmul k0 K]; [|lra].
  rewrite Hq. apply Rmult_le_pos; [assumption | apply sqrt_pos]. Qed.

Lemma ray_image_nonneg n m (ds : list (deposit RS)) i j :
  (forall d, In d ds -> dep_nonneg d) -> 0 <= get (ray_image n m ds) i j.
Proof. intros H. cbn [ray_image get]. apply lsum_nonneg. intros x Hx.
  apply in_map_iff in Hx. destruct Hx as (d & <- & Hd). apply dep_at_nonneg. now apply H. Qed.

Lemma cosmic_nonneg n m (rays : list (list (deposit RS))) frame :
  (forall ds d, In ds rays -> In d ds -> dep_nonneg d) ->
  cosmic_rays n m rays = Ok frame ->
  nr frame = n /\ nc frame = m /\ forall i j, 0 <= get frame i j.
Proof. intros H. unfold cosmic_rays. destr_if; [|discriminate]. intros E. injection E as <-.
  cbn [nr nc]. split; [reflexivity|]. split; [reflexivity|]. intros i j. cbn [get].
  apply lsum_nonneg. intros x Hx. apply in_map_iff in Hx. destruct Hx as (ds & <- & Hds).
  apply ray_image_nonneg. intros d Hd. exact (H ds d Hds Hd). Qed.
End CosmicReal.

(* an index outside [-n, n) x [-m, m) is an IndexError, as in numpy *)
Lemma cosmic_index_error (S : Scalar) n m (rays : list (list (deposit S))) ds d :
  In ds rays -> In d ds -> dep_ok n m d = false -> cosmic_rays n m rays = Err IndexError.
Proof. intros Hds Hd Hbad. unfold cosmic_rays.
  destruct (forallb (forallb (dep_ok n m)) rays) eqn:E; [|reflexivity].
  rewrite forallb_forall in E. specialize (E ds Hds). rewrite forallb_forall in E.
  rewrite (E d Hd) in Hbad. discriminate. Qed.

(* ------------------------------------------------------------------------------------------ *)
(** * cosmic_rays conserves the deposited charge (any commutative ring): every deposit lands in
      exactly one pixel, so the total of the frame is the total of flux*dist over all segments *)
Section CosmicTotal.
Variable S : Scalar.
Hypothesis Sring : is_ring S.
Add Ring SrC : Sring.

Definition dep_val (d : deposit S) : S := (dflux d * ddist d)%K.
Definition atotal (a : arr S) : S := sumZ (nr a) (fun i => sumZ (nc a) (fun j => get a i j)).

Lemma sumZ_lsum {A} n (l : list A) (f : Z -> A -> S) :
  sumZ n (fun i => lsum (map (f i) l)) = lsum (map (fun x => sumZ n (fun i => f i x)) l).
Proof. induction l as [|x l IH]; cbn [map lsum].
  - apply (sumZ_zero S Sring).
  - rewrite (sumZ_add S Sring), IH. reflexivity. Qed.

Lemma wrap_range n i : - n <= i < n -> 0 <= wrap n i < n.
Proof. intros H. unfold wrap. destr_if; lia. Qed.

Lemma dep_at_total n m (d : deposit S) : dep_ok n m d = true ->
  sumZ n (fun i => sumZ m (fun j => dep_at n m i j d)) = dep_val d.
Proof. intros Hok. unfold dep_ok in Hok. rewrite !andb_true_iff in Hok. destruct Hok as (((H1 & H2) & H3) & H4).
  assert (Hr : 0 <= wrap n (drow d) < n) by (apply wrap_range; lia).
  assert (Hc : 0 <= wrap m (dcol d) < m) by (apply wrap_range; lia).
  rewrite (sumZ_ext S _ _ (fun i => if i =? wrap n (drow d) then dep_val d else k0)).
  - now rewrite (sumZ_delta S Sring n (wrap n (drow d)) (fun _ => dep_val d)).
  - intros i Hi. unfold dep_at. rewrite (Z.eqb_sym (wrap n (drow d)) i).
    destruct (i =? wrap n (drow d)); cbn [andb].
    + rewrite (sumZ_ext S _ _ (fun j => if j =? wrap m (dcol d) then dep_val d else k0)).
      * now rewrite (sumZ_delta S Sring m (wrap m (dcol d)) (fun _ => dep_val d)).
      * intros j Hj. now rewrite (Z.eqb_sym (wrap m (dcol d)) j).
    + apply (sumZ_zero S Sring). Qed.

Lemma ray_image_total n m (ds : list (deposit S)) : forallb (dep_ok n m) ds = true ->
  atotal (ray_image n m ds) = lsum (map dep_val ds).
Proof. intros Hok. unfold atotal. cbn [ray_image nr nc get].
  rewrite (sumZ_ext S _ _ (fun i => lsum (map (fun d => sumZ m (fun j => dep_at n m i j d)) ds)))
    by (intros i _; apply sumZ_lsum).
  rewrite sumZ_lsum. f_equal. apply map_ext_in. intros d Hd.
  apply dep_at_total. rewrite forallb_forall in Hok. now apply Hok. Qed.

Lemma cosmic_total n m (rays : list (list (deposit S))) frame :
  cosmic_rays n m rays = Ok frame ->
  atotal frame = lsum (map (fun ds => lsum (map dep_val ds)) rays).
Proof. unfold cosmic_rays. destruct (forallb (forallb (dep_ok n m)) rays) eqn:Hok; [|discriminate].
  intros E. injection E as <-. unfold atotal. cbn [nr nc get].
  rewrite (sumZ_ext S _ _ (fun i => lsum (map (fun ds => sumZ m (fun j => get (ray_image n m ds) i j)) rays)))
    by (intros i _; apply sumZ_lsum).
  rewrite sumZ_lsum. f_equal. apply map_ext_in. intros ds Hds.
  apply (ray_image_total n m ds). rewrite forallb_forall in Hok. now apply Hok. Qed.
End CosmicTotal.
