(* Field bookkeeping = arithmetic on the infinite zero-padded plane (C06), for every commutative ring. *)
From LV Require Import Model.Field Proofs.ArrP Proofs.ExtentP.
From Coq Require Import Permutation.

Section FieldP.
Variable S : Scalar.
Hypothesis Sring : is_ring S.
Add Ring Sr : Sring.

Definition fvalid (f : field S) : Prop :=
  match fd f with D0 _ => True | D2 a => 0 < nr a /\ 0 < nc a end.

Lemma mul0l (x : S) : (k0 * x)%K = k0. Proof. ring. Qed.
Lemma mul0r (x : S) : (x * k0)%K = k0. Proof. ring. Qed.

(* embedding in index form *)
Lemma embed_index (f : field S) r c :
  embed f r c =
  let '(n, m) := dshape (fd f) in
  let i := r - offr f + n / 2 in let j := c - offc f + m / 2 in
  if inr n i && inr m j then dget (fd f) i j else k0.
Proof.
  unfold embed, fextent. destruct (dshape (fd f)) as [n m]. unfold array_extent, inb, inr.
  replace (r - (- (n / 2) + offr f)) with (r - offr f + n / 2) by ring.
  replace (c - (- (m / 2) + offc f)) with (c - offc f + m / 2) by ring.
  destr_ifs; try reflexivity; exfalso; lia.
Qed.

Lemma embed_force (a : arr S) orr occ tl r c :
  embed (mkField (D2 (force a)) orr occ tl) r c = embed (mkField (D2 a) orr occ tl) r c.
Proof.
  rewrite !embed_index. cbn [fd dshape dget offr offc force_nr force_nc nr nc].
  rewrite force_nr, force_nc. destr_if; [|reflexivity].
  apply force_get; unfold inr in *; lia.
Qed.

(* embedding of a plain array with an offset *)
Definition embedA (a : arr S) (orr occ r c : Z) : S :=
  let i := r - orr + nr a / 2 in let j := c - occ + nc a / 2 in
  if inr (nr a) i && inr (nc a) j then get a i j else k0.

Lemma embed_D2 (a : arr S) orr occ tl r c : embed (mkField (D2 a) orr occ tl) r c = embedA a orr occ r c.
Proof. rewrite embed_index. reflexivity. Qed.
Lemma embed_D0 (v : S) orr occ tl r c :
  embed (mkField (D0 v) orr occ tl) r c = if (r =? orr) && (c =? occ) then v else k0.
Proof. rewrite embed_index. cbn [fd dshape dget offr offc]. unfold inr.
  change (1 / 2) with 0. destr_ifs; try reflexivity; exfalso; lia. Qed.

(* ------------------------------------------------------------------ product *)
Lemma mul_core_embed (da : arr S) ora oca (db : arr S) orb ocb tl r c :
  0 < nr da -> 0 < nc da -> 0 < nr db -> 0 < nc db ->
  embed_opt (mul_core da ora oca db orb ocb tl) r c = (embedA da ora oca r c * embedA db orb ocb r c)%K.
Proof.
  intros Ha1 Ha2 Hb1 Hb2. unfold mul_core.
  destruct da as [an am ag], db as [bn bm bg]. cbn [nr nc get] in *.
  unfold intersect, intersection_slices, intersection_shift, intersection_extent, array_extent.
  destr_if.
  - cbn [embed_opt]. rewrite embed_force, embed_D2. unfold embedA, inr. cbn [nr nc get].
    destr_ifs; rewrite ?mul0l, ?mul0r; try reflexivity; try (exfalso; lia).
    f_equal; f_equal; lia.
  - cbn [embed_opt]. unfold embedA, inr. cbn [nr nc get].
    destr_ifs; rewrite ?mul0l, ?mul0r; try reflexivity; exfalso; lia.
Qed.

Lemma embedA_toarr (f : field S) r c : embedA (toarr (fd f)) (offr f) (offc f) r c = embed f r c.
Proof. destruct f as [[v|a] orr occ tl]; cbn [fd toarr offr offc].
  - rewrite embed_D0. unfold embedA, inr. cbn [nr nc get]. change (1 / 2) with 0.
    destr_ifs; try reflexivity; exfalso; lia.
  - now rewrite embed_D2. Qed.

(* a constant array laid over another array's box: the product only sees the constant *)
Lemma embedA_const_mul (a : arr S) orr occ v r c :
  (embedA (aconst (nr a) (nc a) v) orr occ r c * embedA a orr occ r c)%K = (v * embedA a orr occ r c)%K.
Proof. unfold embedA, aconst. cbn [nr nc get]. destr_if; ring. Qed.

Theorem mul_array_embed (a b : field S) r c : fvalid a -> fvalid b ->
  is0d (fd a) && is0d (fd b) = false ->
  embed_opt (mul_array a b) r c = (embed_const a r c * embed_const b r c)%K.
Proof.
  intros Ha Hb Hs. unfold mul_array, embed_const.
  assert (Va : 0 < nr (toarr (fd a)) /\ 0 < nc (toarr (fd a))).
  { unfold fvalid in Ha. destruct (fd a); cbn; lia. }
  assert (Vb : 0 < nr (toarr (fd b)) /\ 0 < nc (toarr (fd b))).
  { unfold fvalid in Hb. destruct (fd b); cbn; lia. }
  assert (Sa : dshape (fd a) = (nr (toarr (fd a)), nc (toarr (fd a)))) by (destruct (fd a); reflexivity).
  assert (Sb : dshape (fd b) = (nr (toarr (fd b)), nc (toarr (fd b)))) by (destruct (fd b); reflexivity).
  destruct (is0d (fd a)) eqn:Ea; destruct (is0d (fd b)) eqn:Eb; try discriminate; cbn [andb].
  - (* a is 0-d, b is not: the shapes differ *)
    assert (Hd : same_shape (fd a) (fd b) = false).
    { destruct (fd a) as [va|aa], (fd b) as [vb|bb]; cbn in *; try reflexivity; discriminate. }
    rewrite Hd. cbn [negb andb]. rewrite Sb. cbn [fst snd].
    rewrite mul_core_embed by (unfold aconst; cbn [nr nc]; lia).
    rewrite embedA_const_mul. now rewrite embedA_toarr.
  - (* b is 0-d, a is not *)
    assert (Hd : same_shape (fd a) (fd b) = false).
    { destruct (fd a) as [va|aa], (fd b) as [vb|bb]; cbn in *; try reflexivity; discriminate. }
    rewrite Hd. cbn [negb andb].
    rewrite mul_core_embed by (unfold aconst; cbn [nr nc]; lia).
    transitivity ((embedA (aconst (nr (toarr (fd a))) (nc (toarr (fd a))) (dget (fd b) 0 0)) (offr a) (offc a) r c
                   * embedA (toarr (fd a)) (offr a) (offc a) r c)%K); [ring|].
    rewrite embedA_const_mul. rewrite embedA_toarr. ring.
  - (* neither is 0-d (1x1 arrays included): no broadcasting takes place *)
    rewrite !Bool.andb_false_r. rewrite mul_core_embed by lia. now rewrite !embedA_toarr.
Qed.

(* both operands 0-d: _mul_scalar *)
Theorem mul_scalar_equal_offsets (a b : field S) :
  is0d (fd a) = true -> is0d (fd b) = true -> offr a = offr b -> offc a = offc b ->
  exists p, fmul a b = Some p /\ is0d (fd p) = true /\
            dget (fd p) 0 0 = (dget (fd a) 0 0 * dget (fd b) 0 0)%K /\ offr p = offr a /\ offc p = offc a.
Proof.
  intros Ea Eb Hr Hc. unfold fmul, mul_scalar. rewrite Ea, Eb. cbn [andb].
  replace ((offr a =? offr b) && (offc a =? offc b)) with true by lia.
  eexists; split; [reflexivity|]. cbn. auto.
Qed.
(* the finding recorded as C06-scalar-scalar-offsets: with unequal offsets the product is empty,
   although both operands are infinite constants in the property's reading *)
Theorem mul_scalar_unequal_offsets_empty (a b : field S) :
  is0d (fd a) = true -> is0d (fd b) = true -> (offr a <> offr b \/ offc a <> offc b) ->
  fmul a b = None.
Proof. intros Ea Eb H. unfold fmul, mul_scalar. rewrite Ea, Eb. cbn [andb].
  replace ((offr a =? offr b) && (offc a =? offc b)) with false by lia. reflexivity. Qed.

Theorem fmul_embed (a b : field S) r c : fvalid a -> fvalid b ->
  is0d (fd a) && is0d (fd b) = false ->
  embed_opt (fmul a b) r c = (embed_const a r c * embed_const b r c)%K.
Proof. intros Ha Hb Hs. unfold fmul. rewrite Hs. now apply mul_array_embed. Qed.

(* a sized operand (1x1 arrays included) is its own embedding; only 0-d data is a constant *)
Lemma embed_const_sized (f : field S) r c : is0d (fd f) = false -> embed_const f r c = embed f r c.
Proof. intros H. unfold embed_const. now rewrite H. Qed.

(* ------------------------------------------------------------------ boundary *)
Lemma boundary_fold (fs : list (field S)) : boundary fs = fold_left bstep fs (maxsize, - maxsize, maxsize, - maxsize).
Proof. reflexivity. Qed.

Definition esub (a b : extent) : Prop :=   (* a inside b *)
  let '(a1, a2, a3, a4) := a in let '(b1, b2, b3, b4) := b in b1 <= a1 /\ a2 <= b2 /\ b3 <= a3 /\ a4 <= b4.
Definition fbounded (f : field S) : Prop :=
  let '(a1, a2, a3, a4) := fextent f in - maxsize < a1 /\ a2 < maxsize /\ - maxsize < a3 /\ a4 < maxsize.

Lemma fextent_valid f : fvalid f -> evalid (fextent f).
Proof. unfold fvalid, fextent, evalid. destruct (fd f) as [v|a]; cbn [dshape]; unfold array_extent; lia. Qed.

Lemma bstep_spec acc (f : field S) :
  let '(a1, a2, a3, a4) := acc in let '(f1, f2, f3, f4) := fextent f in
  bstep acc f = (Z.min f1 a1, Z.max f2 a2, Z.min f3 a3, Z.max f4 a4).
Proof. destruct acc as [[[a1 a2] a3] a4]. unfold bstep. destruct (fextent f) as [[[f1 f2] f3] f4].
  repeat f_equal; destr_if; lia. Qed.

Lemma bfold_mono (l : list (field S)) : forall acc,
  (let '(a1, a2, a3, a4) := acc in let '(b1, b2, b3, b4) := fold_left bstep l acc in
   b1 <= a1 /\ a2 <= b2 /\ b3 <= a3 /\ a4 <= b4) /\
  (forall f, In f l -> esub (fextent f) (fold_left bstep l acc)).
Proof.
  induction l as [|f l IH]; intros acc; cbn [fold_left].
  - destruct acc as [[[a1 a2] a3] a4]. split; [lia|intros f []].
  - destruct (IH (bstep acc f)) as [M C]. pose proof (bstep_spec acc f) as Hs.
    destruct acc as [[[a1 a2] a3] a4]. destruct (fextent f) as [[[f1 f2] f3] f4] eqn:Ef.
    destruct (bstep (a1, a2, a3, a4) f) as [[[c1 c2] c3] c4]. injection Hs as -> -> -> ->.
    split.
    + destruct (fold_left bstep l _) as [[[b1 b2] b3] b4]. lia.
    + intros g [<-|Hg]; [|now apply C]. rewrite Ef. unfold esub.
      destruct (fold_left bstep l _) as [[[b1 b2] b3] b4]. lia.
Qed.

(* every bound of the result is the start value or is attained by some field *)
Lemma bfold_attained (l : list (field S)) : forall acc,
  let '(a1, a2, a3, a4) := acc in let '(b1, b2, b3, b4) := fold_left bstep l acc in
  (b1 = a1 \/ exists f, In f l /\ b1 = fst (fst (fst (fextent f)))) /\
  (b2 = a2 \/ exists f, In f l /\ b2 = snd (fst (fst (fextent f)))) /\
  (b3 = a3 \/ exists f, In f l /\ b3 = snd (fst (fextent f))) /\
  (b4 = a4 \/ exists f, In f l /\ b4 = snd (fextent f)).
Proof.
  induction l as [|f l IH]; intros acc; cbn [fold_left].
  - destruct acc as [[[a1 a2] a3] a4]. auto.
  - specialize (IH (bstep acc f)). pose proof (bstep_spec acc f) as Hs.
    destruct acc as [[[a1 a2] a3] a4]. destruct (fextent f) as [[[f1 f2] f3] f4] eqn:Ef.
    destruct (bstep (a1, a2, a3, a4) f) as [[[c1 c2] c3] c4]. injection Hs as -> -> -> ->.
    destruct (fold_left bstep l _) as [[[b1 b2] b3] b4].
    destruct IH as (H1 & H2 & H3 & H4).
    repeat split.
    + destruct H1 as [->|(g & Hg & ->)]; [|right; exists g; split; [now right|reflexivity]].
      destruct (Z.min_spec f1 a1) as [[_ ->]|[_ ->]]; [right; exists f; rewrite Ef; split; [now left|reflexivity]|now left].
    + destruct H2 as [->|(g & Hg & ->)]; [|right; exists g; split; [now right|reflexivity]].
      destruct (Z.max_spec f2 a2) as [[_ ->]|[_ ->]]; [now left|right; exists f; rewrite Ef; split; [now left|reflexivity]].
    + destruct H3 as [->|(g & Hg & ->)]; [|right; exists g; split; [now right|reflexivity]].
      destruct (Z.min_spec f3 a3) as [[_ ->]|[_ ->]]; [right; exists f; rewrite Ef; split; [now left|reflexivity]|now left].
    + destruct H4 as [->|(g & Hg & ->)]; [|right; exists g; split; [now right|reflexivity]].
      destruct (Z.max_spec f4 a4) as [[_ ->]|[_ ->]]; [now left|right; exists f; rewrite Ef; split; [now left|reflexivity]].
Qed.

(* boundary = exact bounding box of a non-empty collection *)
Theorem boundary_is_bounding_box fs : fs <> [] -> (forall f, In f fs -> fvalid f /\ fbounded f) ->
  let '(b1, b2, b3, b4) := boundary fs in
  (forall f, In f fs -> esub (fextent f) (b1, b2, b3, b4)) /\
  (exists f, In f fs /\ b1 = fst (fst (fst (fextent f)))) /\
  (exists f, In f fs /\ b2 = snd (fst (fst (fextent f)))) /\
  (exists f, In f fs /\ b3 = snd (fst (fextent f))) /\
  (exists f, In f fs /\ b4 = snd (fextent f)).
Proof.
  intros Hne Hv. rewrite boundary_fold.
  destruct fs as [|f0 l]; [congruence|].
  pose proof (bfold_mono (f0 :: l) (maxsize, - maxsize, maxsize, - maxsize)) as [M C].
  pose proof (bfold_attained (f0 :: l) (maxsize, - maxsize, maxsize, - maxsize)) as A.
  destruct (fold_left bstep (f0 :: l) _) as [[[b1 b2] b3] b4]. cbn beta iota in M, A.
  split; [exact C|].
  specialize (C f0 (or_introl eq_refl)). destruct (Hv f0 (or_introl eq_refl)) as [V0 B0].
  apply fextent_valid in V0. unfold esub, fbounded, evalid in *.
  destruct (fextent f0) as [[[f1 f2] f3] f4].
  destruct A as (A1 & A2 & A3 & A4).
  repeat split.
  - destruct A1 as [->|A1]; [exfalso; lia|exact A1].
  - destruct A2 as [->|A2]; [exfalso; lia|exact A2].
  - destruct A3 as [->|A3]; [exfalso; lia|exact A3].
  - destruct A4 as [->|A4]; [exfalso; lia|exact A4].
Qed.

Lemma boundary_valid fs : fs <> [] -> (forall f, In f fs -> fvalid f /\ fbounded f) -> evalid (boundary fs).
Proof.
  intros Hne Hv. pose proof (boundary_is_bounding_box fs Hne Hv) as H.
  destruct (boundary fs) as [[[b1 b2] b3] b4]. destruct H as (C & _).
  destruct fs as [|f0 l]; [congruence|]. specialize (C f0 (or_introl eq_refl)).
  destruct (Hv f0 (or_introl eq_refl)) as [V0 _]. apply fextent_valid in V0.
  unfold esub, evalid in *. destruct (fextent f0) as [[[f1 f2] f3] f4]. lia.
Qed.

Lemma boundary_singleton f : fvalid f -> fbounded f -> boundary [f] = fextent f.
Proof. intros V B. rewrite boundary_fold. cbn [fold_left]. unfold bstep. apply fextent_valid in V.
  unfold fbounded, evalid in *. destruct (fextent f) as [[[f1 f2] f3] f4].
  repeat f_equal; destr_if; lia. Qed.

(* ------------------------------------------------------------------ merge *)
Lemma fold_left_ext_in {A B} (g1 g2 : A -> B -> A) l : forall a,
  (forall acc f, In f l -> g1 acc f = g2 acc f) -> fold_left g1 l a = fold_left g2 l a.
Proof. induction l as [|x l IH]; intros a H; cbn; [reflexivity|].
  rewrite H by now left. apply IH. intros; apply H; now right. Qed.

Lemma embed_sum_zero (l : list (field S)) r c : (forall f, In f l -> embed f r c = k0) -> forall a : S,
  fold_left (fun acc f => (acc + embed f r c)%K) l a = a.
Proof. induction l as [|x l IH]; intros H a; cbn; [reflexivity|].
  rewrite IH by (intros; apply H; now right). rewrite H by now left. ring. Qed.

Lemma embed_outside (f : field S) e r c : esub (fextent f) e -> inE e r c = false -> embed f r c = k0.
Proof. unfold embed, esub, inE, inb. destruct (fextent f) as [[[f1 f2] f3] f4], e as [[[e1 e2] e3] e4].
  intros H1 H2. destr_if; [exfalso; lia|reflexivity]. Qed.

Lemma merged_extent b1 b2 b3 b4 : b1 <= b2 -> b3 <= b4 ->
  array_extent (b2 - b1 + 1) (b4 - b3 + 1) (b1 + (b2 - b1 + 1) / 2) (b3 + (b4 - b3 + 1) / 2) = (b1, b2, b3, b4).
Proof. intros. unfold array_extent. repeat f_equal; lia. Qed.

Theorem merge_embed (fs : list (field S)) r c : fs <> [] -> (forall f, In f fs -> fvalid f /\ fbounded f) ->
  embed (merge fs) r c = embed_sum fs r c.
Proof.
  intros Hne Hv. unfold merge, embed_sum.
  pose proof (boundary_is_bounding_box fs Hne Hv) as BB. pose proof (boundary_valid fs Hne Hv) as BV.
  destruct (boundary fs) as [[[b1 b2] b3] b4] eqn:HB. destruct BB as (Csub & A1 & A2 & A3 & A4). unfold evalid in BV.
  destruct (merge_scalars fs) eqn:Ms.
  - (* all 0-d at the origin *)
    assert (Hall : forall f, In f fs -> exists v, fd f = D0 v /\ offr f = 0 /\ offc f = 0).
    { intros f Hf. unfold merge_scalars in Ms. rewrite forallb_forall in Ms. specialize (Ms f Hf).
      destruct (fd f) as [v|a]; [|discriminate]. exists v. split; [reflexivity|lia]. }
    assert (E : forall f, In f fs -> fextent f = (0, 0, 0, 0)).
    { intros f Hf. destruct (Hall f Hf) as (v & Hd & Hr & Hc). unfold fextent. rewrite Hd. cbn. now rewrite Hr, Hc. }
    assert (b1 = 0 /\ b2 = 0 /\ b3 = 0 /\ b4 = 0) as (-> & -> & -> & ->).
    { destruct A1 as (f1 & I1 & ->), A2 as (f2 & I2 & ->), A3 as (f3 & I3 & ->), A4 as (f4 & I4 & ->).
      rewrite (E _ I1), (E _ I2), (E _ I3), (E _ I4). cbn. auto. }
    rewrite embed_D0. change (0 + (0 - 0 + 1) / 2) with 0.
    clear HB Csub A1 A2 A3 A4 BV Ms E Hne Hv.
    (* both sides are folds over fs *)
    assert (G : forall a, (if (r =? 0) && (c =? 0)
                then fold_left (fun acc f => (acc + dget (fd f) 0 0)%K) fs a else k0)
              = fold_left (fun acc f => (acc + embed f r c)%K) fs (if (r =? 0) && (c =? 0) then a else k0)).
    { induction fs as [|f l IH]; intros a; cbn [fold_left]; [reflexivity|].
      destruct (Hall f (or_introl eq_refl)) as (v & Hd & Hr & Hc).
      rewrite IH by (intros; apply Hall; now right).
      f_equal. destruct f as [d orr occ tl]. cbn [fd offr offc] in *. subst. rewrite embed_D0. cbn [fd dget].
      destruct ((r =? 0) && (c =? 0)); ring. }
    rewrite G. destruct ((r =? 0) && (c =? 0)); reflexivity.
  - (* the general case: an array covering the bounding box *)
    rewrite embed_force, embed_D2. unfold embedA. cbn [nr nc get].
    replace (r - (b1 + (b2 - b1 + 1) / 2) + (b2 - b1 + 1) / 2) with (r - b1) by ring.
    replace (c - (b3 + (b4 - b3 + 1) / 2) + (b4 - b3 + 1) / 2) with (c - b3) by ring.
    destruct (inr (b2 - b1 + 1) (r - b1) && inr (b4 - b3 + 1) (c - b3)) eqn:In.
    + apply fold_left_ext_in. intros acc f Hf. specialize (Csub f Hf).
      unfold embed, esub, inb in *. destruct (fextent f) as [[[f1 f2] f3] f4].
      replace (r - b1 - (f1 - b1)) with (r - f1) by ring. replace (c - b3 - (f3 - b3)) with (c - f3) by ring.
      destr_ifs; try reflexivity; try (exfalso; lia). ring.
    + symmetry. apply embed_sum_zero. intros f Hf. apply (embed_outside f (b1, b2, b3, b4)); [now apply Csub|].
      unfold inE, inb, inr in *. lia.
Qed.

Lemma merge_extent (fs : list (field S)) : fs <> [] -> (forall f, In f fs -> fvalid f /\ fbounded f) ->
  fextent (merge fs) = boundary fs.
Proof.
  intros Hne Hv. pose proof (boundary_valid fs Hne Hv) as BV. unfold merge.
  destruct (boundary fs) as [[[b1 b2] b3] b4] eqn:HB. unfold evalid in BV.
  destruct (merge_scalars fs) eqn:Ms.
  - (* bounding box is the origin sample *)
    pose proof (boundary_is_bounding_box fs Hne Hv) as BB. rewrite HB in BB.
    destruct BB as (_ & (f1 & I1 & ->) & (f2 & I2 & ->) & (f3 & I3 & ->) & (f4 & I4 & ->)).
    assert (E : forall f, In f fs -> fextent f = (0, 0, 0, 0)).
    { intros f Hf. unfold merge_scalars in Ms. rewrite forallb_forall in Ms. specialize (Ms f Hf).
      unfold fextent. destruct (fd f) as [v|a]; [|discriminate]. cbn.
      replace (offr f) with 0 by lia. replace (offc f) with 0 by lia. reflexivity. }
    rewrite (E _ I1), (E _ I2), (E _ I3), (E _ I4). reflexivity.
  - unfold fextent. cbn [fd dshape force_nr force_nc offr offc]. rewrite force_nr, force_nc. cbn [nr nc].
    apply merged_extent; lia.
Qed.

Lemma merge_valid (fs : list (field S)) : fs <> [] -> (forall f, In f fs -> fvalid f /\ fbounded f) -> fvalid (merge fs).
Proof.
  intros Hne Hv. pose proof (boundary_valid fs Hne Hv) as BV. unfold merge.
  destruct (boundary fs) as [[[b1 b2] b3] b4]. unfold evalid in BV.
  destruct (merge_scalars fs); unfold fvalid; cbn [fd]; [exact I|]. rewrite force_nr, force_nc. cbn [nr nc]. lia.
Qed.

(* ------------------------------------------------------------------ reduce *)
Notation group := (@group S).
Definition lsum (l : list S) : S := fold_right (fun x acc => (x + acc)%K) k0 l.
Lemma fold_acc_lsum (e : field S -> S) l : forall a,
  fold_left (fun acc f => (acc + e f)%K) l a = (a + lsum (map e l))%K.
Proof. unfold lsum. induction l as [|x l IH]; intros a; cbn [fold_left map fold_right]; [ring|]. rewrite IH. ring. Qed.
Lemma embed_sum_lsum (l : list (field S)) r c : embed_sum l r c = lsum (map (fun f => embed f r c) l).
Proof. unfold embed_sum. rewrite fold_acc_lsum. ring. Qed.
Lemma lsum_perm l l' : Permutation l l' -> lsum l = lsum l'.
Proof. unfold lsum. induction 1; cbn [fold_right]; try congruence; ring. Qed.
Lemma lsum_app l l' : lsum (l ++ l') = (lsum l + lsum l')%K.
Proof. unfold lsum. induction l as [|x l IH]; cbn [app fold_right]; [ring|]. rewrite IH. ring. Qed.
Lemma embed_sum_perm (l l' : list (field S)) r c : Permutation l l' -> embed_sum l r c = embed_sum l' r c.
Proof. intros H. rewrite !embed_sum_lsum. apply lsum_perm. now apply Permutation_map. Qed.
Lemma embed_sum_app (l l' : list (field S)) r c : embed_sum (l ++ l') r c = (embed_sum l r c + embed_sum l' r c)%K.
Proof. rewrite !embed_sum_lsum, map_app. apply lsum_app. Qed.

Definition all_fields (l : list group) : list (field S) := flat_map fst l.
Definition gout (g : group) : field S := match fst g with [f] => f | l => merge l end.
Definition fok (f : field S) : Prop := fvalid f /\ fbounded f.
Definition ginv (g : group) : Prop := fst g <> [] /\ snd g = boundary (fst g) /\ forall f, In f (fst g) -> fok f.

Lemma find_n_none e (tl : list group) : find_n e tl = None -> forall g, In g tl -> intersect e (snd g) = false.
Proof. induction tl as [|g r IH]; cbn; intros H x Hx; [contradiction|].
  destruct (intersect e (snd g)) eqn:E; [discriminate|]. destruct (find_n e r); [discriminate|].
  destruct Hx as [<-|Hx]; [assumption|now apply IH]. Qed.
Lemma find_pair_none (l : list group) : find_pair l = None ->
  ForallOrdPairs (fun a b : group => intersect (snd a) (snd b) = false) l.
Proof. induction l as [|g r IH]; cbn; intros H; [constructor|].
  destruct (find_n (snd g) r) eqn:E; [discriminate|]. destruct (find_pair r) as [[m n]|]; [discriminate|].
  constructor; [|now apply IH]. apply Forall_forall. now apply find_n_none. Qed.
Lemma find_n_lt e (tl : list group) k : find_n e tl = Some k -> (k < length tl)%nat.
Proof. revert k; induction tl as [|g r IH]; cbn; intros k H; [discriminate|].
  destruct (intersect e (snd g)); [injection H as <-; lia|]. destruct (find_n e r) eqn:E; [|discriminate].
  injection H as <-. specialize (IH _ eq_refl). lia. Qed.
Lemma find_pair_lt (l : list group) m n : find_pair l = Some (m, n) -> (m < n < length l)%nat.
Proof. revert m n; induction l as [|g r IH]; cbn; intros m n H; [discriminate|].
  destruct (find_n (snd g) r) eqn:E. - injection H as <- <-. apply find_n_lt in E. lia.
  - destruct (find_pair r) as [[m' n']|] eqn:E2; [|discriminate]. injection H as <- <-.
    specialize (IH _ _ eq_refl). lia. Qed.
Lemma remove_nth_length {A} n (l : list A) : (n < length l)%nat -> length (remove_nth n l) = pred (length l).
Proof. revert l; induction n as [|n IH]; intros [|x r]; cbn; intros H; try lia. rewrite IH by lia.
  destruct r; cbn in *; lia. Qed.
Lemma update_nth_length {A} n f (l : list A) : length (update_nth n f l) = length l.
Proof. revert l; induction n as [|n IH]; intros [|x r]; cbn; auto. Qed.
Lemma merge_step_length (l : list group) m n : (m < n < length l)%nat -> length (merge_step l m n) = pred (length l).
Proof. intros H. unfold merge_step. rewrite remove_nth_length; rewrite update_nth_length; lia. Qed.

Lemma remove_nth_perm (r : list group) n d : (n < length r)%nat ->
  Permutation (fst (nth n r d) ++ all_fields (remove_nth n r)) (all_fields r).
Proof.
  revert n; induction r as [|x r IH]; intros n H; [cbn in H; lia|].
  destruct n as [|n]; cbn [nth remove_nth all_fields flat_map]; [reflexivity|].
  etransitivity; [apply Permutation_app_swap_app|]. apply Permutation_app_head. apply IH. cbn in H; lia.
Qed.
Lemma merge_step_perm (l : list group) m n : (m < n < length l)%nat ->
  Permutation (all_fields (merge_step l m n)) (all_fields l).
Proof.
  revert m n; induction l as [|g r IH]; intros m n H; [cbn in H; lia|].
  destruct n as [|n]; [lia|]. destruct m as [|m]; unfold merge_step.
  - cbn [nth update_nth remove_nth all_fields flat_map fst]. rewrite <- app_assoc. apply Permutation_app_head.
    apply remove_nth_perm. cbn in H; lia.
  - cbn [nth update_nth remove_nth all_fields flat_map]. apply Permutation_app_head.
    apply (IH m n). cbn in H. lia.
Qed.
Lemma disjoint_perm fuel : forall l : list group, Permutation (all_fields (disjoint fuel l)) (all_fields l).
Proof. induction fuel as [|k IH]; intros l; cbn; [reflexivity|].
  destruct (find_pair l) as [[m n]|] eqn:E; [|reflexivity].
  etransitivity; [apply IH|]. apply merge_step_perm. now apply find_pair_lt. Qed.

Lemma In_remove_nth {A} n (l : list A) x : In x (remove_nth n l) -> In x l.
Proof. revert l; induction n as [|n IH]; intros [|y r]; cbn; auto. intros [->|H]; auto. Qed.
Lemma In_update_nth {A} n f (l : list A) x : In x (update_nth n f l) -> In x l \/ exists y, In y l /\ x = f y.
Proof. revert l; induction n as [|n IH]; intros [|y r]; cbn; auto.
  - intros [<-|H]; [right; exists y; auto|auto].
  - intros [->|H]; [auto|]. destruct (IH _ H) as [H1|(z & Hz & ->)]; [auto|right; exists z; auto]. Qed.

Lemma merge_step_inv (l : list group) m n : (m < n < length l)%nat ->
  (forall g, In g l -> ginv g) -> forall g, In g (merge_step l m n) -> ginv g.
Proof.
  intros Hmn Hl g Hg. unfold merge_step in Hg. apply In_remove_nth in Hg.
  apply In_update_nth in Hg. destruct Hg as [Hg|(y & Hy & ->)]; [now apply Hl|].
  destruct (Hl y Hy) as (Y1 & Y2 & Y3).
  assert (Hn : In (nth n l ([], (0, 0, 0, 0))) l) by (apply nth_In; lia).
  destruct (Hl _ Hn) as (N1 & N2 & N3).
  unfold ginv. cbn [fst snd]. split; [|split; [reflexivity|]].
  - destruct (fst y); [congruence|discriminate].
  - intros x Hx. apply in_app_or in Hx. destruct Hx; [now apply Y3|now apply N3].
Qed.
Lemma disjoint_inv fuel : forall l : list group, (forall g, In g l -> ginv g) ->
  forall g, In g (disjoint fuel l) -> ginv g.
Proof. induction fuel as [|k IH]; intros l Hl; cbn; [exact Hl|].
  destruct (find_pair l) as [[m n]|] eqn:E; [|exact Hl].
  apply IH. apply merge_step_inv; [now apply find_pair_lt|exact Hl]. Qed.
Lemma disjoint_pairwise fuel : forall l : list group, (length l <= fuel)%nat ->
  ForallOrdPairs (fun a b : group => intersect (snd a) (snd b) = false) (disjoint fuel l).
Proof. induction fuel as [|k IH]; intros l H.
  - destruct l; [constructor|cbn in H; lia].
  - cbn. destruct (find_pair l) as [[m n]|] eqn:E; [|now apply find_pair_none].
    apply IH. pose proof (find_pair_lt _ _ _ E). rewrite merge_step_length by assumption. lia. Qed.

Lemma gout_embed (g : group) r c : ginv g -> embed (gout g) r c = embed_sum (fst g) r c.
Proof. intros (G1 & G2 & G3). unfold gout. destruct (fst g) as [|f [|f' l]] eqn:E; [congruence| |].
  - unfold embed_sum. cbn. ring.
  - apply merge_embed; [discriminate|]. intros x Hx. apply G3. exact Hx. Qed.
Lemma gout_extent (g : group) : ginv g -> fextent (gout g) = snd g.
Proof. intros (G1 & G2 & G3). unfold gout. rewrite G2. destruct (fst g) as [|f [|f' l]] eqn:E; [congruence| |].
  - symmetry. destruct (G3 f (or_introl eq_refl)). now apply boundary_singleton.
  - apply merge_extent; [discriminate|]. intros x Hx. apply G3. exact Hx. Qed.

Lemma groups_total (gs : list group) r c : (forall g, In g gs -> ginv g) ->
  embed_sum (map gout gs) r c = embed_sum (all_fields gs) r c.
Proof. induction gs as [|g gs IH]; intros H; [reflexivity|].
  cbn [map all_fields flat_map]. change (gout g :: map gout gs) with ([gout g] ++ map gout gs).
  rewrite !embed_sum_app. rewrite IH by (intros; apply H; now right). f_equal.
  rewrite <- gout_embed by (apply H; now left). unfold embed_sum. cbn. ring. Qed.

Lemma reduce_groups_inv (fs : list (field S)) : (forall f, In f fs -> fok f) ->
  forall g, In g (reduce_groups fs) -> ginv g.
Proof. intros Hf. unfold reduce_groups. apply disjoint_inv. intros g Hg.
  apply in_map_iff in Hg. destruct Hg as (f & <- & Hin). destruct (Hf f Hin) as [V B].
  unfold ginv. cbn [fst snd]. split; [discriminate|split; [now rewrite boundary_singleton|]].
  intros x [<-|[]]. now split. Qed.

Lemma reduce_is_map (fs : list (field S)) : reduce fs = map gout (reduce_groups fs).
Proof. reflexivity. Qed.

(* reducing a collection keeps the total ... *)
Theorem reduce_total (fs : list (field S)) r c : (forall f, In f fs -> fok f) ->
  embed_sum (reduce fs) r c = embed_sum fs r c.
Proof.
  intros Hf. rewrite reduce_is_map. rewrite groups_total by now apply reduce_groups_inv.
  apply embed_sum_perm. unfold reduce_groups. etransitivity; [apply disjoint_perm|].
  clear Hf. induction fs as [|f l IH]; cbn; [reflexivity|]. now constructor. Qed.

(* ... and yields pairwise non-overlapping fields; the recursion of _disjoint terminates
   (fuel = number of fields is enough: every merge removes one group) *)
Theorem reduce_disjoint (fs : list (field S)) : (forall f, In f fs -> fok f) ->
  ForallOrdPairs (fun a b => intersect (fextent a) (fextent b) = false) (reduce fs).
Proof.
  intros Hf. rewrite reduce_is_map. pose proof (reduce_groups_inv fs Hf) as Inv.
  assert (P : ForallOrdPairs (fun a b : group => intersect (snd a) (snd b) = false) (reduce_groups fs)).
  { unfold reduce_groups. apply disjoint_pairwise. apply Nat.le_refl. }
  induction P as [|g gs Hg P IH]; cbn [map]; [constructor|].
  constructor.
  - apply Forall_forall. intros x Hx. apply in_map_iff in Hx. destruct Hx as (h & <- & Hh).
    rewrite !gout_extent by (apply Inv; cbn; auto). rewrite Forall_forall in Hg. now apply Hg.
  - apply IH. intros; apply Inv; now right.
Qed.

(* ------------------------------------------------------------------ insert *)
(* output index i is written iff 0<=i<R and 0 <= i-ul < h; the source index is then i - ul *)
Lemma reconcile_spec R h ul i : 0 < R -> 0 < h ->
  let c := reconcile R h ul in
  ((clip_nonempty c && (o_lo c <=? i) && (i <? o_hi c)) = ((0 <=? i) && (i <? R) && (0 <=? i - ul) && (i - ul <? h))) /\
  (clip_nonempty c = true -> 0 <= o_lo c /\ o_hi c <= R /\ 0 <= f_lo c /\ f_hi c <= h /\ o_hi c - o_lo c = f_hi c - f_lo c
                        /\ (o_lo c <= i < o_hi c -> i - o_lo c + f_lo c = i - ul)).
Proof.
  intros HR Hh. unfold reconcile, clip_nonempty.
  destruct (ul <? 0) eqn:E1; destruct (ul + h >? R) eqn:E2; cbn [o_lo o_hi f_lo f_hi]; split; lia.
Qed.

(* insert adds exactly the part of the embedding that falls inside the array: all, some or none of it *)
Theorem insert_spec (g : S -> S) (f : field S) (d out : arr S) (w : S) :
  fd f = D2 d -> 0 < nr d -> 0 < nc d -> 0 < nr out -> 0 < nc out -> g k0 = k0 ->
  exists o, insert g f out w = Ok o /\ nr o = nr out /\ nc o = nc out /\
  forall i j, 0 <= i < nr out -> 0 <= j < nc out ->
    get o i j = (get out i j + g (embed f (i - nr out / 2) (j - nc out / 2)) * w)%K.
Proof.
  intros Hd Hd1 Hd2 Ho1 Ho2 Hg. unfold insert. rewrite Hd.
  assert (Hemb : forall r c, embed f r c = embedA d (offr f) (offc f) r c).
  { intros r c. destruct f as [fd0 orr occ tl]. cbn [fd offr offc] in *. subst fd0. apply embed_D2. }
  destruct ((nr d =? nr out) && (nc d =? nc out) && (offr f =? 0) && (offc f =? 0)) eqn:Efast.
  - (* whole-array fast path *)
    eexists; split; [reflexivity|]. cbn [nr nc get]. repeat split; try reflexivity.
    intros i j Hi Hj. rewrite Hemb. unfold embedA, inr.
    assert (nr d = nr out /\ nc d = nc out /\ offr f = 0 /\ offc f = 0) as (E1 & E2 & E3 & E4) by lia.
    rewrite E1, E2, E3, E4.
    replace (i - nr out / 2 - 0 + nr out / 2) with i by ring. replace (j - nc out / 2 - 0 + nc out / 2) with j by ring.
    replace ((0 <=? i) && (i <? nr out) && ((0 <=? j) && (j <? nc out))) with true by lia. reflexivity.
  - set (ulr := nr out / 2 - nr d / 2 + offr f). set (ulc := nc out / 2 - nc d / 2 + offc f).
    set (cr := reconcile (nr out) (nr d) ulr). set (cc := reconcile (nc out) (nc d) ulc).
    destruct (negb (clip_nonempty cr) || negb (clip_nonempty cc)) eqn:Eempty.
    + (* nothing of the field falls inside *)
      exists out. repeat split; try reflexivity. intros i j Hi Hj. rewrite Hemb. unfold embedA, inr.
      destruct (reconcile_spec (nr out) (nr d) ulr i Ho1 Hd1) as [Ar _].
      destruct (reconcile_spec (nc out) (nc d) ulc j Ho2 Hd2) as [Ac _].
      fold cr in Ar. fold cc in Ac.
      replace (i - nr out / 2 - offr f + nr d / 2) with (i - ulr) by (subst ulr; ring).
      replace (j - nc out / 2 - offc f + nc d / 2) with (j - ulc) by (subst ulc; ring).
      clearbody cr cc ulr ulc.
      destr_if; [exfalso; destruct (clip_nonempty cr), (clip_nonempty cc); cbn [negb orb andb] in *; lia|].
      rewrite Hg. ring.
    + eexists; split; [reflexivity|]. cbn [nr nc get]. repeat split; try reflexivity.
      intros i j Hi Hj. rewrite Hemb. unfold embedA, inr.
      destruct (reconcile_spec (nr out) (nr d) ulr i Ho1 Hd1) as [Ar Br].
      destruct (reconcile_spec (nc out) (nc d) ulc j Ho2 Hd2) as [Ac Bc].
      fold cr in Ar, Br. fold cc in Ac, Bc.
      replace (i - nr out / 2 - offr f + nr d / 2) with (i - ulr) by (subst ulr; ring).
      replace (j - nc out / 2 - offc f + nc d / 2) with (j - ulc) by (subst ulc; ring).
      clearbody cr cc ulr ulc.
      assert (Nr : clip_nonempty cr = true) by (destruct (clip_nonempty cr); [reflexivity|discriminate]).
      assert (Nc : clip_nonempty cc = true) by (destruct (clip_nonempty cc); cbn in *; [reflexivity|lia]).
      specialize (Br Nr). specialize (Bc Nc). rewrite Nr in Ar. rewrite Nc in Ac. cbn [andb] in Ar, Ac.
      destr_ifs; try (exfalso; lia).
      * replace (i - o_lo cr + f_lo cr) with (i - ulr) by lia.
        replace (j - o_lo cc + f_lo cc) with (j - ulc) by lia. reflexivity.
      * rewrite Hg. ring.
Qed.

(* 0-d data cannot be inserted into a 2-d array (recorded finding C06-one-element-insert) *)
Theorem insert_zero_dim_refused (g : S -> S) (f : field S) v out w : fd f = D0 v -> insert g f out w = Err ValueError.
Proof. intros H. unfold insert. now rewrite H. Qed.
End FieldP.
