(* WP-T3, C15: the sample counts of lentil/radiometry.py:Spectrum.pad on an integer wavelength grid, translated from
   the source text on every check (Gen/SpectrumSrc.v) with the true division kept exact, are the counts of the model
   (Model/SpectrumEdit.v: [pad] computes nleft = Qceiling ((w0 - e0) / dw) + 1 and hands (e0, w0, nleft),
   (wl, e1, nright) to [linspace]). *)
From LV Require Import Model.SpectrumEdit Model.Rescale Proofs.RescaleP Proofs.SrcQ Gen.SpectrumSrc Proofs.SrcTac.
Open Scope Z_scope.

(* int(np.ceil((a - b)/d)) for integers, d > 0, with the model's injection [ofZ] *)
Lemma ceil_diff_ofZ : forall a b d : Z, 0 < d ->
  Qceiling ((ofZ a - ofZ b) / ofZ d)%Qc = - ((- (a - b)) / d).
Proof.
  intros. change ofZ with zq. rewrite <- zq_sub. exact (qceil_frac (a - b) d H).
Qed.

Definition pad_linspace_model (e0 e1 d w0 wl : Z) : (Z * Z * Z) * (Z * Z * Z) :=
  ((e0, w0, Qceiling ((ofZ w0 - ofZ e0) / ofZ d)%Qc + 1), (wl, e1, Qceiling ((ofZ e1 - ofZ wl) / ofZ d)%Qc + 1)).

Lemma src_pad_linspace_ok : forall e0 e1 d w0 wl : Z, 0 < d ->
  src_pad_linspace (e0, e1) d w0 wl = pad_linspace_model e0 e1 d w0 wl.
Proof.
  intros. unfold pad_linspace_model. rewrite !ceil_diff_ofZ by assumption. unfold src_pad_linspace. src_finish.
Qed.

Lemma src_pad_linspace_edge_ok : forall e0 e1 d w0 wl : Z, 0 < d ->
  src_pad_linspace_edge (e0, e1) d w0 wl = pad_linspace_model e0 e1 d w0 wl.
Proof.
  intros. unfold pad_linspace_model. rewrite !ceil_diff_ofZ by assumption. unfold src_pad_linspace_edge. src_finish.
Qed.
