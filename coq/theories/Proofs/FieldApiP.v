(* The public entry points around the Field/extent kernels (C06 deepen): outcomes of merge, _merge, overlap;
   tilt bookkeeping of products and merges; array_extent with parent_shape / short shapes; empty collections. *)
From LV Require Import Model.FieldApi Proofs.ArrP Proofs.ExtentP Proofs.FieldP.
From Coq Require Import Permutation.

Lemma Qc_eq_bool_refl' (q : Qc) : Qc_eq_bool q q = true.
Proof. unfold Qc_eq_bool. destruct (Qc_eq_dec q q); [reflexivity|congruence]. Qed.
Lemma px_eqb_refl p : px_eqb p p = true.
Proof. destruct p; cbn; rewrite ?Qc_eq_bool_refl'; reflexivity. Qed.
Lemma px_eqb_eq p q : px_eqb p q = true <-> p = q.
Proof. split; [|intros ->; apply px_eqb_refl]. destruct p, q; cbn; try discriminate; try reflexivity.
  - intros H. apply Qc_eq_bool_correct in H. now subst.
  - intros H. apply andb_prop in H. destruct H as [H1 H2]. apply Qc_eq_bool_correct in H1, H2. now subst. Qed.

(* ---- array_extent(shape, shift, parent_shape) ---- *)
Theorem array_extent_any_spec (shape : list Z) shr shc :
  (* fewer than two entries: the shape (1, 1), i.e. the single sample at the shift *)
  (length shape < 2)%nat -> 
  array_extent_any shape shr shc None = array_extent 1 1 shr shc /\
  forall r c, inE (array_extent_any shape shr shc None) r c = (r =? shr) && (c =? shc).
Proof.
  intros H. assert (E : array_extent_any shape shr shc None = array_extent 1 1 shr shc).
  { destruct shape as [|a [|b l]]; cbn in H; try lia; reflexivity. }
  split; [exact E|]. intros r c. rewrite E. unfold array_extent, inE, inb. change (1 / 2) with 0. lia.
Qed.
Theorem array_extent_parent_spec (shape : list Z) shr shc pr pc i j :
  (* relative to the parent's upper-left corner: the same set of samples, indexed from the parent's origin sample *)
  inE (array_extent_any shape shr shc (Some (pr, pc))) i j
  = inE (array_extent_any shape shr shc None) (i - pr / 2) (j - pc / 2).
Proof.
  unfold array_extent_any. destruct (match shape with a :: b :: _ => (a, b) | _ => (1, 1) end) as [sr sc].
  unfold array_extent, inE, inb. set (x := pr / 2). set (y := pc / 2). clearbody x y. lia.
Qed.

Section FieldApiP.
Variable S : Scalar.
Hypothesis Sring : is_ring S.
Add Ring SrApi : Sring.

Notation fok := (fok S).

(* ---- tilt lists: a product concatenates them, a merge drops them ---- *)
Theorem fmul_tilt (a b p : field S) : fmul a b = Some p -> ftilt p = ftilt a ++ ftilt b.
Proof.
  unfold fmul, mul_scalar, mul_array, mul_core.
  destruct (is0d (fd a) && is0d (fd b)).
  - destruct ((offr a =? offr b) && (offc a =? offc b)); [|discriminate]. intros H. injection H as <-. reflexivity.
  - destruct (negb (same_shape (fd a) (fd b)) && is0d (fd a));
      destruct (negb (same_shape (fd a) (fd b)) && is0d (fd b));
      match goal with |- context[if intersect ?x ?y then _ else _] => destruct (intersect x y); [|discriminate] end;
      match goal with |- context[intersection_slices ?x ?y] => destruct (intersection_slices x y) as [[[? ?] [? ?]] [[? ?] [? ?]]] end;
      match goal with |- context[intersection_shift ?x ?y] => destruct (intersection_shift x y) as [? ?] end;
      intros H; injection H as <-; reflexivity.
Qed.
Theorem merge_tilt (fs : list (field S)) : ftilt (merge fs) = [].
Proof. unfold merge. destruct (boundary fs) as [[[b1 b2] b3] b4]. destruct (merge_scalars fs); reflexivity. Qed.

(* ---- _merge with the pixelscale check ---- *)
Theorem merge_px_outcome (fs : list (pxfield S)) :
  (forall fp, In fp fs -> fok (fst fp)) ->
  match merge_px fs with
  | Ok (m, p) => (exists f0 r, fs = (f0, p) :: r) /\ (forall fp, In fp fs -> snd fp = p) /\ ftilt m = [] /\
                 forall r c, embed m r c = embed_sum (map fst fs) r c
  | Err IndexError => fs = []
  | Err ValueError => exists f0 p0 r fp, fs = (f0, p0) :: r /\ In fp fs /\ snd fp <> p0
  | Err _ => False
  end.
Proof.
  intros Hok. unfold merge_px. unfold pxfield in *. destruct fs as [|[f0 p0] r]; [reflexivity|].
  destruct (forallb (fun fp => px_eqb (snd fp) p0) ((f0, p0) :: r)) eqn:E.
  - rewrite forallb_forall in E. split; [now exists f0, r|]. split.
    + intros fp Hin. apply px_eqb_eq. now apply E.
    + split; [apply merge_tilt|]. intros x y. apply (merge_embed S Sring); [discriminate|].
      intros f Hf. apply in_map_iff in Hf. destruct Hf as (fp & <- & Hin). exact (Hok fp Hin).
  - exists f0, p0, r.
    assert (H : exists fp, In fp ((f0, p0) :: r) /\ px_eqb (snd fp) p0 = false).
    { clear Hok. induction ((f0, p0) :: r) as [|x l IH]; cbn in E; [discriminate|].
      destruct (px_eqb (snd x) p0) eqn:Ex; cbn in E.
      - destruct (IH E) as (fp & Hin & Hne). exists fp. split; [now right|exact Hne].
      - exists x. split; [now left|exact Ex]. }
    destruct H as (fp & Hin & Hne). exists fp. repeat split; try assumption.
    intros Heq. apply px_eqb_eq in Heq. congruence.
Qed.

(* ---- overlap(fields) ---- *)
Theorem overlap_two (a b : field S) : fvalid S a -> fvalid S b ->
  (overlap [a; b] = true <-> exists r c, inE (fextent a) r c = true /\ inE (fextent b) r c = true).
Proof. intros Va Vb. cbn [overlap]. apply intersect_iff_common_point; now apply fextent_valid. Qed.

Lemma reduce_length (fs : list (field S)) : length (reduce fs) = length (reduce_groups fs).
Proof. rewrite reduce_is_map. apply map_length. Qed.

(* any other number of fields: true exactly when reduce() merges everything into at most one field, which then
   carries the whole plane *)
Theorem overlap_many (fs : list (field S)) : length fs <> 2%nat -> (forall f, In f fs -> fok f) ->
  (overlap fs = true <-> (length (reduce fs) <= 1)%nat) /\
  (overlap fs = true -> fs = [] \/ exists g, reduce fs = [g] /\ forall r c, embed g r c = embed_sum fs r c).
Proof.
  intros Hlen Hok.
  assert (E : overlap fs = Nat.leb (length (reduce_groups fs)) 1).
  { destruct fs as [|a [|b [|c l]]]; try reflexivity. cbn in Hlen. congruence. }
  rewrite E, <- reduce_length. split; [apply Nat.leb_le|].
  intros H. apply Nat.leb_le in H. pose proof (reduce_total S Sring fs) as T.
  destruct (reduce fs) as [|g [|g' l]] eqn:Er; [|right|cbn in H; lia].
  - left. rewrite reduce_is_map in Er. apply map_eq_nil in Er.
    assert (P : Permutation (all_fields S (reduce_groups fs)) fs).
    { unfold reduce_groups. etransitivity; [apply disjoint_perm|].
      clear. induction fs as [|y l IH]; cbn; [reflexivity|]. now constructor. }
    rewrite Er in P. cbn in P. now apply Permutation_nil in P.
  - exists g. split; [reflexivity|]. intros r c. rewrite <- (T r c Hok). unfold embed_sum. cbn. ring.
Qed.

(* ---- merge(a, b, enforce_overlap) ---- *)
Theorem merge_pub_outcome (a b : pxfield S) (enforce : bool) : fok (fst a) -> fok (fst b) ->
  match merge_pub a b enforce with
  | Ok (m, p) =>
      p = snd a /\ snd b = snd a /\
      (enforce = true -> exists r c, inE (fextent (fst a)) r c = true /\ inE (fextent (fst b)) r c = true) /\
      ftilt m = [] /\ forall r c, embed m r c = (embed (fst a) r c + embed (fst b) r c)%K
  | Err ValueError =>
      (enforce = true /\ forall r c, inE (fextent (fst a)) r c && inE (fextent (fst b)) r c = false) \/ snd b <> snd a
  | Err _ => False
  end.
Proof.
  intros Ha Hb. unfold merge_pub. unfold pxfield in *.
  assert (Va : fvalid S (fst a)) by apply Ha. assert (Vb : fvalid S (fst b)) by apply Hb.
  destruct (overlap [fst a; fst b]) eqn:Eo.
  - rewrite Bool.andb_false_r.
    pose proof (merge_px_outcome [a; b]) as M.
    assert (Hall : forall fp, In fp [a; b] -> fok (fst fp)) by (intros fp [<-|[<-|[]]]; assumption).
    specialize (M Hall). destruct (merge_px [a; b]) as [[m p]|e].
    + destruct M as ((f0 & rest & Efs) & Hp & Ht & Hs). injection Efs as E1 E2. destruct a as [fa pa]. cbn [fst snd] in *.
      injection E1 as <- <-. split; [reflexivity|]. split; [apply (Hp b); cbn; auto|].
      split; [intros _; now apply overlap_two|]. split; [exact Ht|].
      intros r c. rewrite Hs. unfold embed_sum. cbn. ring.
    + destruct e; try contradiction; [|discriminate].
      destruct M as (f0 & p0 & rest & fp & Efs & Hin & Hne). injection Efs as E1 E2. right.
      destruct a as [fa pa]. injection E1 as <- <-. cbn [snd]. destruct Hin as [<-|[<-|[]]]; cbn [snd] in Hne; congruence.
  - destruct enforce; cbn [andb negb].
    + left. split; [reflexivity|]. intros r c.
      destruct (inE (fextent (fst a)) r c && inE (fextent (fst b)) r c) eqn:E; [|reflexivity].
      apply andb_prop in E. assert (overlap [fst a; fst b] = true) by (apply overlap_two; try assumption; now exists r, c).
      congruence.
    + pose proof (merge_px_outcome [a; b]) as M.
      assert (Hall : forall fp, In fp [a; b] -> fok (fst fp)) by (intros fp [<-|[<-|[]]]; assumption).
      specialize (M Hall). destruct (merge_px [a; b]) as [[m p]|e].
      * destruct M as ((f0 & rest & Efs) & Hp & Ht & Hs). injection Efs as E1 E2. destruct a as [fa pa]. cbn [fst snd] in *.
        injection E1 as <- <-. split; [reflexivity|]. split; [apply (Hp b); cbn; auto|].
        split; [discriminate|]. split; [exact Ht|]. intros r c. rewrite Hs. unfold embed_sum. cbn. ring.
      * destruct e; try contradiction; [|discriminate].
        destruct M as (f0 & p0 & rest & fp & Efs & Hin & Hne). injection Efs as E1 E2. right.
        destruct a as [fa pa]. injection E1 as <- <-. cbn [snd]. destruct Hin as [<-|[<-|[]]]; cbn [snd] in Hne; congruence.
Qed.

(* ---- empty and one-element collections ---- *)
Theorem empty_collections :
  @boundary S [] = (maxsize, - maxsize, maxsize, - maxsize) /\ @reduce S [] = [] /\ @overlap S [] = true /\
  @merge_px S [] = Err IndexError /\ (forall f : field S, reduce [f] = [f] /\ overlap [f] = true).
Proof. repeat split. Qed.

(* ---- Field.shape / Field.size / Field.extent ---- *)
Theorem field_attributes (f : field S) :
  (fshape f = None <-> is0d (fd f) = true) /\
  (forall n m, fshape f = Some (n, m) -> fsize f = n * m /\ fextent f = array_extent_any [n; m] (offr f) (offc f) None) /\
  (fshape f = None -> fsize f = 1 /\ fextent f = array_extent_any [] (offr f) (offc f) None).
Proof.
  unfold fshape, fsize, fextent. destruct (fd f) as [v|a]; cbn [is0d dshape dsize].
  - repeat split; try discriminate; reflexivity.
  - split; [split; discriminate|]. split; [|discriminate]. intros n m H. injection H as <- <-. split; reflexivity.
Qed.
End FieldApiP.
