(* WP-T4, C12: the array bookkeeping of lentil/zernike.py around the modes - the shape of the basis cube
   (np.zeros(modes.shape + mask.shape), a scalar mode becoming a one-element vector), the reshape of the vectorised
   basis, and which Noll index each coefficient of zernike_compose multiplies - translated from the source text on
   every check (Gen/ZernikeFitSrc.v), equals what Model/ZernikeFit.v is written with. *)
From LV Require Import Lib.BigSum Model.ZernikeFit Gen.ZernikeFitSrc Proofs.SrcTac.

Lemma src_basis_shape_ok : forall n m k : Z, src_basis_shape (n, m) k = (k, n, m).
Proof. intros; unfold src_basis_shape; src_finish. Qed.
Lemma src_basis_shape_scalar_mode_ok : forall n m : Z, src_basis_shape_scalar_mode (n, m) = (1, n, m).
Proof. intros; unfold src_basis_shape_scalar_mode; src_finish. Qed.
Lemma src_basis_vectorized_ok : forall n m k : Z, src_basis_vectorized (n, m) k = (k, -1).
Proof. intros; unfold src_basis_vectorized; src_finish. Qed.
Lemma src_compose_mode_ok : forall (sh : Z * Z) (len k : Z), src_compose_mode sh len k = k + 1.
Proof. intros; destr_prods; unfold src_compose_mode; src_finish. Qed.

(* the model's zernike_compose multiplies coefficient i by exactly that mode *)
Lemma compose_uses_mode : forall (S : Scalar) (Crd : Type) (is0 : S -> bool)
    (zpoly : bool -> option Crd -> Z -> Z -> Z -> S) (mask : arr S) (coeffs : list S) (nz : bool)
    (crd : option Crd) (r c : Z),
  get (zernike_compose is0 zpoly mask coeffs nz crd) r c =
  sumZ (Z.of_nat (length coeffs))
       (fun i => (nthZ coeffs i *
                  get (zernike is0 zpoly mask
                         (src_compose_mode (nr mask, nc mask) (Z.of_nat (length coeffs)) i) nz crd) r c)%K).
Proof.
  intros.
  transitivity (sumZ (Z.of_nat (length coeffs))
                     (fun i => (nthZ coeffs i * get (zernike is0 zpoly mask (i + 1) nz crd) r c)%K)).
  - reflexivity.
  - apply sumZ_ext; intros i _. now rewrite src_compose_mode_ok.
Qed.
