(* WP-T2, C11: the integer part of lentil/zernike.py:zernike_index - everything after the float row formula, with the
   row n as an argument - translated from the source text on every check (Gen/ZernikeSrc.v), equals the model's
   [noll_code] (Model/Zernike.v) for all integers and every row function. *)
From LV Require Import Model.Zernike Gen.ZernikeSrc Proofs.SrcTac.

(* one iteration of `for i in range(...)`: row_m.append(row_m[-1] + 2); row_m.append(row_m[-1]) *)
Lemma src_zernike_index_step_ok : forall (l : list Z) (i : Z), src_zernike_index_step l i = append2 l.
Proof. intros. unfold src_zernike_index_step, append2. src_norm. first [reflexivity | rewrite ?last_last; reflexivity]. Qed.

Lemma src_zernike_index_loop_ok : forall (idx : list Z) (l : list Z),
  fold_left src_zernike_index_step idx l = grow (length idx) l.
Proof. induction idx; intros; simpl; [reflexivity|]. rewrite src_zernike_index_step_ok. apply IHidx. Qed.

(* k = (n+1)(n+2)/2 is an exact true division; r = int(j - k - 1) *)
Lemma tri_exact : forall n j : Z, Z.quot (j * 2 - (n + 1) * (n + 2) - 2) 2 = j - (n + 1) * (n + 2) / 2 - 1.
Proof.
  intros. assert (E : Z.even ((n + 1) * (n + 2)) = true).
  { rewrite Z.even_mul, !Z.even_add. destruct (Z.even n); reflexivity. }
  apply Z.even_spec in E. destruct E as [q Hq]. rewrite Hq.
  replace (j * 2 - 2 * q - 2) with ((j - q - 1) * 2) by lia.
  rewrite Z.quot_mul by lia. rewrite Z.mul_comm, Z.div_mul by lia. reflexivity.
Qed.

Lemma parity_test : forall a : Z, negb (a mod 2 =? 0) = Z.odd a.
Proof. intros. rewrite Zmod_odd. destruct (Z.odd a); reflexivity. Qed.

(* l[i] with Python's negative indices, as the translator writes it (a guard, then nth) *)
Lemma py_index_guard : forall (l : list Z) (i : Z),
  py_index l i =
  let k := if i <? 0 then i + Z.of_nat (length l) else i in
  if (0 <=? k) && (k <? Z.of_nat (length l)) then Ok (nth (Z.to_nat k) l 0) else Err IndexError.
Proof.
  intros. unfold py_index. cbv zeta. destruct (_ && _) eqn:E; [|reflexivity].
  rewrite nth_error_nth' with (d := 0); [reflexivity|]. lia.
Qed.

Lemma src_zernike_index_ok : forall (rowf : Z -> Z) (j : Z), src_zernike_index j (rowf j) = noll_code rowf j.
Proof.
  intros. unfold src_zernike_index, noll_code. first [reflexivity | idtac].   (* (reflexivity: the refused fallback) *)
  all: generalize (rowf j) as n; intro n; src_norm.
  all: destruct (j <? 1); [reflexivity|]. all: destruct (n =? 0) eqn:En; [repeat f_equal; lia|].
  all: rewrite ?src_zernike_index_loop_ok, ?map_length, ?seq_length, ?tri_exact.
  all: rewrite py_index_guard; unfold row_m, rbind; src_norm.
  (* parities: every `x mod 2` becomes a case on Z.odd x *)
  all: rewrite ?Zmod_odd; destruct (Z.odd n), (Z.odd j); cbn [negb Z.eqb Pos.eqb];
    repeat (destr_inner_if; src_norm); first [reflexivity | repeat f_equal; lia | exfalso; lia].
Qed.
