(* C13 - lemmas about the Spectrum arithmetic model (Model/Spectrum.v). *)
From Coq Require Import Lqa.
From LV Require Import Model.Spectrum.
Open Scope Qc_scope.

(* ------------------------------------------------------------------ Qc -> Q transfer *)
Lemma this_add a b : (this (a + b) == this a + this b)%Q.
Proof. unfold Qcplus, Q2Qc, this at 1. apply Qred_correct. Qed.
Lemma this_mul a b : (this (a * b) == this a * this b)%Q.
Proof. unfold Qcmult, Q2Qc, this at 1. apply Qred_correct. Qed.
Lemma this_opp a : (this (- a) == - this a)%Q.
Proof. unfold Qcopp, Q2Qc, this at 1. apply Qred_correct. Qed.
Lemma this_sub a b : (this (a - b) == this a - this b)%Q.
Proof. unfold Qcminus. rewrite this_add, this_opp. reflexivity. Qed.
Lemma this_inv a : (this (/ a) == / this a)%Q.
Proof. unfold Qcinv, Q2Qc, this at 1. apply Qred_correct. Qed.
Lemma this_div a b : (this (a / b) == this a / this b)%Q.
Proof. unfold Qcdiv. rewrite this_mul, this_inv. reflexivity. Qed.
Lemma Qc_eq_iff (a b : Qc) : a = b <-> (this a == this b)%Q.
Proof. split. intros ->; reflexivity. apply Qc_is_canon. Qed.

Ltac qc2q :=
  repeat match goal with
  | H : @eq Qc _ _ |- _ => apply Qc_eq_iff in H
  | H : ~ @eq Qc _ _ |- _ => rewrite Qc_eq_iff in H
  end;
  try (apply Qc_is_canon);
  unfold Qcle, Qclt in *;
  repeat (rewrite ?this_sub, ?this_add, ?this_mul, ?this_opp, ?this_div, ?this_inv in * );
  change (this 0) with 0%Q in *; change (this 1) with 1%Q in *.

(* ------------------------------------------------------------------ (d) scalars and vectors *)
Lemma map2_length {A B C} (f : A -> B -> C) a b : length a = length b -> length (map2 f a b) = length a.
Proof. revert b; induction a as [|x a IH]; intros [|y b]; simpl; try congruence; intros H; f_equal; apply IH; congruence. Qed.
Lemma map2_nth {A B C} (f : A -> B -> C) a b da db dc i :
  (i < length a)%nat -> (i < length b)%nat -> nth i (map2 f a b) dc = f (nth i a da) (nth i b db).
Proof. revert b i; induction a as [|x a IH]; intros [|y b] [|i]; simpl; try lia; auto.
  intros; apply IH; lia. Qed.

Lemma scalar_elementwise o s c :
  rwave (scalar_op o s c) = wave s /\ rwu (scalar_op o s c) = wu s /\ rvu (scalar_op o s c) = vu s /\
  length (rvalue (scalar_op o s c)) = length (value s) /\
  forall i, (i < length (value s))%nat ->
    nth i (rvalue (scalar_op o s c)) XUnmodelled = apply o (nth i (value s) 0) c.
Proof. unfold scalar_op; simpl. repeat split; auto using map_length.
  intros i Hi. rewrite nth_indep with (d' := apply o 0 c) by (rewrite map_length; exact Hi).
  apply (map_nth (fun v => apply o v c)). Qed.

(* ------------------------------------------------------------------ order toolkit *)
Lemma qleb_iff a b : qleb a b = true <-> a <= b.
Proof. unfold qleb, Qcle. apply Qle_bool_iff. Qed.
Lemma qleb_false a b : qleb a b = false <-> b < a.
Proof. unfold qleb, Qclt. rewrite <- Bool.not_true_iff_false, Qle_bool_iff. split; intros H.
  apply Qnot_le_lt, H. apply Qlt_not_le, H. Qed.
Lemma qltb_iff a b : qltb a b = true <-> a < b.
Proof. unfold qltb. rewrite Bool.negb_true_iff. apply qleb_false. Qed.
Lemma qltb_false a b : qltb a b = false <-> b <= a.
Proof. unfold qltb. rewrite Bool.negb_false_iff. apply qleb_iff. Qed.

Lemma qmin_spec a b : (a <= b /\ qmin a b = a) \/ (b < a /\ qmin a b = b).
Proof. unfold qmin. destruct (qleb a b) eqn:E; [left|right]; split; auto.
  apply qleb_iff, E. apply qleb_false, E. Qed.
Lemma qmax_spec a b : (a <= b /\ qmax a b = b) \/ (b < a /\ qmax a b = a).
Proof. unfold qmax. destruct (qleb a b) eqn:E; [left|right]; split; auto.
  apply qleb_iff, E. apply qleb_false, E. Qed.
Lemma qmin_comm a b : qmin a b = qmin b a.
Proof. destruct (qmin_spec a b) as [[H ->]|[H ->]], (qmin_spec b a) as [[G ->]|[G ->]]; auto; qc2q; lra. Qed.
Lemma qmax_comm a b : qmax a b = qmax b a.
Proof. destruct (qmax_spec a b) as [[H ->]|[H ->]], (qmax_spec b a) as [[G ->]|[G ->]]; auto; qc2q; lra. Qed.
Lemma qmin_le_l a b : qmin a b <= a.
Proof. destruct (qmin_spec a b) as [[H ->]|[H ->]]; qc2q; lra. Qed.
Lemma qmin_le_r a b : qmin a b <= b.
Proof. destruct (qmin_spec a b) as [[H ->]|[H ->]]; qc2q; lra. Qed.
Lemma qmax_ge_l a b : a <= qmax a b.
Proof. destruct (qmax_spec a b) as [[H ->]|[H ->]]; qc2q; lra. Qed.
Lemma qmax_ge_r a b : b <= qmax a b.
Proof. destruct (qmax_spec a b) as [[H ->]|[H ->]]; qc2q; lra. Qed.

(* ------------------------------------------------------------------ the unit table *)
Lemma ufac_mscale a b : ufac a b = mscale a / mscale b.
Proof. destruct a, b; apply Qc_is_canon; vm_compute; reflexivity. Qed.
Lemma ufac_refl u : ufac u u = 1.
Proof. destruct u; reflexivity. Qed.
Lemma ufac_trans a b c : ufac a b * ufac b c = ufac a c.
Proof. destruct a, b, c; apply Qc_is_canon; vm_compute; reflexivity. Qed.
Lemma ufac_pos a b : 0 < ufac a b.
Proof. destruct a, b; reflexivity. Qed.
Lemma wunit_eqb_eq a b : wunit_eqb a b = true <-> a = b.
Proof. destruct a, b; simpl; split; congruence. Qed.

(* ------------------------------------------------------------------ strictly increasing grids *)
Lemma incrb_iff w : incrb w = true <-> incr w.
Proof. induction w as [|a [|b t] IH]; simpl in *; try tauto.
  rewrite Bool.andb_true_iff, qltb_iff, IH. tauto. Qed.
Lemma incr_tail a w : incr (a :: w) -> incr w.
Proof. destruct w; simpl; tauto. Qed.
Lemma incr_hd_lt a w x : incr (a :: w) -> In x w -> a < x.
Proof. revert a; induction w as [|b t IH]; simpl; intros a H Hin; [tauto|].
  destruct H as [H1 H2]. destruct Hin as [<-|Hin]; auto.
  specialize (IH b H2 Hin). qc2q; lra. Qed.
Lemma incr_nth_lt w i j : incr w -> (i < j)%nat -> (j < length w)%nat -> nth i w 0 < nth j w 0.
Proof. revert i j; induction w as [|a t IH]; simpl; intros i j H Hij Hj; [lia|].
  destruct j as [|j]; [lia|]. destruct i as [|i].
  - apply incr_hd_lt with (w := t); auto. apply nth_In; lia.
  - apply IH; try lia. eapply incr_tail; eauto. Qed.
Lemma incr_nth_le w i j : incr w -> (i <= j)%nat -> (j < length w)%nat -> nth i w 0 <= nth j w 0.
Proof. intros H Hij Hj. destruct (Nat.eq_dec i j) as [->|N]. apply Qcle_refl.
  apply Qclt_le_weak, incr_nth_lt; auto; lia. Qed.
Lemma wmin_nth w : wmin w = nth 0 w 0.
Proof. destruct w; reflexivity. Qed.
Lemma wmax_nth w : wmax w = nth (length w - 1) w 0.
Proof. unfold wmax. induction w as [|a [|b t] IH]; try reflexivity.
  change (last (a :: b :: t) 0) with (last (b :: t) 0). rewrite IH. simpl. now rewrite Nat.sub_0_r. Qed.
Lemma incr_wmin_le_wmax w : incr w -> wmin w <= wmax w.
Proof. intros H. destruct w as [|a t]. apply Qcle_refl.
  rewrite wmin_nth, wmax_nth. apply incr_nth_le; simpl; auto; lia. Qed.

(* ------------------------------------------------------------------ (a) sampling *)
Lemma fold_qmin_spec l x : let m := fold_left qmin l x in
  (m = x \/ In m l) /\ m <= x /\ forall y, In y l -> m <= y.
Proof. revert x; induction l as [|a l IH]; simpl; intros x.
  - split; [auto|split; [apply Qcle_refl|tauto]].
  - destruct (IH (qmin x a)) as (H1 & H2 & H3). split; [|split].
    + destruct H1 as [H1|H1]; auto. rewrite H1.
      destruct (qmin_spec x a) as [[_ ->]|[_ ->]]; auto.
    + eapply Qcle_trans; [exact H2|apply qmin_le_l].
    + intros y [<-|Hy]; auto. eapply Qcle_trans; [exact H2|apply qmin_le_r]. Qed.
(* ndarray.min(): an element of the array below all the others *)
Lemma lmin_spec l m : lmin l = Ok m -> In m l /\ forall y, In y l -> m <= y.
Proof. destruct l as [|x l]; simpl; [discriminate|]. intros E; injection E as <-.
  destruct (fold_qmin_spec l x) as (H1 & H2 & H3). split.
  - destruct H1; auto.
  - intros y [<-|Hy]; auto. Qed.
Lemma diffs_nth w i : (S i < length w)%nat -> nth i (diffs w) 0 = nth (S i) w 0 - nth i w 0.
Proof. revert i; induction w as [|a [|b t] IH]; intros i Hi; simpl in Hi; try lia.
  destruct i as [|i]; [reflexivity|]. change (diffs (a :: b :: t)) with ((b - a) :: diffs (b :: t)).
  change (nth (S i) ((b - a) :: diffs (b :: t)) 0) with (nth i (diffs (b :: t)) 0).
  rewrite IH by (simpl; lia). reflexivity. Qed.
Lemma diffs_length w : length (diffs w) = (length w - 1)%nat.
Proof. induction w as [|a [|b t] IH]; try reflexivity.
  change (diffs (a :: b :: t)) with ((b - a) :: diffs (b :: t)). simpl length in *. lia. Qed.
Lemma diffs_pos w d : incr w -> In d (diffs w) -> 0 < d.
Proof. intros H Hin. destruct (In_nth _ _ 0 Hin) as (i & Hi & <-). rewrite diffs_length in Hi.
  rewrite diffs_nth by lia. assert (nth i w 0 < nth (S i) w 0) by (apply incr_nth_lt; auto; lia).
  qc2q; lra. Qed.

(* the sampling step: the smallest spacing of both / the left / the right operand, or the number given *)
Lemma sampling_of_spec w1 w2 m dw : sampling_of w1 w2 m = Ok dw ->
  match m with
  | SMin => is_min_of (diffs w1 ++ diffs w2) dw
  | SLeft => is_min_of (diffs w1) dw
  | SRight => is_min_of (diffs w2) dw
  | SNum d => dw = d /\ d <> 0
  end.
Proof. destruct m; simpl.
  - destruct (lmin (diffs w1)) as [d1|] eqn:E1; simpl; [|discriminate].
    destruct (lmin (diffs w2)) as [d2|] eqn:E2; simpl; [|discriminate]. intros E; injection E as <-.
    apply lmin_spec in E1, E2. destruct E1 as [A1 B1], E2 as [A2 B2]. split.
    + apply in_or_app. destruct (qmin_spec d1 d2) as [[_ ->]|[_ ->]]; auto.
    + intros y Hy. apply in_app_or in Hy. destruct Hy as [Hy|Hy].
      * eapply Qcle_trans; [apply qmin_le_l|auto].
      * eapply Qcle_trans; [apply qmin_le_r|auto].
  - intros E. apply lmin_spec in E. exact E.
  - intros E. apply lmin_spec in E. exact E.
  - destruct (qc_is0 d) eqn:E; [discriminate|]. intros H; injection H as <-. split; auto.
    intros Z. subst d. discriminate E. Qed.
(* the documented numeric sampling is a positive number *)
Definition pos_sampling (m : sampling) : Prop := match m with SNum d => 0 < d | _ => True end.
Lemma sampling_of_pos w1 w2 m dw : incr w1 -> incr w2 -> pos_sampling m -> sampling_of w1 w2 m = Ok dw -> 0 < dw.
Proof. intros H1 H2 Hp E. apply sampling_of_spec in E. destruct m.
  - destruct E as [E _]. apply in_app_or in E. destruct E; eauto using diffs_pos.
  - destruct E as [E _]; eauto using diffs_pos.
  - destruct E as [E _]; eauto using diffs_pos.
  - destruct E as [-> E]; exact Hp. Qed.
Lemma qc_is0_true x : qc_is0 x = true <-> x = 0.
Proof. split.
  - intros H. apply Qc_is_canon. destruct x as [[n d] c]. unfold qc_is0 in H. simpl in H. destruct n; try discriminate.
    reflexivity.
  - intros ->. reflexivity. Qed.

(* ------------------------------------------------------------------ (a) linspace and ceil *)
Lemma this_zq z : (this (zq z) == inject_Z z)%Q.
Proof. unfold zq, Q2Qc, this. apply Qred_correct. Qed.
Lemma zq_neq0 z : z <> 0%Z -> zq z <> 0.
Proof. intros H E. apply Qc_eq_iff in E. rewrite this_zq in E. change (this 0) with (inject_Z 0) in E.
  apply H. unfold Qeq in E; simpl in E. lia. Qed.
Lemma zq_pos z : (0 < z)%Z -> 0 < zq z.
Proof. intros H. unfold Qclt. rewrite this_zq. change (this 0) with (inject_Z 0). rewrite <- Zlt_Qlt. exact H. Qed.
Lemma zq_0 : zq 0 = 0. Proof. apply Qc_is_canon. reflexivity. Qed.

Lemma zrange_length n : length (zrange n) = Z.to_nat n.
Proof. unfold zrange. now rewrite map_length, seq_length. Qed.
Lemma zrange_nth n i : (i < Z.to_nat n)%nat -> nth i (zrange n) 0%Z = Z.of_nat i.
Proof. intros H. unfold zrange. change 0%Z with (Z.of_nat 0). rewrite map_nth, seq_nth; auto. Qed.

Lemma linspace_length a b num : (0 <= num)%Z -> length (linspace a b num) = Z.to_nat (num + 1).
Proof. intros H. unfold linspace. destruct (num =? 0)%Z eqn:E.
  - apply Z.eqb_eq in E. subst. reflexivity.
  - now rewrite map_length, zrange_length. Qed.
(* the grid is uniform: point i is a + i * (b - a)/num, for every i = 0 .. num *)
Lemma linspace_nth a b num i : (0 < num)%Z -> (i <= Z.to_nat num)%nat ->
  nth i (linspace a b num) 0 = a + zq (Z.of_nat i) * ((b - a) / zq num).
Proof. intros Hn Hi. unfold linspace. destruct (num =? 0)%Z eqn:E; [apply Z.eqb_eq in E; lia|].
  set (f := fun i0 : Z => if (i0 =? num)%Z then b else zq i0 * ((b - a) / zq num) + a).
  rewrite nth_indep with (d' := f 0%Z) by (rewrite map_length, zrange_length; lia).
  rewrite map_nth, zrange_nth by lia. unfold f. destruct (Z.of_nat i =? num)%Z eqn:E2.
  - apply Z.eqb_eq in E2. rewrite E2. field. apply zq_neq0; lia.
  - ring. Qed.
Lemma linspace_first a b num : (0 <= num)%Z -> wmin (linspace a b num) = a.
Proof. intros H. rewrite wmin_nth. destruct (Z.eq_dec num 0) as [->|N]; [reflexivity|].
  rewrite linspace_nth by lia. simpl Z.of_nat. rewrite zq_0. ring. Qed.
Lemma linspace_last a b num : (0 < num)%Z -> wmax (linspace a b num) = b.
Proof. intros H. rewrite wmax_nth, linspace_length by lia.
  rewrite linspace_nth by lia. replace (Z.of_nat (Z.to_nat (num + 1) - 1)) with num by lia.
  field. apply zq_neq0; lia. Qed.

Lemma qceil_spec x : zq (qceil x) - 1 < x /\ x <= zq (qceil x).
Proof. unfold qceil. split.
  - unfold Qclt. rewrite this_sub, this_zq. change (this 1) with (inject_Z 1).
    pose proof (Qceiling_lt x) as H. unfold Z.sub in H. rewrite inject_Z_plus, inject_Z_opp in H. exact H.
  - unfold Qcle. rewrite this_zq. apply Qle_ceiling. Qed.
Lemma qceil_nonneg x : 0 <= x -> (0 <= qceil x)%Z.
Proof. intros H. unfold qceil. change 0%Z with (Qceiling (inject_Z 0)) at 1.
  rewrite <- (Qceiling_Z 0). apply Qceiling_resp_le. exact H. Qed.
Lemma qceil_pos x : 0 < x -> (0 < qceil x)%Z.
Proof. intros H. destruct (qceil_spec x) as [_ H2]. assert (0 < zq (qceil x)) by (qc2q; lra).
  unfold Qclt in H0. rewrite this_zq in H0. change (this 0) with (inject_Z 0) in H0.
  rewrite <- Zlt_Qlt in H0. exact H0. Qed.
(* the step of the grid never exceeds the sampling *)
Lemma step_le_sampling r d : 0 <= r -> 0 < d -> (0 < qceil (r / d))%Z -> r / zq (qceil (r / d)) <= d.
Proof. intros Hr Hd Hn. destruct (qceil_spec (r / d)) as [_ H]. apply zq_pos in Hn.
  set (n := zq (qceil (r / d))) in *. clearbody n.
  assert (E : r = r / d * d) by (field; intros E; subst; apply (Qclt_not_eq _ _ Hd); reflexivity).
  set (x := r / d) in *. clearbody x.
  assert (G : r / n * n = r) by (field; intros E2; subst; apply (Qclt_not_eq _ _ Hn); reflexivity).
  set (y := r / n) in *. clearbody y. qc2q. nra. Qed.

(* ------------------------------------------------------------------ (b) the model's interp is the interpolant *)
Lemma chord_formula w0 w1 v0 v1 x :
  chord w0 w1 v0 v1 x = v0 + (v1 - v0) * (x - w0) / (w1 - w0).
Proof. unfold chord, Qcdiv. ring. Qed.

Lemma interp_on w : forall v x, incr w -> length w = length v -> w <> [] ->
  wmin w <= x -> x <= wmax w -> on_interpolant w v x (interp w v x).
Proof. induction w as [|a [|b t] IH]; intros v x Hi Hl Hne Hlo Hhi.
  - congruence.
  - destruct v as [|v0 [|? ?]]; simpl in Hl; try discriminate. left. simpl in *.
    unfold wmin, wmax in *; simpl in *. repeat split; auto. apply Qcle_antisym; auto.
  - destruct v as [|v0 [|v1 vt]]; try discriminate Hl.
    change (interp (a :: b :: t) (v0 :: v1 :: vt) x)
      with (if qleb x b then chord a b v0 v1 x else interp (b :: t) (v1 :: vt) x).
    destruct (qleb x b) eqn:E.
    + right. exists 0%nat. simpl. repeat split; try lia; auto. apply qleb_iff, E. apply chord_formula.
    + apply qleb_false in E. destruct Hi as [Hab Hi].
      assert (G : on_interpolant (b :: t) (v1 :: vt) x (interp (b :: t) (v1 :: vt) x)).
      { apply IH; auto; try discriminate; try (simpl in Hl |- *; lia). apply Qclt_le_weak, E. }
      destruct G as [(L & X & _)|(k & Hk & A & B & Y)].
      * simpl in X. subst x. exfalso. apply (Qclt_not_eq _ _ E). reflexivity.
      * right. exists (S k). repeat split; auto. simpl in Hk |- *. lia. Qed.

Lemma on_interpolant_unique_lt w v x y y' k k' : incr w -> (k < k')%nat -> (S k' < length w)%nat ->
  nth k w 0 <= x -> x <= nth (S k) w 0 -> nth k' w 0 <= x -> x <= nth (S k') w 0 ->
  y = nth k v 0 + (nth (S k) v 0 - nth k v 0) * (x - nth k w 0) / (nth (S k) w 0 - nth k w 0) ->
  y' = nth k' v 0 + (nth (S k') v 0 - nth k' v 0) * (x - nth k' w 0) / (nth (S k') w 0 - nth k' w 0) ->
  y = y'.
Proof. intros Hi Hk Hl A B A' B' -> ->.
  assert (E : k' = S k).
  { destruct (Nat.eq_dec k' (S k)); auto. exfalso.
    assert (nth (S k) w 0 < nth k' w 0) by (apply incr_nth_lt; auto; lia). qc2q; lra. }
  subst k'. assert (X : x = nth (S k) w 0) by (apply Qcle_antisym; auto). rewrite X.
  assert (nth k w 0 < nth (S k) w 0) by (apply incr_nth_lt; auto; lia).
  assert (nth (S k) w 0 < nth (S (S k)) w 0) by (apply incr_nth_lt; auto; lia).
  field. split; intros Z; qc2q; lra. Qed.
(* the interpolant is a function: two chords through x agree (they meet at a sample) *)
Lemma on_interpolant_unique w v x y y' : incr w ->
  on_interpolant w v x y -> on_interpolant w v x y' -> y = y'.
Proof. intros Hi [(L & X & Y)|(k & Hk & A & B & Y)] [(L' & X' & Y')|(k' & Hk' & A' & B' & Y')].
  - congruence.
  - lia.
  - lia.
  - destruct (Nat.lt_trichotomy k k') as [H|[H|H]].
    + eapply on_interpolant_unique_lt with (k := k) (k' := k'); eauto.
    + subst k'. congruence.
    + symmetry. eapply on_interpolant_unique_lt with (k := k') (k' := k); eauto. Qed.

(* ------------------------------------------------------------------ (b) pointwise values *)
Lemma inrange_true w x : inrange w x = true <-> wmin w <= x /\ x <= wmax w.
Proof. unfold inrange. rewrite Bool.andb_true_iff, !qleb_iff. tauto. Qed.
Lemma inrange_false w x : inrange w x = false -> x < wmin w \/ wmax w < x.
Proof. unfold inrange. rewrite Bool.andb_false_iff, !qleb_false. tauto. Qed.

Lemma nth_map_in {A B} (f : A -> B) l i da db : (i < length l)%nat -> nth i (map f l) db = f (nth i l da).
Proof. revert i; induction l as [|a l IH]; intros [|i]; simpl; intros H; try lia; auto. apply IH; lia. Qed.

Lemma fillarr_length f w grid : length (fillarr f w grid) = length grid.
Proof. destruct f; simpl; apply map_length. Qed.

Lemma fillarr_nth f w grid i : (i < length grid)%nat -> wmin w <= wmax w ->
  inrange w (nth i grid 0) = false ->
  (nth i grid 0 < wmin w /\ nth i (fillarr f w grid) 0 = fill_below f) \/
  (wmax w < nth i grid 0 /\ nth i (fillarr f w grid) 0 = fill_above f).
Proof. intros Hi Hw Hr. apply inrange_false in Hr. destruct f as [c|lo hi]; simpl fillarr; simpl fill_below; simpl fill_above.
  - rewrite nth_map_in with (da := 0) by exact Hi. tauto.
  - rewrite nth_map_in with (da := 0) by exact Hi. destruct (qltb (nth i grid 0) (wmin w)) eqn:Q.
    + left. split; auto. apply qltb_iff, Q.
    + right. split; auto. apply qltb_false in Q. destruct Hr as [Hr|Hr]; auto. exfalso. qc2q; lra. Qed.

Lemma sample_on_length w v fa grid : length fa = length grid -> length (sample_on w v fa grid) = length grid.
Proof. intros H. unfold sample_on. apply map2_length. auto. Qed.

Lemma sample_on_denotes f w v grid i : incr w -> length w = length v -> w <> [] -> (i < length grid)%nat ->
  denotes w v f (nth i grid 0) (nth i (sample_on w v (fillarr f w grid) grid) 0).
Proof. intros Hi Hl Hne Hn. pose proof (fillarr_length f w grid) as L.
  unfold sample_on. rewrite map2_nth with (da := 0) (db := 0) by lia.
  destruct (inrange w (nth i grid 0)) eqn:R.
  - apply inrange_true in R. destruct R. right; right. repeat split; auto. apply interp_on; auto.
  - destruct (fillarr_nth f w grid i Hn (incr_wmin_le_wmax _ Hi) R) as [[A ->]|[A ->]].
    + left; auto.
    + right; left; auto. Qed.

(* ------------------------------------------------------------------ (a) the common grid *)
Lemma qc_pos_neq0 d : 0 < d -> d <> 0.
Proof. intros H E. subst. apply (Qclt_not_eq _ _ H). reflexivity. Qed.
Lemma qdiv_nonneg r d : 0 <= r -> 0 < d -> 0 <= r / d.
Proof. intros Hr Hd. assert (E : r = r / d * d) by (field; apply qc_pos_neq0, Hd).
  set (x := r / d) in *. clearbody x. qc2q. nra. Qed.
Lemma qdiv_zero r d : 0 < d -> r / d = 0 -> r = 0.
Proof. intros Hd E. assert (G : r = r / d * d) by (field; apply qc_pos_neq0, Hd). rewrite E in G. rewrite G. ring. Qed.
Lemma union_range w1 w2 : incr w1 -> incr w2 -> qmin (wmin w1) (wmin w2) <= qmax (wmax w1) (wmax w2).
Proof. intros H1 H2. apply Qcle_trans with (wmin w1). apply qmin_le_l.
  apply Qcle_trans with (wmax w1). apply incr_wmin_le_wmax, H1. apply qmax_ge_l. Qed.

Lemma common_grid_spec w1 w2 m grid : incr w1 -> incr w2 -> pos_sampling m -> common_grid w1 w2 m = Ok grid ->
  let mn := qmin (wmin w1) (wmin w2) in let mx := qmax (wmax w1) (wmax w2) in
  exists dw num,
    sampling_of w1 w2 m = Ok dw /\ 0 < dw /\ num = qceil ((mx - mn) / dw) /\ (0 <= num)%Z /\
    zq num - 1 < (mx - mn) / dw /\ (mx - mn) / dw <= zq num /\
    length grid = Z.to_nat (num + 1) /\
    (forall i, (i <= Z.to_nat num)%nat -> nth i grid 0 = mn + zq (Z.of_nat i) * ((mx - mn) / zq num)) /\
    wmin grid = mn /\ wmax grid = mx /\ ((0 < num)%Z -> (mx - mn) / zq num <= dw).
Proof. intros H1 H2 Hp E mn mx. unfold common_grid in E. fold mn mx in E.
  destruct (sampling_of w1 w2 m) as [dw|] eqn:Es; simpl in E; [|discriminate].
  destruct (qceil ((mx - mn) / dw) + 1 <? 0)%Z; [discriminate|]. injection E as <-.
  pose proof (sampling_of_pos _ _ _ _ H1 H2 Hp Es) as Hd.
  assert (Hr : 0 <= mx - mn). { pose proof (union_range w1 w2 H1 H2). fold mn mx in H. qc2q; lra. }
  pose proof (qdiv_nonneg _ _ Hr Hd) as Hq.
  pose proof (qceil_nonneg _ Hq) as Hn. destruct (qceil_spec ((mx - mn) / dw)) as [C1 C2].
  exists dw, (qceil ((mx - mn) / dw)). set (num := qceil ((mx - mn) / dw)) in *.
  repeat split; auto.
  - apply linspace_length, Hn.
  - intros i Hi. destruct (Z.eq_dec num 0) as [N|N].
    + rewrite N in *. assert (i = 0)%nat by lia. subst i. unfold linspace. simpl. rewrite zq_0. ring.
    + apply linspace_nth; lia.
  - apply linspace_first, Hn.
  - destruct (Z.eq_dec num 0) as [N|N].
    + rewrite N in *. unfold linspace; simpl. unfold wmax; simpl. rewrite zq_0 in C2.
      assert (Z : (mx - mn) / dw = 0) by (apply Qcle_antisym; auto).
      apply qdiv_zero in Z; auto. qc2q; lra.
    + apply linspace_last; lia.
  - intros Hnp. apply step_le_sampling; auto. Qed.

(* ------------------------------------------------------------------ (b) pointwise theorem for the core *)
Lemma core_pointwise o w1 v1 w2 v2 m f grid vals :
  incr w1 -> incr w2 -> length w1 = length v1 -> length w2 = length v2 -> w1 <> [] -> w2 <> [] ->
  core o w1 v1 w2 v2 m f = Ok (grid, vals) ->
  common_grid w1 w2 m = Ok grid /\ length vals = length grid /\
  forall i, (i < length grid)%nat -> exists y1 y2,
    denotes w1 v1 f (nth i grid 0) y1 /\ denotes w2 v2 f (nth i grid 0) y2 /\
    nth i vals XUnmodelled = apply o y1 y2.
Proof. intros H1 H2 L1 L2 N1 N2 E. unfold core in E.
  destruct (common_grid w1 w2 m) as [g|] eqn:Eg; simpl in E; [|discriminate].
  injection E as <- <-.
  pose proof (sample_on_length w1 v1 _ g (fillarr_length f w1 g)) as S1.
  pose proof (sample_on_length w2 v2 _ g (fillarr_length f w2 g)) as S2.
  split; [reflexivity|]. split. { rewrite map2_length; congruence. }
  intros i Hi.
  exists (nth i (sample_on w1 v1 (fillarr f w1 g) g) 0), (nth i (sample_on w2 v2 (fillarr f w2 g) g) 0). split; [|split].
  - apply sample_on_denotes; auto.
  - apply sample_on_denotes; auto.
  - apply map2_nth; lia. Qed.

(* ------------------------------------------------------------------ well-formedness is kept by unit conversion *)
Lemma incr_scale c w : 0 < c -> incr w -> incr (map (fun x => x * c) w).
Proof. intros Hc. induction w as [|a [|b t] IH]; simpl; auto. intros [H1 H2]. split.
  - qc2q. nra.
  - apply IH, H2. Qed.
Lemma to_wu_wf s u : wf s -> wf (to_wu s u).
Proof. intros (H1 & H2 & H3). unfold wf, to_wu; simpl. repeat split.
  - apply incr_scale; auto. apply ufac_pos.
  - destruct (vu s); rewrite ?map_length; auto.
  - destruct (wave s); simpl; congruence. Qed.
Lemma conv_wf s u : wf s -> wf (conv s u).
Proof. unfold conv. destruct (wunit_eqb (wu s) u); auto using to_wu_wf. Qed.

(* ------------------------------------------------------------------ (c) commutativity *)
Lemma map2_comm {A B} (f : A -> A -> B) a b : (forall x y, f x y = f y x) -> map2 f a b = map2 f b a.
Proof. intros H. revert b; induction a as [|x a IH]; intros [|y b]; simpl; auto. rewrite H, IH. reflexivity. Qed.
Lemma apply_comm o x y : o = OAdd \/ o = OMul -> apply o x y = apply o y x.
Proof. intros [-> | ->]; simpl; f_equal; ring. Qed.
Lemma lmin_err l e : lmin l = Err e -> e = ValueError.
Proof. destruct l; simpl; congruence. Qed.
Lemma sampling_of_comm w1 w2 m : (m = SMin \/ exists d, m = SNum d) -> sampling_of w1 w2 m = sampling_of w2 w1 m.
Proof. intros [-> | [d ->]]; simpl; auto.
  destruct (lmin (diffs w1)) as [d1|e1] eqn:E1, (lmin (diffs w2)) as [d2|e2] eqn:E2; simpl; auto.
  - now rewrite qmin_comm.
  - apply lmin_err in E1, E2. congruence. Qed.
Lemma common_grid_comm w1 w2 m : (m = SMin \/ exists d, m = SNum d) -> common_grid w1 w2 m = common_grid w2 w1 m.
Proof. intros H. unfold common_grid. rewrite (sampling_of_comm w1 w2 m H).
  rewrite (qmin_comm (wmin w1)), (qmax_comm (wmax w1)). reflexivity. Qed.
Lemma core_comm o w1 v1 w2 v2 m f : (o = OAdd \/ o = OMul) -> (m = SMin \/ exists d, m = SNum d) ->
  core o w1 v1 w2 v2 m f = core o w2 v2 w1 v1 m f.
Proof. intros Ho Hm. unfold core. rewrite (common_grid_comm w1 w2 m Hm).
  destruct (common_grid w2 w1 m) as [g|]; simpl; auto.
  f_equal. f_equal. apply map2_comm. intros; apply apply_comm, Ho. Qed.

Lemma wunit_eqb_refl u : wunit_eqb u u = true. Proof. destruct u; reflexivity. Qed.
Lemma spec_op_comm o s1 s2 m f : wu s1 = wu s2 -> vu s1 = vu s2 ->
  (o = OAdd \/ o = OMul) -> (m = SMin \/ exists d, m = SNum d) ->
  spec_op o s1 s2 m f = spec_op o s2 s1 m f.
Proof. intros Hu Hv Ho Hm. unfold spec_op, conv. rewrite <- Hu, Hv, !wunit_eqb_refl.
  rewrite (core_comm o _ _ _ _ m f Ho Hm). reflexivity. Qed.

(* ------------------------------------------------------------------ (e) rescaling the wavelength axis by c > 0 *)
Section Scale.
Variable c : Qc.
Hypothesis Hc : 0 < c.
Let sc (x : Qc) : Qc := x * c.

Lemma c_neq0 : c <> 0. Proof. apply qc_pos_neq0, Hc. Qed.
Lemma qleb_scale a b : qleb (a * c) (b * c) = qleb a b.
Proof. destruct (qleb a b) eqn:E.
  - apply qleb_iff. apply qleb_iff in E. pose proof Hc. qc2q. nra.
  - apply qleb_false. apply qleb_false in E. pose proof Hc. qc2q. nra. Qed.
Lemma qltb_scale a b : qltb (a * c) (b * c) = qltb a b.
Proof. unfold qltb. f_equal. apply qleb_scale. Qed.
Lemma qmin_scale a b : qmin (a * c) (b * c) = qmin a b * c.
Proof. unfold qmin. rewrite qleb_scale. destruct (qleb a b); reflexivity. Qed.
Lemma qmax_scale a b : qmax (a * c) (b * c) = qmax a b * c.
Proof. unfold qmax. rewrite qleb_scale. destruct (qleb a b); reflexivity. Qed.
Lemma wmin_scale w : wmin (map sc w) = wmin w * c.
Proof. destruct w; unfold wmin; simpl. ring. reflexivity. Qed.
Lemma wmax_scale w : wmax (map sc w) = wmax w * c.
Proof. unfold wmax. induction w as [|a [|b t] IH]; simpl. ring. reflexivity. exact IH. Qed.
Lemma diffs_scale w : diffs (map sc w) = map sc (diffs w).
Proof. induction w as [|a [|b t] IH]; try reflexivity.
  change (diffs (map sc (a :: b :: t))) with ((sc b - sc a) :: diffs (map sc (b :: t))).
  rewrite IH. change (diffs (a :: b :: t)) with ((b - a) :: diffs (b :: t)). simpl. f_equal. unfold sc. ring. Qed.
Lemma fold_qmin_scale l x : fold_left qmin (map sc l) (x * c) = fold_left qmin l x * c.
Proof. revert x; induction l as [|a l IH]; intros x; simpl; auto. unfold sc at 2. rewrite qmin_scale. apply IH. Qed.
Definition rscale (r : result Qc) : result Qc := match r with Ok d => Ok (d * c) | Err e => Err e end.
Lemma lmin_scale l : lmin (map sc l) = rscale (lmin l).
Proof. destruct l as [|x l]; simpl; auto. f_equal. apply fold_qmin_scale. Qed.
Lemma sampling_of_scale w1 w2 m :
  sampling_of (map sc w1) (map sc w2) (scale_sampling c m) = rscale (sampling_of w1 w2 m).
Proof. destruct m; simpl; rewrite ?diffs_scale, ?lmin_scale; auto.
  - destruct (lmin (diffs w1)); simpl; auto. destruct (lmin (diffs w2)); simpl; auto. now rewrite qmin_scale.
  - assert (E : qc_is0 (d * c) = qc_is0 d).
    { destruct (qc_is0 d) eqn:Z.
      - apply qc_is0_true in Z. subst d. apply qc_is0_true. ring.
      - destruct (qc_is0 (d * c)) eqn:Z2; auto. apply qc_is0_true in Z2.
        assert (d = 0). { destruct (Qcmult_integral _ _ Z2) as [H|H]; auto. exfalso. apply c_neq0, H. }
        subst d. discriminate Z. }
    rewrite E. destruct (qc_is0 d); reflexivity. Qed.
Lemma div_scale a d : (a * c) / (d * c) = a / d.
Proof. unfold Qcdiv. rewrite Qcinv_mult_distr.
  transitivity (a * / d * (c * / c)). ring. rewrite Qcmult_inv_r by apply c_neq0. ring. Qed.
Lemma linspace_scale a b num : linspace (a * c) (b * c) num = map sc (linspace a b num).
Proof. unfold linspace. destruct (num =? 0)%Z; [reflexivity|]. rewrite map_map. apply map_ext.
  intros i. destruct (i =? num)%Z; [reflexivity|]. unfold sc, Qcdiv. ring. Qed.
Lemma common_grid_scale w1 w2 m :
  common_grid (map sc w1) (map sc w2) (scale_sampling c m)
  = match common_grid w1 w2 m with Ok g => Ok (map sc g) | Err e => Err e end.
Proof. unfold common_grid. rewrite sampling_of_scale, !wmin_scale, !wmax_scale, qmin_scale, qmax_scale.
  destruct (sampling_of w1 w2 m) as [dw|]; simpl; auto.
  replace (qmax (wmax w1) (wmax w2) * c - qmin (wmin w1) (wmin w2) * c)
    with ((qmax (wmax w1) (wmax w2) - qmin (wmin w1) (wmin w2)) * c) by ring.
  rewrite div_scale. destruct (_ + 1 <? 0)%Z; auto. f_equal. apply linspace_scale. Qed.
Lemma inrange_scale w x : inrange (map sc w) (x * c) = inrange w x.
Proof. unfold inrange. rewrite wmin_scale, wmax_scale, !qleb_scale. reflexivity. Qed.
Lemma chord_scale w0 w1 v0 v1 x : chord (w0 * c) (w1 * c) v0 v1 (x * c) = chord w0 w1 v0 v1 x.
Proof. unfold chord. replace (w1 * c - w0 * c) with ((w1 - w0) * c) by ring.
  unfold Qcdiv. rewrite Qcinv_mult_distr.
  transitivity ((v1 - v0) * / (w1 - w0) * (x - w0) * (c * / c) + v0). ring.
  rewrite Qcmult_inv_r by apply c_neq0. ring. Qed.
Lemma interp_scale w : forall v x, interp (map sc w) v (x * c) = interp w v x.
Proof. induction w as [|a [|b t] IH]; intros v x; try reflexivity.
  destruct v as [|v0 [|v1 vt]]; try reflexivity.
  change (interp (map sc (a :: b :: t)) (v0 :: v1 :: vt) (x * c))
    with (if qleb (x * c) (sc b) then chord (sc a) (sc b) v0 v1 (x * c) else interp (map sc (b :: t)) (v1 :: vt) (x * c)).
  change (interp (a :: b :: t) (v0 :: v1 :: vt) x)
    with (if qleb x b then chord a b v0 v1 x else interp (b :: t) (v1 :: vt) x).
  unfold sc at 1 2 3. rewrite qleb_scale, chord_scale, IH. reflexivity. Qed.
Lemma fillarr_scale f w g : fillarr f (map sc w) (map sc g) = fillarr f w g.
Proof. destruct f as [k|lo hi]; simpl.
  - now rewrite map_map.
  - rewrite map_map. apply map_ext. intros x. unfold sc at 1. now rewrite wmin_scale, qltb_scale. Qed.
Lemma map2_map_l {A A' B C} (f : A' -> B -> C) (h : A -> A') a b :
  map2 f (map h a) b = map2 (fun x y => f (h x) y) a b.
Proof. revert b; induction a as [|x a IH]; intros [|y b]; simpl; auto. now rewrite IH. Qed.
Lemma map2_ext {A B C} (f g : A -> B -> C) a b : (forall x y, f x y = g x y) -> map2 f a b = map2 g a b.
Proof. intros H. revert b; induction a as [|x a IH]; intros [|y b]; simpl; auto. now rewrite H, IH. Qed.
Lemma sample_on_scale w v fa g : sample_on (map sc w) v fa (map sc g) = sample_on w v fa g.
Proof. unfold sample_on. rewrite map2_map_l. apply map2_ext. intros x y. change (sc x) with (x * c).
  now rewrite inrange_scale, interp_scale. Qed.
(* rescaling both wavelength axes (and a numeric sampling) rescales the grid and keeps the values *)
Lemma core_scale o w1 v1 w2 v2 m f :
  core o (map sc w1) v1 (map sc w2) v2 (scale_sampling c m) f
  = match core o w1 v1 w2 v2 m f with Ok (g, vals) => Ok (map sc g, vals) | Err e => Err e end.
Proof. unfold core. rewrite common_grid_scale. destruct (common_grid w1 w2 m) as [g|]; simpl; auto.
  now rewrite !fillarr_scale, !sample_on_scale. Qed.
End Scale.

(* ------------------------------------------------------------------ (e) unit-agnosticism of Spectrum (op) Spectrum *)
Lemma conv_none s u : vu s = VNone ->
  wave (conv s u) = map (fun x => x * ufac (wu s) u) (wave s) /\ value (conv s u) = value s /\ vu (conv s u) = VNone.
Proof. intros Hv. unfold conv. destruct (wunit_eqb (wu s) u) eqn:E.
  - apply wunit_eqb_eq in E. rewrite E, ufac_refl. repeat split; auto.
    rewrite <- (map_id (wave s)) at 1. apply map_ext. intros; ring.
  - unfold to_wu; simpl. rewrite Hv. auto. Qed.
Lemma to_wu_none s u : vu s = VNone ->
  wave (to_wu s u) = map (fun x => x * ufac (wu s) u) (wave s) /\ value (to_wu s u) = value s /\
  vu (to_wu s u) = VNone /\ wu (to_wu s u) = u.
Proof. intros Hv. unfold to_wu; simpl. rewrite Hv. auto. Qed.

Lemma spec_op_unit_agnostic o s1 s2 m f u1 u2 : vu s1 = VNone -> vu s2 = VNone ->
  spec_op o (to_wu s1 u1) (to_wu s2 u2) (scale_sampling (ufac (wu s1) u1) m) f
  = rmap_res (fun r => rto r u1) (spec_op o s1 s2 m f).
Proof. intros V1 V2. unfold spec_op.
  destruct (to_wu_none s1 u1 V1) as (W1 & X1 & Y1 & U1).
  destruct (to_wu_none s2 u2 V2) as (W2 & X2 & Y2 & U2).
  destruct (conv_none (to_wu s2 u2) (wu (to_wu s1 u1)) Y2) as (W3 & X3 & _).
  destruct (conv_none s2 (wu s1) V2) as (W4 & X4 & _).
  rewrite W3, X3, W1, X1, X2, U1, U2, W2, Y1. rewrite W4, X4.
  set (c := ufac (wu s1) u1).
  assert (E : map (fun x => x * ufac u2 u1) (map (fun x => x * ufac (wu s2) u2) (wave s2))
              = map (fun x => x * c) (map (fun x => x * ufac (wu s2) (wu s1)) (wave s2))).
  { rewrite !map_map. apply map_ext. intros x. unfold c.
    rewrite <- !Qcmult_assoc, !ufac_trans. reflexivity. }
  rewrite E. rewrite (core_scale c (ufac_pos _ _)).
  destruct (core o (wave s1) (value s1) (map (fun x => x * ufac (wu s2) (wu s1)) (wave s2)) (value s2) m f)
    as [[g vals]|]; simpl; auto. unfold rto; simpl. rewrite V1. reflexivity. Qed.

(* ------------------------------------------------------------------ statements at the level of Spectrum (op) Spectrum *)
Lemma spec_op_inv o s1 s2 m f r : spec_op o s1 s2 m f = Ok r ->
  core o (wave s1) (value s1) (wave (conv s2 (wu s1))) (value (conv s2 (wu s1))) m f = Ok (rwave r, rvalue r)
  /\ rwu r = wu s1 /\ rvu r = vu s1.
Proof. unfold spec_op. destruct (core _ _ _ _ _ _ _) as [[g vals]|]; simpl; [|discriminate].
  intros E; injection E as <-. auto. Qed.

Definition sampling_char (w1 w2 : list Qc) (m : sampling) (dw : Qc) : Prop :=
  match m with
  | SMin => is_min_of (diffs w1 ++ diffs w2) dw
  | SLeft => is_min_of (diffs w1) dw
  | SRight => is_min_of (diffs w2) dw
  | SNum d => dw = d /\ 0 < d
  end.

Lemma spec_op_common_grid o s1 s2 m f r : wf s1 -> wf s2 ->
  match m with SNum d => 0 < d | _ => True end -> spec_op o s1 s2 m f = Ok r ->
  let w1 := wave s1 in let w2 := wave (conv s2 (wu s1)) in
  let mn := qmin (wmin w1) (wmin w2) in let mx := qmax (wmax w1) (wmax w2) in
  exists dw num,
    match m with
    | SMin => is_min_of (diffs w1 ++ diffs w2) dw
    | SLeft => is_min_of (diffs w1) dw
    | SRight => is_min_of (diffs w2) dw
    | SNum d => dw = d /\ 0 < d
    end /\ 0 < dw /\
    zq num - 1 < (mx - mn) / dw /\ (mx - mn) / dw <= zq num /\ (0 <= num)%Z /\
    length (rwave r) = Z.to_nat (num + 1) /\
    (forall i, (i <= Z.to_nat num)%nat -> nth i (rwave r) 0 = mn + zq (Z.of_nat i) * ((mx - mn) / zq num)) /\
    wmin (rwave r) = mn /\ wmax (rwave r) = mx /\ ((0 < num)%Z -> (mx - mn) / zq num <= dw).
Proof. intros (I1 & L1 & N1) W2 Hp E. apply spec_op_inv in E. destruct E as (E & _ & _).
  destruct (conv_wf s2 (wu s1) W2) as (I2 & L2 & N2).
  destruct (core_pointwise _ _ _ _ _ _ _ _ _ I1 I2 L1 L2 N1 N2 E) as (G & _ & _).
  destruct (common_grid_spec _ _ _ _ I1 I2 Hp G) as (dw & num & S & P & _ & Hn & C1 & C2 & Lg & Nth & G0 & G1 & St).
  intros w1 w2 mn mx. exists dw, num. split; [|repeat split; auto].
  apply sampling_of_spec in S. destruct m; auto. destruct S; split; auto. Qed.

Lemma spec_op_pointwise o s1 s2 m f r : wf s1 -> wf s2 -> spec_op o s1 s2 m f = Ok r ->
  let s2' := conv s2 (wu s1) in
  rwu r = wu s1 /\ rvu r = vu s1 /\ length (rvalue r) = length (rwave r) /\
  forall i, (i < length (rwave r))%nat -> exists y1 y2,
    denotes (wave s1) (value s1) f (nth i (rwave r) 0) y1 /\
    denotes (wave s2') (value s2') f (nth i (rwave r) 0) y2 /\
    nth i (rvalue r) XUnmodelled = apply o y1 y2.
Proof. intros (I1 & L1 & N1) W2 E. apply spec_op_inv in E. destruct E as (E & U & V).
  destruct (conv_wf s2 (wu s1) W2) as (I2 & L2 & N2).
  destruct (core_pointwise _ _ _ _ _ _ _ _ _ I1 I2 L1 L2 N1 N2 E) as (_ & L & P).
  intros s2'. repeat split; auto. Qed.

(* the three cases of [denotes] exclude each other, and the interpolant is a function: a spectrum
   denotes exactly one value at every wavelength *)
Lemma denotes_unique w v f x y y' : incr w -> denotes w v f x y -> denotes w v f x y' -> y = y'.
Proof. intros Hi. pose proof (incr_wmin_le_wmax w Hi) as Hw.
  intros [[A ->]|[[A ->]|(A & B & C)]] [[A' ->]|[[A' ->]|(A' & B' & C')]]; auto;
    try (exfalso; qc2q; lra).
  eapply on_interpolant_unique; eauto. Qed.
Lemma denotes_total w v f x : incr w -> length w = length v -> w <> [] -> exists y, denotes w v f x y.
Proof. intros Hi Hl Hn. destruct (inrange w x) eqn:R.
  - apply inrange_true in R. destruct R. exists (interp w v x). right; right. repeat split; auto. apply interp_on; auto.
  - apply inrange_false in R. destruct R; [exists (fill_below f); left|exists (fill_above f); right; left]; auto. Qed.

(* ------------------------------------------------------------------ (c) commutativity across units *)
Lemma to_wu_same s : vu s = VNone -> to_wu s (wu s) = s.
Proof. intros H. destruct s as [w v u y]; simpl in *. subst y. unfold to_wu; simpl. f_equal.
  rewrite ufac_refl. rewrite <- (map_id w) at 2. apply map_ext. intros; ring. Qed.
Lemma conv_to_wu s u : vu s = VNone -> conv s u = to_wu s u.
Proof. intros H. unfold conv. destruct (wunit_eqb (wu s) u) eqn:E; auto.
  apply wunit_eqb_eq in E. subst u. symmetry. apply to_wu_same, H. Qed.
Lemma spec_op_conv_r o s1 s2 m f : vu s2 = VNone ->
  spec_op o s1 s2 m f = spec_op o s1 (to_wu s2 (wu s1)) m f.
Proof. intros H. unfold spec_op. rewrite (conv_to_wu s2 _ H).
  assert (E : conv (to_wu s2 (wu s1)) (wu s1) = to_wu s2 (wu s1)).
  { unfold conv. change (wu (to_wu s2 (wu s1))) with (wu s1). now rewrite wunit_eqb_refl. }
  rewrite E. reflexivity. Qed.
Lemma scale_sampling_kind c m : (m = SMin \/ exists d, m = SNum d) ->
  scale_sampling c m = SMin \/ exists d, scale_sampling c m = SNum d.
Proof. intros [-> | [d ->]]; simpl; eauto. Qed.

Lemma spec_op_comm_units o a b m f : vu a = VNone -> vu b = VNone ->
  (o = OAdd \/ o = OMul) -> (m = SMin \/ exists d, m = SNum d) ->
  spec_op o b a (scale_sampling (ufac (wu a) (wu b)) m) f
  = rmap_res (fun r => rto r (wu b)) (spec_op o a b m f).
Proof. intros Va Vb Ho Hm.
  rewrite <- (spec_op_unit_agnostic o a b m f (wu b) (wu b) Va Vb).
  rewrite (to_wu_same b Vb).
  rewrite (spec_op_conv_r o b a _ f Va).
  apply spec_op_comm; auto using scale_sampling_kind.
  unfold to_wu; simpl. congruence. Qed.

(* ------------------------------------------------------------------ (d) vectors, reflected forms, unsupported operands *)
Lemma vector_elementwise o s l :
  (length l = length (value s) ->
     exists r, vector_op o s l = Ok r /\ rwave r = wave s /\ rwu r = wu s /\ rvu r = vu s /\
       length (rvalue r) = length (value s) /\
       forall i, (i < length (value s))%nat -> nth i (rvalue r) XUnmodelled = apply o (nth i (value s) 0) (nth i l 0)) /\
  (forall c, l = [c] -> vector_op o s l = Ok (scalar_op o s c) \/ length (value s) = 1%nat) /\
  (length l <> length (value s) -> length l <> 1%nat -> vector_op o s l = Err ValueError).
Proof. unfold vector_op. split; [|split].
  - intros H. rewrite H, Nat.eqb_refl. eexists; split; [reflexivity|]. simpl. repeat split; auto.
    + apply map2_length; auto.
    + intros i Hi. apply map2_nth; lia.
  - intros c ->. simpl. destruct (length (value s)) as [|[|n]]; simpl; auto.
  - intros H1 H2. apply Nat.eqb_neq in H1. rewrite H1. destruct l as [|c [|? ?]]; simpl in *; auto; lia. Qed.

Lemma reflected_forms o s x :
  rdunder OMul s x = dunder OMul s x /\ (o <> OMul -> rdunder o s x = Err TypeError) /\
  dunder o s POther = Err TypeError.
Proof. repeat split. destruct o; simpl; congruence. Qed.

(* ------------------------------------------------------------------ when does Spectrum (op) Spectrum raise *)
Lemma spec_op_errors o s1 s2 m f :
  let w1 := wave s1 in let w2 := wave (conv s2 (wu s1)) in
  let mn := qmin (wmin w1) (wmin w2) in let mx := qmax (wmax w1) (wmax w2) in
  match spec_op o s1 s2 m f with
  | Ok _ => exists dw, sampling_of w1 w2 m = Ok dw /\ (-1 <= qceil ((mx - mn) / dw))%Z
  | Err e => sampling_of w1 w2 m = Err e \/
             (e = ValueError /\ exists dw, sampling_of w1 w2 m = Ok dw /\ (qceil ((mx - mn) / dw) < -1)%Z)
  end.
Proof. intros w1 w2 mn mx. unfold spec_op, core, common_grid. fold w1 w2 mn mx.
  destruct (sampling_of w1 w2 m) as [dw|e]; simpl; auto.
  destruct (qceil ((mx - mn) / dw) + 1 <? 0)%Z eqn:E; simpl.
  - right. split; auto. exists dw. split; auto. lia.
  - exists dw. split; auto. lia. Qed.
(* with the documented positive sampling the count is never negative: the only refusal is an undefined sampling *)
Lemma spec_op_errors_pos o s1 s2 m f : wf s1 -> wf s2 -> match m with SNum d => 0 < d | _ => True end ->
  match spec_op o s1 s2 m f with
  | Ok _ => exists dw, sampling_of (wave s1) (wave (conv s2 (wu s1))) m = Ok dw
  | Err e => sampling_of (wave s1) (wave (conv s2 (wu s1))) m = Err e
  end.
Proof. intros (I1 & _ & _) W2 Hp. destruct (conv_wf s2 (wu s1) W2) as (I2 & _ & _).
  pose proof (spec_op_errors o s1 s2 m f) as H. cbv zeta in H.
  destruct (spec_op o s1 s2 m f) as [r|e].
  - destruct H as (dw & H & _). eauto.
  - destruct H as [H|(_ & dw & S & N)]; auto. exfalso.
    pose proof (sampling_of_pos _ _ _ _ I1 I2 Hp S) as Hd.
    pose proof (union_range _ _ I1 I2) as Hr.
    assert (0 <= qceil ((qmax (wmax (wave s1)) (wmax (wave (conv s2 (wu s1)))) - qmin (wmin (wave s1)) (wmin (wave (conv s2 (wu s1))))) / dw))%Z.
    { apply qceil_nonneg, qdiv_nonneg; auto. qc2q; lra. }
    lia. Qed.

(* ------------------------------------------------------------------ Spectrum.sample *)
Lemma sample_denotes s pts f u i : wf s -> (i < length pts)%nat ->
  let s' := conv s u in
  length (sample s pts f u) = length pts /\
  denotes (wave s') (value s') f (nth i pts 0) (nth i (sample s pts f u) 0).
Proof. intros W Hi s'. destruct (conv_wf s u W) as (I & L & N). fold s' in I, L, N.
  unfold sample. fold s'. split. apply map_length.
  rewrite nth_map_in with (da := 0) by exact Hi.
  destruct (inrange (wave s') (nth i pts 0)) eqn:R.
  - apply inrange_true in R. destruct R. right; right. repeat split; auto. apply interp_on; auto.
  - apply inrange_false in R. pose proof (incr_wmin_le_wmax _ I) as Hw.
    unfold fill_at. destruct f as [c|lo hi]; simpl.
    + destruct R; [left|right; left]; auto.
    + destruct (qltb (nth i pts 0) (wmin (wave s'))) eqn:Q.
      * left. split; auto. apply qltb_iff, Q.
      * right; left. split; auto. apply qltb_false in Q. destruct R as [R|R]; auto. exfalso. qc2q; lra. Qed.

(* ------------------------------------------------------------------ (e) density value units: add and subtract *)
Section ValScale.
Variable k : Qc.
Let sk (y : Qc) : Qc := y * k.

Lemma chord_vscale w0 w1 v0 v1 x : chord w0 w1 (v0 * k) (v1 * k) x = chord w0 w1 v0 v1 x * k.
Proof. unfold chord, Qcdiv. ring. Qed.
Lemma interp_vscale w : forall v x, interp w (map sk v) x = interp w v x * k.
Proof. induction w as [|a [|b t] IH]; intros v x.
  - destruct v; simpl; [ring|reflexivity].
  - destruct v; simpl; [ring|reflexivity].
  - destruct v as [|v0 [|v1 vt]]; try (simpl; ring).
    + reflexivity.
    + change (interp (a :: b :: t) (map sk (v0 :: v1 :: vt)) x)
        with (if qleb x b then chord a b (sk v0) (sk v1) x else interp (b :: t) (map sk (v1 :: vt)) x).
      change (interp (a :: b :: t) (v0 :: v1 :: vt) x)
        with (if qleb x b then chord a b v0 v1 x else interp (b :: t) (v1 :: vt) x).
      unfold sk at 1 2. rewrite chord_vscale, IH. destruct (qleb x b); reflexivity. Qed.
Lemma fillarr_vscale f w g : fillarr (fscale k f) w g = map sk (fillarr f w g).
Proof. destruct f as [c|lo hi]; simpl.
  - now rewrite map_map.
  - rewrite map_map. apply map_ext. intros x. destruct (qltb x (wmin w)); reflexivity. Qed.
Lemma sample_on_vscale w v g : forall fa, sample_on w (map sk v) (map sk fa) g = map sk (sample_on w v fa g).
Proof. unfold sample_on. induction g as [|x g IH]; intros [|y fa]; simpl; auto.
  rewrite IH, interp_vscale. destruct (inrange w x); reflexivity. Qed.
Lemma apply_vscale o x y : o = OAdd \/ o = OSub -> apply o (x * k) (y * k) = xscale k (apply o x y).
Proof. intros [-> | ->]; simpl; f_equal; ring. Qed.
Lemma map2_apply_vscale o a : o = OAdd \/ o = OSub ->
  forall b, map2 (apply o) (map sk a) (map sk b) = map (xscale k) (map2 (apply o) a b).
Proof. intros Ho. induction a as [|x a IH]; intros [|y b]; simpl; auto.
  unfold sk at 1 2. now rewrite apply_vscale, IH. Qed.
Lemma core_vscale o w1 v1 w2 v2 m f : o = OAdd \/ o = OSub ->
  core o w1 (map sk v1) w2 (map sk v2) m (fscale k f)
  = rmap_res (fun gv => (fst gv, map (xscale k) (snd gv))) (core o w1 v1 w2 v2 m f).
Proof. intros Ho. unfold core. destruct (common_grid w1 w2 m) as [g|]; simpl; auto.
  now rewrite !fillarr_vscale, !sample_on_vscale, map2_apply_vscale. Qed.
End ValScale.

Lemma div_as_mul (y f : Qc) : y / f = y * / f. Proof. reflexivity. Qed.
Lemma to_wu_density s u : vu s <> VNone ->
  wave (to_wu s u) = map (fun x => x * ufac (wu s) u) (wave s) /\
  value (to_wu s u) = map (fun y => y * / ufac (wu s) u) (value s) /\
  vu (to_wu s u) = vu s /\ wu (to_wu s u) = u.
Proof. intros H. unfold to_wu; simpl. destruct (vu s); try congruence; auto. Qed.
Lemma conv_density s u : vu s <> VNone ->
  wave (conv s u) = map (fun x => x * ufac (wu s) u) (wave s) /\
  value (conv s u) = map (fun y => y * / ufac (wu s) u) (value s).
Proof. intros H. unfold conv. destruct (wunit_eqb (wu s) u) eqn:E.
  - apply wunit_eqb_eq in E. rewrite E, ufac_refl. split.
    + rewrite <- (map_id (wave s)) at 1. apply map_ext. intros; ring.
    + rewrite <- (map_id (value s)) at 1. apply map_ext. intros. field. discriminate.
  - destruct (to_wu_density s u H) as (A & B & _). auto. Qed.

Lemma spec_op_unit_agnostic_density o s1 s2 m f u1 u2 : vu s1 <> VNone -> vu s2 <> VNone ->
  (o = OAdd \/ o = OSub) ->
  spec_op o (to_wu s1 u1) (to_wu s2 u2) (scale_sampling (ufac (wu s1) u1) m) (fscale (/ ufac (wu s1) u1) f)
  = rmap_res (fun r => rto_density r u1) (spec_op o s1 s2 m f).
Proof. intros V1 V2 Ho. unfold spec_op.
  destruct (to_wu_density s1 u1 V1) as (W1 & X1 & Y1 & U1).
  destruct (to_wu_density s2 u2 V2) as (W2 & X2 & Y2 & U2).
  assert (V2' : vu (to_wu s2 u2) <> VNone) by congruence.
  destruct (conv_density (to_wu s2 u2) (wu (to_wu s1 u1)) V2') as (W3 & X3).
  destruct (conv_density s2 (wu s1) V2) as (W4 & X4).
  rewrite W3, X3, W1, X1, X2, U1, U2, W2, Y1. rewrite W4, X4.
  set (c := ufac (wu s1) u1).
  assert (E : map (fun x => x * ufac u2 u1) (map (fun x => x * ufac (wu s2) u2) (wave s2))
              = map (fun x => x * c) (map (fun x => x * ufac (wu s2) (wu s1)) (wave s2))).
  { rewrite !map_map. apply map_ext. intros x. unfold c.
    rewrite <- !Qcmult_assoc, !ufac_trans. reflexivity. }
  assert (E2 : map (fun y => y * / ufac u2 u1) (map (fun y => y * / ufac (wu s2) u2) (value s2))
              = map (fun y => y * / c) (map (fun y => y * / ufac (wu s2) (wu s1)) (value s2))).
  { rewrite !map_map. apply map_ext. intros y. unfold c.
    rewrite <- !Qcmult_assoc, <- !Qcinv_mult_distr, !ufac_trans. reflexivity. }
  rewrite E, E2. rewrite (core_scale c (ufac_pos _ _)). rewrite (core_vscale (/ c) o _ _ _ _ m f Ho).
  destruct (core o (wave s1) (value s1) (map (fun x => x * ufac (wu s2) (wu s1)) (wave s2))
              (map (fun y => y * / ufac (wu s2) (wu s1)) (value s2)) m f) as [[g vals]|]; simpl; auto. Qed.

(* density (left) times / over a unitless spectrum (right), default fill value 0 *)
Section ValScaleLeft.
Variable k : Qc.
Let sk (y : Qc) : Qc := y * k.
Lemma apply_vscale_left o x y : o = OMul \/ o = ODiv -> apply o (x * k) y = xscale k (apply o x y).
Proof. intros [-> | ->]; simpl.
  - f_equal; ring.
  - destruct (qc_is0 y); simpl; auto. f_equal. unfold Qcdiv. ring. Qed.
Lemma map2_apply_vscale_left o a : o = OMul \/ o = ODiv ->
  forall b, map2 (apply o) (map sk a) b = map (xscale k) (map2 (apply o) a b).
Proof. intros Ho. induction a as [|x a IH]; intros [|y b]; simpl; auto.
  unfold sk at 1. now rewrite apply_vscale_left, IH. Qed.
Lemma zeros_vscale (g : list Qc) : map sk (map (fun _ => 0) g) = map (fun _ => 0) g.
Proof. rewrite map_map. apply map_ext. intros; unfold sk; ring. Qed.
Lemma core_vscale_left o w1 v1 w2 v2 m : o = OMul \/ o = ODiv ->
  core o w1 (map sk v1) w2 v2 m (FScalar 0)
  = rmap_res (fun gv => (fst gv, map (xscale k) (snd gv))) (core o w1 v1 w2 v2 m (FScalar 0)).
Proof. intros Ho. unfold core. destruct (common_grid w1 w2 m) as [g|]; simpl; auto.
  rewrite <- (zeros_vscale g) at 1. fold sk. rewrite (sample_on_vscale k).
  now rewrite map2_apply_vscale_left. Qed.
End ValScaleLeft.

Lemma spec_op_unit_agnostic_density_left o s1 s2 m u1 u2 : vu s1 <> VNone -> vu s2 = VNone ->
  (o = OMul \/ o = ODiv) ->
  spec_op o (to_wu s1 u1) (to_wu s2 u2) (scale_sampling (ufac (wu s1) u1) m) (FScalar 0)
  = rmap_res (fun r => rto_density r u1) (spec_op o s1 s2 m (FScalar 0)).
Proof. intros V1 V2 Ho. unfold spec_op.
  destruct (to_wu_density s1 u1 V1) as (W1 & X1 & Y1 & U1).
  destruct (to_wu_none s2 u2 V2) as (W2 & X2 & Y2 & U2).
  destruct (conv_none (to_wu s2 u2) (wu (to_wu s1 u1)) Y2) as (W3 & X3 & _).
  destruct (conv_none s2 (wu s1) V2) as (W4 & X4 & _).
  rewrite W3, X3, W1, X1, X2, U1, U2, W2, Y1. rewrite W4, X4.
  set (c := ufac (wu s1) u1).
  assert (E : map (fun x => x * ufac u2 u1) (map (fun x => x * ufac (wu s2) u2) (wave s2))
              = map (fun x => x * c) (map (fun x => x * ufac (wu s2) (wu s1)) (wave s2))).
  { rewrite !map_map. apply map_ext. intros x. unfold c.
    rewrite <- !Qcmult_assoc, !ufac_trans. reflexivity. }
  rewrite E. rewrite (core_scale c (ufac_pos _ _) o _ _ _ _ m (FScalar 0)).
  rewrite (core_vscale_left (/ c) o _ _ _ _ m Ho).
  destruct (core o (wave s1) (value s1) (map (fun x => x * ufac (wu s2) (wu s1)) (wave s2)) (value s2) m (FScalar 0))
    as [[g vals]|]; simpl; auto. Qed.

(* ------------------------------------------------------------------ the two-element fill value (below, above) *)
Lemma denotes_cases w v f x y : incr w -> denotes w v f x y ->
  (x < wmin w -> y = fill_below f) /\ (wmax w < x -> y = fill_above f) /\
  (wmin w <= x -> x <= wmax w -> on_interpolant w v x y).
Proof. intros Hi D. pose proof (incr_wmin_le_wmax w Hi) as Hw.
  destruct D as [[A ->]|[[A ->]|(A & B & C)]]; repeat split; intros; auto; exfalso; qc2q; lra. Qed.

Lemma spec_op_fill_pair o s1 s2 m lo hi r : wf s1 -> wf s2 -> spec_op o s1 s2 m (FPair lo hi) = Ok r ->
  let s2' := conv s2 (wu s1) in
  forall i, (i < length (rwave r))%nat -> let x := nth i (rwave r) 0 in exists y1 y2,
    nth i (rvalue r) XUnmodelled = apply o y1 y2 /\
    (x < wmin (wave s1) -> y1 = lo) /\ (wmax (wave s1) < x -> y1 = hi) /\
    (wmin (wave s1) <= x -> x <= wmax (wave s1) -> on_interpolant (wave s1) (value s1) x y1) /\
    (x < wmin (wave s2') -> y2 = lo) /\ (wmax (wave s2') < x -> y2 = hi) /\
    (wmin (wave s2') <= x -> x <= wmax (wave s2') -> on_interpolant (wave s2') (value s2') x y2).
Proof. intros W1 W2 E s2' i Hi x.
  destruct (spec_op_pointwise _ _ _ _ _ _ W1 W2 E) as (_ & _ & _ & P).
  destruct (P i Hi) as (y1 & y2 & D1 & D2 & A). exists y1, y2. split; auto.
  destruct W1 as (I1 & _ & _). destruct (conv_wf s2 (wu s1) W2) as (I2 & _ & _).
  destruct (denotes_cases _ _ _ _ _ I1 D1) as (a1 & b1 & c1).
  destruct (denotes_cases _ _ _ _ _ I2 D2) as (a2 & b2 & c2). repeat split; auto. Qed.
