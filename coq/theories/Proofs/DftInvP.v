(* Analytic theorems about the DFT model over the complex numbers (scalar structure [CS] of Lib/Cis.v):
   - the inverse transform recovers the input over one full period, for both normalisation flags (C01);
   - Parseval over one period that may be larger than the input, with any integer input offset and any
     output shift, per-axis periods (C01 full period, C05 commensurate samplings);
   - a smaller output window is the restriction of the full-period output (ring-generic).
   Everything rests on the orthogonality of the roots of unity ([ke_roots_sum]). *)
From Coq Require Import Reals Lra QArith Qreals Qcanon.
From Coquelicot Require Import Complex.
From LV Require Import Lib.Cis Model.Dft Proofs.ArrP Proofs.DftP.

(* ------------------------------------------------------------------------------------------ *)
(** * Ring-generic lemmas on sums, conjugation and squared moduli *)
Section Gen.
Variable S : Scalar.
Hypothesis Sring : is_ring S.
Hypothesis Skernel : kernel_laws S.
Hypothesis Sconj : conj_laws S.
Add Ring Sr2 : Sring.

Lemma kconj_sumZ n (f : Z -> S) : kconj (sumZ n f) = sumZ n (fun i => kconj (f i)).
Proof. unfold sumZ. induction (Z.to_nat n) as [|k IH]; cbn [sumn].
  - apply (kconj_0 S Sconj). - rewrite (kconj_add S Sconj), IH. reflexivity. Qed.

Lemma sumZ_mul_sumZ m n (f g : Z -> S) :
  (sumZ m f * sumZ n g)%K = sumZ m (fun i => sumZ n (fun j => (f i * g j)%K)).
Proof. rewrite <- (sumZ_scale_r S Sring). apply sumZ_ext; intros i _.
  now rewrite <- (sumZ_scale_l S Sring). Qed.

Lemma norm2_mul (a b : S) : norm2 (a * b)%K = (norm2 a * norm2 b)%K.
Proof. unfold norm2. rewrite (kconj_mul S Sconj). ring. Qed.
Lemma norm2_conj (a : S) : norm2 (kconj a) = norm2 a.
Proof. unfold norm2. rewrite (kconj_inv S Sconj). ring. Qed.
Lemma norm2_0 : norm2 (@k0 S) = k0.
Proof. unfold norm2. ring. Qed.
Lemma ke_opp_r (t : Qc) : (@ke S t * ke (- t)%Qc)%K = k1.
Proof. rewrite <- (ke_add S Skernel), Qcplus_opp_r. apply (ke_0 S Skernel). Qed.
Lemma norm2_ke (t : Qc) : norm2 (@ke S t) = k1.
Proof. unfold norm2. rewrite (kconj_e S Sconj). apply ke_opp_r. Qed.

(* squared modulus of a sum = double sum *)
Lemma norm2_sumZ n (f : Z -> S) :
  norm2 (sumZ n f) = sumZ n (fun i => sumZ n (fun j => (f i * kconj (f j))%K)).
Proof. unfold norm2. rewrite kconj_sumZ. apply sumZ_mul_sumZ. Qed.

(* a smaller output window is the restriction of a larger one: the value depends on the output index only
   through the coordinate  u - floor(M/2) - shift *)
Lemma zq_sub a b : zq (a - b) = (zq a - zq b)%Qc.
Proof. unfold Z.sub, Qcminus. rewrite zq_add. f_equal.
  unfold zq, Qcopp. apply Qc_is_canon. cbn [this Q2Qc]. rewrite !Qred_correct.
  unfold inject_Z, Qopp. cbn. reflexivity. Qed.

Theorem dft2_window (sq : Qc -> S) (f : arr S) ar ac M N M' N' (sr sc sr' sc' : Z) offr offc unitary u v :
  0 <= u < M -> 0 <= v < N ->
  0 <= u - M / 2 - sr + M' / 2 + sr' < M' -> 0 <= v - N / 2 - sc + N' / 2 + sc' < N' ->
  get (dft2 sq f ar ac M N (zq sr) (zq sc) offr offc unitary) u v
  = get (dft2 sq f ar ac M' N' (zq sr') (zq sc') offr offc unitary)
        (u - M / 2 - sr + M' / 2 + sr') (v - N / 2 - sc + N' / 2 + sc').
Proof.
  intros Hu Hv Hu' Hv'. rewrite !(dft2_defining_sum S Sring Skernel) by assumption.
  rewrite <- !zq_sub. f_equal. f_equal; f_equal; lia.
Qed.
End Gen.

(* ------------------------------------------------------------------------------------------ *)
(** * Over the complex numbers *)
Local Open Scope Z_scope.

Lemma zq_Z2Qc z : zq z = Z2Qc z. Proof. reflexivity. Qed.

(* the phase of a matrix entry when alpha = 1/P and the shift is zero *)
Lemma phase_qz P a b : P <> 0 -> (/ zq P * zq a * (zq b - 0))%Qc = qz (a * b) P.
Proof.
  intros HP. apply Q2R_inj_Qc. rewrite !zq_Z2Qc.
  rewrite Q2R_qz by assumption.
  rewrite !Q2R_Qc_mul, Q2R_Qc_sub, Q2R_Qc_inv by (apply Z2Qc_neq0; assumption).
  rewrite !Q2R_Z2Qc, Q2R_Qc_0, mult_IZR. field. now apply not_0_IZR.
Qed.

(* split a phase with a shift into the zero-shift phase and an input-side phase ramp *)
Lemma phase_shift (al X U sh : Qc) : (al * X * (U - sh))%Qc = (al * X * (U - 0) + - (al * X * sh))%Qc.
Proof. ring. Qed.

Lemma CS_norm2_RtoC (r : R) : @norm2 CS (RtoC r) = RtoC (r * r).
Proof. unfold norm2. cbn. unfold Cmult, Cconj, RtoC; cbn. f_equal; ring. Qed.

(* 1-D Parseval over a period P >= m: the m input samples sit at P-incongruent coordinates *)
Lemma parseval1 (P m o c : Z) (a : Z -> C) : 0 < P -> m <= P ->
  @sumZ CS P (fun u => norm2 (@sumZ CS m (fun x => Cmult (a x) (@ke CS (qz ((x + o) * (u - c)) P)))))
  = Cmult (RtoC (IZR P)) (@sumZ CS m (fun x => @norm2 CS (a x))).
Proof.
  intros HP Hm. assert (HP0 : P <> 0) by lia.
  pose proof CS_ring as Rg. pose proof CS_kernel as Kl. pose proof CS_conj as Cl.
  destruct Kl as [Kadd K0].
  rewrite (sumZ_ext CS P _ (fun u => @sumZ CS m (fun x => @sumZ CS m (fun x' =>
      Cmult (Cmult (Cmult (a x) (Cconj (a x'))) (@ke CS (qz (- ((x - x') * c)) P))) (@ke CS (qz ((x - x') * u) P)))))).
  2:{ intros u _. rewrite (norm2_sumZ CS Rg Cl). apply sumZ_ext; intros x _. apply sumZ_ext; intros x' _.
      cbn [kmul CS kconj]. change Cmult with (@kmul CS). change Cconj with (@kconj CS).
      rewrite (kconj_mul CS Cl), (kconj_e CS Cl).
      transitivity (@kmul CS (@kmul CS (a x) (@kconj CS (a x')))
                     (@kmul CS (@ke CS (qz ((x + o) * (u - c)) P)) (@ke CS (- qz ((x' + o) * (u - c)) P)%Qc))).
      { cbn; ring. }
      rewrite <- Kadd, <- qz_opp, <- qz_add by assumption.
      transitivity (@kmul CS (@kmul CS (a x) (@kconj CS (a x')))
                     (@kmul CS (@ke CS (qz (- ((x - x') * c)) P)) (@ke CS (qz ((x - x') * u) P)))).
      2:{ cbn; ring. }
      rewrite <- Kadd, <- qz_add by assumption. do 3 f_equal. ring. }
  rewrite (sumZ_exchange CS Rg).
  change Cmult with (@kmul CS). rewrite <- (sumZ_scale_l CS Rg).
  apply sumZ_ext; intros x Hx.
  rewrite (sumZ_exchange CS Rg).
  rewrite (sumZ_ext CS m _ (fun x' => if x' =? x then Cmult (RtoC (IZR P)) (@norm2 CS (a x')) else @k0 CS)).
  - apply (sumZ_delta CS Rg). assumption.
  - intros x' Hx'. rewrite (sumZ_scale_l CS Rg), ke_roots_sum by assumption.
    destruct (Z.eqb_spec x' x) as [->|Hne].
    + rewrite Z.sub_diag, Z.mod_0_l by lia. cbn [Z.eqb]. rewrite Z.mul_0_l. cbn [Z.opp].
      rewrite qz_0, K0 by assumption. unfold norm2. cbn; ring.
    + assert (((x - x') mod P) <> 0).
      { intro E. apply Z.mod_divide in E; [|lia]. destruct E as [q Hq].
        assert (q = 0 \/ q <= -1 \/ 1 <= q) as [Hq0|[Hq1|Hq1]] by lia; [subst q; lia| |]; nia. }
      destruct (Z.eqb_spec ((x - x') mod P) 0); [contradiction|]. cbn; ring.
Qed.

(* ------------------------------------------------------------------------------------------ *)
(** * The square-root parameter *)
Local Open Scope R_scope.
Lemma Csq_real (s : C) (r : R) : 0 <= r -> Cmult s s = RtoC r -> Cconj s = s.
Proof.
  destruct s as [a b]. unfold Cmult, Cconj, RtoC; cbn [fst snd]. intros Hr H. injection H as H1 H2.
  f_equal. destruct (Req_dec b 0) as [->|Hb]; [ring|].
  assert (a = 0). { assert (a * b = 0) by lra. apply Rmult_integral in H. tauto. }
  subst a. exfalso. assert (0 < b * b) by nra. nra.
Qed.

Lemma Q2R_qabs (q : Qc) : Q2R (qabs q) = Rabs (Q2R q).
Proof.
  unfold qabs. destruct (Qle_bool (this q) 0) eqn:E.
  - apply Qle_bool_iff in E. apply Qle_Rle in E. rewrite RMicromega.Q2R_0 in E.
    rewrite Q2R_Qc_opp, Rabs_left1; auto.
  - rewrite Rabs_right; [reflexivity|]. apply Rle_ge. apply Rnot_lt_le. intro H.
    assert (Qle_bool q 0 = true); [|congruence]. apply Qle_bool_iff. apply Rle_Qle.
    rewrite RMicromega.Q2R_0. lra.
Qed.
Lemma qabs_nonneg (q : Qc) : (0 <= qabs q)%Qc.
Proof. unfold Qcle. apply Rle_Qle. rewrite Q2R_qabs. change (this 0%Qc) with 0%Q. rewrite RMicromega.Q2R_0.
  apply Rabs_pos. Qed.

Definition sq_spec (sq : Qc -> C) : Prop := forall q : Qc, (0 <= q)%Qc -> Cmult (sq q) (sq q) = RtoC (Q2R q).

(* the principal square root satisfies the contract *)
Lemma sqrt_sq_spec : sq_spec (fun q => RtoC (sqrt (Q2R q))).
Proof. intros q Hq. rewrite <- RtoC_mult. f_equal. apply sqrt_sqrt.
  unfold Qcle in Hq. apply Qle_Rle in Hq. change (this 0%Qc) with 0%Q in Hq. now rewrite RMicromega.Q2R_0 in Hq. Qed.

Lemma unitary_scale_norm2 (sq : Qc -> C) (Pr Pc : Z) : sq_spec sq -> (0 < Pr)%Z -> (0 < Pc)%Z ->
  @norm2 CS (sq (qabs (/ zq Pr * / zq Pc)%Qc)) = RtoC (/ (IZR Pr * IZR Pc))
  /\ Cconj (sq (qabs (/ zq Pr * / zq Pc)%Qc)) = sq (qabs (/ zq Pr * / zq Pc)%Qc).
Proof.
  intros Hsq HPr HPc. pose proof (Hsq _ (qabs_nonneg (/ zq Pr * / zq Pc)%Qc)) as H.
  assert (Hv : Q2R (qabs (/ zq Pr * / zq Pc)%Qc) = / (IZR Pr * IZR Pc)).
  { rewrite Q2R_qabs, Q2R_Qc_mul, !zq_Z2Qc, !Q2R_Qc_inv, !Q2R_Z2Qc by (apply Z2Qc_neq0; lia).
    assert (0 < IZR Pr) by (apply IZR_lt; lia). assert (0 < IZR Pc) by (apply IZR_lt; lia).
    rewrite Rabs_right. - field; lra.
    - apply Rle_ge. apply Rmult_le_pos; left; now apply Rinv_0_lt_compat. }
  assert (Hc : Cconj (sq (qabs (/ zq Pr * / zq Pc)%Qc)) = sq (qabs (/ zq Pr * / zq Pc)%Qc)).
  { apply (Csq_real _ _ (Rabs_pos (Q2R (/ zq Pr * / zq Pc)%Qc))). rewrite <- Q2R_qabs. exact H. }
  split; [|exact Hc]. unfold norm2. cbn [kmul kconj CS]. rewrite Hc, H, Hv. reflexivity.
Qed.
Local Open Scope Z_scope.

(* ------------------------------------------------------------------------------------------ *)
(** * The defining sum with alpha = 1/P, separated into a row and a column stage *)

(* unit-modulus input-side ramp produced by an output shift *)
Definition ramp (P X : Z) (sh : Qc) : C := @ke CS (- (/ zq P * zq X * sh))%Qc.

Lemma ke_period_split P X (b : Z) sh : P <> 0 ->
  @ke CS (/ zq P * zq X * (zq b - sh))%Qc = Cmult (ramp P X sh) (@ke CS (qz (X * b) P)).
Proof. intros HP. rewrite phase_shift, (ke_add CS CS_kernel), phase_qz by assumption. unfold ramp. cbn; ring. Qed.

(* column stage *)
Definition colstage (f : arr CS) (Pc offc : Z) (shc : Qc) (x v : Z) : C :=
  @sumZ CS (nc f) (fun y => Cmult (Cmult (get f x y) (ramp Pc (y - nc f / 2 + offc) shc))
                                  (@ke CS (qz ((y + (offc - nc f / 2)) * (v - Pc / 2)) Pc))).

Lemma fourier_sum_period (f : arr CS) Pr Pc offr offc shr shc u v : Pr <> 0 -> Pc <> 0 ->
  fourier_sum f (/ zq Pr)%Qc (/ zq Pc)%Qc offr offc (zq (u - Pr / 2) - shr)%Qc (zq (v - Pc / 2) - shc)%Qc
  = @sumZ CS (nr f) (fun x => Cmult (Cmult (ramp Pr (x - nr f / 2 + offr) shr) (colstage f Pc offc shc x v))
                                    (@ke CS (qz ((x + (offr - nr f / 2)) * (u - Pr / 2)) Pr))).
Proof.
  intros HPr HPc. unfold fourier_sum, colstage. pose proof CS_ring as Rg.
  apply sumZ_ext; intros x _.
  change Cmult with (@kmul CS). rewrite <- (sumZ_scale_l CS Rg), <- (sumZ_scale_r CS Rg).
  apply sumZ_ext; intros y _.
  rewrite (ke_add CS CS_kernel), !ke_period_split by assumption.
  replace (x - nr f / 2 + offr) with (x + (offr - nr f / 2)) by ring.
  replace (y - nc f / 2 + offc) with (y + (offc - nc f / 2)) by ring.
  cbn; ring.
Qed.

Lemma norm2_ramp P X sh : @norm2 CS (ramp P X sh) = RtoC 1.
Proof. apply (norm2_ke CS CS_kernel CS_conj). Qed.

(* Parseval for the un-normalised defining sum over one period (Pr, Pc) >= (m, n) *)
Lemma parseval_raw (f : arr CS) Pr Pc offr offc shr shc : 0 < Pr -> 0 < Pc -> nr f <= Pr -> nc f <= Pc ->
  @sumZ CS Pr (fun u => @sumZ CS Pc (fun v => @norm2 CS
     (fourier_sum f (/ zq Pr)%Qc (/ zq Pc)%Qc offr offc (zq (u - Pr / 2) - shr)%Qc (zq (v - Pc / 2) - shc)%Qc)))
  = Cmult (RtoC (IZR Pr * IZR Pc)) (@sumZ CS (nr f) (fun x => @sumZ CS (nc f) (fun y => @norm2 CS (get f x y)))).
Proof.
  intros HPr HPc Hm Hn. pose proof CS_ring as Rg.
  rewrite (sumZ_exchange CS Rg).
  rewrite (sumZ_ext CS Pc _ (fun v => Cmult (RtoC (IZR Pr))
     (@sumZ CS (nr f) (fun x => @norm2 CS (colstage f Pc offc shc x v))))).
  2:{ intros v _.
      rewrite (sumZ_ext CS Pr _ (fun u => @norm2 CS (@sumZ CS (nr f) (fun x =>
           Cmult (Cmult (ramp Pr (x - nr f / 2 + offr) shr) (colstage f Pc offc shc x v))
                 (@ke CS (qz ((x + (offr - nr f / 2)) * (u - Pr / 2)) Pr)))))).
      2:{ intros u _. rewrite fourier_sum_period by lia. reflexivity. }
      rewrite parseval1 by assumption. f_equal. apply sumZ_ext; intros x _.
      change Cmult with (@kmul CS). rewrite (norm2_mul CS Rg CS_conj), norm2_ramp. cbn; ring. }
  change Cmult with (@kmul CS). rewrite (sumZ_scale_l CS Rg), (sumZ_exchange CS Rg).
  rewrite (sumZ_ext CS (nr f) _ (fun x => Cmult (RtoC (IZR Pc)) (@sumZ CS (nc f) (fun y => @norm2 CS (get f x y))))).
  2:{ intros x _. unfold colstage. rewrite parseval1 by assumption. f_equal. apply sumZ_ext; intros y _.
      change Cmult with (@kmul CS). rewrite (norm2_mul CS Rg CS_conj), norm2_ramp. cbn; ring. }
  change Cmult with (@kmul CS). rewrite (sumZ_scale_l CS Rg). rewrite RtoC_mult. cbn; ring.
Qed.

(* T05a / T01e: the unitary transform conserves energy over one period that contains the input *)
Theorem parseval_period (sq : Qc -> C) (f : arr CS) Pr Pc shr shc offr offc :
  sq_spec sq -> 0 < Pr -> 0 < Pc -> nr f <= Pr -> nc f <= Pc ->
  @sumZ CS Pr (fun u => @sumZ CS Pc (fun v => @norm2 CS
     (get (dft2 (S:=CS) sq f (/ zq Pr)%Qc (/ zq Pc)%Qc Pr Pc shr shc offr offc true) u v)))
  = @sumZ CS (nr f) (fun x => @sumZ CS (nc f) (fun y => @norm2 CS (get f x y))).
Proof.
  intros Hsq HPr HPc Hm Hn. pose proof CS_ring as Rg.
  destruct (unitary_scale_norm2 sq Pr Pc Hsq HPr HPc) as [Hs _].
  rewrite (sumZ_ext CS Pr _ (fun u => Cmult (@sumZ CS Pc (fun v => @norm2 CS
     (fourier_sum f (/ zq Pr)%Qc (/ zq Pc)%Qc offr offc (zq (u - Pr / 2) - shr)%Qc (zq (v - Pc / 2) - shc)%Qc)))
     (RtoC (/ (IZR Pr * IZR Pc))))).
  2:{ intros u Hu. change Cmult with (@kmul CS). rewrite <- (sumZ_scale_r CS Rg). apply sumZ_ext; intros v Hv.
      rewrite (dft2_defining_sum CS Rg CS_kernel) by assumption.
      rewrite (norm2_mul CS Rg CS_conj). cbn [unitary_scale]. now rewrite Hs. }
  change Cmult with (@kmul CS). rewrite (sumZ_scale_r CS Rg). cbn [kmul CS].
  rewrite parseval_raw by assumption.
  assert (0 < IZR Pr)%R by (apply IZR_lt; lia). assert (0 < IZR Pc)%R by (apply IZR_lt; lia).
  rewrite RtoC_inv by (apply Rmult_integral_contrapositive_currified; lra).
  set (T := @sumZ CS (nr f) _). clearbody T. cbn in T |- *.
  assert (E : RtoC (IZR Pr * IZR Pc) <> RtoC 0).
  { intro E. apply RtoC_inj in E. apply Rmult_integral in E. lra. }
  transitivity (Cmult (Cmult (RtoC (IZR Pr * IZR Pc)) (Cinv (RtoC (IZR Pr * IZR Pc)))) T); [ring|].
  rewrite Cinv_r by exact E. ring.
Qed.

(* ------------------------------------------------------------------------------------------ *)
(** * The inverse over one full period (alpha = 1/shape, equal shapes, zero shift and offset) *)

Lemma ramp_0 P X : ramp P X 0%Qc = RtoC 1.
Proof. unfold ramp. replace (- (/ zq P * zq X * 0))%Qc with 0%Qc by ring. apply (ke_0 CS CS_kernel). Qed.

Lemma ke_full P a b : P <> 0 -> @ke CS (/ zq P * zq a * (zq b - 0))%Qc = @ke CS (qz (a * b) P).
Proof. intros HP. now rewrite phase_qz. Qed.

(* the defining sum over one full period as nested 1-D centred transforms, rows outermost ... *)
Lemma fourier_sum_rows (g : arr CS) u v : nr g <> 0 -> nc g <> 0 ->
  fourier_sum g (/ zq (nr g))%Qc (/ zq (nc g))%Qc 0 0 (zq (u - nr g / 2) - 0)%Qc (zq (v - nc g / 2) - 0)%Qc
  = dft1c (nr g) (nr g / 2) (nr g / 2) (fun x => dft1c (nc g) (nc g / 2) (nc g / 2) (fun y => get g x y) v) u.
Proof.
  intros Hm Hn. unfold fourier_sum, dft1c. pose proof CS_ring as Rg.
  apply sumZ_ext; intros x _. change Cmult with (@kmul CS). rewrite <- (sumZ_scale_r CS Rg).
  apply sumZ_ext; intros y _. rewrite (ke_add CS CS_kernel), !ke_full by assumption.
  rewrite !Z.add_0_r. cbn; ring.
Qed.
(* ... and columns outermost *)
Lemma fourier_sum_cols (g : arr CS) u v : nr g <> 0 -> nc g <> 0 ->
  fourier_sum g (/ zq (nr g))%Qc (/ zq (nc g))%Qc 0 0 (zq (u - nr g / 2) - 0)%Qc (zq (v - nc g / 2) - 0)%Qc
  = dft1c (nc g) (nc g / 2) (nc g / 2) (fun y => dft1c (nr g) (nr g / 2) (nr g / 2) (fun x => get g x y) u) v.
Proof.
  intros Hm Hn. unfold fourier_sum, dft1c. pose proof CS_ring as Rg.
  rewrite (sumZ_exchange CS Rg).
  apply sumZ_ext; intros y _. change Cmult with (@kmul CS). rewrite <- (sumZ_scale_r CS Rg).
  apply sumZ_ext; intros x _. rewrite (ke_add CS CS_kernel), !ke_full by assumption.
  rewrite !Z.add_0_r. cbn; ring.
Qed.

Lemma idft1c_ext n cx cu F G y : (forall u, 0 <= u < n -> F u = G u) -> idft1c n cx cu F y = idft1c n cx cu G y.
Proof. intros H. unfold idft1c. f_equal. apply sumZ_ext; intros u Hu. now rewrite H. Qed.
Lemma idft1c_scale n cx cu F (c : C) y : idft1c n cx cu (fun u => Cmult c (F u)) y = Cmult c (idft1c n cx cu F y).
Proof. unfold idft1c. pose proof CS_ring as Rg.
  rewrite (sumZ_ext CS n _ (fun u => Cmult c (Cmult (F u) (@ke CS (qz (- ((y - cx) * (u - cu))) n))))).
  - change Cmult with (@kmul CS). rewrite (sumZ_scale_l CS Rg). cbn; ring.
  - intros u _. cbn; ring. Qed.

(* conj . dft . conj  is  n times the inverse transform (same origin on both sides) *)
Lemma conj_dft1c_conj n c F y : 0 < n ->
  Cconj (dft1c n c c (fun u => Cconj (F u)) y) = Cmult (RtoC (IZR n)) (idft1c n c c F y).
Proof.
  intros Hn. unfold dft1c, idft1c. pose proof CS_ring as Rg.
  change Cconj with (@kconj CS). rewrite (kconj_sumZ CS CS_conj).
  transitivity (@sumZ CS n (fun u => Cmult (F u) (@ke CS (qz (- ((y - c) * (u - c))) n)))).
  - apply (sumZ_ext CS); intros u _. change Cmult with (@kmul CS).
    rewrite (kconj_mul CS CS_conj), (kconj_inv CS CS_conj), (kconj_e CS CS_conj), <- qz_opp by lia.
    do 3 f_equal. ring.
  - set (T := @sumZ CS n _). clearbody T. cbn in T |- *.
    assert (E : RtoC (IZR n) <> RtoC 0). { intro E. apply RtoC_inj in E. apply eq_IZR in E. lia. }
    rewrite RtoC_inv by (apply not_0_IZR; lia).
    transitivity (Cmult (Cmult (RtoC (IZR n)) (Cinv (RtoC (IZR n)))) T); [|ring].
    rewrite Cinv_r by exact E. ring.
Qed.

Lemma dft1c_ext n cx cu f g u : (forall x, 0 <= x < n -> f x = g x) -> dft1c n cx cu f u = dft1c n cx cu g u.
Proof. intros H. unfold dft1c. apply (sumZ_ext CS); intros x Hx. now rewrite H. Qed.
Lemma dft1c_conj_inv n c G y : 0 < n ->
  dft1c n c c (fun u => Cconj (G u)) y = Cconj (Cmult (RtoC (IZR n)) (idft1c n c c G y)).
Proof. intros Hn. rewrite <- conj_dft1c_conj by assumption. symmetry. apply (kconj_inv CS CS_conj). Qed.

Lemma Q2R_inv_zq_mul m n : 0 < m -> 0 < n -> RtoC (Q2R (/ zq (m * n))%Qc) = Cinv (RtoC (IZR m * IZR n)).
Proof. intros Hm Hn. rewrite zq_Z2Qc, Q2R_Qc_inv, Q2R_Z2Qc, mult_IZR by (apply Z2Qc_neq0; nia).
  apply RtoC_inv. assert (0 < IZR m)%R by (apply IZR_lt; lia). assert (0 < IZR n)%R by (apply IZR_lt; lia).
  apply Rmult_integral_contrapositive_currified; lra. Qed.

(* T01c / T01d *)
Theorem idft2_dft2_id (sq : Qc -> C) (f : arr CS) (unitary : bool) x y :
  sq_spec sq -> 0 < nr f -> 0 < nc f -> 0 <= x < nr f -> 0 <= y < nc f ->
  get (idft2 (S:=CS) sq
         (dft2 (S:=CS) sq f (/ zq (nr f))%Qc (/ zq (nc f))%Qc (nr f) (nc f) 0%Qc 0%Qc 0 0 unitary)
         (/ zq (nr f))%Qc (/ zq (nc f))%Qc (nr f) (nc f) 0%Qc 0%Qc unitary) x y
  = get f x y.
Proof.
  intros Hsq Hm Hn Hx Hy. pose proof CS_ring as Rg.
  set (m := nr f) in *. set (n := nc f) in *.
  set (F := dft2 (S:=CS) sq f (/ zq m)%Qc (/ zq n)%Qc m n 0%Qc 0%Qc 0 0 unitary).
  set (s := unitary_scale (S:=CS) sq unitary (/ zq m)%Qc (/ zq n)%Qc).
  assert (HFr : nr F = m) by apply (dft2_shape CS sq).
  assert (HFc : nc F = n) by apply (dft2_shape CS sq).
  (* the forward values: column-outermost nested transforms *)
  assert (HF : forall u v, 0 <= u < m -> 0 <= v < n ->
     get F u v = Cmult s (dft1c n (n / 2) (n / 2) (fun y' => dft1c m (m / 2) (m / 2) (fun x' => get f x' y') u) v)).
  { intros u v Hu Hv. unfold F. rewrite (dft2_defining_sum CS Rg CS_kernel) by assumption.
    unfold m, n. rewrite fourier_sum_cols by lia. unfold s, m, n. apply Cmult_comm. }
  (* the conjugate transform of the conjugate *)
  assert (HG : get (dft2 (S:=CS) sq (amap kconj F) (/ zq m)%Qc (/ zq n)%Qc m n 0%Qc 0%Qc 0 0 unitary) x y
               = Cmult (Cconj (Cmult (RtoC (IZR m)) (Cmult (Cmult (RtoC (IZR n)) s) (get f x y)))) s).
  { rewrite (dft2_defining_sum CS Rg CS_kernel) by assumption. fold s.
    change Cmult with (@kmul CS). f_equal.
    pose proof (fourier_sum_rows (amap kconj F) x y) as E. cbn [amap nr nc get] in E.
    rewrite HFr, HFc in E. rewrite E by lia. clear E.
    rewrite (dft1c_ext m _ _ _ (fun u => Cconj (Cmult (Cmult (RtoC (IZR n)) s)
                 (dft1c m (m / 2) (m / 2) (fun x' => get f x' y) u)))).
    - rewrite dft1c_conj_inv by assumption. change Cconj with (@kconj CS). f_equal.
      rewrite idft1c_scale. unfold m. rewrite idft1c_dft1c by assumption. reflexivity.
    - intros u Hu. change (@kconj CS) with Cconj. rewrite dft1c_conj_inv by assumption. f_equal.
      rewrite (idft1c_ext n _ _ _ (fun v => Cmult s (dft1c n (n / 2) (n / 2)
                 (fun y' => dft1c m (m / 2) (m / 2) (fun x' => get f x' y') u) v))) by (intros v Hv; now apply HF).
      rewrite idft1c_scale. unfold n at 1 2 3. rewrite idft1c_dft1c by assumption. apply Cmult_assoc. }
  destruct (unitary_scale_norm2 sq m n Hsq Hm Hn) as [Hs1 Hs2].
  assert (Emn : RtoC (IZR m * IZR n) <> RtoC 0).
  { intro E. apply RtoC_inj in E. apply Rmult_integral in E.
    destruct E as [E|E]; apply eq_IZR in E; lia. }
  assert (Hres : Cconj (Cmult (Cconj (Cmult (RtoC (IZR m)) (Cmult (Cmult (RtoC (IZR n)) s) (get f x y)))) s)
                = Cmult (Cmult (RtoC (IZR m * IZR n)) (Cmult s (Cconj s))) (get f x y)).
  { change Cconj with (@kconj CS). change Cmult with (@kmul CS).
    rewrite (kconj_mul CS CS_conj), (kconj_inv CS CS_conj), RtoC_mult. cbn; ring. }
  unfold idft2. fold F. rewrite HFr, HFc.
  destruct unitary; cbn [amap get]; rewrite HG; change (@kconj CS) with Cconj; change (@kmul CS) with Cmult;
    rewrite Hres; clear Hres HG HF.
  - unfold s. cbn [unitary_scale]. unfold norm2 in Hs1. cbn [kmul kconj CS] in Hs1. rewrite Hs1.
    rewrite RtoC_inv by (intro E; apply Emn; now rewrite E).
    rewrite Cinv_r by exact Emn. cbn; ring.
  - unfold s. cbn [unitary_scale k1 CS kofq]. rewrite Q2R_inv_zq_mul by assumption.
    replace (Cmult (RtoC 1) (Cconj (RtoC 1))) with (RtoC 1) by (unfold Cmult, Cconj, RtoC; cbn; f_equal; ring).
    transitivity (Cmult (Cmult (RtoC (IZR m * IZR n)) (Cinv (RtoC (IZR m * IZR n)))) (get f x y)); [cbn; ring|].
    rewrite Cinv_r by exact Emn. cbn; ring.
Qed.

(* the inverse transform conserves energy under the unitary flag just as the forward transform does *)
Theorem parseval_period_inv (sq : Qc -> C) (F : arr CS) Pr Pc shr shc :
  sq_spec sq -> 0 < Pr -> 0 < Pc -> nr F <= Pr -> nc F <= Pc ->
  @sumZ CS Pr (fun x => @sumZ CS Pc (fun y => @norm2 CS
     (get (idft2 (S:=CS) sq F (/ zq Pr)%Qc (/ zq Pc)%Qc Pr Pc shr shc true) x y)))
  = @sumZ CS (nr F) (fun u => @sumZ CS (nc F) (fun v => @norm2 CS (get F u v))).
Proof.
  intros Hsq HPr HPc Hm Hn. unfold idft2. cbn [amap get].
  rewrite (sumZ_ext CS Pr _ (fun x => @sumZ CS Pc (fun y => @norm2 CS
     (get (dft2 (S:=CS) sq (amap kconj F) (/ zq Pr)%Qc (/ zq Pc)%Qc Pr Pc shr shc 0 0 true) x y)))).
  2:{ intros x _. apply (sumZ_ext CS); intros y _. apply (norm2_conj CS CS_ring CS_conj). }
  rewrite parseval_period by assumption. cbn [amap nr nc get].
  apply (sumZ_ext CS); intros u _. apply (sumZ_ext CS); intros v _. apply (norm2_conj CS CS_ring CS_conj).
Qed.
