(* Trigonometric lifting of the lattice separation to the samples, over the reals: with the real
   sqrt 3, the real normals and seg_gap > 0, two different segments of hex_segments never both
   contain a sample (non-antialiased masks). *)
From Coq Require Import Reals Lra.
From LV Require Import Lib.Cis Model.Shapes Proofs.ShapesP Proofs.ShapesR Proofs.HexLatticeP.
#[local] Open Scope R_scope.

Lemma RS_khalf : @khalf RS = 1 / 2. Proof. unfold khalf. cbn. unfold Q2R. cbn. lra. Qed.
Lemma RS_k32 : @k32 RS = 3 / 2. Proof. unfold k32. cbn. unfold Q2R. cbn. lra. Qed.

(* explicit values of the first three normals of each orientation *)
Lemma normal_f0 : hex_normal false 0 = (1 / 2, sqrt 3 / 2).
Proof. unfold hex_normal, theta. replace (INR 0 * PI / 3 + PI / 6) with (PI / 6) by (simpl; lra).
  now rewrite sin_PI6, cos_PI6. Qed.
Lemma normal_f1 : hex_normal false 1 = (1, 0).
Proof. unfold hex_normal, theta. replace (INR 1 * PI / 3 + PI / 6) with (PI / 2) by (simpl; lra).
  now rewrite sin_PI2, cos_PI2. Qed.
Lemma normal_f2 : hex_normal false 2 = (1 / 2, - (sqrt 3 / 2)).
Proof. unfold hex_normal, theta. replace (INR 2 * PI / 3 + PI / 6) with (PI - PI / 6) by (simpl; lra).
  now rewrite sin_PI_x, Rtrigo_facts.cos_pi_minus, sin_PI6, cos_PI6. Qed.
Lemma normal_t0 : hex_normal true 0 = (0, 1).
Proof. unfold hex_normal, theta. replace (INR 0 * PI / 3) with 0 by (simpl; lra). now rewrite sin_0, cos_0. Qed.
Lemma normal_t1 : hex_normal true 1 = (sqrt 3 / 2, 1 / 2).
Proof. unfold hex_normal, theta. replace (INR 1 * PI / 3) with (PI / 3) by (simpl; lra). now rewrite sin_PI3, cos_PI3. Qed.
Lemma normal_t2 : hex_normal true 2 = (sqrt 3 / 2, -1 / 2).
Proof. unfold hex_normal, theta. replace (INR 2 * PI / 3) with (2 * (PI / 3)) by (simpl; lra). now rewrite sin_2PI3, cos_2PI3. Qed.

Lemma normal_in rotate k : (k < 6)%nat -> In (hex_normal rotate k) (hex_normals_R rotate).
Proof. intros H. unfold hex_normals_R. apply in_map, in_seq. lia. Qed.

(* the lattice quantity measured by normal k *)
Definition axis_form (rotate : bool) (k : nat) (dq dr : Z) : Z :=
  (if rotate then
    match k with
    | 0%nat => 2 * dq + dr | 1%nat => dq - dr | 2%nat => - (dq + 2 * dr)
    | 3%nat => - (2 * dq + dr) | 4%nat => - (dq - dr) | _ => dq + 2 * dr
    end
  else
    match k with
    | 0%nat => dq - dr | 1%nat => - (dq + 2 * dr) | 2%nat => - (2 * dq + dr)
    | 3%nat => - (dq - dr) | 4%nat => dq + 2 * dr | _ => 2 * dq + dr
    end)%Z.

Lemma axis_exists rotate dq dr :
  (2 <= Z.abs (2 * dq + dr) \/ 2 <= Z.abs (dq + 2 * dr) \/ 2 <= Z.abs (dr - dq))%Z ->
  exists k, (k < 6)%nat /\ (2 <= axis_form rotate k dq dr)%Z.
Proof.
  intros H. destruct rotate.
  - destruct (Z_le_gt_dec 2 (2 * dq + dr)); [exists 0%nat; unfold axis_form; split; lia|].
    destruct (Z_le_gt_dec 2 (dq - dr)); [exists 1%nat; unfold axis_form; split; lia|].
    destruct (Z_le_gt_dec 2 (- (dq + 2 * dr))); [exists 2%nat; unfold axis_form; split; lia|].
    destruct (Z_le_gt_dec 2 (- (2 * dq + dr))); [exists 3%nat; unfold axis_form; split; lia|].
    destruct (Z_le_gt_dec 2 (- (dq - dr))); [exists 4%nat; unfold axis_form; split; lia|].
    exists 5%nat; unfold axis_form; split; lia.
  - destruct (Z_le_gt_dec 2 (dq - dr)); [exists 0%nat; unfold axis_form; split; lia|].
    destruct (Z_le_gt_dec 2 (- (dq + 2 * dr))); [exists 1%nat; unfold axis_form; split; lia|].
    destruct (Z_le_gt_dec 2 (- (2 * dq + dr))); [exists 2%nat; unfold axis_form; split; lia|].
    destruct (Z_le_gt_dec 2 (- (dq - dr))); [exists 3%nat; unfold axis_form; split; lia|].
    destruct (Z_le_gt_dec 2 (dq + 2 * dr)); [exists 4%nat; unfold axis_form; split; lia|].
    exists 5%nat; unfold axis_form; split; lia.
Qed.

(* centre of a lattice point in (row, col), as hex_to_rc computes it *)
Definition centre (rad : R) (rotate : bool) (h : hex) : R * R := @hex_to_rc RS h rad (sqrt 3) rotate.

Lemma centre_val rad rotate h :
  centre rad rotate h =
    if rotate then (- (rad * (3 / 2 * IZR (hr h))), rad * (sqrt 3 * IZR (hq h) + sqrt 3 * (1 / 2) * IZR (hr h)))
    else (- (rad * (sqrt 3 * (1 / 2) * IZR (hq h) + sqrt 3 * IZR (hr h))), rad * (3 / 2 * IZR (hq h))).
Proof.
  destruct h as [[q r] s]. unfold centre, hex_to_rc, hq, hr. cbn [fst snd].
  rewrite !RS_kofz, RS_khalf, RS_k32. destruct rotate; reflexivity.
Qed.

(* projection of the difference of two centres on normal k = rad * sqrt 3 / 2 * (lattice form) *)
Lemma proj_val rad rotate a b k : (k < 6)%nat ->
  let p := hex_normal rotate k in
  (fst (centre rad rotate b) - fst (centre rad rotate a)) * fst p +
  (snd (centre rad rotate b) - snd (centre rad rotate a)) * snd p =
  rad * (sqrt 3 / 2) * IZR (axis_form rotate k (hq b - hq a) (hr b - hr a)).
Proof.
  intros Hk. cbv zeta. rewrite !centre_val.
  assert (E3 : hex_normal rotate 3 = nneg RS (hex_normal rotate 0)) by apply (hex_normal_plus3 rotate 0).
  assert (E4 : hex_normal rotate 4 = nneg RS (hex_normal rotate 1)) by apply (hex_normal_plus3 rotate 1).
  assert (E5 : hex_normal rotate 5 = nneg RS (hex_normal rotate 2)) by apply (hex_normal_plus3 rotate 2).
  set (s := sqrt 3) in *.
  destruct rotate; cbn [fst snd];
  (destruct k as [|[|[|[|[|[|k]]]]]]; [| | | | | |lia]);
  rewrite ?E3, ?E4, ?E5, ?normal_f0, ?normal_f1, ?normal_f2, ?normal_t0, ?normal_t1, ?normal_t2;
  unfold nneg, axis_form; cbn [fst snd kopp RS]; fold s;
  rewrite ?opp_IZR, ?plus_IZR, ?minus_IZR, ?mult_IZR, ?minus_IZR; field.
Qed.

Lemma numbered_ids l p : In p (numbered l) -> (1 <= fst p)%Z.
Proof.
  destruct p as [x y]. unfold numbered. intros H. apply in_combine_l in H. apply in_map_iff in H.
  destruct H as (k & <- & Hk). apply in_seq in Hk. cbn [fst]. lia.
Qed.

Lemma seg_centre rad rotate rings p : In p (hex_numbered rings) ->
  snd (@seg_shift RS rad (sqrt 3) rotate p) = centre rad rotate (snd p).
Proof.
  unfold hex_numbered. intros [<-|H].
  - unfold seg_shift. cbn [fst snd Z.eqb]. rewrite centre_val. unfold hq, hr. cbn [fst snd k0 RS].
    destruct rotate; f_equal; lra.
  - apply numbered_ids in H. unfold seg_shift. cbn [snd]. replace (fst p =? 0)%Z with false by lia. reflexivity.
Qed.

(* non-overlap of the segments of hex_segments for seg_gap > 0 (real model, non-antialiased masks) *)
Theorem hex_segments_disjoint_R rings radius gap rotate drop n m a b i j :
  0 <= radius -> 0 < gap ->
  In a (@hex_shifts RS rings radius gap (sqrt 3) rotate drop) ->
  In b (@hex_shifts RS rings radius gap (sqrt 3) rotate drop) -> a <> b ->
  ~ (@hex_val RS Rleb n m radius (sqrt 3) (fst (snd a)) (snd (snd a)) (hex_normals_R rotate) false i j = 1 /\
     @hex_val RS Rleb n m radius (sqrt 3) (fst (snd b)) (snd (snd b)) (hex_normals_R rotate) false i j = 1).
Proof.
  intros Hrad Hgap Ha Hb Hne. unfold hex_shifts in Ha, Hb.
  apply in_map_iff in Ha, Hb. destruct Ha as (pa & <- & Ha), Hb as (pb & <- & Hb).
  assert (Hp : pa <> pb) by (intros ->; apply Hne; reflexivity).
  pose proof (hex_kept_pairwise_separated rings drop pa pb Ha Hb Hp) as Sep. cbv zeta in Sep. destruct Sep as [_ Sep].
  destruct (axis_exists rotate _ _ Sep) as (k & Hk & HK).
  assert (Na : In pa (hex_numbered rings)) by (unfold hex_kept in Ha; apply filter_In in Ha; tauto).
  assert (Nb : In pb (hex_numbered rings)) by (unfold hex_kept in Hb; apply filter_In in Hb; tauto).
  set (rad := (@kadd RS radius (@kmul RS gap (@khalf RS)))) in *.
  apply (hex_masks_disjoint RS Rleb sqrt RS_ring RS_ord RS_zinj n m radius (sqrt 3) (hex_normals_R rotate)
           _ _ _ _ (hex_normal rotate k)).
  - cbn. lra.
  - apply normal_in. assumption.
  - apply hex_normals_opposite, normal_in. assumption.
  - unfold gtb. apply Bool.negb_true_iff. apply Bool.not_true_is_false. intros L. apply Rleb_iff in L.
    rewrite !(seg_centre rad rotate rings) in L by assumption.
    change (@kadd RS) with Rplus in L. change (@kmul RS) with Rmult in L. change (@ksub RS) with Rminus in L.
    rewrite RS_khalf in L.
    pose proof (proj_val rad rotate (snd pa) (snd pb) k Hk) as PV. cbv zeta in PV.
    assert (L' : rad * (sqrt 3 / 2) * IZR (axis_form rotate k (hq (snd pb) - hq (snd pa)) (hr (snd pb) - hr (snd pa)))
                 <= radius * sqrt 3 * (1 / 2) + radius * sqrt 3 * (1 / 2)) by (rewrite <- PV; exact L).
    clear L PV.
    apply IZR_le in HK.
    assert (Hs : 0 < sqrt 3) by (apply sqrt_lt_R0; lra).
    assert (Er : rad = radius + gap * (1 / 2)) by (unfold rad; rewrite RS_khalf; reflexivity).
    set (K := IZR (axis_form rotate k (hq (snd pb) - hq (snd pa)) (hr (snd pb) - hr (snd pa)))) in *.
    clearbody K rad. subst rad. set (s := sqrt 3) in *. clearbody s.
    assert (H1 : 0 < gap * s) by (apply Rmult_lt_0_compat; assumption).
    assert (H2 : 0 <= radius * s) by (apply Rmult_le_pos; lra).
    assert (H3 : (radius + gap * (1 / 2)) * (s / 2) * 2 <= (radius + gap * (1 / 2)) * (s / 2) * K).
    { apply Rmult_le_compat_l; [|assumption]. apply Rmult_le_pos; lra. }
    lra.
Qed.

(* ---- seg_gap = 0: neighbouring masks share their common edge (the recorded design fact) ---- *)
Lemma hex_fold_all_inside inner r c ns :
  (forall p, In p ns -> r * fst p + c * snd p <= inner) -> @hex_fold RS Rleb inner false r c ns = 1.
Proof.
  intros H. unfold hex_fold.
  assert (G : forall l acc, acc = 1 -> (forall p, In p l -> r * fst p + c * snd p <= inner) ->
              fold_left (fun acc nrm => @kmin RS Rleb acc (@hex_slc RS Rleb inner false r c nrm)) l acc = 1).
  { induction l as [|p l IH]; intros acc Ha Hl; cbn [fold_left]; [assumption|].
    apply IH; [|intros q Hq; apply Hl; right; assumption].
    subst acc. unfold hex_slc, gtb, kmin. cbv zeta.
    match goal with |- context[negb (Rleb ?x inner)] =>
      assert (E : Rleb x inner = true) by (apply Rleb_iff; apply (Hl p); left; reflexivity); rewrite E end.
    cbn [negb].
    destruct (Rleb 1 (@k1 RS)); reflexivity. }
  apply G; [reflexivity | assumption].
Qed.

Theorem hex_gap0_shared_edge_R n m :
  exists a b,
    In a (@hex_shifts RS 1 2 0 (sqrt 3) false [0%Z]) /\ In b (@hex_shifts RS 1 2 0 (sqrt 3) false [0%Z]) /\
    fst a <> fst b /\
    @hex_val RS Rleb n m 2 (sqrt 3) (fst (snd a)) (snd (snd a)) (hex_normals_R false) false (n / 2) (m / 2 + 3) = 1 /\
    @hex_val RS Rleb n m 2 (sqrt 3) (fst (snd b)) (snd (snd b)) (hex_normals_R false) false (n / 2) (m / 2 + 3) = 1.
Proof.
  set (rad := @kadd RS 2 (@kmul RS 0 (@khalf RS))).
  exists (@seg_shift RS rad (sqrt 3) false (3%Z, (1, 0, -1)%Z)), (@seg_shift RS rad (sqrt 3) false (4%Z, (1, -1, 0)%Z)).
  assert (Er : rad = 2) by (unfold rad; rewrite RS_khalf; cbn; lra).
  assert (Hs : 0 < sqrt 3) by (apply sqrt_lt_R0; lra).
  split; [unfold hex_shifts; apply in_map; vm_compute; auto 10|].
  split; [unfold hex_shifts; apply in_map; vm_compute; auto 10|].
  split; [cbn; lia|].
  unfold seg_shift. cbn [fst snd Z.eqb]. unfold hex_to_rc. rewrite !RS_kofz, RS_khalf, RS_k32, Er.
  unfold hex_val, rot_r, rot_c, mesh1. rewrite !RS_kofz, RS_khalf. cbn [fst snd].
  change (@kadd RS) with Rplus. change (@kmul RS) with Rmult. change (@ksub RS) with Rminus.
  change (@kopp RS) with Ropp. change (@k0 RS) with 0. change (@k1 RS) with 1.
  rewrite plus_IZR.
  split; apply hex_fold_all_inside; intros p Hp; unfold hex_normals_R in Hp; apply in_map_iff in Hp;
    destruct Hp as (k & <- & _); unfold hex_normal; cbn [fst snd];
    pose proof (SIN_bound (theta false k)) as [B1 B2];
    set (sn := sin (theta false k)) in *; set (cs := cos (theta false k)) in *; set (s := sqrt 3) in *;
    clearbody sn cs s; nra.
Qed.

(* ---- the real normals are also closed under both mirrors, so the real hexagon is mirror symmetric ---- *)
Lemma hex_normals_explicit rotate :
  hex_normals_R rotate =
    if rotate then [(0, 1); (sqrt 3 / 2, 1 / 2); (sqrt 3 / 2, -1 / 2);
                    (- 0, - 1); (- (sqrt 3 / 2), - (1 / 2)); (- (sqrt 3 / 2), - (-1 / 2))]
    else [(1 / 2, sqrt 3 / 2); (1, 0); (1 / 2, - (sqrt 3 / 2));
          (- (1 / 2), - (sqrt 3 / 2)); (- 1, - 0); (- (1 / 2), - - (sqrt 3 / 2))].
Proof.
  unfold hex_normals_R. cbn [seq map].
  assert (E3 : hex_normal rotate 3 = nneg RS (hex_normal rotate 0)) by apply (hex_normal_plus3 rotate 0).
  assert (E4 : hex_normal rotate 4 = nneg RS (hex_normal rotate 1)) by apply (hex_normal_plus3 rotate 1).
  assert (E5 : hex_normal rotate 5 = nneg RS (hex_normal rotate 2)) by apply (hex_normal_plus3 rotate 2).
  rewrite E3, E4, E5. destruct rotate.
  - rewrite normal_t0, normal_t1, normal_t2. reflexivity.
  - rewrite normal_f0, normal_f1, normal_f2. reflexivity.
Qed.

Ltac pick_normal := first [left; apply f_equal2; lra | right; pick_normal].

Theorem hex_normals_mirror rotate p : In p (hex_normals_R rotate) ->
  In (nmir_r RS p) (hex_normals_R rotate) /\ In (nmir_c RS p) (hex_normals_R rotate).
Proof.
  rewrite hex_normals_explicit. set (s := sqrt 3). clearbody s.
  destruct rotate; cbn [In]; intros [<-|[<-|[<-|[<-|[<-|[<-|[]]]]]]];
    unfold nmir_r, nmir_c; cbn [fst snd kopp RS]; split; pick_normal.
Qed.

Theorem hexagon_mirror_R n m radius rotate aa i j :
  @hex_val RS Rleb n m radius (sqrt 3) 0 0 (hex_normals_R rotate) aa (2 * (n / 2) - i) j =
  @hex_val RS Rleb n m radius (sqrt 3) 0 0 (hex_normals_R rotate) aa i j /\
  @hex_val RS Rleb n m radius (sqrt 3) 0 0 (hex_normals_R rotate) aa i (2 * (m / 2) - j) =
  @hex_val RS Rleb n m radius (sqrt 3) 0 0 (hex_normals_R rotate) aa i j.
Proof.
  pose proof (hex_mirror RS Rleb sqrt RS_ring RS_ord RS_zinj n m radius (sqrt 3) (hex_normals_R rotate) aa i j) as [A B].
  split; [apply A | apply B]; intros p Hp; apply hex_normals_mirror; assumption.
Qed.
