(* The two concrete ordered scalars used with Proofs/ShapesP.v: the reals (the theorems about the
   actual sqrt / sin / cos) and the rationals (the executed instance), and the trigonometric facts
   about the six hexagon normals. *)
From Coq Require Import Reals Lra.
From LV Require Import Lib.Cis Model.Shapes Proofs.ShapesP.

(* ---- rationals ---- *)
Lemma qle_iff (a b : Qc) : qle a b = true <-> (a <= b)%Qc.
Proof. unfold qle, Qcle. apply Qle_bool_iff. Qed.

Lemma QS_ord : ord_laws QS qle.
Proof.
  split.
  - intros a. apply qle_iff, Qcle_refl.
  - intros a b c H1 H2. apply qle_iff in H1, H2. apply qle_iff. eapply Qcle_trans; eassumption.
  - intros a b H1 H2. apply qle_iff in H1, H2. apply Qcle_antisym; assumption.
  - intros a b. destruct (Qclt_le_dec a b) as [H|H].
    + left. apply qle_iff, Qclt_le_weak, H.
    + right. apply qle_iff, H.
  - intros a b c H. apply qle_iff in H. apply qle_iff. cbn [kadd QS].
    apply Qcplus_le_compat; [assumption | apply Qcle_refl].
  - apply qle_iff. cbn. discriminate.
Qed.

Lemma QS_zinj : zinj_laws QS.
Proof.
  split.
  - intros a b. unfold kofz. cbn [kofq kadd QS]. apply Qc_is_canon. unfold Qcplus, Q2Qc. cbn [this].
    rewrite !Qred_correct. rewrite inject_Z_plus. reflexivity.
  - intros a. unfold kofz. cbn [kofq kopp QS]. apply Qc_is_canon. unfold Qcopp, Q2Qc. cbn [this].
    rewrite !Qred_correct. rewrite inject_Z_opp. reflexivity.
Qed.

(* ---- reals ---- *)
Definition Rleb (a b : R) : bool := if Rle_dec a b then true else false.
Lemma Rleb_iff a b : Rleb a b = true <-> (a <= b)%R.
Proof. unfold Rleb. destruct (Rle_dec a b); split; intros; try assumption; try reflexivity; try discriminate; contradiction. Qed.

Lemma RS_ord : ord_laws RS Rleb.
Proof.
  split.
  - intros a. apply Rleb_iff. cbn. lra.
  - intros a b c H1 H2. apply Rleb_iff in H1, H2. apply Rleb_iff. lra.
  - intros a b H1 H2. apply Rleb_iff in H1, H2. cbn in *. lra.
  - intros a b. destruct (Rle_dec a b); [left | right]; apply Rleb_iff; cbn in *; lra.
  - intros a b c H. apply Rleb_iff in H. apply Rleb_iff. cbn in *. lra.
  - apply Rleb_iff. cbn. lra.
Qed.

Lemma RS_kofz z : @kofz RS z = IZR z.
Proof. unfold kofz. cbn [kofq RS]. apply Q2R_Z2Qc. Qed.

Lemma RS_zinj : zinj_laws RS.
Proof.
  split.
  - intros a b. rewrite !RS_kofz. cbn [kadd RS]. apply plus_IZR.
  - intros a. rewrite !RS_kofz. cbn [kopp RS]. apply opp_IZR.
Qed.

(* ---- the six normals of lentil.hexagon: theta_k = k*pi/3 (+ pi/6 when not rotated) ---- *)
Definition theta (rotate : bool) (k : nat) : R :=
  if rotate then (INR k * PI / 3)%R else (INR k * PI / 3 + PI / 6)%R.
Definition hex_normal (rotate : bool) (k : nat) : R * R := (sin (theta rotate k), cos (theta rotate k)).
Definition hex_normals_R (rotate : bool) : list (R * R) := map (hex_normal rotate) (seq 0 6).

Lemma theta_plus3 rotate k : theta rotate (k + 3) = (theta rotate k + PI)%R.
Proof. unfold theta. rewrite plus_INR. simpl INR. destruct rotate; field. Qed.

Lemma hex_normal_plus3 rotate k : hex_normal rotate (k + 3) = nneg RS (hex_normal rotate k).
Proof. unfold hex_normal, nneg. cbn [fst snd kopp RS]. rewrite theta_plus3, neg_sin, neg_cos. reflexivity. Qed.

Lemma nneg_invol (p : R * R) : nneg RS (nneg RS p) = p.
Proof. destruct p as [a b]. unfold nneg. cbn [fst snd kopp RS]. f_equal; lra. Qed.

(* the normals come in opposite pairs *)
Theorem hex_normals_opposite rotate p : In p (hex_normals_R rotate) -> In (nneg RS p) (hex_normals_R rotate).
Proof.
  unfold hex_normals_R. cbn [seq map In].
  assert (E3 : hex_normal rotate 3 = nneg RS (hex_normal rotate 0)) by apply (hex_normal_plus3 rotate 0).
  assert (E4 : hex_normal rotate 4 = nneg RS (hex_normal rotate 1)) by apply (hex_normal_plus3 rotate 1).
  assert (E5 : hex_normal rotate 5 = nneg RS (hex_normal rotate 2)) by apply (hex_normal_plus3 rotate 2).
  rewrite E3, E4, E5.
  intros [<-|[<-|[<-|[<-|[<-|[<-|[]]]]]]]; rewrite ?nneg_invol; auto 10.
Qed.

(* hexagon (real sqrt 3, real normals): invariant under the half-turn about the origin sample *)
Theorem hexagon_half_turn_R n m radius rotate aa i j :
  @hex_val RS Rleb n m radius (sqrt 3) 0%R 0%R (hex_normals_R rotate) aa (2 * (n / 2) - i) (2 * (m / 2) - j) =
  @hex_val RS Rleb n m radius (sqrt 3) 0%R 0%R (hex_normals_R rotate) aa i j.
Proof. apply (hex_half_turn RS Rleb sqrt RS_ring RS_ord RS_zinj). apply hex_normals_opposite. Qed.
