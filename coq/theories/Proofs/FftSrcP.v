(* WP-T2, C09: the integer shape checks of lentil/propagate.py:propagate_fft (the requested-shape test, the
   scratch-size test, the output shape), translated from the source text on every check (Gen/FftSrc.v) with the
   grid fft_shape as an integer argument, equal the model of Model/Fft.v for all integers.  (The placement of the
   field in the padded grid is lentil.pad: src_pad_bounds = Fft.pad_axis is proved in Properties/C06Src.v.) *)
From LV Require Import Model.Fft Gen.FftSrc Proofs.SrcTac.

Definition fft_out_shape_model (N : Z * Z) (shape : option (Z * Z)) (os : Z) (tilt : bool) (scr : option (Z * Z))
  : result ((Z * Z) * (Z * Z)) :=
  if tilt then Err NotImplementedErr else
  match out_shape (fst N) (snd N) shape os with
  | Err e => Err e
  | Ok so =>
      let sh := match shape with Some s => s | None => (fst N / os, snd N / os) end in
      match scr with
      | Some b => if negb ((fst N <=? fst b) && (snd N <=? snd b)) then Err ValueError else Ok (so, sh)
      | None => Ok (so, sh)
      end
  end.

Lemma src_fft_out_shape_ok : forall (shape : Z * Z) (os : Z) (tilt : bool) (N : Z * Z),
  src_fft_out_shape shape os tilt N = fft_out_shape_model N (Some shape) os tilt None.
Proof. intros; destr_prods; unfold src_fft_out_shape, fft_out_shape_model, out_shape; src_finish. Qed.

Lemma src_fft_out_shape_default_ok : forall (os : Z) (tilt : bool) (N : Z * Z),
  src_fft_out_shape_default os tilt N = fft_out_shape_model N None os tilt None.
Proof. intros; destr_prods; unfold src_fft_out_shape_default, fft_out_shape_model, out_shape; src_finish. Qed.

Lemma src_fft_out_shape_scratch_ok : forall (shape : Z * Z) (os : Z) (scr : Z * Z) (tilt : bool) (N : Z * Z),
  src_fft_out_shape_scratch shape os scr tilt N = fft_out_shape_model N (Some shape) os tilt (Some scr).
Proof. intros; destr_prods; unfold src_fft_out_shape_scratch, fft_out_shape_model, out_shape; src_finish. Qed.

(* /repo 1b12b57: the crop of the transformed grid (lentil.pad(field, shape_out)) before the Field is stored *)
Definition fft_crop_model (N : Z * Z) (shape : option (Z * Z)) (os : Z) (tilt : bool) (scr : option (Z * Z))
  : result (Z * Z) :=
  match fft_out_shape_model N shape os tilt scr with Err e => Err e | Ok p => Ok (fst p) end.

Lemma src_fft_crop_shape_ok : forall (shape : Z * Z) (os : Z) (tilt : bool) (N : Z * Z),
  src_fft_crop_shape shape os tilt N = fft_crop_model N (Some shape) os tilt None.
Proof. intros; destr_prods; unfold src_fft_crop_shape, fft_crop_model, fft_out_shape_model, out_shape; src_finish. Qed.

Lemma src_fft_crop_shape_default_ok : forall (os : Z) (tilt : bool) (N : Z * Z),
  src_fft_crop_shape_default os tilt N = fft_crop_model N None os tilt None.
Proof. intros; destr_prods; unfold src_fft_crop_shape_default, fft_crop_model, fft_out_shape_model, out_shape; src_finish. Qed.

Lemma src_fft_crop_shape_scratch_ok : forall (shape : Z * Z) (os : Z) (scr : Z * Z) (tilt : bool) (N : Z * Z),
  src_fft_crop_shape_scratch shape os scr tilt N = fft_crop_model N (Some shape) os tilt (Some scr).
Proof.
  intros; destr_prods; unfold src_fft_crop_shape_scratch, fft_crop_model, fft_out_shape_model, out_shape; src_finish.
Qed.

(* the statements of Properties/C09Src.v *)
Lemma src_fft_crop_shape_stmt : forall (shape : Z * Z) (os : Z) (tilt : bool) (N : Z * Z),
  src_fft_crop_shape shape os tilt N =
  if tilt then Err NotImplementedErr else out_shape (fst N) (snd N) (Some shape) os.
Proof.
  intros. rewrite src_fft_crop_shape_ok. unfold fft_crop_model, fft_out_shape_model.
  destruct tilt; [reflexivity|]. now destruct (out_shape _ _ _ _).
Qed.
Lemma src_fft_crop_shape_default_stmt : forall (os : Z) (tilt : bool) (N : Z * Z),
  src_fft_crop_shape_default os tilt N = if tilt then Err NotImplementedErr else Ok N.
Proof.
  intros. rewrite src_fft_crop_shape_default_ok. unfold fft_crop_model, fft_out_shape_model, out_shape.
  destruct tilt; [reflexivity|]. now destruct N.
Qed.
Lemma src_fft_crop_shape_scratch_stmt : forall (shape : Z * Z) (os : Z) (scr : Z * Z) (tilt : bool) (N : Z * Z),
  src_fft_crop_shape_scratch shape os scr tilt N =
  if tilt then Err NotImplementedErr else
  match out_shape (fst N) (snd N) (Some shape) os with
  | Err e => Err e
  | Ok so => if negb ((fst N <=? fst scr) && (snd N <=? snd scr)) then Err ValueError else Ok so
  end.
Proof.
  intros. rewrite src_fft_crop_shape_scratch_ok. unfold fft_crop_model, fft_out_shape_model.
  destruct tilt; [reflexivity|]. destruct (out_shape _ _ _ _); [|reflexivity].
  now destruct (negb _).
Qed.
