(* C11, analytic part (Coquelicot): integrals over the unit disk in separated form.
   - the azimuthal factors cos(m theta) / sin(m theta) are orthogonal over a full turn;
   - the model's rational power-rule integral [pinner] is the Riemann integral of R R' rho over [0,1];
   - composed: the normalised modes are orthonormal (bounded: j, j' <= 1326, i.e. n <= 50);
   - on the complex numbers the model's kernel expressions [kcos]/[ksin] are cos and sin. *)
From Coq Require Import Reals Lra QArith Qreals Qcanon.
From Coquelicot Require Import Coquelicot.
From LV Require Import Lib.Cis Model.Zernike Proofs.ZernikeP Proofs.ZernikeRadialP Proofs.ZernikeEntryP.
Local Open Scope R_scope.

(* ------------------------------------------------------------------------------------------ *)
(** * Integrals of cos(k t), sin(k t) over a full turn, k an integer *)

Lemma is_RInt_ext_R (f g : R -> R) a b (l : R) : (forall x, f x = g x) -> is_RInt f a b l -> is_RInt g a b l.
Proof. intros H. apply is_RInt_ext. intros x _. apply H. Qed.

Lemma is_RInt_val (f : R -> R) a b (l l' : R) : l = l' -> is_RInt f a b l -> is_RInt f a b l'.
Proof. intros <-. trivial. Qed.
Lemma is_RInt_cos_int (a : Z) : a <> 0%Z -> is_RInt (fun t => cos (IZR a * t)) 0 (2 * PI) 0.
Proof.
  intros Ha. assert (Ha' : IZR a <> 0) by (intro H; apply eq_IZR_R0 in H; contradiction).
  replace 0 with (sin (IZR a * (2 * PI)) / IZR a - sin (IZR a * 0) / IZR a) at 2.
  - apply (is_RInt_derive (fun t => sin (IZR a * t) / IZR a) (fun t => cos (IZR a * t))).
    + intros t _. auto_derive; [trivial|]. field. assumption.
    + intros t _. apply continuous_comp; [|apply continuity_pt_filterlim, continuity_cos].
      apply (continuous_scal_r (IZR a) (fun t : R => t)). apply continuous_id.
  - rewrite Rmult_0_r, sin_0. replace (IZR a * (2 * PI)) with (0 + 2 * IZR a * PI) by ring.
    rewrite sin_period_Z, sin_0. field. assumption.
Qed.
Lemma is_RInt_const_turn (v : R) : is_RInt (fun _ => v) 0 (2 * PI) (2 * PI * v).
Proof. replace (2 * PI * v) with (scal (2 * PI - 0) v) by (unfold scal; cbn; unfold mult; cbn; ring).
  apply (@is_RInt_const R_CompleteNormedModule). Qed.
Lemma is_RInt_sin_int (a : Z) : is_RInt (fun t => sin (IZR a * t)) 0 (2 * PI) 0.
Proof.
  destruct (Z.eq_dec a 0) as [->|Ha].
  - apply (is_RInt_ext_R (fun _ => 0)).
    + intros t. now rewrite Rmult_0_l, sin_0.
    + replace 0 with (2 * PI * 0) at 2 by ring. apply is_RInt_const_turn.
  - assert (Ha' : IZR a <> 0) by (intro H; apply eq_IZR_R0 in H; contradiction).
    replace 0 with (- cos (IZR a * (2 * PI)) / IZR a - - cos (IZR a * 0) / IZR a) at 2.
    + apply (is_RInt_derive (fun t => - cos (IZR a * t) / IZR a) (fun t => sin (IZR a * t))).
      * intros t _. auto_derive; [trivial|]. field. assumption.
      * intros t _. apply continuous_comp; [|apply continuity_pt_filterlim, continuity_sin].
        apply (continuous_scal_r (IZR a) (fun t : R => t)). apply continuous_id.
    + rewrite Rmult_0_r, cos_0. replace (IZR a * (2 * PI)) with (0 + 2 * IZR a * PI) by ring.
      rewrite cos_period_Z, cos_0. field. assumption.
Qed.
Lemma is_RInt_cos_gen (k : Z) :
  is_RInt (fun t => cos (IZR k * t)) 0 (2 * PI) (if (k =? 0)%Z then 2 * PI else 0).
Proof. destruct (Z.eqb_spec k 0) as [->|H].
  - apply (is_RInt_ext_R (fun _ => 1)); [intros t; now rewrite Rmult_0_l, cos_0|].
    replace (2 * PI) with (2 * PI * 1) at 2 by ring. apply is_RInt_const_turn.
  - apply is_RInt_cos_int. exact H. Qed.

Lemma is_RInt_lin2 (f g : R -> R) a b lf lg (c1 c2 : R) :
  is_RInt f a b lf -> is_RInt g a b lg -> is_RInt (fun x => c1 * f x + c2 * g x) a b (c1 * lf + c2 * lg).
Proof. intros Hf Hg.
  exact (is_RInt_plus _ _ _ _ _ _ (is_RInt_scal _ _ _ c1 _ Hf) (is_RInt_scal _ _ _ c2 _ Hg)). Qed.

(* the azimuthal factor of the code on the reals: cos(m theta) for m > 0, sin(m theta) with the
   negative m for m < 0, 1 for m = 0 *)
Definition Raz (m : Z) (theta : R) : R :=
  if (m =? 0)%Z then 1 else if (0 <? m)%Z then cos (IZR m * theta) else sin (IZR m * theta).

Theorem angular_orthogonality (m m' : Z) :
  is_RInt (fun theta => Raz m theta * Raz m' theta) 0 (2 * PI)
          (if (m =? m')%Z then (if (m =? 0)%Z then 2 * PI else PI) else 0).
Proof.
  unfold Raz.
  destruct (Z.eqb_spec m 0) as [->|Hm]; destruct (Z.eqb_spec m' 0) as [->|Hm'].
  - cbn. apply (is_RInt_ext_R (fun _ => 1)); [intros; ring|].
    replace (2 * PI) with (2 * PI * 1) at 2 by ring. apply is_RInt_const_turn.
  - replace (0 =? m')%Z with false by lia.
    destruct (0 <? m')%Z eqn:E.
    + apply (is_RInt_ext_R (fun t => cos (IZR m' * t))); [intros; ring|]. apply is_RInt_cos_int. exact Hm'.
    + apply (is_RInt_ext_R (fun t => sin (IZR m' * t))); [intros; ring|]. apply is_RInt_sin_int.
  - replace (m =? 0)%Z with false by lia.
    destruct (0 <? m)%Z eqn:E.
    + apply (is_RInt_ext_R (fun t => cos (IZR m * t))); [intros; ring|]. apply is_RInt_cos_int. exact Hm.
    + apply (is_RInt_ext_R (fun t => sin (IZR m * t))); [intros; ring|]. apply is_RInt_sin_int.
  - destruct (0 <? m)%Z eqn:E; destruct (0 <? m')%Z eqn:E'.
    + (* cos cos *)
      apply (is_RInt_ext_R (fun t => / 2 * cos (IZR (m - m') * t) + / 2 * cos (IZR (m + m') * t))).
      { intros t. rewrite minus_IZR, plus_IZR.
        replace ((IZR m - IZR m') * t) with (IZR m * t - IZR m' * t) by ring.
        replace ((IZR m + IZR m') * t) with (IZR m * t + IZR m' * t) by ring.
        rewrite cos_minus, cos_plus. field. }
      apply (is_RInt_val _ _ _ (/ 2 * (if (m - m' =? 0)%Z then 2 * PI else 0) + / 2 * (if (m + m' =? 0)%Z then 2 * PI else 0)));
        [|apply is_RInt_lin2; apply is_RInt_cos_gen].
      replace (m + m' =? 0)%Z with false by lia.
      destruct (Z.eqb_spec m m'); [replace (m - m' =? 0)%Z with true by lia|replace (m - m' =? 0)%Z with false by lia]; field.
    + (* cos sin *)
      replace (m =? m')%Z with false by lia.
      apply (is_RInt_ext_R (fun t => / 2 * sin (IZR (m + m') * t) + / 2 * sin (IZR (m' - m) * t))).
      { intros t. rewrite minus_IZR, plus_IZR.
        replace ((IZR m' - IZR m) * t) with (IZR m' * t - IZR m * t) by ring.
        replace ((IZR m + IZR m') * t) with (IZR m * t + IZR m' * t) by ring.
        rewrite sin_minus, sin_plus. field. }
      apply (is_RInt_val _ _ _ (/ 2 * 0 + / 2 * 0)); [ring|].
      apply is_RInt_lin2; apply is_RInt_sin_int.
    + (* sin cos *)
      replace (m =? m')%Z with false by lia.
      apply (is_RInt_ext_R (fun t => / 2 * sin (IZR (m + m') * t) + / 2 * sin (IZR (m - m') * t))).
      { intros t. rewrite minus_IZR, plus_IZR.
        replace ((IZR m - IZR m') * t) with (IZR m * t - IZR m' * t) by ring.
        replace ((IZR m + IZR m') * t) with (IZR m * t + IZR m' * t) by ring.
        rewrite sin_minus, sin_plus. field. }
      apply (is_RInt_val _ _ _ (/ 2 * 0 + / 2 * 0)); [ring|].
      apply is_RInt_lin2; apply is_RInt_sin_int.
    + (* sin sin *)
      apply (is_RInt_ext_R (fun t => / 2 * cos (IZR (m - m') * t) + (- / 2) * cos (IZR (m + m') * t))).
      { intros t. rewrite minus_IZR, plus_IZR.
        replace ((IZR m - IZR m') * t) with (IZR m * t - IZR m' * t) by ring.
        replace ((IZR m + IZR m') * t) with (IZR m * t + IZR m' * t) by ring.
        rewrite cos_minus, cos_plus. field. }
      apply (is_RInt_val _ _ _ (/ 2 * (if (m - m' =? 0)%Z then 2 * PI else 0) + (- / 2) * (if (m + m' =? 0)%Z then 2 * PI else 0)));
        [|apply is_RInt_lin2; apply is_RInt_cos_gen].
      replace (m + m' =? 0)%Z with false by lia.
      destruct (Z.eqb_spec m m'); [replace (m - m' =? 0)%Z with true by lia|replace (m - m' =? 0)%Z with false by lia]; field.
Qed.

(* ------------------------------------------------------------------------------------------ *)
(** * The rational power-rule integral is the Riemann integral *)

Lemma is_RInt_pow01 (k : nat) : is_RInt (fun x => x ^ k) 0 1 (/ INR (Datatypes.S k)).
Proof.
  assert (Hk : INR (Datatypes.S k) <> 0) by (apply not_0_INR; lia).
  apply (is_RInt_val _ _ _ (1 ^ Datatypes.S k / INR (Datatypes.S k) - 0 ^ Datatypes.S k / INR (Datatypes.S k))).
  { rewrite pow1, pow_i by lia. field. exact Hk. }
  apply (is_RInt_derive (fun x => x ^ Datatypes.S k / INR (Datatypes.S k)) (fun x => x ^ k)).
  - intros x _. auto_derive; [trivial|]. cbn [Nat.pred]. field. exact Hk.
  - intros x _. apply continuity_pt_filterlim. apply derivable_continuous_pt. apply derivable_pt_pow.
Qed.

(* a polynomial (power, rational coefficient) evaluated on the reals, as [peval] does on Qc *)
Definition Reval (p : list (Z * Qc)) (x : R) : R :=
  fold_left (fun acc (t : Z * Qc) => acc + Q2R (snd t) * x ^ Z.to_nat (fst t)) p 0.

Lemma Q2R_qpow x e : Q2R (qpow x e) = Q2R x ^ Z.to_nat e.
Proof. unfold qpow. induction (Z.to_nat e) as [|k IH]; cbn [Qcpower pow].
  - apply Q2R_Qc_1. - rewrite Q2R_Qc_mul, IH. reflexivity. Qed.
Lemma Q2R_peval p x : Q2R (peval p x) = Reval p (Q2R x).
Proof. unfold peval, Reval. rewrite <- Q2R_Qc_0. generalize 0%Qc as a.
  induction p as [|t p IH]; intros a; cbn [fold_left]; [reflexivity|].
  rewrite IH. f_equal. rewrite Q2R_Qc_add, Q2R_Qc_mul, Q2R_qpow. reflexivity. Qed.

(* the integrand R R' rho, expanded like [pinner] *)
Definition Rprod (p q : list (Z * Qc)) (x : R) : R :=
  fold_left (fun acc (t : Z * Qc) => fold_left (fun acc' (u : Z * Qc) =>
     acc' + Q2R (snd t) * Q2R (snd u) * x ^ (Z.to_nat (fst t) + Z.to_nat (fst u) + 1)) q acc) p 0.

Lemma Reval_acc p x : forall a,
  fold_left (fun acc (t : Z * Qc) => acc + Q2R (snd t) * x ^ Z.to_nat (fst t)) p a = a + Reval p x.
Proof. unfold Reval. induction p as [|t p IH]; intros a; cbn [fold_left]; [ring|].
  rewrite IH, (IH (0 + _)). ring. Qed.
Lemma Reval_cons t p x : Reval (t :: p) x = Q2R (snd t) * x ^ Z.to_nat (fst t) + Reval p x.
Proof. unfold Reval at 1. cbn [fold_left]. rewrite Reval_acc. ring. Qed.
Lemma Reval_nil x : Reval [] x = 0. Proof. reflexivity. Qed.
Lemma Rprod_is_product p q x : Rprod p q x = Reval p x * Reval q x * x.
Proof.
  unfold Rprod.
  assert (Hin : forall c k a, fold_left (fun acc' (u : Z * Qc) =>
     acc' + c * Q2R (snd u) * x ^ (k + Z.to_nat (fst u) + 1)) q a = a + c * x ^ k * Reval q x * x).
  { intros c k. induction q as [|u q IH]; intros a; cbn [fold_left].
    - rewrite Reval_nil. ring.
    - rewrite IH, Reval_cons, !pow_add. ring. }
  assert (Hout : forall a, fold_left (fun acc (t : Z * Qc) => fold_left (fun acc' (u : Z * Qc) =>
     acc' + Q2R (snd t) * Q2R (snd u) * x ^ (Z.to_nat (fst t) + Z.to_nat (fst u) + 1)) q acc) p a
     = a + Reval p x * Reval q x * x).
  { induction p as [|t p IH]; intros a; cbn [fold_left].
    - rewrite Reval_nil. ring.
    - rewrite IH, Hin, Reval_cons. ring. }
  rewrite Hout. ring.
Qed.

Definition nonneg_powers (p : list (Z * Qc)) : Prop := Forall (fun t => (0 <= fst t)%Z) p.

Theorem pinner_is_integral p q : nonneg_powers p -> nonneg_powers q ->
  is_RInt (fun x => Reval p x * Reval q x * x) 0 1 (Q2R (pinner p q)).
Proof.
  intros Hp Hq. apply (is_RInt_ext_R (Rprod p q)); [intros x; apply Rprod_is_product|].
  unfold Rprod, pinner.
  assert (Hin : forall (c : Qc) (k : Z), (0 <= k)%Z -> forall (A : R -> R) (a : Qc), is_RInt A 0 1 (Q2R a) ->
     is_RInt (fun x => fold_left (fun acc' (u : Z * Qc) =>
        acc' + Q2R c * Q2R (snd u) * x ^ (Z.to_nat k + Z.to_nat (fst u) + 1)) q (A x)) 0 1
       (Q2R (fold_left (fun acc' (u : Z * Qc) => (acc' + c * snd u / zQ (k + fst u + 2))%Qc) q a))).
  { intros c k Hk. induction Hq as [|u q Hu Hq IH]; intros A a HA; cbn [fold_left]; [exact HA|].
    apply (IH (fun x => A x + Q2R c * Q2R (snd u) * x ^ (Z.to_nat k + Z.to_nat (fst u) + 1))).
    assert (Hne : Z2Qc (k + fst u + 2) <> 0%Qc) by (apply Z2Qc_neq0; lia).
    change (zQ (k + fst u + 2)) with (Z2Qc (k + fst u + 2)).
    rewrite Q2R_Qc_add, Q2R_Qc_div, Q2R_Qc_mul, Q2R_Z2Qc by exact Hne.
    apply (is_RInt_val _ _ _ (1 * Q2R a + (Q2R c * Q2R (snd u)) * / INR (Datatypes.S (Z.to_nat k + Z.to_nat (fst u) + 1)))).
    { rewrite INR_IZR_INZ. replace (Z.of_nat (Datatypes.S (Z.to_nat k + Z.to_nat (fst u) + 1))) with (k + fst u + 2)%Z by lia.
      field. apply not_0_IZR. lia. }
    apply (is_RInt_ext_R (fun x => 1 * A x + (Q2R c * Q2R (snd u)) * x ^ (Z.to_nat k + Z.to_nat (fst u) + 1))); [intros x; ring|].
    apply is_RInt_lin2; [exact HA|apply is_RInt_pow01]. }
  assert (Hout : forall (A : R -> R) (a : Qc), is_RInt A 0 1 (Q2R a) ->
     is_RInt (fun x => fold_left (fun acc (t : Z * Qc) => fold_left (fun acc' (u : Z * Qc) =>
        acc' + Q2R (snd t) * Q2R (snd u) * x ^ (Z.to_nat (fst t) + Z.to_nat (fst u) + 1)) q acc) p (A x)) 0 1
       (Q2R (fold_left (fun acc (t : Z * Qc) => fold_left (fun acc' (u : Z * Qc) =>
          (acc' + snd t * snd u / zQ (fst t + fst u + 2))%Qc) q acc) p a))).
  { induction Hp as [|t p Ht Hp IH]; intros A a HA; cbn [fold_left]; [exact HA|].
    apply (IH (fun x => fold_left (fun acc' (u : Z * Qc) =>
        acc' + Q2R (snd t) * Q2R (snd u) * x ^ (Z.to_nat (fst t) + Z.to_nat (fst u) + 1)) q (A x))).
    apply Hin; assumption. }
  apply (Hout (fun _ => 0) 0%Qc). rewrite Q2R_Qc_0.
  apply (is_RInt_val _ _ _ (scal (1 - 0) 0)); [unfold scal; cbn; unfold mult; cbn; ring|].
  apply (@is_RInt_const R_CompleteNormedModule).
Qed.

(* ------------------------------------------------------------------------------------------ *)
(** * Orthonormality of the normalised modes over the unit disk (separated integrals) *)

Lemma radial_terms_nonneg m n : (0 <= m)%Z -> nonneg_powers (radial_terms m n).
Proof. intros Hm. unfold nonneg_powers, radial_terms. apply Forall_forall. intros t Ht.
  apply in_map_iff in Ht. destruct Ht as [k [<- Hk]]. apply zrange_In in Hk. cbn [fst]. lia. Qed.

Lemma row_1326 : row_exact 1326 = 50%Z. Proof. vm_compute. reflexivity. Qed.

Theorem zernike_orthonormal j j' m n m' n' :
  (1 <= j <= 1326)%Z -> (1 <= j' <= 1326)%Z -> noll j = (m, n) -> noll j' = (m', n') ->
  exists Ir Ia : R,
    is_RInt (fun rho => Reval (radial_terms (Z.abs m) n) rho * Reval (radial_terms (Z.abs m') n') rho * rho) 0 1 Ir /\
    is_RInt (fun theta => Raz m theta * Raz m' theta) 0 (2 * PI) Ia /\
    sqrt (IZR (norm2 m n true)) * sqrt (IZR (norm2 m' n' true)) * Ir * Ia / PI = if (j =? j')%Z then 1 else 0.
Proof.
  intros Hj Hj' E E'.
  pose proof (noll_wf j ltac:(lia)) as W. rewrite E in W. destruct W as [W0 [W1 [W2 _]]].
  pose proof (noll_wf j' ltac:(lia)) as W'. rewrite E' in W'. destruct W' as [W0' [W1' [W2' _]]].
  assert (Hn : (n <= 50)%Z).
  { replace n with (snd (noll j)) by (now rewrite E). unfold noll; cbn [snd]. rewrite <- row_1326. apply row_mono; lia. }
  assert (Hn' : (n' <= 50)%Z).
  { replace n' with (snd (noll j')) by (now rewrite E'). unfold noll; cbn [snd]. rewrite <- row_1326. apply row_mono; lia. }
  exists (Q2R (pinner (radial_terms (Z.abs m) n) (radial_terms (Z.abs m') n'))).
  exists (if (m =? m')%Z then (if (m =? 0)%Z then 2 * PI else PI) else 0).
  split; [apply pinner_is_integral; apply radial_terms_nonneg; lia|].
  split; [apply angular_orthogonality|].
  assert (Hpi : PI <> 0) by apply PI_neq0.
  destruct (Z.eqb_spec m m') as [<-|Hmm].
  - rewrite radial_orthogonality by (try lia; assumption).
    destruct (Z.eqb_spec n n') as [<-|Hnn].
    + assert (j = j') by (apply noll_inj; try lia; congruence). subst j'. rewrite Z.eqb_refl.
      assert (Hz : Z2Qc (2 * (n + 1)) <> 0%Qc) by (apply Z2Qc_neq0; lia).
      change (zQ (2 * (n + 1))) with (Z2Qc (2 * (n + 1))).
      rewrite Q2R_Qc_div, Q2R_Qc_1, Q2R_Z2Qc by exact Hz.
      assert (Hs : forall z, (0 <= z)%Z -> sqrt (IZR z) * sqrt (IZR z) = IZR z).
      { intros z Hz0. apply sqrt_sqrt. apply IZR_le. exact Hz0. }
      assert (Hn1 : IZR (n + 1) <> 0) by (apply not_0_IZR; lia).
      unfold norm2. destruct (Z.eqb_spec m 0) as [->|Hm0].
      * destruct (Z.eqb_spec n 0) as [->|Hn0].
        -- cbn. rewrite sqrt_1. field. exact Hpi.
        -- transitivity (sqrt (IZR (n + 1)) * sqrt (IZR (n + 1)) * (1 / IZR (2 * (n + 1))) * (2 * PI) / PI); [ring|].
           rewrite Hs by lia. rewrite mult_IZR. field. split; assumption.
      * transitivity (sqrt (IZR (2 * (n + 1))) * sqrt (IZR (2 * (n + 1))) * (1 / IZR (2 * (n + 1))) * PI / PI); [ring|].
        rewrite Hs by lia. rewrite mult_IZR. field. split; assumption.
    + replace (j =? j')%Z with false by (symmetry; apply Z.eqb_neq; intro; subst j'; congruence).
      rewrite Q2R_Qc_0. unfold Rdiv. ring.
  - replace (j =? j')%Z with false by (symmetry; apply Z.eqb_neq; intro; subst j'; congruence).
    unfold Rdiv. ring.
Qed.

(* ------------------------------------------------------------------------------------------ *)
(** * On the complex numbers the kernel expressions are cos and sin: the mode is the textbook one *)

Lemma kcos_CS (t : Qc) : @kcos CS t = RtoC (cos (2 * PI * Q2R t)).
Proof.
  unfold kcos. cbn [CS ke kmul kadd kofq K]. rewrite Q2R_Qc_opp.
  unfold cis, Cmult, Cplus, RtoC; cbn [fst snd].
  replace (- (2 * PI * - Q2R t)) with (2 * PI * Q2R t) by ring.
  rewrite cos_neg, sin_neg.
  assert (H : Q2R half = / 2).
  { unfold half. rewrite (Qeq_eqR _ (1 # 2)) by (unfold Q2Qc; cbn [this]; apply Qred_correct). unfold Q2R; cbn. field. }
  rewrite H. f_equal; field.
Qed.
Lemma ksin_CS (t : Qc) : @ksin CS t = RtoC (sin (2 * PI * Q2R t)).
Proof.
  unfold ksin. cbn [CS ke kmul kadd ksub kofq K]. rewrite Q2R_Qc_opp.
  assert (H : Q2R half = / 2).
  { unfold half. rewrite (Qeq_eqR _ (1 # 2)) by (unfold Q2Qc; cbn [this]; apply Qred_correct). unfold Q2R; cbn. field. }
  assert (H4 : Q2R quarter = / 4).
  { unfold quarter. rewrite (Qeq_eqR _ (1 # 4)) by (unfold Q2Qc; cbn [this]; apply Qred_correct). unfold Q2R; cbn. field. }
  rewrite H, H4.
  replace (- (2 * PI * / 4)) with (- (PI / 2)) by field.
  replace (- (2 * PI * - Q2R t)) with (2 * PI * Q2R t) by ring.
  unfold cis, Cmult, Cminus, Cplus, Copp, RtoC; cbn [fst snd].
  rewrite !cos_neg, !sin_neg, cos_PI2, sin_PI2. f_equal; field.
Qed.

(* the model's sample on C (sq = the real square root) is Noll's formula:
   sqrt(norm2) * R_n^|m|(rho) * azimuthal(m, theta) * mask, theta = 2 pi t *)
Theorem zernike_pt_textbook m n nz rho t b : (0 <= n)%Z ->
  zernike_pt (S := CS) (fun q => RtoC (sqrt (Q2R q))) m n nz rho t b
  = RtoC (sqrt (IZR (norm2 m n nz)) * Q2R (radial m n rho) * Raz m (2 * PI * Q2R t) * (if b then 1 else 0)).
Proof.
  intros Hn.
  assert (HZ : forall z, Q2R (zQ z) = IZR z) by (intros z; change (zQ z) with (Z2Qc z); apply Q2R_Z2Qc).
  unfold zernike_pt, norm2, Raz, kmask.
  destruct (Z.eqb_spec m 0) as [->|Hm].
  - destruct (Z.eqb_spec n 0) as [->|Hn0].
    + rewrite radial_00, Q2R_Qc_1. destruct nz; rewrite sqrt_1; destruct b; cbn [CS k1 k0]; f_equal; ring.
    + destruct nz; cbn [CS kmul kofq K k1 k0]; rewrite ?HZ, ?sqrt_1; destruct b;
        unfold Cmult, RtoC; cbn [fst snd]; f_equal; ring.
  - destruct (0 <? m)%Z; destruct nz; rewrite ?kcos_CS, ?ksin_CS; cbn [CS kmul kofq K k1 k0];
      rewrite ?HZ, ?sqrt_1, ?Q2R_Qc_mul, ?HZ;
      try (rewrite mult_IZR, sqrt_mult by (try apply IZR_le; lia));
      replace (2 * PI * (IZR m * Q2R t)) with (IZR m * (2 * PI * Q2R t)) by ring;
      destruct b; unfold Cmult, RtoC; cbn [fst snd]; f_equal; ring.
Qed.

(* the model's R(m, n, rho) on rationals is the real polynomial at Q2R rho *)
Lemma radial_Reval m n rho : Z.even (Z.abs n - Z.abs m) = true ->
  Q2R (radial m n rho) = Reval (radial_terms (Z.abs m) (Z.abs n)) (Q2R rho).
Proof. intros He. unfold radial. rewrite <- Z.negb_even, He. cbn [negb]. apply Q2R_peval. Qed.

(* radial orthogonality as a Riemann integral (bounded: n, n' <= 50) *)
Theorem radial_orthogonality_RInt m n n' : (0 <= m)%Z -> (m <= n <= 50)%Z -> (m <= n' <= 50)%Z ->
  Z.even (n - m) = true -> Z.even (n' - m) = true ->
  is_RInt (fun rho => Reval (radial_terms m n) rho * Reval (radial_terms m n') rho * rho) 0 1
          (if (n =? n')%Z then / (2 * IZR (n + 1)) else 0).
Proof.
  intros Hm Hn Hn' He He'.
  apply (is_RInt_val _ _ _ (Q2R (pinner (radial_terms m n) (radial_terms m n')))).
  - rewrite radial_orthogonality by assumption. destruct (n =? n')%Z; [|apply Q2R_Qc_0].
    assert (Hz : Z2Qc (2 * (n + 1)) <> 0%Qc) by (apply Z2Qc_neq0; lia).
    change (zQ (2 * (n + 1))) with (Z2Qc (2 * (n + 1))).
    rewrite Q2R_Qc_div, Q2R_Qc_1, Q2R_Z2Qc, mult_IZR by exact Hz. field. apply not_0_IZR. lia.
  - apply pinner_is_integral; apply radial_terms_nonneg; lia.
Qed.

(* R_n^m is orthogonal, with weight rho on [0,1], to every rho^(m+2s) with s < (n-m)/2 (bounded: n <= 50) *)
Theorem radial_lower_moments_RInt m n s : (0 <= m <= n)%Z -> (n <= 50)%Z -> Z.even (n - m) = true ->
  (0 <= s < (n - m) / 2)%Z ->
  is_RInt (fun rho => Reval (radial_terms m n) rho * rho ^ Z.to_nat (m + 2 * s) * rho) 0 1 0.
Proof.
  intros Hm Hn He Hs.
  apply (is_RInt_ext_R (fun rho => Reval (radial_terms m n) rho * Reval [((m + 2 * s)%Z, 1%Qc)] rho * rho)).
  { intros x. rewrite Reval_cons, Reval_nil. cbn [fst snd]. rewrite Q2R_Qc_1. ring. }
  apply (is_RInt_val _ _ _ (Q2R (pinner (radial_terms m n) [((m + 2 * s)%Z, 1%Qc)]))).
  - rewrite radial_lower_moments by assumption. apply Q2R_Qc_0.
  - apply pinner_is_integral; [apply radial_terms_nonneg; lia|]. repeat constructor. cbn [fst]. lia.
Qed.

(* ------------------------------------------------------------------------------------------ *)
(** * The default-coordinate path of zernike(): the exactly evaluated Cartesian form is the mode
      evaluated at zernike_coordinates(mask) *)

Lemma cpowq_polar (x y : Qc) (r theta : R) : Q2R x = r * cos theta -> Q2R y = r * sin theta ->
  forall k, Q2R (fst (cpowq x y k)) = r ^ k * cos (INR k * theta) /\
            Q2R (snd (cpowq x y k)) = r ^ k * sin (INR k * theta).
Proof.
  intros Hx Hy. induction k as [|k [IHc IHs]].
  - cbn [cpowq fst snd pow INR]. rewrite Rmult_0_l, cos_0, sin_0, Q2R_Qc_1, Q2R_Qc_0. split; ring.
  - cbn [cpowq fst snd]. rewrite Q2R_Qc_sub, Q2R_Qc_add, !Q2R_Qc_mul, IHc, IHs, Hx, Hy.
    rewrite S_INR. replace ((INR k + 1) * theta) with (INR k * theta + theta) by ring.
    rewrite cos_plus, sin_plus. cbn [pow]. split; ring.
Qed.

Lemma az_cart_polar m (x y : Qc) (r theta : R) : Q2R x = r * cos theta -> Q2R y = r * sin theta ->
  Q2R (az_cart m x y) = r ^ Z.to_nat (Z.abs m) * Raz m theta.
Proof.
  intros Hx Hy. unfold az_cart, Raz. cbv zeta.
  destruct (cpowq_polar x y r theta Hx Hy (Z.to_nat (Z.abs m))) as [Hc Hs].
  assert (HI : INR (Z.to_nat (Z.abs m)) = IZR (Z.abs m)) by (rewrite INR_IZR_INZ, Z2Nat.id by lia; reflexivity).
  destruct (Z.eqb_spec m 0) as [->|Hm].
  - change (Z.to_nat (Z.abs 0)) with 0%nat. rewrite Q2R_Qc_1. cbn [pow]. ring.
  - destruct (Z.ltb_spec 0 m).
    + rewrite Hc, HI, Z.abs_eq by lia. reflexivity.
    + rewrite Q2R_Qc_opp, Hs, HI, Z.abs_neq by lia. rewrite opp_IZR.
      replace (- IZR m * theta) with (- (IZR m * theta)) by ring. rewrite sin_neg. ring.
Qed.

(* R_n^a(rho) = rho^a * (reduced polynomial in rho^2) *)
Lemma Reval_reduced a n (rho : R) (t : Qc) : (0 <= a <= n)%Z -> Z.even (n - a) = true -> Q2R t = rho * rho ->
  Reval (radial_terms a n) rho = rho ^ Z.to_nat a * Q2R (radial_reduced a n t).
Proof.
  intros Ha He Ht. unfold Reval, radial_terms, radial_reduced.
  apply even_ex in He. destruct He as [d Hd].
  assert (Hdd : ((n - a) / 2 = d)%Z) by lia. rewrite Hdd.
  assert (G : forall l (A : R) (acc : Qc), (forall k, In k l -> (0 <= k <= d)%Z) -> A = rho ^ Z.to_nat a * Q2R acc ->
     fold_left (fun (acc0 : R) (t0 : Z * Qc) => acc0 + Q2R (snd t0) * rho ^ Z.to_nat (fst t0))
       (map (fun k : Z => ((n - 2 * k)%Z, rcoef a n k)) l) A
     = rho ^ Z.to_nat a * Q2R (fold_left (fun (acc0 : Qc) (k : Z) => (acc0 + rcoef a n k * qpow t (d - k))%Qc) l acc)).
  { induction l as [|k l IH]; intros A acc Hl HA; cbn [map fold_left]; [exact HA|].
    apply IH; [intros; apply Hl; now right|]. cbn [fst snd].
    rewrite Q2R_Qc_add, Q2R_Qc_mul, Q2R_qpow, Ht, HA.
    assert (Hk : (0 <= k <= d)%Z) by (apply Hl; now left).
    replace (Z.to_nat (n - 2 * k)) with (Z.to_nat a + 2 * Z.to_nat (d - k))%nat by lia.
    rewrite pow_add, pow_mult. cbn [pow]. rewrite Rmult_1_r. ring. }
  apply G.
  - intros k Hk. apply zrange_In in Hk. lia.
  - rewrite Q2R_Qc_0. ring.
Qed.

Theorem default_pt_polar m n (x y rm2 : Qc) (r theta : R) :
  (Z.abs m <= n)%Z -> Z.even (n - Z.abs m) = true -> 0 < Q2R rm2 -> 0 <= r ->
  Q2R x = r * cos theta -> Q2R y = r * sin theta ->
  Q2R (radial_reduced (Z.abs m) n ((qsqr x + qsqr y) / rm2) * az_cart m x y / qpow rm2 (Z.abs m / 2))%Qc
    / sqrt (Q2R rm2) ^ (Z.to_nat (Z.abs m mod 2))
  = Reval (radial_terms (Z.abs m) n) (r / sqrt (Q2R rm2)) * Raz m theta.
Proof.
  intros Hm He Hpos Hr Hx Hy.
  set (a := Z.abs m) in *. set (s := sqrt (Q2R rm2)).
  assert (Hs : 0 < s) by (apply sqrt_lt_R0; exact Hpos).
  assert (Hss : s * s = Q2R rm2) by (apply sqrt_sqrt; lra).
  assert (Hne : rm2 <> 0%Qc) by (intro E; rewrite E, Q2R_Qc_0 in Hpos; lra).
  assert (Ht : Q2R ((qsqr x + qsqr y) / rm2)%Qc = (r / s) * (r / s)).
  { rewrite Q2R_Qc_div, Q2R_Qc_add by exact Hne. unfold qsqr. rewrite !Q2R_Qc_mul, Hx, Hy, <- Hss.
    pose proof (sin2_cos2 theta) as P. unfold Rsqr in P.
    replace (r * cos theta * (r * cos theta) + r * sin theta * (r * sin theta)) with (r * r * (sin theta * sin theta + cos theta * cos theta)) by ring.
    rewrite P. field. lra. }
  rewrite (Reval_reduced a n (r / s) _ ltac:(subst a; lia) He Ht).
  assert (Hq : qpow rm2 (a / 2) <> 0%Qc).
  { intro E. apply (f_equal (fun q : Qc => Q2R q)) in E. rewrite Q2R_qpow, Q2R_Qc_0 in E.
    apply pow_nonzero in E; [exact E|lra]. }
  rewrite Q2R_Qc_div, Q2R_Qc_mul, Q2R_qpow by exact Hq.
  rewrite (az_cart_polar m x y r theta Hx Hy). fold a.
  rewrite <- Hss.
  assert (Hpow : (r / s) ^ Z.to_nat a * (s * s) ^ Z.to_nat (a / 2) * s ^ Z.to_nat (a mod 2) = r ^ Z.to_nat a).
  { assert (E : s ^ Z.to_nat a = (s * s) ^ Z.to_nat (a / 2) * s ^ Z.to_nat (a mod 2)).
    { replace (Z.to_nat a) with (2 * Z.to_nat (a / 2) + Z.to_nat (a mod 2))%nat at 1 by (subst a; lia).
      rewrite pow_add, pow_mult. cbn [pow]. rewrite Rmult_1_r. reflexivity. }
    unfold Rdiv. rewrite Rpow_mult_distr, pow_inv, Rmult_assoc, <- E. field. apply pow_nonzero. lra. }
  rewrite <- Hpow. field. split; apply pow_nonzero; nra.
Qed.

Lemma Qclt_0_Q2R (q : Qc) : (0 < q)%Qc -> 0 < Q2R q.
Proof. intros H. rewrite <- Q2R_Qc_0. apply Qreals.Qlt_Rlt. exact H. Qed.

(* zernike(mask, j, normalize) with default coordinates, as executed (rational value, then the
   irrational factors applied outside): it is the mode R_n^|m|(rho) az(m, theta) mask evaluated at
   rho = r / sqrt(rmax2), theta = any polar angle of the direction vector of zernike_coordinates(mask) *)
Theorem zernike_default_is_mode mask j nz d : zernike_default mask j nz = Ok d ->
  exists c m n, zernike_coordinates mask = Ok c /\ noll j = (m, n) /\ (1 <= j)%Z /\
    dm_norm2 d = norm2 m n nz /\ dm_rmax2 d = c_rmax2 c /\
    ((0 < c_rmax2 c)%Qc -> forall i k (r theta : R), 0 <= r ->
       Q2R (c_dirx c i k) = r * cos theta -> Q2R (c_diry c i k) = r * sin theta ->
       Q2R (dm_val d i k) / sqrt (Q2R (dm_rmax2 d)) ^ (if dm_odd d then 1 else 0)
       = Reval (radial_terms (Z.abs m) n) (r / sqrt (Q2R (c_rmax2 c))) * Raz m theta
         * (if mask_bool (get mask i k) then 1 else 0)).
Proof.
  intros H. destruct (zernike_default_ok mask j nz d H) as [c [Hc [Hj [Hn2 [Hodd [Hrm Hval]]]]]].
  destruct (noll j) as [m n] eqn:E. cbn [fst snd] in *.
  exists c, m, n. repeat split; try assumption.
  intros Hpos i k r theta Hr Hx Hy. rewrite Hval, Hrm, Hodd.
  pose proof (noll_wf j Hj) as W. rewrite E in W. destruct W as [W0 [W1 [W2 _]]].
  unfold zernike_default_pt. destruct (mask_bool (get mask i k)).
  - destruct (coords_about_origin mask c Hc i k) as [Hrho [Hdx Hdy]].
    assert (Et : c_rho2 c i k = ((qsqr (c_dirx c i k) + qsqr (c_diry c i k)) / c_rmax2 c)%Qc).
    { rewrite Hrho, Hdx, Hdy. unfold qsqr, Qcdiv. ring. }
    rewrite Et.
    replace (if Z.odd m then 1 else 0)%nat with (Z.to_nat (Z.abs m mod 2)).
    2:{ rewrite <- Z.negb_even. destruct (Z.even m) eqn:Ev; cbn [negb].
        - apply even_ex in Ev. destruct Ev as [q ->]. replace (Z.abs (2 * q) mod 2)%Z with 0%Z by lia. reflexivity.
        - apply odd_ex in Ev. destruct Ev as [q ->]. replace (Z.abs (2 * q + 1) mod 2)%Z with 1%Z by lia. reflexivity. }
    rewrite (default_pt_polar m n _ _ _ r theta W1 W2 (Qclt_0_Q2R _ Hpos) Hr Hx Hy). ring.
  - rewrite Q2R_Qc_0. unfold Rdiv. ring.
Qed.
