(* Least-squares tilt fitting over the reals (C04): uniqueness of the solution of the normal
   equations under linear independence, minimality, and what Plane.fit_tilt removes and keeps. *)
From Coq Require Import Reals Lra.
From LV Require Import Lib.Cis Model.Tilt.
Local Open Scope R_scope.

Ltac rs := cbn [RS K k0 k1 kadd kmul ksub kopp kofq] in *.

Lemma sumn_nonneg k (f : nat -> R) : (forall i, 0 <= f i) -> 0 <= @sumn RS k f.
Proof. intros H. induction k as [|k IH]; cbn [sumn]; rs; [lra|]. specialize (H k). lra. Qed.
Lemma sumn_zero_terms k (f : nat -> R) : (forall i, 0 <= f i) -> @sumn RS k f = 0 ->
  forall i, (i < k)%nat -> f i = 0.
Proof.
  intros H. induction k as [|k IH]; intros E i Hi; [lia|]. cbn [sumn] in E. rs.
  pose proof (sumn_nonneg k f H) as H1. pose proof (H k) as H2.
  destruct (Nat.eq_dec i k) as [->|]; [lra|]. apply IH; [lra|lia].
Qed.
Lemma sumZ_nonneg k (f : Z -> R) : (forall i, 0 <= f i) -> 0 <= @sumZ RS k f.
Proof. intros H. unfold sumZ. apply sumn_nonneg. intros; apply H. Qed.
Lemma sumZ_zero_terms k (f : Z -> R) : (forall i, 0 <= f i) -> @sumZ RS k f = 0 ->
  forall i, (0 <= i < k)%Z -> f i = 0.
Proof.
  intros H E i Hi. unfold sumZ in E.
  pose proof (sumn_zero_terms _ (fun j => f (Z.of_nat j)) (fun j => H _) E (Z.to_nat i)) as H1.
  cbn beta in H1. rewrite Z2Nat.id in H1 by lia. apply H1. lia.
Qed.

Section LsqR.
Variables (m n q : Z) (b : Z -> Z -> Z -> R).
Let lin := @lin RS q b.
Let NE := @NE RS m n q b.
Let sqerr := @sqerr RS m n q b.

Lemma sum2_sq_zero (f : Z -> Z -> R) :
  @sum2 RS m n (fun i j => f i j * f i j) = 0 -> forall i j, (0 <= i < m)%Z -> (0 <= j < n)%Z -> f i j = 0.
Proof.
  intros E i j Hi Hj. unfold sum2 in E.
  assert (Hrow : @sumZ RS n (fun j => f i j * f i j) = 0).
  { apply (sumZ_zero_terms m (fun i => @sumZ RS n (fun j => f i j * f i j))); try assumption.
    intros i'. apply sumZ_nonneg. intros j'. apply Rle_0_sqr. }
  pose proof (sumZ_zero_terms n (fun j => f i j * f i j) (fun j' => Rle_0_sqr _) Hrow j Hj) as H.
  cbn beta in H. apply Rmult_integral in H. tauto.
Qed.
Lemma sum2_sq_nonneg (f : Z -> Z -> R) : 0 <= @sum2 RS m n (fun i j => f i j * f i j).
Proof. unfold sum2. apply sumZ_nonneg. intros i. apply sumZ_nonneg. intros j. apply Rle_0_sqr. Qed.

(* the basis functions are linearly independent on the grid *)
Definition indep : Prop :=
  forall d : Z -> R, (forall i j, (0 <= i < m)%Z -> (0 <= j < n)%Z -> lin d i j = 0) ->
  forall k, (0 <= k < q)%Z -> d k = 0.

Theorem lsq_unique c c' y : indep -> NE c y -> NE c' y -> forall k, (0 <= k < q)%Z -> c k = c' k.
Proof.
  intros Hi H1 H2 k Hk.
  pose proof (ne_diff_energy RS RS_ring m n q b c c' y H1 H2) as E. rs.
  assert (c k - c' k = 0); [|lra].
  apply (Hi (fun k => c k - c' k)); [|assumption].
  intros i j Hi' Hj'. apply (sum2_sq_zero _ E i j Hi' Hj').
Qed.

(* a solution of the normal equations minimises the sum of squared residuals ... *)
Theorem ne_minimises c c' y : NE c y -> sqerr c y <= sqerr c' y.
Proof.
  intros H. unfold sqerr. rewrite (ne_pythagoras RS RS_ring m n q b c c' y H). rs.
  pose proof (sum2_sq_nonneg (fun i j => @LsqTilt.lin RS q b (fun k => c k - c' k) i j)). rs. lra.
Qed.
(* ... and under independence it is the only minimiser *)
Theorem lsq_minimiser_unique c c' y : indep -> NE c y -> sqerr c' y <= sqerr c y ->
  forall k, (0 <= k < q)%Z -> c' k = c k.
Proof.
  intros Hi H Hle k Hk. unfold sqerr in Hle.
  rewrite (ne_pythagoras RS RS_ring m n q b c c' y H) in Hle. rs.
  pose proof (sum2_sq_nonneg (fun i j => @LsqTilt.lin RS q b (fun k => c k - c' k) i j)) as Hn. rs.
  assert (E : @sum2 RS m n (fun i j => @LsqTilt.lin RS q b (fun k => c k - c' k) i j
                                     * @LsqTilt.lin RS q b (fun k => c k - c' k) i j) = 0) by lra.
  assert (c k - c' k = 0); [|lra].
  apply (Hi (fun k => c k - c' k)); [|assumption].
  intros i j Hi' Hj'. apply (sum2_sq_zero _ E i j Hi' Hj').
Qed.
End LsqR.

(* ------------------------------------------------------------------------------------------ *)
(** * Plane.fit_tilt: ring-generic facts *)

Section FitGeneric.
Variable S : Scalar.
Hypothesis Sring : is_ring S.
Add Ring Srf : Sring.

Lemma sumZ_3 (f : Z -> S) : sumZ 3 f = (f 0%Z + f 1%Z + f 2%Z)%K.
Proof. unfold sumZ. change (Z.to_nat 3) with 3%nat. cbn [sumn]. change (Z.of_nat 0) with 0%Z.
  change (Z.of_nat 1) with 1%Z. change (Z.of_nat 2) with 2%Z. ring. Qed.

Lemma lin3 (b : Z -> Z -> Z -> S) (t : S * S * S) i j :
  lin 3 b (cof t) i j = (fst (fst t) * b 0%Z i j + snd (fst t) * b 1%Z i j + snd t * b 2%Z i j)%K.
Proof. unfold lin. rewrite sumZ_3. reflexivity. Qed.

Variables (dxr dxc : S) (mask opd : arr S).
Let m := nr opd.
Let n := nc opd.
Let b := ptt_masked m n dxr dxc mask.

(* on the mask the removed part is the ramp of the recorded Tilt(x=t1, y=t2): OPD + recorded tilt is unchanged *)
Theorem fit_mono_on_mask (t : S * S * S) i j : get mask i j = k1 ->
  (get (fit_mono dxr dxc mask opd t) i j + ramp_s (snd (fst t)) (snd t) dxr dxc (i - m / 2) (j - n / 2))%K = get opd i j.
Proof.
  intros Hm. unfold fit_mono, tilt_part, ptt_masked, ptt_unmasked, ramp_s. cbn [get Z.eqb Pos.eqb].
  rewrite Hm. subst m n. ring.
Qed.
(* off the mask a monolithic plane keeps its OPD *)
Theorem fit_mono_off_mask (t : S * S * S) i j : get mask i j = k0 ->
  get (fit_mono dxr dxc mask opd t) i j = get opd i j.
Proof.
  intros Hm. unfold fit_mono, tilt_part, ptt_masked. cbn [get]. rewrite Hm. ring.
Qed.

(* the piston is kept and the tilt is gone: if t solves the normal equations of the OPD then
   (t0, 0, 0) solves those of the new OPD *)
Theorem fit_mono_refit (t : S * S * S) :
  NE m n 3 b (cof t) (get opd) ->
  NE m n 3 b (cof (fst (fst t), k0, k0)) (get (fit_mono dxr dxc mask opd t)).
Proof.
  intros H k Hk. etransitivity; [|exact (H k Hk)]. apply (sum2_ext S); intros i j Hi Hj.
  rewrite !lin3. cbn [fst snd]. unfold fit_mono, tilt_part. cbn [get]. fold m n. fold b. ring.
Qed.

(* a pure piston + ramp on the mask satisfies the normal equations with its own coefficients *)
Lemma ramp_solves_ne (p a c : S) :
  (forall i j, get mask i j = k0 \/ get mask i j = k1) ->
  (forall i j, get mask i j = k1 -> get opd i j = (p + ramp_s a c dxr dxc (i - m / 2) (j - n / 2))%K) ->
  NE m n 3 b (cof (p, a, c)) (get opd).
Proof.
  intros H01 Hopd k Hk. etransitivity; [|exact (sum2_zero S Sring m n)]. apply (sum2_ext S); intros i j Hi Hj.
  rewrite lin3. cbn [fst snd]. subst b. unfold ptt_masked.
  destruct (H01 i j) as [E|E].
  - rewrite E. ring.
  - rewrite (Hopd i j E), E. unfold ptt_unmasked, ramp_s. cbn [Z.eqb Pos.eqb]. ring.
Qed.

(* segmented planes: where exactly one segment mask is set, the new OPD is the old one minus that
   segment's ramp *)
Lemma fold_seg_zero (l : list (arr S * (S * S * S))) i j acc :
  (forall mt, In mt l -> get (fst mt) i j = k0) ->
  fold_left (seg_term dxr dxc opd i j) l acc = acc.
Proof.
  revert acc. induction l as [|mt l IH]; intros acc H; cbn [fold_left]; [reflexivity|].
  rewrite IH by (intros; apply H; now right). unfold seg_term. rewrite (H mt) by now left. ring.
Qed.
Theorem fit_seg_on_mask (masks : list (arr S)) (ts : list (S * S * S)) l1 l2 mk t i j :
  combine masks ts = l1 ++ (mk, t) :: l2 ->
  get mk i j = k1 ->
  (forall mt, In mt (l1 ++ l2) -> get (fst mt) i j = k0) ->      (* no other segment covers the sample *)
  (get (fit_seg dxr dxc masks opd ts) i j + ramp_s (snd (fst t)) (snd t) dxr dxc (i - m / 2) (j - n / 2))%K
  = get opd i j.
Proof.
  intros Hc Hm Hz. unfold fit_seg. cbn [get]. rewrite Hc, fold_left_app. cbn [fold_left].
  rewrite fold_seg_zero by (intros; apply Hz; apply in_or_app; now right).
  rewrite fold_seg_zero by (intros; apply Hz; apply in_or_app; now left).
  unfold seg_term, tilt_part, ptt_masked, ptt_unmasked, ramp_s. cbn [fst snd Z.eqb Pos.eqb]. rewrite Hm.
  subst m n. ring.
Qed.
End FitGeneric.

(* ------------------------------------------------------------------------------------------ *)
(** * (e) fit_tilt over the reals *)

Theorem fit_tilt_lsq (dxr dxc : R) (mask opd : arr RS) (t : R * R * R) :
  let m := nr opd in let n := nc opd in
  let b := ptt_masked (S := RS) m n dxr dxc mask in
  indep m n 3 b ->
  NE m n 3 b (cof t) (get opd) ->                      (* contract of np.linalg.lstsq *)
  (* the normal equations have no other solution, and t is the unique least-squares minimiser *)
  (forall t', NE m n 3 b (cof t') (get opd) -> t' = t)
  /\ (forall c', sqerr m n 3 b (cof t) (get opd) <= sqerr m n 3 b c' (get opd))
  /\ (forall t', sqerr m n 3 b (cof t') (get opd) <= sqerr m n 3 b (cof t) (get opd) -> t' = t)
  (* the new OPD has least-squares coefficients (t0, 0, 0): same piston, no tip/tilt *)
  /\ (forall t', NE m n 3 b (cof t') (get (fit_mono (S := RS) dxr dxc mask opd t)) -> t' = (fst (fst t), 0, 0))
  (* OPD + ramp of the recorded Tilt(x=t1, y=t2) is unchanged on the mask; off the mask the OPD is kept *)
  /\ (forall i j, get mask i j = 1 ->
        get (fit_mono (S := RS) dxr dxc mask opd t) i j + ramp_s (S := RS) (snd (fst t)) (snd t) dxr dxc (i - m / 2) (j - n / 2)
        = get opd i j)
  /\ (forall i j, get mask i j = 0 -> get (fit_mono (S := RS) dxr dxc mask opd t) i j = get opd i j).
Proof.
  intros m n b Hi Hne.
  assert (triple : forall (u v : R * R * R), (forall k, (0 <= k < 3)%Z -> cof u k = cof v k) -> u = v).
  { intros [[u0 u1] u2] [[v0 v1] v2] H. pose proof (H 0%Z ltac:(lia)) as E0. pose proof (H 1%Z ltac:(lia)) as E1.
    pose proof (H 2%Z ltac:(lia)) as E2. cbn in E0, E1, E2. congruence. }
  repeat split.
  - intros t' H'. apply triple. intros k Hk. now apply (lsq_unique m n 3 b (cof t') (cof t) (get opd)).
  - intros c'. now apply ne_minimises.
  - intros t' H'. apply triple. intros k Hk. now apply (lsq_minimiser_unique m n 3 b (cof t) (cof t') (get opd)).
  - intros t' H'. apply triple. intros k Hk.
    apply (lsq_unique m n 3 b (cof t') (cof (fst (fst t), 0, 0)) (get (fit_mono (S := RS) dxr dxc mask opd t))); try assumption.
    apply (fit_mono_refit RS RS_ring dxr dxc mask opd t Hne).
  - intros i j Hm. apply (fit_mono_on_mask RS RS_ring dxr dxc mask opd t i j Hm).
  - intros i j Hm. apply (fit_mono_off_mask RS RS_ring dxr dxc mask opd t i j Hm).
Qed.

(* fitting an exact piston + ramp (the OPD form of Tilt(x=a, y=b)) recovers the angles *)
Theorem fit_recovers_ramp (dxr dxc p a c : R) (mask opd : arr RS) (t : R * R * R) :
  let m := nr opd in let n := nc opd in
  let b := ptt_masked (S := RS) m n dxr dxc mask in
  indep m n 3 b ->
  (forall i j, get mask i j = 0 \/ get mask i j = 1) ->
  (forall i j, get mask i j = 1 -> get opd i j = p + ramp_s (S := RS) a c dxr dxc (i - m / 2) (j - n / 2)) ->
  NE m n 3 b (cof t) (get opd) ->
  t = (p, a, c).
Proof.
  intros m n b Hi H01 Hopd Hne.
  pose proof (ramp_solves_ne RS RS_ring dxr dxc mask opd p a c H01 Hopd) as H0.
  destruct t as [[t0 t1] t2].
  pose proof (lsq_unique m n 3 b _ _ _ Hi Hne H0 0%Z ltac:(lia)) as E0.
  pose proof (lsq_unique m n 3 b _ _ _ Hi Hne H0 1%Z ltac:(lia)) as E1.
  pose proof (lsq_unique m n 3 b _ _ _ Hi Hne H0 2%Z ltac:(lia)) as E2.
  cbn in E0, E1, E2. congruence.
Qed.

(* ------------------------------------------------------------------------------------------ *)
(** * the executable fit solves the normal equations *)

Theorem lstsq3_solves_ne (dxr dxc : Qc) (mask opd : arr QS) t :
  lstsq3 dxr dxc mask opd = Ok t ->
  NE (S := QS) (nr opd) (nc opd) 3 (ptt_masked (S := QS) (nr opd) (nc opd) dxr dxc mask) (cof t) (get opd).
Proof.
  unfold lstsq3. intros H. apply solve3_sound in H. destruct H as (H0 & H1 & H2).
  intros k Hk. rewrite (ne_gram QS QS_ring). rewrite (sumZ_3 QS QS_ring).
  assert (Hk3 : (k = 0 \/ k = 1 \/ k = 2)%Z) by lia.
  destruct Hk3 as [ -> | [ -> | -> ] ]; cbn [cof Z.eqb Pos.eqb].
  - rewrite <- H0. cbn [QS K k0 k1 kadd kmul ksub kopp]. ring.
  - rewrite <- H1. cbn [QS K k0 k1 kadd kmul ksub kopp]. ring.
  - rewrite <- H2. cbn [QS K k0 k1 kadd kmul ksub kopp]. ring.
Qed.

(* what the executable Plane.fit_tilt does to a monolithic plane, in terms of the normal equations *)
Theorem fit_tilt_mono_spec (dxr dxc : Qc) (mask opd : arr QS) tl p' :
  fit_tilt (mkQPlane (Some (dxr, dxc)) [mask] (Some opd) tl) = Ok p' ->
  exists t : Qc * Qc * Qc,
    NE (S := QS) (nr opd) (nc opd) 3 (ptt_masked (S := QS) (nr opd) (nc opd) dxr dxc mask) (cof t) (get opd)
    /\ qp_tilt p' = tl ++ [mk_tilt (snd (fst t)) (snd t)]
    /\ qp_opd p' = Some (force (fit_mono (S := QS) dxr dxc mask opd t)).
Proof.
  unfold fit_tilt. cbn [qp_ps qp_opd qp_masks qp_tilt].
  destruct (lstsq3 dxr dxc mask opd) as [t|] eqn:E; cbn [rbind]; [|discriminate].
  intros H; injection H as <-. exists t. cbn [qp_tilt qp_opd]. repeat split.
  now apply lstsq3_solves_ne.
Qed.

(* ------------------------------------------------------------------------------------------ *)
(** * a concrete instance of the hypotheses *)

Lemma zs_RS z : zs (S := RS) z = IZR z.
Proof. unfold zs. cbn [RS kofq]. change (zq z) with (Z2Qc z). apply Q2R_Z2Qc. Qed.

Lemma nonvacuous_example :
  (forall d : Z -> R,
     (forall i j, (0 <= i < 2)%Z -> (0 <= j < 2)%Z ->
        lin (S := RS) 3 (ptt_masked (S := RS) 2 2 1 1 (mkArr (S := RS) 2 2 (fun _ _ => 1))) d i j = 0) ->
     forall k, (0 <= k < 3)%Z -> d k = 0)
  /\ (Q2Qc (5 # 4) * Q2Qc (5 # 4) = 1 + Q2Qc (3 # 4) * Q2Qc (3 # 4))%Qc.
Proof.
  split.
  - intros d H k Hk.
    pose proof (H 1%Z 1%Z ltac:(lia) ltac:(lia)) as H11.
    pose proof (H 0%Z 1%Z ltac:(lia) ltac:(lia)) as H01.
    pose proof (H 1%Z 0%Z ltac:(lia) ltac:(lia)) as H10.
    unfold lin in H11, H01, H10. rewrite (sumZ_3 RS RS_ring) in H11, H01, H10.
    unfold ptt_masked, ptt_unmasked in H11, H01, H10. cbn [get Z.eqb Pos.eqb] in H11, H01, H10.
    change (2 / 2)%Z with 1%Z in *. change (1 - 1)%Z with 0%Z in *. change (0 - 1)%Z with (-1)%Z in *.
    rewrite ?zs_RS in H11. rewrite ?zs_RS in H01. rewrite ?zs_RS in H10. rs.
    assert (Hk3 : (k = 0 \/ k = 1 \/ k = 2)%Z) by lia.
    destruct Hk3 as [ -> | [ -> | -> ] ]; lra.
  - apply Qc_is_canon. reflexivity.
Qed.

(* ------------------------------------------------------------------------------------------ *)
(** * segmented planes: per segment the piston is kept and the tilt is gone *)

Section SegRefit.
Variable S : Scalar.
Hypothesis Sring : is_ring S.
Add Ring Srs : Sring.
Variables (dxr dxc : S) (opd : arr S).
Let m := nr opd.
Let n := nc opd.

(* [mk] is the mask of one segment, recorded coefficients [t]; on every sample of the grid either the segment's
   mask is 0, or it is 1 and no other segment covers the sample (disjoint 0/1 masks) *)
Theorem fit_seg_refit (masks : list (arr S)) (ts : list (S * S * S)) l1 l2 mk (t : S * S * S) :
  combine masks ts = l1 ++ (mk, t) :: l2 ->
  (forall i j, (0 <= i < m)%Z -> (0 <= j < n)%Z ->
     get mk i j = k0 \/ (get mk i j = k1 /\ forall mt, In mt (l1 ++ l2) -> get (fst mt) i j = k0)) ->
  NE m n 3 (ptt_masked m n dxr dxc mk) (cof t) (get opd) ->
  NE m n 3 (ptt_masked m n dxr dxc mk) (cof (fst (fst t), k0, k0)) (get (fit_seg dxr dxc masks opd ts)).
Proof.
  intros Hc Hd H k Hk. etransitivity; [|exact (H k Hk)]. apply (sum2_ext S); intros i j Hi Hj.
  rewrite !(lin3 S Sring). cbn [fst snd].
  destruct (Hd i j Hi Hj) as [E|[E Hz]].
  - unfold ptt_masked. rewrite E. ring.
  - pose proof (fit_seg_on_mask S Sring dxr dxc opd masks ts l1 l2 mk t i j Hc E Hz) as Hon.
    fold m n in Hon.
    assert (Hnew : get (fit_seg dxr dxc masks opd ts) i j
                   = (get opd i j - ramp_s (snd (fst t)) (snd t) dxr dxc (i - m / 2) (j - n / 2))%K).
    { rewrite <- Hon. ring. }
    rewrite Hnew. unfold ptt_masked, ptt_unmasked, ramp_s. cbn [Z.eqb Pos.eqb]. rewrite E. ring.
Qed.
End SegRefit.

(* over the reals: if the segment's masked basis is independent, the least-squares coefficients of the NEW
   (whole-plane) OPD on that segment are (t0, 0, 0) - piston kept, tip and tilt removed, segment by segment *)
Theorem fit_seg_lsq (dxr dxc : R) (opd : arr RS) (masks : list (arr RS)) (ts : list (R * R * R)) l1 l2 mk (t : R * R * R) :
  let m := nr opd in let n := nc opd in
  let b := ptt_masked (S := RS) m n dxr dxc mk in
  combine masks ts = l1 ++ (mk, t) :: l2 ->
  (forall i j, (0 <= i < m)%Z -> (0 <= j < n)%Z ->
     get mk i j = 0 \/ (get mk i j = 1 /\ forall mt, In mt (l1 ++ l2) -> get (fst mt) i j = 0)) ->
  indep m n 3 b ->
  NE m n 3 b (cof t) (get opd) ->
  (forall t', NE m n 3 b (cof t') (get opd) -> t' = t)
  /\ (forall t', NE m n 3 b (cof t') (get (fit_seg (S := RS) dxr dxc masks opd ts)) -> t' = (fst (fst t), 0, 0))
  /\ (forall i j, (0 <= i < m)%Z -> (0 <= j < n)%Z -> get mk i j = 1 ->
        get (fit_seg (S := RS) dxr dxc masks opd ts) i j
        + ramp_s (S := RS) (snd (fst t)) (snd t) dxr dxc (i - m / 2) (j - n / 2) = get opd i j).
Proof.
  intros m n b Hc Hd Hi Hne.
  assert (triple : forall (u v : R * R * R), (forall k, (0 <= k < 3)%Z -> cof u k = cof v k) -> u = v).
  { intros [[u0 u1] u2] [[v0 v1] v2] H. pose proof (H 0%Z ltac:(lia)) as E0. pose proof (H 1%Z ltac:(lia)) as E1.
    pose proof (H 2%Z ltac:(lia)) as E2. cbn in E0, E1, E2. congruence. }
  repeat split.
  - intros t' H'. apply triple. intros k Hk. now apply (lsq_unique m n 3 b (cof t') (cof t) (get opd)).
  - intros t' H'. apply triple. intros k Hk.
    apply (lsq_unique m n 3 b (cof t') (cof (fst (fst t), 0, 0)) (get (fit_seg (S := RS) dxr dxc masks opd ts))); try assumption.
    exact (fit_seg_refit RS RS_ring dxr dxc opd masks ts l1 l2 mk t Hc Hd Hne).
  - intros i j Hi' Hj' E. destruct (Hd i j Hi' Hj') as [E0|[_ Hz]]; [rs; lra|].
    exact (fit_seg_on_mask RS RS_ring dxr dxc opd masks ts l1 l2 mk t i j Hc E Hz).
Qed.

Definition ex_maskA : arr RS := mkArr (S := RS) 2 4 (fun _ j => if (j <? 2)%Z then 1 else 0).
Definition ex_maskB : arr RS := mkArr (S := RS) 2 4 (fun _ j => if (j <? 2)%Z then 0 else 1).
Lemma ex_seg_hypotheses (tA tB : R * R * R) :
  indep 2 4 3 (ptt_masked (S := RS) 2 4 1 1 ex_maskA)
  /\ (forall i j, (0 <= i < 2)%Z -> (0 <= j < 4)%Z ->
        get ex_maskA i j = 0 \/ (get ex_maskA i j = 1 /\ forall mt, In mt ([] ++ [(ex_maskB, tB)]) -> get (fst mt) i j = 0))
  /\ combine [ex_maskA; ex_maskB] [tA; tB] = [] ++ (ex_maskA, tA) :: [(ex_maskB, tB)].
Proof.
  split; [|split; [|reflexivity]].
  - intros d H k Hk.
    pose proof (H 1%Z 1%Z ltac:(lia) ltac:(lia)) as H11.
    pose proof (H 0%Z 1%Z ltac:(lia) ltac:(lia)) as H01.
    pose proof (H 1%Z 0%Z ltac:(lia) ltac:(lia)) as H10.
    unfold lin in H11, H01, H10. rewrite (sumZ_3 RS RS_ring) in H11, H01, H10.
    unfold ptt_masked, ptt_unmasked, ex_maskA in H11, H01, H10. cbn [get Z.eqb Pos.eqb Z.ltb Z.compare Pos.compare Pos.compare_cont] in H11, H01, H10.
    change (2 / 2)%Z with 1%Z in *. change (4 / 2)%Z with 2%Z in *.
    change (1 - 1)%Z with 0%Z in *. change (0 - 1)%Z with (-1)%Z in *. change (1 - 2)%Z with (-1)%Z in *. change (0 - 2)%Z with (-2)%Z in *.
    rewrite ?zs_RS in H11. rewrite ?zs_RS in H01. rewrite ?zs_RS in H10. rs.
    assert (Hk3 : (k = 0 \/ k = 1 \/ k = 2)%Z) by lia.
    destruct Hk3 as [ -> | [ -> | -> ] ]; lra.
  - intros i j Hi Hj. unfold ex_maskA, ex_maskB. cbn [get]. destruct (j <? 2)%Z eqn:E.
    + right. split; [reflexivity|]. intros mt [<-|[]]. cbn [fst get]. now rewrite E.
    + now left.
Qed.
