(* Wavefront.insert(out, weight): the caller's array receives weight * |Wavefront.field|^2, for any
   array shape (the wavefront is laid centre on centre) and any weight (C02, deepen). *)
From LV Require Import Model.Propagate Proofs.ArrP Proofs.ExtentP Proofs.FieldP Proofs.DftP Proofs.PropagateP.
From Coq Require Import Permutation.

Section InsertP.
Variable S : Scalar.
Hypothesis Sring : is_ring S.
Hypothesis Skernel : kernel_laws S.
Variable sq : Qc -> S.
Add Ring Sr : Sring.

(* field.insert(intensity=True, weight) over the reduced fields = out + w * |sum of embeddings|^2 *)
Theorem accumulate_spec (fs : list (field S)) (out : arr S) (w : S) : 0 < nr out -> 0 < nc out ->
  (forall f, In f fs -> sized S f /\ fbounded S f) ->
  exists o, accumulate fs out w = Ok o /\ nr o = nr out /\ nc o = nc out /\
    (forall i j, 0 <= i < nr out -> 0 <= j < nc out ->
      get o i j = (get out i j
                   + norm2 (lsum S (map (fun f => embed f (i - nr out / 2) (j - nc out / 2)) fs)) * w)%K).
Proof.
  intros Hn Hm H.
  assert (Hok : forall f, In f fs -> fok S f).
  { intros f Hf. destruct (H f Hf) as [(d & Hd & Hd1 & Hd2) Hb]. split; [unfold fvalid; rewrite Hd; lia|exact Hb]. }
  destruct (acc_from S Sring norm2 w (reduce fs) (norm2_0 S Sring) out Hn Hm (reduce_sized S fs H))
    as (o & Ho & N & M & G).
  exists o. split; [exact Ho|]. repeat split; try assumption.
  intros i j Hi Hj. rewrite G by assumption. f_equal.
  set (u := i - nr out / 2). set (v := j - nc out / 2).
  rewrite (@lsum_map_scale S Sring _ w (fun f => norm2 (embed f u v))). f_equal.
  rewrite <- (map_map (fun f => embed f u v) norm2).
  rewrite (lsum_norm2_disjoint S Sring).
  - rewrite <- !(embed_sum_lsum S Sring). rewrite (reduce_total S Sring fs u v Hok). reflexivity.
  - apply (fop_map (fun a b : field S => intersect (fextent a) (fextent b) = false)).
    + intros a b Hab. now apply disjoint_one_zero.
    + apply (reduce_disjoint S fs Hok).
Qed.

(* the fields propagate_dft returns are sized and bounded *)
Lemma propagate_dft_fields_ok shift_of (w : wavefront S) dur duc shape pshape os mask dxr dxc Sr Sc Pr Pc b :
  wptype w <> PtNone -> wps w = Some (dxr, dxc) ->
  (forall f, In f (wdata w) -> exists a, fd f = D2 a) ->
  match shape with None => wshape w | Some s => s end = (Sr, Sc) ->
  match pshape with None => (Sr, Sc) | Some p => p end = (Pr, Pc) ->
  0 < Sr -> 0 < Sc -> 0 < Pr -> 0 < Pc -> 1 <= os -> Sr * os < maxsize -> Sc * os < maxsize ->
  (forall m, mask = Some m -> mnr m = Sr * os /\ mnc m = Sc * os) ->
  mask_bbox mask (Sr * os) (Sc * os) = Ok b ->
  exists w', propagate_dft sq shift_of w dur duc shape pshape os mask = Ok w' /\
    forall g, In g (wdata w') -> sized S g /\ fbounded S g.
Proof.
  intros Hpt Hps Hd Hshape Hpshape HSr HSc HPr HPc Hos HbR HbC Hm Hb.
  set (ar := dft_alpha1 dxr dur (wwl w) (wfocal w) os). set (ac := dft_alpha1 dxc duc (wwl w) (wfocal w) os).
  assert (HRo : 0 < Sr * os) by nia. assert (HCo : 0 < Sc * os) by nia.
  assert (HPro : 0 < Pr * os) by nia. assert (HPco : 0 < Pc * os) by nia.
  destruct (out_extent_spec (Sr * os) (Sc * os) mask b HRo HCo Hm Hb) as (oe & Hoe & Hv & Hin).
  pose proof (mask_bbox_in_array mask (Sr * os) (Sc * os) b HRo HCo Hm Hb) as Hbb.
  destruct (prop_fields_spec S Sring Skernel sq shift_of oe (Pr * os) (Pc * os) ar ac (wdata w) Hv HPro HPco Hd)
    as (l & Hl & Sl & El).
  pose proof (prop_fields_extent S sq shift_of oe (Pr * os) (Pc * os) (Some (ar, ac)) (wdata w) Hv HPro HPco l Hl) as Xl.
  assert (Hfb : forall g, In g l -> sized S g /\ fbounded S g).
  { intros g Hg. split; [now apply Sl|]. specialize (Xl g Hg). unfold fbounded.
    destruct (fextent g) as [[[g1 g2] g3] g4]. destruct oe as [[[o1 o2] o3] o4]. destruct b as [[[r1 r2] c1] c2].
    cbn in Hv. unfold esub in Xl.
    pose proof (Hin (o1 + (Sr * os) / 2) (o3 + (Sc * os) / 2)) as C1.
    pose proof (Hin (o2 + (Sr * os) / 2) (o4 + (Sc * os) / 2)) as C2.
    unfold inE, inb in C1, C2.
    set (h1 := (Sr * os) / 2) in *. set (h2 := (Sc * os) / 2) in *.
    assert (0 <= h1 <= Sr * os) by (subst h1; lia). assert (0 <= h2 <= Sc * os) by (subst h2; lia).
    clearbody h1 h2. lia. }
  unfold propagate_dft.
  destruct (wptype w) eqn:Ept; [congruence| |]; cbn [propagate_ptype rbind];
    rewrite Hshape, Hpshape, Hoe; cbn [rbind]; rewrite Hps; fold ar ac; rewrite Hl; cbn [rbind];
    (eexists; split; [reflexivity|]); cbn [wdata]; exact Hfb.
Qed.

(* Wavefront.insert on the propagated wavefront *)
Theorem propagate_dft_insert shift_of (w : wavefront S) dur duc shape pshape os mask dxr dxc Sr Sc Pr Pc b
        (out : arr S) (weight : S) :
  wptype w <> PtNone -> wps w = Some (dxr, dxc) ->
  (forall f, In f (wdata w) -> exists a, fd f = D2 a) ->
  match shape with None => wshape w | Some s => s end = (Sr, Sc) ->
  match pshape with None => (Sr, Sc) | Some p => p end = (Pr, Pc) ->
  0 < Sr -> 0 < Sc -> 0 < Pr -> 0 < Pc -> 1 <= os -> Sr * os < maxsize -> Sc * os < maxsize ->
  (forall m, mask = Some m -> mnr m = Sr * os /\ mnc m = Sc * os) ->
  mask_bbox mask (Sr * os) (Sc * os) = Ok b ->
  0 < nr out -> 0 < nc out ->
  exists w' o r, propagate_dft sq shift_of w dur duc shape pshape os mask = Ok w' /\
    render (wdata w') (nr out) (nc out) = Ok o /\
    winsert w' out weight = Ok r /\ nr r = nr out /\ nc r = nc out /\
    (forall i j, 0 <= i < nr out -> 0 <= j < nc out ->
      get r i j = (get out i j + (get o i j * kconj (get o i j)) * weight)%K).
Proof.
  intros Hpt Hps Hd Hshape Hpshape HSr HSc HPr HPc Hos HbR HbC Hm Hb Hn Hmm.
  destruct (propagate_dft_fields_ok shift_of w dur duc shape pshape os mask dxr dxc Sr Sc Pr Pc b
              Hpt Hps Hd Hshape Hpshape HSr HSc HPr HPc Hos HbR HbC Hm Hb) as (w' & Hw & Hf).
  destruct (render_spec S Sring (wdata w') (nr out) (nc out) Hn Hmm (fun g Hg => proj1 (Hf g Hg))) as (o & Ho & N & M & G).
  destruct (accumulate_spec (wdata w') out weight Hn Hmm Hf) as (r & Hr & Nr & Mr & Gr).
  exists w', o, r. split; [exact Hw|]. split; [exact Ho|]. split; [exact Hr|]. split; [exact Nr|]. split; [exact Mr|].
  intros i j Hi Hj. rewrite Gr, G by assumption. reflexivity.
Qed.

(* the order of the fields in the wavefront (the order of the segments of a plane, the order of the loop)
   does not matter for Wavefront.field of the result, whatever the shifts *)
Theorem propagate_dft_field_order shift_of (w1 w2 : wavefront S) dur duc shape pshape os mask dxr dxc Sr Sc Pr Pc b :
  Permutation (wdata w1) (wdata w2) ->
  wwl w1 = wwl w2 -> wfocal w1 = wfocal w2 -> wshape w1 = wshape w2 ->
  wptype w1 <> PtNone -> wptype w2 <> PtNone -> wps w1 = Some (dxr, dxc) -> wps w2 = Some (dxr, dxc) ->
  (forall f, In f (wdata w1) -> exists a, fd f = D2 a) ->
  match shape with None => wshape w1 | Some s => s end = (Sr, Sc) ->
  match pshape with None => (Sr, Sc) | Some p => p end = (Pr, Pc) ->
  0 < Sr -> 0 < Sc -> 0 < Pr -> 0 < Pc -> 1 <= os ->
  (forall m, mask = Some m -> mnr m = Sr * os /\ mnc m = Sc * os) ->
  mask_bbox mask (Sr * os) (Sc * os) = Ok b ->
  exists w1' w2' o1 o2,
    propagate_dft sq shift_of w1 dur duc shape pshape os mask = Ok w1' /\ wfield w1' = Ok o1 /\
    propagate_dft sq shift_of w2 dur duc shape pshape os mask = Ok w2' /\ wfield w2' = Ok o2 /\
    nr o1 = nr o2 /\ nc o1 = nc o2 /\
    (forall i j, 0 <= i < Sr * os -> 0 <= j < Sc * os -> get o1 i j = get o2 i j).
Proof.
  intros Hperm Ewl Ez Esh Hp1 Hp2 Hs1 Hs2 Hd Hshape Hpshape HSr HSc HPr HPc Hos Hm Hb.
  assert (Hd2 : forall f, In f (wdata w2) -> exists a, fd f = D2 a).
  { intros f Hf. apply Hd. eapply Permutation_in; [apply Permutation_sym; exact Hperm|exact Hf]. }
  assert (Hshape2 : match shape with None => wshape w2 | Some s => s end = (Sr, Sc)) by (rewrite <- Esh; exact Hshape).
  destruct (propagate_dft_chips S Sring Skernel sq shift_of w1 dur duc shape pshape os mask dxr dxc Sr Sc Pr Pc b
              Hp1 Hs1 Hd Hshape Hpshape HSr HSc HPr HPc Hos Hm Hb) as (w1' & o1 & A1 & _ & B1 & N1 & M1 & G1).
  destruct (propagate_dft_chips S Sring Skernel sq shift_of w2 dur duc shape pshape os mask dxr dxc Sr Sc Pr Pc b
              Hp2 Hs2 Hd2 Hshape2 Hpshape HSr HSc HPr HPc Hos Hm Hb) as (w2' & o2 & A2 & _ & B2 & N2 & M2 & G2).
  exists w1', w2', o1, o2. repeat (split; [assumption|]). split; [congruence|]. split; [congruence|].
  intros i j Hi Hj. rewrite (G1 i j Hi Hj), (G2 i j Hi Hj). cbv zeta. rewrite <- Ewl, <- Ez.
  apply lsum_perm; [exact Sring|]. apply Permutation_map. exact Hperm.
Qed.

(* scale covariance: multiplying every sample of every field by a constant multiplies every sample of the
   propagated Wavefront.field by that constant (no absolute scale enters anywhere) *)
Lemma lsum_map_scale_l {A} (c : S) (t : A -> S) l :
  lsum S (map (fun f => (c * t f)%K) l) = (c * lsum S (map t l))%K.
Proof. induction l as [|x l IH]; cbn [map]; [unfold lsum; cbn; ring|]. rewrite !(lsum_cons S), IH. ring. Qed.

Theorem propagate_dft_scale_covariant shift_of (c : S) (w1 w2 : wavefront S) dur duc shape pshape os mask dxr dxc Sr Sc Pr Pc b :
  wdata w2 = map (fscale c) (wdata w1) ->
  (forall f, In f (wdata w1) -> shift_of (fscale c f) = shift_of f) ->
  wwl w1 = wwl w2 -> wfocal w1 = wfocal w2 -> wshape w1 = wshape w2 ->
  wptype w1 <> PtNone -> wptype w2 <> PtNone -> wps w1 = Some (dxr, dxc) -> wps w2 = Some (dxr, dxc) ->
  (forall f, In f (wdata w1) -> exists a, fd f = D2 a) ->
  match shape with None => wshape w1 | Some s => s end = (Sr, Sc) ->
  match pshape with None => (Sr, Sc) | Some p => p end = (Pr, Pc) ->
  0 < Sr -> 0 < Sc -> 0 < Pr -> 0 < Pc -> 1 <= os ->
  (forall m, mask = Some m -> mnr m = Sr * os /\ mnc m = Sc * os) ->
  mask_bbox mask (Sr * os) (Sc * os) = Ok b ->
  exists w1' w2' o1 o2,
    propagate_dft sq shift_of w1 dur duc shape pshape os mask = Ok w1' /\ wfield w1' = Ok o1 /\
    propagate_dft sq shift_of w2 dur duc shape pshape os mask = Ok w2' /\ wfield w2' = Ok o2 /\
    (forall i j, 0 <= i < Sr * os -> 0 <= j < Sc * os -> get o2 i j = (c * get o1 i j)%K).
Proof.
  intros Hdat Hsh Ewl Ez Esh Hp1 Hp2 Hs1 Hs2 Hd Hshape Hpshape HSr HSc HPr HPc Hos Hm Hb.
  assert (Hd2 : forall f, In f (wdata w2) -> exists a, fd f = D2 a).
  { intros f Hf. rewrite Hdat in Hf. apply in_map_iff in Hf. destruct Hf as (g & <- & Hg).
    destruct (Hd g Hg) as [a Ha]. unfold fscale. rewrite Ha. cbn [fd]. eexists; reflexivity. }
  assert (Hshape2 : match shape with None => wshape w2 | Some s => s end = (Sr, Sc)) by (rewrite <- Esh; exact Hshape).
  destruct (propagate_dft_chips S Sring Skernel sq shift_of w1 dur duc shape pshape os mask dxr dxc Sr Sc Pr Pc b
              Hp1 Hs1 Hd Hshape Hpshape HSr HSc HPr HPc Hos Hm Hb) as (w1' & o1 & A1 & _ & B1 & _ & _ & G1).
  destruct (propagate_dft_chips S Sring Skernel sq shift_of w2 dur duc shape pshape os mask dxr dxc Sr Sc Pr Pc b
              Hp2 Hs2 Hd2 Hshape2 Hpshape HSr HSc HPr HPc Hos Hm Hb) as (w2' & o2 & A2 & _ & B2 & _ & _ & G2).
  exists w1', w2', o1, o2. repeat (split; [assumption|]).
  intros i j Hi Hj. rewrite (G1 i j Hi Hj), (G2 i j Hi Hj). cbv zeta. rewrite <- Ewl, <- Ez, Hdat, map_map.
  rewrite <- lsum_map_scale_l. apply (lsum_map_ext S). intros f Hf.
  rewrite (Hsh f Hf). destruct (Hd f Hf) as [a Ha]. unfold fscale at 1 2 3. rewrite Ha. cbn [fd offr offc].
  destruct (inE b i j && _); [|ring].
  rewrite (fourier_sum_scale S Sring a c). ring.
Qed.
End InsertP.

(* the forms quoted in Properties/C02.v, with the definitions of Proofs/ unfolded *)
Theorem wavefront_insert_explicit (S : Scalar) (R : is_ring S) (fs : list (field S)) (out : arr S) (weight : S) :
  0 < nr out -> 0 < nc out ->
  (forall f, In f fs -> (exists d, fd f = D2 d /\ 0 < nr d /\ 0 < nc d) /\
                        (let '(a1, a2, a3, a4) := fextent f in
                         - maxsize < a1 /\ a2 < maxsize /\ - maxsize < a3 /\ a4 < maxsize)) ->
  exists o r, render fs (nr out) (nc out) = Ok o /\
    accumulate fs out weight = Ok r /\ nr r = nr out /\ nc r = nc out /\
    (forall i j, 0 <= i < nr out -> 0 <= j < nc out ->
      get r i j = (get out i j + (get o i j * kconj (get o i j)) * weight)%K).
Proof.
  intros Hn Hm H.
  destruct (render_spec S R fs (nr out) (nc out) Hn Hm (fun g Hg => proj1 (H g Hg))) as (o & Ho & _ & _ & G).
  destruct (accumulate_spec S R fs out weight Hn Hm H) as (r & Hr & Nr & Mr & Gr).
  exists o, r. repeat (split; [assumption|]). intros i j Hi Hj. rewrite Gr, G by assumption. reflexivity.
Qed.

Theorem propagate_focal_rule (S : Scalar) (sq : Qc -> S) (shift_of : field S -> Qc * Qc) (w w' : wavefront S)
        dur duc shape pshape os mask :
  propagate_dft sq shift_of w dur duc shape pshape os mask = Ok w' ->
  wfocal w' = match wfocal w with Some z => if Qc_eq_bool z 0%Qc then None else Some z | None => None end.
Proof.
  intros H. exact (proj1 (proj2 (propagate_metadata S sq shift_of w w' dur duc shape pshape os mask H))).
Qed.
