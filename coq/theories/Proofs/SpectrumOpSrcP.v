(* WP-T3, C13: the size of the common wavelength grid of lentil/radiometry.py:_interp_common on integer wavelength
   grids, translated from the source text on every check (Gen/SpectrumOpSrc.v) with the true division kept exact, is
   the model's (Model/Spectrum.v: [common_grid] = linspace mn mx (qceil ((mx - mn) / dw)), where the model's
   [linspace a b num] is numpy's linspace(a, b, num + 1)). *)
From LV Require Import Model.Spectrum Model.Rescale Proofs.RescaleP Proofs.SrcQ Gen.SpectrumOpSrc Proofs.SrcTac.
Open Scope Z_scope.

Lemma src_common_grid_linspace_ok : forall mn mx d : Z, 0 < d ->
  src_common_grid_linspace mn mx d =
  (mn, mx, Spectrum.qceil ((Spectrum.zq mx - Spectrum.zq mn) / Spectrum.zq d)%Qc + 1).
Proof.
  intros. change Spectrum.zq with Rescale.zq. rewrite <- zq_sub.
  change (Spectrum.qceil (Rescale.zq (mx - mn) / Rescale.zq d)%Qc) with (Rescale.qceil (Rescale.zq (mx - mn) / Rescale.zq d)%Qc).
  rewrite qceil_frac by assumption. unfold src_common_grid_linspace. src_finish.
Qed.
