(* Lemmas about Model/Geometry.v: every helper uses the origin index floor(n/2). *)
From LV Require Import Model.Field Model.Geometry.

(* ------------------------------------------------------------------ pad: one axis *)
Lemma pad_axis_spec n N i : 0 <= n -> 0 <= N -> 0 <= i < N ->
  ((pad_dst_lo n N <=? i) && (i <? pad_dst_hi n N)) = inr n (i - ctr N + ctr n) /\
  i - pad_dst_lo n N + pad_src_lo n N = i - ctr N + ctr n.
Proof.
  intros Hn HN Hi. unfold pad_dst_lo, pad_dst_hi, pad_src_lo, inr, ctr.
  destruct (N - n <=? 0) eqn:E; split; lia.
Qed.

(* the slices the code takes are inside both arrays (so numpy neither wraps nor clips them) *)
Lemma pad_axis_in_range n N : 0 <= n -> 0 <= N ->
  0 <= pad_src_lo n N <= pad_src_hi n N /\ pad_src_hi n N <= n /\
  0 <= pad_dst_lo n N <= pad_dst_hi n N /\ pad_dst_hi n N <= N /\
  pad_src_hi n N - pad_src_lo n N = pad_dst_hi n N - pad_dst_lo n N.
Proof.
  intros Hn HN. unfold pad_dst_lo, pad_dst_hi, pad_src_lo, pad_src_hi.
  destruct (N - n <=? 0) eqn:E; lia.
Qed.

Section GeometryP.
Variable S : Scalar.

Lemma pad_get_spec n m N M (g : Z -> Z -> S) i j :
  0 <= n -> 0 <= m -> 0 <= N -> 0 <= M -> 0 <= i < N -> 0 <= j < M ->
  pad_get n m N M g i j =
    if inr n (i - ctr N + ctr n) && inr m (j - ctr M + ctr m)
    then g (i - ctr N + ctr n) (j - ctr M + ctr m) else k0.
Proof.
  intros Hn Hm HN HM Hi Hj. unfold pad_get.
  destruct (pad_axis_spec n N i Hn HN Hi) as [E1 E2].
  destruct (pad_axis_spec m M j Hm HM Hj) as [E3 E4].
  rewrite <- andb_assoc, E1, E3, E2, E4. reflexivity.
Qed.

(* pad_centre, 2-D *)
Theorem pad2_spec (a : arr S) N M :
  0 <= nr a -> 0 <= nc a ->
  (0 <= N -> 0 <= M ->
     exists b, pad2 a N M = Ok b /\ nr b = N /\ nc b = M /\
       forall i j, 0 <= i < N -> 0 <= j < M ->
         get b i j = if inr (nr a) (i - ctr N + ctr (nr a)) && inr (nc a) (j - ctr M + ctr (nc a))
                     then get a (i - ctr N + ctr (nr a)) (j - ctr M + ctr (nc a)) else k0) /\
  (N < 0 \/ M < 0 -> pad2 a N M = Err ValueError).
Proof.
  intros Hn Hm. split.
  - intros HN HM. unfold pad2. replace ((N <? 0) || (M <? 0)) with false by lia.
    eexists. split; [reflexivity|]. cbn [nr nc get]. repeat split.
    intros i j Hi Hj. now apply pad_get_spec.
  - intros H. unfold pad2. replace ((N <? 0) || (M <? 0)) with true by lia. reflexivity.
Qed.

Theorem pad2_origin (a : arr S) N M b :
  0 < nr a -> 0 < nc a -> 0 < N -> 0 < M -> pad2 a N M = Ok b ->
  get b (ctr N) (ctr M) = get a (ctr (nr a)) (ctr (nc a)).
Proof.
  intros Hn Hm HN HM H. destruct (pad2_spec a N M) as [P _]; try lia.
  destruct P as (b' & Hb & _ & _ & Hg); try lia. rewrite Hb in H. injection H as <-.
  assert (Hc : forall n, 0 < n -> 0 <= ctr n < n) by (unfold ctr; intros; lia).
  rewrite Hg by (apply Hc; lia).
  replace (ctr N - ctr N + ctr (nr a)) with (ctr (nr a)) by lia.
  replace (ctr M - ctr M + ctr (nc a)) with (ctr (nc a)) by lia.
  unfold inr. pose proof (Hc _ Hn). pose proof (Hc _ Hm).
  replace ((0 <=? ctr (nr a)) && (ctr (nr a) <? nr a) && ((0 <=? ctr (nc a)) && (ctr (nc a) <? nc a))) with true by lia.
  reflexivity.
Qed.

(* pad then crop back is the identity *)
Theorem pad2_roundtrip (a : arr S) N M :
  0 <= nr a -> 0 <= nc a -> nr a <= N -> nc a <= M ->
  exists b c, pad2 a N M = Ok b /\ pad2 b (nr a) (nc a) = Ok c /\ nr c = nr a /\ nc c = nc a /\
    forall i j, 0 <= i < nr a -> 0 <= j < nc a -> get c i j = get a i j.
Proof.
  intros Hn Hm HN HM.
  destruct (pad2_spec a N M Hn Hm) as [P _]. destruct P as (b & Hb & Hbr & Hbc & Hg); try lia.
  destruct (pad2_spec b (nr a) (nc a)) as [P2 _]; try lia.
  destruct P2 as (c & Hc & Hcr & Hcc & Hg2); try lia.
  exists b, c. repeat split; try assumption.
  intros i j Hi Hj. rewrite Hg2 by assumption. rewrite Hbr, Hbc.
  unfold inr, ctr in *.
  replace ((0 <=? i - nr a / 2 + N / 2) && (i - nr a / 2 + N / 2 <? N) &&
           ((0 <=? j - nc a / 2 + M / 2) && (j - nc a / 2 + M / 2 <? M))) with true by lia.
  rewrite Hg by lia.
  replace (i - nr a / 2 + N / 2 - N / 2 + nr a / 2) with i by lia.
  replace (j - nc a / 2 + M / 2 - M / 2 + nc a / 2) with j by lia.
  replace ((0 <=? i) && (i <? nr a) && ((0 <=? j) && (j <? nc a))) with true by lia.
  reflexivity.
Qed.

(* cubes: every slice is padded like a 2-D array of shape (shape[1], shape[2]) *)
Theorem pad3_spec (c : cube S) N M :
  0 <= cr c -> 0 <= cc c ->
  (0 <= N -> 0 <= M ->
     exists b, pad3 c N M = Ok b /\ cd b = cd c /\ cr b = N /\ cc b = M /\
       forall k i j, 0 <= i < N -> 0 <= j < M ->
         cget b k i j = if inr (cr c) (i - ctr N + ctr (cr c)) && inr (cc c) (j - ctr M + ctr (cc c))
                        then cget c k (i - ctr N + ctr (cr c)) (j - ctr M + ctr (cc c)) else k0) /\
  (N < 0 \/ M < 0 -> pad3 c N M = Err ValueError).
Proof.
  intros Hn Hm. split.
  - intros HN HM. unfold pad3. replace ((N <? 0) || (M <? 0)) with false by lia.
    eexists. split; [reflexivity|]. cbn [cd cr cc cget]. repeat split.
    intros k i j Hi Hj. now apply pad_get_spec.
  - intros H. unfold pad3. replace ((N <? 0) || (M <? 0)) with true by lia. reflexivity.
Qed.

Theorem pad3_roundtrip (c : cube S) N M :
  0 <= cr c -> 0 <= cc c -> cr c <= N -> cc c <= M ->
  exists b e, pad3 c N M = Ok b /\ pad3 b (cr c) (cc c) = Ok e /\ cd e = cd c /\ cr e = cr c /\ cc e = cc c /\
    forall k i j, 0 <= i < cr c -> 0 <= j < cc c -> cget e k i j = cget c k i j.
Proof.
  intros Hn Hm HN HM.
  destruct (pad3_spec c N M Hn Hm) as [P _]. destruct P as (b & Hb & Hbd & Hbr & Hbc & Hg); try lia.
  destruct (pad3_spec b (cr c) (cc c)) as [P2 _]; try lia.
  destruct P2 as (e & He & Hed & Her & Hec & Hg2); try lia.
  exists b, e. repeat split; try assumption; try congruence.
  intros k i j Hi Hj. rewrite Hg2 by assumption. rewrite Hbr, Hbc.
  unfold inr, ctr in *.
  replace ((0 <=? i - cr c / 2 + N / 2) && (i - cr c / 2 + N / 2 <? N) &&
           ((0 <=? j - cc c / 2 + M / 2) && (j - cc c / 2 + M / 2 <? M))) with true by lia.
  rewrite Hg by lia.
  replace (i - cr c / 2 + N / 2 - N / 2 + cr c / 2) with i by lia.
  replace (j - cc c / 2 + M / 2 - M / 2 + cc c / 2) with j by lia.
  replace ((0 <=? i) && (i <? cr c) && ((0 <=? j) && (j <? cc c))) with true by lia.
  reflexivity.
Qed.

(* ------------------------------------------------------------------ subarray *)
Theorem subarray_spec (a : arr S) sr sc shr shc :
  let inside := 0 <= ctr (nr a) - ctr sr + shr /\ ctr (nr a) - ctr sr + shr + sr <= nr a /\
                0 <= ctr (nc a) - ctr sc + shc /\ ctr (nc a) - ctr sc + shc + sc <= nc a in
  (inside -> exists b, subarray a sr sc shr shc = Ok b /\ nr b = sr /\ nc b = sc /\
     forall i j, get b i j = get a (i - ctr sr + shr + ctr (nr a)) (j - ctr sc + shc + ctr (nc a))) /\
  (~ inside -> subarray a sr sc shr shc = Err ValueError).
Proof.
  cbv zeta. unfold subarray, sub_lo, ctr. split.
  - intros H.
    replace ((nr a / 2 - sr / 2 + shr <? 0) || (nc a / 2 - sc / 2 + shc <? 0)
             || (nr a / 2 - sr / 2 + shr + sr >? nr a) || (nc a / 2 - sc / 2 + shc + sc >? nc a)) with false by lia.
    eexists. split; [reflexivity|]. cbn [aslice nr nc get]. repeat split; try lia.
    intros i j. f_equal; lia.
  - intros H.
    replace ((nr a / 2 - sr / 2 + shr <? 0) || (nc a / 2 - sc / 2 + shc <? 0)
             || (nr a / 2 - sr / 2 + shr + sr >? nr a) || (nc a / 2 - sc / 2 + shc + sc >? nc a)) with true by lia.
    reflexivity.
Qed.

(* the centred sub-array is what pad returns when it crops *)
Theorem subarray_is_pad_crop (a : arr S) sr sc :
  0 <= sr <= nr a -> 0 <= sc <= nc a ->
  exists b c, subarray a sr sc 0 0 = Ok b /\ pad2 a sr sc = Ok c /\ nr b = nr c /\ nc b = nc c /\
    forall i j, 0 <= i < sr -> 0 <= j < sc -> get b i j = get c i j.
Proof.
  intros Hr Hc.
  destruct (subarray_spec a sr sc 0 0) as [P _]. cbv zeta in P.
  destruct P as (b & Hb & Hbr & Hbc & Hg); [unfold ctr; lia|].
  destruct (pad2_spec a sr sc) as [P2 _]; try lia.
  destruct P2 as (c & Hc2 & Hcr & Hcc & Hg2); try lia.
  exists b, c. repeat split; try assumption; try congruence.
  intros i j Hi Hj. rewrite Hg, Hg2 by assumption.
  unfold inr, ctr.
  replace ((0 <=? i - sr / 2 + nr a / 2) && (i - sr / 2 + nr a / 2 <? nr a) &&
           ((0 <=? j - sc / 2 + nc a / 2) && (j - sc / 2 + nc a / 2 <? nc a))) with true by lia.
  f_equal; lia.
Qed.

(* window: with only a shape it is pad; with a slice it is the numpy view *)
Lemma window_shape_is_pad (a : arr S) h w : nr a * nc a <> 1 -> window a (Some (h, w)) None = pad2 a h w.
Proof. intros H. unfold window. replace (nr a * nc a =? 1) with false by lia. reflexivity. Qed.

Lemma np_slice_in_range (a : arr S) r0 r1 c0 c1 i j :
  0 <= r0 <= r1 -> r1 <= nr a -> 0 <= c0 <= c1 -> c1 <= nc a ->
  nr (np_slice a r0 r1 c0 c1) = r1 - r0 /\ nc (np_slice a r0 r1 c0 c1) = c1 - c0 /\
  get (np_slice a r0 r1 c0 c1) i j = get a (i + r0) (j + c0).
Proof.
  intros. unfold np_slice, np_bound. cbn [nr nc get].
  replace (r0 <? 0) with false by lia. replace (r1 <? 0) with false by lia.
  replace (c0 <? 0) with false by lia. replace (c1 <? 0) with false by lia.
  repeat split; try lia. f_equal; lia.
Qed.

Theorem window_spec (a : arr S) : nr a * nc a <> 1 ->
  (forall h w, window a (Some (h, w)) None = pad2 a h w) /\
  window a None None = Ok a /\
  (forall r0 r1 c0 c1, 0 <= r0 <= r1 -> r1 <= nr a -> 0 <= c0 <= c1 -> c1 <= nc a ->
     exists b, window a None (Some (r0, r1, c0, c1)) = Ok b /\ nr b = r1 - r0 /\ nc b = c1 - c0 /\
       forall i j, get b i j = get a (i + r0) (j + c0)) /\
  (forall h w r0 r1 c0 c1, (r1 - r0 <> h \/ c1 - c0 <> w) ->
     window a (Some (h, w)) (Some (r0, r1, c0, c1)) = Err AssertionErr).
Proof.
  intros H. unfold window. replace (nr a * nc a =? 1) with false by lia. repeat split.
  - intros r0 r1 c0 c1 H0 H1 H2 H3. eexists. split; [reflexivity|].
    split; [|split]; [apply (np_slice_in_range a r0 r1 c0 c1 0 0); assumption
                     | apply (np_slice_in_range a r0 r1 c0 c1 0 0); assumption |].
    intros i j. apply (np_slice_in_range a r0 r1 c0 c1 i j); assumption.
  - intros h w r0 r1 c0 c1 Hd. destruct (r1 - r0 =? h) eqn:E1; cbn [negb]; [|reflexivity].
    destruct (c1 - c0 =? w) eqn:E2; cbn [negb]; [|reflexivity]. lia.
Qed.

(* window on a cube: with only a shape it is pad on the image axes (1, 2), whatever the depth *)
Theorem window3_shape_is_pad (c : cube S) h w : cd c * cr c * cc c <> 1 ->
  window3 c (Some (h, w)) None = pad3 c h w /\ window3 c None None = Ok c.
Proof. intros H. unfold window3. replace (cd c * cr c * cc c =? 1) with false by lia. split; reflexivity. Qed.

(* ... and with a slice every layer is the 2-D window of that layer *)
Theorem window3_slice_layers (c : cube S) r0 r1 c0 c1 k : cd c * cr c * cc c <> 1 ->
  exists b, window3 c None (Some (r0, r1, c0, c1)) = Ok b /\ cd b = cd c /\
    cr b = nr (np_slice (cslice c k) r0 r1 c0 c1) /\ cc b = nc (np_slice (cslice c k) r0 r1 c0 c1) /\
    forall i j, cget b k i j = get (np_slice (cslice c k) r0 r1 c0 c1) i j.
Proof.
  intros H. unfold window3. replace (cd c * cr c * cc c =? 1) with false by lia.
  eexists. split; [reflexivity|]. unfold np_slice3, np_slice, cslice. cbn [cd cr cc cget nr nc get].
  repeat split.
Qed.

(* ------------------------------------------------------------------ first / last *)
Lemma first_from_spec k f : forall i,
  match first_from k i f with
  | Some x => i <= x < i + Z.of_nat k /\ f x = true /\ forall y, i <= y < x -> f y = false
  | None => forall y, i <= y < i + Z.of_nat k -> f y = false
  end.
Proof.
  induction k as [|k IH]; intros i; cbn [first_from].
  - intros y Hy. lia.
  - destruct (f i) eqn:E.
    + split; [lia | split; [assumption | intros y Hy; lia]].
    + specialize (IH (i + 1)). destruct (first_from k (i + 1) f) as [x|].
      * destruct IH as (H1 & H2 & H3). split; [lia | split; [assumption |]].
        intros y Hy. destruct (Z.eq_dec y i) as [->|]; [assumption|]. apply H3. lia.
      * intros y Hy. destruct (Z.eq_dec y i) as [->|]; [assumption|]. apply IH. lia.
Qed.

Lemma last_below_spec k f :
  match last_below k f with
  | Some x => 0 <= x < Z.of_nat k /\ f x = true /\ forall y, x < y < Z.of_nat k -> f y = false
  | None => forall y, 0 <= y < Z.of_nat k -> f y = false
  end.
Proof.
  induction k as [|k IH]; cbn [last_below].
  - intros y Hy. lia.
  - destruct (f (Z.of_nat k)) eqn:E.
    + split; [lia | split; [assumption | intros y Hy; lia]].
    + destruct (last_below k f) as [x|].
      * destruct IH as (H1 & H2 & H3). split; [lia | split; [assumption |]].
        intros y Hy. destruct (Z.eq_dec y (Z.of_nat k)) as [->|]; [assumption|]. apply H3. lia.
      * intros y Hy. destruct (Z.eq_dec y (Z.of_nat k)) as [->|]; [assumption|]. apply IH. lia.
Qed.

Lemma first_true_spec n f :
  match first_true n f with
  | Some x => 0 <= x < n /\ f x = true /\ forall y, 0 <= y < x -> f y = false
  | None => forall y, 0 <= y < n -> f y = false
  end.
Proof.
  unfold first_true. pose proof (first_from_spec (Z.to_nat n) f 0) as H.
  destruct (first_from (Z.to_nat n) 0 f) as [x|].
  - destruct H as (H1 & H2 & H3). split; [lia | split; [assumption |]]. intros y Hy. apply H3. lia.
  - intros y Hy. apply H. lia.
Qed.

Lemma last_true_spec n f :
  match last_true n f with
  | Some x => 0 <= x < n /\ f x = true /\ forall y, x < y < n -> f y = false
  | None => forall y, 0 <= y < n -> f y = false
  end.
Proof.
  unfold last_true. pose proof (last_below_spec (Z.to_nat n) f) as H.
  destruct (last_below (Z.to_nat n) f) as [x|].
  - destruct H as (H1 & H2 & H3). split; [lia | split; [assumption |]]. intros y Hy. apply H3. lia.
  - intros y Hy. apply H. lia.
Qed.

Lemma anyZ_true n f : anyZ n f = true <-> exists y, 0 <= y < n /\ f y = true.
Proof.
  unfold anyZ. pose proof (first_true_spec n f) as H. destruct (first_true n f) as [x|].
  - split; [intros _; exists x; tauto | reflexivity].
  - split; [discriminate|]. intros (y & Hy & E). rewrite H in E by assumption. discriminate.
Qed.
Lemma anyZ_false n f : anyZ n f = false <-> forall y, 0 <= y < n -> f y = false.
Proof.
  split.
  - intros H y Hy. destruct (f y) eqn:E; [|reflexivity].
    assert (anyZ n f = true) by (apply anyZ_true; eauto). congruence.
  - intros H. destruct (anyZ n f) eqn:E; [|reflexivity].
    apply anyZ_true in E. destruct E as (y & Hy & E). rewrite H in E by assumption. discriminate.
Qed.

(* ------------------------------------------------------------------ boundary *)
Definition passes (p : S -> bool) (a : arr S) (i j : Z) : Prop :=
  0 <= i < nr a /\ 0 <= j < nc a /\ p (get a i j) = true.

Theorem boundary_spec (p : S -> bool) (a : arr S) :
  match boundary p a with
  | Ok (r0, r1, c0, c1) =>
      (forall i j, passes p a i j -> r0 <= i <= r1 /\ c0 <= j <= c1) /\
      (exists j, passes p a r0 j) /\ (exists j, passes p a r1 j) /\
      (exists i, passes p a i c0) /\ (exists i, passes p a i c1)
  | Err e => e = IndexError /\ forall i j, ~ passes p a i j
  end.
Proof.
  unfold boundary.
  pose proof (first_true_spec (nr a) (row_any p a)) as F1.
  pose proof (last_true_spec (nr a) (row_any p a)) as L1.
  pose proof (first_true_spec (nc a) (col_any p a)) as F2.
  pose proof (last_true_spec (nc a) (col_any p a)) as L2.
  assert (RA : forall i j, passes p a i j -> row_any p a i = true).
  { intros i j (Hi & Hj & E). unfold row_any. apply anyZ_true. eauto. }
  assert (CA : forall i j, passes p a i j -> col_any p a j = true).
  { intros i j (Hi & Hj & E). unfold col_any. apply anyZ_true. eauto. }
  assert (RE : forall i, 0 <= i < nr a -> row_any p a i = true -> exists j, passes p a i j).
  { intros i Hi E. unfold row_any in E. apply anyZ_true in E. destruct E as (j & Hj & E).
    exists j. unfold passes. tauto. }
  assert (CE : forall j, 0 <= j < nc a -> col_any p a j = true -> exists i, passes p a i j).
  { intros j Hj E. unfold col_any in E. apply anyZ_true in E. destruct E as (i & Hi & E).
    exists i. unfold passes. tauto. }
  destruct (first_true (nr a) (row_any p a)) as [r0|].
  2:{ destruct (last_true (nr a) (row_any p a)); split; try reflexivity;
      intros i j Hp; pose proof (RA _ _ Hp) as E; destruct Hp as (Hi & _); rewrite F1 in E by assumption; discriminate. }
  destruct (last_true (nr a) (row_any p a)) as [r1|].
  2:{ split; try reflexivity.
      intros i j Hp; pose proof (RA _ _ Hp) as E; destruct Hp as (Hi & _); rewrite L1 in E by assumption; discriminate. }
  destruct (first_true (nc a) (col_any p a)) as [c0|].
  2:{ destruct (last_true (nc a) (col_any p a)); split; try reflexivity;
      intros i j Hp; pose proof (CA _ _ Hp) as E; destruct Hp as (_ & Hj & _); rewrite F2 in E by assumption; discriminate. }
  destruct (last_true (nc a) (col_any p a)) as [c1|].
  2:{ split; try reflexivity.
      intros i j Hp; pose proof (CA _ _ Hp) as E; destruct Hp as (_ & Hj & _); rewrite L2 in E by assumption; discriminate. }
  destruct F1 as (F1a & F1b & F1c), L1 as (L1a & L1b & L1c), F2 as (F2a & F2b & F2c), L2 as (L2a & L2b & L2c).
  split; [|repeat split; [apply RE | apply RE | apply CE | apply CE]; assumption].
  intros i j Hp. pose proof (RA _ _ Hp) as E1. pose proof (CA _ _ Hp) as E2. destruct Hp as (Hi & Hj & _).
  assert (~ i < r0) by (intros C; rewrite F1c in E1 by lia; discriminate).
  assert (~ r1 < i) by (intros C; rewrite L1c in E1 by lia; discriminate).
  assert (~ j < c0) by (intros C; rewrite F2c in E2 by lia; discriminate).
  assert (~ c1 < j) by (intros C; rewrite L2c in E2 by lia; discriminate).
  lia.
Qed.

(* the box is inside the array and non-empty *)
Lemma boundary_in_range (p : S -> bool) (a : arr S) r0 r1 c0 c1 :
  boundary p a = Ok (r0, r1, c0, c1) -> 0 <= r0 <= r1 /\ r1 < nr a /\ 0 <= c0 <= c1 /\ c1 < nc a.
Proof.
  intros H. pose proof (boundary_spec p a) as B. rewrite H in B.
  destruct B as (B0 & (j0 & P0) & (j1 & P1) & (i0 & P2) & (i1 & P3)).
  pose proof (B0 _ _ P0). pose proof (B0 _ _ P1). pose proof (B0 _ _ P2). pose proof (B0 _ _ P3).
  unfold passes in *. lia.
Qed.

(* ------------------------------------------------------------------ boundary_slice / slice_offset *)
(* slice_offset uses the floor(./2) convention of Model/Extent.v:array_extent: the extent of a field
   holding x[r0:r1, c0:c1] at that offset is the box of the slice in coordinates relative to the
   origin sample of x *)
Theorem slice_offset_extent r0 r1 c0 c1 n m :
  let off := slice_offset (SlBox r0 r1 c0 c1) n m in
  array_extent (r1 - r0) (c1 - c0) (fst off) (snd off) = (r0 - ctr n, r1 - 1 - ctr n, c0 - ctr m, c1 - 1 - ctr m).
Proof. cbv zeta. unfold slice_offset, array_extent, ctr. cbn [fst snd]. cbv zeta.
  set (d := (r1 - r0) / 2). set (e := (c1 - c0) / 2). clearbody d e.
  assert (E : forall a b c d a' b' c' d' : Z, a = a' -> b = b' -> c = c' -> d = d' -> (a, b, c, d) = (a', b', c', d'))
    by (intros; subst; reflexivity).
  apply E; lia. Qed.

Theorem slice_offset_is_centre r0 r1 c0 c1 n m :
  slice_offset (SlBox r0 r1 c0 c1) n m = (r0 + ctr (r1 - r0) - ctr n, c0 + ctr (c1 - c0) - ctr m).
Proof. reflexivity. Qed.

(* a field made of any in-range slice of x at slice_offset embeds back onto x *)
Theorem slice_embeds (x : arr S) r0 r1 c0 c1 i j :
  0 <= r0 < r1 -> r1 <= nr x -> 0 <= c0 < c1 -> c1 <= nc x ->
  let off := slice_offset (SlBox r0 r1 c0 c1) (nr x) (nc x) in
  embed (mkField (D2 (aslice x r0 r1 c0 c1)) (fst off) (snd off) []) (i - ctr (nr x)) (j - ctr (nc x)) =
    if inb r0 (r1 - 1) i && inb c0 (c1 - 1) j then get x i j else k0.
Proof.
  intros Hr Hr1 Hc Hc1. cbv zeta. unfold embed, fextent. cbn [fd dshape offr offc aslice nr nc].
  rewrite slice_offset_extent. cbn [dget get]. unfold inb, ctr.
  destruct ((r0 <=? i) && (i <=? r1 - 1) && ((c0 <=? j) && (j <=? c1 - 1))) eqn:E.
  - replace ((r0 - nr x / 2 <=? i - nr x / 2) && (i - nr x / 2 <=? r1 - 1 - nr x / 2) &&
             ((c0 - nc x / 2 <=? j - nc x / 2) && (j - nc x / 2 <=? c1 - 1 - nc x / 2))) with true by lia.
    cbn [aslice get]. f_equal; lia.
  - replace ((r0 - nr x / 2 <=? i - nr x / 2) && (i - nr x / 2 <=? r1 - 1 - nr x / 2) &&
             ((c0 - nc x / 2 <=? j - nc x / 2) && (j - nc x / 2 <=? c1 - 1 - nc x / 2))) with false by lia.
    reflexivity.
Qed.

(* the lemma C03 uses: Field(x[boundary_slice(x)], slice_offset(...)) is x, provided the samples
   that do not pass the threshold are zero (a mask, or non-negative data with threshold 0) *)
Theorem boundary_slice_embeds (p : S -> bool) (x : arr S) pr pc r0 r1 c0 c1 :
  0 <= pr -> 0 <= pc ->
  (forall i j, 0 <= i < nr x -> 0 <= j < nc x -> p (get x i j) = false -> get x i j = k0) ->
  boundary_slice p x pr pc = Ok (r0, r1, c0, c1) ->
  0 <= r0 < r1 /\ r1 <= nr x /\ 0 <= c0 < c1 /\ c1 <= nc x /\
  let off := slice_offset (SlBox r0 r1 c0 c1) (nr x) (nc x) in
  forall i j, 0 <= i < nr x -> 0 <= j < nc x ->
    get x i j = embed (mkField (D2 (aslice x r0 r1 c0 c1)) (fst off) (snd off) [])
                      (i - ctr (nr x)) (j - ctr (nc x)).
Proof.
  intros Hpr Hpc Hz H. unfold boundary_slice in H.
  destruct (boundary p x) as [[[[b0 b1] b2] b3]|e] eqn:B; [|discriminate].
  pose proof (boundary_in_range _ _ _ _ _ _ B) as R.
  pose proof (boundary_spec p x) as BS. rewrite B in BS. destruct BS as (Hin & _).
  cbn [bslice_of] in H. injection H as <- <- <- <-.
  assert (Hb : 0 <= Z.max (b0 - pr) 0 < Z.min (b1 + pr + 1) (nr x) /\ Z.min (b1 + pr + 1) (nr x) <= nr x /\
               0 <= Z.max (b2 - pc) 0 < Z.min (b3 + pc + 1) (nc x) /\ Z.min (b3 + pc + 1) (nc x) <= nc x) by lia.
  destruct Hb as (Hb1 & Hb2 & Hb3 & Hb4). repeat split; try lia.
  cbv zeta. intros i j Hi Hj. rewrite slice_embeds by assumption.
  unfold inb.
  destruct ((Z.max (b0 - pr) 0 <=? i) && (i <=? Z.min (b1 + pr + 1) (nr x) - 1) &&
            ((Z.max (b2 - pc) 0 <=? j) && (j <=? Z.min (b3 + pc + 1) (nc x) - 1))) eqn:E; [reflexivity|].
  apply Hz; try assumption.
  destruct (p (get x i j)) eqn:Ep; [|reflexivity].
  assert (P : passes p x i j) by (unfold passes; tauto).
  specialize (Hin _ _ P). lia.
Qed.

(* boundary_slice without padding is the bounding box as half-open slices *)
Lemma boundary_slice_nopad (p : S -> bool) (x : arr S) r0 r1 c0 c1 :
  boundary p x = Ok (r0, r1, c0, c1) -> boundary_slice p x 0 0 = Ok (r0, r1 + 1, c0, c1 + 1).
Proof.
  intros B. pose proof (boundary_in_range _ _ _ _ _ _ B). unfold boundary_slice. rewrite B.
  unfold bslice_of. f_equal.
  replace (Z.max (r0 - 0) 0) with r0 by lia. replace (Z.min (r1 + 0 + 1) (nr x)) with (r1 + 1) by lia.
  replace (Z.max (c0 - 0) 0) with c0 by lia. replace (Z.min (c1 + 0 + 1) (nc x)) with (c1 + 1) by lia.
  reflexivity.
Qed.

(* ------------------------------------------------------------------ rebin *)
Hypothesis Sring : is_ring S.
Add Ring Sr : Sring.

Lemma sumZ_blocks n f (g : Z -> S) : 0 <= n -> 0 <= f ->
  sumZ (n * f) g = sumZ n (fun i => sumZ f (fun u => g (i * f + u))).
Proof.
  intros Hn Hf. revert n Hn. apply natlike_ind.
  - reflexivity.
  - intros n Hn IH. unfold Z.succ. rewrite (sumZ_succ S Sring) by assumption.
    replace ((n + 1) * f) with (n * f + f) by lia.
    rewrite (sumZ_split S Sring) by nia. rewrite IH. reflexivity.
Qed.

Lemma rebin_total n m f (g : Z -> Z -> S) : 0 <= n -> 0 <= m -> 0 < f ->
  sumZ n (fun i => sumZ m (fun j => rebin_get f g i j)) =
  sumZ (n * f) (fun i => sumZ (m * f) (fun j => g i j)).
Proof.
  intros Hn Hm Hf. rewrite sumZ_blocks by lia.
  apply sumZ_ext. intros i Hi. unfold rebin_get.
  (* sum_j sum_u sum_v = sum_u sum_j sum_v *)
  rewrite (sumZ_exchange S Sring). apply sumZ_ext. intros u Hu.
  rewrite sumZ_blocks by lia. reflexivity.
Qed.

Lemma reshape_ok_div n m f : 0 < n -> 0 < m -> 0 < f -> reshape_ok n m f = true ->
  n / f * f = n /\ m / f * f = m.
Proof.
  unfold reshape_ok. intros Hn Hm Hf H. apply Z.eqb_eq in H.
  assert (A : 0 <= n / f * f <= n) by (split; [apply Z.mul_nonneg_nonneg; try lia; apply Z.div_pos; lia
                                              | rewrite Z.mul_comm; apply Z.mul_div_le; lia]).
  assert (B : 0 <= m / f * f <= m) by (split; [apply Z.mul_nonneg_nonneg; try lia; apply Z.div_pos; lia
                                              | rewrite Z.mul_comm; apply Z.mul_div_le; lia]).
  set (x := n / f * f) in *. set (y := m / f * f) in *. clearbody x y. nia.
Qed.

Lemma sumZ_empty_inner n (h : Z -> Z -> S) m : m <= 0 -> sumZ n (fun i => sumZ m (h i)) = k0.
Proof. intros H. apply (sumZ_zero_ext S Sring). intros i _. apply (sumZ_nonpos S). assumption. Qed.

Theorem rebin2_sum (a : arr S) f b : 0 <= nr a -> 0 <= nc a -> rebin2 a f = Ok b ->
  0 < f /\ nr b = nr a / f /\ nc b = nc a / f /\ asum b = asum a.
Proof.
  intros Hn Hm H. unfold rebin2 in H.
  destruct (f <=? 0) eqn:Ef; [discriminate|].
  destruct (reshape_ok (nr a) (nc a) f) eqn:Er; cbn [negb] in H; [|discriminate].
  injection H as <-. cbn [nr nc]. repeat split; try lia.
  unfold asum. cbn [nr nc get].
  destruct (Z.eq_dec (nr a) 0) as [E0|E0].
  { rewrite E0. rewrite Z.div_0_l by lia. reflexivity. }
  destruct (Z.eq_dec (nc a) 0) as [E1|E1].
  { rewrite E1. rewrite Z.div_0_l by lia. rewrite !sumZ_empty_inner by lia. reflexivity. }
  destruct (reshape_ok_div (nr a) (nc a) f) as [D1 D2]; try lia; try assumption.
  assert (0 <= nr a / f) by (apply Z.div_pos; lia). assert (0 <= nc a / f) by (apply Z.div_pos; lia).
  rewrite rebin_total by lia. rewrite D1, D2. reflexivity.
Qed.

(* divisible sizes are accepted, anything else (positive sizes) is refused like numpy's reshape *)
Lemma rebin2_accepts (a : arr S) f : 0 < f -> 0 < nr a -> 0 < nc a ->
  ((nr a mod f = 0 /\ nc a mod f = 0) <-> exists b, rebin2 a f = Ok b).
Proof.
  intros Hf Hn Hm. unfold rebin2. replace (f <=? 0) with false by lia. split.
  - intros [D1 D2]. unfold reshape_ok.
    replace (nr a / f * f * (nc a / f * f) =? nr a * nc a) with true.
    + cbn [negb]. eauto.
    + symmetry. apply Z.eqb_eq. rewrite (Z.mul_comm (nr a / f)), (Z.mul_comm (nc a / f)).
      rewrite <- !Z_div_exact_full_2 by lia. reflexivity.
  - intros [b H]. destruct (reshape_ok (nr a) (nc a) f) eqn:E; cbn [negb] in H; [|discriminate].
    destruct (reshape_ok_div _ _ _ Hn Hm Hf E) as [D1 D2].
    split; [rewrite <- D1 | rewrite <- D2]; apply Z_mod_mult.
Qed.

(* a double sum of a function supported on one sample *)
Lemma sum2_delta n m i0 j0 (h : Z -> Z -> S) : 0 <= i0 < n -> 0 <= j0 < m ->
  sumZ n (fun i => sumZ m (fun j => if (i =? i0) && (j =? j0) then h i j else k0)) = h i0 j0.
Proof.
  intros Hi Hj.
  rewrite (sumZ_ext S n _ (fun i => if i =? i0 then h i j0 else k0)).
  - apply (sumZ_delta S Sring n i0 (fun i => h i j0)). assumption.
  - intros i _. destruct (i =? i0); cbn [andb].
    + apply (sumZ_delta S Sring m j0 (h i)). assumption.
    + apply (sumZ_zero S Sring).
Qed.

Theorem rebin3_sum (c : cube S) f b : 0 <= cr c -> 0 <= cc c -> rebin3 c f = Ok b ->
  0 < f /\ cd b = cd c /\ cr b = cr c / f /\ cc b = cc c / f /\
  (forall k, 0 <= k < cd c -> asum (cslice b k) = asum (cslice c k)) /\ csum b = csum c.
Proof.
  intros Hn Hm H. unfold rebin3 in H.
  destruct (f <=? 0) eqn:Ef; [discriminate|].
  destruct ((0 <? cd c) && negb (reshape_ok (cr c) (cc c) f)) eqn:Er; [discriminate|].
  injection H as <-. cbn [cd cr cc].
  assert (P : forall k, 0 <= k < cd c ->
     asum (cslice (mkCube (cd c) (cr c / f) (cc c / f) (fun k0 => rebin_get f (cget c k0))) k) = asum (cslice c k)).
  { intros k Hk. replace (0 <? cd c) with true in Er by lia. cbn [andb] in Er.
    destruct (reshape_ok (cr c) (cc c) f) eqn:E; [|discriminate].
    unfold cslice. cbn [cr cc cget].
    pose proof (rebin2_sum (mkArr (cr c) (cc c) (cget c k)) f (mkArr (cr c / f) (cc c / f) (rebin_get f (cget c k)))) as R.
    unfold rebin2 in R. cbn [nr nc get] in R.
    rewrite Ef, E in R. cbn [negb] in R. apply (R Hn Hm eq_refl). }
  repeat split; try lia; try assumption.
  unfold csum. cbn [cd]. apply sumZ_ext. assumption.
Qed.

End GeometryP.

(* ------------------------------------------------------------------ centroid (rationals) *)
Lemma QS_ring : is_ring QS. Proof. exact Qcrt. Qed.

Theorem centroid_impulse (a : arr QS) i0 j0 (v : Qc) :
  0 <= i0 < nr a -> 0 <= j0 < nc a -> v <> 0%Qc ->
  (forall i j, 0 <= i < nr a -> 0 <= j < nc a -> get a i j = if (i =? i0) && (j =? j0) then v else 0%Qc) ->
  centroid a = (zq i0, zq j0).
Proof.
  intros Hi Hj Hv Ha. unfold centroid.
  assert (T : asum a = v).
  { unfold asum.
    rewrite (sumZ_ext QS (nr a) _ (fun i => @sumZ QS (nc a) (fun j => if (i =? i0) && (j =? j0) then v else @k0 QS))).
    - apply (sum2_delta QS QS_ring (nr a) (nc a) i0 j0 (fun _ _ => v)); assumption.
    - intros i Hi'. apply sumZ_ext. intros j Hj'. apply Ha; assumption. }
  rewrite T.
  assert (D : forall w : Qc, (w * (v / v) = w)%Qc).
  { intros w. unfold Qcdiv. rewrite Qcmult_inv_r by assumption. ring. }
  assert (Z0 : forall w : Qc, (w * (0 / v) = 0)%Qc) by (intros w; unfold Qcdiv; ring).
  f_equal.
  - rewrite (sumZ_ext QS (nr a) _ (fun i => @sumZ QS (nc a) (fun j => if (i =? i0) && (j =? j0) then zq i else @k0 QS))).
    + apply (sum2_delta QS QS_ring (nr a) (nc a) i0 j0 (fun i _ => zq i)); assumption.
    + intros i Hi'. apply sumZ_ext. intros j Hj'. rewrite Ha by assumption.
      destruct ((i =? i0) && (j =? j0)); [apply D | apply Z0].
  - rewrite (sumZ_ext QS (nr a) _ (fun i => @sumZ QS (nc a) (fun j => if (i =? i0) && (j =? j0) then zq j else @k0 QS))).
    + apply (sum2_delta QS QS_ring (nr a) (nc a) i0 j0 (fun _ j => zq j)); assumption.
    + intros i Hi'. apply sumZ_ext. intros j Hj'. rewrite Ha by assumption.
      destruct ((i =? i0) && (j =? j0)); [apply D | apply Z0].
Qed.

(* ------------------------------------------------------------------ entry-point glue *)
Theorem rebin_entry_spec (S : Scalar) (a : arr S) (c : cube S) (f : Z) :
  rebin2_entry true a f = Err ValueError /\ rebin3_entry true c f = Err ValueError /\
  rebin2_entry false a f = rebin2 a f /\ rebin3_entry false c f = rebin3 c f.
Proof. repeat split. Qed.

Theorem sanitize_shape_spec :
  (forall s, sanitize_shape (ShScalar s) = [s; s]) /\ (forall l, sanitize_shape (ShSeq l) = l) /\
  (forall a, sanitize_shape (ShSeq (sanitize_shape a)) = sanitize_shape a).
Proof. repeat split. Qed.

Theorem slice_offset_ell_spec n m :
  slice_offset_ell EllBare = Ok (slice_offset SlEllipsis n m) /\ slice_offset_ell EllAll = Ok (0, 0) /\
  slice_offset_ell EllOther = Err ValueError.
Proof. repeat split. Qed.
