(* C10 - lemmas about the purity model (Model/Purity.v). *)
From LV Require Import Lib.Base Model.Purity.
#[local] Arguments visible : simpl never.

(* ------------------------------------------------------------------ lists *)
Lemma lset_length {A} (l : list A) i x : length (lset l i x) = length l.
Proof. revert i; induction l as [|y t IH]; intros [|i]; cbn; auto. Qed.
Lemma nth_lset_other {A} (l : list A) i j x : i <> j -> nth_error (lset l i x) j = nth_error l j.
Proof. revert i j; induction l as [|y t IH]; intros [|i] [|j] H; cbn; auto; try congruence. Qed.
Lemma nth_lset_same {A} (l : list A) i x : (i < length l)%nat -> nth_error (lset l i x) i = Some x.
Proof. revert i; induction l as [|y t IH]; intros [|i] H; cbn in *; auto; try lia. apply IH; lia. Qed.
Lemma nth_app_old {A} (l r : list A) i : (i < length l)%nat -> nth_error (l ++ r) i = nth_error l i.
Proof. intros; apply nth_error_app1; auto. Qed.
Lemma in_flat_map_lset {A B} (f : A -> list B) (l : list A) j x b :
  In b (flat_map f (lset l j x)) -> In b (flat_map f l) \/ In b (f x).
Proof.
  revert j; induction l as [|y t IH]; intros [|j]; cbn; auto; rewrite !in_app_iff.
  - intros [H|H]; auto.
  - intros [H|H]; auto. destruct (IH _ H); auto.
Qed.
Lemma hget_lt h i c : hget h i = Some c -> (i < length h)%nat.
Proof. unfold hget. intros H. apply nth_error_Some. congruence. Qed.

(* ------------------------------------------------------------------ visibility *)
Lemma vis_iff s i : In i (visible s) <-> In i (flat_map vslots (env s)) \/ In i (flat_map oslots (ob s)).
Proof. unfold visible. apply in_app_iff. Qed.
Lemma getarr_visible s r a : getarr s r = Some a -> In a (visible s).
Proof.
  unfold getarr. destruct (nth_error (env s) r) as [[x| |]|] eqn:E; try discriminate.
  intros [= ->]. apply vis_iff; left. apply in_flat_map. exists (VArr a); split; [eapply nth_error_In; eauto|cbn; auto].
Qed.
Lemma getobj_visible s r j o : getobj s r = Some (j, o) -> incl (oslots o) (visible s).
Proof.
  unfold getobj. destruct (nth_error (env s) r) as [[x|k|]|]; try discriminate.
  destruct (nth_error (ob s) k) eqn:E; try discriminate. intros [= <- <-] i Hi.
  apply vis_iff; right. apply in_flat_map. exists o0; split; [eapply nth_error_In; eauto|auto].
Qed.
Lemma getobj_lt s r j o : getobj s r = Some (j, o) -> (j < length (ob s))%nat /\ nth_error (ob s) j = Some o.
Proof.
  unfold getobj. destruct (nth_error (env s) r) as [[x|k|]|]; try discriminate.
  destruct (nth_error (ob s) k) eqn:E; try discriminate. intros [= <- <-]. split; auto.
  apply nth_error_Some; congruence.
Qed.
Lemma plane_vis s p j a d m tl n k :
  getobj s p = Some (j, Plane a d m tl n k) -> In a (visible s) /\ In d (visible s) /\ In m (visible s).
Proof. intros H. pose proof (getobj_visible _ _ _ _ H) as I. cbn in I. repeat split; apply I; cbn; auto. Qed.
Lemma wave_vis s p j fs f : getobj s p = Some (j, Wave fs) -> In f fs -> In (f_data f) (visible s).
Proof. intros H Hf. apply (getobj_visible _ _ _ _ H). cbn. apply in_map; auto. Qed.
Lemma spec_vis s p j w v : getobj s p = Some (j, Spec w v) -> In w (visible s) /\ In v (visible s).
Proof. intros H. pose proof (getobj_visible _ _ _ _ H) as I. cbn in I. split; apply I; cbn; auto. Qed.

(* ------------------------------------------------------------------ transitions inside one call *)
(* an id the caller could already see, or a buffer allocated since the call started *)
Definition vof (s s1 : state) (i : aid) : Prop :=
  In i (visible s) \/ (length (hp s) <= i < length (hp s1))%nat.

(* [T s s1 ws ows]: s1 is reached from s by allocating buffers/objects, assigning into the buffers
   [ws] and rebinding the attributes of the objects [ows]; registers and cache untouched *)
Record T (s s1 : state) (ws : list aid) (ows : list oid) : Prop := mkT {
  T_len : (length (hp s) <= length (hp s1))%nat;
  T_old : forall i, (i < length (hp s))%nat -> ~ In i ws -> hget (hp s1) i = hget (hp s) i;
  T_frz : forall i c, hget (hp s) i = Some c -> cfrozen c = true -> hget (hp s1) i = Some c;
  T_vis : forall i, In i (visible s1) -> vof s s1 i;
  T_cache : cache s1 = cache s;
  T_olen : (length (ob s) <= length (ob s1))%nat;
  T_oold : forall j, (j < length (ob s))%nat -> ~ In j ows -> nth_error (ob s1) j = nth_error (ob s) j;
  T_env : env s1 = env s
}.

Lemma T_refl s : T s s [] [].
Proof. constructor; auto. intros; left; auto. Qed.

Lemma vof_mono s s1 s2 i : (length (hp s1) <= length (hp s2))%nat -> vof s s1 i -> vof s s2 i.
Proof. intros L [H|H]; [left; auto|right; lia]. Qed.

Lemma T_ext s s1 ws ows l : T s s1 ws ows -> T s (with_hp s1 (hp s1 ++ l)) ws ows.
Proof.
  intros [L O F V C OL OO E]. constructor; cbn; auto.
  - rewrite app_length; lia.
  - intros i Hi Hn. unfold hget. rewrite nth_app_old by lia. apply O; auto.
  - intros i c Hc Hf. unfold hget. rewrite nth_app_old. { apply (F i c); auto. }
    apply hget_lt in Hc. lia.
  - intros i Hi. eapply vof_mono; [|apply V; apply vis_iff; apply vis_iff in Hi; exact Hi].
    cbn. rewrite app_length; lia.
Qed.

Lemma T_alloc1 s s1 ws ows v s2 i :
  T s s1 ws ows -> alloc1 s1 v = (s2, i) ->
  T s s2 ws ows /\ i = length (hp s1) /\ length (hp s2) = S (length (hp s1)).
Proof.
  intros T0 [= <- <-]. split; [apply T_ext; auto|]. split; auto. cbn. rewrite app_length; cbn; lia.
Qed.

Lemma T_alloc_list s s1 ws ows vs s2 ids :
  T s s1 ws ows -> alloc_list s1 vs = (s2, ids) ->
  T s s2 ws ows /\ ids = seq (length (hp s1)) (length vs) /\ (length (hp s2) = length (hp s1) + length vs)%nat.
Proof.
  intros T0 [= <- <-]. split; [apply T_ext; auto|]. split; auto. cbn. rewrite app_length, map_length; lia.
Qed.

Lemma T_wr s s1 ws ows a v s2 :
  T s s1 ws ows -> wr s1 a v = Some s2 -> T s s2 (a :: ws) ows /\ length (hp s2) = length (hp s1).
Proof.
  intros [L O F V C OL OO E]. unfold wr. destruct (hget (hp s1) a) as [c|] eqn:Ha; try discriminate.
  destruct (cfrozen c) eqn:Fc; try discriminate. intros [= <-]. split; [|cbn; apply lset_length].
  constructor; cbn; auto.
  - rewrite lset_length; auto.
  - intros i Hi Hn. unfold hget. rewrite nth_lset_other by (intros ->; apply Hn; left; auto).
    apply O; auto; intros H; apply Hn; right; auto.
  - intros i c0 Hc Hf. unfold hget. destruct (Nat.eq_dec a i) as [->|Hne].
    + rewrite (F i c0 Hc Hf) in Ha. injection Ha as <-. congruence.
    + rewrite nth_lset_other by auto. apply (F i c0); auto.
  - intros i Hi. eapply vof_mono; [|apply V; apply vis_iff; apply vis_iff in Hi; exact Hi].
    cbn. rewrite lset_length; lia.
Qed.

Lemma T_weaken s s1 ws ows ws' ows' : incl ws ws' -> incl ows ows' -> T s s1 ws ows -> T s s1 ws' ows'.
Proof. intros Hw Ho [? ? ? ? ? ? ? ?]; constructor; auto. Qed.

Lemma T_push_obj s s1 ws ows o s2 j :
  T s s1 ws ows -> push_obj s1 o = (s2, j) ->
  (forall i, In i (oslots o) -> vof s s1 i) ->
  T s s2 ws ows /\ j = length (ob s1) /\ length (hp s2) = length (hp s1).
Proof.
  intros [L O F V C OL OO E] [= <- <-] Ho. split; auto.
  constructor; cbn; auto.
  - intros i Hi. apply vis_iff in Hi. cbn in Hi. rewrite flat_map_app, in_app_iff in Hi. cbn in Hi.
    rewrite app_nil_r in Hi. destruct Hi as [H|[H|H]]; [apply V; apply vis_iff; auto|apply V; apply vis_iff; auto|apply Ho; auto].
  - rewrite app_length; cbn; lia.
  - intros k Hk Hn. rewrite nth_app_old by lia. apply OO; auto.
Qed.

Lemma T_set_obj s s1 ws ows o j :
  T s s1 ws ows -> (forall i, In i (oslots o) -> vof s s1 i) -> T s (set_obj s1 j o) ws (j :: ows).
Proof.
  intros [L O F V C OL OO E] Ho.
  constructor; cbn; auto.
  - intros i Hi. apply vis_iff in Hi. cbn in Hi. destruct Hi as [H|H].
    + apply V; apply vis_iff; auto.
    + apply in_flat_map_lset in H as [H|H]; [apply V; apply vis_iff; auto|apply Ho; auto].
  - rewrite lset_length; auto.
  - intros k Hk Hn. rewrite nth_lset_other by (intros ->; apply Hn; left; auto).
    apply OO; auto; intros H; apply Hn; right; auto.
Qed.

Lemma T_set_obj_new s s1 ws ows o j :
  T s s1 ws ows -> (length (ob s) <= j)%nat -> (forall i, In i (oslots o) -> vof s s1 i) ->
  T s (set_obj s1 j o) ws ows.
Proof.
  intros [L O F V C OL OO E] Hj Ho.
  constructor; cbn; auto.
  - intros i Hi. apply vis_iff in Hi. cbn in Hi. destruct Hi as [H|H].
    + apply V; apply vis_iff; auto.
    + apply in_flat_map_lset in H as [H|H]; [apply V; apply vis_iff; auto|apply Ho; auto].
  - rewrite lset_length; auto.
  - intros k Hk Hn. rewrite nth_lset_other by lia. apply OO; auto.
Qed.

(* ------------------------------------------------------------------ the per-call contract *)
Record good (s : state) (doc : list aid) (odoc : list oid) (s' : state) (out : outcome) : Prop := mkgood {
  g_len : (length (hp s) <= length (hp s'))%nat;
  g_old : forall i, (i < length (hp s))%nat -> ~ In i (o_writes out) -> hget (hp s') i = hget (hp s) i;
  g_frz : forall i c, hget (hp s) i = Some c -> cfrozen c = true -> hget (hp s') i = Some c;
  g_doc : forall i, In i (o_writes out) -> In i doc \/ (length (hp s) <= i)%nat;
  g_vis : forall i, In i (visible s') -> vof s s' i;
  g_cache : cache s' = cache s;
  g_olen : (length (ob s) <= length (ob s'))%nat;
  g_oold : forall j, (j < length (ob s))%nat -> ~ In j (o_owrites out) -> nth_error (ob s') j = nth_error (ob s) j;
  g_odoc : incl (o_owrites out) odoc;
  g_env : env s' = env s ++ [o_res out]
}.

Lemma good_ret s s1 doc odoc ws ows v :
  T s s1 ws ows ->
  (forall i, In i ws -> In i doc \/ (length (hp s) <= i)%nat) ->
  incl ows odoc ->
  (forall i, In i (vslots v) -> vof s s1 i) ->
  good s doc odoc (fst (ret s1 ws ows v)) (snd (ret s1 ws ows v)).
Proof.
  intros [L O F V C OL OO E] Hw Ho Hv. constructor; cbn; auto.
  - intros i Hi. apply vis_iff in Hi. cbn in Hi. rewrite flat_map_app, in_app_iff in Hi. cbn in Hi.
    rewrite app_nil_r in Hi. destruct Hi as [[H|H]|H]; [apply V; apply vis_iff; auto|apply Hv; auto|apply V; apply vis_iff; auto].
  - rewrite E; auto.
Qed.

Lemma good_fail s doc odoc code ws :
  (forall i, In i ws -> In i doc \/ (length (hp s) <= i)%nat) ->
  good s doc odoc (fst (fail s code ws)) (snd (fail s code ws)).
Proof.
  intros Hw. constructor; cbn; auto.
  - intros i Hi. apply vis_iff in Hi. cbn in Hi. rewrite flat_map_app, in_app_iff in Hi. cbn in Hi.
    destruct Hi as [[H|[]]|H]; left; apply vis_iff; auto.
  - intros j [].
Qed.

(* ------------------------------------------------------------------ every operation honours the contract *)
Section Ops.
Variable K : kernels.

Ltac red1 := cbv beta iota.
Ltac lens := repeat match goal with H : T ?s ?s1 _ _ |- _ =>
  lazymatch goal with L : (length (hp s) <= length (hp s1))%nat |- _ => fail | _ => pose proof (T_len _ _ _ _ H) end end.
Hint Resolve getarr_visible : pur.
(* side conditions: an id is visible in the pre-state or was allocated during the call *)
Ltac sc := unfold vof in *; cbn [oslots vslots In map f_data set_obj with_ob with_rng with_hp hp]; intros; lens;
  repeat match goal with
         | H : _ \/ _ |- _ => destruct H
         | H : False |- _ => destruct H
         | H : In _ [] |- _ => destruct H
         end; subst;
  first [ left; solve [eauto with pur] | right; lia | solve [eauto with pur] ].
Ltac gfl := apply good_fail; sc.
Ltac gret := apply good_ret; auto; try apply incl_nil_l; try apply incl_refl; try sc.
Ltac talloc T0 s1 i T1 :=
  match goal with |- context [alloc1 ?s ?v] =>
    let E := fresh "E" in
    destruct (alloc1 s v) as [s1 i] eqn:E; destruct (T_alloc1 _ _ _ _ _ _ _ T0 E) as (T1 & ? & ?); red1 end.
Ltac tpush T0 s1 j T1 :=
  match goal with |- context [push_obj ?s ?o] =>
    let E := fresh "E" in
    destruct (push_obj s o) as [s1 j] eqn:E; red1;
    destruct (T_push_obj _ _ _ _ _ _ _ T0 E) as (T1 & ? & ?); [try sc|] end.
Ltac tset H := match goal with |- context [set_obj _ ?j ?o] =>
  let H' := fresh "TS" in
  pose proof (T_set_obj _ _ _ _ o j H ltac:(sc)) as H' end.
Ltac tsetn H Hj := match goal with |- context [set_obj _ ?j ?o] =>
  let H' := fresh "TS" in
  pose proof (T_set_obj_new _ _ _ _ o j H Hj ltac:(sc)) as H' end.

Lemma dcopy_shape s1 a d m :
  exists l, fst (dcopy s1 a d m) = with_hp s1 (hp s1 ++ l) /\
  let '(a', d', m') := snd (dcopy s1 a d m) in
  (length (hp s1) <= a' < length (hp s1 ++ l))%nat /\ (length (hp s1) <= d' < length (hp s1 ++ l))%nat /\
  (length (hp s1) <= m' < length (hp s1 ++ l))%nat.
Proof.
  unfold dcopy, alloc1, with_hp.
  destruct (Nat.eqb d a), (Nat.eqb m a), (Nat.eqb m d); cbn; rewrite <- ?app_assoc;
    (eexists; split; [reflexivity|rewrite ?app_length; cbn; lia]).
Qed.

Lemma T_dcopy s s1 ws ows a d m s2 a' d' m' :
  T s s1 ws ows -> dcopy s1 a d m = (s2, (a', d', m')) ->
  T s s2 ws ows /\ (length (hp s1) <= a' < length (hp s2))%nat /\ (length (hp s1) <= d' < length (hp s2))%nat
  /\ (length (hp s1) <= m' < length (hp s2))%nat.
Proof.
  intros T0 E. destruct (dcopy_shape s1 a d m) as (l & H1 & H2). rewrite E in H1, H2. cbn in H1, H2. subst s2.
  split; [apply T_ext; auto|]. cbn. auto.
Qed.

Definition G (s : state) (o : op) (r : state * outcome) : Prop :=
  good s (documented s o) (odocumented s o) (fst r) (snd r).

Lemma T_aos s s1 ws ows x v s2 a :
  T s s1 ws ows -> arr_or_scalar s1 x v = Some (s2, a) ->
  T s s2 ws ows /\ vof s s2 a /\ (length (hp s1) <= length (hp s2))%nat.
Proof.
  intros T0. unfold arr_or_scalar. destruct x as [r|].
  - destruct (getarr s1 r) as [a0|] eqn:E; cbn; try discriminate. intros [= <- <-]. split; auto. split; auto.
    apply (T_vis _ _ _ _ T0). eapply getarr_visible; eauto.
  - intros E0. assert (E : alloc1 s1 v = (s2, a)) by congruence. destruct (T_alloc1 _ _ _ _ _ _ _ T0 E) as (T1 & -> & L). split; auto. lens. split; [right|]; lia.
Qed.

Lemma G_plane s kind amp opd mask nseg : G s (OPlane kind amp opd mask nseg) (do_plane K s kind amp opd mask nseg).
Proof.
  unfold G, do_plane. pose proof (T_refl s) as T0.
  destruct (arr_or_scalar s amp [1]) as [[s1 a]|] eqn:E1; [|gfl]. destruct (T_aos _ _ _ _ _ _ _ _ T0 E1) as (T1 & Va & L1).
  destruct (arr_or_scalar s1 opd [0]) as [[s2 d]|] eqn:E2; [|gfl]. destruct (T_aos _ _ _ _ _ _ _ _ T1 E2) as (T2 & Vd & L2).
  destruct (match mask with Some r => getarr s2 r | None => Some a end) as [m0|]; [|gfl].
  talloc T2 s3 m T3. tpush T3 s4 j T4. gret.
Qed.

Lemma G_fit_tilt s p inplace : G s (OFitTilt p inplace) (do_fit_tilt K s p inplace).
Proof.
  unfold G, do_fit_tilt. pose proof (T_refl s) as T0.
  destruct (getobj s p) as [[j [a d m tl nseg kind| |]]|] eqn:Eo; try gfl.
  destruct (plane_vis _ _ _ _ _ _ _ _ _ Eo) as (Va & Vd & Vm).
  destruct (kind =? 2). { gret. }
  destruct inplace; red1.
  - (* in place *)
    cbn [documented odocumented]; rewrite Eo.
    destruct (scalar s m || scalar s d). { gret. }
    destruct (Nat.leb nseg 1).
    + talloc T0 s2 d2 T2. tset T2. gret.
    + talloc T0 s2 d2 T2. tset T2. gret.
  - (* on a deep copy *)
    destruct (dcopy s a d m) as [sq [[a' d'] m']] eqn:Ec. destruct (T_dcopy _ _ _ _ _ _ _ _ _ _ _ T0 Ec) as (Tc & Ha' & Hd' & Hm').
    tpush Tc sp j' Tp.
    assert (length (ob s) <= j')%nat as Lj by (pose proof (T_olen _ _ _ _ Tc); lia).
    destruct (scalar sp m' || scalar sp d'). { gret. }
    destruct (Nat.leb nseg 1).
    + talloc Tp s2 d2 T2. tsetn T2 Lj. gret.
    + talloc Tp s2 d2 T2. tsetn T2 Lj. gret.
Qed.

Lemma G_rescale s p : G s (ORescale p) (do_rescale K s p).
Proof.
  unfold G, do_rescale. pose proof (T_refl s) as T0.
  destruct (getobj s p) as [[j [a d m tl nseg kind| |]]|] eqn:Eo; try gfl.
  destruct (dcopy s a d m) as [s1 [[a1 d1] m1]] eqn:Ec. destruct (T_dcopy _ _ _ _ _ _ _ _ _ _ _ T0 Ec) as (T1 & Ha1 & Hd1 & Hm1).
  red1. talloc T1 s2 a2 T2.
  assert (length (hp s) <= a2 < length (hp s2))%nat as Ha2 by (lens; lia).
  assert (length (hp s1) <= length (hp s2))%nat as L2 by lia.
  red1.
  assert (exists s3 d2, (if scalar s2 d1 then (s2, d1) else alloc1 s2 (kf K 31 [valof s2 d1] [])) = (s3, d2)
          /\ T s s3 [] [] /\ (length (hp s) <= d2 < length (hp s3))%nat /\ (length (hp s2) <= length (hp s3))%nat)
    as (s3 & d2 & -> & T3 & Hd2 & L3).
  { destruct (scalar s2 d1); [do 2 eexists; split; eauto; split; auto; lens; lia|]. destruct (alloc1 s2 _) as [s3 d2] eqn:E3.
    destruct (T_alloc1 _ _ _ _ _ _ _ T2 E3) as (? & ? & ?). do 2 eexists; split; eauto. split; auto. lens. lia. }
  red1. talloc T3 s4 m2 T4. tpush T4 s5 j5 T5. gret.
Qed.

Lemma G_copy s p : G s (OCopy p) (main K s (OCopy p) []).
Proof.
  unfold G. cbn [main]. pose proof (T_refl s) as T0.
  destruct (getobj s p) as [[j [a d m tl nseg kind| |]]|] eqn:Eo; try gfl.
  destruct (dcopy s a d m) as [s1 [[a1 d1] m1]] eqn:Ec. destruct (T_dcopy _ _ _ _ _ _ _ _ _ _ _ T0 Ec) as (T1 & Ha1 & Hd1 & Hm1).
  red1. tpush T1 s2 j2 T2. gret.
Qed.

Lemma G_mul s p w : G s (OMul p w) (do_mul K s p w).
Proof.
  unfold G, do_mul. pose proof (T_refl s) as T0.
  destruct (getobj s p) as [[j [a d m tl nseg kind| |]]|] eqn:Eo; try gfl.
  destruct (getobj s w) as [[jw [| fs |]]|] eqn:Ew; try gfl.
  destruct (alloc_list s _) as [s1 ids] eqn:E1. destruct (T_alloc_list _ _ _ _ _ _ _ T0 E1) as (T1 & Hids & L1). red1.
  destruct (push_obj s1 _) as [s2 j2] eqn:E2. red1.
  destruct (T_push_obj _ _ _ _ _ _ _ T1 E2) as (T2 & _ & L2).
  { cbn. intros i Hi. right. rewrite map_map in Hi. cbn in Hi. apply in_map_iff in Hi as ((x & y) & <- & Hx).
    cbn. apply in_combine_l in Hx. subst ids. apply in_seq in Hx. lia. }
  gret.
Qed.

Lemma G_prop_dft s w z ks cvs : G s (OPropDft w z ks) (do_prop_dft K s w z cvs).
Proof.
  unfold G, do_prop_dft. pose proof (T_refl s) as T0.
  destruct (getobj s w) as [[jw [| fs |]]|] eqn:Ew; try gfl.
  destruct (alloc_list s _) as [s1 ids] eqn:E1. destruct (T_alloc_list _ _ _ _ _ _ _ T0 E1) as (T1 & Hids & L1). red1.
  destruct (push_obj s1 _) as [s2 j2] eqn:E2. red1.
  destruct (T_push_obj _ _ _ _ _ _ _ T1 E2) as (T2 & _ & L2).
  { cbn. intros i Hi. right. rewrite map_map in Hi. cbn in Hi. rewrite map_id in Hi. subst ids. apply in_seq in Hi. lia. }
  gret.
Qed.

Lemma G_prop_fft s w scr : G s (OPropFft w scr) (do_prop_fft K s w scr).
Proof.
  unfold G, do_prop_fft. pose proof (T_refl s) as T0.
  destruct (getobj s w) as [[jw [| fs |]]|] eqn:Ew; try gfl.
  destruct (has_tilt fs); [gfl|].
  destruct scr as [r|].
  - destruct (getarr s r) as [a|] eqn:Ea; [|gfl].
    cbn [documented]. rewrite Ea.
    destruct (wr s a _) as [s1|] eqn:W; [|gfl].
    destruct (T_wr _ _ _ _ _ _ _ T0 W) as (T1 & L1).
    talloc T1 s2 i T2. tpush T2 s3 j3 T3. gret.
  - talloc T0 s2 i T2. tpush T2 s3 j3 T3. gret.
Qed.

Lemma G_insert s w out : G s (OInsert w out) (do_insert K s w out).
Proof.
  unfold G, do_insert. pose proof (T_refl s) as T0.
  destruct (getobj s w) as [[jw [| fs |]]|] eqn:Ew; try gfl.
  destruct (getarr s out) as [a|] eqn:Ea; [|gfl].
  cbn [documented]. rewrite Ea.
  destruct fs as [|f fs]. { gret. }
  destruct (wr s a _) as [s1|] eqn:W; [|gfl].
  destruct (T_wr _ _ _ _ _ _ _ T0 W) as (T1 & L1). gret.
Qed.

Lemma G_wfield s w b : G s (OWField w b) (do_wfield K s w b).
Proof.
  unfold G, do_wfield. pose proof (T_refl s) as T0.
  destruct (getobj s w) as [[jw [| fs |]]|] eqn:Ew; try gfl.
  talloc T0 s1 i T1. gret.
Qed.

Lemma G_dft2 s f k out inv ps cv : G s (ODft2 f k out inv ps) (do_dft2 K s f out inv ps cv).
Proof.
  unfold G, do_dft2. pose proof (T_refl s) as T0.
  destruct (getarr s f) as [a|] eqn:Ea; [|gfl].
  destruct out as [r|].
  - destruct (getarr s r) as [o|] eqn:Eo; [|gfl].
    cbn [documented]. rewrite Eo.
    destruct (wr s o _) as [s1|] eqn:W; [|gfl].
    destruct (T_wr _ _ _ _ _ _ _ T0 W) as (T1 & L1). gret.
  - talloc T0 s1 i T1. gret.
Qed.

Lemma G_spec_edit s r (f : state -> aid -> aid -> state * obj) o :
  odocumented s o = match getobj s r with Some (j, _) => [j] | None => [] end ->
  (forall w v, In w (visible s) -> In v (visible s) ->
     T s (fst (f s w v)) [] [] /\ forall i, In i (oslots (snd (f s w v))) -> vof s (fst (f s w v)) i) ->
  G s o (do_spec_edit s r f).
Proof.
  intros Hd Hf. unfold G, do_spec_edit. rewrite Hd.
  destruct (getobj s r) as [[j [| |w v]]|] eqn:Eo; try gfl.
  destruct (spec_vis _ _ _ _ _ Eo) as (Vw & Vv). destruct (Hf w v Vw Vv) as (T1 & Hs).
  destruct (f s w v) as [s1 o1]. red1. cbn [fst snd] in *.
  pose proof (T_set_obj _ _ _ _ o1 j T1 Hs) as TS. gret.
Qed.

Lemma main_good s o cvs : G s o (main K s o cvs).
Proof.
  destruct o as [len frozen|r|kind amp opd mask nseg|p a|p a|p inplace|p|p|wt|p w|w z keys|w scratch|w out|w intensity
                |f k out inverse params|code args params|code args|wv vl|s0|s1 s2|s0 flux|s0|s0 wv|p k|w t]; cbn [main].
  - (* ONewArr *) unfold G.
    change (good s [] [] (fst (ret (with_hp s (hp s ++ [mkcell (repeat 0 len) frozen])) [] [] (VArr (length (hp s)))))
                         (snd (ret (with_hp s (hp s ++ [mkcell (repeat 0 len) frozen])) [] [] (VArr (length (hp s)))))).
    pose proof (T_ext _ _ _ _ [mkcell (repeat 0 len) frozen] (T_refl s)) as T1.
    apply good_ret; auto; try apply incl_nil_l; try (intros ? HF; destruct HF; fail).
    intros x [<-|[]]. right. cbn. rewrite app_length; cbn; lia.
  - (* OPoke *) unfold G. pose proof (T_refl s) as T0. destruct (getarr s r) as [a|] eqn:Ea; [|gfl].
    cbn [documented]. rewrite Ea.
    destruct (wr s a _) as [s1|] eqn:W; [|gfl].
    destruct (T_wr _ _ _ _ _ _ _ T0 W) as (T1 & L1). gret.
  - apply G_plane.
  - (* OSetOpd *) unfold G. pose proof (T_refl s) as T0.
    destruct (getobj s p) as [[j [a0 d m tl nseg kind| |]]|] eqn:Eo; try gfl.
    destruct (plane_vis _ _ _ _ _ _ _ _ _ Eo) as (Va & Vd & Vm).
    destruct (getarr s a) as [x|] eqn:Ex; [|gfl].
    cbn [odocumented]. rewrite Eo. tset T0. gret.
  - (* OSetAmp *) unfold G. pose proof (T_refl s) as T0.
    destruct (getobj s p) as [[j [a0 d m tl nseg kind| |]]|] eqn:Eo; try gfl.
    destruct (plane_vis _ _ _ _ _ _ _ _ _ Eo) as (Va & Vd & Vm).
    destruct (getarr s a) as [x|] eqn:Ex; [|gfl].
    cbn [odocumented]. rewrite Eo. tset T0. gret.
  - apply G_fit_tilt.
  - apply G_copy.
  - apply G_rescale.
  - (* OWave *) unfold G. pose proof (T_refl s) as T0. talloc T0 s1 i T1. tpush T1 s2 j2 T2. gret.
  - apply G_mul.
  - apply G_prop_dft.
  - apply G_prop_fft.
  - apply G_insert.
  - apply G_wfield.
  - apply G_dft2.
  - (* OPureFn *) unfold G. pose proof (T_refl s) as T0. talloc T0 s1 i T1. gret.
  - (* ORandFn *) unfold G. pose proof (T_refl s) as T0. talloc T0 s1 i T1.
    assert (T s (with_rng s1 (krng K (rng s))) [] []) as T2.
    { destruct T1. constructor; auto. }
    gret.
  - (* OSpec *) unfold G. pose proof (T_refl s) as T0.
    destruct (getarr s wv) as [a|] eqn:Ea; [|gfl]. destruct (getarr s vl) as [b|] eqn:Eb; [|gfl].
    tpush T0 s1 j T1. gret.
  - (* OSpecScalar *) unfold G. pose proof (T_refl s) as T0.
    destruct (getobj s s0) as [[j [| |w v]]|] eqn:Eo; try gfl.
    destruct (spec_vis _ _ _ _ _ Eo) as (Vw & Vv).
    talloc T0 s1 i T1. tpush T1 s2 j2 T2. gret.
  - (* OSpecBin *) unfold G. pose proof (T_refl s) as T0.
    destruct (getobj s s1) as [[j1 [| |w1 v1]]|] eqn:Eo1; try gfl.
    destruct (getobj s s2) as [[j2 [| |w2 v2]]|] eqn:Eo2; try gfl.
    talloc T0 sa i T1. talloc T1 sb k T2. tpush T2 sd j3 T3. gret.
  - (* OSpecTo *) apply G_spec_edit; [reflexivity|]. intros w v Vw Vv.
    pose proof (T_refl s) as T0.
    destruct (alloc1 s (kf K 304 [valof s w] [])) as [sa i] eqn:Ea. destruct (T_alloc1 _ _ _ _ _ _ _ T0 Ea) as (T1 & Hi & L1).
    destruct flux.
    + destruct (alloc1 sa (kf K 305 [valof s v] [])) as [sb k] eqn:Eb. destruct (T_alloc1 _ _ _ _ _ _ _ T1 Eb) as (T2 & Hk & L2).
      cbn [fst snd]. split; auto. sc.
    + cbn [fst snd]. split; auto. sc.
  - (* OSpecTrim *) apply G_spec_edit; [reflexivity|]. intros w v Vw Vv. cbn [fst snd]. split; [apply T_refl|sc].
  - (* OSpecResample *) destruct (getarr s wv) as [x|] eqn:Ex; [|unfold G; gfl].
    apply G_spec_edit; [reflexivity|]. intros w v Vw Vv. pose proof (T_refl s) as T0.
    destruct (alloc1 s _) as [sa i] eqn:Ea. destruct (T_alloc1 _ _ _ _ _ _ _ T0 Ea) as (T1 & Hi & L1).
    cbn [fst snd]. split; auto. sc.
  - (* OPokeAttr *) unfold G. pose proof (T_refl s) as T0.
    destruct (getobj s p) as [[j o]|] eqn:Eo; [|gfl].
    cbn [documented]. rewrite Eo.
    destruct (nth_error (oslots o) k) as [a|] eqn:Ek; [|gfl].
    assert (In a (visible s)) as Va by (apply (getobj_visible _ _ _ _ Eo); eapply nth_error_In; eauto).
    destruct (wr s a _) as [s1|] eqn:W; [|gfl].
    destruct (T_wr _ _ _ _ _ _ _ T0 W) as (T1 & L1). gret.
  - (* OMulTilt *) unfold G. pose proof (T_refl s) as T0.
    destruct (getobj s w) as [[jw [| fs |]]|] eqn:Ew; try gfl.
    destruct (alloc_list s _) as [s1 ids] eqn:E1. destruct (T_alloc_list _ _ _ _ _ _ _ T0 E1) as (T1 & Hids & L1). red1.
    destruct (push_obj s1 _) as [s2 j2] eqn:E2. red1.
    destruct (T_push_obj _ _ _ _ _ _ _ T1 E2) as (T2 & _ & L2).
    { cbn. intros i Hi. right. rewrite map_map in Hi. cbn in Hi. apply in_map_iff in Hi as ((x & y) & <- & Hx).
      cbn. apply in_combine_l in Hx. subst ids. apply in_seq in Hx. lia. }
    gret.
Qed.

End Ops.

(* ------------------------------------------------------------------ the coordinate cache *)
Lemma key_eqb_eq a b : key_eqb a b = true -> a = b.
Proof.
  destruct a as [[[a1 a2] a3] a4], b as [[[b1 b2] b3] b4]; cbn. intros H.
  repeat (apply andb_true_iff in H; destruct H as [H ?]). repeat f_equal; lia.
Qed.
Lemma clookup_in k c e : clookup k c = Some e -> In (k, e) c.
Proof.
  induction c as [|[k' e'] r IH]; cbn; [discriminate|]. destruct (key_eqb k k') eqn:E.
  - intros [= <-]. apply key_eqb_eq in E. subst; auto.
  - auto.
Qed.

Lemma in_firstn {A} n : forall (l : list A) x, In x (firstn n l) -> In x l.
Proof. induction n as [|n IH]; intros [|y l] x; cbn; try tauto. intros [H|H]; auto. Qed.


Lemma inv_init : inv init.
Proof. split; [intros i []|intros e []]. Qed.

Lemma cell_is_val s a v : cell_is s a v -> valof s a = v.
Proof. intros [H _]. unfold valof. rewrite H. auto. Qed.

(* what a state keeps when only private buffers are added and the cache is reorganised *)
Record same_public (s s' : state) : Prop := mkSP {
  sp_hp : exists l, hp s' = hp s ++ l;
  sp_ob : ob s' = ob s;
  sp_env : env s' = env s;
  sp_rng : rng s' = rng s
}.
Lemma same_public_refl s : same_public s s.
Proof. constructor; auto. exists []. rewrite app_nil_r; auto. Qed.
Lemma same_public_trans a b c : same_public a b -> same_public b c -> same_public a c.
Proof.
  intros [[l1 H1] ? ? ?] [[l2 H2] ? ? ?]. constructor; try congruence.
  exists (l1 ++ l2). rewrite H2, H1, app_assoc; auto.
Qed.
Lemma same_public_visible s s' : same_public s s' -> visible s' = visible s.
Proof. intros [_ Ho He _]. unfold visible. rewrite Ho, He. auto. Qed.
Lemma same_public_hget s s' i : same_public s s' -> (i < length (hp s))%nat -> hget (hp s') i = hget (hp s) i.
Proof. intros [[l H] _ _ _] Hi. rewrite H. unfold hget. apply nth_app_old; auto. Qed.
Lemma same_public_valof s s' i : same_public s s' -> (i < length (hp s))%nat -> valof s' i = valof s i.
Proof. intros SP Hi. unfold valof. rewrite (same_public_hget _ _ _ SP Hi). auto. Qed.
Lemma same_public_getarr s s' r : same_public s s' -> getarr s' r = getarr s r.
Proof. intros [_ _ He _]. unfold getarr. rewrite He; auto. Qed.
Lemma same_public_getobj s s' r : same_public s s' -> getobj s' r = getobj s r.
Proof. intros [_ Ho He _]. unfold getobj. rewrite He, Ho; auto. Qed.
Lemma same_public_documented s s' o : same_public s s' -> documented s' o = documented s o.
Proof.
  intros SP. destruct o; cbn; auto; rewrite ?(same_public_getarr _ _ _ SP), ?(same_public_getobj _ _ _ SP); auto.
  all: destruct scratch || destruct out || idtac; rewrite ?(same_public_getarr _ _ _ SP); auto.
Qed.
Lemma same_public_odocumented s s' o : same_public s s' -> odocumented s' o = odocumented s o.
Proof. intros SP. destruct o; cbn; auto; rewrite ?(same_public_getobj _ _ _ SP); auto. Qed.

Lemma centry_ok_ext s s' e : same_public s s' -> centry_ok s e -> centry_ok s' e.
Proof.
  intros SP. destruct e as [k [[[a b] c] d]]. cbn. destruct (coords k) as [[[cR cS] cU] cV].
  assert (forall x v, cell_is s x v -> cell_is s' x v) as H.
  { intros x v [H1 H2]. split; [|rewrite (same_public_visible _ _ SP); auto].
    rewrite (same_public_hget _ _ _ SP); auto. eapply hget_lt; eauto. }
  intros (? & ? & ? & ?). split; [|split; [|split]]; apply H; assumption.
Qed.

Lemma cache_get_spec s k :
  inv s ->
  same_public s (fst (cache_get s k)) /\ inv (fst (cache_get s k)) /\ snd (cache_get s k) = coords k.
Proof.
  intros [W C]. unfold cache_get. destruct (clookup k (cache s)) as [[[[a b] c] d]|] eqn:L.
  - apply clookup_in in L. pose proof (C _ L) as Ok. cbn in Ok.
    destruct (coords k) as [[[cR cS] cU] cV] eqn:Ek. destruct Ok as (Ha & Hb & Hc & Hd).
    cbn [fst snd]. split; [constructor; cbn; auto; exists []; rewrite app_nil_r; auto|]. split.
    + split; [exact W|]. intros e [<-|He].
      * cbn. rewrite Ek. auto.
      * apply filter_In in He as [He _]. apply (C _ He).
    + rewrite (cell_is_val _ _ _ Ha), (cell_is_val _ _ _ Hb), (cell_is_val _ _ _ Hc), (cell_is_val _ _ _ Hd). auto.
  - destruct (coords k) as [[[cR cS] cU] cV] eqn:Ek. cbn [fst snd].
    set (s1 := with_hp s (hp s ++ _)).
    assert (same_public s (with_cache s1 (firstn cache_size ((k, (length (hp s), S (length (hp s)), S (S (length (hp s))), S (S (S (length (hp s)))))) :: cache s)))) as SP.
    { constructor; cbn; auto. eexists; eauto. }
    split; auto. split; auto. split.
    + intros i Hi. rewrite (same_public_visible _ _ SP) in Hi. apply W in Hi. cbn. rewrite app_length; cbn; lia.
    + intros e He. apply in_firstn in He. destruct He as [<-|He].
      * cbn. rewrite Ek.
        assert (forall j v, (j < 4)%nat -> nth_error [mkcell cR false; mkcell cS false; mkcell cU false; mkcell cV false] j = Some (mkcell v false) ->
                cell_is (with_cache s1 (firstn cache_size ((k, (length (hp s), S (length (hp s)), S (S (length (hp s))), S (S (S (length (hp s)))))) :: cache s))) (length (hp s) + j)%nat v) as H.
        { intros j v Hj Hn. split.
          - cbn. unfold hget. rewrite nth_error_app2 by lia. replace (length (hp s) + j - length (hp s))%nat with j by lia. auto.
          - rewrite (same_public_visible _ _ SP). intros Hv. apply W in Hv. lia. }
        split; [|split; [|split]].
        -- pose proof (H 0%nat cR ltac:(lia) eq_refl) as Hx. rewrite Nat.add_0_r in Hx. exact Hx.
        -- pose proof (H 1%nat cS ltac:(lia) eq_refl) as Hx. rewrite Nat.add_1_r in Hx. exact Hx.
        -- pose proof (H 2%nat cU ltac:(lia) eq_refl) as Hx.
           replace (length (hp s) + 2)%nat with (S (S (length (hp s)))) in Hx by lia. exact Hx.
        -- pose proof (H 3%nat cV ltac:(lia) eq_refl) as Hx.
           replace (length (hp s) + 3)%nat with (S (S (S (length (hp s))))) in Hx by lia. exact Hx.
      * eapply centry_ok_ext; [exact SP|]. apply C; auto.
Qed.

Lemma cache_get_list_spec ks : forall s,
  inv s ->
  same_public s (fst (cache_get_list s ks)) /\ inv (fst (cache_get_list s ks)) /\
  snd (cache_get_list s ks) = map coords ks.
Proof.
  induction ks as [|k r IH]; intros s I; cbn.
  - split; [apply same_public_refl|]. auto.
  - destruct (cache_get_spec s k I) as (SP1 & I1 & E1). destruct (cache_get s k) as [s1 c]. cbn [fst snd] in *.
    destruct (IH s1 I1) as (SP2 & I2 & E2). destruct (cache_get_list s1 r) as [s2 cs]. cbn [fst snd] in *.
    split; [eapply same_public_trans; eauto|]. split; auto. congruence.
Qed.

Section Steps.
Variable K : kernels.

Lemma cache_phase_spec s o :
  inv s -> same_public s (fst (cache_phase s o)) /\ inv (fst (cache_phase s o)).
Proof.
  intros I. destruct o; cbn; try (split; [apply same_public_refl|auto]).
  - destruct (getobj s w) as [[j [| fs |]]|]; try (split; [apply same_public_refl|auto]).
    destruct (cache_get_list_spec (firstn (length fs) keys) s I) as (? & ? & _). auto.
  - destruct (cache_get_spec s k I) as (SP1 & I1 & E1). destruct (cache_get s k) as [s1 c]. cbn [fst snd] in *. auto.
Qed.

Lemma documented_visible s o i : In i (documented s o) -> In i (visible s).
Proof.
  destruct o; cbn; try tauto.
  - destruct (getarr s r) eqn:E; cbn; try tauto. intros [<-|[]]. eapply getarr_visible; eauto.
  - destruct scratch as [r|]; cbn; try tauto. destruct (getarr s r) eqn:E; cbn; try tauto. intros [<-|[]]. eapply getarr_visible; eauto.
  - destruct (getarr s out) eqn:E; cbn; try tauto. intros [<-|[]]. eapply getarr_visible; eauto.
  - destruct out as [r|]; cbn; try tauto. destruct (getarr s r) eqn:E; cbn; try tauto. intros [<-|[]]. eapply getarr_visible; eauto.
  - destruct (getobj s p) as [[j o]|] eqn:E; cbn; try tauto. destruct (nth_error (oslots o) slot) as [a|] eqn:Ek; cbn; try tauto.
    intros [<-|[]]. apply (getobj_visible _ _ _ _ E). eapply nth_error_In; eauto.
Qed.

(* phase 2 keeps the invariant *)
Lemma main_inv s o cvs : inv s -> inv (fst (main K s o cvs)).
Proof.
  intros [W C]. pose proof (main_good K s o cvs) as Gd. unfold G in Gd. destruct (main K s o cvs) as [s' out]. cbn [fst snd] in *.
  destruct Gd as [L O F D V Ca OL OO OD E]. split.
  - intros i Hi. destruct (V i Hi) as [H|H]; [apply W in H|]; lia.
  - intros e He. rewrite Ca in He. pose proof (C e He) as Ok.
    destruct e as [k [[[a b] c] d]]. cbn in *. destruct (coords k) as [[[cR cS] cU] cV].
    assert (forall x v, cell_is s x v -> cell_is s' x v) as H.
    { intros x v [H1 H2]. pose proof (hget_lt _ _ _ H1) as Lx. split.
      - rewrite O; auto. intros Hw. destruct (D x Hw) as [Hd|Hd]; [|lia]. apply H2. eapply documented_visible; eauto.
      - intros Hv. destruct (V x Hv) as [Hd|Hd]; [auto|lia]. }
    destruct Ok as (? & ? & ? & ?). split; [|split; [|split]]; apply H; assumption.
Qed.

Lemma step_inv s o : inv s -> inv (fst (step K s o)).
Proof.
  intros I. unfold step. destruct (cache_phase_spec s o I) as (SP & I1).
  destruct (cache_phase s o) as [s1 cvs]. cbn [fst] in *. apply main_inv; auto.
Qed.

Lemma reachable_inv s : reachable K s -> inv s.
Proof. induction 1; [apply inv_init|apply step_inv; auto]. Qed.

(* ---- frame ---- *)
Lemma step_frame s o :
  let s' := fst (step K s o) in let out := snd (step K s o) in
  (length (hp s) <= length (hp s'))%nat /\
  (forall i, In i (o_writes out) -> In i (documented s o) \/ (length (hp s) <= i)%nat) /\
  (forall i, (i < length (hp s))%nat -> ~ In i (documented s o) -> hget (hp s') i = hget (hp s) i) /\
  (forall i c, hget (hp s) i = Some c -> cfrozen c = true -> hget (hp s') i = Some c) /\
  incl (o_owrites out) (odocumented s o) /\
  (forall j, (j < length (ob s))%nat -> ~ In j (odocumented s o) -> nth_error (ob s') j = nth_error (ob s) j) /\
  env s' = env s ++ [o_res out].
Proof.
  cbn zeta. unfold step.
  assert (same_public s (fst (cache_phase s o))) as SP.
  { destruct o; cbn; try apply same_public_refl.
    - destruct (getobj s w) as [[j [| fs |]]|]; try apply same_public_refl.
      clear. revert s. induction (firstn (length fs) keys) as [|k r IH]; intros s; cbn; [apply same_public_refl|].
      assert (same_public s (fst (cache_get s k))) as S1.
      { unfold cache_get. destruct (clookup k (cache s)) as [[[[a b] c] d]|]; [constructor; cbn; auto; exists []; rewrite app_nil_r; auto|].
        destruct (coords k) as [[[cR cS] cU] cV]. constructor; cbn; auto. eexists; eauto. }
      destruct (cache_get s k) as [s1 c]. cbn [fst] in *. specialize (IH s1). destruct (cache_get_list s1 r) as [s2 cs].
      cbn [fst] in *. eapply same_public_trans; eauto.
    - unfold cache_get. destruct (clookup k (cache s)) as [[[[a b] c] d]|]; [constructor; cbn; auto; exists []; rewrite app_nil_r; auto|].
      destruct (coords k) as [[[cR cS] cU] cV]. constructor; cbn; auto. eexists; eauto. }
  destruct (cache_phase s o) as [s1 cvs]. cbn [fst] in SP.
  pose proof (main_good K s1 o cvs) as Gd. unfold G in Gd. destruct (main K s1 o cvs) as [s' out]. cbn [fst snd] in *.
  rewrite (same_public_documented _ _ _ SP), (same_public_odocumented _ _ _ SP) in Gd.
  destruct Gd as [L O F D V Ca OL OO OD E].
  destruct SP as [[l Hl] Ho He Hr].
  assert (length (hp s) <= length (hp s1))%nat as L1 by (rewrite Hl, app_length; lia).
  repeat split.
  - lia.
  - intros i Hi. destruct (D i Hi); auto. right; lia.
  - intros i Hi Hn. rewrite O; [| lia |].
    + rewrite Hl. unfold hget. apply nth_app_old; auto.
    + intros Hw. destruct (D i Hw); [auto|lia].
  - intros i c Hc Hf. apply F; auto. rewrite Hl. unfold hget in *. rewrite nth_app_old; auto. apply nth_error_Some; congruence.
  - auto.
  - intros j Hj Hn. rewrite <- Ho. apply OO; [rewrite Ho; auto|]. intros Hw. apply Hn. apply OD; auto.
  - rewrite E, He; auto.
Qed.

(* ---- the generator ---- *)
Lemma cache_get_list_rng ks : forall s, rng (fst (cache_get_list s ks)) = rng s.
Proof.
  induction ks as [|k r IH]; intros s; cbn; auto.
  assert (rng (fst (cache_get s k)) = rng s) as H.
  { unfold cache_get. destruct (clookup k (cache s)) as [[[[a b] c] d]|]; cbn; auto. destruct (coords k) as [[[cR cS] cU] cV]; cbn; auto. }
  destruct (cache_get s k) as [s1 c]. cbn [fst] in *. specialize (IH s1). destruct (cache_get_list s1 r) as [s2 cs]. cbn [fst] in *. congruence.
Qed.

End Steps.

(* ------------------------------------------------------------------ hidden state: cache and generator *)
Section Hidden.
Variable K : kernels.

(* phase 2 never looks at the cache, and looks at the generator only in the unseeded operations *)
Lemma main_with_hidden h ob e c g c' g' o cvs : uses_global_rng o = false ->
  main K (mkstate h ob e c' g') o cvs =
  (mkstate (hp (fst (main K (mkstate h ob e c g) o cvs))) (Purity.ob (fst (main K (mkstate h ob e c g) o cvs)))
           (env (fst (main K (mkstate h ob e c g) o cvs))) c' g',
   snd (main K (mkstate h ob e c g) o cvs)).
Proof.
  intros Hr. destruct o; try discriminate; cbn [main];
  unfold do_plane, do_fit_tilt, do_rescale, do_mul, do_prop_dft, do_prop_fft, do_insert, do_wfield, do_dft2, do_spec_edit,
         arr_or_scalar, dcopy, ret, fail, alloc1, alloc_list, push_obj, set_obj, wr, getarr, getobj, scalar, valof, argvals,
         with_hp, with_ob, with_env, with_cache, with_rng, mul_fields, prop_vals; cbn [hp Purity.ob env cache rng fst snd];
  repeat (match goal with |- context [match ?x with _ => _ end] =>
            lazymatch x with context [match _ with _ => _ end] => fail | _ => destruct x eqn:? end end;
          cbn [hp Purity.ob env cache rng fst snd option_map]);
  reflexivity.
Qed.

Lemma main_rng s o cvs : uses_global_rng o = false -> rng (fst (main K s o cvs)) = rng s.
Proof. intros H. destruct s as [h ob e c g]. rewrite (main_with_hidden h ob e c g c g o cvs H). auto. Qed.

Lemma main_with_rng s o cvs r : uses_global_rng o = false ->
  main K (with_rng s r) o cvs = (with_rng (fst (main K s o cvs)) r, snd (main K s o cvs)).
Proof.
  intros H. destruct s as [h ob e c g]. unfold with_rng at 1. cbn [hp Purity.ob env cache].
  rewrite (main_with_hidden h ob e c g c r o cvs H). f_equal.
  rewrite (main_with_hidden h ob e c g c g o cvs H). reflexivity.
Qed.

Lemma cache_get_with_rng s k r : cache_get (with_rng s r) k = (with_rng (fst (cache_get s k)) r, snd (cache_get s k)).
Proof.
  unfold cache_get. cbn [cache with_rng]. destruct (clookup k (cache s)) as [[[[a b] c] d]|]; [reflexivity|].
  destruct (coords k) as [[[cR cS] cU] cV]. reflexivity.
Qed.
Lemma cache_get_list_with_rng ks r : forall s,
  cache_get_list (with_rng s r) ks = (with_rng (fst (cache_get_list s ks)) r, snd (cache_get_list s ks)).
Proof.
  induction ks as [|k ks IH]; intros s; cbn; auto. rewrite cache_get_with_rng.
  destruct (cache_get s k) as [s1 c]. cbn [fst snd]. rewrite IH. destruct (cache_get_list s1 ks); auto.
Qed.
Lemma cache_phase_with_rng s o r :
  cache_phase (with_rng s r) o = (with_rng (fst (cache_phase s o)) r, snd (cache_phase s o)).
Proof.
  destruct o; cbn [cache_phase]; try reflexivity.
  - change (getobj (with_rng s r) w) with (getobj s w). destruct (getobj s w) as [[j [| fs |]]|]; try reflexivity.
    apply cache_get_list_with_rng.
  - apply cache_get_list_with_rng.
Qed.
Lemma cache_phase_rng s o : rng (fst (cache_phase s o)) = rng s.
Proof.
  destruct o; cbn [cache_phase]; auto.
  - destruct (getobj s w) as [[j [| fs |]]|]; auto. apply cache_get_list_rng.
  - apply cache_get_list_rng.
Qed.

(* (d) operations that take a seed (and all deterministic ones) neither advance nor read the generator *)
Lemma seeded_rng s o : uses_global_rng o = false ->
  rng (fst (step K s o)) = rng s /\
  forall r, step K (with_rng s r) o = (with_rng (fst (step K s o)) r, snd (step K s o)).
Proof.
  intros H. unfold step. split.
  - pose proof (cache_phase_rng s o). destruct (cache_phase s o) as [s1 cvs]. cbn [fst] in *. rewrite main_rng; auto.
  - intros r. rewrite cache_phase_with_rng. destruct (cache_phase s o) as [s1 cvs]. cbn [fst snd]. apply main_with_rng; auto.
Qed.

(* operations without a cache phase run identically whatever the cache and the generator hold *)
Lemma step_forget s o r : uses_global_rng o = false -> uses_cache o = false ->
  hp (fst (step K (forget s r) o)) = hp (fst (step K s o)) /\
  Purity.ob (fst (step K (forget s r) o)) = Purity.ob (fst (step K s o)) /\
  env (fst (step K (forget s r) o)) = env (fst (step K s o)) /\
  snd (step K (forget s r) o) = snd (step K s o).
Proof.
  intros H1 H2. unfold step, forget. destruct s as [h ob e c g]. cbn [hp Purity.ob env].
  destruct o; try discriminate; cbn [cache_phase];
    rewrite (main_with_hidden h ob e c g [] r _ [] H1); cbn [fst snd hp Purity.ob env]; auto.
Qed.

(* ---- dft2: the result is a function of the argument alone ---- *)
Lemma valof_alloc1 s v : valof (fst (alloc1 s v)) (length (hp s)) = v.
Proof. unfold valof, hget; cbn. rewrite nth_error_app2 by lia. rewrite Nat.sub_diag. auto. Qed.

Lemma dft2_value s f k out inverse params a :
  inv s -> getarr s f = Some a ->
  let s' := fst (step K s (ODft2 f k out inverse params)) in
  let o := snd (step K s (ODft2 f k out inverse params)) in
  o_status o = 0 -> exists i, o_res o = VArr i /\ valof s' i = dft_spec K (valof s a) k inverse params.
Proof.
  intros I Ea. cbn zeta. unfold step. cbn [cache_phase cache_get_list].
  destruct (cache_get_spec s k I) as (SP & I1 & Ec). destruct (cache_get s k) as [s1 c]. cbn [fst snd] in *. subst c.
  cbn [main hd]. unfold do_dft2. rewrite (same_public_getarr _ _ _ SP), Ea.
  assert (valof s1 a = valof s a) as Va.
  { apply same_public_valof; auto. apply (proj1 I). eapply getarr_visible; eauto. }
  rewrite Va. fold (dft_spec K (valof s a) k inverse params).
  destruct out as [r|].
  - rewrite (same_public_getarr _ _ _ SP). destruct (getarr s r) as [o|]; [|cbn; discriminate].
    destruct (wr s1 o _) as [s2|] eqn:W; [|cbn; discriminate]. cbn. intros _. exists o. split; auto.
    unfold wr in W. destruct (hget (hp s1) o) as [c|] eqn:Ho; try discriminate. destruct (cfrozen c); try discriminate.
    injection W as <-. unfold valof, hget. cbn. rewrite nth_lset_same; auto. eapply hget_lt; eauto.
  - cbn. intros _. eexists; split; eauto. apply (valof_alloc1 s1).
Qed.

(* every dft2 call of every history started in a valid state returns dft_spec of its current argument *)
Lemma history_dft ops : forall s, inv s -> Forall (dft_ok K) (trace K s ops).
Proof.
  induction ops as [|o r IH]; intros s I; cbn; constructor.
  - unfold dft_ok. destruct (step K s o) as [post out] eqn:E. destruct o; auto.
    intros a Ha Hs. pose proof (dft2_value s f k out0 inverse params a I Ha) as H. cbn zeta in H. rewrite E in H. apply H; auto.
  - apply IH. apply step_inv; auto.
Qed.

Lemma inv_forget s r : inv s -> inv (forget s r).
Proof. intros [W _]. split; [exact W|intros e []]. Qed.

(* ... which is the value the same call returns when the cache is empty and the generator arbitrary *)
Lemma dft2_fresh s f k out inverse params a r :
  inv s -> getarr s f = Some a ->
  o_status (snd (step K s (ODft2 f k out inverse params))) = 0 ->
  o_status (snd (step K (forget s r) (ODft2 f k out inverse params))) = 0 ->
  exists i j, o_res (snd (step K s (ODft2 f k out inverse params))) = VArr i /\
              o_res (snd (step K (forget s r) (ODft2 f k out inverse params))) = VArr j /\
              valof (fst (step K s (ODft2 f k out inverse params))) i =
              valof (fst (step K (forget s r) (ODft2 f k out inverse params))) j.
Proof.
  intros I Ea S1 S2.
  destruct (dft2_value s f k out inverse params a I Ea S1) as (i & Hi & Vi).
  destruct (dft2_value (forget s r) f k out inverse params a (inv_forget s r I) Ea S2) as (j & Hj & Vj).
  exists i, j. repeat split; auto. rewrite Vi, Vj. reflexivity.
Qed.

End Hidden.

(* ------------------------------------------------------------------ statements used by Properties/C10.v *)
Section Statements.
Variable K : kernels.

Lemma frame s o :
  (forall i, In i (o_writes (snd (step K s o))) -> In i (documented s o) \/ (length (hp s) <= i)%nat) /\
  (forall i, (i < length (hp s))%nat -> ~ In i (documented s o) -> hget (hp (fst (step K s o))) i = hget (hp s) i).
Proof. pose proof (step_frame K s o) as H. cbn zeta in H. tauto. Qed.

Lemma frame_frozen s o i c :
  hget (hp s) i = Some c -> cfrozen c = true -> hget (hp (fst (step K s o))) i = Some c.
Proof. pose proof (step_frame K s o) as H. cbn zeta in H. apply H. Qed.

Lemma frame_objects s o :
  incl (o_owrites (snd (step K s o))) (odocumented s o) /\
  (forall j, (j < length (ob s))%nat -> ~ In j (odocumented s o) -> nth_error (ob (fst (step K s o))) j = nth_error (ob s) j).
Proof. pose proof (step_frame K s o) as H. cbn zeta in H. tauto. Qed.

Lemma registers_append s o : env (fst (step K s o)) = env s ++ [o_res (snd (step K s o))].
Proof. pose proof (step_frame K s o) as H. cbn zeta in H. tauto. Qed.

Lemma cache_invariant s : reachable K s -> wf s /\ cache_ok s.
Proof. apply reachable_inv. Qed.

Lemma cache_never_written s o e :
  inv s -> In e (cache s) ->
  let '(k, (a, b, c, d)) := e in
  ~ In a (o_writes (snd (step K s o))) /\ ~ In b (o_writes (snd (step K s o))) /\
  ~ In c (o_writes (snd (step K s o))) /\ ~ In d (o_writes (snd (step K s o))).
Proof.
  intros [W C] He. pose proof (C e He) as Ok. destruct e as [k [[[a b] c] d]]. cbn in Ok.
  destruct (coords k) as [[[cR cS] cU] cV]. destruct (frame s o) as [Fw _].
  assert (forall x v, cell_is s x v -> ~ In x (o_writes (snd (step K s o)))) as H.
  { intros x v [H1 H2] Hw. destruct (Fw x Hw) as [Hd|Hd].
    - apply H2. eapply documented_visible; eauto.
    - apply hget_lt in H1. lia. }
  destruct Ok as (Ha & Hb & Hc & Hd). repeat split; eapply H; eauto.
Qed.

Lemma cache_invariant_explicit s : reachable K s ->
  (forall i, In i (visible s) -> (i < length (hp s))%nat) /\
  (forall k a b c d, In (k, (a, b, c, d)) (cache s) ->
     let '(cR, cS, cU, cV) := coords k in
     (hget (hp s) a = Some (mkcell cR false) /\ ~ In a (visible s)) /\
     (hget (hp s) b = Some (mkcell cS false) /\ ~ In b (visible s)) /\
     (hget (hp s) c = Some (mkcell cU false) /\ ~ In c (visible s)) /\
     (hget (hp s) d = Some (mkcell cV false) /\ ~ In d (visible s))).
Proof.
  intros R. destruct (cache_invariant s R) as [W C]. split; [exact W|].
  intros k a b c d H. exact (C _ H).
Qed.

Lemma cache_never_written_explicit s o k a b c d :
  inv s -> In (k, (a, b, c, d)) (cache s) ->
  ~ In a (o_writes (snd (step K s o))) /\ ~ In b (o_writes (snd (step K s o))) /\
  ~ In c (o_writes (snd (step K s o))) /\ ~ In d (o_writes (snd (step K s o))).
Proof. intros I H. exact (cache_never_written s o _ I H). Qed.

Lemma history_independent ops s : inv s -> Forall (dft_ok K) (trace K s ops).
Proof. apply history_dft. Qed.

End Statements.
