(* WP-K (detector chain): composition of C16 (collect_charge, adc), C20 (rebin) and C19 (pixel blur):
     photons (nwave x R x C cube) -> collect_charge(qe) -> [pixel MTF] -> rebin(oversample) -> adc(gain, saturation).
   Nothing here is about new model code: every lemma combines theorems of Proofs/DetectorP.v, Proofs/GeometryP.v,
   Proofs/BlurP.v and Proofs/BlurC.v about the model functions of Model/{Detector,Geometry,Blur}.v.
   The detector model's cube (cnk, cnr, cnc, cget) and the geometry model's cube (cd, cr, cc, cget) are different
   records: they are written qualified and related explicitly. *)
From Coq Require Import Reals QArith Qreals Qcanon.
From Coquelicot Require Import Complex.
From LV Require Import Lib.Cis Model.Blur Proofs.ArrP Proofs.BlurP Proofs.BlurC.
From LV Require Import Model.Geometry Proofs.GeometryP.
From LV Require Import Model.Detector Proofs.DetectorP.
Local Open Scope Z_scope.

(* the rationals of the adc model form a ring *)
Lemma QcS_ring : is_ring QcS.
Proof. exact Qcrt. Qed.

Section DetGen.
Variable S : Scalar.
Hypothesis Sring : is_ring S.
Add Ring SrD : Sring.

(* divisible shapes: lentil.rebin accepts and returns the block sums *)
Lemma rebin2_divisible (a : arr S) f : 0 < f -> nr a mod f = 0 -> nc a mod f = 0 ->
  rebin2 a f = Ok (mkArr (nr a / f) (nc a / f) (rebin_get f (get a))).
Proof.
  intros Hf Hr Hc. unfold rebin2. replace (f <=? 0) with false by lia.
  assert (E1 : nr a / f * f = nr a) by lia. assert (E2 : nc a / f * f = nc a) by lia.
  unfold reshape_ok. rewrite E1, E2, Z.eqb_refl. reflexivity.
Qed.

(* sum over the f x f block of a sum over wavelengths = sum over wavelengths of the block sums *)
Lemma block_of_charge (g : Z -> Z -> Z -> S) (q : Z -> S) nw f i j :
  rebin_get f (fun x y => sumZ nw (fun k => (g k x y * q k)%K)) i j
  = sumZ nw (fun k => (rebin_get f (g k) i j * q k)%K).
Proof.
  unfold rebin_get.
  transitivity (sumZ f (fun u => sumZ nw (fun k => sumZ f (fun v => (g k (i * f + u)%Z (j * f + v)%Z * q k)%K)))).
  { apply sumZ_ext; intros u _. apply (sumZ_exchange S Sring). }
  rewrite (sumZ_exchange S Sring). apply sumZ_ext; intros k _.
  rewrite <- (sumZ_scale_r S Sring). apply sumZ_ext; intros u _. now rewrite <- (sumZ_scale_r S Sring).
Qed.

(* total of a charge image = efficiency-weighted total of the photon cube *)
Lemma total_of_charge (g : Z -> Z -> Z -> S) (q : Z -> S) nw n m :
  sumZ n (fun i => sumZ m (fun j => sumZ nw (fun k => (g k i j * q k)%K)))
  = sumZ nw (fun k => (q k * sumZ n (fun i => sumZ m (fun j => g k i j)))%K).
Proof.
  transitivity (sumZ n (fun i => sumZ nw (fun k => sumZ m (fun j => (g k i j * q k)%K)))).
  { apply sumZ_ext; intros i _. apply (sumZ_exchange S Sring). }
  rewrite (sumZ_exchange S Sring). apply sumZ_ext; intros k _.
  rewrite <- (sumZ_scale_l S Sring). apply sumZ_ext; intros i _.
  rewrite <- (sumZ_scale_l S Sring). apply sumZ_ext; intros j _. ring.
Qed.

(* C16 o C20: collect the charge of an oversampled photon cube, then bin f x f sub-pixels into detector pixels.
   Every detector pixel holds sum_k qe_k * (photons of slice k in its f x f block); the total charge is the
   efficiency-weighted total flux; binning every wavelength slice first (rebin on the cube) and collecting afterwards
   gives the same frame. *)
Theorem collect_then_rebin (c : Detector.cube S) (v : vec S) nw f :
  cnk c = nw -> vn v = nw -> 0 < cnr c -> 0 < cnc c -> 0 < f -> cnr c mod f = 0 -> cnc c mod f = 0 ->
  exists a b cb ab,
    collect_charge (Img3 c) nw (QVec v) = Ok a /\ rebin2 a f = Ok b /\
    nr b = cnr c / f /\ nc b = cnc c / f /\
    (forall i j, get b i j = sumZ nw (fun k => (rebin_get f (Detector.cget c k) i j * vget v k)%K)) /\
    asum b = sumZ nw (fun k => (vget v k * sumZ (cnr c) (fun i => sumZ (cnc c) (fun j => Detector.cget c k i j)))%K) /\
    rebin3 (Geometry.mkCube (cnk c) (cnr c) (cnc c) (Detector.cget c)) f = Ok cb /\
    collect_charge (Img3 (Detector.mkCube (cd cb) (cr cb) (cc cb) (Geometry.cget cb))) nw (QVec v) = Ok ab /\
    nr ab = nr b /\ nc ab = nc b /\ forall i j, get ab i j = get b i j.
Proof.
  intros Hk Hv Hr Hc Hf Dr Dc.
  destruct (collect_charge_spec S (Img3 c) nw v Hk Hv) as (a & Ea & Na & Ma & Ga). cbn [as_cube] in Na, Ma, Ga.
  assert (Eb : rebin2 a f = Ok (mkArr (nr a / f) (nc a / f) (rebin_get f (get a))))
    by (apply rebin2_divisible; [assumption|now rewrite Na|now rewrite Ma]).
  set (b := mkArr (nr a / f) (nc a / f) (rebin_get f (get a))) in *.
  assert (Gb : forall i j, get b i j = sumZ nw (fun k => (rebin_get f (Detector.cget c k) i j * vget v k)%K)).
  { intros i j. unfold b. cbn [get]. rewrite <- block_of_charge. unfold rebin_get.
    apply sumZ_ext; intros u _. apply sumZ_ext; intros w _. apply Ga. }
  set (gc := Geometry.mkCube (cnk c) (cnr c) (cnc c) (Detector.cget c)).
  assert (Ecb : rebin3 gc f = Ok (Geometry.mkCube (cnk c) (cnr c / f) (cnc c / f) (fun k => rebin_get f (Detector.cget c k)))).
  { unfold rebin3, gc. cbn [cd cr cc Geometry.cget]. replace (f <=? 0) with false by lia.
    assert (E1 : cnr c / f * f = cnr c) by lia. assert (E2 : cnc c / f * f = cnc c) by lia.
    unfold reshape_ok. rewrite E1, E2, Z.eqb_refl. rewrite Bool.andb_false_r. reflexivity. }
  set (cb := Geometry.mkCube (cnk c) (cnr c / f) (cnc c / f) (fun k => rebin_get f (Detector.cget c k))) in *.
  destruct (collect_charge_spec S (Img3 (Detector.mkCube (cd cb) (cr cb) (cc cb) (Geometry.cget cb))) nw v Hk Hv)
    as (ab & Eab & Nab & Mab & Gab). cbn [as_cube cnr cnc Detector.cget cb cr cc Geometry.cget] in Nab, Mab, Gab.
  exists a, b, cb, ab. split; [exact Ea|]. split; [exact Eb|].
  split; [unfold b; cbn [nr]; now rewrite Na|]. split; [unfold b; cbn [nc]; now rewrite Ma|].
  split; [exact Gb|]. split.
  { destruct (rebin2_sum S Sring a f b) as (_ & _ & _ & Es); [lia|lia|exact Eb|].
    rewrite Es. unfold asum. rewrite Na, Ma.
    rewrite <- total_of_charge. apply sumZ_ext; intros i _. apply sumZ_ext; intros j _. apply Ga. }
  split; [exact Ecb|]. split; [exact Eab|].
  split; [unfold b; cbn [nr]; now rewrite Nab, Na|]. split; [unfold b; cbn [nc]; now rewrite Mab, Ma|].
  intros i j. now rewrite Gab, Gb.
Qed.
End DetGen.

(* ================================================================== the full chain on the rationals *)
(* C16 o C20 o C16: photons -> collect_charge -> rebin(oversample) -> adc.  The digital number of every detector pixel
   is max(0, floor(gain polynomial(min(electrons, capacity)))) of the electrons its f x f block collected. *)
Theorem detector_digitise (c : Detector.cube QcS) (v : vec QcS) nw f (g : gainrep) (sat : option Qc) (warn : bool) :
  cnk c = nw -> vn v = nw -> 0 < cnr c -> 0 < cnc c -> 0 < f -> cnr c mod f = 0 -> cnc c mod f = 0 ->
  gain_fits g (cnr c / f) (cnc c / f) ->
  exists a b w dn,
    collect_charge (Img3 c) nw (QVec v) = Ok a /\ rebin2 a f = Ok b /\ adc b g sat warn = Ok (w, dn) /\
    nr dn = cnr c / f /\ nc dn = cnc c / f /\
    (forall i j, 0 <= i < cnr c / f -> 0 <= j < cnc c / f ->
       get dn i j = Z.max 0 (qfloor (polyval (gain_poly g i j ++ [Q2Qc 0])
                      (clip_spec sat (@sumZ QcS nw (fun k =>
                         (@sumZ QcS f (fun u => @sumZ QcS f (fun x => Detector.cget c k (i * f + u) (j * f + x)))
                          * vget v k)%Qc)))))
       /\ 0 <= get dn i j) /\
    (w = true <-> warn = true /\ exceeds sat b) /\
    @asum QcS b = @sumZ QcS nw (fun k =>
       (vget v k * @sumZ QcS (cnr c) (fun i => @sumZ QcS (cnc c) (fun j => Detector.cget c k i j)))%Qc).
Proof.
  intros Hk Hv Hr Hc Hf Dr Dc Hg.
  destruct (collect_then_rebin QcS QcS_ring c v nw f Hk Hv Hr Hc Hf Dr Dc)
    as (a & b & _ & _ & Ea & Eb & Nb & Mb & Gb & Tb & _).
  assert (Hg' : gain_fits g (nr b) (nc b)) by (now rewrite Nb, Mb).
  destruct (adc_spec b g sat warn Hg') as (w & dn & Ed & Nd & Md & Gd & Wd).
  exists a, b, w, dn. repeat (split; [assumption|]).
  split; [congruence|]. split; [congruence|]. split; [|split; [exact Wd|exact Tb]].
  intros i j Hi Hj. destruct (Gd i j) as [G1 G2]; [lia|lia|]. split; [|exact G2].
  rewrite G1, Gb. reflexivity.
Qed.

(* ================================================================== with the pixel MTF, over the complex numbers *)
(* C16 o C19 o C20: lentil's pixelate(img, oversample) = rebin(pixel(img, oversample), oversample) applied to the
   collected charge.  Where the circular convolution with the pixel's point-spread function is non-negative (the
   hypothesis under which C19 proves flux preservation: np.abs would otherwise fold negative ringing), the total
   charge after pixelation is the efficiency-weighted total flux. *)
Theorem detector_pixelate_flux (sinc : Qc -> C) (c : Detector.cube CS) (v : vec CS) nw f :
  sinc 0%Qc = RtoC 1 ->
  cnk c = nw -> vn v = nw -> 0 < cnr c -> 0 < cnc c -> 0 < f -> cnr c mod f = 0 -> cnc c mod f = 0 ->
  exists a, collect_charge (Img3 c) nw (QVec v) = Ok a /\ nr a = cnr c /\ nc a = cnc c /\
    ((forall i j, 0 <= i < cnr c -> 0 <= j < cnc c ->
        Cnn (get (cconv a (ifft2 (@pixel_mul CS sinc (zQ f) (cnr c) (cnc c)))) i j)) ->
     exists b, rebin2 (@pixel CS sinc Cabs a (zQ f)) f = Ok b /\ nr b = cnr c / f /\ nc b = cnc c / f /\
       (forall i j, Cnn (get b i j)) /\
       asum b = @sumZ CS nw (fun k =>
          Cmult (vget v k) (@sumZ CS (cnr c) (fun i => @sumZ CS (cnc c) (fun j => Detector.cget c k i j))))).
Proof.
  intros Hs Hk Hv Hr Hc Hf Dr Dc.
  destruct (collect_charge_spec CS (Img3 c) nw v Hk Hv) as (a & Ea & Na & Ma & Ga). cbn [as_cube] in Na, Ma, Ga.
  exists a. repeat (split; [assumption|]). intros Hnn.
  set (p := @pixel CS sinc Cabs a (zQ f)).
  assert (Np : nr p = nr a) by reflexivity. assert (Mp : nc p = nc a) by reflexivity.
  assert (Eb : rebin2 p f = Ok (mkArr (nr p / f) (nc p / f) (rebin_get f (get p))))
    by (apply (rebin2_divisible CS); [assumption|now rewrite Np, Na|now rewrite Mp, Ma]).
  eexists. split; [exact Eb|]. cbn [nr nc]. split; [now rewrite Np, Na|]. split; [now rewrite Mp, Ma|]. split.
  { intros i j. cbn [get]. unfold rebin_get. apply Cnn_sumZ; intros u _. apply Cnn_sumZ; intros x _.
    unfold p, pixel. apply blur_nonneg. }
  destruct (rebin2_sum CS CS_ring p f _ ltac:(rewrite Np, Na; lia) ltac:(rewrite Mp, Ma; lia) Eb) as (_ & _ & _ & Es).
  rewrite Es. unfold p, pixel.
  destruct (blur_is_cconv (@pixel_mul CS sinc (zQ f) (nr a) (nc a)) a eq_refl eq_refl) as [_ Ht].
  { rewrite Na, Ma. exact Hnn. }
  rewrite Ht; [|lia|lia|apply (pixel_mul_dc CS CS_ring); [lia|lia|exact Hs]].
  unfold asum. rewrite Na, Ma. change Cmult with (@kmul CS).
  rewrite <- (total_of_charge CS CS_ring). apply sumZ_ext; intros i _. apply sumZ_ext; intros j _. apply Ga.
Qed.

(* the non-negativity hypothesis is satisfiable: for the ideal point pixel (transfer function identically 1) the
   convolution with the pixel's point-spread function is the image itself *)
Lemma Cnn_IZR z : 0 <= z -> Cnn (RtoC (IZR z)).
Proof. intros H. split; cbn; [now apply IZR_le|reflexivity]. Qed.

Lemma ideal_pixel_nonneg (a : arr CS) os :
  (forall i j, 0 <= i < nr a -> 0 <= j < nc a -> Cnn (get a i j)) ->
  forall i j, 0 <= i < nr a -> 0 <= j < nc a ->
  Cnn (get (cconv a (ifft2 (@pixel_mul CS (fun _ => RtoC 1) os (nr a) (nc a)))) i j).
Proof.
  intros H i j Hi Hj. rewrite <- conv_is_cconv_ifft by (try reflexivity; assumption).
  rewrite conv_unit; [now apply H|assumption|assumption|].
  intros u v _ _. cbn [pixel_mul get]. change (Cmult (RtoC 1) (RtoC 1) = RtoC 1). ring.
Qed.
