(* Energy theorems for C05: Parseval over a period >= the input (from Proofs/DftInvP.v), windows of a
   full-period output, monotonicity of the captured energy on the reals, normalize_power. *)
From Coq Require Import Reals Lra QArith Qreals Qcanon.
From Coquelicot Require Import Complex.
From LV Require Import Lib.Cis Model.Dft Model.Power Proofs.ArrP Proofs.DftP Proofs.DftInvP.

(* ------------------------------------------------------------------------------------------ *)
(** * Ring-generic part *)
Section Gen.
Variable S : Scalar.
Hypothesis Sring : is_ring S.
Hypothesis Skernel : kernel_laws S.
Hypothesis Sconj : conj_laws S.
Add Ring Sr3 : Sring.

(* the phasor of Plane.multiply has unit modulus: the input power is the power of the amplitude *)
Lemma power_pupil_field (amp : arr S) phase : power (pupil_field amp phase) = power amp.
Proof. unfold power, pupil_field, asum, amap. cbn [nr nc get].
  apply sumZ_ext; intros x _. apply sumZ_ext; intros y _.
  rewrite (norm2_mul S Sring Sconj), (norm2_ke S Skernel Sconj). ring. Qed.

(* the energy in the centred M x N window of the full-period output is the total intensity of the
   transform evaluated on that window only (what dft2 is asked for when shape < period) *)
Theorem window_energy_dft2 (sq : Qc -> S) (f : arr S) Pr Pc offr offc M N :
  0 <= M <= Pr -> 0 <= N <= Pc ->
  window_energy (propagate_period sq f Pr Pc offr offc) M N
  = sumZ M (fun u => sumZ N (fun v => norm2
      (get (dft2 sq f (/ zq Pr)%Qc (/ zq Pc)%Qc M N 0%Qc 0%Qc offr offc true) u v))).
Proof.
  intros HM HN. unfold window_energy, propagate_period.
  destruct (dft2_shape S sq f (/ zq Pr)%Qc (/ zq Pc)%Qc Pr Pc 0%Qc 0%Qc offr offc true) as [-> ->].
  apply sumZ_ext; intros u Hu. apply sumZ_ext; intros v Hv. f_equal. symmetry.
  pose proof (dft2_window S Sring Skernel sq f (/ zq Pr)%Qc (/ zq Pc)%Qc M N Pr Pc 0 0 0 0 offr offc true u v) as W.
  change (zq 0) with 0%Qc in W. rewrite W by lia. f_equal; lia.
Qed.

(* scaling every sample by c scales the power by |c|^2 *)
Lemma power_scale (a : arr S) (c : S) : power (amap (fun z => (z * c)%K) a) = (power a * norm2 c)%K.
Proof. unfold power, asum, amap. cbn [nr nc get]. rewrite <- (sumZ_scale_r S Sring).
  apply sumZ_ext; intros x _. rewrite <- (sumZ_scale_r S Sring). apply sumZ_ext; intros y _.
  apply (norm2_mul S Sring Sconj). Qed.

Theorem normalize_power_gen (sqs inv : S -> S) (a : arr S) (p : S) :
  (power a * inv (power a))%K = k1 ->
  norm2 (sqs (p * inv (power a))%K) = (p * inv (power a))%K ->
  power (normalize_power sqs inv a p) = p.
Proof. intros Hinv Hsq. unfold normalize_power. rewrite power_scale, Hsq.
  transitivity (p * (power a * inv (power a)))%K; [ring|]. rewrite Hinv. ring. Qed.
End Gen.

(* ------------------------------------------------------------------------------------------ *)
(** * Real sums: non-negativity and nested windows *)
Local Open Scope R_scope.

Lemma sumZ_RS_nonneg n (g : Z -> R) : (forall i, (0 <= i < n)%Z -> 0 <= g i) -> 0 <= @sumZ RS n g.
Proof. intros H. unfold sumZ.
  assert (forall k, (k <= Z.to_nat n)%nat -> 0 <= @sumn RS k (fun i => g (Z.of_nat i))) as A.
  { induction k as [|k IH]; intros Hk; cbn [sumn]; [cbn; lra|].
    cbn [kadd RS]. apply Rplus_le_le_0_compat; [apply IH; lia|apply H; lia]. }
  apply A. lia. Qed.
Lemma sumZ_RS_le n (g h : Z -> R) : (forall i, (0 <= i < n)%Z -> g i <= h i) -> @sumZ RS n g <= @sumZ RS n h.
Proof. intros H. unfold sumZ.
  assert (forall k, (k <= Z.to_nat n)%nat ->
            @sumn RS k (fun i => g (Z.of_nat i)) <= @sumn RS k (fun i => h (Z.of_nat i))) as A.
  { induction k as [|k IH]; intros Hk; cbn [sumn]; [cbn; lra|].
    cbn [kadd RS]. apply Rplus_le_compat; [apply IH; lia|apply H; lia]. }
  apply A. lia. Qed.
(* a sub-range of a sum of non-negative terms *)
Lemma sumZ_RS_window n lo len (g : Z -> R) : (0 <= lo)%Z -> (0 <= len)%Z -> (lo + len <= n)%Z ->
  (forall i, (0 <= i < n)%Z -> 0 <= g i) ->
  @sumZ RS len (fun i => g (lo + i)%Z) <= @sumZ RS n g.
Proof. intros Hlo Hlen Hn Hg.
  replace n with (lo + (len + (n - lo - len)))%Z by lia.
  rewrite (sumZ_split RS RS_ring) by lia. rewrite (sumZ_split RS RS_ring) by lia. cbn [kadd RS].
  pose proof (sumZ_RS_nonneg lo g) as A. 
  pose proof (sumZ_RS_nonneg (n - lo - len) (fun i => g (lo + (len + i))%Z)) as B.
  assert (0 <= @sumZ RS lo g) by (apply A; intros; apply Hg; lia).
  assert (0 <= @sumZ RS (n - lo - len) (fun i => g (lo + (len + i))%Z)) by (apply B; intros; apply Hg; lia).
  lra. Qed.
Lemma window2_le (I : Z -> Z -> R) M1 N1 M2 N2 lr lc :
  (forall u v, 0 <= I u v) ->
  (0 <= lr)%Z -> (0 <= M1)%Z -> (lr + M1 <= M2)%Z -> (0 <= lc)%Z -> (0 <= N1)%Z -> (lc + N1 <= N2)%Z ->
  @sumZ RS M1 (fun u => @sumZ RS N1 (fun v => I (lr + u)%Z (lc + v)%Z))
  <= @sumZ RS M2 (fun u => @sumZ RS N2 (fun v => I u v)).
Proof. intros HI H1 H2 H3 H4 H5 H6.
  apply Rle_trans with (@sumZ RS M1 (fun u => @sumZ RS N2 (fun v => I (lr + u)%Z v))).
  - apply sumZ_RS_le; intros u _. apply (sumZ_RS_window N2 lc N1 (fun v => I (lr + u)%Z v)); auto.
  - apply (sumZ_RS_window M2 lr M1 (fun u => @sumZ RS N2 (fun v => I u v))); auto.
    intros u _. apply sumZ_RS_nonneg; auto. Qed.

(* bridge between the complex squared modulus [norm2] and the real (Cmod z)^2 *)
Lemma norm2_Cmod (z : C) : @norm2 CS z = RtoC (Cmod z ^ 2).
Proof. destruct z as [a b]. unfold norm2, Cmod. cbn [kmul kconj CS fst snd].
  rewrite pow2_sqrt by nra. unfold Cmult, Cconj, RtoC; cbn [fst snd]. f_equal; ring. Qed.
Lemma RtoC_sumZ n (g : Z -> R) : RtoC (@sumZ RS n g) = @sumZ CS n (fun i => RtoC (g i)).
Proof. unfold sumZ. induction (Z.to_nat n) as [|k IH]; cbn [sumn]; [reflexivity|].
  cbn [kadd RS CS]. rewrite RtoC_plus, IH. reflexivity. Qed.
Lemma RtoC_sum2 m n (g : Z -> Z -> R) :
  RtoC (@sumZ RS m (fun x => @sumZ RS n (fun y => g x y))) = @sumZ CS m (fun x => @sumZ CS n (fun y => RtoC (g x y))).
Proof. rewrite RtoC_sumZ. apply (sumZ_ext CS); intros x _. apply RtoC_sumZ. Qed.
(* total intensity of an array, as a real number *)
Lemma RtoC_energy m n (a : Z -> Z -> C) :
  RtoC (@sumZ RS m (fun x => @sumZ RS n (fun y => Cmod (a x y) ^ 2)))
  = @sumZ CS m (fun x => @sumZ CS n (fun y => @norm2 CS (a x y))).
Proof. rewrite RtoC_sum2. apply (sumZ_ext CS); intros x _. apply (sumZ_ext CS); intros y _.
  symmetry. apply norm2_Cmod. Qed.
Local Open Scope Z_scope.

(* ------------------------------------------------------------------------------------------ *)
(** * T05a on the reals, T05b, T05c *)

(* real-valued energy of the transform evaluated on the centred M x N output window *)
Definition dft_energy (sq : Qc -> C) (f : arr CS) (Pr Pc offr offc M N : Z) : R :=
  @sumZ RS M (fun u => @sumZ RS N (fun v =>
     (Cmod (get (dft2 (S:=CS) sq f (/ zq Pr)%Qc (/ zq Pc)%Qc M N 0%Qc 0%Qc offr offc true) u v) ^ 2)%R)).

Theorem parseval_period_real (sq : Qc -> C) (f : arr CS) Pr Pc offr offc :
  sq_spec sq -> 0 < Pr -> 0 < Pc -> nr f <= Pr -> nc f <= Pc ->
  dft_energy sq f Pr Pc offr offc Pr Pc
  = @sumZ RS (nr f) (fun x => @sumZ RS (nc f) (fun y => (Cmod (get f x y) ^ 2)%R)).
Proof. intros Hsq HPr HPc Hm Hn. apply RtoC_inj. unfold dft_energy. rewrite !RtoC_energy.
  now apply parseval_period. Qed.

Theorem window_monotone (sq : Qc -> C) (f : arr CS) Pr Pc offr offc M1 N1 M2 N2 :
  0 <= M1 <= M2 -> 0 <= N1 <= N2 ->
  (0 <= dft_energy sq f Pr Pc offr offc M1 N1 <= dft_energy sq f Pr Pc offr offc M2 N2)%R.
Proof.
  intros HM HN. split.
  - unfold dft_energy. apply sumZ_RS_nonneg; intros u _. apply sumZ_RS_nonneg; intros v _. apply pow2_ge_0.
  - unfold dft_energy.
    set (I := fun u v => (Cmod (get (dft2 (S:=CS) sq f (/ zq Pr)%Qc (/ zq Pc)%Qc M2 N2 0%Qc 0%Qc offr offc true) u v) ^ 2)%R).
    apply Rle_trans with (@sumZ RS M1 (fun u => @sumZ RS N1 (fun v => I (M2 / 2 - M1 / 2 + u) (N2 / 2 - N1 / 2 + v)))).
    + apply Req_le. apply (sumZ_ext RS); intros u Hu. apply (sumZ_ext RS); intros v Hv. unfold I. do 2 f_equal.
      pose proof (dft2_window CS CS_ring CS_kernel sq f (/ zq Pr)%Qc (/ zq Pc)%Qc M1 N1 M2 N2 0 0 0 0 offr offc true u v) as W.
      change (zq 0) with 0%Qc in W. rewrite W by lia. f_equal; lia.
    + apply window2_le; try lia. intros u v. unfold I. apply pow2_ge_0.
Qed.

(* T05b, upper end: any window inside one period captures at most the input power *)
Theorem window_bounded (sq : Qc -> C) (f : arr CS) Pr Pc offr offc M N :
  sq_spec sq -> 0 < Pr -> 0 < Pc -> nr f <= Pr -> nc f <= Pc -> 0 <= M <= Pr -> 0 <= N <= Pc ->
  (dft_energy sq f Pr Pc offr offc M N
   <= @sumZ RS (nr f) (fun x => @sumZ RS (nc f) (fun y => (Cmod (get f x y) ^ 2)%R)))%R.
Proof. intros Hsq HPr HPc Hm Hn HM HN. rewrite <- (parseval_period_real sq f Pr Pc offr offc) by assumption.
  now apply window_monotone. Qed.

(* ------------------------------------------------------------------------------------------ *)
(** * normalize_power on the reals and on the complex numbers *)
Local Open Scope R_scope.

Theorem normalize_power_RS (a : arr RS) (p : R) : 0 < @power RS a -> 0 <= p ->
  @power RS (@normalize_power RS sqrt Rinv a p) = p.
Proof.
  intros HT Hp. apply (normalize_power_gen RS RS_ring).
  - split; cbn; intros; try reflexivity. (* conj_laws RS: conjugation is the identity, ke = 1 *)
  - cbn [kmul k1 RS]. apply Rinv_r. lra.
  - unfold norm2. cbn [kmul kconj RS]. apply sqrt_sqrt. apply Rmult_le_pos; [assumption|].
    left. now apply Rinv_0_lt_compat.
Qed.

(* the power of a complex array is a non-negative real *)
Lemma power_CS_real (a : arr CS) :
  @power CS a = RtoC (@sumZ RS (nr a) (fun x => @sumZ RS (nc a) (fun y => Cmod (get a x y) ^ 2))).
Proof. rewrite RtoC_energy. reflexivity. Qed.

Definition csqrt_re (z : C) : C := RtoC (sqrt (fst z)).

Theorem normalize_power_CS (a : arr CS) (p : R) :
  0 < @sumZ RS (nr a) (fun x => @sumZ RS (nc a) (fun y => Cmod (get a x y) ^ 2)) -> 0 <= p ->
  @power CS (@normalize_power CS csqrt_re Cinv a (RtoC p)) = RtoC p.
Proof.
  intros HT Hp. apply (normalize_power_gen CS CS_ring CS_conj); rewrite power_CS_real;
    set (T := @sumZ RS (nr a) _) in *; clearbody T.
  - cbn [kmul k1 CS]. apply Cinv_r. intro E. apply RtoC_inj in E. lra.
  - cbn [kmul CS]. rewrite <- RtoC_inv, <- RtoC_mult by lra. unfold csqrt_re. cbn [fst RtoC].
    rewrite CS_norm2_RtoC. f_equal. apply sqrt_sqrt. apply Rmult_le_pos; [assumption|].
    left. now apply Rinv_0_lt_compat.
Qed.
Local Open Scope Z_scope.

(* ------------------------------------------------------------------------------------------ *)
(** * The chain: normalised amplitude -> pupil field -> one full period of the far field *)
Theorem propagate_period_power (sq : Qc -> C) (f : arr CS) Pr Pc offr offc :
  sq_spec sq -> 0 < Pr -> 0 < Pc -> nr f <= Pr -> nc f <= Pc ->
  @power CS (@propagate_period CS sq f Pr Pc offr offc) = @power CS f.
Proof. intros Hsq HPr HPc Hm Hn. unfold power at 1, asum, propagate_period.
  destruct (dft2_shape CS sq f (/ zq Pr)%Qc (/ zq Pc)%Qc Pr Pc 0%Qc 0%Qc offr offc true) as [E1 E2].
  cbn [amap nr nc get]. rewrite E1, E2. now apply parseval_period. Qed.

Theorem normalized_images_to_p (sq : Qc -> C) (a : arr CS) (p : R) phase Pr Pc offr offc :
  sq_spec sq -> 0 < Pr -> 0 < Pc -> nr a <= Pr -> nc a <= Pc ->
  (0 < @sumZ RS (nr a) (fun x => @sumZ RS (nc a) (fun y => Cmod (get a x y) ^ 2)))%R -> (0 <= p)%R ->
  @power CS (@propagate_period CS sq (pupil_field (@normalize_power CS csqrt_re Cinv a (RtoC p)) phase) Pr Pc offr offc)
  = RtoC p.
Proof. intros Hsq HPr HPc Hm Hn HT Hp.
  rewrite propagate_period_power by assumption.
  rewrite (power_pupil_field CS CS_ring CS_kernel CS_conj). now apply normalize_power_CS. Qed.

(* an array with a non-zero sample has positive power (for non-vacuity examples) *)
Lemma sumZ_RS_one (h : Z -> R) : @sumZ RS 1 h = h 0.
Proof. unfold sumZ. cbn. apply Rplus_0_l. Qed.
Lemma energy_pos (a : arr CS) x0 y0 : 0 <= x0 < nr a -> 0 <= y0 < nc a -> get a x0 y0 <> RtoC 0 ->
  (0 < @sumZ RS (nr a) (fun x => @sumZ RS (nc a) (fun y => Cmod (get a x y) ^ 2)))%R.
Proof.
  intros Hx Hy Hne.
  pose proof (sumZ_RS_window (nr a) x0 1 (fun x => @sumZ RS (nc a) (fun y => (Cmod (get a x y) ^ 2)%R))) as A.
  pose proof (sumZ_RS_window (nc a) y0 1 (fun y => (Cmod (get a x0 y) ^ 2)%R)) as B.
  rewrite sumZ_RS_one, Z.add_0_r in A, B.
  assert (0 < Cmod (get a x0 y0) ^ 2)%R by (apply pow_lt; now apply Cmod_gt_0).
  assert (Cmod (get a x0 y0) ^ 2 <= @sumZ RS (nc a) (fun y => Cmod (get a x0 y) ^ 2))%R.
  { apply B; try lia. intros; apply pow2_ge_0. }
  assert (@sumZ RS (nc a) (fun y => Cmod (get a x0 y) ^ 2) <= @sumZ RS (nr a) (fun x => @sumZ RS (nc a) (fun y => (Cmod (get a x y) ^ 2))))%R.
  { apply A; try lia. intros; apply sumZ_RS_nonneg; intros; apply pow2_ge_0. }
  lra.
Qed.

(* ------------------------------------------------------------------------------------------ *)
(** * normalize_power including the non-finite calls *)
Local Open Scope R_scope.
Definition R_is0 (x : R) : bool := if Req_EM_T x 0 then true else false.

Lemma power_RS_nonneg (a : arr RS) : 0 <= @power RS a.
Proof. unfold power, asum, amap. cbn [nr nc get]. apply sumZ_RS_nonneg; intros x _. apply sumZ_RS_nonneg; intros y _.
  unfold norm2. cbn [kmul kconj RS]. nra. Qed.

Lemma Qle_bool_0_Q2R (p : Qc) : Qle_bool 0 (this p) = true <-> 0 <= Q2R p.
Proof. rewrite Qle_bool_iff. split; intros H.
  - apply Qle_Rle in H. now rewrite RMicromega.Q2R_0 in H.
  - apply Rle_Qle. now rewrite RMicromega.Q2R_0. Qed.

(* the result is finite exactly when the array has non-zero power and the target is not negative; it then has power p *)
Theorem normalize_power_checked_RS (a : arr RS) (p : Qc) :
  (forall b, @normalize_power_checked RS sqrt Rinv R_is0 a p = Some b ->
             @power RS a <> 0 /\ 0 <= Q2R p /\ b = @normalize_power RS sqrt Rinv a (Q2R p) /\ @power RS b = Q2R p)
  /\ (@normalize_power_checked RS sqrt Rinv R_is0 a p = None <-> @power RS a = 0 \/ Q2R p < 0).
Proof.
  unfold normalize_power_checked, R_is0.
  destruct (Req_EM_T (@power RS a) 0) as [E0|N0]; cbn [orb].
  - split; [discriminate|]. split; auto.
  - destruct (Qle_bool 0 (this p)) eqn:Ep; cbn [negb].
    + apply Qle_bool_0_Q2R in Ep. split.
      * intros b H. injection H as <-. cbn [kofq RS]. repeat split; auto.
        apply normalize_power_RS; [|assumption]. pose proof (power_RS_nonneg a). lra.
      * split; [discriminate|]. intros [H|H]; [contradiction|lra].
    + split; [discriminate|]. split; auto. intros _. right.
      apply Rnot_le_lt. intro H. apply Qle_bool_0_Q2R in H. congruence.
Qed.
Local Open Scope Z_scope.

(* small instances for the non-vacuity examples *)
Lemma power_RS_zero n m : @power RS (mkArr (S:=RS) n m (fun _ _ => 0%R)) = 0%R.
Proof. unfold power, asum, amap. cbn [nr nc get]. apply (sumZ_zero_ext RS RS_ring); intros x _.
  apply (sumZ_zero_ext RS RS_ring); intros y _. unfold norm2. cbn. apply Rmult_0_l. Qed.
Lemma power_RS_one (v : R) : @power RS (mkArr (S:=RS) 1 1 (fun _ _ => v)) = (v * v)%R.
Proof. unfold power, asum, amap. cbn [nr nc get]. rewrite !sumZ_RS_one. reflexivity. Qed.
