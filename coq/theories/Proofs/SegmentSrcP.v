(* WP-T3, C03: the segment bookkeeping of lentil/plane.py - the slice _plane_slice computes for a mask (through
   helper.boundary_slice), the offset helper.slice_offset gives a segment, Plane.shape and Plane.size by the rank of
   the mask - translated from the source text on every check (Gen/SegmentSrc.v), equals Model/Plane.v's own copies
   ([boundary_slice], [slice_offset], [plane_shape], [psize]) for all integers. *)
From LV Require Import Model.Plane Gen.SegmentSrc Proofs.SrcTac.

Lemma src_plane_slice_2d_vals : forall (n m : Z) (b : extent),
  src_plane_slice_2d (n, m) b =
  let '(rmin, rmax, cmin, cmax) := b in
  ((Z.max (rmin - 0) 0, Z.min (rmax + 0 + 1) n), (Z.max (cmin - 0) 0, Z.min (cmax + 0 + 1) m)).
Proof. intros; destr_prods; unfold src_plane_slice_2d; src_finish. Qed.

Lemma src_plane_slice_2d_ok : forall (m : garr bool) (b : extent), util_boundary m = Ok b ->
  boundary_slice m = Ok (let '((r0, r1), (c0, c1)) := src_plane_slice_2d (pnr m, pnc m) b in SBox r0 r1 c0 c1).
Proof.
  intros m b H. unfold boundary_slice. rewrite H, src_plane_slice_2d_vals.
  destruct b as [[[rmin rmax] cmin] cmax]. reflexivity.
Qed.

Lemma src_plane_slice_offset_ok : forall r0 r1 c0 c1 n m : Z,
  src_plane_slice_offset ((r0, r1), (c0, c1)) (n, m) = slice_offset (SBox r0 r1 c0 c1) n m.
Proof. intros; unfold src_plane_slice_offset, slice_offset; src_finish. Qed.

Lemma src_plane_shape_2d_ok : forall a : garr bool,
  plane_shape (PM2 a) = let '(n, m) := src_plane_shape_2d (pnr a, pnc a) in Sh2 n m.
Proof. intros. unfold src_plane_shape_2d. src_norm. reflexivity. Qed.

Lemma src_plane_shape_3d_ok : forall (n m : Z) (l : list (garr bool)),
  plane_shape (PM3 n m l) = let '(a, b) := src_plane_shape_3d (Z.of_nat (length l), n, m) in Sh2 a b.
Proof. intros. unfold src_plane_shape_3d. src_norm. reflexivity. Qed.

Lemma src_plane_size_2d_ok : forall a : garr bool, Z.of_nat (psize (PM2 a)) = src_plane_size_2d (pnr a, pnc a).
Proof. intros. unfold src_plane_size_2d. src_norm. reflexivity. Qed.

Lemma src_plane_size_3d_ok : forall (n m : Z) (l : list (garr bool)),
  Z.of_nat (psize (PM3 n m l)) = src_plane_size_3d (Z.of_nat (length l), n, m).
Proof. intros. unfold src_plane_size_3d. src_norm. reflexivity. Qed.
